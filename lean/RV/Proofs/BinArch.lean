/-
  The archive theorem: for a history s0, s1 … sn the archive written by n appends has n+1 index entries
  with the right times, and snapshot k is (id by id) the state s_k.
-/
import RV.Proofs.BinSnap
set_option linter.unusedVariables false
set_option linter.unusedSimpArgs false
namespace RV.Bin

/-- what is assumed of a history: a header, a first serialisation `fs0` and later serialisations `bs`,
    all with well-formed fields, unique ids, an 8-byte time field each, version ≥ 2, deltas < 2³¹ bytes -/
structure HistOK (v : Variant) (cmp : Nat → Bytes → Bytes → Bool) (hdr : Bytes) (fs0 : List Field)
    (bs : List (List Field)) : Prop where
  hdr : HdrOK hdr
  b0 : BlobOK fs0
  s0 : ScanOK fs0
  ver : 2 ≤ verOf fs0 0
  u0 : (ids fs0).Nodup
  each : ∀ b ∈ bs, BlobOK b ∧ (ids b).Nodup ∧ (∀ f ∈ fs0, f.ty = T_ID → ∃ g ∈ b, g.ty = f.ty) ∧
    blobLen (diffF v cmp fs0 b) < 2147483648

/-- the deltas the appends write -/
def deltas (v : Variant) (cmp : Nat → Bytes → Bytes → Bool) (fs0 : List Field) (bs : List (List Field)) :
    List (List Field) := bs.map (diffF v cmp fs0)

/-- the archive after saving `fs0` and appending `bs` (every append is `overwrite … pendingData`, see
    `append_shape`) -/
def archOf (v : Variant) (cmp : Nat → Bytes → Bytes → Bool) (hdr : Bytes) (fs0 : List Field)
    (bs : List (List Field)) : Bytes := archI hdr fs0 (deltas v cmp fs0 bs)

theorem archOK_of_hist (v : Variant) (cmp : Nat → Bytes → Bytes → Bool) (hdr : Bytes) (fs0 : List Field)
    (bs : List (List Field)) (h : HistOK v cmp hdr fs0 bs)
    (hv : v.f1 = true ∨ ∀ b ∈ bs, ¬ Vanishes fs0 b) : ArchOK hdr fs0 (deltas v cmp fs0 bs) := by
  refine ⟨h.hdr, h.b0, h.s0, h.ver, ?_⟩
  intro d hd
  obtain ⟨b, hb, rfl⟩ := List.mem_map.mp hd
  obtain ⟨hbo, hbu, hbt, hbl⟩ := h.each b hb
  refine ⟨diffF_BlobOK v cmp fs0 b h.b0 hbo hbu ?_ hbt, hbl⟩
  rcases hv with hv | hv
  · exact Or.inl hv
  · exact Or.inr (hv b hb)

/-- **archive theorem, snapshots**: loading snapshot `j+1` gives, id by id ("absent" = "empty"), the state
    whose serialisation `b` was the `j`-th append -/
theorem archive_snapshot (v : Variant) (cmp : Nat → Bytes → Bytes → Bool) (hc : CmpExact cmp) (init : State)
    (hdr : Bytes) (fs0 : List Field) (bs : List (List Field)) (h : HistOK v cmp hdr fs0 bs)
    (hv : v.f1 = true ∨ ∀ b ∈ bs, ¬ Vanishes fs0 b)
    (j : Nat) (b : List Field) (hj : bs[j]? = some b)
    (hinit : ∀ f ∈ fs0, (∀ g ∈ b, g.ty ≠ f.ty) → init.val f.ty = []) :
    ∃ st, snapshot init (archOf v cmp hdr fs0 bs)
            ((index v (archOf v cmp hdr fs0 bs)).map (·.off)) (j + 1) = some st ∧
          ∀ k, st.val k = (applyF init b).val k := by
  have hA := archOK_of_hist v cmp hdr fs0 bs h hv
  have hidx : (index v (archOf v cmp hdr fs0 bs)).map (·.off) = (archEntries fs0 (deltas v cmp fs0 bs)).map (·.off) := by
    rw [archOf, index_intact v hdr fs0 _ hA]
    unfold fixTimes
    cases v.f11
    · simp
    · simp only [if_true, archEntries, List.map_cons, List.map_map]
      congr 1
  have hjd : (deltas v cmp fs0 bs)[j]? = some (diffF v cmp fs0 b) := by
    simp [deltas, List.getElem?_map, hj]
  obtain ⟨hs, _⟩ := snapshot_arch init hdr fs0 (deltas v cmp fs0 bs) hA j _ hjd
  refine ⟨_, by rw [hidx, archOf]; exact hs, ?_⟩
  intro k
  have hb := h.each b (List.mem_of_getElem? hj)
  exact delta_law_fields v cmp hc init fs0 b h.u0 hb.2.1 hinit k

/-- **archive theorem, count**: `n` appends give `n + 1` index entries -/
theorem archive_count (v : Variant) (cmp : Nat → Bytes → Bytes → Bool) (hdr : Bytes) (fs0 : List Field)
    (bs : List (List Field)) (h : HistOK v cmp hdr fs0 bs) (hv : v.f1 = true ∨ ∀ b ∈ bs, ¬ Vanishes fs0 b) :
    (index v (archOf v cmp hdr fs0 bs)).length = bs.length + 1 := by
  have hA := archOK_of_hist v cmp hdr fs0 bs h hv
  rw [archOf, index_intact v hdr fs0 _ hA]
  have : ∀ es, (fixTimes v es).length = es.length := by
    intro es
    unfold fixTimes
    cases v.f11
    · simp
    · cases es <;> simp
  rw [this]
  simp [archEntries, chainEntries_length, deltas]

theorem chainEntries_get (pos : Nat) (ds : List (List Field)) (j : Nat) (d : List Field) (hj : ds[j]? = some d) :
    ∃ off, (chainEntries pos ds)[j]? = some ⟨off, tOf d none⟩ := by
  induction ds generalizing j pos with
  | nil => simp at hj
  | cons d0 r ih =>
    cases j with
    | zero =>
      simp only [List.getElem?_cons_zero, Option.some.injEq] at hj
      subst hj
      exact ⟨pos, by simp [chainEntries]⟩
    | succ j' =>
      simp only [List.getElem?_cons_succ] at hj
      obtain ⟨off, ho⟩ := ih (pos + blobLen d0 + 12) j' hj
      exact ⟨off, by simp [chainEntries, ho]⟩

/-- **archive theorem, times**: the time the index reports for snapshot `j+1`.
    `t0`,`tb` are the time fields of the first and of the appended serialisation. -/
theorem archive_time (v : Variant) (cmp : Nat → Bytes → Bytes → Bool) (hdr : Bytes) (fs0 : List Field)
    (bs : List (List Field)) (h : HistOK v cmp hdr fs0 bs) (hv : v.f1 = true ∨ ∀ b ∈ bs, ¬ Vanishes fs0 b)
    (j : Nat) (b : List Field) (hj : bs[j]? = some b) (t0 tb : Field)
    (h0 : t0 ∈ fs0) (hb : tb ∈ b) (h0t : t0.ty = T_ID) (hbt : tb.ty = T_ID) :
    ∃ off, (index v (archOf v cmp hdr fs0 bs))[j + 1]? =
      some ⟨off, if sameF cmp t0 tb then (if v.f11 then some t0.data else none) else some tb.data⟩ := by
  have hA := archOK_of_hist v cmp hdr fs0 bs h hv
  have hbb := h.each b (List.mem_of_getElem? hj)
  have hjd : (deltas v cmp fs0 bs)[j]? = some (diffF v cmp fs0 b) := by
    simp [deltas, List.getElem?_map, hj]
  obtain ⟨off, ho⟩ := chainEntries_get (off1 fs0) _ j _ hjd
  have ht := tOf_diff v cmp fs0 b h.u0 hbb.2.1 t0 tb h0 hb h0t hbt
  have ht0 : tOf fs0 none = some t0.data :=
    tOf_some fs0 none t0.data ⟨t0, h0, h0t⟩
      (fun e he hty => by rw [unique_of_nodup fs0 h.u0 t0 e h0 he (hty.trans h0t.symm)])
  refine ⟨off, ?_⟩
  rw [archOf, index_intact v hdr fs0 _ hA]
  unfold fixTimes archEntries
  cases hf11 : v.f11
  · simp only [Bool.false_eq_true, if_false, List.getElem?_cons_succ, ho, ht]
  · simp only [if_true, List.getElem?_cons_succ, List.getElem?_map, ho, Option.map_some, ht, ht0]
    cases sameF cmp t0 tb <;> simp

end RV.Bin
