import RV.Proofs.WHSteps
/-
  Democratic heliocentric coordinates (WHFast `coordinates = democraticheliocentric`, also the frame
  of MERCURIUS/TRACE): slot 0 = (R, V) centre of mass, slot i ≥ 1 = (Q_i, W_i) = (x_i − x_0, v_i − V).
      L = M R×V + Σ_{i≥1} m_i Q_i × W_i ,     P = M V
  and what the jump step, the interaction step, the Kepler step and the com step do to them.
-/
set_option linter.unusedTactic false
set_option linter.unusedVariables false
set_option linter.unusedSimpArgs false
set_option linter.unusedSectionVars false
namespace RV.WH
open RV RV.Diag
variable {K : Type} [Field K]

theorem V3.sum_cross {ι : Type} (s : Finset ι) (f : ι → V3 K) (b : V3 K) :
    V3.cross (∑ i ∈ s, f i) b = ∑ i ∈ s, V3.cross (f i) b := by
  classical
  induction s using Finset.induction_on with
  | empty => ext <;> simp
  | insert a s ha ih => simp [Finset.sum_insert ha, ih, V3.add_cross]

theorem V3.cross_sub (a b c : V3 K) : V3.cross a (b - c) = V3.cross a b - V3.cross a c := by
  ext <;> simp <;> ring
theorem V3.sub_cross (a b c : V3 K) : V3.cross (a - b) c = V3.cross a c - V3.cross b c := by
  ext <;> simp <;> ring

def Mtot (N : Nat) (m : Nat → K) : K := ∑ i ∈ Finset.range N, m i
def Rcom (N : Nat) (m : Nat → K) (x : Nat → V3 K) : V3 K := (1 / Mtot N m) • ∑ i ∈ Finset.range N, m i • x i

/-- **DH decomposition of angular momentum** -/
theorem angmom_dh (N : Nat) (hN : 1 ≤ N) (m : Nat → K) (x v : Nat → V3 K) (hM : Mtot N m ≠ 0) :
    ∑ i ∈ Finset.range N, m i • V3.cross (x i) (v i)
      = Mtot N m • V3.cross (Rcom N m x) (Rcom N m v)
        + ∑ i ∈ Finset.Ico 1 N, m i • V3.cross (x i - x 0) (v i - Rcom N m v) := by
  set V := Rcom N m v with hV
  have hMV : ∑ i ∈ Finset.range N, m i • v i = Mtot N m • V := by
    rw [hV, Rcom, smul_smul, mul_one_div_cancel hM, one_smul]
  have hMR : Mtot N m • V3.cross (Rcom N m x) V = V3.cross (∑ i ∈ Finset.range N, m i • x i) V := by
    rw [Rcom, V3.smul_cross, smul_smul, mul_one_div_cancel hM, one_smul]
  -- extend the second sum to i = 0 (its term vanishes) and expand
  have h0 : ∑ i ∈ Finset.Ico 1 N, m i • V3.cross (x i - x 0) (v i - V)
      = ∑ i ∈ Finset.range N, m i • V3.cross (x i - x 0) (v i - V) := by
    rw [range_split N hN]
    have : V3.cross (x 0 - x 0) (v 0 - V) = 0 := by ext <;> simp
    rw [this]; simp
  rw [h0, hMR, V3.sum_cross, ← Finset.sum_add_distrib]
  have e : ∀ i ∈ Finset.range N, V3.cross (m i • x i) V + m i • V3.cross (x i - x 0) (v i - V)
      = m i • V3.cross (x i) (v i) - V3.cross (x 0) (m i • v i - m i • V) := by
    intro i _
    ext <;> simp <;> ring
  rw [Finset.sum_congr rfl e, Finset.sum_sub_distrib, ← V3.cross_sum, Finset.sum_sub_distrib, hMV,
    ← Finset.sum_smul]
  simp [Mtot, V3.cross_zero]

/-- DH state -/
structure DS (K : Type) where
  R : V3 K
  V : V3 K
  Q : Nat → V3 K
  W : Nat → V3 K

def LD (N : Nat) (m : Nat → K) (s : DS K) : V3 K :=
  Mtot N m • V3.cross s.R s.V + ∑ i ∈ Finset.Ico 1 N, m i • V3.cross (s.Q i) (s.W i)
def PD (N : Nat) (m : Nat → K) (s : DS K) : V3 K := Mtot N m • s.V

/-- `reb_whfast_jump_step` (DH): `p_h[i].x += dt * (Σ_k m_k p_h[k].v)/m0` for every `i ≥ 1` -/
def jumpDH (N : Nat) (m : Nat → K) (τ : K) (s : DS K) : DS K :=
  { s with Q := fun i => s.Q i + (τ / m 0) • ∑ k ∈ Finset.Ico 1 N, m k • s.W k }

theorem jump_conserves (N : Nat) (m : Nat → K) (τ : K) (s : DS K) :
    LD N m (jumpDH N m τ s) = LD N m s ∧ PD N m (jumpDH N m τ s) = PD N m s ∧
    (jumpDH N m τ s).R = s.R ∧ (jumpDH N m τ s).V = s.V := by
  refine ⟨?_, rfl, rfl, rfl⟩
  unfold LD jumpDH
  simp only
  congr 1
  have e : ∀ i ∈ Finset.Ico 1 N, m i • V3.cross (s.Q i + (τ / m 0) • ∑ k ∈ Finset.Ico 1 N, m k • s.W k) (s.W i)
      = m i • V3.cross (s.Q i) (s.W i)
        + (τ / m 0) • V3.cross (∑ k ∈ Finset.Ico 1 N, m k • s.W k) (m i • s.W i) := by
    intro i _
    rw [V3.add_cross, V3.smul_cross, V3.cross_smul, smul_add, smul_comm (m i) (τ / m 0)]
  rw [Finset.sum_congr rfl e, Finset.sum_add_distrib, ← Finset.smul_sum, ← V3.cross_sum, V3.cross_self]
  simp

/-- `reb_whfast_interaction_step` (DH): `p_h[i].v += dt * a_i`, `i ≥ 1` -/
def kickDH (τ : K) (a : Nat → V3 K) (s : DS K) : DS K := { s with W := fun i => s.W i + τ • a i }

/-- the DH interaction step conserves L and P when the planet–planet forces (evaluated at the inertial
    positions `x`, with `Q_i = x_i − x_0`) obey Newton 3 and carry no torque, and the star feels none
    of them (`gravity_ignore_terms = 2`) -/
theorem kickDH_conserves (N : Nat) (hN : 1 ≤ N) (m : Nat → K) (τ : K) (x a : Nat → V3 K) (s : DS K)
    (hQ : ∀ i, s.Q i = x i - x 0) (ha0 : a 0 = 0)
    (h3 : ∑ i ∈ Finset.range N, m i • a i = 0)
    (ht : ∑ i ∈ Finset.range N, m i • V3.cross (x i) (a i) = 0) :
    LD N m (kickDH τ a s) = LD N m s ∧ PD N m (kickDH τ a s) = PD N m s ∧
    (∑ i ∈ Finset.Ico 1 N, m i • (kickDH τ a s).W i) = ∑ i ∈ Finset.Ico 1 N, m i • s.W i := by
  have h3' : ∑ i ∈ Finset.Ico 1 N, m i • a i = 0 := by
    rw [range_split N hN, ha0, smul_zero, zero_add] at h3; exact h3
  have ht' : ∑ i ∈ Finset.Ico 1 N, m i • V3.cross (x i) (a i) = 0 := by
    rw [range_split N hN, ha0, V3.cross_zero, smul_zero, zero_add] at ht; exact ht
  refine ⟨?_, rfl, ?_⟩
  · unfold LD kickDH
    simp only
    congr 1
    have e : ∀ i ∈ Finset.Ico 1 N, m i • V3.cross (s.Q i) (s.W i + τ • a i)
        = m i • V3.cross (s.Q i) (s.W i) + τ • (m i • V3.cross (x i) (a i) - V3.cross (x 0) (m i • a i)) := by
      intro i _
      rw [hQ i]
      ext <;> simp <;> ring
    rw [Finset.sum_congr rfl e, Finset.sum_add_distrib, ← Finset.smul_sum, Finset.sum_sub_distrib, ht',
      ← V3.cross_sum, h3', V3.cross_zero]
    simp
  · simp only [kickDH, smul_add, Finset.sum_add_distrib]
    rw [show ∑ i ∈ Finset.Ico 1 N, m i • τ • a i = τ • ∑ i ∈ Finset.Ico 1 N, m i • a i by
      rw [Finset.smul_sum]; apply Finset.sum_congr rfl; intro i _; rw [smul_comm], h3']
    simp

/-- Kepler step (each `(Q_i, W_i)` keeps its own `Q×W`) and com step in DH coordinates -/
theorem keplerDH_conserves (N : Nat) (m : Nat → K) (s s' : DS K) (hR : s'.R = s.R) (hV : s'.V = s.V)
    (h : ∀ i, 1 ≤ i → i < N → V3.cross (s'.Q i) (s'.W i) = V3.cross (s.Q i) (s.W i)) :
    LD N m s' = LD N m s ∧ PD N m s' = PD N m s := by
  refine ⟨?_, by simp [PD, hV]⟩
  unfold LD
  rw [hR, hV]
  congr 1
  apply Finset.sum_congr rfl
  intro i hi
  have := Finset.mem_Ico.mp hi
  rw [h i this.1 this.2]

theorem comDH_conserves (N : Nat) (m : Nat → K) (τ : K) (s : DS K) :
    LD N m { s with R := s.R + τ • s.V } = LD N m s ∧ PD N m { s with R := s.R + τ • s.V } = PD N m s := by
  refine ⟨?_, rfl⟩
  unfold LD
  simp only
  rw [V3.add_cross, V3.smul_cross, V3.cross_self]; simp

end RV.WH
