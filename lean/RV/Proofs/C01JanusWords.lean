import RV.Model.Advertised
import RV.Gen.C01Janus
/- C01 / JANUS: the orders 2, 4, 6, 8 checked directly in the free algebra on two letters (all 2ⁿ words of every length
   n ≤ order); the 10th-order scheme up to length 6 (its full order is covered by `composition_order`) -/
namespace RV.C01.Janus
open RV.C01 RV.C01.Gen RV.C01.Adv

theorem words_2_4_6 : ∀ o ∈ [2, 4, 6], ∀ s ∈ janusStep.lookup o, WordOrder s (List.replicate (o + 1) o) 0 tolJanus := by
  decide +kernel
theorem words_8 : ∀ s ∈ janusStep.lookup 8, WordOrder s (List.replicate 9 8) 0 tolJanus := by decide +kernel
theorem words_10_partial : ∀ s ∈ janusStep.lookup 10, WordOrder s (List.replicate 7 6) 0 tolJanus := by decide +kernel
end RV.C01.Janus
