import RV.Model.Advertised
import RV.Gen.C01Saba
/-
  C01 / SABA family: facts about the coefficient tables and schedules of the current source
  (lean/RV/Gen/C01Saba.lean), decided by kernel evaluation in exact rational arithmetic.
-/
namespace RV.C01.Saba
open RV.C01 RV.C01.Gen RV.C01.Adv

theorem counts : sabaCounts = [("c literals", 35), ("d literals", 30), ("cc literals", 4), ("types", 18)] ∧
    sabaStep.length = 18 ∧ sabaTwoUnsync.length = 18 := by decide +kernel

theorem stages : ∀ t ∈ sabaTypes, sabaStages.lookup t.2.1 = some t.2.2 ∧ (sabaStep.lookup t.2.1).isSome := by
  decide +kernel

theorem consistent : ∀ e ∈ sabaStep, Consistent e.2 tolSaba := by decide +kernel

theorem symmetric : ∀ e ∈ sabaStep, Palindrome e.2 := by decide +kernel

theorem fresh : ∀ e ∈ sabaStep, Fresh e.2 := by decide +kernel

theorem stage_count : ∀ t ∈ sabaTypes, ∀ s ∈ sabaStep.lookup t.2.1,
    (s.filter (fun o => o.kind == 1 && o.a != 0)).length = t.2.2 ∧ countKind 0 s = t.2.2 + 1 := by decide +kernel

theorem quadrature : ∀ e ∈ sabaStep, ∀ lim ∈ saba.lookup e.1, Quadrature e.2 (lim.getD 1 0) tolSaba := by
  decide +kernel

theorem unsync : ∀ e ∈ sabaStep, ∀ two ∈ sabaTwoUnsync.lookup e.1, norm two = norm (e.2 ++ e.2) := by
  decide +kernel
theorem order : ∀ e ∈ sabaStep, ∀ lim ∈ saba.lookup e.1, WordOrder e.2 lim κWH tolSaba := by decide +kernel

theorem advertised_known : ∀ e ∈ sabaStep, (saba.lookup e.1).isSome := by decide +kernel
end RV.C01.Saba
