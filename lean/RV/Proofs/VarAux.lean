import RV.Proofs.Var
import Mathlib.Algebra.Order.Field.Basic
import Mathlib.Algebra.BigOperators.Group.List.Basic
import Mathlib.Tactic.Linarith
import Mathlib.Data.List.Forall2
import Mathlib.Analysis.SpecialFunctions.Log.Basic
import Mathlib.Algebra.Order.Field.Rat
/- helper lemmas for RV/Props/C16.lean: single test-particle variations, move_to_com, rescale_var -/
set_option linter.unusedTactic false
set_option linter.unreachableTactic false
set_option linter.unnecessarySeqFocus false
set_option linter.unusedVariables false
set_option linter.unusedSimpArgs false
set_option linter.unusedSectionVars false
namespace RV.Var
open RV

section fold
variable {α β A B : Type}
theorem foldl_hom (φ : A → B) (addA : A → A → A) (addB : B → B → B)
    (hadd : ∀ a b, φ (addA a b) = addB (φ a) (φ b)) (gA : α → A) (gB : β → B) (ψ : β → α)
    (l : List β) (h : ∀ p ∈ l, φ (gA (ψ p)) = gB p) (a0 : A) :
    φ ((l.map ψ).foldl (fun a p => addA a (gA p)) a0) = l.foldl (fun a p => addB a (gB p)) (φ a0) := by
  induction l generalizing a0 with
  | nil => rfl
  | cons p r ih =>
    simp only [List.map_cons, List.foldl_cons]
    rw [ih (fun q hq => h q (by simp [hq])), hadd, h p (by simp)]
end fold

section tp
variable {K : Type} [Field K] [CharZero K]

def cGP (p : GP K) : GP (Dual K) := ⟨Dual.const p.m, Dual.const p.x, Dual.const p.y, Dual.const p.z⟩
def cGP2 (p : GP K) : GP (Dual2 K) :=
  ⟨Dual.const (Dual.const p.m), Dual.const (Dual.const p.x), Dual.const (Dual.const p.y),
   Dual.const (Dual.const p.z)⟩

/-- first-order single test-particle term = ε-part of the test-particle force term -/
theorem tpVar1_term (G : K) (sq : K → K) (x y z ddx ddy ddz : K) (pj : GP K)
    (h : PairOK sq ⟨0, x, y, z⟩ pj) :
    epsV (tpForceTerm (Dual.const G) Scalar.zero (Dual.sqrtLift sq) ⟨x, ddx⟩ ⟨y, ddy⟩ ⟨z, ddz⟩ (cGP pj))
      = tpVar1Term G sq x y z ddx ddy ddz pj := by
  have h1 := (var1_pair G sq (⟨0, x, y, z⟩, ⟨0, ddx, ddy, ddz⟩) (pj, ⟨0, 0, 0, 0⟩) h).1
  have h0 : tpForceTerm (Dual.const G) Scalar.zero (Dual.sqrtLift sq) ⟨x, ddx⟩ ⟨y, ddy⟩ ⟨z, ddz⟩ (cGP pj)
      = (forcePair (Dual.const G) Scalar.zero (Dual.sqrtLift sq)
          (dz1 (⟨0, x, y, z⟩, ⟨0, ddx, ddy, ddz⟩)) (dz1 (pj, ⟨0, 0, 0, 0⟩))).1 := rfl
  rw [h0, h1]
  obtain ⟨mj, xj, yj, zj⟩ := pj
  simp only [var1Pair, tpVar1Term, three, sc_zero, sc_one, sc_hadd, sc_hsub, sc_hmul, sc_hdiv, sc_hneg,
    sc_ofNat, sub_zero, mul_zero, zero_mul]

/-- second-order single test-particle term = ε₁ε₂-part of the test-particle force term -/
theorem tpVar2_term (G : K) (sq : K → K) (x y z : K) (dd k1 k2 : V3 K) (pj : GP K)
    (h : PairOK sq ⟨0, x, y, z⟩ pj) :
    epsV2 (tpForceTerm (Dual.const (Dual.const G)) Scalar.zero (Dual2.sqrtLift2 sq)
        (d4 x k1.x k2.x dd.x) (d4 y k1.y k2.y dd.y) (d4 z k1.z k2.z dd.z) (cGP2 pj))
      = tpVar2Term G sq x y z dd k1 k2 pj := by
  have h1 := (var2_pair G sq ⟨⟨0, x, y, z⟩, ⟨0, k1.x, k1.y, k1.z⟩, ⟨0, k2.x, k2.y, k2.z⟩, ⟨0, dd.x, dd.y, dd.z⟩⟩
      ⟨pj, ⟨0, 0, 0, 0⟩, ⟨0, 0, 0, 0⟩, ⟨0, 0, 0, 0⟩⟩ h).1
  have h0 : tpForceTerm (Dual.const (Dual.const G)) Scalar.zero (Dual2.sqrtLift2 sq)
        (d4 x k1.x k2.x dd.x) (d4 y k1.y k2.y dd.y) (d4 z k1.z k2.z dd.z) (cGP2 pj)
      = (forcePair (Dual.const (Dual.const G)) Scalar.zero (Dual2.sqrtLift2 sq)
          (dz2 ⟨⟨0, x, y, z⟩, ⟨0, k1.x, k1.y, k1.z⟩, ⟨0, k2.x, k2.y, k2.z⟩, ⟨0, dd.x, dd.y, dd.z⟩⟩)
          (dz2 ⟨pj, ⟨0, 0, 0, 0⟩, ⟨0, 0, 0, 0⟩, ⟨0, 0, 0, 0⟩⟩)).1 := rfl
  rw [h0, h1]
  obtain ⟨mj, xj, yj, zj⟩ := pj
  simp only [var2Pair, tpVar2Term, var2Upd, three, sc_zero, sc_one, sc_hadd, sc_hsub, sc_hmul, sc_hdiv,
    sc_hneg, sc_ofNat, sub_zero, mul_zero, zero_mul, add_zero]

end tp

/-! ## WHFast Jacobi term -/
section whfast
variable {K : Type} [Field K] [CharZero K]

/-- ε-part of the Jacobi kick with `η + ε·dη`: the code's variation plus a mass term the code lacks -/
theorem whJac_full (G eta deta dt : K) (sq : K → K) (x y z dx dy dz : K)
    (hs : sq (1 / (x*x + y*y + z*z)) * sq (1 / (x*x + y*y + z*z)) = 1 / (x*x + y*y + z*z))
    (hne : sq (1 / (x*x + y*y + z*z)) ≠ 0) :
    epsV (whJacKick (Dual.const G) ⟨eta, deta⟩ (Dual.const dt) Scalar.zero (Dual.sqrtLift sq) ⟨x, dx⟩ ⟨y, dy⟩ ⟨z, dz⟩)
      = V3.add (whJacKickVar G eta dt Scalar.zero sq x y z dx dy dz)
          (let c := dt * (sq (1 / (x*x + y*y + z*z)) * (1 / (x*x + y*y + z*z)) * G * deta); ⟨c*x, c*y, c*z⟩) := by
  have h2 : (2:K) ≠ 0 := by norm_num
  simp only [whJacKick, whJacKickVar, epsV, V3.add, three, Dual.add_re, Dual.add_eps, Dual.sub_re, Dual.sub_eps,
    Dual.mul_re, Dual.mul_eps, Dual.div_re, Dual.div_eps, Dual.neg_re, Dual.neg_eps, Dual.one_re, Dual.one_eps,
    Dual.sqrtLift_re, Dual.sqrtLift_eps, Dual.const_re, Dual.const_eps, Dual.zero_re, Dual.zero_eps,
    sc_zero, sc_one, sc_hadd, sc_hsub, sc_hmul, sc_hdiv, sc_hneg, sc_ofNat, add_zero, mul_zero]
  generalize hρ : sq (1 / (x * x + y * y + z * z)) = ρ at *
  have hs' : x * x + y * y + z * z = 1 / (ρ * ρ) := by
    rw [hs]; field_simp
  rw [hs']
  push_cast
  congr 1 <;> (field_simp; ring)

end whfast

/-! ## move_to_com -/
section com
variable {K : Type} [Field K] [CharZero K]

omit [CharZero K] in
theorem massSum_acc (s0 : K) (ms : List K) : ms.foldl (fun s m => s + m) s0 = s0 + ms.sum := by
  induction ms generalizing s0 with
  | nil => simp
  | cons m r ih => simp only [List.foldl_cons, List.sum_cons, sc_hadd, ih]; ring

omit [CharZero K] in
theorem massSum_eq (ms : List K) : massSum ms = ms.sum := by
  simp only [massSum, massSum_acc, sc_zero, zero_add]

/-- running sums of a fold over dual pairs (m,x): value and ε-part -/
def dC1 (p : C1 K) : Dual K × Dual K := (⟨p.m, p.dm⟩, ⟨p.x, p.dx⟩)

omit [CharZero K] in
theorem dualMx_acc (s0 : Dual K) (l : List (C1 K)) :
    ((l.map dC1).foldl (fun s p => s + p.1 * p.2) s0).re = s0.re + (l.map (fun p => p.m * p.x)).sum ∧
    ((l.map dC1).foldl (fun s p => s + p.1 * p.2) s0).eps
      = s0.eps + (l.map (fun p => p.m * p.dx + p.dm * p.x)).sum := by
  induction l generalizing s0 with
  | nil => simp
  | cons p r ih =>
    obtain ⟨h1, h2⟩ := ih (s0 + (dC1 p).1 * (dC1 p).2)
    simp only [List.map_cons, List.foldl_cons, List.sum_cons, h1, h2]
    simp only [dC1, Dual.add_re, Dual.add_eps, Dual.mul_re, Dual.mul_eps, sc_hadd, sc_hmul]
    constructor <;> ring

omit [CharZero K] in
theorem dualM_acc (s0 : Dual K) (l : List (C1 K)) :
    (((l.map dC1).map Prod.fst).foldl (fun s m => s + m) s0).re = s0.re + (l.map C1.m).sum ∧
    (((l.map dC1).map Prod.fst).foldl (fun s m => s + m) s0).eps = s0.eps + (l.map C1.dm).sum := by
  induction l generalizing s0 with
  | nil => simp
  | cons p r ih =>
    obtain ⟨h1, h2⟩ := ih (s0 + (dC1 p).1)
    simp only [List.map_cons, List.foldl_cons, List.sum_cons, h1, h2]
    simp only [dC1, Dual.add_re, Dual.add_eps, sc_hadd]
    constructor <;> ring

omit [CharZero K] in
theorem comShift1_acc (M dm s0 : K) (hM : M ≠ 0) (l : List (C1 K)) :
    l.foldl (fun s p => ((s + p.m/M * p.dx) + p.x/M * p.dm) - p.x/(M*M) * p.m*dm) s0
      = s0 + (l.map (fun p => p.m * p.dx + p.dm * p.x)).sum / M
           - (l.map (fun p => p.m * p.x)).sum * dm / (M*M) := by
  induction l generalizing s0 with
  | nil => simp
  | cons p r ih =>
    simp only [List.foldl_cons, List.map_cons, List.sum_cons, ih]
    field_simp
    ring

/-- second order: the four components of Σ m·x and Σ m over `Dual (Dual K)` -/
def dC2 (p : C2 K) : Dual2 K × Dual2 K := (⟨⟨p.m, p.ma⟩, ⟨p.mb, p.mm⟩⟩, ⟨⟨p.x, p.xa⟩, ⟨p.xb, p.xx⟩⟩)

omit [CharZero K] in
theorem dual2Mx_acc (s0 : Dual2 K) (l : List (C2 K)) :
    let S := (l.map dC2).foldl (fun s p => s + p.1 * p.2) s0
    S.re.re = s0.re.re + (l.map (fun p => p.m * p.x)).sum ∧
    S.re.eps = s0.re.eps + (l.map (fun p => p.m * p.xa + p.ma * p.x)).sum ∧
    S.eps.re = s0.eps.re + (l.map (fun p => p.m * p.xb + p.mb * p.x)).sum ∧
    S.eps.eps = s0.eps.eps + (l.map (fun p => p.m * p.xx + p.ma * p.xb + p.mb * p.xa + p.mm * p.x)).sum := by
  induction l generalizing s0 with
  | nil => simp
  | cons p r ih =>
    obtain ⟨h1, h2, h3, h4⟩ := ih (s0 + (dC2 p).1 * (dC2 p).2)
    simp only [List.map_cons, List.foldl_cons, List.sum_cons] at h1 h2 h3 h4 ⊢
    simp only [h1, h2, h3, h4]
    simp only [dC2, Dual.add_re, Dual.add_eps, Dual.mul_re, Dual.mul_eps, sc_hadd, sc_hmul]
    refine ⟨?_, ?_, ?_, ?_⟩ <;> ring

omit [CharZero K] in
theorem dual2M_acc (s0 : Dual2 K) (l : List (C2 K)) :
    let S := ((l.map dC2).map Prod.fst).foldl (fun s m => s + m) s0
    S.re.re = s0.re.re + (l.map C2.m).sum ∧ S.re.eps = s0.re.eps + (l.map C2.ma).sum ∧
    S.eps.re = s0.eps.re + (l.map C2.mb).sum ∧ S.eps.eps = s0.eps.eps + (l.map C2.mm).sum := by
  induction l generalizing s0 with
  | nil => simp
  | cons p r ih =>
    obtain ⟨h1, h2, h3, h4⟩ := ih (s0 + (dC2 p).1)
    simp only [List.map_cons, List.foldl_cons, List.sum_cons] at h1 h2 h3 h4 ⊢
    simp only [h1, h2, h3, h4]
    simp only [dC2, Dual.add_re, Dual.add_eps, sc_hadd]
    refine ⟨?_, ?_, ?_, ?_⟩ <;> ring

omit [CharZero K] in
/-- ε₁ε₂-part of a quotient of second-order duals -/
theorem quot2_epseps (S0 Sa Sb Sab M dma dmb ddm : K) (hM : M ≠ 0) :
    ((⟨⟨S0, Sa⟩, ⟨Sb, Sab⟩⟩ : Dual2 K) / ⟨⟨M, dma⟩, ⟨dmb, ddm⟩⟩).eps.eps
      = Sab/M - Sa*dmb/(M*M) - Sb*dma/(M*M) - S0*ddm/(M*M) + 2*S0*dma*dmb/(M*M*M) := by
  simp only [Dual.div_eps, Dual.div_re, Dual.mul_re, Dual.mul_eps, Dual.sub_re, Dual.sub_eps,
    sc_hadd, sc_hsub, sc_hmul, sc_hdiv]
  field_simp
  ring

omit [CharZero K] in
theorem comShift2_acc (M dma dmb ddm s0 : K) (hM : M ≠ 0) (l : List (C2 K)) :
    l.foldl (fun s p =>
      (((((((((s + p.xx / M * p.m) + p.xa / M * p.mb) - p.xa * p.m/M/M*dmb) + p.xb / M * p.ma)
        + p.x / M * p.mm) - p.x * p.ma/M/M*dmb) - p.xb * p.m/M/M*dma) - p.x * p.mb/M/M*dma)
        + 2*p.x * p.m/M/M/M*dma*dmb) - p.x * p.m/M/M*ddm) s0
      = s0 + (l.map (fun p => p.m * p.xx + p.ma * p.xb + p.mb * p.xa + p.mm * p.x)).sum / M
           - (l.map (fun p => p.m * p.xa + p.ma * p.x)).sum * dmb / (M*M)
           - (l.map (fun p => p.m * p.xb + p.mb * p.x)).sum * dma / (M*M)
           - (l.map (fun p => p.m * p.x)).sum * ddm / (M*M)
           + 2 * (l.map (fun p => p.m * p.x)).sum * dma * dmb / (M*M*M) := by
  induction l generalizing s0 with
  | nil => simp
  | cons p r ih =>
    simp only [List.foldl_cons, List.map_cons, List.sum_cons, ih]
    field_simp
    ring

end com

/-! ## the real numbers with the true square root satisfy `PairOK` whenever positions differ -/
theorem pairOK_real (a b : GP ℝ) (h : r2of a b ≠ 0) : PairOK Real.sqrt a b := by
  have h0 : 0 ≤ r2of a b := by
    simp only [r2of]
    exact add_nonneg (add_nonneg (mul_self_nonneg _) (mul_self_nonneg _)) (mul_self_nonneg _)
  exact ⟨Real.mul_self_sqrt h0, fun hz => h ((Real.sqrt_eq_zero h0).mp hz)⟩

/-- a square root on the three rational squared distances 9, 16, 25 (examples in Props) -/
def sqQ : ℚ → ℚ := fun s => if s = 25 then 5 else if s = 16 then 4 else if s = 9 then 3 else 0

/-! ## reb_simulation_rescale_var -/
section rescale
variable {K : Type} [Field K] [LinearOrder K] [IsStrictOrderedRing K]

/-- the non-field operations of the routine over an ordered field; `log` stays abstract -/
def fieldOps (log : K → K) : ROps K :=
  { fabs := fun x => |x|, log := log, gt := fun a b => decide (a > b), lt := fun a b => decide (a < b) }

/-- number of variational particles of a configuration -/
def nOf (nReal : Nat) (vc : VC K) : Nat := if vc.single then 1 else nReal
/-- the slots `[index, index+N)` of the particle array that belong to a configuration -/
def InRange (nReal : Nat) (vc : VC K) (k : Nat) : Prop := vc.index ≤ k ∧ k < vc.index + nOf nReal vc
def DisjointCfg (nReal : Nat) (a b : VC K) : Prop := ∀ k, ¬ (InRange nReal a k ∧ InRange nReal b k)
def scaleP (c : K) (p : P6 K) : P6 K := ⟨c*p.x, c*p.y, c*p.z, c*p.vx, c*p.vy, c*p.vz⟩

/-- what `rescale_var` may do to one configuration: bookkeeping fields unchanged, the
    represented variation `exp(lrescale)·δ` unchanged, and nothing at all changed for
    second-order sets and sets with `lrescale < 0` -/
def CfgRel (exp : K → K) (nReal : Nat) (mem mem' : Nat → P6 K) (vc vc' : VC K) : Prop :=
  vc'.order = vc.order ∧ vc'.index = vc.index ∧ vc'.single = vc.single ∧
  (∀ k, InRange nReal vc k → scaleP (exp vc'.lrescale) (mem' k) = scaleP (exp vc.lrescale) (mem k)) ∧
  ((vc.order ≠ 1 ∨ vc.lrescale < 0) → vc'.lrescale = vc.lrescale ∧ ∀ k, InRange nReal vc k → mem' k = mem k)

theorem CfgRel.refl (exp : K → K) (nReal : Nat) (mem : Nat → P6 K) (vc : VC K) :
    CfgRel exp nReal mem mem vc vc :=
  ⟨rfl, rfl, rfl, fun _ _ => rfl, fun _ => ⟨rfl, fun _ _ => rfl⟩⟩

theorem forall2_refl (exp : K → K) (nReal : Nat) (mem : Nat → P6 K) (l : List (VC K)) :
    List.Forall₂ (CfgRel exp nReal mem mem) l l := by
  induction l with
  | nil => exact List.Forall₂.nil
  | cons a r ih => exact List.Forall₂.cons (CfgRel.refl exp nReal mem a) ih

theorem CfgRel.congr_mem (exp : K → K) (nReal : Nat) (mem0 mem mem' : Nat → P6 K) (vc vc' : VC K)
    (h : CfgRel exp nReal mem mem' vc vc') (he : ∀ k, InRange nReal vc k → mem k = mem0 k) :
    CfgRel exp nReal mem0 mem' vc vc' := by
  obtain ⟨h1, h2, h3, h4, h5⟩ := h
  refine ⟨h1, h2, h3, fun k hk => by rw [h4 k hk, he k hk], fun hc => ⟨(h5 hc).1, fun k hk => by
    rw [(h5 hc).2 k hk, he k hk]⟩⟩

theorem forall2_congr_mem (exp : K → K) (nReal : Nat) (mem0 mem mem' : Nat → P6 K) (l l' : List (VC K))
    (h : List.Forall₂ (CfgRel exp nReal mem mem') l l')
    (he : ∀ v ∈ l, ∀ k, InRange nReal v k → mem k = mem0 k) :
    List.Forall₂ (CfgRel exp nReal mem0 mem') l l' := by
  induction h with
  | nil => exact List.Forall₂.nil
  | cons hab _ ih =>
    exact List.Forall₂.cons (CfgRel.congr_mem exp nReal mem0 mem mem' _ _ hab (he _ (by simp)))
      (ih (fun v hv => he v (by simp [hv])))

theorem scaleP_div (exp log : K → K) (hadd : ∀ a b, exp (a + b) = exp a * exp b)
    (hlog : ∀ s, 0 < s → exp (log s) = s) (lr s : K) (hs : 0 < s) (p : P6 K) :
    scaleP (exp (lr + log s)) (divP p s) = scaleP (exp lr) p := by
  have hne : s ≠ 0 := ne_of_gt hs
  simp only [scaleP, divP, hadd, hlog s hs, sc_hdiv, P6.mk.injEq]
  refine ⟨?_, ?_, ?_, ?_, ?_, ?_⟩ <;> (field_simp)

theorem rescaleLoop_spec (exp log : K → K) (hadd : ∀ a b, exp (a + b) = exp a * exp b)
    (hlog : ∀ s, 0 < s → exp (log s) = s) (thr : K) (hthr : 0 ≤ thr) (nReal : Nat) (sync : Bool)
    (cfgs : List (VC K)) (mem : Nat → P6 K) (w1 w2 : Bool)
    (hd : cfgs.Pairwise (DisjointCfg nReal)) :
    List.Forall₂ (CfgRel exp nReal mem (rescaleLoop (fieldOps log) thr nReal sync mem cfgs w1 w2).mem)
        cfgs (rescaleLoop (fieldOps log) thr nReal sync mem cfgs w1 w2).cfgs ∧
    (∀ k, (∀ vc ∈ cfgs, ¬ InRange nReal vc k) →
      (rescaleLoop (fieldOps log) thr nReal sync mem cfgs w1 w2).mem k = mem k) := by
  induction cfgs generalizing mem w1 w2 with
  | nil => exact ⟨List.Forall₂.nil, fun _ _ => rfl⟩
  | cons vc rest ih =>
    rw [List.pairwise_cons] at hd
    obtain ⟨hd1, hd2⟩ := hd
    -- "continue" branches: the head is left alone and the loop goes on with the same memory
    have hcont : ∀ (w1' w2' : Bool),
        List.Forall₂ (CfgRel exp nReal mem (rescaleLoop (fieldOps log) thr nReal sync mem rest w1' w2').mem)
          (vc :: rest) (vc :: (rescaleLoop (fieldOps log) thr nReal sync mem rest w1' w2').cfgs) ∧
        (∀ k, (∀ v ∈ vc :: rest, ¬ InRange nReal v k) →
          (rescaleLoop (fieldOps log) thr nReal sync mem rest w1' w2').mem k = mem k) := by
      intro w1' w2'
      obtain ⟨ihA, ihB⟩ := ih mem w1' w2' hd2
      refine ⟨List.Forall₂.cons ?_ ihA, fun k hk => ihB k (fun v hv => hk v (by simp [hv]))⟩
      have hsame : ∀ k, InRange nReal vc k →
          (rescaleLoop (fieldOps log) thr nReal sync mem rest w1' w2').mem k = mem k :=
        fun k hk => ihB k (fun v hv hv' => hd1 v hv k ⟨hk, hv'⟩)
      exact ⟨rfl, rfl, rfl, fun k hk => by rw [hsame k hk], fun _ => ⟨rfl, hsame⟩⟩
    unfold rescaleLoop
    by_cases hneg : vc.lrescale < 0
    · have : (fieldOps log).lt vc.lrescale Scalar.zero = true := by simpa [fieldOps] using hneg
      simp only [this, if_true]
      exact hcont w1 w2
    · have : (fieldOps log).lt vc.lrescale Scalar.zero = false := by simpa [fieldOps] using hneg
      simp only [this, Bool.false_eq_true, if_false]
      by_cases hbig : scaleOf (fieldOps log) mem vc.index (if vc.single then 1 else nReal) > thr
      · have hg : (fieldOps log).gt (scaleOf (fieldOps log) mem vc.index (if vc.single then 1 else nReal)) thr = true := by
          simpa [fieldOps] using hbig
        simp only [hg, if_true]
        by_cases ho : vc.order = 1
        · have : (vc.order == 1) = true := by simpa using ho
          simp only [this, if_true]
          cases sync with
          | false =>
            simp only [Bool.not_false, if_true]
            exact ⟨forall2_refl exp nReal mem _, by intros; first | rfl | trivial⟩
          | true =>
            simp only [Bool.not_true, Bool.false_eq_true, if_false]
            set s := scaleOf (fieldOps log) mem vc.index (if vc.single then 1 else nReal) with hs
            have hspos : 0 < s := lt_of_le_of_lt hthr hbig
            set mem' : Nat → P6 K := fun k =>
              if vc.index ≤ k ∧ k < vc.index + (if vc.single then 1 else nReal) then divP (mem k) s else mem k with hmem'
            obtain ⟨ihA, ihB⟩ := ih mem' w1 w2 hd2
            have hin : ∀ k, InRange nReal vc k → mem' k = divP (mem k) s := by
              intro k hk
              have : vc.index ≤ k ∧ k < vc.index + (if vc.single then 1 else nReal) := hk
              simp only [hmem', this, and_self, if_true]
            have hout : ∀ k, ¬ InRange nReal vc k → mem' k = mem k := by
              intro k hk
              have : ¬ (vc.index ≤ k ∧ k < vc.index + (if vc.single then 1 else nReal)) := hk
              simp only [hmem', this, if_false]
            refine ⟨List.Forall₂.cons ?_ ?_, ?_⟩
            · refine ⟨rfl, rfl, rfl, fun k hk => ?_, fun hc => ?_⟩
              · have h1 : (rescaleLoop (fieldOps log) thr nReal true mem' rest w1 w2).mem k = mem' k :=
                  ihB k (fun v hv hv' => hd1 v hv k ⟨hk, hv'⟩)
                rw [h1, hin k hk]
                exact scaleP_div exp log hadd hlog vc.lrescale s hspos (mem k)
              · rcases hc with hc | hc
                · exact absurd ho hc
                · exact absurd hc hneg
            · exact forall2_congr_mem exp nReal mem mem' _ rest _ ihA
                (fun v hv k hk => hout k (fun hk' => hd1 v hv k ⟨hk', hk⟩))
            · intro k hk
              rw [ihB k (fun v hv => hk v (by simp [hv])), hout k (hk vc (by simp))]
        · have : (vc.order == 1) = false := by simpa using ho
          simp only [this, Bool.false_eq_true, if_false]
          exact ⟨forall2_refl exp nReal mem _, by intros; first | rfl | trivial⟩
      · have hg : (fieldOps log).gt (scaleOf (fieldOps log) mem vc.index (if vc.single then 1 else nReal)) thr = false := by
          simpa [fieldOps] using hbig
        simp only [hg, Bool.false_eq_true, if_false]
        exact hcont w1 w2

end rescale

end RV.Var
