import RV.Model.Advertised
import RV.Gen.C01Janus
/- C01 / JANUS: scheme tables s1odr2 … s33odr10c and the schedules `reb_integrator_janus_part1/2` build from them -/
namespace RV.C01.Janus
open RV.C01 RV.C01.Gen RV.C01.Adv

/-- the stage sizes `gg(s, 0..stages-1)` of the source: the first `(stages+1)/2` entries of `gamma`, mirrored -/
def stageSizes (stages : Nat) (gamma : List Rat) : List Rat :=
  (List.range stages).map (fun i => if i < (stages + 1) / 2 then gamma.getD i 0 else gamma.getD (stages - 1 - i) 0)

theorem counts : janusCounts = [("schemes", 5)] ∧ janusSchemes.map (fun e => (e.1, e.2.1)) = [(2, 1), (4, 5), (6, 9), (8, 15), (10, 33)]
    ∧ janusStep.map (·.1) = [2, 4, 6, 8, 10] ∧ ∀ e ∈ janusSchemes, e.2.2.length = 17 := by decide +kernel

/-- each step is the drift–kick–drift composition of leapfrog maps with the mirrored `gamma` as stage sizes -/
theorem scheme_structure : ∀ e ∈ janusSchemes, ∀ s ∈ janusStep.lookup e.1,
    kicks s = stageSizes e.2.1 e.2.2 ∧ IsLeapfrogComposition s ∧ countKind 1 s = e.2.1 := by decide +kernel

theorem consistent : ∀ e ∈ janusStep, Consistent e.2 tolJanus := by decide +kernel
theorem symmetric : ∀ e ∈ janusStep, Palindrome e.2 := by decide +kernel
theorem fresh : ∀ e ∈ janusStep, Fresh e.2 := by decide +kernel

/-- `Σγᵢ = 1`, `Σγᵢ³ = Σγᵢ⁵ = … = 0` up to the advertised order -/
theorem power_sums : ∀ e ∈ janusStep, Near (powerSum (kicks e.2) 1) 1 tolJanus ∧
    ∀ j ∈ List.range (e.1 / 2), j = 0 ∨ Near (powerSum (kicks e.2) (2 * j + 1)) 0 tolJanus := by decide +kernel

/-- all order conditions of a symmetric composition of symmetric second-order maps, up to the advertised order -/
theorem composition_order : ∀ e ∈ janusStep, CompositionOrder (kicks e.2) e.1 tolJanus := by decide +kernel
end RV.C01.Janus
