import RV.Proofs.GravityLaws
import Mathlib.Algebra.Order.Field.Basic
/-
  The Barnes-Hut walk (gravity.c:1435-1487) when every visited cell is opened (opening
  angle 0): the walk visits every leaf exactly once, so it adds the sum over the leaves of
  the tree, minus the particle's own leaf.
-/
set_option linter.unusedTactic false
set_option linter.unreachableTactic false
set_option linter.unnecessarySeqFocus false
set_option linter.unusedVariables false
set_option linter.unusedSimpArgs false
set_option linter.unusedSectionVars false
namespace RV.Gravity
open RV
variable {K : Type} [Field K]

/-- a leaf as the walk sees it: particle index, remote flag, mass, position -/
structure Leaf (K : Type) where
  pt : Nat
  remote : Bool
  m : K
  pos : V3 K

mutual
/-- the leaves below a cell, in walk order -/
def leaves : Cell K → List (Leaf K)
  | .leaf p r m c => [⟨p, r, m, c⟩]
  | .node _ _ _ kids => leavesL kids
def leavesL : List (Cell K) → List (Leaf K)
  | [] => []
  | c :: cs => leaves c ++ leavesL cs
end

mutual
/-- every non-leaf cell met by the walk from `gb` passes the opening test -/
def opensAll (gt : K → K → Bool) (theta2 : K) (gb : V3 K) : Cell K → Bool
  | .leaf _ _ _ _ => true
  | .node w _ com kids =>
    gt (w * w) (theta2 * ((gb.x - com.x) * (gb.x - com.x) + (gb.y - com.y) * (gb.y - com.y)
      + (gb.z - com.z) * (gb.z - com.z))) && opensAllL gt theta2 gb kids
def opensAllL (gt : K → K → Bool) (theta2 : K) (gb : V3 K) : List (Cell K) → Bool
  | [] => true
  | c :: cs => opensAll gt theta2 gb c && opensAllL gt theta2 gb cs
end

/-- what one leaf adds to particle `pt` seen from `gb`:
    `(starPref(|d|²+ε²)·m)·d`, `d = gb - pos`; nothing for the particle's own (local) leaf -/
def leafTerm (starPref : K → K) (soft2 : K) (pt : Nat) (gb : V3 K) (l : Leaf K) : V3 K :=
  if !l.remote && l.pt == pt then 0
  else (starPref (((gb - l.pos).x * (gb - l.pos).x + (gb - l.pos).y * (gb - l.pos).y
      + (gb - l.pos).z * (gb - l.pos).z) + soft2) * l.m) • (gb - l.pos)

mutual
theorem walk_open (starPref : K → K) (gt : K → K → Bool) (soft2 theta2 : K) (pt : Nat) (gb : V3 K) :
    ∀ (c : Cell K) (a : V3 K), opensAll gt theta2 gb c = true →
      walk starPref gt soft2 theta2 pt gb c a
        = a + ((leaves c).map (leafTerm starPref soft2 pt gb)).sum
  | .leaf p r m com, a, _ => by
    simp only [walk, leaves, List.map_cons, List.map_nil, List.sum_cons, List.sum_nil, add_zero, leafTerm]
    by_cases h : (!r && p == pt) = true
    · simp [h]
    · simp only [h, if_false, Bool.false_eq_true, sc_hadd, sc_hsub, sc_hmul]
      ext <;> simp
  | .node w m com kids, a, h => by
    simp only [opensAll, Bool.and_eq_true] at h
    simp only [walk, leaves, sc_hsub, sc_hmul, sc_hadd, h.1, if_true]
    exact walkList_open starPref gt soft2 theta2 pt gb kids a h.2
theorem walkList_open (starPref : K → K) (gt : K → K → Bool) (soft2 theta2 : K) (pt : Nat) (gb : V3 K) :
    ∀ (cs : List (Cell K)) (a : V3 K), opensAllL gt theta2 gb cs = true →
      walkList starPref gt soft2 theta2 pt gb cs a
        = a + ((leavesL cs).map (leafTerm starPref soft2 pt gb)).sum
  | [], a, _ => by simp [walkList, leavesL]
  | c :: cs, a, h => by
    simp only [opensAllL, Bool.and_eq_true] at h
    simp only [walkList, leavesL, List.map_append, List.sum_append]
    rw [walkList_open starPref gt soft2 theta2 pt gb cs _ h.2,
      walk_open starPref gt soft2 theta2 pt gb c a h.1, add_assoc]
end

theorem additive_modify (i : Nat) (f : V3 K → V3 K) (u : V3 K) (h : ∀ a, f a = a + u) :
    Additive (fun acc => acc.modify i f) (fun k => if i = k then u else 0) := by
  intro acc k
  simp only [Array.getElem?_modify]
  by_cases hik : i = k
  · subst hik; cases acc[i]? <;> simp [h]
  · cases hk : acc[k]? <;> simp [hik, hk]

/-- TREE case of `reb_calculate_acceleration` when every cell is opened: slot `k` holds the sum
    over ghost boxes and over all leaves (except the particle's own) of the leaf terms -/
theorem accTree_get (starPref : K → K) (gt : K → K → Bool) (soft theta2 : K) (ghosts : List (V3 K))
    (roots : List (Cell K)) {N : Nat} (m : Nat → K) (x : Nat → V3 K)
    (hopen : ∀ gb ∈ ghosts, ∀ i, i < N → opensAllL gt theta2 (gb + x i) roots = true)
    {k : Nat} (hk : k < N) :
    (accTree starPref gt soft theta2 ghosts roots (mkPs N m x))[k]?
      = some ((ghosts.map fun gb =>
          ((leavesL roots).map (leafTerm starPref (soft * soft) k (gb + x k))).sum).sum) := by
  have hbox : ∀ gb ∈ ghosts, Additive (fun acc => forRange 0 N acc fun acc i =>
      match (mkPs N m x)[i]? with
      | some p =>
        acc.modify i fun a => walkList starPref gt (soft * soft) theta2 i
          ⟨gb.x + p.p.x, gb.y + p.p.y, gb.z + p.p.z⟩ roots a
      | none => acc)
      (fun k => ∑ i ∈ Finset.Ico 0 N, if i = k then
        ((leavesL roots).map (leafTerm starPref (soft * soft) i (gb + x i))).sum else 0) := by
    intro gb hgb
    apply additive_forRange
    intro i _ hi
    have e : (⟨gb.x + (x i).x, gb.y + (x i).y, gb.z + (x i).z⟩ : V3 K) = gb + x i := by ext <;> simp
    simp only [mkPs_get m x hi, e]
    apply additive_modify
    intro a
    exact walkList_open starPref gt (soft * soft) theta2 i (gb + x i) roots a (hopen gb hgb i hi)
  have h := additive_foldl ghosts (fun acc gb => forRange 0 N acc fun acc i =>
      match (mkPs N m x)[i]? with
      | some p =>
        acc.modify i fun a => walkList starPref gt (soft * soft) theta2 i
          ⟨gb.x + p.p.x, gb.y + p.p.y, gb.z + p.p.z⟩ roots a
      | none => acc) _ hbox
  have key : (accTree starPref gt soft theta2 ghosts roots (mkPs N m x))[k]?
      = some ((ghosts.map fun gb => ∑ i ∈ Finset.Ico 0 N, if i = k then
        ((leavesL roots).map (leafTerm starPref (soft * soft) i (gb + x i))).sum else 0).sum) := by
    have := additive_from_zero h N k hk
    simp only [accTree, mkPs_size, sc_hmul, sc_hadd]
    exact this
  rw [key]
  congr 2
  apply List.map_congr_left
  intro gb _
  rw [Finset.sum_ite_eq']
  simp [hk]

/-- if moreover the leaves of the tree are exactly the particles (each once, local), the tree
    force at opening angle 0 is the direct sum over all other particles and all ghost boxes -/
theorem accTree_direct (starPref : K → K) (gt : K → K → Bool) (soft theta2 : K) (ghosts : List (V3 K))
    (roots : List (Cell K)) {N : Nat} (m : Nat → K) (x : Nat → V3 K)
    (hopen : ∀ gb ∈ ghosts, ∀ i, i < N → opensAllL gt theta2 (gb + x i) roots = true)
    (hleaves : (leavesL roots).Perm ((List.range N).map fun j => (⟨j, false, m j, x j⟩ : Leaf K)))
    {k : Nat} (hk : k < N) :
    (accTree starPref gt soft theta2 ghosts roots (mkPs N m x))[k]?
      = some ((ghosts.map fun gb => ∑ j ∈ Finset.range N,
          if Src N false 0 k j then force (fun s _ _ => -starPref s) (soft * soft) m x gb k j else 0).sum) := by
  rw [accTree_get starPref gt soft theta2 ghosts roots m x hopen hk]
  congr 2
  apply List.map_congr_left
  intro gb _
  rw [(hleaves.map (leafTerm starPref (soft * soft) k (gb + x k))).sum_eq, List.map_map]
  have e1 : ∀ f : Nat → V3 K, ((List.range N).map f).sum = ∑ t ∈ Finset.range N, f t := fun f => rfl
  rw [e1]
  apply Finset.sum_congr rfl
  intro j hj
  have hj' := Finset.mem_range.mp hj
  simp only [Function.comp, leafTerm, Bool.not_false, Bool.true_and, beq_iff_eq, force, roleI, neg_neg, s2, dvec]
  by_cases hjk : j = k
  · simp [hjk, Src]
  · have : Src N false 0 k j := by unfold Src; simp [hjk, hj']
    simp [hjk, this]


/-! ### opening angle 0 over an ordered field: every cell of non-zero width is opened -/
section ordered
variable {F : Type} [Field F] [LinearOrder F] [IsStrictOrderedRing F]

mutual
/-- every non-leaf cell has a non-zero width -/
def widthsNZ : Cell F → Prop
  | .leaf _ _ _ _ => True
  | .node w _ _ kids => w ≠ 0 ∧ widthsNZL kids
def widthsNZL : List (Cell F) → Prop
  | [] => True
  | c :: cs => widthsNZ c ∧ widthsNZL cs
end

mutual
theorem opensAll_theta0 (gb : V3 F) : ∀ (c : Cell F), widthsNZ c →
    opensAll (fun a b => decide (a > b)) 0 gb c = true
  | .leaf _ _ _ _, _ => by simp [opensAll]
  | .node w m com kids, h => by
    simp only [widthsNZ] at h
    simp only [opensAll, zero_mul, Bool.and_eq_true, decide_eq_true_eq]
    exact ⟨mul_self_pos.mpr h.1, opensAllL_theta0 gb kids h.2⟩
theorem opensAllL_theta0 (gb : V3 F) : ∀ (cs : List (Cell F)), widthsNZL cs →
    opensAllL (fun a b => decide (a > b)) 0 gb cs = true
  | [], _ => by simp [opensAllL]
  | c :: cs, h => by
    simp only [widthsNZL] at h
    simp only [opensAllL, Bool.and_eq_true]
    exact ⟨opensAll_theta0 gb c h.1, opensAllL_theta0 gb cs h.2⟩
end
end ordered

end RV.Gravity
