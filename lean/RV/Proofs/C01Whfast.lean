import RV.Model.Advertised
import RV.Gen.C01Whfast
/-
  C01 / WHFast: corrector tables, kernels and the full option lattice, decided in exact rational arithmetic on
  lean/RV/Gen/C01Whfast.lean (regenerated from src/integrator_whfast.c on every run).
-/
namespace RV.C01.Whfast
open RV.C01 RV.C01.Gen RV.C01.Adv

/-- the operators of one synchronized step for (coordinates, kernel, corrector, corrector2), assembled the way the
    translator verified the source's own sequence decomposes -/
def stepOf (cfg : Nat × Nat × Nat × Nat) : Option (List Op) := do
  let core ← whCore.lookup (cfg.1, cfg.2.1)
  let c1p ← if cfg.2.2.1 = 0 then some [] else whCorr.lookup (cfg.2.2.1, true)
  let c1m ← if cfg.2.2.1 = 0 then some [] else whCorr.lookup (cfg.2.2.1, false)
  let c2p := if cfg.2.2.2 = 0 then [] else whCorr2_p
  let c2m := if cfg.2.2.2 = 0 then [] else whCorr2_m
  some (c1p ++ c2p ++ core ++ c2m ++ c1m)

def twoOf (cfg : Nat × Nat × Nat × Nat) : Option (List Op) := do
  let core ← whCoreTwo.lookup (cfg.1, cfg.2.1)
  let c1p ← if cfg.2.2.1 = 0 then some [] else whCorr.lookup (cfg.2.2.1, true)
  let c1m ← if cfg.2.2.1 = 0 then some [] else whCorr.lookup (cfg.2.2.1, false)
  let c2p := if cfg.2.2.2 = 0 then [] else whCorr2_p
  let c2m := if cfg.2.2.2 = 0 then [] else whCorr2_m
  some (c1p ++ c2p ++ core ++ c2m ++ c1m)


/-- the operators applied before the kernel part of the step: first corrector, then second corrector -/
def preLen (cfg : Nat × Nat × Nat × Nat) : Nat :=
  (match whCorr.lookup (cfg.2.2.1, true) with | some c => if cfg.2.2.1 = 0 then 0 else c.length | none => 0) +
  (if cfg.2.2.2 = 0 then 0 else whCorr2_p.length)

theorem counts : whCounts = [("a", 8), ("b", 19), ("accepted", 64), ("rejected", 128)] ∧ whA.length = 8 ∧
    whB.map (fun p => (p.1, p.2.length)) = corrConditions ∧ whCorr.length = 10 ∧ whCore.length = 7 := by decide +kernel

/-- the source accepts exactly the documented option lattice, and a step is available for each member -/
theorem lattice : whAccepted = whLattice ∧ ∀ cfg ∈ whAccepted, (stepOf cfg).isSome ∧ (twoOf cfg).isSome := by
  decide +kernel

/-- `a_k = k·a₁`, `a₁² = 7/40`, `corrector2_b = a₁/12` -/
theorem table_a : (∀ k ∈ List.range 8, Near (whA.getD k 0) (((k : Rat) + 1) * whA.getD 0 0) tolWH) ∧
    Near (whA.getD 0 0 ^ 2) (7/40) tolWH ∧ Near (12 * whC2B) (whA.getD 0 0) tolWH := by decide +kernel

/-- the targets `μ_k` are the Taylor coefficients of `((x/2)/sinh(x/2) − 1)/x`:
    `(Σ cᵢ x^{2i})·(Σ sⱼ x^{2j}) = 1` up to `x¹⁶` -/
theorem targets_generating_function : ∀ n ∈ List.range 9,
    sumQ ((List.range (n + 1)).map (fun i => cschCoeff i * sinhcCoeff (n - i))) = (if n = 0 then 1 else 0) := by
  decide +kernel

/-- first correctors: odd moments `Σ κⱼ tⱼᵏ = μ_k` for the first 1, 2, 3, 5, 8 odd `k`, even moments vanish -/
theorem corrector_moments : ∀ oc ∈ corrConditions, ∀ s ∈ whCorr.lookup (oc.1, true),
    (∀ i ∈ List.range oc.2, Near (moment s (2 * i + 1)) (corrMu.getD i 0) tolWH) ∧
    (∀ i ∈ List.range (oc.2 + 1), Near (moment s (2 * i)) 0 tolWH) ∧
    Near (driftSum s) 0 tolWH ∧ Near (kickSum s) 0 tolWH := by decide +kernel

/-- the inverse first corrector is the inverse: reversed order, negated coefficients -/
theorem corrector_inverse : ∀ oc ∈ corrConditions, ∀ p ∈ whCorr.lookup (oc.1, true), ∀ m ∈ whCorr.lookup (oc.1, false),
    norm m = invG (norm p) := by decide +kernel

/-- `reb_whfast_jump_step` does nothing in Jacobi and barycentric coordinates (decided by executing its body) -/
theorem jump_noop : whJumpNoop = [(0, true), (1, false), (2, false), (3, true)] := by decide +kernel

theorem fresh : ∀ cfg ∈ whAccepted, ∀ s ∈ stepOf cfg, Fresh s := by decide +kernel

end RV.C01.Whfast
