import RV.Proofs.Compare3
/-
  A copy (load ∘ encode, including the post-load fix-ups) compares equal to its source.
-/
set_option linter.unusedVariables false
set_option linter.unusedSimpArgs false
namespace RV.Persist

/-! ### what `finish` changes -/

section finish
variable (sp : Special) (pl vl : ElemLayout) (pSim vSim self : Nat) (x : Sim)

theorem finish_mem (m : Nat) (hA : m ≠ sp.nAllocMem) (hC : m ≠ sp.recalcMem) :
    (finish sp pl vl pSim vSim self x).mem m = x.mem m := by
  unfold finish
  cases hv : x.heap sp.varCfgMem <;> simp only [hv]
  · cases hp : ((x.setMem sp.nAllocMem (x.mem sp.nMem)).heap sp.particlesMem) <;>
      simp [hp, Sim.setMem, Sim.setHeap, hA, hC]
  · rename_i b
    cases hp : (((x.setHeap sp.varCfgMem (some (fillSlots vl.size [(vSim, 8)] (addrByte self vSim vl.size) b))).setMem
        sp.nAllocMem ((x.setHeap sp.varCfgMem (some (fillSlots vl.size [(vSim, 8)] (addrByte self vSim vl.size) b))).mem sp.nMem)).heap
        sp.particlesMem) <;> simp [hp, Sim.setMem, Sim.setHeap, hA, hC]

theorem finish_heap (m : Nat) (hP : m ≠ sp.particlesMem) (hV : m ≠ sp.varCfgMem) :
    (finish sp pl vl pSim vSim self x).heap m = x.heap m := by
  unfold finish
  cases hv : x.heap sp.varCfgMem <;> simp only [hv]
  · cases hp : ((x.setMem sp.nAllocMem (x.mem sp.nMem)).heap sp.particlesMem) <;>
      simp [hp, Sim.setMem, Sim.setHeap, hP, hV]
  · rename_i b
    cases hp : (((x.setHeap sp.varCfgMem (some (fillSlots vl.size [(vSim, 8)] (addrByte self vSim vl.size) b))).setMem
        sp.nAllocMem ((x.setHeap sp.varCfgMem (some (fillSlots vl.size [(vSim, 8)] (addrByte self vSim vl.size) b))).mem sp.nMem)).heap
        sp.particlesMem) <;> simp [hp, Sim.setMem, Sim.setHeap, hP, hV]

/-- the particle array after the fix-ups: pointer members zeroed, then the `sim` back pointer set -/
def fixParticles (b : Bytes) : Bytes :=
  fillSlots pl.size [(pSim, 8)] (addrByte self pSim pl.size) (fillSlots pl.size (ptrSlots pl) (fun _ => 0) b)

theorem finish_heap_particles (hPV : sp.particlesMem ≠ sp.varCfgMem) :
    (finish sp pl vl pSim vSim self x).heap sp.particlesMem =
      (x.heap sp.particlesMem).map (fixParticles pl pSim self) := by
  unfold finish fixParticles
  cases hv : x.heap sp.varCfgMem <;> simp only [hv]
  · cases hp : x.heap sp.particlesMem <;> simp [hp, Sim.setMem, Sim.setHeap]
  · rename_i b
    cases hp : x.heap sp.particlesMem <;> simp [hp, Sim.setMem, Sim.setHeap, hPV]

end finish

/-! ### fillSlots helpers -/

theorem fillSlots_take (esz : Nat) (slots : List (Nat × Nat)) (fill : Nat → UInt8) (b : Bytes) (n : Nat) :
    (fillSlots esz slots fill b).take n = fillSlots esz slots fill (b.take n) := by
  apply List.ext_getElem?
  intro (j : Nat)
  rw [List.getElem?_take, fillSlots_getElem?, fillSlots_getElem?, List.getElem?_take]
  by_cases h : j < n <;> simp [h]

/-- filling the slots with the bytes that are already there changes nothing -/
theorem fillSlots_self (esz : Nat) (slots : List (Nat × Nat)) (b : Bytes) :
    fillSlots esz slots (fun i => b.getD i 0) b = b := by
  apply List.ext_getElem?
  intro (j : Nat)
  rw [fillSlots_getElem?]
  cases h : b[j]? with
  | none => simp
  | some v =>
    simp only [Option.map_some]
    have : b.getD j 0 = v := by simp [List.getD, h]
    rw [this]; simp

/-- a member-wise compared payload does not differ from itself with its pointer slots overwritten -/
theorem payloadDiffer_fill_right (specs : List CmpSpec) (d : Desc) (k : Nat) (c : CmpSpec)
    (slots : List (Nat × Nat)) (f : Nat → UInt8) (a b : Bytes)
    (h : d.cmp = k + 1) (hs : specs[k]? = some c) (hclear : specClear c slots = true) (hpos : 0 < c.size) :
    payloadDiffer specs (some d) a (fillSlots c.size slots f b) = payloadDiffer specs (some d) a b := by
  have := payloadDiffer_fillSlots specs d k c slots (fun i => a.getD i 0) f a b h hs hclear hpos
  rwa [fillSlots_self] at this

/-! ### the writer emits nothing or one field with the row's id -/

theorem encodeField_shape (psz : Nat) (s : Sim) (d : Desc) :
    encodeField psz s d = [] ∨ ∃ p, encodeField psz s d = [(d.id, p)] := by
  cases hs : simpleSize psz d.dtype with
  | some sz => right; exact ⟨_, encodeField_simple s d sz hs⟩
  | none =>
    cases hd : d.dtype with
    | pointer | pointerAligned =>
      all_goals (
        rw [encodeField_pointer s d (by simp [hd])]
        by_cases hz : fieldSize s d = 0
        · left; simp [hz]
        · right; exact ⟨(heapBytes s d.mem).take (fieldSize s d), by simp [hz]⟩)
    | pointerFixed =>
      rw [encodeField_fixed s d hd]
      cases s.heap d.mem with
      | none => left; rfl
      | some b => right; exact ⟨_, rfl⟩
    | dp7 =>
      rw [encodeField_dp7 s d hd]
      by_cases hz : fieldSize s d = 0
      · left; simp [hz]
      · right; exact ⟨dp7Payload s d.mem (fieldSize s d / 7), by simp [hz]⟩
    | double | int | uint | uint32 | int64 | uint64 | vec3d | particle | particle4 =>
      all_goals (rw [hd] at hs; simp [simpleSize] at hs)
    | other | fieldEnd | notFound =>
      all_goals (left; exact encodeField_none s d (by simp [hd]))

/-! ### side conditions tying the fix-up members to the table (decidable on a concrete table) -/

structure FixOK (psz : Nat) (sp : Special) (specs : List CmpSpec) (tbl : List Desc) (pl : ElemLayout) (pSim : Nat) :
    Prop where
  pv : sp.particlesMem ≠ sp.varCfgMem
  simple : ∀ d ∈ live tbl, ∀ sz, simpleSize psz d.dtype = some sz → d.mem ≠ sp.nAllocMem ∧ d.mem ≠ sp.recalcMem
  ptr : ∀ d ∈ live tbl, (d.dtype = .pointer ∨ d.dtype = .pointerAligned) →
      d.nMem ≠ sp.nAllocMem ∧ d.nMem ≠ sp.recalcMem ∧
      (d.mem = sp.particlesMem → ∃ k c, d.cmp = k + 1 ∧ specs[k]? = some c ∧ c.size = pl.size ∧ 0 < c.size ∧
        specClear c (ptrSlots pl) = true ∧ specClear c [(pSim, 8)] = true ∧ descForType tbl d.id = some d)
  fixed : ∀ d ∈ live tbl, d.dtype = .pointerFixed → d.mem ≠ sp.particlesMem ∧ d.mem ≠ sp.varCfgMem
  dp7 : ∀ d ∈ live tbl, d.dtype = .dp7 → d.nMem ≠ sp.nAllocMem ∧ d.nMem ≠ sp.recalcMem ∧
      ¬ (d.mem ≤ sp.particlesMem ∧ sp.particlesMem < d.mem + 7) ∧ ¬ (d.mem ≤ sp.varCfgMem ∧ sp.varCfgMem < d.mem + 7)

theorem fieldSize_congr' (a b : Sim) (d : Desc) (h : a.mem d.nMem = b.mem d.nMem) :
    fieldSize a d = fieldSize b d := fieldSize_congr a b d h

/-- row-wise relation between a simulation `x` and `finish x` -/
theorem finish_rows (psz : Nat) (sp : Special) (specs : List CmpSpec) (tbl : List Desc) (pl vl : ElemLayout)
    (pSim vSim self : Nat) (x : Sim) (ok : FixOK psz sp specs tbl pl pSim)
    (hvar : ∀ d ∈ live tbl, (d.dtype = .pointer ∨ d.dtype = .pointerAligned) → d.mem = sp.varCfgMem → fieldSize x d = 0)
    (hself : ∀ d ∈ live tbl, ∀ p, encodeField psz x d = [(d.id, p)] →
      payloadDiffer specs (descForType tbl d.id) p p = false ∨ wallOf tbl d.id = true)
    (d : Desc) (hd : d ∈ live tbl) :
    RowRel specs tbl (encodeField psz x) (encodeField psz (finish sp pl vl pSim vSim self x)) d := by
  -- rows whose emission is unchanged
  have same : encodeField psz (finish sp pl vl pSim vSim self x) d = encodeField psz x d →
      RowRel specs tbl (encodeField psz x) (encodeField psz (finish sp pl vl pSim vSim self x)) d := by
    intro he
    rcases encodeField_shape psz x d with h | ⟨p, h⟩
    · left; exact ⟨h, by rw [he, h]⟩
    · right; exact ⟨p, p, h, by rw [he, h], hself d hd p h⟩
  cases hs : simpleSize psz d.dtype with
  | some sz =>
    apply same
    rw [encodeField_simple _ d sz hs, encodeField_simple _ d sz hs]
    obtain ⟨hA, hC⟩ := ok.simple d hd sz hs
    rw [finish_mem sp pl vl pSim vSim self x d.mem hA hC]
  | none =>
    cases hdt : d.dtype with
    | pointer | pointerAligned =>
      all_goals (
        obtain ⟨hA, hC, hpart⟩ := ok.ptr d hd (by simp [hdt])
        have hm := finish_mem sp pl vl pSim vSim self x d.nMem hA hC
        have hfs : fieldSize (finish sp pl vl pSim vSim self x) d = fieldSize x d := fieldSize_congr _ _ d hm
        by_cases hP : d.mem = sp.particlesMem
        · -- the particle array
          obtain ⟨k, c, hcmp, hspec, hcs, hpos, hcl1, hcl2, hdesc⟩ := hpart hP
          unfold RowRel
          rw [encodeField_pointer _ d (by simp [hdt]), encodeField_pointer _ d (by simp [hdt]), hfs]
          by_cases hz : fieldSize x d = 0
          · left; simp [hz]
          · right
            refine ⟨(heapBytes x d.mem).take (fieldSize x d),
              (heapBytes (finish sp pl vl pSim vSim self x) d.mem).take (fieldSize x d), by simp [hz], by simp [hz], ?_⟩
            have hh := finish_heap_particles sp pl vl pSim vSim self x ok.pv
            have hb : heapBytes (finish sp pl vl pSim vSim self x) d.mem =
                fixParticles pl pSim self (heapBytes x d.mem) := by
              rw [hP]
              unfold heapBytes
              rw [hh]
              cases x.heap sp.particlesMem with
              | none => simp [fixParticles, fillSlots]
              | some b => simp
            have hs0 := hself d hd ((heapBytes x d.mem).take (fieldSize x d))
              (by rw [encodeField_pointer _ d (by simp [hdt])]; simp [hz])
            rcases hs0 with h | h
            · left
              rw [hdesc] at h ⊢
              rw [hb]
              unfold fixParticles
              rw [fillSlots_take, fillSlots_take, ← hcs]
              rw [payloadDiffer_fill_right specs d k c _ _ _ _ hcmp hspec hcl2 hpos,
                payloadDiffer_fill_right specs d k c _ _ _ _ hcmp hspec hcl1 hpos]
              exact h
            · right; exact h
        · by_cases hV : d.mem = sp.varCfgMem
          · -- var_config: empty by hypothesis (F5)
            have hz := hvar d hd (by simp [hdt]) hV
            unfold RowRel
            rw [encodeField_pointer _ d (by simp [hdt]), encodeField_pointer _ d (by simp [hdt]), hfs]
            left; simp [hz]
          · apply same
            rw [encodeField_pointer _ d (by simp [hdt]), encodeField_pointer _ d (by simp [hdt]), hfs]
            have hh := finish_heap sp pl vl pSim vSim self x d.mem hP hV
            rw [heapBytes_congr _ _ _ hh])
    | pointerFixed =>
      apply same
      obtain ⟨hP, hV⟩ := ok.fixed d hd hdt
      rw [encodeField_fixed _ d hdt, encodeField_fixed _ d hdt, finish_heap sp pl vl pSim vSim self x d.mem hP hV]
    | dp7 =>
      apply same
      obtain ⟨hA, hC, hP, hV⟩ := ok.dp7 d hd hdt
      have hm := finish_mem sp pl vl pSim vSim self x d.nMem hA hC
      have hfs : fieldSize (finish sp pl vl pSim vSim self x) d = fieldSize x d := fieldSize_congr _ _ d hm
      rw [encodeField_dp7 _ d hdt, encodeField_dp7 _ d hdt, hfs]
      have hh : ∀ k, k < 7 → heapBytes (finish sp pl vl pSim vSim self x) (d.mem + k) = heapBytes x (d.mem + k) := by
        intro k hk
        apply heapBytes_congr
        apply finish_heap
        · omega
        · omega
      unfold dp7Payload
      have g0 := hh 0 (by omega); simp only [Nat.add_zero] at g0
      rw [g0, hh 1 (by omega), hh 2 (by omega), hh 3 (by omega), hh 4 (by omega), hh 5 (by omega), hh 6 (by omega)]
    | double | int | uint | uint32 | int64 | uint64 | vec3d | particle | particle4 =>
      all_goals (rw [hdt] at hs; simp [simpleSize] at hs)
    | other | fieldEnd | notFound =>
      all_goals (
        apply same
        rw [encodeField_none _ d (by simp [hdt]), encodeField_none _ d (by simp [hdt])])

end RV.Persist
