import RV.Proofs.KeplerTan
import RV.Proofs.VarKepler
/- closing "tangent map = derivative of the model's Kepler step": implicit differentiation of the
   universal Kepler equation + the derivative rules of RV/Proofs/KeplerTan.lean + b-c16's
   `Var.tanLines_is_eps` (RV/Proofs/VarKepler.lean, imported read-only). -/
set_option linter.unusedTactic false
set_option linter.unreachableTactic false
set_option linter.unnecessarySeqFocus false
set_option linter.unusedVariables false
set_option linter.unusedSimpArgs false
set_option linter.unusedSectionVars false
namespace RV.Kepler
open RV RV.Var
variable {K : Type} [Field K] [CharZero K]

section defs
variable {F : Type} [Scalar F]
/-- the line `double dX = -1.*ri*(X*dr0 + Gs[2]*deta0+Gs[3]*dzeta0+tbeta*dbeta);` with everything it
    depends on (lines 316-325), copied from `tangentUpdate` -/
def tanDX (M r0 r0i ri X beta eta0 zeta0 : F) (gs : Cs6 F) (p dp : Kepler.P6 F) : F :=
  let dr0 := (dp.x * p.x + dp.y * p.y + dp.z * p.z) * r0i
  let dbeta := (Scalar.neg n2) * M * dr0 * r0i * r0i - n2 * (dp.vx * p.vx + dp.vy * p.vy + dp.vz * p.vz)
  let deta0 := dp.x * p.vx + dp.y * p.vy + dp.z * p.vz + p.x * dp.vx + p.y * dp.vy + p.z * dp.vz
  let dzeta0 := (Scalar.neg beta) * dr0 - r0 * dbeta
  let G3beta := half * (Scalar.ofNat 3 * gs.c5 - X * gs.c4)
  let G2beta := half * (n2 * gs.c4 - X * gs.c3)
  let tbeta := eta0 * G2beta + zeta0 * G3beta
  (Scalar.neg Scalar.one) * ri * (X * dr0 + gs.c2 * deta0 + gs.c3 * dzeta0 + tbeta * dbeta)
end defs

def re6 (g : Cs6 (Dual K)) : Cs6 K := ⟨g.c0.re, g.c1.re, g.c2.re, g.c3.re, g.c4.re, g.c5.re⟩

/-- the dual inputs of the Kepler step for a particle `p` with variation `dp` -/
structure DualIn (K : Type) where
  r0 : Dual K
  r0i : Dual K
  beta : Dual K
  eta0 : Dual K
  zeta0 : Dual K

def dualIn (M r0 r0i : K) (p dp : Kepler.P6 K) : DualIn K :=
  let dr0 := tanDr0 r0i p dp
  let r0d : Dual K := ⟨r0, dr0⟩
  let r0id : Dual K := ⟨r0i, -(dr0 * r0i * r0i)⟩
  let I := invariants (Dual.const M) r0d r0id (dP6 p dp)
  { r0 := r0d, r0i := r0id, beta := I.beta, eta0 := I.eta0, zeta0 := I.zeta0 }


section main
variable (M r0 r0i ri dt : K) (p dp : Kepler.P6 K) (s : Cs5 (Dual K)) (Xd : Dual K)

omit [CharZero K] in
theorem dualIn_parts :
    let D := dualIn M r0 r0i p dp
    let i0 := invariants M r0 r0i p
    let dr0 := tanDr0 r0i p dp
    D.r0 = ⟨r0, dr0⟩ ∧ D.r0i = ⟨r0i, -(dr0 * r0i * r0i)⟩ ∧
    D.beta.re = i0.beta ∧ D.eta0.re = i0.eta0 ∧ D.zeta0.re = i0.zeta0 ∧
    D.beta.eps = (-2) * M * dr0 * r0i * r0i - 2 * (dp.vx * p.vx + dp.vy * p.vy + dp.vz * p.vz) ∧
    D.eta0.eps = dp.x * p.vx + dp.y * p.vy + dp.z * p.vz + p.x * dp.vx + p.y * dp.vy + p.z * dp.vz ∧
    D.zeta0.eps = (-i0.beta) * dr0 - r0 * D.beta.eps := by
  obtain ⟨e1, e2, e3, e4, e5, e6⟩ := kepler_invariants_tangent M r0 r0i p dp
  exact ⟨rfl, rfl, e4, e5, e6, e1, e2, e3⟩

/-- ε-part of the universal Kepler equation `r0 X + η0 G2 + ζ0 G3 (= dt)` evaluated on duals,
    times `ri = 1/r`:  `dX − dX_code` -/
theorem kepler_eps (hD : StumpffD s) (hz : s.z = (dualIn M r0 r0i p dp).beta * (Xd * Xd))
    (hri : ri * (r0 + (invariants M r0 r0i p).eta0 * (scaleGs6 Xd (cs6Finish s)).c1.re
            + (invariants M r0 r0i p).zeta0 * (scaleGs6 Xd (cs6Finish s)).c2.re) = 1) :
    ri * ((dualIn M r0 r0i p dp).r0 * Xd + (dualIn M r0 r0i p dp).eta0 * (scaleGs6 Xd (cs6Finish s)).c2
          + (dualIn M r0 r0i p dp).zeta0 * (scaleGs6 Xd (cs6Finish s)).c3).eps =
      Xd.eps - tanDX M r0 r0i ri Xd.re (invariants M r0 r0i p).beta (invariants M r0 r0i p).eta0
        (invariants M r0 r0i p).zeta0 (re6 (scaleGs6 Xd (cs6Finish s))) p dp := by
  obtain ⟨g1, g2, g3, g0r, g1r⟩ := scaleGs6_D hD _ Xd hz
  obtain ⟨d1, d2, d3, d4, d5, d6, d7, d8⟩ := dualIn_parts M r0 r0i p dp
  simp only [Dual.add_eps, Dual.mul_eps, Dual.mul_re, Dual.add_re, sc_hadd, sc_hmul, g2, g3, d1, d4, d5, d7, d8]
  simp only [tanDX, re6, n2, half, lit, sc_hadd, sc_hsub, sc_hmul, sc_hdiv, sc_neg, sc_one, sc_ofNat, d6, tanDr0]
  push_cast
  linear_combination (Xd.eps) * hri

/-- the code's `dX` is the unique ε-part of `X̂` for which the dual Kepler equation keeps holding
    (its right-hand side `dt` is a constant) -/
theorem tan_dX_unique (hD : StumpffD s) (hz : s.z = (dualIn M r0 r0i p dp).beta * (Xd * Xd))
    (hri : ri * (r0 + (invariants M r0 r0i p).eta0 * (scaleGs6 Xd (cs6Finish s)).c1.re
            + (invariants M r0 r0i p).zeta0 * (scaleGs6 Xd (cs6Finish s)).c2.re) = 1) :
    ((dualIn M r0 r0i p dp).r0 * Xd + (dualIn M r0 r0i p dp).eta0 * (scaleGs6 Xd (cs6Finish s)).c2
          + (dualIn M r0 r0i p dp).zeta0 * (scaleGs6 Xd (cs6Finish s)).c3).eps = (Dual.const dt).eps ↔
      Xd.eps = tanDX M r0 r0i ri Xd.re (invariants M r0 r0i p).beta (invariants M r0 r0i p).eta0
        (invariants M r0 r0i p).zeta0 (re6 (scaleGs6 Xd (cs6Finish s))) p dp := by
  have key := kepler_eps M r0 r0i ri p dp s Xd hD hz hri
  have hri0 : ri ≠ 0 := by
    intro h0; rw [h0, zero_mul] at hri; exact zero_ne_one hri
  simp only [Dual.const_eps, sc_zero]
  constructor
  · intro h
    rw [h, mul_zero] at key
    linear_combination -key
  · intro h
    rw [h, sub_self] at key
    exact (mul_eq_zero.1 key).resolve_left hri0

omit [CharZero K] in
theorem dual_eq {x : Dual K} {a b : K} (h1 : x.re = a) (h2 : x.eps = b) : (⟨a, b⟩ : Dual K) = x := by
  cases x; simp_all

/-- **tangent map = derivative of the model's Kepler step.**
    Run the model's own f-g update on dual numbers: inputs `p + ε dp`, `r0 + ε dr0` (the square-root
    lift), the invariants β, η0, ζ0 computed from them, the G functions `scaleGs6 X̂ (cs6Finish ŝ)` from
    first-order Stumpff data `ŝ` at `β̂ X̂²`, `X̂ = X + ε dX` with `dX` the code's line 325 (by `kepler_eps`
    the unique value that keeps the dual Kepler equation satisfied), and `1/r̂` computed on duals.
    Its ε-part is exactly what lines 311-342 of reb_whfast_kepler_solver add to the variational particle. -/
theorem tangent_is_derivative (hD : StumpffD s) (hz : s.z = (dualIn M r0 r0i p dp).beta * (Xd * Xd))
    (hri : ri * (r0 + (invariants M r0 r0i p).eta0 * (scaleGs6 Xd (cs6Finish s)).c1.re
            + (invariants M r0 r0i p).zeta0 * (scaleGs6 Xd (cs6Finish s)).c2.re) = 1)
    (hX : Xd.eps = tanDX M r0 r0i ri Xd.re (invariants M r0 r0i p).beta (invariants M r0 r0i p).eta0
        (invariants M r0 r0i p).zeta0 (re6 (scaleGs6 Xd (cs6Finish s))) p dp) :
    let D := dualIn M r0 r0i p dp
    let g := scaleGs6 Xd (cs6Finish s)
    let gs := re6 g
    let i0 := invariants M r0 r0i p
    tangentUpdate M r0 r0i ri Xd.re i0.beta i0.eta0 i0.zeta0 (fgCoeffs M r0i ri dt gs.c1 gs.c2 gs.c3) gs p dp
      = epsP6 (fgUpdate (Dual.const M) D.r0i (Scalar.one / (D.r0 + D.eta0 * g.c1 + D.zeta0 * g.c2))
          (Dual.const dt) g.c1 g.c2 g.c3 (dP6 p dp)) := by
  obtain ⟨g1, g2, g3, g0r, g1r⟩ := scaleGs6_D hD _ Xd hz
  obtain ⟨d1, d2, d3, d4, d5, d6, d7, d8⟩ := dualIn_parts M r0 r0i p dp
  dsimp only
  rw [tangentUpdate_split, tanLines_is_eps]
  have hr : r0 + (invariants M r0 r0i p).eta0 * (scaleGs6 Xd (cs6Finish s)).c1.re
      + (invariants M r0 r0i p).zeta0 * (scaleGs6 Xd (cs6Finish s)).c2.re ≠ 0 := by
    intro h0; rw [h0, mul_zero] at hri; exact zero_ne_one hri
  have hriv : ri = 1 / (r0 + (invariants M r0 r0i p).eta0 * (scaleGs6 Xd (cs6Finish s)).c1.re
      + (invariants M r0 r0i p).zeta0 * (scaleGs6 Xd (cs6Finish s)).c2.re) := by
    field_simp; linear_combination hri
  -- the three G functions
  have e1 : (⟨(re6 (scaleGs6 Xd (cs6Finish s))).c1, (tanMid M r0 r0i ri Xd.re (invariants M r0 r0i p).beta
      (invariants M r0 r0i p).eta0 (invariants M r0 r0i p).zeta0 (re6 (scaleGs6 Xd (cs6Finish s))) p dp).dG1⟩ : Dual K)
      = (scaleGs6 Xd (cs6Finish s)).c1 := by
    apply dual_eq rfl
    rw [g1, hX, d6]
    simp only [tanMid, tanDX, re6, n2, half, lit, sc_hadd, sc_hsub, sc_hmul, sc_hdiv, sc_neg, sc_one, sc_ofNat, tanDr0]
    push_cast; ring
  have e2 : (⟨(re6 (scaleGs6 Xd (cs6Finish s))).c2, (tanMid M r0 r0i ri Xd.re (invariants M r0 r0i p).beta
      (invariants M r0 r0i p).eta0 (invariants M r0 r0i p).zeta0 (re6 (scaleGs6 Xd (cs6Finish s))) p dp).dG2⟩ : Dual K)
      = (scaleGs6 Xd (cs6Finish s)).c2 := by
    apply dual_eq rfl
    rw [g2, hX, d6]
    simp only [tanMid, tanDX, re6, n2, half, lit, sc_hadd, sc_hsub, sc_hmul, sc_hdiv, sc_neg, sc_one, sc_ofNat, tanDr0]
    push_cast; ring
  have e3 : (⟨(re6 (scaleGs6 Xd (cs6Finish s))).c3, (tanMid M r0 r0i ri Xd.re (invariants M r0 r0i p).beta
      (invariants M r0 r0i p).eta0 (invariants M r0 r0i p).zeta0 (re6 (scaleGs6 Xd (cs6Finish s))) p dp).dG3⟩ : Dual K)
      = (scaleGs6 Xd (cs6Finish s)).c3 := by
    apply dual_eq rfl
    rw [g3, hX, d6]
    simp only [tanMid, tanDX, re6, n2, half, lit, sc_hadd, sc_hsub, sc_hmul, sc_hdiv, sc_neg, sc_one, sc_ofNat, tanDr0]
    push_cast; ring
  rw [e1, e2, e3]
  have e4 : (⟨r0i, -((tanMid M r0 r0i ri Xd.re (invariants M r0 r0i p).beta
      (invariants M r0 r0i p).eta0 (invariants M r0 r0i p).zeta0 (re6 (scaleGs6 Xd (cs6Finish s))) p dp).dr0 * r0i * r0i)⟩ : Dual K)
      = (dualIn M r0 r0i p dp).r0i := by
    rw [d2]; rfl
  have e5 : (⟨ri, -((tanMid M r0 r0i ri Xd.re (invariants M r0 r0i p).beta
      (invariants M r0 r0i p).eta0 (invariants M r0 r0i p).zeta0 (re6 (scaleGs6 Xd (cs6Finish s))) p dp).dr * ri * ri)⟩ : Dual K)
      = Scalar.one / ((dualIn M r0 r0i p dp).r0 + (dualIn M r0 r0i p dp).eta0 * (scaleGs6 Xd (cs6Finish s)).c1
          + (dualIn M r0 r0i p dp).zeta0 * (scaleGs6 Xd (cs6Finish s)).c2) := by
    apply dual_eq
    · simp only [Dual.div_re, Dual.one_re, Dual.add_re, Dual.mul_re, d1, d4, d5, sc_one, sc_hadd, sc_hmul, sc_hdiv]
      exact hriv.symm
    · simp only [Dual.div_re, Dual.div_eps, Dual.one_re, Dual.one_eps, Dual.add_re, Dual.add_eps, Dual.mul_re, Dual.mul_eps,
        d1, d4, d5, d7, d8, g1, g2, hX, sc_zero, sc_one, sc_hadd, sc_hsub, sc_hmul, sc_hdiv]
      simp only [tanMid, tanDX, re6, n2, half, lit, sc_hadd, sc_hsub, sc_hmul, sc_hdiv, sc_neg, sc_one, sc_ofNat, d6, tanDr0]
      rw [hriv]
      push_cast
      field_simp
      ring
  rw [e4, e5]

end main
end RV.Kepler
