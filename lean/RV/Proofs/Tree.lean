import RV.Proofs.Boundary
import RV.Model.Tree
import Mathlib.Order.Interval.Set.Basic
set_option linter.unusedSectionVars false
set_option linter.unusedVariables false
set_option linter.unusedSimpArgs false
namespace RV.C15
open RV RV.Tree

variable {K : Type} [Field K] [LinearOrder K] [IsStrictOrderedRing K]

/-- geometric containment in the closed cell -/
def In (p : Pt K) (c : Cell K) : Prop :=
  |p.x - c.x| ≤ c.w / 2 ∧ |p.y - c.y| ≤ c.w / 2 ∧ |p.z - c.z| ≤ c.w / 2

theorem absO_eq (a : K) : absO a = |a| := by
  unfold absO
  by_cases h : a < 0
  · simp [h, abs_of_neg h]
  · simp [h, abs_of_nonneg (not_lt.mp h)]

theorem inside_iff (p : Pt K) (c : Cell K) : inside p c = true ↔ In p c := by
  simp [inside, In, absO_eq, not_lt, and_assoc]

theorem bitClear_octOf0 (a b c : Bool) : bitClear (octOf a b c) 0 = !a := by
  cases a <;> cases b <;> cases c <;> rfl
theorem bitClear_octOf1 (a b c : Bool) : bitClear (octOf a b c) 1 = !b := by
  cases a <;> cases b <;> cases c <;> rfl
theorem bitClear_octOf2 (a b c : Bool) : bitClear (octOf a b c) 2 = !c := by
  cases a <;> cases b <;> cases c <;> rfl

theorem axis_child (px cx w : K) (h : |px - cx| ≤ w / 2) :
    |px - (cx + w / 2 / 2 * (if (!decide (px < cx)) = true then 1 else -1))| ≤ w / 2 / 2 := by
  have := abs_le.mp h
  by_cases hx : px < cx
  · simp [hx]; rw [abs_le]; constructor <;> linarith
  · simp [hx]; rw [abs_le]; constructor <;> linarith

/-- the octant rule sends a particle of the cell into a child cell that contains it -/
theorem In_child (p : Pt K) (c : Cell K) (h : In p c) : In p (childCell c (octant p c)) := by
  obtain ⟨hx, hy, hz⟩ := h
  unfold octant childCell In
  simp only [bitClear_octOf0, bitClear_octOf1, bitClear_octOf2]
  refine ⟨?_, ?_, ?_⟩
  · simpa [ScalarO.lt] using axis_child p.x c.x c.w hx
  · simpa [ScalarO.lt] using axis_child p.y c.y c.w hy
  · simpa [ScalarO.lt] using axis_child p.z c.z c.w hz

/-! ### lists indexed by the eight octants -/

theorem flatMap_ite_notMem {ι β : Type} [DecidableEq ι] (f : ι → List β) (o : ι) :
    ∀ (l : List ι), o ∉ l → l.flatMap (fun i => if i = o then [] else f i) = l.flatMap f := by
  intro l
  induction l with
  | nil => intro _; rfl
  | cons a l ih =>
    intro h
    simp only [List.mem_cons, not_or] at h
    have ha : a ≠ o := fun e => h.1 e.symm
    simp [List.flatMap_cons, ha, ih h.2]

theorem flatMap_split {ι β : Type} [DecidableEq ι] (f : ι → List β) (o : ι) :
    ∀ (l : List ι), l.Nodup → o ∈ l →
      List.Perm (l.flatMap f) (f o ++ l.flatMap (fun i => if i = o then [] else f i)) := by
  intro l
  induction l with
  | nil => intro _ h; simp at h
  | cons a l ih =>
    intro hn hm
    rw [List.nodup_cons] at hn
    by_cases ha : a = o
    · subst ha
      simp only [List.flatMap_cons, if_true, List.nil_append]
      rw [flatMap_ite_notMem f a l hn.1]
    · have hm' : o ∈ l := by
        rcases List.mem_cons.mp hm with h | h
        · exact absurd h.symm ha
        · exact h
      simp only [List.flatMap_cons, ha, if_false]
      have := ih hn.2 hm'
      refine (List.Perm.append_left (f a) this).trans ?_
      rw [← List.append_assoc, ← List.append_assoc]
      exact List.Perm.append_right _ List.perm_append_comm

theorem fin8_split {β : Type} (f : Fin 8 → List β) (o : Fin 8) :
    List.Perm ((List.finRange 8).flatMap f)
      (f o ++ (List.finRange 8).flatMap (fun i => if i = o then [] else f i)) :=
  flatMap_split f o _ (List.nodup_finRange 8) (List.mem_finRange o)

/-- replacing the list of one octant -/
theorem fin8_replace {β : Type} (f : Fin 8 → List β) (o : Fin 8) (new : List β) :
    List.Perm ((List.finRange 8).flatMap (fun i => if i = o then new else f i))
      (new ++ (List.finRange 8).flatMap (fun i => if i = o then [] else f i)) := by
  have := fin8_split (fun i => if i = o then new else f i) o
  simp only [if_true] at this
  refine this.trans (List.Perm.append_left _ ?_)
  apply List.Perm.of_eq
  congr 1
  funext i
  by_cases h : i = o <;> simp [h]


/-! ### well-formed trees -/

@[simp] theorem setCh_same {α : Type} (ch : Fin 8 → α) (o : Fin 8) (t : α) : setCh ch o t o = t := by
  simp [setCh]
theorem setCh_other {α : Type} (ch : Fin 8 → α) (o i : Fin 8) (t : α) (h : i ≠ o) : setCh ch o t i = ch i := by
  simp [setCh, h]
theorem setCh_eq {α : Type} (ch : Fin 8 → α) (o : Fin 8) (t : α) :
    setCh ch o t = fun i => if i = o then t else ch i := by
  simp [setCh]

/-- invariant of a subtree that occupies cell `c`:
    leaf: its cell is `c` and contains its particle;
    inner node: its cell is `c`, child `o` occupies `childCell c o`, `pt = -(particles below)`,
    at least two particles below, and — when `tie` is set — every particle below child `o` has octant `o`
    (the code's tie rule `p.x < node->x`; holds after insertion, not after a particle moved onto a face). -/
def WF (ps : Nat → Pt K) (tie : Bool) : Cell K → T K → Prop
  | _, .nil => True
  | c, .leaf c' _ q => c' = c ∧ In (ps q) c
  | c, .node c' _ n ch =>
      c' = c ∧ (∀ o, WF ps tie (childCell c o) (ch o)) ∧
      n = -(((List.finRange 8).flatMap fun o => leaves (ch o)).length : Int) ∧
      2 ≤ ((List.finRange 8).flatMap fun o => leaves (ch o)).length ∧
      (tie = true → ∀ o, ∀ q ∈ leaves (ch o), octant (ps q) c = o)

theorem add_nil (ps : Nat → Pt K) (f : Nat) (c : Cell K) (pt : Nat) :
    add ps f .nil c pt = .ok (.leaf c zeroGrav pt) := by
  cases f <;> rfl

theorem leaves_node (c : Cell K) (g : Grav K) (n : Int) (ch : Fin 8 → T K) :
    leaves (.node c g n ch) = (List.finRange 8).flatMap fun o => leaves (ch o) := rfl

/-- leaves after replacing child `o` -/
theorem leaves_setCh (ch : Fin 8 → T K) (o : Fin 8) (t : T K) :
    List.Perm ((List.finRange 8).flatMap fun i => leaves (setCh ch o t i))
      (leaves t ++ (List.finRange 8).flatMap (fun i => if i = o then [] else leaves (ch i))) := by
  rw [setCh_eq]
  have := fin8_replace (fun i => leaves (ch i)) o (leaves t)
  refine (List.Perm.of_eq ?_).trans this
  congr 1
  funext i
  by_cases h : i = o <;> simp [h]

/-- one insertion: the invariant is kept and the new index appears exactly once more -/
theorem add_spec (ps : Nat → Pt K) (tie : Bool) : ∀ (f : Nat) (t : T K) (c : Cell K) (pt : Nat) (t' : T K),
    WF ps tie c t → In (ps pt) c → add ps f t c pt = .ok t' →
    WF ps tie c t' ∧ List.Perm (leaves t') (pt :: leaves t) := by
  intro f
  induction f with
  | zero =>
    intro t c pt t' hwf hin h
    cases t with
    | nil => simp [add] at h; subst h; exact ⟨⟨rfl, hin⟩, by simp [leaves]⟩
    | leaf c0 g q => simp [add] at h
    | node c0 g n ch => simp [add] at h
  | succ f ih =>
    intro t c pt t' hwf hin h
    cases t with
    | nil => simp [add] at h; subst h; exact ⟨⟨rfl, hin⟩, by simp [leaves]⟩
    | leaf c0 g q =>
      obtain ⟨hc, hq⟩ := hwf
      subst hc
      simp only [add] at h
      split at h
      · simp at h
      · simp only [bind, Except.bind] at h   -- t1 is the new leaf for q
        set o1 := octant (ps q) c0 with ho1
        set o2 := octant (ps pt) c0 with ho2
        set t1 : T K := .leaf (childCell c0 o1) zeroGrav q with ht1
        set ch1 := setCh (fun _ => (T.nil : T K)) o1 t1 with hch1
        cases h2 : add ps f (ch1 o2) (childCell c0 o2) pt with
        | error e => simp [h2, bind, Except.bind] at h
        | ok t2 =>
          simp only [h2, bind, Except.bind, Except.ok.injEq] at h
          subst h
          have hq1 : In (ps q) (childCell c0 o1) := In_child _ _ hq
          have hp2 : In (ps pt) (childCell c0 o2) := In_child _ _ hin
          have hwf1 : WF ps tie (childCell c0 o2) (ch1 o2) := by
            by_cases e : o2 = o1
            · rw [e, hch1, setCh_same]; exact ⟨rfl, hq1⟩
            · rw [hch1, setCh_other _ _ _ _ e]; trivial
          obtain ⟨hwf2, hperm2⟩ := ih _ _ _ _ hwf1 hp2 h2
          -- leaves of ch1
          have hl1 : List.Perm ((List.finRange 8).flatMap fun i => leaves (ch1 i)) [q] := by
            have := leaves_setCh (fun _ => (T.nil : T K)) o1 t1
            refine this.trans ?_
            simp [leaves, ht1]
          have hsplit := fin8_split (fun i => leaves (ch1 i)) o2
          have hl2 := leaves_setCh ch1 o2 t2
          have hfinal : List.Perm ((List.finRange 8).flatMap fun i => leaves (setCh ch1 o2 t2 i)) [pt, q] := by
            refine hl2.trans ?_
            refine (List.Perm.append_right _ hperm2).trans ?_
            simp only [List.cons_append]
            exact List.Perm.cons pt (hsplit.symm.trans hl1)
          refine ⟨⟨rfl, ?_, ?_, ?_, ?_⟩, ?_⟩
          · intro o
            by_cases e : o = o2
            · subst e; rw [setCh_same]; exact hwf2
            · rw [setCh_other _ _ _ _ e]
              by_cases e1 : o = o1
              · subst e1; rw [hch1, setCh_same]; exact ⟨rfl, hq1⟩
              · rw [hch1, setCh_other _ _ _ _ e1]; trivial
          · rw [hfinal.length_eq]; rfl
          · rw [hfinal.length_eq]; simp
          · intro htie o r hr
            by_cases e : o = o2
            · subst e
              rw [setCh_same] at hr
              have := hperm2.mem_iff.mp hr
              rcases List.mem_cons.mp this with h1 | h1
              · subst h1; rfl
              · by_cases e1 : o2 = o1
                · rw [e1, hch1, setCh_same] at h1
                  simp [leaves, ht1] at h1
                  subst h1; rw [e1]
                · rw [hch1, setCh_other _ _ _ _ e1] at h1
                  simp [leaves] at h1
            · rw [setCh_other _ _ _ _ e] at hr
              by_cases e1 : o = o1
              · subst e1
                rw [hch1, setCh_same] at hr
                simp [leaves, ht1] at hr
                subst hr; rfl
              · rw [hch1, setCh_other _ _ _ _ e1] at hr
                simp [leaves] at hr
          · rw [leaves_node]
            refine hfinal.trans ?_
            simp [leaves]
    | node c0 g n ch =>
      obtain ⟨hc, hch, hn, h2, hoct⟩ := hwf
      subst hc
      simp only [add] at h
      set o := octant (ps pt) c0 with ho
      cases h1 : add ps f (ch o) (childCell c0 o) pt with
      | error e => simp [h1, bind, Except.bind] at h
      | ok t1 =>
        simp only [h1, bind, Except.bind, Except.ok.injEq] at h
        subst h
        obtain ⟨hwf1, hperm1⟩ := ih _ _ _ _ (hch o) (In_child _ _ hin) h1
        have hl := leaves_setCh ch o t1
        have hsplit := fin8_split (fun i => leaves (ch i)) o
        have hfinal : List.Perm ((List.finRange 8).flatMap fun i => leaves (setCh ch o t1 i))
            (pt :: (List.finRange 8).flatMap fun i => leaves (ch i)) := by
          refine hl.trans ?_
          refine (List.Perm.append_right _ hperm1).trans ?_
          simp only [List.cons_append]
          exact List.Perm.cons pt hsplit.symm
        refine ⟨⟨rfl, ?_, ?_, ?_, ?_⟩, ?_⟩
        · intro i
          by_cases e : i = o
          · subst e; rw [setCh_same]; exact hwf1
          · rw [setCh_other _ _ _ _ e]; exact hch i
        · rw [hfinal.length_eq, hn]; simp; ring
        · rw [hfinal.length_eq, List.length_cons]; omega
        · intro htie i r hr
          by_cases e : i = o
          · subst e
            rw [setCh_same] at hr
            rcases List.mem_cons.mp (hperm1.mem_iff.mp hr) with h1 | h1
            · subst h1; rfl
            · exact hoct htie _ _ h1
          · rw [setCh_other _ _ _ _ e] at hr
            exact hoct htie _ _ hr
        · rw [leaves_node]; exact hfinal


/-! ### fresh construction -/

theorem build_spec (ps : Nat → Pt K) (tie : Bool) (f : Nat) (c : Cell K) : ∀ (n : Nat) (t : T K),
    (∀ i, i < n → In (ps i) c) → build ps f c n = .ok t →
    WF ps tie c t ∧ List.Perm (leaves t) (List.range n) := by
  intro n
  induction n with
  | zero =>
    intro t _ h
    simp [build, pure, Except.pure] at h
    subst h
    exact ⟨trivial, by simp [leaves]⟩
  | succ n ih =>
    intro t hin h
    unfold build at h
    rw [List.range_succ, List.foldlM_append] at h
    cases h1 : (List.range n).foldlM (fun t pt => add ps f t c pt) T.nil with
    | error e => simp [h1, bind, Except.bind] at h
    | ok t0 =>
      simp only [h1, bind, Except.bind, List.foldlM_cons, List.foldlM_nil] at h
      cases h2 : add ps f t0 c n with
      | error e => simp [h2] at h
      | ok t1 =>
        simp [h2, pure, Except.pure] at h
        subst h
        obtain ⟨hwf0, hp0⟩ := ih t0 (fun i hi => hin i (by omega)) h1
        obtain ⟨hwf1, hp1⟩ := add_spec ps tie f t0 c n t1 hwf0 (hin n (by omega)) h2
        refine ⟨hwf1, hp1.trans ?_⟩
        rw [List.range_succ]
        exact ((List.Perm.cons n hp0).trans (List.perm_append_singleton n _).symm)

/-! ### mass and centre of mass -/

def massOf (ps : Nat → Pt K) (l : List Nat) : K := (l.map fun q => (ps q).m).sum
def momOf (ps : Nat → Pt K) (sel : Pt K → K) (l : List Nat) : K := (l.map fun q => (ps q).m * sel (ps q)).sum

theorem massOf_append (ps : Nat → Pt K) (a b : List Nat) : massOf ps (a ++ b) = massOf ps a + massOf ps b := by
  simp [massOf]
theorem momOf_append (ps : Nat → Pt K) (sel) (a b : List Nat) : momOf ps sel (a ++ b) = momOf ps sel a + momOf ps sel b := by
  simp [momOf]

theorem massOf_nonneg (ps : Nat → Pt K) : ∀ (l : List Nat), (∀ q ∈ l, 0 ≤ (ps q).m) → 0 ≤ massOf ps l := by
  intro l
  induction l with
  | nil => intro _; simp [massOf]
  | cons a l ih =>
    intro h
    have ha := h a (by simp)
    have hl := ih (fun q hq => h q (by simp [hq]))
    simp only [massOf, List.map_cons, List.sum_cons] at hl ⊢
    linarith

theorem mom_zero_of_mass_zero (ps : Nat → Pt K) (sel : Pt K → K) : ∀ (l : List Nat),
    (∀ q ∈ l, 0 ≤ (ps q).m) → massOf ps l = 0 → momOf ps sel l = 0 := by
  intro l
  induction l with
  | nil => intro _ _; simp [momOf]
  | cons a l ih =>
    intro hnn h0
    have ha := hnn a (by simp)
    have hl : ∀ q ∈ l, 0 ≤ (ps q).m := fun q hq => hnn q (by simp [hq])
    have hs := massOf_nonneg ps l hl
    simp only [massOf, List.map_cons, List.sum_cons] at h0
    have h1 : (ps a).m = 0 := by unfold massOf at hs; linarith
    have h2 : massOf ps l = 0 := by unfold massOf at hs ⊢; linarith
    have := ih hl h2
    simp only [momOf, List.map_cons, List.sum_cons, h1, zero_mul, zero_add] at this ⊢
    exact this

/-- every cell carries the total mass of its contents and `m * (mx,my,mz)` is the mass-weighted sum -/
def GravOK (ps : Nat → Pt K) : T K → Prop
  | .nil => True
  | .leaf _ g q => g.m = (ps q).m ∧ g.mx = (ps q).x ∧ g.my = (ps q).y ∧ g.mz = (ps q).z
  | .node c g n ch =>
      g.m = massOf ps (leaves (.node c g n ch)) ∧
      g.m * g.mx = momOf ps Pt.x (leaves (.node c g n ch)) ∧
      g.m * g.my = momOf ps Pt.y (leaves (.node c g n ch)) ∧
      g.m * g.mz = momOf ps Pt.z (leaves (.node c g n ch)) ∧
      ∀ o, GravOK ps (ch o)

/-- the four sums of a cell in terms of `grav` (also true of `nil` and of leaves) -/
def GravSum (ps : Nat → Pt K) (t : T K) : Prop :=
  (grav t).m = massOf ps (leaves t) ∧
  (grav t).mx * (grav t).m = momOf ps Pt.x (leaves t) ∧
  (grav t).my * (grav t).m = momOf ps Pt.y (leaves t) ∧
  (grav t).mz * (grav t).m = momOf ps Pt.z (leaves t)

theorem GravSum_of_GravOK (ps : Nat → Pt K) (t : T K) (h : GravOK ps t) : GravSum ps t := by
  cases t with
  | nil => simp [GravSum, grav, leaves, massOf, momOf, zeroGrav]
  | leaf c g q =>
    obtain ⟨h1, h2, h3, h4⟩ := h
    simp [GravSum, grav, leaves, massOf, momOf, h1, h2, h3, h4, mul_comm]
  | node c g n ch =>
    obtain ⟨h1, h2, h3, h4, _⟩ := h
    refine ⟨h1, ?_, ?_, ?_⟩
    · simp only [grav]; rw [mul_comm]; exact h2
    · simp only [grav]; rw [mul_comm]; exact h3
    · simp only [grav]; rw [mul_comm]; exact h4

/-- accumulation loop over the octants -/
theorem grav_fold (ps : Nat → Pt K) (ch : Fin 8 → T K) (hch : ∀ o, GravSum ps (ch o)) :
    ∀ (l : List (Fin 8)) (a : Grav K),
      let r := l.foldl (fun (a : Grav K) o =>
        if isNil (ch o) then a else
          let d := grav (ch o)
          ({ mx := a.mx + d.mx * d.m, my := a.my + d.my * d.m, mz := a.mz + d.mz * d.m, m := a.m + d.m } : Grav K)) a
      r.m = a.m + massOf ps (l.flatMap fun o => leaves (ch o)) ∧
      r.mx = a.mx + momOf ps Pt.x (l.flatMap fun o => leaves (ch o)) ∧
      r.my = a.my + momOf ps Pt.y (l.flatMap fun o => leaves (ch o)) ∧
      r.mz = a.mz + momOf ps Pt.z (l.flatMap fun o => leaves (ch o)) := by
  intro l
  induction l with
  | nil => intro a; simp [massOf, momOf]
  | cons o l ih =>
    intro a
    simp only [List.foldl_cons, List.flatMap_cons, massOf_append, momOf_append]
    obtain ⟨g1, g2, g3, g4⟩ := hch o
    by_cases hn : isNil (ch o) = true
    · have : ch o = .nil := by
        cases h : ch o <;> simp [h, isNil] at hn ⊢
      simp only [hn, if_true]
      obtain ⟨i1, i2, i3, i4⟩ := ih a
      simp only [this, leaves, massOf, momOf, List.map_nil, List.sum_nil, zero_add]
      exact ⟨i1, i2, i3, i4⟩
    · simp only [if_neg hn]
      obtain ⟨i1, i2, i3, i4⟩ := ih ({ mx := a.mx + (grav (ch o)).mx * (grav (ch o)).m, my := a.my + (grav (ch o)).my * (grav (ch o)).m, mz := a.mz + (grav (ch o)).mz * (grav (ch o)).m, m := a.m + (grav (ch o)).m } : Grav K)
      simp only [sc_hadd, sc_hmul] at i1 i2 i3 i4 ⊢
      refine ⟨?_, ?_, ?_, ?_⟩
      · rw [i1, g1]; ring
      · rw [i2, g2]; ring
      · rw [i3, g3]; ring
      · rw [i4, g4]; ring


theorem leaves_updGrav (ps : Nat → Pt K) : ∀ t : T K, leaves (updGrav ps t) = leaves t := by
  intro t
  induction t with
  | nil => rfl
  | leaf c g q => rfl
  | node c g n ch ih =>
    simp only [updGrav, leaves, memo_eq]
    congr 1
    funext o
    exact ih o

theorem isNil_iff (t : T K) : isNil t = true ↔ t = .nil := by
  cases t <;> simp [isNil]

/-- `reb_simulation_update_tree_gravity_data`: with non-negative masses every cell ends up with the
    total mass and the mass-weighted position sums of the particles below it -/
theorem updGrav_ok (ps : Nat → Pt K) : ∀ t : T K, (∀ q ∈ leaves t, 0 ≤ (ps q).m) → GravOK ps (updGrav ps t) := by
  intro t
  induction t with
  | nil => intro _; trivial
  | leaf c g q => intro _; exact ⟨rfl, rfl, rfl, rfl⟩
  | node c g n ch ih =>
    intro hnn
    have hnn' : ∀ o, ∀ q ∈ leaves (ch o), 0 ≤ (ps q).m := by
      intro o q hq
      apply hnn
      simp only [leaves, List.mem_flatMap]
      exact ⟨o, List.mem_finRange o, hq⟩
    have hch : ∀ o, GravOK ps (updGrav ps (ch o)) := fun o => ih o (hnn' o)
    have hsum : ∀ o, GravSum ps (updGrav ps (ch o)) := fun o => GravSum_of_GravOK ps _ (hch o)
    have hfold := grav_fold ps (fun o => updGrav ps (ch o)) hsum (List.finRange 8) zeroGrav
    simp only [updGrav, memo_eq, Fin.foldl_eq_finRange_foldl]
    set acc := (List.finRange 8).foldl (fun (a : Grav K) o =>
        if isNil (updGrav ps (ch o)) then a else
          let d := grav (updGrav ps (ch o))
          ({ mx := a.mx + d.mx * d.m, my := a.my + d.my * d.m, mz := a.mz + d.mz * d.m, m := a.m + d.m } : Grav K)) zeroGrav with hacc
    obtain ⟨f1, f2, f3, f4⟩ := hfold
    simp only [zeroGrav, sc_zero, zero_add] at f1 f2 f3 f4
    have hl : ((List.finRange 8).flatMap fun o => leaves (updGrav ps (ch o))) = leaves (.node c g n ch) := by
      simp only [leaves]
      congr 1
      funext o
      exact leaves_updGrav ps (ch o)
    rw [hl] at f1 f2 f3 f4
    have hlv : ∀ g' n', leaves (T.node c g' n' fun o => updGrav ps (ch o)) = leaves (.node c g n ch) := by
      intro g' n'
      simp only [leaves]
      congr 1
      funext o
      exact leaves_updGrav ps (ch o)
    have hmass := massOf_nonneg ps _ hnn
    by_cases hpos : (0 : K) < acc.m
    · have hne : acc.m ≠ 0 := ne_of_gt hpos
      simp only [so_lt, sc_zero, hpos, if_true, GravOK, hlv, sc_hdiv]
      refine ⟨f1, ?_, ?_, ?_, hch⟩
      · rw [← f2]; field_simp
      · rw [← f3]; field_simp
      · rw [← f4]; field_simp
    · have h0 : acc.m = 0 := by
        have : 0 ≤ acc.m := by rw [f1]; exact hmass
        exact le_antisymm (not_lt.mp hpos) this
      have hm0 : massOf ps (leaves (.node c g n ch)) = 0 := by rw [← f1]; exact h0
      simp only [so_lt, sc_zero, hpos, if_false, GravOK, hlv]
      refine ⟨f1, ?_, ?_, ?_, hch⟩
      · rw [h0, zero_mul, mom_zero_of_mass_zero ps Pt.x _ hnn hm0]
      · rw [h0, zero_mul, mom_zero_of_mass_zero ps Pt.y _ hnn hm0]
      · rw [h0, zero_mul, mom_zero_of_mass_zero ps Pt.z _ hnn hm0]


theorem WF_updGrav (ps : Nat → Pt K) (tie : Bool) : ∀ (t : T K) (c : Cell K), WF ps tie c t → WF ps tie c (updGrav ps t) := by
  intro t
  induction t with
  | nil => intro c _; trivial
  | leaf c0 g q => intro c h; exact h
  | node c0 g n ch ih =>
    intro c h
    obtain ⟨h1, h2, h3, h4, h5⟩ := h
    have hl : ((List.finRange 8).flatMap fun o => leaves (updGrav ps (ch o))) =
        ((List.finRange 8).flatMap fun o => leaves (ch o)) := by
      congr 1; funext o; exact leaves_updGrav ps (ch o)
    simp only [updGrav, memo_eq, WF, hl]
    refine ⟨h1, fun o => ih o _ (h2 o), h3, h4, ?_⟩
    intro htie o q hq
    rw [leaves_updGrav] at hq
    exact h5 htie o q hq

/-! ### the gravity walk with opening angle 0 -/

def visitPt : Visit K → Option Nat
  | .leaf q _ => some q
  | .cell _ => none

/-- all cells of the subtree have non-zero width -/
def WidthNZ : T K → Prop
  | .nil => True
  | .leaf _ _ _ => True
  | .node c _ _ ch => c.w ≠ 0 ∧ ∀ o, WidthNZ (ch o)

theorem WidthNZ_of_WF (ps : Nat → Pt K) (tie : Bool) : ∀ (t : T K) (c : Cell K), c.w ≠ 0 → WF ps tie c t → WidthNZ t := by
  intro t
  induction t with
  | nil => intro _ _ _; trivial
  | leaf c0 g q => intro _ _ _; trivial
  | node c0 g n ch ih =>
    intro c hw h
    obtain ⟨h1, h2, _⟩ := h
    subst h1
    refine ⟨hw, fun o => ih o (childCell c0 o) ?_ (h2 o)⟩
    simp [childCell, hw]

theorem flatMap_filter_map {α β γ : Type} (l : List α) (f : α → List β) (p : β → Bool) (g : β → γ) :
    (l.flatMap fun a => ((f a).filter p).map g) = ((l.flatMap f).filter p).map g := by
  induction l with
  | nil => rfl
  | cons a l ih => simp [List.flatMap_cons, ih]

/-- with `opening_angle2 = 0` the walk for particle `pt` opens every cell and interacts with every leaf
    other than `pt`'s own, each exactly once, in tree order -/
theorem walk_zero (gx gy gz : K) (pt : Nat) : ∀ t : T K, WidthNZ t →
    (walk (0 : K) gx gy gz pt t).map visitPt = ((leaves t).filter (fun q => q ≠ pt)).map some := by
  intro t
  induction t with
  | nil => intro _; rfl
  | leaf c g q =>
    intro _
    by_cases h : q = pt
    · simp [walk, leaves, h]
    · simp [walk, leaves, h, visitPt]
  | node c g n ch ih =>
    intro h
    obtain ⟨hw, hch⟩ := h
    have hpos : (0 : K) < c.w * c.w := mul_self_pos.mpr hw
    simp only [walk, sc_hmul, zero_mul, so_lt, hpos, if_true, leaves, List.map_flatMap]
    rw [← flatMap_filter_map]
    congr 1
    funext o
    exact ih o (hch o)

end RV.C15
