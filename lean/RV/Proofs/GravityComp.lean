import RV.Proofs.GravityLaws
/-
  COMPENSATED (gravity.c:248-488): in exact arithmetic every Kahan correction term is
  identically zero, so the routine adds the plain pair terms; its loop nests (upper
  triangle + `continue` tests instead of start indices) reach the same declarative
  source set as BASIC.
-/
set_option linter.unusedTactic false
set_option linter.unreachableTactic false
set_option linter.unnecessarySeqFocus false
set_option linter.unusedVariables false
set_option linter.unusedSimpArgs false
set_option linter.unusedSectionVars false
namespace RV.Gravity
open RV
variable {K : Type} [Field K]

abbrev CSt (K : Type) := Array (V3 K × V3 K)

/-- all compensation terms are zero -/
def CsZero (st : CSt K) : Prop := ∀ (k : Nat) (v : V3 K × V3 K), st[k]? = some v → v.2 = 0

/-- `step` adds `c k` to the acceleration in slot `k` and leaves every compensation term zero -/
def AdditiveC (step : CSt K → CSt K) (c : Nat → V3 K) : Prop :=
  ∀ (st : CSt K), CsZero st → ∀ k, (step st)[k]? = (st[k]?).map (fun v => (v.1 + c k, (0 : V3 K)))

theorem additiveC_cs {step : CSt K → CSt K} {c : Nat → V3 K} (h : AdditiveC step c) (st : CSt K)
    (hz : CsZero st) : CsZero (step st) := by
  intro k v hv
  rw [h st hz k] at hv
  cases hs : st[k]? with
  | none => simp [hs] at hv
  | some w => simp [hs] at hv; rw [← hv]

theorem additiveC_id : AdditiveC (K := K) (fun st => st) (fun _ => 0) := by
  intro st hz k
  cases hs : st[k]? with
  | none => simp
  | some w =>
    have := hz k w hs
    simp
    exact Prod.ext (by simp) (by simp [this])

theorem additiveC_congr {step : CSt K → CSt K} {c d : Nat → V3 K} (h : AdditiveC step c)
    (hcd : ∀ k, c k = d k) : AdditiveC step d := by
  intro st hz k; rw [h st hz k, hcd k]

theorem additiveC_comp {f g : CSt K → CSt K} {c d : Nat → V3 K} (hf : AdditiveC f c)
    (hg : AdditiveC g d) : AdditiveC (fun st => g (f st)) (fun k => c k + d k) := by
  intro st hz k
  rw [hg (f st) (additiveC_cs hf st hz) k, hf st hz k]
  cases st[k]? <;> simp [add_assoc]

theorem additiveC_foldl {ι : Type} (l : List ι) (step : CSt K → ι → CSt K) (c : ι → Nat → V3 K)
    (h : ∀ e ∈ l, AdditiveC (fun st => step st e) (c e)) :
    AdditiveC (fun st => l.foldl step st) (fun k => (l.map (fun e => c e k)).sum) := by
  induction l with
  | nil => simpa using additiveC_id
  | cons e r ih =>
    have h1 := h e (List.mem_cons_self)
    have h2 := ih (fun e' he' => h e' (List.mem_cons_of_mem _ he'))
    have := additiveC_comp h1 h2
    simpa [List.foldl_cons] using this

theorem additiveC_forRange (a b : Nat) (step : CSt K → Nat → CSt K) (c : Nat → Nat → V3 K)
    (h : ∀ i, a ≤ i → i < b → AdditiveC (fun st => step st i) (c i)) :
    AdditiveC (fun st => forRange a b st step) (fun k => ∑ i ∈ Finset.Ico a b, c i k) := by
  have := additiveC_foldl (List.range' a (b - a)) step c (by
    intro e he
    have := List.mem_range'_1.mp he
    exact h e this.1 (by omega))
  exact this

/-- the 5-line Kahan block adds exactly `f·d` and recomputes a zero compensation term -/
theorem additiveC_kahanTo (i : Nat) (f : K) (d : V3 K) :
    AdditiveC (fun st => kahanTo st i f d) (fun k => if i = k then f • d else 0) := by
  intro st hz k
  simp only [kahanTo, Array.getElem?_modify]
  by_cases h : i = k
  · subst h
    cases hs : st[i]? with
    | none => simp
    | some w =>
      have hw := hz i w hs
      obtain ⟨a, cc⟩ := w
      simp only at hw
      subst hw
      simp only [if_true, Option.map_some, sc_hadd, sc_hsub, sc_hmul, Option.some.injEq]
      refine Prod.ext ?_ ?_
      · ext <;> simp
      · ext <;> simp
  · cases hs : st[k]? with
    | none => simp [h]
    | some w =>
      have hw := hz k w hs
      simp [h]
      exact Prod.ext (by simp) (by simp [hw])

/-- contribution of one COMPENSATED loop-body execution to slot `k` -/
def compC (kern : K → K) (soft2 : K) (m : Nat → K) (x : Nat → V3 K) (doI doJ : Bool)
    (i j k : Nat) : V3 K :=
  (if doI = true ∧ i = k then roleI (fun s _ _ => kern s) soft2 m x 0 i j else 0)
    + (if doJ = true ∧ j = k then roleJ (fun s _ _ => kern s) soft2 m x 0 i j else 0)

theorem additiveC_pairComp (kern : K → K) (soft2 : K) {N : Nat} (m : Nat → K) (x : Nat → V3 K)
    (doI doJ : Bool) {i j : Nat} (hi : i < N) (hj : j < N) :
    AdditiveC (fun st => pairComp kern soft2 (mkPs N m x) doI doJ st i j)
      (compC kern soft2 m x doI doJ i j) := by
  have e : (⟨(x i).x - (x j).x, (x i).y - (x j).y, (x i).z - (x j).z⟩ : V3 K) = dvec x 0 i j := by
    ext <;> simp [dvec]
  have es : ((x i).x - (x j).x) * ((x i).x - (x j).x) + ((x i).y - (x j).y) * ((x i).y - (x j).y)
      + ((x i).z - (x j).z) * ((x i).z - (x j).z) + soft2 = s2 x soft2 0 i j := by
    simp [s2, dvec]
  have hf : (fun st => pairComp kern soft2 (mkPs N m x) doI doJ st i j)
      = (fun st =>
          (fun st => if doJ = true then kahanTo st j (kern (s2 x soft2 0 i j) * m i) (dvec x 0 i j) else st)
          ((fun st => if doI = true then kahanTo st i ((-(kern (s2 x soft2 0 i j))) * m j) (dvec x 0 i j) else st) st)) := by
    funext st
    simp only [pairComp, mkPs_get m x hi, mkPs_get m x hj, sc_hadd, sc_hsub, sc_hmul, sc_hneg, e, es]
  rw [hf]
  have h1 : AdditiveC (fun st => if doI = true then kahanTo st i ((-(kern (s2 x soft2 0 i j))) * m j) (dvec x 0 i j) else st)
      (fun k => if doI = true ∧ i = k then ((-(kern (s2 x soft2 0 i j))) * m j) • dvec x 0 i j else 0) := by
    cases doI
    · simpa using additiveC_id (K := K)
    · have := additiveC_kahanTo (K := K) i ((-(kern (s2 x soft2 0 i j))) * m j) (dvec x 0 i j)
      simpa only [if_true, true_and, eq_self_iff_true] using this
  have h2 : AdditiveC (fun st => if doJ = true then kahanTo st j (kern (s2 x soft2 0 i j) * m i) (dvec x 0 i j) else st)
      (fun k => if doJ = true ∧ j = k then (kern (s2 x soft2 0 i j) * m i) • dvec x 0 i j else 0) := by
    cases doJ
    · simpa using additiveC_id (K := K)
    · have := additiveC_kahanTo (K := K) j (kern (s2 x soft2 0 i j) * m i) (dvec x 0 i j)
      simpa only [if_true, true_and, eq_self_iff_true] using this
  exact additiveC_congr (additiveC_comp h1 h2) (by intro k; simp [compC, roleI, roleJ])

theorem compSkip_iff (ig i j : Nat) : compSkip ig i j = true ↔
    (ig = 1 ∧ ((j = 1 ∧ i = 0) ∨ (i = 1 ∧ j = 0))) ∨ (ig = 2 ∧ (j = 0 ∨ i = 0)) := by
  simp [compSkip]

/-- contribution of COMPENSATED to slot `k`, as the loops run -/
def compTot (kern : K → K) (cfg : Cfg K) (N : Nat) (m : Nat → K) (x : Nat → V3 K) (k : Nat) : V3 K :=
  (∑ i ∈ Finset.Ico 0 cfg.nActive, ∑ j ∈ Finset.Ico (i + 1) cfg.nActive,
      if compSkip cfg.ignore i j = true then 0 else compC kern (cfg.soft * cfg.soft) m x true true i j k)
  + (∑ i ∈ Finset.Ico cfg.nActive N, ∑ j ∈ Finset.Ico 0 cfg.nActive,
      if compSkip cfg.ignore i j = true then 0 else compC kern (cfg.soft * cfg.soft) m x true cfg.tpType i j k)

theorem accCompSt_additive (kern : K → K) (cfg : Cfg K) {N : Nat} (m : Nat → K) (x : Nat → V3 K)
    (hNa : cfg.nActive ≤ N) :
    AdditiveC (fun st =>
      forRange cfg.nActive N
        (forRange 0 cfg.nActive st fun st i =>
          forRange (i + 1) cfg.nActive st fun st j =>
            if compSkip cfg.ignore i j then st
            else pairComp kern (cfg.soft * cfg.soft) (mkPs N m x) true true st i j)
        fun st i =>
          forRange 0 cfg.nActive st fun st j =>
            if compSkip cfg.ignore i j then st
            else pairComp kern (cfg.soft * cfg.soft) (mkPs N m x) true cfg.tpType st i j)
      (compTot kern cfg N m x) := by
  unfold compTot
  refine additiveC_comp
    (f := fun st => forRange 0 cfg.nActive st fun st i =>
      forRange (i + 1) cfg.nActive st fun st j =>
        if compSkip cfg.ignore i j then st
        else pairComp kern (cfg.soft * cfg.soft) (mkPs N m x) true true st i j)
    (g := fun st => forRange cfg.nActive N st fun st i =>
      forRange 0 cfg.nActive st fun st j =>
        if compSkip cfg.ignore i j then st
        else pairComp kern (cfg.soft * cfg.soft) (mkPs N m x) true cfg.tpType st i j) ?_ ?_
  · apply additiveC_forRange
    intro i hi1 hi2
    apply additiveC_forRange
    intro j hj1 hj2
    by_cases hs : compSkip cfg.ignore i j = true
    · simpa [hs] using additiveC_id (K := K)
    · simpa [hs] using additiveC_pairComp kern (cfg.soft * cfg.soft) m x true true
        (show i < N by omega) (show j < N by omega)
  · apply additiveC_forRange
    intro i hi1 hi2
    apply additiveC_forRange
    intro j hj1 hj2
    by_cases hs : compSkip cfg.ignore i j = true
    · simpa [hs] using additiveC_id (K := K)
    · simpa [hs] using additiveC_pairComp kern (cfg.soft * cfg.soft) m x true cfg.tpType
        (show i < N by omega) (show j < N by omega)

theorem accComp_get (kern : K → K) (cfg : Cfg K) {N : Nat} (m : Nat → K) (x : Nat → V3 K)
    (hNa : cfg.nActive ≤ N) {k : Nat} (hk : k < N) :
    (accComp kern cfg (mkPs N m x))[k]? = some (compTot kern cfg N m x k) := by
  have h := accCompSt_additive kern cfg m x hNa
  have hz : CsZero (Array.replicate N ((V3.zero : V3 K), (V3.zero : V3 K))) := by
    intro k v hv
    simp [Array.getElem?_replicate] at hv
    rw [← hv.2]
  have := h _ hz k
  simp only [accComp, accCompSt, mkPs_size, sc_hmul, Array.getElem?_map]
  rw [this]
  simp [Array.getElem?_replicate, hk]

/-! ### the declarative form -/

theorem collapse1 {M : Type} [AddCommMonoid M] (k a b : Nat) (c d : Nat → Nat)
    (P : Nat → Nat → Prop) [∀ i j, Decidable (P i j)] (U : Nat → Nat → M) :
    (∑ i ∈ Finset.Ico a b, ∑ j ∈ Finset.Ico (c i) (d i), if P i j ∧ i = k then U i j else 0)
      = if a ≤ k ∧ k < b then ∑ j ∈ Finset.Ico (c k) (d k), if P k j then U k j else 0 else 0 := by
  have : ∀ i, (∑ j ∈ Finset.Ico (c i) (d i), if P i j ∧ i = k then U i j else 0)
      = if i = k then ∑ j ∈ Finset.Ico (c i) (d i), if P i j then U i j else 0 else 0 := by
    intro i
    by_cases h : i = k
    · simp [h]
    · simp [h]
  simp only [this, Finset.sum_ite_eq', Finset.mem_Ico]

theorem collapse2 {M : Type} [AddCommMonoid M] (k a b : Nat) (c d : Nat → Nat)
    (P : Nat → Nat → Prop) [∀ i j, Decidable (P i j)] (V : Nat → Nat → M) :
    (∑ i ∈ Finset.Ico a b, ∑ j ∈ Finset.Ico (c i) (d i), if P i j ∧ j = k then V i j else 0)
      = ∑ i ∈ Finset.Ico a b, if P i k ∧ c i ≤ k ∧ k < d i then V i k else 0 := by
  apply Finset.sum_congr rfl
  intro i _
  have : ∀ j, (if P i j ∧ j = k then V i j else 0) = if j = k then (if P i k then V i k else 0) else 0 := by
    intro j
    by_cases h : j = k
    · subst h; simp
    · simp [h]
  simp only [this, Finset.sum_ite_eq', Finset.mem_Ico]
  by_cases h1 : P i k <;> by_cases h2 : c i ≤ k ∧ k < d i <;> simp [h1, h2]

theorem ite_add4_of {M : Type} [AddCommMonoid M] (p q r s t : Prop) [Decidable p] [Decidable q]
    [Decidable r] [Decidable s] [Decidable t] (u : M)
    (h : (p ∨ q ∨ r ∨ s ↔ t) ∧ ¬(p ∧ q) ∧ ¬(p ∧ r) ∧ ¬(p ∧ s) ∧ ¬(q ∧ r) ∧ ¬(q ∧ s) ∧ ¬(r ∧ s)) :
    ((if p then u else 0) + (if q then u else 0)) + ((if r then u else 0) + (if s then u else 0))
      = if t then u else 0 := by
  by_cases hp : p <;> by_cases hq : q <;> by_cases hr : r <;> by_cases hs : s <;> by_cases ht : t <;>
    simp_all

theorem compTot_declarative (kern : K → K) (cfg : Cfg K) {N : Nat} (m : Nat → K) (x : Nat → V3 K)
    (hNa : cfg.nActive ≤ N) (hig : cfg.ignore ≤ 2) {k : Nat} (hk : k < N) :
    compTot kern cfg N m x k = ∑ j ∈ Finset.range N,
      if Src cfg.nActive cfg.tpType cfg.ignore k j
      then force (fun s _ _ => kern s) (cfg.soft * cfg.soft) m x 0 k j else 0 := by
  unfold compTot compC
  have split : ∀ (sk : Prop) [Decidable sk] (p q : Prop) [Decidable p] [Decidable q] (A B : V3 K),
      (if sk then 0 else ((if p then A else 0) + (if q then B else 0)))
        = (if ¬sk ∧ p then A else 0) + (if ¬sk ∧ q then B else 0) := by
    intro sk _ p _ q _ A B
    by_cases h : sk <;> simp [h]
  simp only [split, Finset.sum_add_distrib, true_and]
  simp only [← and_assoc]
  rw [collapse1 k, collapse1 k, collapse2 k, collapse2 k]
  rw [ite_sum_zero, ite_sum_zero]
  rw [sum_Ico_ind _ _ N hNa, sum_Ico_ind _ _ N hNa, sum_Ico_ind _ _ N hNa, sum_Ico_ind _ _ N (le_refl N)]
  simp only [← Finset.sum_add_distrib]
  apply Finset.sum_congr rfl
  intro j hj
  have hj' : j < N := Finset.mem_range.mp hj
  have hr : roleJ (fun s _ _ => kern s) (cfg.soft * cfg.soft) m x 0 j k
      = force (fun s _ _ => kern s) (cfg.soft * cfg.soft) m x 0 k j := by
    have := roleJ_eq_roleI (fun s _ _ => kern s) (fun _ _ _ => rfl) (cfg.soft * cfg.soft) m x 0 k j
    simpa using this
  simp only [hr, ← ite_and, compSkip_iff]
  apply ite_add4_of
  unfold Src
  rcases cfg with ⟨Na, tp, ig, soft⟩
  simp only at hNa hig ⊢
  have : ig = 0 ∨ ig = 1 ∨ ig = 2 := by omega
  rcases this with rfl | rfl | rfl <;> cases tp <;>
    simp only [Bool.false_eq_true, eq_self_iff_true, true_and, false_and, and_false, or_false, and_true,
      not_false_eq_true] <;> omega

end RV.Gravity
