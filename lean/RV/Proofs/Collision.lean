import RV.Proofs.Field
import RV.Model.Collision
import Mathlib.Algebra.Order.Field.Basic
import Mathlib.Algebra.BigOperators.Group.List.Basic
import Mathlib.Data.List.Basic
import Mathlib.Data.List.Perm.Basic
import Mathlib.Tactic.Linarith
import Mathlib.Tactic.Positivity
/-
  helper lemmas for RV/Props/C13.lean: search loops = declarative specification, the
  ordered-field instance of the comparisons, the quadratic minimisation of the line search,
  the shuffle is a permutation.
-/
set_option linter.unusedVariables false
set_option linter.unusedSimpArgs false
set_option linter.unusedSectionVars false
namespace RV.Collision
open RV

/-! ## loops = filter (any scalar type) -/
section loops
variable {K : Type} [ScalarO K]

/-- pairs found for outer particle `(i, ip, p1)` in ghost box `gb` -/
def directPairs (gb : GB K) (t : Nat × Nat × Part K) (inner : List (Nat × Nat × Part K)) :
    List (Coll (GB K)) :=
  inner.filterMap fun u =>
    if (t.1 != u.1) && directHit (shiftGB gb t.2.2) t.2.2.r u.2.2
    then some ⟨(t.2.1 : Int), (u.2.1 : Int), gb⟩ else none

/-- declarative form of the DIRECT search: ghost boxes × outer × inner, filtered -/
def directSpec (ring : List (GB K)) (cand : List (Nat × Part K)) (nInner : Nat) :
    List (Coll (GB K)) :=
  ring.flatMap fun gb => (indexed cand).flatMap fun t =>
    directPairs gb t ((indexed cand).take nInner)

theorem directLoopJ_eq (gborig g : GB K) (i ip : Nat) (r1 : K)
    (inner : List (Nat × Nat × Part K)) (acc : List (Coll (GB K))) :
    directLoopJ gborig g i ip r1 inner acc = acc ++ inner.filterMap fun u =>
      if (i != u.1) && directHit g r1 u.2.2 then some ⟨(ip : Int), (u.2.1 : Int), gborig⟩ else none := by
  induction inner generalizing acc with
  | nil => simp [directLoopJ]
  | cons u rest ih =>
    obtain ⟨j, jp, p2⟩ := u
    simp only [directLoopJ, List.filterMap_cons]
    by_cases hij : i = j
    · subst hij; simp [ih]
    · have h1 : (i == j) = false := by simpa using hij
      have h2 : (i != j) = true := by simpa using hij
      simp only [h1, Bool.false_eq_true, if_false, h2, Bool.true_and]
      cases hh : directHit g r1 p2
      · simp [ih]
      · simp [ih]

theorem directLoopI_eq (gb : GB K) (inner outer : List (Nat × Nat × Part K))
    (acc : List (Coll (GB K))) :
    directLoopI gb inner outer acc = acc ++ outer.flatMap fun t => directPairs gb t inner := by
  induction outer generalizing acc with
  | nil => simp [directLoopI]
  | cons t rest ih =>
    obtain ⟨i, ip, p1⟩ := t
    simp only [directLoopI, ih, directLoopJ_eq, List.flatMap_cons, directPairs, List.append_assoc]

theorem foldl_append_flatMap {β γ : Type} (f : β → List γ) (l : List β) (init : List γ) :
    l.foldl (fun acc x => acc ++ f x) init = init ++ l.flatMap f := by
  induction l generalizing init with
  | nil => simp
  | cons x r ih => simp [ih, List.append_assoc]

theorem directSearch_eq_spec (ring : List (GB K)) (cand : List (Nat × Part K)) (nInner : Nat) :
    directSearch ring cand nInner = directSpec ring cand nInner := by
  unfold directSearch directSpec
  simp only [directLoopI_eq]
  rw [foldl_append_flatMap]; simp

/-- pairs found for outer particle `(ip,p1)` against the later particles `rest` -/
def linePairs (dt : K) (gb : GB K) (ip : Nat) (p1 : Part K) (rest : List (Nat × Part K)) :
    List (Coll (GB K)) :=
  rest.filterMap fun u =>
    if lineHit dt (shiftGB gb p1) p1.r u.2 then some ⟨(ip : Int), (u.1 : Int), gb⟩ else none

/-- all pairs `i < j` (by position) in one ghost box -/
def lineSpecI (dt : K) (gb : GB K) : List (Nat × Part K) → List (Coll (GB K))
  | [] => []
  | (ip, p1) :: rest => linePairs dt gb ip p1 rest ++ lineSpecI dt gb rest

def lineSpec (dt : K) (ring : List (GB K)) (cand : List (Nat × Part K)) : List (Coll (GB K)) :=
  ring.flatMap fun gb => lineSpecI dt gb cand

theorem lineLoopJ_eq (dt : K) (gborig g : GB K) (ip : Nat) (r1 : K)
    (rest : List (Nat × Part K)) (acc : List (Coll (GB K))) :
    lineLoopJ dt gborig g ip r1 rest acc = acc ++ rest.filterMap fun u =>
      if lineHit dt g r1 u.2 then some ⟨(ip : Int), (u.1 : Int), gborig⟩ else none := by
  induction rest generalizing acc with
  | nil => simp [lineLoopJ]
  | cons u r ih =>
    obtain ⟨jp, p2⟩ := u
    simp only [lineLoopJ, List.filterMap_cons]
    cases hh : lineHit dt g r1 p2 <;> simp [ih]

theorem lineLoopI_eq (dt : K) (gb : GB K) (cand : List (Nat × Part K)) (acc : List (Coll (GB K))) :
    lineLoopI dt gb cand acc = acc ++ lineSpecI dt gb cand := by
  induction cand generalizing acc with
  | nil => simp [lineLoopI, lineSpecI]
  | cons t rest ih =>
    obtain ⟨ip, p1⟩ := t
    simp only [lineLoopI, ih, lineLoopJ_eq, lineSpecI, linePairs, List.append_assoc]

theorem lineSearch_eq_spec (dt : K) (ring : List (GB K)) (cand : List (Nat × Part K)) :
    lineSearch dt ring cand = lineSpec dt ring cand := by
  unfold lineSearch lineSpec
  simp only [lineLoopI_eq]
  rw [foldl_append_flatMap]; simp

/-- membership in `lineSpecI`: exactly the position pairs `i < j` that pass the test -/
theorem mem_lineSpecI (dt : K) (gb : GB K) (cand : List (Nat × Part K)) (c : Coll (GB K)) :
    c ∈ lineSpecI dt gb cand ↔
      ∃ i j : Nat, ∃ (hij : i < j) (hj : j < cand.length),
        lineHit dt (shiftGB gb (cand[i]'(by omega)).2) (cand[i]'(by omega)).2.r cand[j].2 = true ∧
        c = ⟨((cand[i]'(by omega)).1 : Int), (cand[j].1 : Int), gb⟩ := by
  induction cand with
  | nil => simp [lineSpecI]
  | cons t rest ih =>
    obtain ⟨ip, p1⟩ := t
    simp only [lineSpecI, List.mem_append, linePairs, List.mem_filterMap, ih]
    constructor
    · rintro (⟨u, hu, hc⟩ | ⟨i, j, hij, hj, hh, hc⟩)
      · obtain ⟨k, hk, rfl⟩ := List.getElem_of_mem hu
        split at hc
        · rename_i hh
          refine ⟨0, k + 1, by omega, by simp; omega, ?_, ?_⟩
          · simpa using hh
          · simpa using (Option.some.inj hc).symm
        · cases hc
      · refine ⟨i + 1, j + 1, by omega, by simp; omega, ?_, ?_⟩
        · simpa using hh
        · simpa using hc
    · rintro ⟨i, j, hij, hj, hh, hc⟩
      cases i with
      | zero =>
        left
        obtain ⟨k, rfl⟩ : ∃ k, j = k + 1 := ⟨j - 1, by omega⟩
        have hk : k < rest.length := by simpa using hj
        refine ⟨rest[k], List.getElem_mem hk, ?_⟩
        have hh' : lineHit dt (shiftGB gb p1) p1.r rest[k].2 = true := by simpa using hh
        simp only [hh', if_true]
        simpa using hc.symm
      | succ i =>
        right
        obtain ⟨k, rfl⟩ : ∃ k, j = k + 1 := ⟨j - 1, by omega⟩
        have hk : k < rest.length := by simpa using hj
        refine ⟨i, k, by omega, hk, ?_, ?_⟩
        · simpa using hh
        · simpa using hc

theorem mem_indexed (cand : List (Nat × Part K)) (t : Nat × Nat × Part K) :
    t ∈ indexed cand ↔ ∃ (h : t.1 < cand.length), t.2.1 = cand[t.1].1 ∧ t.2.2 = cand[t.1].2 := by
  unfold indexed
  simp only [List.mem_map, Prod.exists]
  constructor
  · rintro ⟨a, b, i, hm, rfl⟩
    have := List.mem_zipIdx_iff_getElem?.mp hm
    simp only at this
    obtain ⟨h, e⟩ := List.getElem?_eq_some_iff.mp this
    exact ⟨h, by simp [e], by simp [e]⟩
  · rintro ⟨h, e1, e2⟩
    obtain ⟨i, ip, p⟩ := t
    simp only at h e1 e2
    refine ⟨cand[i].1, cand[i].2, i, ?_, by simp [e1, e2]⟩
    apply List.mem_zipIdx_iff_getElem?.mpr
    simp [h]

theorem indexed_length (cand : List (Nat × Part K)) : (indexed cand).length = cand.length := by
  simp [indexed]

theorem indexed_getElem (cand : List (Nat × Part K)) (k : Nat) (hk : k < cand.length) :
    (indexed cand)[k]'(by simpa [indexed] using hk) = (k, cand[k].1, cand[k].2) := by
  simp [indexed]

theorem mem_indexed_take (cand : List (Nat × Part K)) (n : Nat) (u : Nat × Nat × Part K) :
    u ∈ (indexed cand).take n ↔ u ∈ indexed cand ∧ u.1 < n := by
  rw [List.mem_take_iff_getElem]
  constructor
  · rintro ⟨k, hk, rfl⟩
    have hk' : k < cand.length := by rw [indexed_length] at hk; omega
    refine ⟨List.getElem_mem _, ?_⟩
    rw [indexed_getElem cand k hk']; simp; omega
  · rintro ⟨hm, hn⟩
    obtain ⟨h, e1, e2⟩ := (mem_indexed cand u).mp hm
    refine ⟨u.1, by rw [indexed_length]; omega, ?_⟩
    rw [indexed_getElem cand u.1 h]
    ext <;> simp [e1, e2]

/-- membership in the DIRECT specification, by positions `i`, `j` in the candidate list -/
theorem mem_directSpec (ring : List (GB K)) (cand : List (Nat × Part K)) (nInner : Nat)
    (c : Coll (GB K)) :
    c ∈ directSpec ring cand nInner ↔
      ∃ gb ∈ ring, ∃ (i j : Nat) (hi : i < cand.length) (hj : j < cand.length),
        j < nInner ∧ i ≠ j ∧ directHit (shiftGB gb cand[i].2) cand[i].2.r cand[j].2 = true ∧
        c = ⟨(cand[i].1 : Int), (cand[j].1 : Int), gb⟩ := by
  unfold directSpec directPairs
  simp only [List.mem_flatMap, List.mem_filterMap]
  constructor
  · rintro ⟨gb, hgb, t, ht, u, hu, hc⟩
    obtain ⟨hti, e1, e2⟩ := (mem_indexed cand t).mp ht
    obtain ⟨hu1, hun⟩ := (mem_indexed_take cand nInner u).mp hu
    obtain ⟨hui, f1, f2⟩ := (mem_indexed cand u).mp hu1
    split at hc
    · rename_i hcond
      simp only [Bool.and_eq_true, bne_iff_ne, ne_eq] at hcond
      refine ⟨gb, hgb, t.1, u.1, hti, hui, hun, hcond.1, ?_, ?_⟩
      · rw [← e2, ← f2]; exact hcond.2
      · rw [← e1, ← f1]; exact (Option.some.inj hc).symm
    · cases hc
  · rintro ⟨gb, hgb, i, j, hi, hj, hjn, hij, hh, hc⟩
    refine ⟨gb, hgb, (i, cand[i].1, cand[i].2), (mem_indexed cand _).mpr ⟨hi, rfl, rfl⟩,
      (j, cand[j].1, cand[j].2), (mem_indexed_take cand nInner _).mpr
        ⟨(mem_indexed cand _).mpr ⟨hj, rfl, rfl⟩, hjn⟩, ?_⟩
    have : ((i != j) && directHit (shiftGB gb cand[i].2) cand[i].2.r cand[j].2) = true := by
      simp [hij, hh]
    simp only [this, if_true, hc]

end loops

/-! ## shuffle -/

theorem swapSeq_perm {β : Type} (news : List Nat) (i : Nat) (a : Array β) :
    (swapSeq news i a).toList.Perm a.toList := by
  induction news generalizing i a with
  | nil => exact List.Perm.refl _
  | cons n r ih =>
    refine (ih (i+1) _).trans ?_
    unfold Array.swapIfInBounds
    split
    · split
      · exact (Array.swap_perm ..).toList
      · exact List.Perm.refl _
    · exact List.Perm.refl _

theorem shuffle_perm {β : Type} (seed : UInt32) (l : List β) : (shuffle seed l).1.Perm l := by
  unfold shuffle
  simpa using swapSeq_perm (drawNews l.length l.length seed).1 0 l.toArray

/-! ## ordered field instance of the comparisons -/
section ordered
variable {K : Type} [Field K] [LinearOrder K] [IsStrictOrderedRing K]

instance fieldScalarO : ScalarO K where
  toScalar := fieldScalar
  lt a b := decide (a < b)
  le a b := decide (a ≤ b)

@[simp] theorem sco_lt (a b : K) : ScalarO.lt a b = decide (a < b) := rfl
@[simp] theorem sco_le (a b : K) : ScalarO.le a b = decide (a ≤ b) := rfl
@[simp] theorem gt_iff' (a b : K) : gt a b = decide (b < a) := rfl

theorem cmin_eq_min (a b : K) : cmin a b = min a b := by
  unfold cmin
  simp only [gt_iff', decide_eq_true_eq]
  split
  · rename_i h; exact (min_eq_right h.le).symm
  · rename_i h; exact (min_eq_left (not_lt.mp h)).symm

/-- the DIRECT pair test in exact arithmetic: overlapping (`‖d‖² ≤ (r₁+r₂)²`) and not receding
    (`d·dv ≤ 0`) -/
theorem directHit_iff (g : GB K) (r1 : K) (p2 : Part K) :
    directHit g r1 p2 = true ↔
      (g.x - p2.x)^2 + (g.y - p2.y)^2 + (g.z - p2.z)^2 ≤ (r1 + p2.r)^2 ∧
      (g.vx - p2.vx)*(g.x - p2.x) + (g.vy - p2.vy)*(g.y - p2.y) + (g.vz - p2.vz)*(g.z - p2.z) ≤ 0 := by
  unfold directHit dist2 approachDot
  simp only [gt_iff', sc_hadd, sc_hsub, sc_hmul, sc_zero, decide_eq_true_eq]
  constructor
  · intro h
    split at h
    · cases h
    · rename_i h1
      split at h
      · cases h
      · rename_i h2
        exact ⟨by have := not_lt.mp h1; nlinarith [this], not_lt.mp h2⟩
  · rintro ⟨h1, h2⟩
    have e1 : ¬ ((r1 + p2.r) * (r1 + p2.r) <
        (g.x - p2.x) * (g.x - p2.x) + (g.y - p2.y) * (g.y - p2.y) + (g.z - p2.z) * (g.z - p2.z)) := by
      apply not_lt.mpr; nlinarith [h1]
    rw [if_neg e1, if_neg (not_lt.mpr h2)]

/-! ### the line search: quadratic minimisation -/

/-- squared separation at time `τ` before the end of the step -/
def sep2 (q : LineQ K) (τ : K) : K :=
  (q.dx1 - τ*q.dvx1)^2 + (q.dy1 - τ*q.dvy1)^2 + (q.dz1 - τ*q.dvz1)^2

theorem lineQ_r1 (dt : K) (g : GB K) (p2 : Part K) : (lineQ dt g p2).r1 = sep2 (lineQ dt g p2) 0 := by
  simp [lineQ, sep2]; ring

theorem lineQ_r2 (dt : K) (g : GB K) (p2 : Part K) : (lineQ dt g p2).r2 = sep2 (lineQ dt g p2) dt := by
  simp [lineQ, sep2]; ring

theorem sep2_diff (q : LineQ K) (τ σ : K) :
    sep2 q τ - sep2 q σ =
      (q.dvx1*q.dvx1 + q.dvy1*q.dvy1 + q.dvz1*q.dvz1) * (τ - σ) * (τ + σ)
      - 2 * (q.dx1*q.dvx1 + q.dy1*q.dvy1 + q.dz1*q.dvz1) * (τ - σ) := by
  unfold sep2; ring

/-- `sep2` is a quadratic with leading coefficient `A = |dv|²` and vertex `B/A` -/
theorem sep2_vertex (q : LineQ K) (τ : K)
    (hA : q.dvx1*q.dvx1 + q.dvy1*q.dvy1 + q.dvz1*q.dvz1 ≠ 0) :
    sep2 q τ - sep2 q (lineTc q) =
      (q.dvx1*q.dvx1 + q.dvy1*q.dvy1 + q.dvz1*q.dvz1) * (τ - lineTc q)^2 := by
  have hB : lineTc q * (q.dvx1*q.dvx1 + q.dvy1*q.dvy1 + q.dvz1*q.dvz1) =
      q.dx1*q.dvx1 + q.dy1*q.dvy1 + q.dz1*q.dvz1 := by
    unfold lineTc
    simp only [sc_hadd, sc_hmul, sc_hdiv]
    exact div_mul_cancel₀ _ hA
  rw [sep2_diff]
  linear_combination (2 * (τ - lineTc q)) * hB

theorem dv_zero_of_A_zero (q : LineQ K)
    (hA : q.dvx1*q.dvx1 + q.dvy1*q.dvy1 + q.dvz1*q.dvz1 = 0) :
    q.dvx1 = 0 ∧ q.dvy1 = 0 ∧ q.dvz1 = 0 := by
  have h1 := mul_self_nonneg q.dvx1
  have h2 := mul_self_nonneg q.dvy1
  have h3 := mul_self_nonneg q.dvz1
  refine ⟨?_, ?_, ?_⟩ <;> apply mul_self_eq_zero.mp <;> linarith

theorem lineTc_mul (q : LineQ K)
    (hA : q.dvx1*q.dvx1 + q.dvy1*q.dvy1 + q.dvz1*q.dvz1 ≠ 0) :
    lineTc q * (q.dvx1*q.dvx1 + q.dvy1*q.dvy1 + q.dvz1*q.dvz1) =
      q.dx1*q.dvx1 + q.dy1*q.dvy1 + q.dz1*q.dvz1 := by
  unfold lineTc
  simp only [sc_hadd, sc_hmul, sc_hdiv]
  exact div_mul_cancel₀ _ hA

theorem lineRmin2Gen_eq (q : LineQ K) (tc : K) (inr : Bool) :
    lineRmin2Gen q tc inr = if inr then min (min q.r1 q.r2) (sep2 q tc) else min q.r1 q.r2 := by
  unfold lineRmin2Gen
  simp only [cmin_eq_min, sc_hadd, sc_hsub, sc_hmul]
  cases inr
  · simp
  · simp only [if_true]; congr 1; unfold sep2; ring

theorem lineInRange_iff (dt tc : K) : lineInRange dt tc = true ↔ 0 ≤ tc/dt ∧ tc/dt ≤ 1 := by
  unfold lineInRange
  simp only [sco_le, sc_zero, sc_one, sc_hdiv, Bool.and_eq_true, decide_eq_true_eq]

/-- the dv = 0 corner: whatever value `t_closest` has (C: NaN) and whichever way the range
    test goes, `rmin2_ab` is the (constant) squared separation -/
theorem lineRmin2Gen_dv0 (dt : K) (g : GB K) (p2 : Part K)
    (h : (lineQ dt g p2).dvx1 = 0 ∧ (lineQ dt g p2).dvy1 = 0 ∧ (lineQ dt g p2).dvz1 = 0)
    (tc : K) (inr : Bool) (τ : K) :
    lineRmin2Gen (lineQ dt g p2) tc inr = sep2 (lineQ dt g p2) τ := by
  obtain ⟨h1, h2, h3⟩ := h
  have hc : ∀ σ, sep2 (lineQ dt g p2) σ = sep2 (lineQ dt g p2) τ := by
    intro σ; unfold sep2; rw [h1, h2, h3]; ring
  rw [lineRmin2Gen_eq, lineQ_r1, lineQ_r2, hc 0, hc dt, hc tc]
  cases inr <;> simp

theorem A_nonneg (q : LineQ K) : 0 ≤ q.dvx1*q.dvx1 + q.dvy1*q.dvy1 + q.dvz1*q.dvz1 := by
  have h1 := mul_self_nonneg q.dvx1
  have h2 := mul_self_nonneg q.dvy1
  have h3 := mul_self_nonneg q.dvz1
  linarith

/-- lower bound: the code's `rmin2_ab` is ≤ the squared separation at every time of the step -/
theorem lineRmin2_le (dt : K) (hdt : dt ≠ 0) (g : GB K) (p2 : Part K) (τ : K)
    (h0 : 0 ≤ τ/dt) (h1 : τ/dt ≤ 1) :
    lineRmin2 dt g p2 ≤ sep2 (lineQ dt g p2) τ := by
  unfold lineRmin2
  simp only
  generalize hq : lineQ dt g p2 = q
  have hr1 : q.r1 = sep2 q 0 := by rw [← hq]; exact lineQ_r1 dt g p2
  have hr2 : q.r2 = sep2 q dt := by rw [← hq]; exact lineQ_r2 dt g p2
  rw [lineRmin2Gen_eq, hr1, hr2]
  by_cases hA : q.dvx1*q.dvx1 + q.dvy1*q.dvy1 + q.dvz1*q.dvz1 = 0
  · obtain ⟨e1, e2, e3⟩ := dv_zero_of_A_zero q hA
    have hc : ∀ σ, sep2 q σ = sep2 q τ := by
      intro σ; unfold sep2; rw [e1, e2, e3]; ring
    rw [hc 0, hc dt, hc (lineTc q)]
    split <;> simp
  · have hApos : 0 < q.dvx1*q.dvx1 + q.dvy1*q.dvy1 + q.dvz1*q.dvz1 :=
      lt_of_le_of_ne (A_nonneg q) (Ne.symm hA)
    have hB := lineTc_mul q hA
    cases hin : lineInRange dt (lineTc q)
    · simp only [Bool.false_eq_true, if_false]
      have hnot : ¬ (0 ≤ lineTc q/dt ∧ lineTc q/dt ≤ 1) := by
        rw [← lineInRange_iff, hin]; simp
      generalize hs : τ/dt = s at h0 h1
      generalize hu : lineTc q/dt = u at hnot
      have eτ : τ = s*dt := by rw [← hs]; field_simp
      have etc : lineTc q = u*dt := by rw [← hu]; field_simp
      have hdt2 : 0 < dt*dt := mul_self_pos.mpr hdt
      by_cases hneg : u < 0
      · -- minimum at τ = 0
        have : sep2 q τ - sep2 q 0 =
            (q.dvx1*q.dvx1 + q.dvy1*q.dvy1 + q.dvz1*q.dvz1) * (dt*dt) * (s * (s - 2*u)) := by
          rw [sep2_diff, eτ]
          rw [etc] at hB
          linear_combination (2 * s * dt) * hB
        have hp : 0 ≤ (q.dvx1*q.dvx1 + q.dvy1*q.dvy1 + q.dvz1*q.dvz1) * (dt*dt) * (s * (s - 2*u)) := by
          apply mul_nonneg (mul_nonneg hApos.le hdt2.le)
          apply mul_nonneg h0; linarith
        exact le_trans (min_le_left _ _) (by linarith)
      · have hgt : 1 < u := by
          by_contra hle
          exact hnot ⟨not_lt.mp hneg, not_lt.mp hle⟩
        have : sep2 q τ - sep2 q dt =
            (q.dvx1*q.dvx1 + q.dvy1*q.dvy1 + q.dvz1*q.dvz1) * (dt*dt) * ((1 - s) * (2*u - s - 1)) := by
          rw [sep2_diff, eτ]
          rw [etc] at hB
          linear_combination (2 * (s*dt - dt)) * hB
        have hp : 0 ≤ (q.dvx1*q.dvx1 + q.dvy1*q.dvy1 + q.dvz1*q.dvz1) * (dt*dt) * ((1 - s) * (2*u - s - 1)) := by
          apply mul_nonneg (mul_nonneg hApos.le hdt2.le)
          apply mul_nonneg <;> linarith
        exact le_trans (min_le_right _ _) (by linarith)
    · simp only [if_true]
      have hv := sep2_vertex q τ hA
      have : 0 ≤ (q.dvx1*q.dvx1 + q.dvy1*q.dvy1 + q.dvz1*q.dvz1) * (τ - lineTc q)^2 :=
        mul_nonneg hApos.le (sq_nonneg _)
      exact le_trans (min_le_right _ _) (by linarith)

/-- the bound is attained at a time of the step: `rmin2_ab` *is* the minimum -/
theorem lineRmin2_attained (dt : K) (hdt : dt ≠ 0) (g : GB K) (p2 : Part K) :
    ∃ τ, 0 ≤ τ/dt ∧ τ/dt ≤ 1 ∧ lineRmin2 dt g p2 = sep2 (lineQ dt g p2) τ := by
  unfold lineRmin2
  simp only
  generalize hq : lineQ dt g p2 = q
  have hr1 : q.r1 = sep2 q 0 := by rw [← hq]; exact lineQ_r1 dt g p2
  have hr2 : q.r2 = sep2 q dt := by rw [← hq]; exact lineQ_r2 dt g p2
  rw [lineRmin2Gen_eq, hr1, hr2]
  have z0 : (0 : K) ≤ 0/dt ∧ (0 : K)/dt ≤ 1 := by simp
  have z1 : (0 : K) ≤ dt/dt ∧ dt/dt ≤ 1 := by rw [div_self hdt]; simp
  have hmin : ∃ τ, 0 ≤ τ/dt ∧ τ/dt ≤ 1 ∧ min (sep2 q 0) (sep2 q dt) = sep2 q τ := by
    rcases le_total (sep2 q 0) (sep2 q dt) with h | h
    · exact ⟨0, z0.1, z0.2, min_eq_left h⟩
    · exact ⟨dt, z1.1, z1.2, min_eq_right h⟩
  cases hin : lineInRange dt (lineTc q)
  · simpa using hmin
  · simp only [if_true]
    obtain ⟨t0, a0, a1, e⟩ := hmin
    rcases le_total (min (sep2 q 0) (sep2 q dt)) (sep2 q (lineTc q)) with h | h
    · exact ⟨t0, a0, a1, by rw [min_eq_left h, e]⟩
    · obtain ⟨b0, b1⟩ := (lineInRange_iff dt (lineTc q)).mp hin
      exact ⟨lineTc q, b0, b1, min_eq_right h⟩

end ordered

end RV.Collision
