import RV.Proofs.GravityEnc
/-
  TRACE (gravity.c:755-990): the interaction mode is the MERCURIUS mode-0 nest with
  `if (current_Ks[j*N+i]) continue;`; the Kepler mode is the encounter routine with
  `if (!current_Ks[mj*N+mi]) continue;`.  A skipped pair is a pair of weight 0.
-/
set_option linter.unusedTactic false
set_option linter.unreachableTactic false
set_option linter.unnecessarySeqFocus false
set_option linter.unusedVariables false
set_option linter.unusedSimpArgs false
set_option linter.unusedSectionVars false
namespace RV.Gravity
open RV
variable {K : Type} [Field K]

/-- the loops only ever evaluate the weight on ordered pairs `(i,j)` with `j < i` -/
theorem boxC_congr (pref pref' : K → Nat → Nat → K) (h : ∀ s i j, j < i → pref s i j = pref' s i j)
    (cfg : Cfg K) (N : Nat) (m : Nat → K) (x : Nat → V3 K) (gb : V3 K) (k : Nat) :
    boxC pref cfg N m x gb k = boxC pref' cfg N m x gb k := by
  unfold boxC
  congr 1
  · apply Finset.sum_congr rfl; intro i hi
    apply Finset.sum_congr rfl; intro j hj
    have := Finset.mem_Ico.mp hj
    simp only [pairC, roleI, roleJ, h _ i j (by omega)]
  · apply Finset.sum_congr rfl; intro i hi
    apply Finset.sum_congr rfl; intro j hj
    have := Finset.mem_Ico.mp hi
    have := Finset.mem_Ico.mp hj
    simp only [pairC, roleI, roleJ, h _ i j (by omega)]

/-- weight of the interaction mode: the pair `(i,j)`, `j<i`, is skipped when `current_Ks[j*N+i]` -/
def prefMask (pref : K → Nat → Nat → K) (ks : Nat → Nat → Bool) (s : K) (i j : Nat) : K :=
  if ks j i = true then 0 else pref s i j

/-- the same weights as symmetric functions of the unordered pair (mask read at (min,max)) -/
def prefMaskS (pref : K → Nat → Nat → K) (ks : Nat → Nat → Bool) (s : K) (i j : Nat) : K :=
  if ks (min i j) (max i j) = true then 0 else pref s i j
def prefKeepS (pref : K → Nat → Nat → K) (ks : Nat → Nat → Bool) (s : K) (i j : Nat) : K :=
  if ks (min i j) (max i j) = true then pref s i j else 0

theorem accTrace0_get (pref : K → Nat → Nat → K) (ks : Nat → Nat → Bool) (cfg : Cfg K) {N : Nat}
    (m : Nat → K) (x : Nat → V3 K) (hNa : cfg.nActive ≤ N) {k : Nat} (hk : k < N) :
    (accTrace0 pref ks cfg (mkPs N m x))[k]?
      = some (boxC (prefMask pref ks) ⟨cfg.nActive, cfg.tpType, 2, cfg.soft⟩ N m x 0 k) := by
  have hstep : ∀ (both : Bool) (i j : Nat), i < N → j < N →
      Additive (fun acc => if ks j i = true then acc
        else pairStep pref (cfg.soft * cfg.soft) (mkPs N m x) V3.zero both acc i j)
        (pairC (prefMask pref ks) (cfg.soft * cfg.soft) m x 0 both i j) := by
    intro both i j hi hj
    by_cases hs : ks j i = true
    · simp only [hs, if_true]
      refine additive_congr additive_id ?_
      intro k; simp [pairC, roleI, roleJ, prefMask, hs]
    · simp only [hs, if_false]
      refine additive_congr (additive_pairStep pref (cfg.soft * cfg.soft) m x 0 both hi hj) ?_
      intro k; simp [pairC, roleI, roleJ, prefMask, hs]
  have h : Additive (fun acc =>
      forRange (max cfg.nActive 2) N
        (forRange 2 cfg.nActive acc fun acc i =>
          forRange 1 i acc fun acc j =>
            if ks j i = true then acc else pairStep pref (cfg.soft * cfg.soft) (mkPs N m x) V3.zero true acc i j)
        fun acc i =>
          forRange 1 cfg.nActive acc fun acc j =>
            if ks j i = true then acc else pairStep pref (cfg.soft * cfg.soft) (mkPs N m x) V3.zero cfg.tpType acc i j)
      (boxC (prefMask pref ks) ⟨cfg.nActive, cfg.tpType, 2, cfg.soft⟩ N m x 0) := by
    unfold boxC
    simp only [startI_2, startJ_2]
    refine additive_comp
      (f := fun acc => forRange 2 cfg.nActive acc fun acc i =>
        forRange 1 i acc fun acc j =>
          if ks j i = true then acc else pairStep pref (cfg.soft * cfg.soft) (mkPs N m x) V3.zero true acc i j)
      (g := fun acc => forRange (max cfg.nActive 2) N acc fun acc i =>
        forRange 1 cfg.nActive acc fun acc j =>
          if ks j i = true then acc else pairStep pref (cfg.soft * cfg.soft) (mkPs N m x) V3.zero cfg.tpType acc i j) ?_ ?_
    · apply additive_forRange; intro i hi1 hi2
      apply additive_forRange; intro j hj1 hj2
      exact hstep true i j (by omega) (by omega)
    · apply additive_forRange; intro i hi1 hi2
      apply additive_forRange; intro j hj1 hj2
      exact hstep cfg.tpType i j (by omega) (by omega)
  have := additive_from_zero h N k hk
  simp only [accTrace0, mkPs_size, sc_hmul]
  exact this

theorem prefMask_agree (pref : K → Nat → Nat → K) (ks : Nat → Nat → Bool) :
    ∀ s i j, j < i → prefMask pref ks s i j = prefMaskS pref ks s i j := by
  intro s i j h
  simp [prefMask, prefMaskS, Nat.min_eq_right (Nat.le_of_lt h), Nat.max_eq_left (Nat.le_of_lt h)]

theorem prefMaskS_symm (pref : K → Nat → Nat → K) (hsym : ∀ s i j, pref s i j = pref s j i)
    (ks : Nat → Nat → Bool) : ∀ s i j, prefMaskS pref ks s i j = prefMaskS pref ks s j i := by
  intro s i j
  simp [prefMaskS, Nat.min_comm i j, Nat.max_comm i j, hsym s i j]

theorem prefKeepS_symm (pref : K → Nat → Nat → K) (hsym : ∀ s i j, pref s i j = pref s j i)
    (ks : Nat → Nat → Bool) : ∀ s i j, prefKeepS pref ks s i j = prefKeepS pref ks s j i := by
  intro s i j
  simp [prefKeepS, Nat.min_comm i j, Nat.max_comm i j, hsym s i j]

/-- Kepler-mode weight on the identity map agrees with the symmetric "kept pairs" weight -/
theorem prefEnc_keep_agree (pref : K → Nat → Nat → K) (ks : Nat → Nat → Bool) :
    ∀ s i j, j < i → prefEnc pref (fun mi mj => !(ks mj mi)) id s i j = prefKeepS pref ks s i j := by
  intro s i j h
  simp only [prefEnc, prefKeepS, id, Nat.min_eq_right (Nat.le_of_lt h), Nat.max_eq_left (Nat.le_of_lt h)]
  cases ks j i <;> simp

end RV.Gravity
