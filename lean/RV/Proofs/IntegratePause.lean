import RV.Proofs.IntegrateRestore
/-
  C08, PAUSED / SINGLE_STEP machinery: key presses delivered by another thread (space = pause / resume,
  arrow-down = one step, page-down = 50 steps) do not change what is integrated.  Valid for every step
  function, every tmax (also INFINITY), either value of exact_finish_time and every exit-condition
  schedule without SIGINT.
-/
set_option linter.unusedSectionVars false
set_option linter.unusedVariables false
set_option linter.unusedSimpArgs false
set_option linter.unnecessarySimpa false
set_option linter.unusedTactic false
set_option linter.unreachableTactic false
namespace RV.Integrate
open RV
variable {K : Type} [Field K] [LinearOrder K] [IsStrictOrderedRing K]

/-- statuses the time logic of `reb_check_exit` treats exactly like RUNNING: negative, not LAST_STEP,
    not one of the two waiting states (the SINGLE_STEP countdown values are of this kind) -/
def RunLike (σ : Int) : Prop := σ < 0 ∧ σ ≠ -2 ∧ σ ≠ -3 ∧ σ ≠ -4

/-- status of the run with key presses (`σ`) versus status of the undisturbed run (`τ`) -/
def SRel (σ τ : Int) : Prop := (τ = -1 ∧ RunLike σ) ∨ (σ = τ ∧ (τ = -2 ∨ 0 ≤ τ))

/-- same simulation up to the status bookkeeping of the pause machinery -/
def Rel (s s0 : Sim K) : Prop :=
  s.t = s0.t ∧ s.dt = s0.dt ∧ s.dtLastDone = s0.dtLastDone ∧ s.exactFinish = s0.exactFinish ∧
  s.stepsDone = s0.stepsDone ∧ s.nOdes = s0.nOdes ∧ s.isBS = s0.isBS ∧ s.syncs = s0.syncs ∧
  stepSeq s = stepSeq s0 ∧ SRel s.status s0.status

theorem rel_eq (s s0 : Sim K) (h : Rel s s0) :
    s = { s0 with status := s.status, hist := s.hist } := by
  obtain ⟨h1, h2, h3, h4, h5, h6, h7, h8, _, _⟩ := h
  cases s; cases s0; simp_all

/-- the countdown on the status alone -/
def cdStatus (σ : Int) : Int := if σ ≤ -10 then (if σ = -10 then -3 else σ + 1) else σ

theorem exitCountdown_eq (s : Sim K) : exitCountdown s = { s with status := cdStatus s.status } := by
  unfold exitCountdown cdStatus
  simp only [Status.code]
  split_ifs <;> rfl

/-- RUNNING-like or waiting in the pause loop -/
def PauseLike (σ : Int) : Prop := RunLike σ ∨ σ = -3

theorem pauseLike_cd (σ : Int) (h : PauseLike σ) : PauseLike (cdStatus σ) := by
  unfold cdStatus PauseLike RunLike at *
  split_ifs <;> omega

theorem pauseLike_apply (e : Ctl) (σ : Int) (h : PauseLike σ) : PauseLike (e.apply σ) := by
  unfold PauseLike RunLike at *
  cases e <;> simp only [Ctl.apply, Status.code] <;> split_ifs <;> omega

theorem pauseLike_applyCtl (evs : List Ctl) (σ : Int) (h : PauseLike σ) : PauseLike (applyCtl evs σ) := by
  unfold applyCtl
  induction evs generalizing σ with
  | nil => exact h
  | cons e es ih => exact ih _ (pauseLike_apply e σ h)

theorem apply_fixed (e : Ctl) (τ : Int) (h : τ = -2 ∨ 0 ≤ τ) : e.apply τ = τ := by
  cases e <;> simp only [Ctl.apply, Status.code] <;> split_ifs <;> omega

theorem applyCtl_fixed (evs : List Ctl) (τ : Int) (h : τ = -2 ∨ 0 ≤ τ) : applyCtl evs τ = τ := by
  unfold applyCtl
  induction evs with
  | nil => rfl
  | cons e es ih => simp only [List.foldl_cons, apply_fixed e τ h]; exact ih

/-- key presses and countdown keep the two runs related, as long as the integrator is let go again -/
theorem ctl_srel (pre evs : List Ctl) (σ τ : Int) (h : SRel σ τ)
    (hgo : applyCtl evs (cdStatus (applyCtl pre σ)) ≠ -3 ∧ applyCtl evs (cdStatus (applyCtl pre σ)) ≠ -4) :
    SRel (applyCtl evs (cdStatus (applyCtl pre σ))) τ := by
  rcases h with ⟨hτ, hσ⟩ | ⟨heq, hτ⟩
  · left
    refine ⟨hτ, ?_⟩
    rcases pauseLike_applyCtl evs _ (pauseLike_cd _ (pauseLike_applyCtl pre σ (Or.inl hσ))) with h | h
    · exact h
    · exact absurd h hgo.1
  · right
    have hpre : applyCtl pre σ = τ := by rw [heq]; exact applyCtl_fixed pre τ hτ
    have hcd : cdStatus τ = τ := by unfold cdStatus; split_ifs <;> omega
    rw [hpre, hcd, applyCtl_fixed evs τ hτ]
    exact ⟨rfl, hτ⟩

theorem exitTime_hist (s : Sim K) (h : List (Beat K)) (tmax lf sg : K) (inf : Bool) :
    exitTime { s with hist := h } tmax inf lf sg =
      ({ (exitTime s tmax inf lf sg).1 with hist := h }, (exitTime s tmax inf lf sg).2) := by
  unfold exitTime
  simp only []
  split_ifs <;> rfl

theorem exitNoParticles_hist (s : Sim K) (h : List (Beat K)) (f : Flags) :
    exitNoParticles { s with hist := h } f = { exitNoParticles s f with hist := h } := by
  unfold exitNoParticles
  simp only []
  split_ifs <;> rfl

/-- the time logic does not distinguish a RUNNING-like status from RUNNING -/
theorem exitTime_runlike (s0 : Sim K) (σ : Int) (tmax lf sg : K) (inf : Bool)
    (hτ : s0.status = -1) (hσ : RunLike σ) :
    exitTime { s0 with status := σ } tmax inf lf sg =
      ({ (exitTime s0 tmax inf lf sg).1 with
           status := if (exitTime s0 tmax inf lf sg).1.status = -1 then σ
                     else (exitTime s0 tmax inf lf sg).1.status },
       (exitTime s0 tmax inf lf sg).2) := by
  obtain ⟨h1, h2, h3, h4⟩ := hσ
  have hn : ¬ (0 ≤ σ) := by omega
  unfold exitTime
  simp only [Status.code, hτ, ge_iff_le, hn, if_false, h2]
  have : ¬ ((0 : Int) ≤ -1) := by norm_num
  have h12 : ¬ ((-1 : Int) = -2) := by norm_num
  simp only [this, if_false, h12]
  split_ifs <;> simp_all

/-- apply a function to the simulation a `reb_check_exit` outcome carries -/
def CE.map (g : Sim K → Sim K) : CE K → CE K
  | .ret a lf => .ret (g a) lf
  | .blocked a => .blocked (g a)

theorem checkExitCore_hist (s : Sim K) (h : List (Beat K)) (tmax lf : K) (inf : Bool) (f : Flags) :
    checkExitCore { s with hist := h } tmax inf lf f =
      (checkExitCore s tmax inf lf f).map (fun a => { a with hist := h }) := by
  unfold checkExitCore
  simp only []
  by_cases hp : (s.status = stPAUSED ∨ s.status = stSCREENSHOT) ∧ f.sigint = false
  · simp only [hp, and_self, if_true, CE.map]
  · simp only [hp, if_false, CE.map]
    by_cases h1 : s.status = stPAUSED ∨ s.status = stSCREENSHOT <;> cases h2 : f.errMsg <;>
      simp only [h1, Bool.false_eq_true, if_true, if_false]
    · rw [exitTime_hist { s with status := stSIGINT } h, exitNoParticles_hist]
    · rw [exitTime_hist { s with status := stGENERIC_ERROR } h, exitNoParticles_hist]
    · rw [exitTime_hist s h, exitNoParticles_hist]
    · rw [exitTime_hist { s with status := stGENERIC_ERROR } h, exitNoParticles_hist]

theorem checkExitCore_runlike (s0 : Sim K) (σ : Int) (tmax lf : K) (inf : Bool) (f : Flags)
    (hτ : s0.status = -1) (hσ : RunLike σ) :
    checkExitCore { s0 with status := σ } tmax inf lf f =
      (checkExitCore s0 tmax inf lf f).map
        (fun a => { a with status := if a.status = -1 then σ else a.status }) := by
  obtain ⟨g1, g2, g3, g4⟩ := hσ
  unfold checkExitCore
  simp only [Status.code, hτ, g3, g4, or_self, false_and, if_false, CE.map]
  have n3 : ¬ ((-1 : Int) = -3) := by norm_num
  have n4 : ¬ ((-1 : Int) = -4) := by norm_num
  simp only [n3, n4, or_self, false_and, if_false]
  cases he : f.errMsg
  · simp only [Bool.false_eq_true, if_false]
    rw [exitTime_runlike s0 σ tmax lf _ inf hτ ⟨g1, g2, g3, g4⟩]
    simp only [CE.ret.injEq, and_true]
    have hst := exitTime_status s0 tmax lf (copysign 1 s0.dt) inf (Or.inl hτ)
    generalize (exitTime s0 tmax inf lf (copysign 1 s0.dt)).1 = r at hst ⊢
    unfold exitNoParticles
    simp only [Status.code]
    split_ifs <;> simp_all
  · simp only [if_true]
    rw [exitTime_of_nonneg _ _ _ _ _ (by norm_num)]
    simp only [CE.ret.injEq, and_true]
    unfold exitNoParticles
    split_ifs <;> simp_all [Status.code]

theorem exitTime_keeps_hist (s : Sim K) (tmax lf sg : K) (inf : Bool) :
    (exitTime s tmax inf lf sg).1.hist = s.hist ∧ (exitTime s tmax inf lf sg).1.syncs ≥ s.syncs := by
  unfold exitTime
  simp only []
  split_ifs <;> simp

theorem exitNoParticles_keeps (s : Sim K) (f : Flags) :
    (exitNoParticles s f).hist = s.hist ∧ (exitNoParticles s f).dt = s.dt ∧
    (exitNoParticles s f).dtLastDone = s.dtLastDone ∧ (exitNoParticles s f).exactFinish = s.exactFinish ∧
    (exitNoParticles s f).syncs = s.syncs := by
  unfold exitNoParticles
  split_ifs <;> simp

theorem exitCountdown_id (s : Sim K) (h : s.status = -1 ∨ s.status = -2 ∨ 1 ≤ s.status) :
    exitCountdown s = s := by
  unfold exitCountdown
  simp only [Status.code]
  split_ifs <;> first | omega | rfl

/-- what `reb_check_exit` of the undisturbed run returns -/
theorem checkExit_facts (s0 : Sim K) (tmax lf : K) (inf : Bool) (f : Flags)
    (hτ : s0.status = -1 ∨ s0.status = -2 ∨ 1 ≤ s0.status) :
    ∃ a lf1, checkExitCore s0 tmax inf lf f = .ret a lf1 ∧ checkExit s0 tmax inf lf f = .ret a lf1 ∧
      a.hist = s0.hist ∧ (a.status = -1 ∨ a.status = -2 ∨ 0 ≤ a.status) := by
  have hform := checkExit_form s0 tmax lf inf f hτ
  have hcore : checkExitCore s0 tmax inf lf f = checkExit s0 tmax inf lf f := by
    unfold checkExit; rw [exitCountdown_id s0 hτ]
  refine ⟨_, _, hcore.trans hform, hform, ?_, ?_⟩
  · rw [(exitNoParticles_keeps _ f).1, (exitTime_keeps_hist _ _ _ _ _).1]
    split_ifs <;> rfl
  · rw [exitNoParticles_status]
    by_cases hn : f.n = 0 ∧ ((exitTime (if f.errMsg = true then { s0 with status := 1 } else s0) tmax inf lf
        (copysign 1 s0.dt)).1.nOdes = 0 ∨ (exitTime (if f.errMsg = true then { s0 with status := 1 } else s0) tmax inf lf
        (copysign 1 s0.dt)).1.isBS = false)
    · rw [if_pos hn]; right; right; norm_num
    · rw [if_neg hn]
      by_cases he : f.errMsg = true
      · simp only [he, if_true]
        rw [exitTime_of_nonneg _ _ _ _ _ (by norm_num)]; right; right; norm_num
      · have he' : f.errMsg = false := by simpa using he
        simp only [he', Bool.false_eq_true, if_false]
        rcases hτ with h | h | h
        · rcases exitTime_status s0 tmax lf (copysign 1 s0.dt) inf (Or.inl h) with g | g | g
          · exact Or.inl g
          · exact Or.inr (Or.inl g)
          · right; right; rw [g]
        · rcases exitTime_status s0 tmax lf (copysign 1 s0.dt) inf (Or.inr h) with g | g | g
          · exact Or.inl g
          · exact Or.inr (Or.inl g)
          · right; right; rw [g]
        · rw [exitTime_of_nonneg _ _ _ _ _ (by omega)]; right; right; show 0 ≤ s0.status; omega

theorem stepAndBeat_seq (step : StepFn K) (k : Nat) (s : Sim K) (f : Flags) :
    (stepAndBeat step k s f).syncs = s.syncs ∧
    stepSeq (stepAndBeat step k s f) = (s.t, s.dt, (step k s.t s.dt s.dtLastDone).t) :: stepSeq s := by
  unfold stepAndBeat runHeartbeat stepSeq
  rcases f with ⟨c, u, e, n, sg, em, nn, se⟩
  cases c <;> cases u <;> cases e <;> cases n <;> cases sg <;> cases se <;> simp

theorem checkExitCore_ret_not_paused (s a : Sim K) (tmax lf l : K) (inf : Bool) (f : Flags)
    (h : checkExitCore s tmax inf lf f = .ret a l) (hsig : f.sigint = false) :
    s.status ≠ -3 ∧ s.status ≠ -4 := by
  unfold checkExitCore at h
  simp only [Status.code, hsig, and_true] at h
  by_cases hp : s.status = -3 ∨ s.status = -4
  · simp [hp] at h
  · exact ⟨fun h3 => hp (Or.inl h3), fun h4 => hp (Or.inr h4)⟩

theorem runLike_neg_one : RunLike (-1) := by unfold RunLike; omega

theorem srel_self (τ : Int) (h : τ = -1 ∨ τ = -2 ∨ 0 ≤ τ) : SRel τ τ := by
  rcases h with h | h | h
  · left; rw [h]; exact ⟨rfl, runLike_neg_one⟩
  · right; exact ⟨rfl, Or.inl h⟩
  · right; exact ⟨rfl, Or.inr h⟩

theorem checkExitP_eq (s s0 : Sim K) (tmax lf : K) (inf : Bool) (f : Flags) (pre evs : List Ctl)
    (hs : s = { s0 with status := s.status, hist := s.hist }) :
    checkExitP s tmax inf lf f pre evs =
      checkExitCore { ({ s0 with status := applyCtl evs (cdStatus (applyCtl pre s.status)) } : Sim K) with hist := s.hist }
        tmax inf lf f := by
  unfold checkExitP
  rw [exitCountdown_eq]
  simp only []
  congr 1
  cases s; cases s0; simp_all

/-- one `reb_check_exit` with key presses versus one without -/
theorem checkExitP_rel (s s0 : Sim K) (tmax lf : K) (inf : Bool) (f : Flags) (pre evs : List Ctl)
    (hr : Rel s s0) (hτ : s0.status = -1 ∨ s0.status = -2 ∨ 1 ≤ s0.status) (hsig : f.sigint = false)
    (s1 : Sim K) (lf1 : K) (hce : checkExitP s tmax inf lf f pre evs = .ret s1 lf1) :
    ∃ a, checkExit s0 tmax inf lf f = .ret a lf1 ∧ Rel s1 a ∧
      (a.status = -1 ∨ a.status = -2 ∨ 0 ≤ a.status) := by
  have hs := rel_eq s s0 hr
  obtain ⟨_, _, _, _, _, _, _, _, hseq, hsr⟩ := hr
  obtain ⟨a, la, hcore, hchk, hah, hast⟩ := checkExit_facts s0 tmax lf inf f hτ
  rw [checkExitP_eq s s0 tmax lf inf f pre evs hs] at hce
  have hgo := checkExitCore_ret_not_paused _ _ _ _ _ _ _ hce hsig
  have hgo' : applyCtl evs (cdStatus (applyCtl pre s.status)) ≠ -3 ∧
      applyCtl evs (cdStatus (applyCtl pre s.status)) ≠ -4 := hgo
  have hsr' := ctl_srel pre evs s.status s0.status hsr hgo'
  rw [checkExitCore_hist] at hce
  rcases hsr' with ⟨hτ1, hrun⟩ | ⟨heq, hτ2⟩
  · rw [checkExitCore_runlike s0 _ tmax lf inf f hτ1 hrun, hcore] at hce
    simp only [CE.map, CE.ret.injEq] at hce
    obtain ⟨e1, e2⟩ := hce
    refine ⟨a, by rw [hchk, e2], ?_, hast⟩
    rw [← e1]
    refine ⟨rfl, rfl, rfl, rfl, rfl, rfl, rfl, rfl, ?_, ?_⟩
    · simp only [stepSeq] at hseq ⊢; rw [hah]; exact hseq
    · show SRel (if a.status = -1 then applyCtl evs (cdStatus (applyCtl pre s.status)) else a.status) a.status
      split_ifs with h1
      · left; exact ⟨h1, hrun⟩
      · right; refine ⟨rfl, ?_⟩; omega
  · have hid : ({ s0 with status := applyCtl evs (cdStatus (applyCtl pre s.status)) } : Sim K) = s0 := by
      rw [heq]
    rw [hid, hcore] at hce
    simp only [CE.map, CE.ret.injEq] at hce
    obtain ⟨e1, e2⟩ := hce
    refine ⟨a, by rw [hchk, e2], ?_, hast⟩
    rw [← e1]
    refine ⟨rfl, rfl, rfl, rfl, rfl, rfl, rfl, rfl, ?_, srel_self _ hast⟩
    simp only [stepSeq] at hseq ⊢; rw [hah]; exact hseq

/-- the step and its heartbeat keep the two runs related -/
theorem stepAndBeat_rel (step : StepFn K) (k : Nat) (s1 a : Sim K) (f : Flags) (hr : Rel s1 a)
    (ha : a.status = -1 ∨ a.status = -2) :
    Rel (stepAndBeat step k s1 f) (stepAndBeat step k a f) ∧
    ((stepAndBeat step k a f).status = -1 ∨ (stepAndBeat step k a f).status = -2 ∨
      1 ≤ (stepAndBeat step k a f).status) := by
  obtain ⟨r1, r2, r3, r4, r5, r6, r7, r8, r9, r10⟩ := hr
  obtain ⟨p1, p2, p3, p4⟩ := stepAndBeat_time step k s1 f
  obtain ⟨q1, q2, q3, q4⟩ := stepAndBeat_time step k a f
  obtain ⟨u1, u2, u3, _⟩ := stepAndBeat_fields step k s1 f
  obtain ⟨v1, v2, v3, _⟩ := stepAndBeat_fields step k a f
  obtain ⟨w1, w2⟩ := stepAndBeat_seq step k s1 f
  obtain ⟨x1, x2⟩ := stepAndBeat_seq step k a f
  have st1 := stepAndBeat_status step k s1 f
  have st2 := stepAndBeat_status step k a f
  constructor
  · refine ⟨?_, ?_, ?_, ?_, ?_, ?_, ?_, ?_, ?_, ?_⟩
    · rw [p1, q1, r1, r2, r3]
    · rw [p2, q2, r1, r2, r3]
    · rw [p3, q3, r1, r2, r3]
    · rw [p4, q4, r4]
    · rw [u1, v1, r5]
    · rw [u2, v2, r6]
    · rw [u3, v3, r7]
    · rw [w1, x1, r8]
    · rw [w2, x2, r1, r2, r3, r9]
    · rw [st1, st2]
      cases hsc : f.stepCode with
      | some x =>
        simp only [Option.getD_some]
        right; exact ⟨rfl, Or.inr (by have := stepCode_pos f x hsc; omega)⟩
      | none => simpa using r10
  · rw [st2]
    cases hsc : f.stepCode with
    | some x => simp only [Option.getD_some]; right; right; exact stepCode_pos f x hsc
    | none => simp only [Option.getD_none]; omega

/-- the loop with key presses, if it returns, returns what the loop without them returns -/
theorem loopP_rel (step : StepFn K) (env : Nat → Flags) (ctl : Nat → List Ctl × List Ctl) (tmax : K) (inf : Bool)
    (hsig : ∀ k, (env k).sigint = false) :
    ∀ (fuel k : Nat) (s s0 : Sim K) (lf : K), Rel s s0 →
      (s0.status = -1 ∨ s0.status = -2 ∨ 1 ≤ s0.status) →
      ∀ sP lfP, loopP step env ctl tmax inf fuel k s lf = (.done sP, lfP) →
      ∃ s', loop step env tmax inf fuel k s0 lf = (.done s', lfP) ∧ Rel sP s' := by
  intro fuel
  induction fuel with
  | zero => intro k s s0 lf _ _ sP lfP h; simp [loopP] at h
  | succ fuel ih =>
    intro k s s0 lf hr hτ sP lfP h
    unfold loopP at h
    cases hce : checkExitP s tmax inf lf (env k) (ctl k).1 (ctl k).2 with
    | blocked b => rw [hce] at h; simp at h
    | ret s1 lf1 =>
      rw [hce] at h
      simp only at h
      obtain ⟨a, hchk, hrel, hast⟩ := checkExitP_rel s s0 tmax lf inf (env k) (ctl k).1 (ctl k).2 hr hτ (hsig k) s1 lf1 hce
      have hsr := hrel.2.2.2.2.2.2.2.2.2
      by_cases hneg : s1.status < 0
      · rw [if_pos hneg] at h
        -- the undisturbed status is negative as well
        have ha : a.status = -1 ∨ a.status = -2 := by
          rcases hsr with ⟨h1, _⟩ | ⟨h1, h2⟩
          · exact Or.inl h1
          · rcases h2 with h2 | h2
            · exact Or.inr h2
            · omega
        have haneg : a.status < 0 := by omega
        obtain ⟨hr2, hτ2⟩ := stepAndBeat_rel step k s1 a (env (k + 1)) hrel ha
        obtain ⟨s', hl, hfin⟩ := ih (k + 1) _ _ lf1 hr2 hτ2 sP lfP h
        exact ⟨s', by rw [loop_of_ret_neg step env tmax inf fuel k s0 a lf lf1 hchk haneg]; exact hl, hfin⟩
      · rw [if_neg hneg] at h
        simp only [Prod.mk.injEq, Outcome.done.injEq] at h
        obtain ⟨h1, h2⟩ := h
        have hanon : ¬ a.status < 0 := by
          rcases hsr with ⟨_, hrun⟩ | ⟨h3, _⟩
          · exact absurd hrun.1 hneg
          · omega
        exact ⟨a, by rw [loop_of_ret_done step env tmax inf fuel k s0 a lf lf1 hchk hanon, h2], h1 ▸ hrel⟩

/-- a loop that returned did so with a non-negative status -/
theorem loopP_done_nonneg (step : StepFn K) (env : Nat → Flags) (ctl : Nat → List Ctl × List Ctl) (tmax : K) (inf : Bool) :
    ∀ (fuel k : Nat) (s : Sim K) (lf : K) (sP : Sim K) (lfP : K),
      loopP step env ctl tmax inf fuel k s lf = (.done sP, lfP) → ¬ sP.status < 0 := by
  intro fuel
  induction fuel with
  | zero => intro k s lf sP lfP h; simp [loopP] at h
  | succ fuel ih =>
    intro k s lf sP lfP h
    unfold loopP at h
    cases hce : checkExitP s tmax inf lf (env k) (ctl k).1 (ctl k).2 with
    | blocked b => rw [hce] at h; simp at h
    | ret s1 lf1 =>
      rw [hce] at h
      simp only at h
      by_cases hneg : s1.status < 0
      · rw [if_pos hneg] at h; exact ih _ _ _ _ _ h
      · rw [if_neg hneg] at h
        simp only [Prod.mk.injEq, Outcome.done.injEq] at h
        rw [← h.1]; exact hneg

end RV.Integrate
