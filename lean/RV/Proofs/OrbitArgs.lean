import RV.Model.OrbitArgs
/-
  C11 (i): both argument validators factor through their counters; the counters of a
  presence pattern are related generically (`count = 0 ↔ no member present`), and the two
  decision chains are compared exhaustively on the space of counter values and flags
  (2¹⁶ combinations, `decide +kernel`).
-/
set_option linter.constructorNameAsVariable false
set_option linter.unusedVariables false
namespace RV.OrbitArgs

theorem count_eq_zero (p : Presence) (l : List Arg) : (count p l = 0) ↔ l.any p.get = false := by
  induction l with
  | nil => simp [count]
  | cons a r ih =>
    cases h : p.get a <;> simp [count, h, ih]

theorem notNone_eq (p : Presence) (l : List Arg) : notNone p l = decide (count p l > 0) := by
  simp only [notNone]
  cases h : count p l <;> simp

theorem count_cons_pos (p : Presence) (a : Arg) (l : List Arg) :
    decide (count p (a :: l) > 0) = (p.get a || decide (count p l > 0)) := by
  cases h : p.get a <;> simp [count, h]
  omega

/-- the decision chains agree on every combination of counter signs and flags -/
theorem core_agree : ∀ (zc zo zn zp sim primary a P omega pomega f M E l theta T : Bool),
    cCore zc zo zn zp (f.toNat + (M.toNat + (E.toNat + (l.toNat + (theta.toNat + (T.toNat + 0))))))
      ⟨sim, primary, a, P, omega, pomega, f, M, E, l, theta, T⟩ =
    pyCore zn zp zc zo (2 - (omega.toNat + (pomega.toNat + 0)))
      (6 - (f.toNat + (M.toNat + (E.toNat + (l.toNat + (theta.toNat + (T.toNat + 0)))))))
      ⟨sim, primary, a, P, omega, pomega, f, M, E, l, theta, T⟩ := by
  decide +kernel

/-- with `primary` counted in the C `Nnonpal`, the chains differ exactly when a primary and
    a Pal element are present and no other non-Pal element is -/
theorem core_differ : ∀ (zc zo zn zp sim primary a P omega pomega f M E l theta T : Bool),
    (cCore zc zo (primary || zn) zp (f.toNat + (M.toNat + (E.toNat + (l.toNat + (theta.toNat + (T.toNat + 0))))))
      ⟨sim, primary, a, P, omega, pomega, f, M, E, l, theta, T⟩ ≠
    pyCore zn zp zc zo (2 - (omega.toNat + (pomega.toNat + 0)))
      (6 - (f.toNat + (M.toNat + (E.toNat + (l.toNat + (theta.toNat + (T.toNat + 0)))))))
      ⟨sim, primary, a, P, omega, pomega, f, M, E, l, theta, T⟩) ↔
    (primary = true ∧ zp = true ∧ zn = false) := by
  decide +kernel

theorem cValidate_eq (t : Tab) (p : Presence) :
    cValidate t p = cCore (decide (count p t.cart > 0)) (decide (count p t.orb > 0))
      (decide (count p t.nonpal > 0)) (decide (count p t.pal > 0)) (count p t.long) (flags p) := rfl

theorem pyValidate_eq (t : Tab) (p : Presence) :
    pyValidate t p = pyCore (decide (count p t.nonpal > 0)) (decide (count p t.pal > 0))
      (decide (count p t.cart > 0)) (decide (count p t.orb > 0))
      (countNone p [.omega, .pomega]) (countNone p t.long) (flags p) := by
  simp only [pyValidate, notNone_eq]

theorem agree_std (p : Presence) : cValidate stdTab p = pyValidate stdTab p := by
  rw [cValidate_eq, pyValidate_eq]
  exact core_agree _ _ _ _ p.sim p.primary p.a p.P p.omega p.pomega p.f p.M p.E p.l p.theta p.T

theorem differ_iff_counts (p : Presence) :
    cValidate cTabPrimaryNonpal p ≠ pyValidate stdTab p ↔
      (p.primary = true ∧ decide (count p stdTab.pal > 0) = true ∧
        decide (count p stdTab.nonpal > 0) = false) := by
  rw [cValidate_eq, pyValidate_eq]
  have h : decide (count p cTabPrimaryNonpal.nonpal > 0) =
      (p.primary || decide (count p stdTab.nonpal > 0)) := count_cons_pos p .primary _
  rw [h]
  exact core_differ _ _ _ _ p.sim p.primary p.a p.P p.omega p.pomega p.f p.M p.E p.l p.theta p.T

/-- any Pal element present -/
def palAny (p : Presence) : Bool := p.h || p.k || p.ix || p.iy
/-- any of the elements error 7 names -/
def nonpalAny (p : Presence) : Bool :=
  p.e || p.inc || p.Omega || p.omega || p.pomega || p.f || p.M || p.E || p.theta || p.T

theorem count_pos_any (p : Presence) (l : List Arg) :
    decide (count p l > 0) = l.any p.get := by
  cases h : l.any p.get
  · have := (count_eq_zero p l).mpr h
    simp [this]
  · have : ¬ count p l = 0 := by rw [count_eq_zero]; simp [h]
    simp; omega

theorem pal_pos (p : Presence) : decide (count p stdTab.pal > 0) = palAny p := by
  rw [count_pos_any]; simp [stdTab, Presence.get, palAny, Bool.or_assoc]

theorem nonpal_pos (p : Presence) : decide (count p stdTab.nonpal > 0) = nonpalAny p := by
  rw [count_pos_any]; simp [stdTab, Presence.get, nonpalAny, Bool.or_assoc]

/-- any orbital argument (the members of `Norb` / `orbi`) -/
def orbAny (p : Presence) : Bool :=
  p.primary || p.a || p.P || p.e || p.inc || p.Omega || p.omega || p.pomega || p.f || p.M ||
    p.E || p.l || p.theta || p.T

theorem orb_pos (p : Presence) : decide (count p stdTab.orb > 0) = orbAny p := by
  rw [count_pos_any]; simp [stdTab, Presence.get, orbAny, Bool.or_assoc]

theorem core_cart (zc zo zn zp : Bool) (nl : Nat) (fl : Flags) :
    cCore zc zo zn zp nl fl = .ok .cartesian ↔ ((zn && zp) = false ∧ zo = false) := by
  unfold cCore
  cases zc <;> cases zo <;> cases zn <;> cases zp <;> simp <;> repeat' split
  all_goals simp

end RV.OrbitArgs
