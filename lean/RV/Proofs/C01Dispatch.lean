import RV.Gen.C01Dispatch
/- C01 / the two-phase step driver's dispatchers (src/integrator.c): for every value of the integrator enumeration, part1, part2
   and synchronize reach the routine of that same family — obtained by executing the switch statements of the source -/
namespace RV.C01.Dispatch
open RV.C01 RV.C01.Gen

def expected (fam phase : String) : String := "reb_integrator_" ++ fam ++ "_" ++ phase

/-- the twelve integrators of rebound.h with their documented values -/
theorem enumeration : dispatch.map (fun r => (r.2.2.1, r.2.1)) =
    [("ias15", 0), ("whfast", 1), ("sei", 2), ("leapfrog", 4), ("none", 7), ("janus", 8), ("mercurius", 9), ("saba", 10), ("eos", 11),
     ("bs", 12), ("whfast512", 21), ("trace", 25)] ∧ (dispatch.map (·.2.1)).Nodup := by decide +kernel

/-- no case is missing or crossed: each family's value reaches its own part1 / part2 / synchronize; `none` only advances time -/
theorem no_crossed_case : ∀ r ∈ dispatch,
    (r.2.2.1 = "none" → r.2.2.2.1 = "" ∧ r.2.2.2.2.1 = "advance_time" ∧ r.2.2.2.2.2 = "") ∧
    (r.2.2.1 ≠ "none" → r.2.2.2.1 = expected r.2.2.1 "part1" ∧ r.2.2.2.2.1 = expected r.2.2.1 "part2" ∧
      r.2.2.2.2.2 = expected r.2.2.1 "synchronize") := by decide +kernel

/-- reset_integrator resets every family that has state and selects the default integrator (IAS15 = 0) -/
theorem reset_complete : (∀ r ∈ dispatch, r.2.2.1 ≠ "none" → r.2.2.1 ≠ "leapfrog" → expected r.2.2.1 "reset" ∈ dispatchResetCalls) ∧
    dispatchResetIntegrator = 0 ∧ dispatchResetCalls.Nodup := by decide +kernel

/-- sub-steps tile an interval: each starts where the previous one ended -/
def contiguous : List (Rat × Rat) → Bool
  | (a, d) :: (b, e) :: r => (a + d == b) && contiguous ((b, e) :: r)
  | _ => true

def absR (x : Rat) : Rat := if x < 0 then -x else x

/-- **user ODEs carried by a non-BS integrator are advanced over exactly the step that was just done**: the sub-steps passed to
    `reb_integrator_bs_step` start at `t − dt_last_done` (not at `t`, and not `t − r->dt`: `r->dt` already is the size proposed for
    the next step of an adaptive integrator), are contiguous, sum to `dt_last_done`, have the sign of `dt_last_done`, are at most
    `|dt_proposed|` long, and `r->t` is restored afterwards -/
theorem ode_loop_interval : odeLoop.length = 5 ∧ ∀ e ∈ odeLoop,
    (e.2.1.head?.map (·.1)) = some (e.1.1 - e.1.2.2.1) ∧ contiguous e.2.1 = true ∧
    (e.2.1.map (·.2)).foldl (· + ·) 0 = e.1.2.2.1 ∧ e.2.2 = e.1.1 ∧
    (∀ c ∈ e.2.1, (0 < c.2) = (0 < e.1.2.2.1) ∧ (e.1.2.2.2 = 0 ∨ absR c.2 ≤ absR e.1.2.2.2)) ∧
    (e.1.2.2.2 = 0 → e.2.1.length = 1) := by decide +kernel
end RV.C01.Dispatch
