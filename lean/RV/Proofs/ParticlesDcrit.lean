import RV.Proofs.ParticlesCore
/-
  The MERCURIUS side array `dcrit` around the core removal (C14, deepening round): the prologue of
  reb_simulation_remove_particle as a wrapper of `removeCore`, which never reads `dcrit`.
-/
set_option linter.unusedVariables false
set_option linter.unusedSimpArgs false
namespace RV.Particles


/-! ### the MERCURIUS side array -/

/-- the call shape of finding F4g: `dcrit` does not cover all particles and the shift loop runs past its end -/
def Overrun (c : State) (index : Int) : Prop :=
  c.mercurius = true ∧ 0 < c.dcrit.length ∧ index < (c.dcrit.length : Int) ∧ c.dcrit.length < c.N

instance (c : State) (i : Int) : Decidable (Overrun c i) := inferInstanceAs (Decidable (_ ∧ _))

theorem dcritShift_shape (v : Variant) (c c1 : State) (i : Int) (h : dcritShift v c i = some c1) :
    c1 = { c with dcrit := c1.dcrit } := by
  unfold dcritShift at h
  split at h
  · simp only [] at h
    generalize shiftLoop c.dcrit i.toNat _ = r at h
    cases r with
    | none => simp at h
    | some d => simp at h; subst h; rfl
  · simp at h; subst h; rfl

/-- for a valid index, outside the overrun shape (or with the bounded loop), the prologue succeeds and
    leaves `dcritErased` behind -/
theorem dcritShift_spec (v : Variant) (c : State) (i : Int) (h0 : 0 ≤ i) (h1 : i < (c.N : Int))
    (hno : v.dcritBounded = true ∨ ¬ Overrun c i) :
    ∃ d, dcritShift v c i = some { c with dcrit := d } ∧
      d = (if c.mercurius then dcritErased c.dcrit c.N i else c.dcrit) := by
  unfold dcritShift
  by_cases hc : (c.mercurius && decide (0 < c.dcrit.length) && decide (i < (c.dcrit.length : Int))) = true
  · rw [if_pos hc]
    simp only [Bool.and_eq_true, decide_eq_true_eq] at hc
    obtain ⟨⟨hm, hpos⟩, hlt⟩ := hc
    -- the loop bound
    obtain ⟨m, hm1, hm2, hm3⟩ : ∃ m, (if v.dcritBounded = true then min c.N c.dcrit.length else c.N) = m ∧
        m ≤ c.dcrit.length ∧ m = min c.N c.dcrit.length := by
      by_cases hb : v.dcritBounded = true
      · exact ⟨min c.N c.dcrit.length, by simp [hb], by omega, rfl⟩
      · have : ¬ Overrun c i := by rcases hno with h | h; exact absurd h hb; exact h
        have hle : c.N ≤ c.dcrit.length := by
          by_cases hle : c.N ≤ c.dcrit.length
          · exact hle
          · exact absurd ⟨hm, hpos, hlt, by omega⟩ this
        exact ⟨c.N, by simp [hb], hle, by omega⟩
    simp only [hm1]
    have hj : i.toNat < m := by omega
    have hsl := shiftLoop_spec (m - 1 - i.toNat) c.dcrit i.toNat (by omega)
    obtain ⟨d, e1, e2, e3⟩ := hsl
    simp only [e1]
    refine ⟨d, rfl, ?_⟩
    rw [if_pos hm]
    unfold dcritErased
    rw [if_pos ⟨hpos, hlt⟩]
    simp only []
    rw [← hm3]
    exact shift_eq_erased c.dcrit d m i.toNat hm2 hj e2 e3
  · rw [if_neg hc]
    refine ⟨c.dcrit, rfl, ?_⟩
    cases hmm : c.mercurius
    · simp
    · simp only [if_true]
      unfold dcritErased
      simp only [hmm, Bool.true_and, Bool.and_eq_true, decide_eq_true_eq] at hc
      rw [if_neg hc]

/-- with one particle nothing moves -/
theorem dcritErased_one (d : List Nat) (i : Int) (h0 : 0 ≤ i) (h1 : i < 1) : dcritErased d 1 i = d := by
  unfold dcritErased
  split
  · rename_i h
    have hi : i.toNat = 0 := by omega
    have hm : min 1 d.length = 1 := by omega
    simp only [hm, hi]
    cases d with
    | nil => simp at h
    | cons a t => simp
  · rfl



theorem removeSorted_dcrit (v : Variant) (c : State) (d : List Nat) (i : Int) :
    removeSorted v { c with dcrit := d } i =
      ({ (removeSorted v c i).1 with dcrit := d }, (removeSorted v c i).2) := by
  unfold removeSorted
  by_cases h1 : (v.treeFirst && c.treeRoot) = true
  · simp [h1]
  · cases h : shiftLoop c.mem i.toNat (c.N - 1 - i.toNat) with
    | none => simp [h1, h]
    | some m =>
      by_cases ht : c.treeRoot = true
      · have hf : v.treeFirst = false := by simpa [ht] using h1
        simp [hf, h, ht]
      · simp [h1, h, ht]

theorem removeUnsorted_dcrit (v : Variant) (c : State) (d : List Nat) (i : Int) :
    removeUnsorted v { c with dcrit := d } i =
      ({ (removeUnsorted v c i).1 with dcrit := d }, (removeUnsorted v c i).2) := by
  unfold removeUnsorted writeAt
  by_cases ht : c.treeRoot = true
  · cases h : c.mem[i.toNat]? <;> simp [ht, h]
  · cases h : c.mem[c.N - 1]? with
    | none => simp [ht, h]
    | some l => by_cases hl : i.toNat < c.mem.length <;> simp [ht, h, hl]

theorem removeCore_dcrit (v : Variant) (c : State) (d : List Nat) (i : Int) (ks : Bool) :
    removeCore v { c with dcrit := d } i ks =
      ({ (removeCore v c i ks).1 with dcrit := d }, (removeCore v c i ks).2) := by
  rw [removeCore_eq, removeCore_eq]
  have hr : rangeBad { c with dcrit := d } i = rangeBad c i := rfl
  rw [hr]
  simp only []
  by_cases h1 : rangeBad c i = true
  · rw [if_pos h1, if_pos h1]
    split <;> rfl
  · rw [if_neg h1, if_neg h1]
    by_cases h2 : c.N = 1
    · rw [if_pos h2, if_pos h2]; rfl
    · rw [if_neg h2, if_neg h2]
      unfold removeRest
      simp only []
      split
      · rfl
      · split
        · exact removeSorted_dcrit v c d i
        · exact removeUnsorted_dcrit v c d i

theorem removeCore_keeps_dcrit (v : Variant) (c : State) (i : Int) (ks : Bool) :
    (removeCore v c i ks).1.dcrit = c.dcrit := by
  have h := removeCore_dcrit v c c.dcrit i ks
  have hc : ({ c with dcrit := c.dcrit } : State) = c := rfl
  rw [hc] at h
  have := congrArg (fun r => r.1.dcrit) h
  simpa using this


end RV.Particles
