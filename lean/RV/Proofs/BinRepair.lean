/-
  The recovery walk of `reb_simulation_save_to_file` (simulationarchive.c:555-580): on a complete trailer chain
  followed by ANY residual bytes it ends exactly at the end of the last valid snapshot.  Hence: whenever the
  corruption test fires (e.g. on a zero-filled tail), the append position is the end of the last valid snapshot.
-/
import RV.Proofs.BinRestart
set_option linter.unusedVariables false
set_option linter.unusedSimpArgs false
namespace RV.Bin

/-- bytes from the first trailer of a chain to the end of its last trailer -/
def chainSpan : List (List Field) → Nat
  | [] => 12
  | d :: r => 12 + blobLen d + chainSpan r

theorem freadInto_end (fld X : Bytes) : freadInto fld (endBytes ++ X) 16 = endBytes ++ fld.drop 16 := by
  unfold freadInto
  have : (endBytes ++ X).take 16 = endBytes := by
    rw [List.take_append_of_le_length (by simp)]; exact List.take_of_length_le (by simp)
  simp [this]

theorem endpad_clean (Y : Bytes) : ((endBytes ++ Y).drop 4).take 4 = [0, 0, 0, 0] := by
  simp [endBytes, hdrBytes, le32, le64]

theorem repairWalk_step (file : Bytes) (fuel pos last : Nat) (fld X tb : Bytes) (hp : ¬ pos < 16)
    (hsrc : file.drop (pos - 16) = endBytes ++ X) (htb : (file.drop pos).take 12 = tb) (hl : tb.length = 12) :
    repairWalk file (fuel + 1) pos last fld =
      if sgn32 (de ((tb.drop 8).take 4)) > 0
      then repairWalk file fuel (pos + 12 + (sgn32 (de ((tb.drop 8).take 4))).toNat) (pos + 12) (endBytes ++ fld.drop 16)
      else (pos + 12, endBytes ++ fld.drop 16) := by
  conv => lhs; unfold repairWalk
  simp only [hp, if_false, hsrc, readHdr_end, freadInto_end, htb, hl, Nat.lt_irrefl, ne_eq, not_true_eq_false]

/-- the walk over `… END ++ chain ++ tail`: every complete blob is passed, the walk stops at the trailer whose
    `offset_next` is 0 — whatever follows it -/
theorem repairWalk_chain (tail : Bytes) (ds : List (List Field)) (hds : ChainOK ds) (A : Bytes) (idx prev : Nat)
    (fuel : Nat) (hf : ds.length < fuel) (last : Nat) (fld : Bytes) :
    (repairWalk (A ++ (endBytes ++ chainG (finTail tail) idx prev ds)) fuel (A.length + 16) last fld).1
        = A.length + 16 + chainSpan ds ∧
    (((repairWalk (A ++ (endBytes ++ chainG (finTail tail) idx prev ds)) fuel (A.length + 16) last fld).2).drop 4).take 4
        = [0, 0, 0, 0] := by
  induction ds generalizing A idx prev fuel last fld with
  | nil =>
    cases fuel with
    | zero => omega
    | succ n =>
      have hsrc : (A ++ (endBytes ++ chainG (finTail tail) idx prev [])).drop (A.length + 16 - 16)
          = endBytes ++ chainG (finTail tail) idx prev [] := by simp
      have htb : ((A ++ (endBytes ++ chainG (finTail tail) idx prev [])).drop (A.length + 16)).take 12
          = trailerBytes idx prev 0 := by
        have : A.length + 16 = (A ++ endBytes).length := by simp
        rw [this, ← List.append_assoc, List.drop_left]
        simp only [chainG, finTail, finIntact, trailer_take]
      rw [repairWalk_step _ n _ last fld _ _ (by omega) hsrc htb (by simp), trailer_next _ _ _ (by omega)]
      have h0 : ¬ (sgn32 0 > 0) := by decide
      rw [if_neg h0]
      exact ⟨by simp [chainSpan], endpad_clean _⟩
  | cons d r ih =>
    cases fuel with
    | zero => omega
    | succ n =>
      obtain ⟨hd, hdl⟩ := hds d (List.mem_cons_self ..)
      have hr : ChainOK r := fun x hx => hds x (List.mem_cons_of_mem _ hx)
      have hl : r.length < n := by simp at hf; omega
      have hge := blobLen_ge d
      have hsrc : (A ++ (endBytes ++ chainG (finTail tail) idx prev (d :: r))).drop (A.length + 16 - 16)
          = endBytes ++ chainG (finTail tail) idx prev (d :: r) := by simp
      have htb : ((A ++ (endBytes ++ chainG (finTail tail) idx prev (d :: r))).drop (A.length + 16)).take 12
          = trailerBytes idx prev (blobLen d) := by
        have : A.length + 16 = (A ++ endBytes).length := by simp
        rw [this, ← List.append_assoc, List.drop_left]
        simp only [chainG, trailer_take]
      rw [repairWalk_step _ n _ last fld _ _ (by omega) hsrc htb (by simp), trailer_next _ _ _ (by omega),
        sgn32_small _ hdl]
      have hpos' : ((blobLen d : Nat) : Int) > 0 := by omega
      simp only [hpos', if_true, Int.toNat_natCast]
      have hre : A ++ (endBytes ++ chainG (finTail tail) idx prev (d :: r))
          = (A ++ (endBytes ++ (trailerBytes idx prev (blobLen d) ++ encFs d))) ++ (endBytes ++ chainG (finTail tail) (idx + 1) (blobLen d) r) := by
        simp [chainG, List.append_assoc]
      have hlen : A.length + 16 + 12 + blobLen d = (A ++ (endBytes ++ (trailerBytes idx prev (blobLen d) ++ encFs d))).length + 16 := by
        simp [blobLen]; omega
      rw [hre, hlen]
      obtain ⟨e1, e2⟩ := ih hr (A ++ (endBytes ++ (trailerBytes idx prev (blobLen d) ++ encFs d))) (idx + 1) (blobLen d) n hl
        (A.length + 16 + 12) (endBytes ++ fld.drop 16)
      refine ⟨?_, e2⟩
      rw [e1]
      simp [chainSpan, blobLen]; omega

theorem chainG_finTail_length (tail : Bytes) (idx prev : Nat) (ds : List (List Field)) :
    (chainG (finTail tail) idx prev ds).length = chainSpan ds + tail.length := by
  induction ds generalizing idx prev with
  | nil => simp [chainG, finTail, finIntact, chainSpan]
  | cons d r ih => simp [chainG, chainSpan, ih, blobLen]; omega

/-- **the recovery walk ends at the end of the last valid snapshot, for every tail** -/
theorem repairWalk_archI_tail (hdr : Bytes) (fs0 : List Field) (ds : List (List Field)) (h : ArchOK hdr fs0 ds)
    (tail : Bytes) (fuel : Nat) (hf : ds.length < fuel) (last : Nat) (fld : Bytes) :
    (repairWalk (archI hdr fs0 ds ++ tail) fuel (64 + blobLen fs0) last fld).1 = (archI hdr fs0 ds).length ∧
    (((repairWalk (archI hdr fs0 ds ++ tail) fuel (64 + blobLen fs0) last fld).2).drop 4).take 4 = [0, 0, 0, 0] := by
  have hform : archI hdr fs0 ds ++ tail = (hdr ++ encFs fs0) ++ (endBytes ++ chainG (finTail tail) 0 0 ds) := by
    rw [archI_tail]; simp [archG, List.append_assoc]
  have hpos : 64 + blobLen fs0 = (hdr ++ encFs fs0).length + 16 := by simp [blobLen, h.hdr.len]; omega
  have hlen : (archI hdr fs0 ds).length = (hdr ++ encFs fs0).length + 16 + chainSpan ds := by
    have := chainG_finTail_length [] 0 0 ds
    have e : archI hdr fs0 ds = (hdr ++ encFs fs0) ++ (endBytes ++ chainG (finTail []) 0 0 ds) := by
      have := archI_tail hdr fs0 ds []
      simp only [List.append_nil] at this
      rw [this]; simp [archG, List.append_assoc]
    rw [e]; simp [this]; omega
  rw [hform, hpos, hlen]
  exact repairWalk_chain tail ds h.ds (hdr ++ encFs fs0) 0 0 fuel hf last fld

end RV.Bin

namespace RV.Bin

/-- **append position = end of the last valid snapshot, for every tail**: whenever the writer's corruption test
    fires on `archive ++ tail` (it then walks the trailer chain), NoFakeTrailer holds — whatever the tail is -/
theorem recovers_tail_of_corrupt (hdr : Bytes) (fs0 : List Field) (ds : List (List Field)) (h : ArchOK hdr fs0 ds)
    (tail : Bytes) (so last : Nat) (fld : Bytes)
    (hro : recoverOf (archI hdr fs0 ds ++ tail) = some (so, last, fld, true)) :
    Recovers (archI hdr fs0 ds ++ tail) (archI hdr fs0 ds).length := by
  have hl0 := encFs_length_ge fs0
  have hF : archI hdr fs0 ds ++ tail = Damaged hdr fs0 ds (finIntact ds.length (lastPrev 0 ds) ++ tail) := by
    rw [archI, archG_split]; simp [Damaged, List.append_assoc]
  have hso : so = 64 + blobLen fs0 := by
    rw [hF] at hro
    exact recoverOf_sizeOld hdr h.hdr fs0 h.b0.wf ds _ so last fld true hro
  subst hso
  have hform : archI hdr fs0 ds ++ tail = hdr ++ (encFs fs0 ++ (endBytes ++ chainG (finTail tail) 0 0 ds)) := by
    rw [archI_tail]; rfl
  have hdrop : (archI hdr fs0 ds ++ tail).drop 64 = encFs fs0 ++ (endBytes ++ chainG (finTail tail) 0 0 ds) := by
    rw [hform, ← h.hdr.len]; exact List.drop_left
  have hscan : scanFirst ((archI hdr fs0 ds ++ tail).length + 1) 64 ((archI hdr fs0 ds ++ tail).drop 64) (List.replicate 16 0)
      = (64 + blobLen fs0, true, endBytes) := by
    rw [hdrop]
    exact scanFirst_enc fs0 _ h.b0.wf _ 64 _ (by rw [hform]; simp; omega)
  have hfuel : ds.length < (archI hdr fs0 ds ++ tail).length + 1 := by
    have := chainG_finTail_length tail 0 0 ds
    have hs : ∀ l : List (List Field), l.length ≤ chainSpan l := by
      intro l
      induction l with
      | nil => simp [chainSpan]
      | cons d r ih => simp only [chainSpan, List.length_cons]; omega
    have hs := hs ds
    rw [hform]; simp [this]; omega
  unfold recoverOf at hro
  rw [hscan] at hro
  simp only [Bool.not_true, Bool.false_eq_true, if_false] at hro
  by_cases htb : (((archI hdr fs0 ds ++ tail).drop (64 + blobLen fs0)).take 12).length < 12
  · rw [if_pos htb] at hro; cases hro
  · rw [if_neg htb] at hro
    simp only [Option.some.injEq, Prod.mk.injEq] at hro
    obtain ⟨_, hlast, hfld, hc⟩ := hro
    rw [hc] at hlast hfld
    simp only [if_true] at hlast hfld
    obtain ⟨e1, e2⟩ := repairWalk_archI_tail hdr fs0 ds h tail _ hfuel (64 + blobLen fs0 + 12)
      (fileCorrupt (archI hdr fs0 ds ++ tail)
        (decide (sgn32 (de ((((archI hdr fs0 ds ++ tail).drop (64 + blobLen fs0)).take 12).drop 8 |>.take 4)) > 0)) endBytes).2
    apply (recovers_iff _ _).mpr
    refine ⟨64 + blobLen fs0, fld, true, ?_, ?_⟩
    · unfold recoverOf
      rw [hscan]
      simp only [Bool.not_true, Bool.false_eq_true, if_false]
      rw [if_neg htb]
      simp only [hc, if_true, Option.some.injEq, Prod.mk.injEq, true_and]
      exact ⟨e1, hfld, trivial⟩
    · rw [← hfld]; exact e2

end RV.Bin

namespace RV.Bin

theorem de_replicate_zero (n : Nat) : de (List.replicate n 0) = 0 := by
  induction n with
  | zero => rfl
  | succ k ih => simp [List.replicate_succ, de, ih]

/-- a zero-filled tail (≥ 12 bytes) behind an archive with at least one delta always fires the corruption test -/
theorem recoverOf_zero_tail (hdr : Bytes) (fs0 : List Field) (d : List Field) (r : List (List Field))
    (h : ArchOK hdr fs0 (d :: r)) (n : Nat) (hn : 12 ≤ n) :
    ∃ last fld, recoverOf (archI hdr fs0 (d :: r) ++ List.replicate n 0) = some (64 + blobLen fs0, last, fld, true) := by
  have hl0 := encFs_length_ge fs0
  have hform : archI hdr fs0 (d :: r) ++ List.replicate n 0
      = hdr ++ (encFs fs0 ++ (endBytes ++ chainG (finTail (List.replicate n 0)) 0 0 (d :: r))) := by
    rw [archI_tail]; rfl
  have hdrop : (archI hdr fs0 (d :: r) ++ List.replicate n 0).drop 64
      = encFs fs0 ++ (endBytes ++ chainG (finTail (List.replicate n 0)) 0 0 (d :: r)) := by
    rw [hform, ← h.hdr.len]; exact List.drop_left
  have hscan : scanFirst ((archI hdr fs0 (d :: r) ++ List.replicate n 0).length + 1) 64
      ((archI hdr fs0 (d :: r) ++ List.replicate n 0).drop 64) (List.replicate 16 0) = (64 + blobLen fs0, true, endBytes) := by
    rw [hdrop]
    exact scanFirst_enc fs0 _ h.b0.wf _ 64 _ (by rw [hform]; simp; omega)
  obtain ⟨hd, hdl⟩ := h.ds d (List.mem_cons_self ..)
  have hge := blobLen_ge d
  have htb0 : ((archI hdr fs0 (d :: r) ++ List.replicate n 0).drop (64 + blobLen fs0)).take 12
      = trailerBytes 0 0 (blobLen d) := by
    have e : 64 + blobLen fs0 = (hdr ++ (encFs fs0 ++ endBytes)).length := by simp [blobLen, h.hdr.len]
    have f : hdr ++ (encFs fs0 ++ (endBytes ++ chainG (finTail (List.replicate n 0)) 0 0 (d :: r)))
        = (hdr ++ (encFs fs0 ++ endBytes)) ++ chainG (finTail (List.replicate n 0)) 0 0 (d :: r) := by simp
    rw [hform, f, e, List.drop_left]
    simp only [chainG, trailer_take]
  have hlenF : (archI hdr fs0 (d :: r) ++ List.replicate n 0).length = (archI hdr fs0 (d :: r)).length + n := by simp
  have hlast12 : (archI hdr fs0 (d :: r) ++ List.replicate n 0).drop ((archI hdr fs0 (d :: r) ++ List.replicate n 0).length - 12)
      = List.replicate 12 0 := by
    rw [hlenF]
    have e : (archI hdr fs0 (d :: r)).length + n - 12 = (archI hdr fs0 (d :: r)).length + (n - 12) := by omega
    rw [e, List.drop_append, List.drop_eq_nil_of_le (by omega)]
    simp only [List.nil_append, Nat.add_sub_cancel_left, List.drop_replicate]
    congr 1; omega
  have hfc : (fileCorrupt (archI hdr fs0 (d :: r) ++ List.replicate n 0) true endBytes) = (true, endBytes) := by
    unfold fileCorrupt
    have h12 : ¬ ((archI hdr fs0 (d :: r) ++ List.replicate n 0).length < 12) := by rw [hlenF]; omega
    simp only [h12, if_false, hlast12]
    have hz : de ((List.replicate 12 0).drop 4 |>.take 4) = 0 := by decide
    have hz2 : sgn32 0 = 0 := by decide
    simp only [hz, hz2, Bool.true_and]
    simp
  have hmore : decide (sgn32 (de (((trailerBytes 0 0 (blobLen d)).drop 8).take 4)) > 0) = true := by
    rw [trailer_next _ _ _ (by omega), sgn32_small _ hdl]; simp; omega
  have hEq : recoverOf (archI hdr fs0 (d :: r) ++ List.replicate n 0) = some (64 + blobLen fs0,
      (repairWalk (archI hdr fs0 (d :: r) ++ List.replicate n 0) ((archI hdr fs0 (d :: r) ++ List.replicate n 0).length + 1)
        (64 + blobLen fs0) (64 + blobLen fs0 + 12) endBytes).1,
      (repairWalk (archI hdr fs0 (d :: r) ++ List.replicate n 0) ((archI hdr fs0 (d :: r) ++ List.replicate n 0).length + 1)
        (64 + blobLen fs0) (64 + blobLen fs0 + 12) endBytes).2, true) := by
    unfold recoverOf
    rw [hscan]
    simp only [Bool.not_true, Bool.false_eq_true, if_false, htb0, trailerBytes_length, Nat.lt_irrefl, hmore, hfc, if_true]
  exact ⟨_, _, hEq⟩

end RV.Bin

namespace RV.Bin

/-- **zero-filled tail** (a crash that persisted the file length but not the last blocks): the next append goes to
    the end of the last valid snapshot — `append (archive ++ zeros) s' = append archive s' ++ tail` — so the archive
    keeps growing correctly however long the zero tail is and however many appends follow -/
theorem append_zero_tail (v : Variant) (cmp : Nat → Bytes → Bytes → Bool) (hdr : Bytes) (fs0 : List Field)
    (d : List Field) (r : List (List Field)) (h : ArchOK hdr fs0 (d :: r)) (n : Nat) (hn : 12 ≤ n)
    (h2 t2 : Bytes) (b : List Field) (hh2 : h2.length = 64) (hb : WFs b)
    (hL : blobLen (diffF v cmp fs0 b) < 2147483648) (hcnt : (d :: r).length + 1 < 4294967296) :
    ∃ tail, append v cmp (archI hdr fs0 (d :: r) ++ List.replicate n 0) (h2 ++ (encFs b ++ (endBytes ++ t2)))
      = some (archI hdr fs0 ((d :: r) ++ [diffF v cmp fs0 b]) ++ tail) := by
  obtain ⟨last, fld, hro⟩ := recoverOf_zero_tail hdr fs0 d r h n hn
  have hrec := recovers_tail_of_corrupt hdr fs0 (d :: r) h (List.replicate n 0) _ last fld hro
  have hF : archI hdr fs0 (d :: r) ++ List.replicate n 0
      = Damaged hdr fs0 (d :: r) (finIntact (d :: r).length (lastPrev 0 (d :: r)) ++ List.replicate n 0) := by
    rw [archI, archG_split]; simp [Damaged, List.append_assoc]
  rw [archI_length] at hrec
  rw [hF] at hrec ⊢
  refine ⟨_, append_damaged v cmp hdr fs0 (d :: r) h _ ?_ ?_ hrec h2 t2 b hh2 hb hL hcnt⟩
  · simp [finIntact, trailerBytes, le32]
  · simp [finIntact]

end RV.Bin
