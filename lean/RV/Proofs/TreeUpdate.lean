import RV.Proofs.Tree
set_option linter.unusedSectionVars false
set_option linter.unusedVariables false
set_option linter.unusedSimpArgs false
namespace RV.C15
open RV RV.Tree

variable {K : Type} [Field K] [LinearOrder K] [IsStrictOrderedRing K]

/-- geometry only: every cell is the octant cell of its parent (positions and counters arbitrary) -/
def Geo : Cell K → T K → Prop
  | _, .nil => True
  | c, .leaf c' _ _ => c' = c
  | c, .node c' _ _ ch => c' = c ∧ ∀ o, Geo (childCell c o) (ch o)

theorem Geo_of_WF (ps : Nat → Pt K) (tie : Bool) : ∀ (t : T K) (c : Cell K), WF ps tie c t → Geo c t := by
  intro t
  induction t with
  | nil => intro _ _; trivial
  | leaf c0 g q => intro c h; exact h.1
  | node c0 g n ch ih => intro c h; exact ⟨h.1, fun o => ih o _ (h.2.1 o)⟩

theorem axis_parent (px cx w s : K) (hs : s = 1 ∨ s = -1) (h : |px - (cx + w / 2 / 2 * s)| ≤ w / 2 / 2) :
    |px - cx| ≤ w / 2 := by
  have := abs_le.mp h
  rw [abs_le]
  rcases hs with rfl | rfl <;> constructor <;> linarith

/-- a child cell lies inside its parent -/
theorem In_parent (p : Pt K) (c : Cell K) (o : Fin 8) (h : In p (childCell c o)) : In p c := by
  obtain ⟨hx, hy, hz⟩ := h
  simp only [childCell, sc_hadd, sc_hmul, sc_hdiv, sc_ofNat, sc_one, sc_hneg, Nat.cast_ofNat] at hx hy hz
  refine ⟨axis_parent _ _ _ _ ?_ hx, axis_parent _ _ _ _ ?_ hy, axis_parent _ _ _ _ ?_ hz⟩ <;>
    (split <;> simp)

theorem cnt_eq (ps : Nat → Pt K) (tie : Bool) (t : T K) (c : Cell K) (h : WF ps tie c t) :
    cnt t = ((leaves t).length : Int) := by
  cases t with
  | nil => rfl
  | leaf _ _ _ => rfl
  | node c0 g n ch =>
    obtain ⟨_, _, hn, _⟩ := h
    simp [cnt, leaves, hn]

theorem flatMap_append_perm {ι β : Type} (a b : ι → List β) : ∀ l : List ι,
    List.Perm (l.flatMap fun o => a o ++ b o) (l.flatMap a ++ l.flatMap b) := by
  intro l
  induction l with
  | nil => simp
  | cons o l ih =>
    simp only [List.flatMap_cons]
    refine (List.Perm.append_left _ ih).trans ?_
    simp only [List.append_assoc]
    apply List.Perm.append_left
    rw [← List.append_assoc, ← List.append_assoc]
    exact List.Perm.append_right _ List.perm_append_comm

theorem flatMap_perm_congr {ι β : Type} (a b : ι → List β) (h : ∀ o, List.Perm (a o) (b o)) : ∀ l : List ι,
    List.Perm (l.flatMap a) (l.flatMap b) := by
  intro l
  induction l with
  | nil => simp
  | cons o l ih => simp only [List.flatMap_cons]; exact (h o).append ih

theorem foldl_sub_cnt (f : Fin 8 → Int) : ∀ (l : List (Fin 8)) (a : Int),
    l.foldl (fun a o => a - f o) a = a - (l.map f).sum := by
  intro l
  induction l with
  | nil => intro a; simp
  | cons o l ih => intro a; simp [List.foldl_cons, ih]; ring

theorem length_flatMap_sum {ι β : Type} (f : ι → List β) : ∀ l : List ι,
    ((l.flatMap f).length : Int) = (l.map fun o => ((f o).length : Int)).sum := by
  intro l
  induction l with
  | nil => simp
  | cons o l ih =>
    simp only [List.flatMap_cons, List.length_append, List.map_cons, List.sum_cons, Nat.cast_add, ih]


/-- invariant (ii) for all ancestors: a particle below a cell lies in that cell -/
theorem In_of_mem_leaves (ps : Nat → Pt K) (tie : Bool) : ∀ (t : T K) (c : Cell K), WF ps tie c t →
    ∀ q ∈ leaves t, In (ps q) c := by
  intro t
  induction t with
  | nil => intro c _ q hq; simp [leaves] at hq
  | leaf c0 g q0 => intro c h q hq; simp [leaves] at hq; subst hq; exact h.2
  | node c0 g n ch ih =>
    intro c h q hq
    simp only [leaves, List.mem_flatMap] at hq
    obtain ⟨o, _, hq⟩ := hq
    exact In_parent _ _ o (ih o _ (h.2.1 o) q hq)

def isNode : T K → Bool
  | .node _ _ _ _ => true
  | _ => false

theorem onlyLeaf_fold (ch : Fin 8 → T K) : ∀ (l : List (Fin 8)) (acc : Option Nat),
    (∀ o ∈ l, isNode (ch o) = false) →
    l.foldl (fun acc o => match ch o with
      | .leaf _ _ q => some q
      | _ => acc) acc = ((l.flatMap fun o => leaves (ch o)).getLast?).or acc := by
  intro l
  induction l with
  | nil => intro acc _; simp
  | cons o l ih =>
    intro acc h
    have hl : ∀ o ∈ l, isNode (ch o) = false := fun o ho => h o (by simp [ho])
    have ho := h o (by simp)
    simp only [List.foldl_cons, List.flatMap_cons]
    cases hc : ch o with
    | nil => simp only [leaves, List.nil_append]; exact ih acc hl
    | leaf c g q =>
      simp only [leaves]
      rw [ih (some q) hl]
      simp only [List.singleton_append, List.getLast?_cons]
      cases (List.flatMap (fun o => leaves (ch o)) l).getLast? <;> simp
    | node c g n ch' => simp [hc, isNode] at ho

/-- recount + derefinement of an inner node whose children are already well formed: the result is well formed
    and holds exactly the particles of the children -/
theorem rebuild_spec (ps : Nat → Pt K) (c0 : Cell K) (g : Grav K) (ch' : Fin 8 → T K)
    (IH : ∀ o, WF ps false (childCell c0 o) (ch' o)) :
    WF ps false c0 (rebuild c0 g ch') ∧
    List.Perm (leaves (rebuild c0 g ch')) ((List.finRange 8).flatMap fun o => leaves (ch' o)) := by
  set L := (List.finRange 8).flatMap fun o => leaves (ch' o) with hL
  have hn : Fin.foldl 8 (fun (a : Int) o => a - cnt (ch' o)) 0 = -(L.length : Int) := by
    rw [Fin.foldl_eq_finRange_foldl, foldl_sub_cnt, hL, length_flatMap_sum]
    simp only [zero_sub]
    congr 1
    congr 1
    apply List.map_congr_left
    intro o _
    exact cnt_eq ps false _ _ (IH o)
  simp only [rebuild, hn]
  by_cases h0 : (L.length : Int) = 0
  · have hl0 : L = [] := by
      have : L.length = 0 := by omega
      exact List.length_eq_zero_iff.mp this
    simp only [h0, neg_zero, if_true]
    refine ⟨trivial, ?_⟩
    simp only [leaves]
    rw [hl0]
  · by_cases h1 : (L.length : Int) = 1
    · have hnz : ¬ (-(L.length : Int) = 0) := by omega
      have hm1 : (-(L.length : Int) = -1) := by omega
      simp only [hnz, hm1, if_false, if_true]
      obtain ⟨q, hq⟩ : ∃ q, L = [q] := by
        have : L.length = 1 := by omega
        exact List.length_eq_one_iff.mp this
      have hnonode : ∀ o ∈ List.finRange 8, isNode (ch' o) = false := by
        intro o _
        cases hs : ch' o with
        | nil => rfl
        | leaf _ _ _ => rfl
        | node c1 g1 n1 ch1 =>
          exfalso
          have hw := IH o
          rw [hs] at hw
          obtain ⟨_, _, _, h2, _⟩ := hw
          have hsp := fin8_split (fun o => leaves (ch' o)) o
          have hlen := hsp.length_eq
          simp only [List.length_append] at hlen
          rw [← hL, hq] at hlen
          simp only [hs, leaves, List.length_singleton] at hlen
          omega
      have hol : onlyLeaf ch' = some q := by
        unfold onlyLeaf
        have := onlyLeaf_fold ch' _ none hnonode
        simp only [← hL, hq] at this
        exact this.trans (by simp)
      simp only [hol]
      have hqin : In (ps q) c0 := by
        have : q ∈ L := by rw [hq]; simp
        rw [hL, List.mem_flatMap] at this
        obtain ⟨o, _, hqo⟩ := this
        exact In_parent _ _ o (In_of_mem_leaves ps false _ _ (IH o) q hqo)
      refine ⟨⟨rfl, hqin⟩, ?_⟩
      show List.Perm [q] L
      rw [hq]
    · have hnz : ¬ (-(L.length : Int) = 0) := by omega
      have hm1 : ¬ (-(L.length : Int) = -1) := by omega
      simp only [hnz, hm1, if_false]
      refine ⟨⟨rfl, fun o => IH o, rfl, by show 2 ≤ L.length; omega, by simp⟩, ?_⟩
      simp only [leaves]
      exact List.Perm.refl _

theorem sweep_spec (ps : Nat → Pt K) : ∀ (t : T K) (c : Cell K), Geo c t →
    WF ps false c (sweep ps t).1 ∧ List.Perm (leaves (sweep ps t).1 ++ (sweep ps t).2) (leaves t) := by
  intro t
  induction t with
  | nil => intro c _; simp [sweep, leaves, WF]
  | leaf c0 g q =>
    intro c h
    simp only [Geo] at h
    subst h
    by_cases hi : inside (ps q) c0 = true
    · simp only [sweep, hi, if_true]
      exact ⟨⟨rfl, (inside_iff _ _).mp hi⟩, by simp [leaves]⟩
    · simp only [sweep, hi]
      exact ⟨trivial, by simp [leaves]⟩
  | node c0 g n0 ch ih =>
    intro c h
    obtain ⟨hc, hgeo⟩ := h
    subst hc
    have IH : ∀ o, WF ps false (childCell c0 o) (sweep ps (ch o)).1 ∧
        List.Perm (leaves (sweep ps (ch o)).1 ++ (sweep ps (ch o)).2) (leaves (ch o)) :=
      fun o => ih o _ (hgeo o)
    obtain ⟨hwf, hp⟩ := rebuild_spec ps c0 g (fun o => (sweep ps (ch o)).1) (fun o => (IH o).1)
    simp only [sweep, memo_eq]
    refine ⟨hwf, ?_⟩
    refine (List.Perm.append_right _ hp).trans ?_
    refine (flatMap_append_perm _ _ _).symm.trans ?_
    exact flatMap_perm_congr _ _ (fun o => (IH o).2) _

theorem reinsert_spec (ps : Nat → Pt K) (tie : Bool) (f : Nat) (c : Cell K) : ∀ (ev : List Nat) (t t' : T K),
    WF ps tie c t → (∀ q ∈ ev, In (ps q) c) → reinsert ps f c t ev = .ok t' →
    WF ps tie c t' ∧ List.Perm (leaves t') (ev ++ leaves t) := by
  intro ev
  induction ev with
  | nil =>
    intro t t' hwf _ h
    simp [reinsert, pure, Except.pure] at h
    subst h
    exact ⟨hwf, by simp⟩
  | cons q ev ih =>
    intro t t' hwf hin h
    unfold reinsert at h
    simp only [List.foldlM_cons, so_le, le_refl, if_true] at h
    cases h1 : add ps f t c q with
    | error e => simp [h1, bind, Except.bind] at h
    | ok t1 =>
      simp only [h1, bind, Except.bind] at h
      obtain ⟨hwf1, hp1⟩ := add_spec ps tie f t c q t1 hwf (hin q (by simp)) h1
      have h' : reinsert ps f c t1 ev = .ok t' := by
        unfold reinsert
        simp only [so_le, le_refl, if_true]
        exact h
      obtain ⟨hwf2, hp2⟩ := ih t1 t' hwf1 (fun r hr => hin r (by simp [hr])) h'
      refine ⟨hwf2, hp2.trans ?_⟩
      refine (List.Perm.append_left ev hp1).trans ?_
      simp only [List.cons_append]
      exact List.perm_middle

theorem update_spec (ps : Nat → Pt K) (f : Nat) (c : Cell K) (t t' : T K)
    (hgeo : Geo c t) (hin : ∀ q ∈ leaves t, In (ps q) c) (h : update ps f c t = .ok t') :
    WF ps false c t' ∧ List.Perm (leaves t') (leaves t) := by
  unfold update at h
  obtain ⟨hwf1, hp1⟩ := sweep_spec ps t c hgeo
  have hev : ∀ q ∈ (sweep ps t).2, In (ps q) c := by
    intro q hq
    apply hin
    exact hp1.mem_iff.mp (by simp [hq])
  obtain ⟨hwf2, hp2⟩ := reinsert_spec ps false f c _ _ t' hwf1 hev h
  exact ⟨hwf2, hp2.trans (List.perm_append_comm.trans hp1)⟩

end RV.C15
