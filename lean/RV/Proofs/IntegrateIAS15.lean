import RV.Proofs.IntegrateAdaptive
/-
  C08: the step-size controller of IAS15 (integrator_ias15.c:615-646, 773) satisfies the hypothesis of the
  adaptive exact-finish theorem with δ = min_dt: the progress bound is derived from the code's clamps.
-/
set_option linter.unusedSectionVars false
set_option linter.unusedVariables false
set_option linter.unusedSimpArgs false
set_option linter.unnecessarySimpa false
set_option linter.unusedTactic false
set_option linter.unreachableTactic false
namespace RV.Integrate
open RV
variable {K : Type} [Field K] [LinearOrder K] [IsStrictOrderedRing K]

theorem ias15SF_eq : (ias15SF : K) = 1 / 4 := by
  simp only [ias15SF, sc_one, sc_hdiv, sc_ofNat]; norm_num

/-- the controller for a forward attempt (`d > 0`, the estimate asks for `raw > 0`) -/
theorem ias15Ctl_pos (minDt d raw : K) (hd : 0 < d) (hr : 0 < raw) (hm : 0 ≤ minDt) :
    ias15Ctl minDt d raw =
      (if 4 * max raw minDt < d then (false, max raw minDt)
       else (true, if 4 * d < max raw minDt then 4 * d else max raw minDt)) := by
  have hq : 0 < max raw minDt := lt_max_of_lt_left hr
  have hclamp : (if |raw| < minDt then copysign minDt raw else raw) = max raw minDt := by
    rw [abs_of_pos hr]
    by_cases h : raw < minDt
    · have hc : copysign minDt raw = minDt := by
        rw [copysign_def]
        have h1 : ¬ minDt < 0 := not_lt.mpr hm
        have h2 : ¬ raw < 0 := not_lt.mpr hr.le
        simp [h1, h2]
      rw [if_pos h, hc, max_eq_right h.le]
    · rw [if_neg h, max_eq_left (not_lt.mp h)]
  unfold ias15Ctl
  simp only [slt_iff, sfabs, fgt_iff, decide_eq_true_eq, sc_one, sc_hdiv, ias15SF_eq, hclamp]
  generalize max raw minDt = q at hq ⊢
  have hratio : |q / d| = q / d := abs_of_pos (div_pos hq hd)
  rw [hratio]
  have e1 : q / d < 1 / 4 ↔ 4 * q < d := by
    rw [div_lt_iff₀ hd]; constructor <;> intro h <;> linarith
  have four : (1 : K) / (1 / 4) = 4 := by norm_num
  have e2 : 1 / (1 / 4 : K) < q / d ↔ 4 * d < q := by
    rw [four, lt_div_iff₀ hd]
  have e3 : (1 : K) < q / d ↔ d < q := by
    rw [lt_div_iff₀ hd, one_mul]
  have e4 : d / (1 / 4 : K) = 4 * d := by field_simp
  simp only [e1, e2, e3, e4]
  by_cases h1 : 4 * q < d
  · simp [h1]
  · simp only [h1, if_false]
    by_cases h2 : 4 * d < q
    · have : d < q := by linarith
      simp [h2, this]
    · simp [h2]

/-- the controller for a backward attempt (`d < 0`, the estimate asks for `raw < 0`): the mirror image -/
theorem ias15Ctl_neg (minDt d raw : K) (hd : d < 0) (hr : raw < 0) (hm : 0 ≤ minDt) :
    ias15Ctl minDt d raw =
      (if 4 * max (-raw) minDt < -d then (false, -max (-raw) minDt)
       else (true, -(if 4 * (-d) < max (-raw) minDt then 4 * (-d) else max (-raw) minDt))) := by
  have hq : 0 < max (-raw) minDt := lt_max_of_lt_left (by linarith)
  have hclamp : (if |raw| < minDt then copysign minDt raw else raw) = -max (-raw) minDt := by
    rw [abs_of_neg hr]
    by_cases h : -raw < minDt
    · have hc : copysign minDt raw = -minDt := by
        rw [copysign_def]
        have h1 : ¬ minDt < 0 := not_lt.mpr hm
        simp [h1, hr]
      rw [if_pos h, hc, max_eq_right h.le]
    · rw [if_neg h, max_eq_left (not_lt.mp h)]; ring
  unfold ias15Ctl
  simp only [slt_iff, sfabs, fgt_iff, decide_eq_true_eq, sc_one, sc_hdiv, ias15SF_eq, hclamp]
  generalize max (-raw) minDt = q at hq ⊢
  have hd' : 0 < -d := by linarith
  have hdiv : -q / d = q / (-d) := by rw [div_neg, neg_div]
  have hratio : |(-q) / d| = q / (-d) := by rw [hdiv]; exact abs_of_pos (div_pos hq hd')
  rw [hratio, hdiv]
  have e1 : q / (-d) < 1 / 4 ↔ 4 * q < -d := by
    rw [div_lt_iff₀ hd']; constructor <;> intro h <;> linarith
  have four : (1 : K) / (1 / 4) = 4 := by norm_num
  have e2 : 1 / (1 / 4 : K) < q / (-d) ↔ 4 * (-d) < q := by
    rw [four, lt_div_iff₀ hd']
  have e3 : (1 : K) < q / (-d) ↔ -d < q := by
    rw [lt_div_iff₀ hd', one_mul]
  have e4 : d / (1 / 4 : K) = -(4 * (-d)) := by field_simp
  simp only [e1, e2, e3, e4]
  by_cases h1 : 4 * q < -d
  · simp [h1]
  · simp only [h1, if_false]
    by_cases h2 : 4 * (-d) < q
    · have h3 : -d < q := by linarith
      rw [if_pos h3, if_pos h2, if_pos h2]
    · rw [if_neg h2, if_neg h2]
      by_cases h3 : -d < q
      · rw [if_pos h3]
      · rw [if_neg h3]

/-- what one attempt of the controller guarantees, in direction `sg`: the new step points the same way;
    a rejection leaves a step of at least `min_dt` that is less than a quarter of the one tried; an
    acceptance proposes between a quarter and four times the step done, and at least
    `min(min_dt, 4·|dt_done|)` -/
theorem ias15Ctl_spec (minDt d raw sg : K) (hsg : sg = 1 ∨ sg = -1) (hd : 0 < d * sg) (hr : 0 < raw * sg)
    (hm : 0 ≤ minDt) :
    0 < (ias15Ctl minDt d raw).2 * sg ∧
    ((ias15Ctl minDt d raw).1 = false →
      minDt ≤ (ias15Ctl minDt d raw).2 * sg ∧ 4 * ((ias15Ctl minDt d raw).2 * sg) < d * sg) ∧
    ((ias15Ctl minDt d raw).1 = true →
      d * sg ≤ 4 * ((ias15Ctl minDt d raw).2 * sg) ∧ (ias15Ctl minDt d raw).2 * sg ≤ 4 * (d * sg) ∧
      (minDt ≤ (ias15Ctl minDt d raw).2 * sg ∨ (ias15Ctl minDt d raw).2 * sg = 4 * (d * sg))) := by
  rcases hsg with rfl | rfl
  · simp only [mul_one] at hd hr ⊢
    rw [ias15Ctl_pos minDt d raw hd hr hm]
    have hq : 0 < max raw minDt := lt_max_of_lt_left hr
    have hqm : minDt ≤ max raw minDt := le_max_right _ _
    generalize max raw minDt = q at hq hqm ⊢
    by_cases h1 : 4 * q < d
    · rw [if_pos h1]
      exact ⟨hq, fun _ => ⟨hqm, h1⟩, fun h => by simp at h⟩
    · rw [if_neg h1]
      by_cases h2 : 4 * d < q
      · rw [if_pos h2]
        exact ⟨by show 0 < 4 * d; linarith, fun h => by simp at h,
          fun _ => ⟨by show d ≤ 4 * (4 * d); linarith, le_refl _, Or.inr rfl⟩⟩
      · rw [if_neg h2]
        exact ⟨hq, fun h => by simp at h,
          fun _ => ⟨by show d ≤ 4 * q; linarith, by show q ≤ 4 * d; linarith, Or.inl hqm⟩⟩
  · have hd' : d < 0 := by linarith
    have hr' : raw < 0 := by linarith
    rw [ias15Ctl_neg minDt d raw hd' hr' hm]
    have hq : 0 < max (-raw) minDt := lt_max_of_lt_left (by linarith)
    have hqm : minDt ≤ max (-raw) minDt := le_max_right _ _
    generalize max (-raw) minDt = q at hq hqm ⊢
    by_cases h1 : 4 * q < -d
    · rw [if_pos h1]
      exact ⟨by show 0 < -q * -1; linarith, fun _ => ⟨by show minDt ≤ -q * -1; linarith,
        by show 4 * (-q * -1) < d * -1; linarith⟩, fun h => by simp at h⟩
    · rw [if_neg h1]
      by_cases h2 : 4 * (-d) < q
      · rw [if_pos h2]
        exact ⟨by show 0 < -(4 * -d) * -1; linarith, fun h => by simp at h,
          fun _ => ⟨by show d * -1 ≤ 4 * (-(4 * -d) * -1); linarith,
            by show -(4 * -d) * -1 ≤ 4 * (d * -1); linarith, Or.inr (by show -(4 * -d) * -1 = 4 * (d * -1); ring)⟩⟩
      · rw [if_neg h2]
        exact ⟨by show 0 < -q * -1; linarith, fun h => by simp at h,
          fun _ => ⟨by show d * -1 ≤ 4 * (-q * -1); linarith, by show -q * -1 ≤ 4 * (d * -1); linarith,
            Or.inl (by show minDt ≤ -q * -1; linarith)⟩⟩

/-- the retry loop of one IAS15 step: with `min_dt > 0`, an error estimate that always asks for a step in
    the direction of integration, and a first attempt of size at most `min_dt·4^(n+1)`, one of the first
    `n+1` attempts is accepted; the step done points in the direction of integration, is no longer than
    the step asked for, is that step itself or at least `min_dt` long; the proposal points the same way
    and is at least `min_dt` or exactly four times the step done. -/
theorem ias15Attempts_spec (minDt sg : K) (raw : Nat → K → K) (hsg : sg = 1 ∨ sg = -1) (hm : 0 < minDt)
    (hraw : ∀ j d, 0 < d * sg → 0 < raw j d * sg) :
    ∀ (n fuel j : Nat) (dt : K), 0 < dt * sg → dt * sg ≤ minDt * 4 ^ (n + 1) → n + 1 ≤ fuel →
      ∃ done new, ias15Attempts minDt raw fuel j dt = some (done, new) ∧
        0 < done * sg ∧ done * sg ≤ dt * sg ∧ (done = dt ∨ minDt ≤ done * sg) ∧
        0 < new * sg ∧ (minDt ≤ new * sg ∨ new * sg = 4 * (done * sg)) := by
  intro n
  induction n with
  | zero =>
    intro fuel j dt hdt hb hf
    obtain ⟨f, rfl⟩ : ∃ f, fuel = f + 1 := ⟨fuel - 1, by omega⟩
    obtain ⟨p1, p2, p3⟩ := ias15Ctl_spec minDt dt (raw j dt) sg hsg hdt (hraw j dt hdt) hm.le
    unfold ias15Attempts
    rcases hc : ias15Ctl minDt dt (raw j dt) with ⟨acc, dn⟩
    rw [hc] at p1 p2 p3
    cases acc with
    | true =>
      obtain ⟨q1, q2, q3⟩ := p3 rfl
      exact ⟨dt, dn, rfl, hdt, le_refl _, Or.inl rfl, p1, by
        rcases q3 with h | h
        · exact Or.inl h
        · exact Or.inr h⟩
    | false =>
      obtain ⟨q1, q2⟩ := p2 rfl
      simp only [zero_add, pow_one] at hb
      exfalso; simp only at q1 q2; linarith
  | succ n ih =>
    intro fuel j dt hdt hb hf
    obtain ⟨f, rfl⟩ : ∃ f, fuel = f + 1 := ⟨fuel - 1, by omega⟩
    obtain ⟨p1, p2, p3⟩ := ias15Ctl_spec minDt dt (raw j dt) sg hsg hdt (hraw j dt hdt) hm.le
    unfold ias15Attempts
    rcases hc : ias15Ctl minDt dt (raw j dt) with ⟨acc, dn⟩
    rw [hc] at p1 p2 p3
    cases acc with
    | true =>
      obtain ⟨q1, q2, q3⟩ := p3 rfl
      exact ⟨dt, dn, rfl, hdt, le_refl _, Or.inl rfl, p1, by
        rcases q3 with h | h
        · exact Or.inl h
        · exact Or.inr h⟩
    | false =>
      obtain ⟨q1, q2⟩ := p2 rfl
      simp only at q1 q2 p1
      have hb' : dn * sg ≤ minDt * 4 ^ (n + 1) := by
        have : minDt * 4 ^ (n + 1 + 1) = 4 * (minDt * 4 ^ (n + 1)) := by ring
        rw [this] at hb; linarith
      obtain ⟨done, new, e, r1, r2, r3, r4, r5⟩ := ih f (j + 1) dn p1 hb' (by omega)
      refine ⟨done, new, e, r1, by linarith, Or.inr ?_, r4, r5⟩
      rcases r3 with h | h
      · rw [h]; exact q1
      · exact h

/-- IAS15's bookkeeping with its step-size controller satisfies the hypothesis of the adaptive exact-finish
    theorem with `δ = min_dt`, no whole-step rejections, for requested steps up to `min_dt·4^fuel` -/
theorem isAdaptive_ias15 (minDt sg : K) (raw : Nat → Nat → K → K) (fuel : Nat) (hsg : sg = 1 ∨ sg = -1)
    (hm : 0 < minDt) (hf : 1 ≤ fuel) (hraw : ∀ k j d, 0 < d * sg → 0 < raw k j d * sg) :
    IsAdaptive (stepIAS15 minDt raw fuel) sg minDt 0 (minDt * 4 ^ fuel) := by
  intro k t dt dld hdt hB
  obtain ⟨n, rfl⟩ : ∃ n, fuel = n + 1 := ⟨fuel - 1, by omega⟩
  obtain ⟨done, new, e, r1, r2, r3, r4, r5⟩ :=
    ias15Attempts_spec minDt sg (raw k) hsg hm (hraw k) n (n + 1) 0 dt hdt hB (le_refl _)
  simp only [stepIAS15, e]
  refine ⟨r4, Or.inr ⟨trivial, r1, r2, ?_, ?_⟩⟩
  · rcases r3 with h | h
    · exact Or.inr h
    · exact Or.inl h
  · rcases r5 with h | h
    · exact Or.inl h
    · by_cases hlt : minDt ≤ new * sg
      · exact Or.inl hlt
      · right
        have hsmall : done * sg < minDt := by
          have := not_le.mp hlt
          nlinarith
        rcases r3 with h3 | h3
        · exact ⟨h3, by rw [← h3]; exact hsmall⟩
        · exact absurd h3 (not_le.mpr hsmall)

end RV.Integrate
