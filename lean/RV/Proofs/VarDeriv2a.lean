import RV.Proofs.VarDeriv
/- second derivatives, Pal family: generated proofs (scripted, one template), part 1 -/
set_option linter.unusedVariables false
set_option linter.unusedSimpArgs false
set_option linter.unusedSectionVars false
set_option linter.unusedTactic false
set_option linter.unreachableTactic false
namespace RV.Var
open RV RV.Gen.C16Deriv
variable {K : Type} [Field K] [CharZero K]

set_option maxHeartbeats 1600000 in
theorem deriv2_m_m_is_eps (o : DOps K) (sgn : K → K) (G m M a lam k h ix iy p q : K)
    (hq : 1 - q ≠ 0) (hl : 2 - (1 - o.sqrt (1 - h * h - k * k)) ≠ 0) (ha : a ≠ 0) (hm : m + M ≠ 0) (hS1 : o.sqrt (G * (m + M) / a) ≠ 0) (hS : o.sqrt (G * (m + M) / a) * o.sqrt (G * (m + M) / a) = G * (m + M) / a) (hSm : o.sqrt (G / (a * (m + M))) = o.sqrt (G * (m + M) / a) / (m + M)) (hSmm : o.sqrt (G / (a * (m + M) * (m + M) * (m + M))) = o.sqrt (G * (m + M) / a) / ((m + M) * (m + M))) :
    d_m_m o G m M a lam k h ix iy p q
      = epsP72 (palMap (lift2 o sgn) (c2 G) (v12 m) (c2 M) (c2 a) (c2 lam) (c2 k) (c2 h) (c2 ix) (c2 iy)
          ⟨⟨p, 0⟩, ⟨0, 0⟩⟩ ⟨⟨q, 0⟩, ⟨0, 0⟩⟩) := by
  have h2 : (2:K) ≠ 0 := by norm_num
  deriv2_unfold [d_m_m]
  try simp only [hSm]
  try simp only [hSmm]
  generalize o.sin (lam + p) = s at *
  generalize o.cos (lam + p) = cc at *
  generalize o.sqrt (1 - h * h - k * k) = L at *
  generalize o.sqrt (o.fabs (4 - ix * ix - iy * iy)) = iz at *
  generalize o.sqrt (G * (m + M) / a) = S1 at *
  generalize m + M = T at *
  have eG : G = S1 * S1 * a / T := by field_simp at hS ⊢; linear_combination -hS
  subst eG
  deriv_finish

set_option maxHeartbeats 1600000 in
theorem deriv2_m_a_is_eps (o : DOps K) (sgn : K → K) (G m M a lam k h ix iy p q : K)
    (hq : 1 - q ≠ 0) (hl : 2 - (1 - o.sqrt (1 - h * h - k * k)) ≠ 0) (ha : a ≠ 0) (hm : m + M ≠ 0) (hS1 : o.sqrt (G * (m + M) / a) ≠ 0) (hS : o.sqrt (G * (m + M) / a) * o.sqrt (G * (m + M) / a) = G * (m + M) / a) (hSm : o.sqrt (G / (a * (m + M))) = o.sqrt (G * (m + M) / a) / (m + M)) (hS3 : o.sqrt (G * (m + M) / (a * a * a)) = o.sqrt (G * (m + M) / a) / a) (hSma : o.sqrt (G / (a * a * a * (m + M))) = o.sqrt (G * (m + M) / a) / (a * (m + M))) :
    d_m_a o G m M a lam k h ix iy p q
      = epsP72 (palMap (lift2 o sgn) (c2 G) (v1 m) (c2 M) (v2 a) (c2 lam) (c2 k) (c2 h) (c2 ix) (c2 iy)
          ⟨⟨p, 0⟩, ⟨0, 0⟩⟩ ⟨⟨q, 0⟩, ⟨0, 0⟩⟩) := by
  have h2 : (2:K) ≠ 0 := by norm_num
  deriv2_unfold [d_m_a]
  try simp only [hSm]
  try simp only [hS3]
  try simp only [hSma]
  generalize o.sin (lam + p) = s at *
  generalize o.cos (lam + p) = cc at *
  generalize o.sqrt (1 - h * h - k * k) = L at *
  generalize o.sqrt (o.fabs (4 - ix * ix - iy * iy)) = iz at *
  generalize o.sqrt (G * (m + M) / a) = S1 at *
  generalize m + M = T at *
  have eG : G = S1 * S1 * a / T := by field_simp at hS ⊢; linear_combination -hS
  subst eG
  deriv_finish

set_option maxHeartbeats 1600000 in
theorem deriv2_m_lambda_is_eps_partial (o : DOps K) (sgn : K → K) (G m M a lam k h ix iy p q : K)
    (hq : 1 - q ≠ 0) (hl : 2 - (1 - o.sqrt (1 - h * h - k * k)) ≠ 0) (ha : a ≠ 0) (hm : m + M ≠ 0) (hS1 : o.sqrt (G * (m + M) / a) ≠ 0) (hS : o.sqrt (G * (m + M) / a) * o.sqrt (G * (m + M) / a) = G * (m + M) / a) (hSm : o.sqrt (G / (a * (m + M))) = o.sqrt (G * (m + M) / a) / (m + M)) :
    d_m_lambda o G m M a lam k h ix iy p q
      = epsP72 (palMap (lift2 o sgn) (c2 G) (v1 m) (c2 M) (c2 a) (v2 lam) (c2 k) (c2 h) (c2 ix) (c2 iy)
          ⟨⟨p, 0⟩, ⟨q / (1 - q), 0⟩⟩ ⟨⟨q, 0⟩, ⟨-p / (1 - q), 0⟩⟩) := by
  have h2 : (2:K) ≠ 0 := by norm_num
  deriv2_unfold [d_m_lambda]
  try simp only [hSm]
  generalize o.sin (lam + p) = s at *
  generalize o.cos (lam + p) = cc at *
  generalize o.sqrt (1 - h * h - k * k) = L at *
  generalize o.sqrt (o.fabs (4 - ix * ix - iy * iy)) = iz at *
  generalize o.sqrt (G * (m + M) / a) = S1 at *
  generalize m + M = T at *
  have eG : G = S1 * S1 * a / T := by field_simp at hS ⊢; linear_combination -hS
  subst eG
  deriv_finish

set_option maxHeartbeats 1600000 in
theorem deriv2_m_h_is_eps_partial (o : DOps K) (sgn : K → K) (G m M a lam k h ix iy p q : K)
    (hq : 1 - q ≠ 0) (hl : 2 - (1 - o.sqrt (1 - h * h - k * k)) ≠ 0) (hL : o.sqrt (1 - h * h - k * k) ≠ 0) (ha : a ≠ 0) (hm : m + M ≠ 0) (hS1 : o.sqrt (G * (m + M) / a) ≠ 0) (hS : o.sqrt (G * (m + M) / a) * o.sqrt (G * (m + M) / a) = G * (m + M) / a) (hSm : o.sqrt (G / (a * (m + M))) = o.sqrt (G * (m + M) / a) / (m + M)) :
    d_m_h o G m M a lam k h ix iy p q
      = epsP72 (palMap (lift2 o sgn) (c2 G) (v1 m) (c2 M) (c2 a) (c2 lam) (c2 k) (v2 h) (c2 ix) (c2 iy)
          ⟨⟨p, 0⟩, ⟨1 / (1 - q) * (-o.cos (lam + p)), 0⟩⟩ ⟨⟨q, 0⟩, ⟨1 / (1 - q) * (o.sin (lam + p) - h), 0⟩⟩) := by
  have h2 : (2:K) ≠ 0 := by norm_num
  deriv2_unfold [d_m_h]
  try simp only [hSm]
  generalize o.sin (lam + p) = s at *
  generalize o.cos (lam + p) = cc at *
  generalize o.sqrt (1 - h * h - k * k) = L at *
  generalize o.sqrt (o.fabs (4 - ix * ix - iy * iy)) = iz at *
  generalize o.sqrt (G * (m + M) / a) = S1 at *
  generalize m + M = T at *
  have eG : G = S1 * S1 * a / T := by field_simp at hS ⊢; linear_combination -hS
  subst eG
  deriv_finish

set_option maxHeartbeats 1600000 in
theorem deriv2_m_k_is_eps_partial (o : DOps K) (sgn : K → K) (G m M a lam k h ix iy p q : K)
    (hq : 1 - q ≠ 0) (hl : 2 - (1 - o.sqrt (1 - h * h - k * k)) ≠ 0) (hL : o.sqrt (1 - h * h - k * k) ≠ 0) (ha : a ≠ 0) (hm : m + M ≠ 0) (hS1 : o.sqrt (G * (m + M) / a) ≠ 0) (hS : o.sqrt (G * (m + M) / a) * o.sqrt (G * (m + M) / a) = G * (m + M) / a) (hSm : o.sqrt (G / (a * (m + M))) = o.sqrt (G * (m + M) / a) / (m + M)) :
    d_m_k o G m M a lam k h ix iy p q
      = epsP72 (palMap (lift2 o sgn) (c2 G) (v1 m) (c2 M) (c2 a) (c2 lam) (v2 k) (c2 h) (c2 ix) (c2 iy)
          ⟨⟨p, 0⟩, ⟨1 / (1 - q) * o.sin (lam + p), 0⟩⟩ ⟨⟨q, 0⟩, ⟨1 / (1 - q) * (o.cos (lam + p) - k), 0⟩⟩) := by
  have h2 : (2:K) ≠ 0 := by norm_num
  deriv2_unfold [d_m_k]
  try simp only [hSm]
  generalize o.sin (lam + p) = s at *
  generalize o.cos (lam + p) = cc at *
  generalize o.sqrt (1 - h * h - k * k) = L at *
  generalize o.sqrt (o.fabs (4 - ix * ix - iy * iy)) = iz at *
  generalize o.sqrt (G * (m + M) / a) = S1 at *
  generalize m + M = T at *
  have eG : G = S1 * S1 * a / T := by field_simp at hS ⊢; linear_combination -hS
  subst eG
  deriv_finish

set_option maxHeartbeats 1600000 in
theorem deriv2_m_ix_is_eps (o : DOps K) (sgn : K → K) (G m M a lam k h ix iy p q : K)
    (hq : 1 - q ≠ 0) (hl : 2 - (1 - o.sqrt (1 - h * h - k * k)) ≠ 0) (hsgn : sgn (4 - ix * ix - iy * iy) = 1) (hiz : o.sqrt (o.fabs (4 - ix * ix - iy * iy)) ≠ 0) (ha : a ≠ 0) (hm : m + M ≠ 0) (hS1 : o.sqrt (G * (m + M) / a) ≠ 0) (hS : o.sqrt (G * (m + M) / a) * o.sqrt (G * (m + M) / a) = G * (m + M) / a) (hSm : o.sqrt (G / (a * (m + M))) = o.sqrt (G * (m + M) / a) / (m + M)) :
    d_m_ix o G m M a lam k h ix iy p q
      = epsP72 (palMap (lift2 o sgn) (c2 G) (v1 m) (c2 M) (c2 a) (c2 lam) (c2 k) (c2 h) (v2 ix) (c2 iy)
          ⟨⟨p, 0⟩, ⟨0, 0⟩⟩ ⟨⟨q, 0⟩, ⟨0, 0⟩⟩) := by
  have h2 : (2:K) ≠ 0 := by norm_num
  deriv2_unfold [d_m_ix]
  try rw [hsgn]
  try simp only [hSm]
  generalize o.sin (lam + p) = s at *
  generalize o.cos (lam + p) = cc at *
  generalize o.sqrt (1 - h * h - k * k) = L at *
  generalize o.sqrt (o.fabs (4 - ix * ix - iy * iy)) = iz at *
  generalize o.sqrt (G * (m + M) / a) = S1 at *
  generalize m + M = T at *
  have eG : G = S1 * S1 * a / T := by field_simp at hS ⊢; linear_combination -hS
  subst eG
  deriv_finish

set_option maxHeartbeats 1600000 in
theorem deriv2_m_iy_is_eps (o : DOps K) (sgn : K → K) (G m M a lam k h ix iy p q : K)
    (hq : 1 - q ≠ 0) (hl : 2 - (1 - o.sqrt (1 - h * h - k * k)) ≠ 0) (hsgn : sgn (4 - ix * ix - iy * iy) = 1) (hiz : o.sqrt (o.fabs (4 - ix * ix - iy * iy)) ≠ 0) (ha : a ≠ 0) (hm : m + M ≠ 0) (hS1 : o.sqrt (G * (m + M) / a) ≠ 0) (hS : o.sqrt (G * (m + M) / a) * o.sqrt (G * (m + M) / a) = G * (m + M) / a) (hSm : o.sqrt (G / (a * (m + M))) = o.sqrt (G * (m + M) / a) / (m + M)) :
    d_m_iy o G m M a lam k h ix iy p q
      = epsP72 (palMap (lift2 o sgn) (c2 G) (v1 m) (c2 M) (c2 a) (c2 lam) (c2 k) (c2 h) (c2 ix) (v2 iy)
          ⟨⟨p, 0⟩, ⟨0, 0⟩⟩ ⟨⟨q, 0⟩, ⟨0, 0⟩⟩) := by
  have h2 : (2:K) ≠ 0 := by norm_num
  deriv2_unfold [d_m_iy]
  try rw [hsgn]
  try simp only [hSm]
  generalize o.sin (lam + p) = s at *
  generalize o.cos (lam + p) = cc at *
  generalize o.sqrt (1 - h * h - k * k) = L at *
  generalize o.sqrt (o.fabs (4 - ix * ix - iy * iy)) = iz at *
  generalize o.sqrt (G * (m + M) / a) = S1 at *
  generalize m + M = T at *
  have eG : G = S1 * S1 * a / T := by field_simp at hS ⊢; linear_combination -hS
  subst eG
  deriv_finish

set_option maxHeartbeats 1600000 in
theorem deriv2_a_a_is_eps (o : DOps K) (sgn : K → K) (G m M a lam k h ix iy p q : K)
    (hq : 1 - q ≠ 0) (hl : 2 - (1 - o.sqrt (1 - h * h - k * k)) ≠ 0) (ha : a ≠ 0) (hm : m + M ≠ 0) (hS1 : o.sqrt (G * (m + M) / a) ≠ 0) (hS : o.sqrt (G * (m + M) / a) * o.sqrt (G * (m + M) / a) = G * (m + M) / a) (hS3 : o.sqrt (G * (m + M) / (a * a * a)) = o.sqrt (G * (m + M) / a) / a) (hS5 : o.sqrt (G * (m + M) / (a * a * a * a * a)) = o.sqrt (G * (m + M) / a) / (a * a)) :
    d_a_a o G m M a lam k h ix iy p q
      = epsP72 (palMap (lift2 o sgn) (c2 G) (c2 m) (c2 M) (v12 a) (c2 lam) (c2 k) (c2 h) (c2 ix) (c2 iy)
          ⟨⟨p, 0⟩, ⟨0, 0⟩⟩ ⟨⟨q, 0⟩, ⟨0, 0⟩⟩) := by
  have h2 : (2:K) ≠ 0 := by norm_num
  deriv2_unfold [d_a_a]
  try simp only [hS3]
  try simp only [hS5]
  generalize o.sin (lam + p) = s at *
  generalize o.cos (lam + p) = cc at *
  generalize o.sqrt (1 - h * h - k * k) = L at *
  generalize o.sqrt (o.fabs (4 - ix * ix - iy * iy)) = iz at *
  generalize G * (m + M) = μ at *
  generalize o.sqrt (μ / a) = S1 at *
  have eμ : μ = S1 * S1 * a := by field_simp at hS ⊢; linear_combination -hS
  subst eμ
  deriv_finish

set_option maxHeartbeats 1600000 in
theorem deriv2_a_lambda_is_eps_partial (o : DOps K) (sgn : K → K) (G m M a lam k h ix iy p q : K)
    (hq : 1 - q ≠ 0) (hl : 2 - (1 - o.sqrt (1 - h * h - k * k)) ≠ 0) (ha : a ≠ 0) (hm : m + M ≠ 0) (hS1 : o.sqrt (G * (m + M) / a) ≠ 0) (hS : o.sqrt (G * (m + M) / a) * o.sqrt (G * (m + M) / a) = G * (m + M) / a) (hS3 : o.sqrt (G * (m + M) / (a * a * a)) = o.sqrt (G * (m + M) / a) / a) :
    d_a_lambda o G m M a lam k h ix iy p q
      = epsP72 (palMap (lift2 o sgn) (c2 G) (c2 m) (c2 M) (v1 a) (v2 lam) (c2 k) (c2 h) (c2 ix) (c2 iy)
          ⟨⟨p, 0⟩, ⟨q / (1 - q), 0⟩⟩ ⟨⟨q, 0⟩, ⟨-p / (1 - q), 0⟩⟩) := by
  have h2 : (2:K) ≠ 0 := by norm_num
  deriv2_unfold [d_a_lambda]
  try simp only [hS3]
  generalize o.sin (lam + p) = s at *
  generalize o.cos (lam + p) = cc at *
  generalize o.sqrt (1 - h * h - k * k) = L at *
  generalize o.sqrt (o.fabs (4 - ix * ix - iy * iy)) = iz at *
  generalize G * (m + M) = μ at *
  generalize o.sqrt (μ / a) = S1 at *
  have eμ : μ = S1 * S1 * a := by field_simp at hS ⊢; linear_combination -hS
  subst eμ
  deriv_finish

set_option maxHeartbeats 1600000 in
theorem deriv2_a_h_is_eps_partial (o : DOps K) (sgn : K → K) (G m M a lam k h ix iy p q : K)
    (hq : 1 - q ≠ 0) (hl : 2 - (1 - o.sqrt (1 - h * h - k * k)) ≠ 0) (hL : o.sqrt (1 - h * h - k * k) ≠ 0) (ha : a ≠ 0) (hm : m + M ≠ 0) (hS1 : o.sqrt (G * (m + M) / a) ≠ 0) (hS : o.sqrt (G * (m + M) / a) * o.sqrt (G * (m + M) / a) = G * (m + M) / a) (hS3 : o.sqrt (G * (m + M) / (a * a * a)) = o.sqrt (G * (m + M) / a) / a) :
    d_a_h o G m M a lam k h ix iy p q
      = epsP72 (palMap (lift2 o sgn) (c2 G) (c2 m) (c2 M) (v1 a) (c2 lam) (c2 k) (v2 h) (c2 ix) (c2 iy)
          ⟨⟨p, 0⟩, ⟨1 / (1 - q) * (-o.cos (lam + p)), 0⟩⟩ ⟨⟨q, 0⟩, ⟨1 / (1 - q) * (o.sin (lam + p) - h), 0⟩⟩) := by
  have h2 : (2:K) ≠ 0 := by norm_num
  deriv2_unfold [d_a_h]
  try simp only [hS3]
  generalize o.sin (lam + p) = s at *
  generalize o.cos (lam + p) = cc at *
  generalize o.sqrt (1 - h * h - k * k) = L at *
  generalize o.sqrt (o.fabs (4 - ix * ix - iy * iy)) = iz at *
  generalize G * (m + M) = μ at *
  generalize o.sqrt (μ / a) = S1 at *
  have eμ : μ = S1 * S1 * a := by field_simp at hS ⊢; linear_combination -hS
  subst eμ
  deriv_finish

set_option maxHeartbeats 1600000 in
theorem deriv2_a_k_is_eps_partial (o : DOps K) (sgn : K → K) (G m M a lam k h ix iy p q : K)
    (hq : 1 - q ≠ 0) (hl : 2 - (1 - o.sqrt (1 - h * h - k * k)) ≠ 0) (hL : o.sqrt (1 - h * h - k * k) ≠ 0) (ha : a ≠ 0) (hm : m + M ≠ 0) (hS1 : o.sqrt (G * (m + M) / a) ≠ 0) (hS : o.sqrt (G * (m + M) / a) * o.sqrt (G * (m + M) / a) = G * (m + M) / a) (hS3 : o.sqrt (G * (m + M) / (a * a * a)) = o.sqrt (G * (m + M) / a) / a) :
    d_a_k o G m M a lam k h ix iy p q
      = epsP72 (palMap (lift2 o sgn) (c2 G) (c2 m) (c2 M) (v1 a) (c2 lam) (v2 k) (c2 h) (c2 ix) (c2 iy)
          ⟨⟨p, 0⟩, ⟨1 / (1 - q) * o.sin (lam + p), 0⟩⟩ ⟨⟨q, 0⟩, ⟨1 / (1 - q) * (o.cos (lam + p) - k), 0⟩⟩) := by
  have h2 : (2:K) ≠ 0 := by norm_num
  deriv2_unfold [d_a_k]
  try simp only [hS3]
  generalize o.sin (lam + p) = s at *
  generalize o.cos (lam + p) = cc at *
  generalize o.sqrt (1 - h * h - k * k) = L at *
  generalize o.sqrt (o.fabs (4 - ix * ix - iy * iy)) = iz at *
  generalize G * (m + M) = μ at *
  generalize o.sqrt (μ / a) = S1 at *
  have eμ : μ = S1 * S1 * a := by field_simp at hS ⊢; linear_combination -hS
  subst eμ
  deriv_finish

end RV.Var
