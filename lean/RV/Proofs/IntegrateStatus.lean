import RV.Proofs.Integrate
/-
  C08, status clause: the code returned by the loop is that of the first boundary at which an
  exit condition holds, in the evaluation order of the C code.  Valid for every step function.
-/
set_option linter.unusedSectionVars false
set_option linter.unusedVariables false
set_option linter.unusedSimpArgs false
set_option linter.unnecessarySimpa false
namespace RV.Integrate
open RV
variable {K : Type} [Field K] [LinearOrder K] [IsStrictOrderedRing K]

/-- status left by the step and the heartbeat of a boundary (rebound.c:857-861, 741-775,
    collision.c:761): last write wins, i.e. SIGINT > ENCOUNTER > ESCAPE > USER > COLLISION > error raised inside the step -/
def Flags.stepCode (f : Flags) : Option Int :=
  if f.sigint then some 6 else if f.encounter then some 3 else if f.escape then some 4
  else if f.user then some 5 else if f.collision then some 7 else if f.stepError then some 1 else none

/-- status forced by `reb_check_exit` itself (rebound.c:674-676, 718-728):
    NO_PARTICLES > GENERIC_ERROR -/
def Flags.checkCode (f : Flags) (nOdes : Nat) (isBS : Bool) : Option Int :=
  if f.n = 0 ∧ (nOdes = 0 ∨ isBS = false) then some 2 else if f.errMsg then some 1 else none

theorem stepCode_pos (f : Flags) (x : Int) (h : f.stepCode = some x) : 1 ≤ x := by
  unfold Flags.stepCode at h
  split_ifs at h <;> simp at h <;> omega

theorem stepCode_none_of_clear (f : Flags) (h : f.Clear) : f.stepCode = none := by
  obtain ⟨⟨h1, h2, h3, h4, h5, h6, h7⟩, h8⟩ := h
  simp [Flags.stepCode, h1, h2, h3, h4, h5, h8]

theorem stepAndBeat_status (step : StepFn K) (k : Nat) (s : Sim K) (f : Flags) :
    (stepAndBeat step k s f).status = f.stepCode.getD s.status := by
  unfold stepAndBeat runHeartbeat Flags.stepCode
  rcases f with ⟨c, u, e, n, sg, em, nn, se⟩
  cases c <;> cases u <;> cases e <;> cases n <;> cases sg <;> cases se <;> simp [Status.code]

theorem stepAndBeat_fields (step : StepFn K) (k : Nat) (s : Sim K) (f : Flags) :
    (stepAndBeat step k s f).stepsDone = s.stepsDone + 1 ∧
    (stepAndBeat step k s f).nOdes = s.nOdes ∧ (stepAndBeat step k s f).isBS = s.isBS ∧
    (stepAndBeat step k s f).t = (step k s.t s.dt s.dtLastDone).t := by
  unfold stepAndBeat runHeartbeat
  rcases f with ⟨c, u, e, n, sg, em, nn, se⟩
  cases c <;> cases u <;> cases e <;> cases n <;> cases sg <;> cases se <;> simp

theorem exitTime_fields (s : Sim K) (tmax lf sg : K) (inf : Bool) :
    (exitTime s tmax inf lf sg).1.stepsDone = s.stepsDone ∧ (exitTime s tmax inf lf sg).1.t = s.t ∧
    (exitTime s tmax inf lf sg).1.nOdes = s.nOdes ∧ (exitTime s tmax inf lf sg).1.isBS = s.isBS := by
  unfold exitTime
  simp only []
  split_ifs <;> simp

theorem exitTime_of_nonneg (s : Sim K) (tmax lf sg : K) (inf : Bool) (h : 0 ≤ s.status) :
    exitTime s tmax inf lf sg = (s, lf) := by
  unfold exitTime; simp [h]

theorem exitTime_status (s : Sim K) (tmax lf sg : K) (inf : Bool)
    (h : s.status = -1 ∨ s.status = -2) :
    (exitTime s tmax inf lf sg).1.status = -1 ∨ (exitTime s tmax inf lf sg).1.status = -2 ∨
    (exitTime s tmax inf lf sg).1.status = 0 := by
  unfold exitTime
  simp only []
  rcases h with h | h <;> split_ifs <;> simp_all [Status.code]

theorem exitNoParticles_status (s : Sim K) (f : Flags) :
    (exitNoParticles s f).status =
      if f.n = 0 ∧ (s.nOdes = 0 ∨ s.isBS = false) then 2 else s.status := by
  unfold exitNoParticles
  by_cases h1 : f.n = 0 <;> by_cases h2 : s.nOdes = 0 <;> cases h3 : s.isBS <;>
    simp [h1, h2, h3, Status.code]

theorem exitNoParticles_fields (s : Sim K) (f : Flags) :
    (exitNoParticles s f).stepsDone = s.stepsDone ∧ (exitNoParticles s f).t = s.t ∧
    (exitNoParticles s f).nOdes = s.nOdes ∧ (exitNoParticles s f).isBS = s.isBS := by
  unfold exitNoParticles
  split_ifs <;> simp

/-- `reb_check_exit` entered with a status that is RUNNING, LAST_STEP or an exit code ≥ 1:
    closed form of what comes out -/
theorem checkExit_form (s : Sim K) (tmax lf : K) (inf : Bool) (f : Flags)
    (hs : s.status = -1 ∨ s.status = -2 ∨ 1 ≤ s.status) :
    checkExit s tmax inf lf f =
      .ret (exitNoParticles
              (exitTime (if f.errMsg then { s with status := 1 } else s) tmax inf lf (copysign 1 s.dt)).1 f)
           (exitTime (if f.errMsg then { s with status := 1 } else s) tmax inf lf (copysign 1 s.dt)).2 := by
  have h10 : ¬ s.status ≤ -10 := by omega
  have h3 : ¬ s.status = -3 := by omega
  have h4 : ¬ s.status = -4 := by omega
  unfold checkExit checkExitCore exitCountdown
  simp only [Status.code, h10, h3, h4, if_false, false_or, false_and]
  cases f.errMsg <;> simp

/-- a boundary at which an exit condition holds: `reb_check_exit` returns its code, whatever the
    time logic would have said; no step is taken any more -/
theorem checkExit_fires (s : Sim K) (tmax lf : K) (inf : Bool) (f : Flags) (c : Int)
    (hs : s.status = -1 ∨ s.status = -2 ∨ 1 ≤ s.status)
    (hc : c = (f.checkCode s.nOdes s.isBS).getD s.status) (h1 : 1 ≤ c) :
    ∃ s' lf', checkExit s tmax inf lf f = .ret s' lf' ∧ s'.status = c ∧
      s'.stepsDone = s.stepsDone ∧ s'.t = s.t := by
  refine ⟨_, _, checkExit_form s tmax lf inf f hs, ?_, ?_, ?_⟩
  · rw [exitNoParticles_status]
    obtain ⟨e1, e2, e3, e4⟩ := exitTime_fields (if f.errMsg then { s with status := 1 } else s) tmax lf
      (copysign 1 s.dt) inf
    have n1 : (if f.errMsg then ({ s with status := 1 } : Sim K) else s).nOdes = s.nOdes := by
      split_ifs <;> rfl
    have n2 : (if f.errMsg then ({ s with status := 1 } : Sim K) else s).isBS = s.isBS := by
      split_ifs <;> rfl
    rw [e3, e4, n1, n2]
    unfold Flags.checkCode at hc
    by_cases hn : f.n = 0 ∧ (s.nOdes = 0 ∨ s.isBS = false)
    · simp [hn] at hc ⊢; exact hc.symm
    · simp only [hn, if_false] at hc ⊢
      by_cases he : f.errMsg = true
      · simp only [he, if_true] at hc ⊢
        rw [exitTime_of_nonneg _ _ _ _ _ (by simp)]
        simp at hc ⊢; exact hc.symm
      · have he' : f.errMsg = false := by simpa using he
        simp only [he', Bool.false_eq_true, if_false, Option.getD_none] at hc ⊢
        have : 0 ≤ s.status := by omega
        rw [exitTime_of_nonneg _ _ _ _ _ this]
        exact hc.symm
  · rw [(exitNoParticles_fields _ f).1, (exitTime_fields _ _ _ _ _).1]
    split_ifs <;> rfl
  · rw [(exitNoParticles_fields _ f).2.1, (exitTime_fields _ _ _ _ _).2.1]
    split_ifs <;> rfl

/-- a boundary without exit condition: the loop goes on (RUNNING / LAST_STEP) or ends with SUCCESS -/
theorem checkExit_clear (s : Sim K) (tmax lf : K) (inf : Bool) (f : Flags)
    (hs : s.status = -1 ∨ s.status = -2) (he : f.errMsg = false) (hn : f.n ≠ 0) :
    ∃ s' lf', checkExit s tmax inf lf f = .ret s' lf' ∧
      (s'.status = -1 ∨ s'.status = -2 ∨ s'.status = 0) ∧
      s'.stepsDone = s.stepsDone ∧ s'.nOdes = s.nOdes ∧ s'.isBS = s.isBS := by
  have hs' : s.status = -1 ∨ s.status = -2 ∨ 1 ≤ s.status := by omega
  refine ⟨_, _, checkExit_form s tmax lf inf f hs', ?_, ?_, ?_, ?_⟩
  · rw [exitNoParticles_status]
    simp only [hn, false_and, if_false, he, Bool.false_eq_true]
    exact exitTime_status s tmax lf _ inf hs
  · rw [(exitNoParticles_fields _ f).1, (exitTime_fields _ _ _ _ _).1]
    simp [he]
  · rw [(exitNoParticles_fields _ f).2.2.1, (exitTime_fields _ _ _ _ _).2.2.1]
    simp [he]
  · rw [(exitNoParticles_fields _ f).2.2.2, (exitTime_fields _ _ _ _ _).2.2.2]
    simp [he]

/-- boundaries `b … b+k` carry no exit condition, boundary `b+k+1` does (code `c`): the loop returns
    `c` after exactly `k+1` further steps — unless the time logic ended it earlier with SUCCESS -/
theorem loop_first_firing (step : StepFn K) (env : Nat → Flags) (tmax : K) (inf : Bool) (c : Int) :
    ∀ (k b : Nat) (s : Sim K) (lf : K), (s.status = -1 ∨ s.status = -2) →
      (∀ j, j ≤ k → (env (b + j)).errMsg = false ∧ (env (b + j)).n ≠ 0) →
      (∀ j, 1 ≤ j → j ≤ k → (env (b + j)).stepCode = none) →
      c = ((env (b + k + 1)).checkCode s.nOdes s.isBS).getD (((env (b + k + 1)).stepCode).getD (-1)) →
      1 ≤ c →
      ∀ fuel, k + 2 ≤ fuel → ∃ s' lf', loop step env tmax inf fuel b s lf = (.done s', lf') ∧
        ((s'.stepsDone = s.stepsDone + (k + 1) ∧ s'.status = c) ∨
         (s'.stepsDone ≤ s.stepsDone + k ∧ s'.status = 0)) := by
  intro k
  induction k with
  | zero =>
    intro b s lf hs hclr hstep hc h1 fuel hfuel
    obtain ⟨f, rfl⟩ : ∃ f, fuel = f + 2 := ⟨fuel - 2, by omega⟩
    obtain ⟨s1, lf1, hce, hst1, hsd1, hno1, hbs1⟩ :=
      checkExit_clear s tmax lf inf (env b) hs (by simpa using (hclr 0 (by omega)).1)
        (by simpa using (hclr 0 (by omega)).2)
    rcases hst1 with hneg | hneg | hzero
    on_goal 3 =>
      refine ⟨s1, lf1, loop_of_ret_done step env tmax inf (f + 1) b s s1 lf lf1 hce (by omega), Or.inr ⟨by omega, hzero⟩⟩
    all_goals
      rw [loop_of_ret_neg step env tmax inf (f + 1) b s s1 lf lf1 hce (by omega)]
      obtain ⟨g1, g2, g3, g4⟩ := stepAndBeat_fields step b s1 (env (b + 1))
      have gst := stepAndBeat_status step b s1 (env (b + 1))
      have hs2 : (stepAndBeat step b s1 (env (b + 1))).status = -1 ∨
          (stepAndBeat step b s1 (env (b + 1))).status = -2 ∨
          1 ≤ (stepAndBeat step b s1 (env (b + 1))).status := by
        rw [gst]
        cases hsc : (env (b + 1)).stepCode with
        | none => simp; omega
        | some x => simp; right; right; exact stepCode_pos _ _ hsc
      have hc2 : c = ((env (b + 1)).checkCode (stepAndBeat step b s1 (env (b + 1))).nOdes
          (stepAndBeat step b s1 (env (b + 1))).isBS).getD (stepAndBeat step b s1 (env (b + 1))).status := by
        rw [g2, g3, hno1, hbs1, gst]
        simp only [Nat.add_zero] at hc
        cases hsc : (env (b + 1)).stepCode with
        | some x => rw [hsc] at hc; simpa using hc
        | none =>
          rw [hsc] at hc
          cases hcc : (env (b + 1)).checkCode s.nOdes s.isBS with
          | some y => rw [hcc] at hc; simpa using hc
          | none => rw [hcc] at hc; simp at hc; omega
      obtain ⟨s', lf', hce2, hst2, hsd2, _⟩ :=
        checkExit_fires (stepAndBeat step b s1 (env (b + 1))) tmax lf1 inf (env (b + 1)) c hs2 hc2 h1
      refine ⟨s', lf', loop_of_ret_done step env tmax inf f (b + 1) _ s' lf1 lf' hce2 (by omega), Or.inl ⟨by omega, hst2⟩⟩
  | succ k ih =>
    intro b s lf hs hclr hstep hc h1 fuel hfuel
    obtain ⟨f, rfl⟩ : ∃ f, fuel = f + 1 := ⟨fuel - 1, by omega⟩
    obtain ⟨s1, lf1, hce, hst1, hsd1, hno1, hbs1⟩ :=
      checkExit_clear s tmax lf inf (env b) hs (by simpa using (hclr 0 (by omega)).1)
        (by simpa using (hclr 0 (by omega)).2)
    have hnone : (env (b + 1)).stepCode = none := hstep 1 (by omega) (by omega)
    have gst := stepAndBeat_status step b s1 (env (b + 1))
    rw [hnone] at gst
    simp only [Option.getD_none] at gst
    obtain ⟨g1, g2, g3, g4⟩ := stepAndBeat_fields step b s1 (env (b + 1))
    have hrec : ∀ (hneg : s1.status = -1 ∨ s1.status = -2),
        ∃ s' lf', loop step env tmax inf f (b + 1) (stepAndBeat step b s1 (env (b + 1))) lf1 = (.done s', lf') ∧
        ((s'.stepsDone = (stepAndBeat step b s1 (env (b + 1))).stepsDone + (k + 1) ∧ s'.status = c) ∨
         (s'.stepsDone ≤ (stepAndBeat step b s1 (env (b + 1))).stepsDone + k ∧ s'.status = 0)) := by
      intro hneg
      apply ih (b + 1) (stepAndBeat step b s1 (env (b + 1))) lf1 (by rw [gst]; exact hneg)
      · intro j hj
        have e : b + 1 + j = b + (j + 1) := by omega
        rw [e]; exact hclr (j + 1) (by omega)
      · intro j hj1 hj
        have e : b + 1 + j = b + (j + 1) := by omega
        rw [e]; exact hstep (j + 1) (by omega) (by omega)
      · have e : b + 1 + k + 1 = b + (k + 1) + 1 := by omega
        rw [e, g2, g3, hno1, hbs1]; exact hc
      · exact h1
      · omega
    by_cases hzero : s1.status = 0
    · exact ⟨s1, lf1, loop_of_ret_done step env tmax inf f b s s1 lf lf1 hce (by rw [hzero]; norm_num), Or.inr ⟨by rw [hsd1]; omega, hzero⟩⟩
    · have hneg : s1.status = -1 ∨ s1.status = -2 := by
        rcases hst1 with h | h | h
        · exact Or.inl h
        · exact Or.inr h
        · exact absurd h hzero
      have hlt : s1.status < 0 := by rcases hneg with h | h <;> rw [h] <;> norm_num
      rw [loop_of_ret_neg step env tmax inf f b s s1 lf lf1 hce hlt]
      obtain ⟨s', lf', hl, hres⟩ := hrec hneg
      refine ⟨s', lf', hl, ?_⟩
      rcases hres with ⟨h, h'⟩ | ⟨h, h'⟩
      · left; exact ⟨by omega, h'⟩
      · right; exact ⟨by omega, h'⟩

/-- the exit code of a boundary in the evaluation order of the C code:
    NO_PARTICLES > GENERIC_ERROR > SIGINT > ENCOUNTER > ESCAPE > USER > COLLISION; `none` = go on -/
def Flags.exitCode (f : Flags) (nOdes : Nat) (isBS : Bool) : Option Int :=
  match f.checkCode nOdes isBS with
  | some c => some c
  | none => f.stepCode

theorem exitCode_some (f : Flags) (nOdes : Nat) (isBS : Bool) (c : Int)
    (h : f.exitCode nOdes isBS = some c) :
    c = (f.checkCode nOdes isBS).getD (f.stepCode.getD (-1)) ∧ 1 ≤ c := by
  unfold Flags.exitCode at h
  cases hcc : f.checkCode nOdes isBS with
  | some y =>
    rw [hcc] at h; simp at h; subst h
    refine ⟨by simp, ?_⟩
    unfold Flags.checkCode at hcc
    split_ifs at hcc <;> simp at hcc <;> omega
  | none =>
    rw [hcc] at h; simp at h
    rw [h]; exact ⟨by simp, stepCode_pos f c h⟩

/-- the first heartbeat (before any step) only evaluates user / escape / encounter -/
def Flags.first (f : Flags) : Flags := { f with collision := false, sigint := false, stepError := false }

theorem start_status (s : Sim K) (tmax : K) (f0 : Flags) (hst : s.status ≠ -3 ∧ s.status ≠ -4) :
    (start s tmax f0).1.status = f0.first.stepCode.getD (-1) ∧
    (start s tmax f0).1.stepsDone = s.stepsDone ∧ (start s tmax f0).1.nOdes = s.nOdes ∧
    (start s tmax f0).1.isBS = s.isBS ∧ (start s tmax f0).1.t = s.t := by
  unfold start runHeartbeat Flags.first Flags.stepCode
  rcases f0 with ⟨c, u, e, n, sg, em, nn, se⟩
  simp only [Status.code, hst.1, hst.2, ne_eq, not_false_eq_true, and_self, if_true]
  cases u <;> cases e <;> cases n <;> simp <;> split_ifs <;> simp

theorem finish_fields (s : Sim K) (lf : K) :
    (finish s lf).status = s.status ∧ (finish s lf).stepsDone = s.stepsDone ∧ (finish s lf).t = s.t := by
  unfold finish
  simp only []
  split_ifs <;> simp

end RV.Integrate
