import RV.Model.Shard
import RV.Model.Advertised
import RV.Gen.C01Janus
/- C01 / JANUS order 10 on all A/B words, shard 3 of 8: the 255 words of length 3..10 that start with the prefix below, and
   the prefix's own prefixes -/
namespace RV.C01.Janus
open RV.C01 RV.C01.Gen RV.C01.Adv
theorem words_10_shard3 : ∀ s ∈ janusStep.lookup 10, WordOrderOn s (List.replicate 11 10) [false, true, true] 0 tolJanus := by decide +kernel
end RV.C01.Janus
