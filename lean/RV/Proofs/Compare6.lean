import RV.Proofs.Compare5
/-
  Decidable version of the side conditions `FixOK` (evaluated on the generated table by `decide +kernel`).
-/
set_option linter.unusedVariables false
set_option linter.unusedSimpArgs false
namespace RV.Persist

def fixRowOK (psz : Nat) (sp : Special) (specs : List CmpSpec) (tbl : List Desc) (pl : ElemLayout) (pSim : Nat)
    (d : Desc) : Bool :=
  match simpleSize psz d.dtype with
  | some _ => d.mem != sp.nAllocMem && d.mem != sp.recalcMem
  | none =>
    match d.dtype with
    | .pointer | .pointerAligned =>
      d.nMem != sp.nAllocMem && d.nMem != sp.recalcMem &&
      (d.mem != sp.particlesMem ||
        (match d.cmp with
         | 0 => false
         | k + 1 =>
           match specs[k]? with
           | some c => c.size == pl.size && decide (0 < c.size) && specClear c (ptrSlots pl) &&
                        specClear c [(pSim, 8)] && decide (descForType tbl d.id = some d)
           | none => false))
    | .pointerFixed => d.mem != sp.particlesMem && d.mem != sp.varCfgMem
    | .dp7 =>
      d.nMem != sp.nAllocMem && d.nMem != sp.recalcMem &&
      !(decide (d.mem ≤ sp.particlesMem) && decide (sp.particlesMem < d.mem + 7)) &&
      !(decide (d.mem ≤ sp.varCfgMem) && decide (sp.varCfgMem < d.mem + 7))
    | _ => true

def fixOKb (psz : Nat) (sp : Special) (specs : List CmpSpec) (tbl : List Desc) (pl : ElemLayout) (pSim : Nat) : Bool :=
  sp.particlesMem != sp.varCfgMem && (live tbl).all (fixRowOK psz sp specs tbl pl pSim)

theorem fixOK_of_b (psz : Nat) (sp : Special) (specs : List CmpSpec) (tbl : List Desc) (pl : ElemLayout) (pSim : Nat)
    (h : fixOKb psz sp specs tbl pl pSim = true) : FixOK psz sp specs tbl pl pSim := by
  unfold fixOKb at h
  simp only [Bool.and_eq_true, List.all_eq_true] at h
  obtain ⟨hpv, hall⟩ := h
  refine ⟨by simpa using hpv, ?_, ?_, ?_, ?_⟩
  · intro d hd sz hs
    have := hall d hd
    unfold fixRowOK at this
    simp only [hs] at this
    simpa using this
  · intro d hd hdt
    have := hall d hd
    unfold fixRowOK at this
    rcases hdt with hdt | hdt
    all_goals (
      simp only [hdt, simpleSize, Bool.and_eq_true, Bool.or_eq_true] at this
      obtain ⟨⟨hA, hC⟩, hP⟩ := this
      refine ⟨by simpa using hA, by simpa using hC, ?_⟩
      intro hmem
      rcases hP with hP | hP
      · simp [hmem] at hP
      · cases hc : d.cmp with
        | zero => simp [hc] at hP
        | succ k =>
          simp only [hc] at hP
          cases hsp : specs[k]? with
          | none => simp [hsp] at hP
          | some c =>
            simp only [hsp, Bool.and_eq_true, decide_eq_true_eq, beq_iff_eq] at hP
            obtain ⟨⟨⟨⟨h1, h2⟩, h3⟩, h4⟩, h5⟩ := hP
            exact ⟨k, c, rfl, hsp, h1, h2, h3, h4, h5⟩)
  · intro d hd hdt
    have := hall d hd
    unfold fixRowOK at this
    simp only [hdt, simpleSize, Bool.and_eq_true] at this
    exact ⟨by simpa using this.1, by simpa using this.2⟩
  · intro d hd hdt
    have := hall d hd
    unfold fixRowOK at this
    simp only [hdt, simpleSize, Bool.and_eq_true, Bool.not_eq_true', Bool.and_eq_false_iff, decide_eq_false_iff_not] at this
    obtain ⟨⟨⟨hA, hC⟩, hP⟩, hV⟩ := this
    refine ⟨by simpa using hA, by simpa using hC, ?_, ?_⟩
    · intro ⟨a, b⟩; rcases hP with h | h <;> omega
    · intro ⟨a, b⟩; rcases hV with h | h <;> omega

end RV.Persist
