import RV.Proofs.Persist
/-
  Round trip of the field-level codec, for every table:  reading back what the writer emitted for
  row `d` sets exactly the locations of `d` to the source's values (`writeS`).
-/
set_option linter.unusedVariables false
set_option linter.unusedSimpArgs false
set_option linter.unusedSectionVars false
namespace RV.Persist

variable {psz : Nat} {sp : Special} {tbl : List Desc}

theorem applyField_simple (cur : Sim) (w : List Warning) (f : Field) (d : Desc) (sz : Nat)
    (hl : lookup tbl f.1 = some d) (hs : simpleSize psz d.dtype = some sz) :
    applyField psz sp tbl (cur, w) f = (cur.setMem d.mem f.2, w) := by
  simp [applyField, hl, hs]

theorem applyField_pointer (cur : Sim) (w : List Warning) (f : Field) (d : Desc)
    (hl : lookup tbl f.1 = some d) (hd : d.dtype = .pointer ∨ d.dtype = .pointerAligned) :
    applyField psz sp tbl (cur, w) f =
      ((cur.setHeap d.mem (some f.2)).setMem d.nMem (encLE 4 (countOf f.2.length d.elemSize)),
       if f.2.length % d.elemSize ≠ 0 then w ++ [.inconsistentSize f.1] else w) := by
  rcases hd with h | h <;> simp [applyField, hl, h, simpleSize]

theorem applyField_fixed (cur : Sim) (w : List Warning) (f : Field) (d : Desc)
    (hl : lookup tbl f.1 = some d) (hd : d.dtype = .pointerFixed) :
    applyField psz sp tbl (cur, w) f =
      (cur.setHeap d.mem (some f.2), if f.2.length ≠ d.elemSize then w ++ [.inconsistentSize f.1] else w) := by
  simp [applyField, hl, hd, simpleSize]

theorem applyField_dp7 (cur : Sim) (w : List Warning) (f : Field) (d : Desc)
    (hl : lookup tbl f.1 = some d) (hd : d.dtype = .dp7) :
    applyField psz sp tbl (cur, w) f =
      (let c := f.2.length / 7
       (((((((((cur.setHeap d.mem (some (f.2.take c))).setHeap (d.mem+1) (some ((f.2.drop c).take c))).setHeap
          (d.mem+2) (some ((f.2.drop (2*c)).take c))).setHeap (d.mem+3) (some ((f.2.drop (3*c)).take c))).setHeap
          (d.mem+4) (some ((f.2.drop (4*c)).take c))).setHeap (d.mem+5) (some ((f.2.drop (5*c)).take c))).setHeap
          (d.mem+6) (some ((f.2.drop (6*c)).take c))).setMem d.nMem (encLE 4 (countOf f.2.length d.elemSize))),
         if f.2.length % d.elemSize ≠ 0 then w ++ [.inconsistentSize f.1] else w)) := by
  simp [applyField, hl, hd, simpleSize]

theorem countOf_mul (c e : Nat) (he : e ≠ 0) (hlt : c * e < 4294967296) : countOf (c * e) e = c := by
  unfold countOf
  rw [Nat.mod_eq_of_lt hlt]
  exact Nat.mul_div_cancel c (Nat.pos_of_ne_zero he)

theorem counter_back (s : Sim) (d : Desc) (h4 : (s.mem d.nMem).length = 4) :
    encLE 4 (counter s d) = s.mem d.nMem := by
  unfold counter
  rw [take_length_self _ 4 h4]
  exact encLE4_leNat _ h4

theorem heapBytes_some (s : Sim) (m : Nat) (b : Bytes) (h : s.heap m = some b) : heapBytes s m = b := by
  simp [heapBytes, h]

/-- the payload of a REB_DP7 field: seven chunks of length `c` -/
theorem dp7Payload_eq (s : Sim) (m c : Nat) (b : Nat → Bytes)
    (h : ∀ k, k < 7 → s.heap (m + k) = some (b k) ∧ (b k).length = c) :
    dp7Payload s m c = b 0 ++ (b 1 ++ (b 2 ++ (b 3 ++ (b 4 ++ (b 5 ++ b 6))))) := by
  unfold dp7Payload
  have e0 := h 0 (by omega); have e1 := h 1 (by omega); have e2 := h 2 (by omega)
  have e3 := h 3 (by omega); have e4 := h 4 (by omega); have e5 := h 5 (by omega); have e6 := h 6 (by omega)
  simp only [Nat.add_zero] at e0
  rw [heapBytes_some s m _ e0.1, heapBytes_some s _ _ e1.1, heapBytes_some s _ _ e2.1, heapBytes_some s _ _ e3.1,
    heapBytes_some s _ _ e4.1, heapBytes_some s _ _ e5.1, heapBytes_some s _ _ e6.1]
  rw [take_length_self _ c e0.2, take_length_self _ c e1.2, take_length_self _ c e2.2, take_length_self _ c e3.2,
    take_length_self _ c e4.2, take_length_self _ c e5.2, take_length_self _ c e6.2]
  simp [List.append_assoc]

/-- reading the seven chunks back -/
theorem dp7_chunks (c : Nat) (b : Nat → Bytes) (h : ∀ k, k < 7 → (b k).length = c) :
    let p := b 0 ++ (b 1 ++ (b 2 ++ (b 3 ++ (b 4 ++ (b 5 ++ b 6)))))
    p.length = 7 * c ∧ p.take c = b 0 ∧ (p.drop c).take c = b 1 ∧ (p.drop (2*c)).take c = b 2 ∧
    (p.drop (3*c)).take c = b 3 ∧ (p.drop (4*c)).take c = b 4 ∧ (p.drop (5*c)).take c = b 5 ∧
    (p.drop (6*c)).take c = b 6 := by
  intro p
  have l0 := h 0 (by omega); have l1 := h 1 (by omega); have l2 := h 2 (by omega)
  have l3 := h 3 (by omega); have l4 := h 4 (by omega); have l5 := h 5 (by omega); have l6 := h 6 (by omega)
  have d1 : p.drop c = b 1 ++ (b 2 ++ (b 3 ++ (b 4 ++ (b 5 ++ b 6)))) := by
    have := chunkS c 0 (b 0) (b 1 ++ (b 2 ++ (b 3 ++ (b 4 ++ (b 5 ++ b 6))))) l0
    simpa using this
  have d2 : p.drop (2*c) = b 2 ++ (b 3 ++ (b 4 ++ (b 5 ++ b 6))) := by
    have := chunkS c 1 (b 0) (b 1 ++ (b 2 ++ (b 3 ++ (b 4 ++ (b 5 ++ b 6))))) l0
    rw [show (1 + 1) * c = 2 * c by omega] at this
    rw [show p.drop (2*c) = _ from this]
    have := chunkS c 0 (b 1) (b 2 ++ (b 3 ++ (b 4 ++ (b 5 ++ b 6)))) l1
    simpa using this
  have d3 : p.drop (3*c) = b 3 ++ (b 4 ++ (b 5 ++ b 6)) := by
    have := chunkS c 2 (b 0) (b 1 ++ (b 2 ++ (b 3 ++ (b 4 ++ (b 5 ++ b 6))))) l0
    rw [show (2 + 1) * c = 3 * c by omega] at this
    rw [show p.drop (3*c) = _ from this]
    have := chunkS c 1 (b 1) (b 2 ++ (b 3 ++ (b 4 ++ (b 5 ++ b 6)))) l1
    rw [show (1 + 1) * c = 2 * c by omega] at this
    rw [this]
    have := chunkS c 0 (b 2) (b 3 ++ (b 4 ++ (b 5 ++ b 6))) l2
    simpa using this
  have d4 : p.drop (4*c) = b 4 ++ (b 5 ++ b 6) := by
    have := chunkS c 3 (b 0) (b 1 ++ (b 2 ++ (b 3 ++ (b 4 ++ (b 5 ++ b 6))))) l0
    rw [show (3 + 1) * c = 4 * c by omega] at this
    rw [show p.drop (4*c) = _ from this]
    have := chunkS c 2 (b 1) (b 2 ++ (b 3 ++ (b 4 ++ (b 5 ++ b 6)))) l1
    rw [show (2 + 1) * c = 3 * c by omega] at this
    rw [this]
    have := chunkS c 1 (b 2) (b 3 ++ (b 4 ++ (b 5 ++ b 6))) l2
    rw [show (1 + 1) * c = 2 * c by omega] at this
    rw [this]
    have := chunkS c 0 (b 3) (b 4 ++ (b 5 ++ b 6)) l3
    simpa using this
  have d5 : p.drop (5*c) = b 5 ++ b 6 := by
    have := chunkS c 4 (b 0) (b 1 ++ (b 2 ++ (b 3 ++ (b 4 ++ (b 5 ++ b 6))))) l0
    rw [show (4 + 1) * c = 5 * c by omega] at this
    rw [show p.drop (5*c) = _ from this]
    have := chunkS c 3 (b 1) (b 2 ++ (b 3 ++ (b 4 ++ (b 5 ++ b 6)))) l1
    rw [show (3 + 1) * c = 4 * c by omega] at this
    rw [this]
    have := chunkS c 2 (b 2) (b 3 ++ (b 4 ++ (b 5 ++ b 6))) l2
    rw [show (2 + 1) * c = 3 * c by omega] at this
    rw [this]
    have := chunkS c 1 (b 3) (b 4 ++ (b 5 ++ b 6)) l3
    rw [show (1 + 1) * c = 2 * c by omega] at this
    rw [this]
    have := chunkS c 0 (b 4) (b 5 ++ b 6) l4
    simpa using this
  have d6 : p.drop (6*c) = b 6 := by
    have := chunkS c 5 (b 0) (b 1 ++ (b 2 ++ (b 3 ++ (b 4 ++ (b 5 ++ b 6))))) l0
    rw [show (5 + 1) * c = 6 * c by omega] at this
    rw [show p.drop (6*c) = _ from this]
    have := chunkS c 4 (b 1) (b 2 ++ (b 3 ++ (b 4 ++ (b 5 ++ b 6)))) l1
    rw [show (4 + 1) * c = 5 * c by omega] at this
    rw [this]
    have := chunkS c 3 (b 2) (b 3 ++ (b 4 ++ (b 5 ++ b 6))) l2
    rw [show (3 + 1) * c = 4 * c by omega] at this
    rw [this]
    have := chunkS c 2 (b 3) (b 4 ++ (b 5 ++ b 6)) l3
    rw [show (2 + 1) * c = 3 * c by omega] at this
    rw [this]
    have := chunkS c 1 (b 4) (b 5 ++ b 6) l4
    rw [show (1 + 1) * c = 2 * c by omega] at this
    rw [this]
    have := chunkS c 0 (b 5) (b 6) l5
    simpa using this
  refine ⟨?_, chunk0 c _ _ l0, ?_, ?_, ?_, ?_, ?_, ?_⟩
  · simp only [p, List.length_append, l0, l1, l2, l3, l4, l5, l6]; omega
  · rw [d1]; exact chunk0 c _ _ l1
  · rw [d2]; exact chunk0 c _ _ l2
  · rw [d3]; exact chunk0 c _ _ l3
  · rw [d4]; exact chunk0 c _ _ l4
  · rw [d5]; exact chunk0 c _ _ l5
  · rw [d6]; exact take_length_self _ c l6

end RV.Persist
