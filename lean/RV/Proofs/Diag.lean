import RV.Proofs.GravityLaws
import RV.Model.Diag
/-
  Helper lemmas for RV/Props/C04.lean: accessor functions on particle arrays, the
  defining sums (momentum, angular momentum, mass-weighted position), how the LEAPFROG
  primitives act on them, and loop-to-sum lemmas for the diagnostics.
-/
set_option linter.unusedTactic false
set_option linter.unreachableTactic false
set_option linter.unnecessarySeqFocus false
set_option linter.unusedVariables false
set_option linter.unusedSimpArgs false
set_option linter.unusedSectionVars false
namespace RV.Diag
open RV RV.Gravity
variable {K : Type} [Field K]

/-- mass / position / velocity of particle `i` (zero outside the array) -/
def mOf (ps : Array (Part K)) (i : Nat) : K := (ps[i]?.map (·.m)).getD 0
def xOf (ps : Array (Part K)) (i : Nat) : V3 K := (ps[i]?.map (·.x)).getD 0
def vOf (ps : Array (Part K)) (i : Nat) : V3 K := (ps[i]?.map (·.v)).getD 0

/-- the defining sums -/
def mass (ps : Array (Part K)) : K := ∑ i ∈ Finset.range ps.size, mOf ps i
def momentum (ps : Array (Part K)) : V3 K := ∑ i ∈ Finset.range ps.size, mOf ps i • vOf ps i
def angmom (ps : Array (Part K)) : V3 K :=
  ∑ i ∈ Finset.range ps.size, mOf ps i • V3.cross (xOf ps i) (vOf ps i)
def mxsum (ps : Array (Part K)) : V3 K := ∑ i ∈ Finset.range ps.size, mOf ps i • xOf ps i

theorem V3.cross_self (a : V3 K) : V3.cross a a = 0 := by ext <;> simp <;> ring
theorem V3.add_cross (a b c : V3 K) : V3.cross (a + b) c = V3.cross a c + V3.cross b c := by
  ext <;> simp <;> ring
theorem V3.smul_cross (s : K) (a b : V3 K) : V3.cross (s • a) b = s • V3.cross a b := by
  ext <;> simp <;> ring

/-! ### folds that add -/

theorem foldl_add {M : Type} [AddCommMonoid M] (l : List Nat) (g : M → Nat → M) (f : Nat → M)
    (h : ∀ L i, i ∈ l → g L i = L + f i) (L : M) : l.foldl g L = L + (l.map f).sum := by
  induction l generalizing L with
  | nil => simp
  | cons a r ih =>
    simp only [List.foldl_cons, List.map_cons, List.sum_cons]
    rw [ih (fun L i hi => h L i (List.mem_cons_of_mem _ hi)), h L a List.mem_cons_self, add_assoc]

theorem forRange_add {M : Type} [AddCommMonoid M] (a b : Nat) (g : M → Nat → M) (f : Nat → M)
    (h : ∀ L i, a ≤ i → i < b → g L i = L + f i) (L : M) :
    forRange a b L g = L + ∑ i ∈ Finset.Ico a b, f i := by
  have := foldl_add (List.range' a (b - a)) g f (by
    intro L i hi
    have := List.mem_range'_1.mp hi
    exact h L i this.1 (by omega)) L
  exact this

/-! ### the (m, x) view read by gravity -/

theorem bodies_eq (ps : Array (Part K)) : bodies ps = mkPs ps.size (mOf ps) (xOf ps) := by
  apply Array.ext
  · simp [bodies]
  · intro i h1 h2
    have h : i < ps.size := by simpa [bodies] using h1
    simp [bodies, mkPs, mOf, xOf, h]

/-! ### LEAPFROG primitives -/

theorem lfDrift_size (dt : K) (ps : Array (Part K)) : (lfDrift dt ps).size = ps.size := by
  simp [lfDrift]

theorem lfDrift_m (dt : K) (ps : Array (Part K)) (i : Nat) : mOf (lfDrift dt ps) i = mOf ps i := by
  simp only [mOf, lfDrift, Array.getElem?_map]; cases ps[i]? <;> simp
theorem lfDrift_v (dt : K) (ps : Array (Part K)) (i : Nat) : vOf (lfDrift dt ps) i = vOf ps i := by
  simp only [vOf, lfDrift, Array.getElem?_map]; cases ps[i]? <;> simp
theorem lfDrift_x (dt : K) (ps : Array (Part K)) (i : Nat) :
    xOf (lfDrift dt ps) i = xOf ps i + ((1 / 2 : K) * dt) • vOf ps i := by
  simp only [xOf, vOf, lfDrift, Array.getElem?_map]
  cases ps[i]? with
  | none => simp
  | some p => simp [half]; ext <;> simp

theorem lfKickDrift_size (dt : K) (ps : Array (Part K)) (acc : Acc K) (h : acc.size = ps.size) :
    (lfKickDrift dt ps acc).size = ps.size := by
  simp [lfKickDrift, h]

/-- acceleration stored in slot `i` (zero outside) -/
def aOf (acc : Acc K) (i : Nat) : V3 K := (acc[i]?).getD 0

theorem lfKickDrift_get (dt : K) (ps : Array (Part K)) (acc : Acc K) (h : acc.size = ps.size) (i : Nat) :
    mOf (lfKickDrift dt ps acc) i = mOf ps i ∧
    vOf (lfKickDrift dt ps acc) i = vOf ps i + dt • aOf acc i ∧
    xOf (lfKickDrift dt ps acc) i = xOf ps i + ((1 / 2 : K) * dt) • (vOf ps i + dt • aOf acc i) := by
  by_cases hi : i < ps.size
  · have hi' : i < acc.size := by omega
    simp only [mOf, vOf, xOf, aOf, lfKickDrift, Array.getElem?_zipWith, Array.getElem?_eq_getElem hi,
      Array.getElem?_eq_getElem hi']
    refine ⟨?_, ?_, ?_⟩
    · simp
    · simp; ext <;> simp
    · simp [half]; ext <;> simp
  · have hi' : ¬ i < acc.size := by omega
    have h1 : ps[i]? = none := by simp; omega
    have h2 : acc[i]? = none := by simp; omega
    simp [mOf, vOf, xOf, aOf, lfKickDrift, Array.getElem?_zipWith, h1, h2]

/-! ### effect on the defining sums -/

theorem momentum_drift (dt : K) (ps : Array (Part K)) : momentum (lfDrift dt ps) = momentum ps := by
  simp only [momentum, lfDrift_size, lfDrift_m, lfDrift_v]

theorem angmom_drift (dt : K) (ps : Array (Part K)) : angmom (lfDrift dt ps) = angmom ps := by
  simp only [angmom, lfDrift_size, lfDrift_m, lfDrift_v, lfDrift_x]
  apply Finset.sum_congr rfl
  intro i _
  rw [V3.add_cross, V3.smul_cross, V3.cross_self]; simp

theorem mxsum_drift (dt : K) (ps : Array (Part K)) :
    mxsum (lfDrift dt ps) = mxsum ps + ((1 / 2 : K) * dt) • momentum ps := by
  simp only [mxsum, momentum, lfDrift_size, lfDrift_m, lfDrift_x, smul_add, Finset.sum_add_distrib,
    Finset.smul_sum]
  congr 1
  apply Finset.sum_congr rfl
  intro i _
  rw [smul_comm]

theorem mass_drift (dt : K) (ps : Array (Part K)) : mass (lfDrift dt ps) = mass ps := by
  simp only [mass, lfDrift_size, lfDrift_m]

theorem momentum_kick (dt : K) (ps : Array (Part K)) (acc : Acc K) (h : acc.size = ps.size) :
    momentum (lfKickDrift dt ps acc)
      = momentum ps + dt • ∑ i ∈ Finset.range ps.size, mOf ps i • aOf acc i := by
  simp only [momentum, lfKickDrift_size dt ps acc h]
  rw [Finset.smul_sum, ← Finset.sum_add_distrib]
  apply Finset.sum_congr rfl
  intro i _
  obtain ⟨e1, e2, _⟩ := lfKickDrift_get dt ps acc h i
  rw [e1, e2, smul_add, smul_comm]

theorem angmom_kick (dt : K) (ps : Array (Part K)) (acc : Acc K) (h : acc.size = ps.size) :
    angmom (lfKickDrift dt ps acc)
      = angmom ps + dt • ∑ i ∈ Finset.range ps.size, mOf ps i • V3.cross (xOf ps i) (aOf acc i) := by
  simp only [angmom, lfKickDrift_size dt ps acc h]
  rw [Finset.smul_sum, ← Finset.sum_add_distrib]
  apply Finset.sum_congr rfl
  intro i _
  obtain ⟨e1, e2, e3⟩ := lfKickDrift_get dt ps acc h i
  rw [e1, e2, e3, V3.add_cross, V3.smul_cross, V3.cross_self, smul_zero, add_zero, V3.cross_add,
    V3.cross_smul, smul_add, smul_comm]

theorem mxsum_kick (dt : K) (ps : Array (Part K)) (acc : Acc K) (h : acc.size = ps.size) :
    mxsum (lfKickDrift dt ps acc)
      = mxsum ps + ((1 / 2 : K) * dt) • momentum (lfKickDrift dt ps acc) := by
  simp only [mxsum, momentum, lfKickDrift_size dt ps acc h]
  rw [Finset.smul_sum, ← Finset.sum_add_distrib]
  apply Finset.sum_congr rfl
  intro i _
  obtain ⟨e1, e2, e3⟩ := lfKickDrift_get dt ps acc h i
  rw [e1, e2, e3, smul_add, smul_comm (mOf ps i)]

theorem mass_kick (dt : K) (ps : Array (Part K)) (acc : Acc K) (h : acc.size = ps.size) :
    mass (lfKickDrift dt ps acc) = mass ps := by
  simp only [mass, lfKickDrift_size dt ps acc h]
  apply Finset.sum_congr rfl
  intro i _
  exact (lfKickDrift_get dt ps acc h i).1

/-- size of what BASIC returns -/
theorem accBasic_size (pref : K → Nat → Nat → K) (cfg : Cfg K) (ghosts : List (V3 K))
    (ps : Array (Body K)) : (accBasic pref cfg ghosts ps).size = ps.size := by
  unfold accBasic
  have hstep : ∀ (acc : Acc K) (i : Nat) (f : K) (d : V3 K), (addTo acc i f d).size = acc.size := by
    intro acc i f d; simp [addTo]
  have hpair : ∀ soft2 gb both (acc : Acc K) i j, (pairStep pref soft2 ps gb both acc i j).size = acc.size := by
    intro soft2 gb both acc i j
    unfold pairStep
    cases ps[i]? <;> cases ps[j]? <;> simp
    cases both <;> simp [hstep]
  have hfold : ∀ (l : List Nat) (g : Acc K → Nat → Acc K), (∀ acc i, (g acc i).size = acc.size) →
      ∀ acc, (l.foldl g acc).size = acc.size := by
    intro l g hg
    induction l with
    | nil => intro acc; rfl
    | cons a r ih => intro acc; simp only [List.foldl_cons]; rw [ih, hg]
  have hbox : ∀ (acc : Acc K) gb, (basicBox pref cfg ps acc gb).size = acc.size := by
    intro acc gb
    unfold basicBox forRange
    simp only
    rw [hfold, hfold]
    · intro acc i; rw [hfold]; intro acc j; exact hpair _ _ _ _ _ _
    · intro acc i; rw [hfold]; intro acc j; exact hpair _ _ _ _ _ _
  have : ∀ (l : List (V3 K)) (acc : Acc K), (l.foldl (basicBox pref cfg ps) acc).size = acc.size := by
    intro l
    induction l with
    | nil => intro acc; rfl
    | cons a r ih => intro acc; simp only [List.foldl_cons]; rw [ih, hbox]
  rw [this]; simp

end RV.Diag
