import RV.Proofs.Tree
set_option linter.unusedSectionVars false
set_option linter.unusedVariables false
set_option linter.unusedSimpArgs false
namespace RV.C15
open RV RV.Tree

variable {K : Type} [Field K] [LinearOrder K] [IsStrictOrderedRing K]

/-- leaves carry the particle's mass and position (what `updGrav` leaves in every leaf) -/
def LeafData (ps : Nat → Pt K) : T K → Prop
  | .nil => True
  | .leaf _ g q => g.m = (ps q).m ∧ g.mx = (ps q).x ∧ g.my = (ps q).y ∧ g.mz = (ps q).z
  | .node _ _ _ ch => ∀ o, LeafData ps (ch o)

theorem LeafData_of_GravOK (ps : Nat → Pt K) : ∀ t : T K, GravOK ps t → LeafData ps t := by
  intro t
  induction t with
  | nil => intro _; trivial
  | leaf c g q => intro h; exact h
  | node c g n ch ih => intro h; exact fun o => ih o (h.2.2.2.2 o)

theorem foldl_flatMap {α β γ : Type} (f : α → β → α) (g : γ → List β) : ∀ (l : List γ) (a : α),
    (l.flatMap g).foldl f a = l.foldl (fun a o => (g o).foldl f a) a := by
  intro l
  induction l with
  | nil => intro a; rfl
  | cons o l ih => intro a; simp [List.flatMap_cons, List.foldl_append, ih]

/-- with `opening_angle2 = 0` every cell is opened and the accumulated acceleration is the direct pair sum over all other
    particles of the tree, each exactly once, added in tree order -/
theorem accCell_zero (sqrt : K → K) (G soft2 gx gy gz : K) (ps : Nat → Pt K) (pt : Nat) : ∀ (t : T K) (a : Acc K),
    WidthNZ t → LeafData ps t →
    accCell sqrt G soft2 0 gx gy gz pt t a =
      ((leaves t).filter (fun q => q ≠ pt)).foldl (pairForce sqrt G soft2 gx gy gz ps) a := by
  intro t
  induction t with
  | nil => intro a _ _; rfl
  | leaf c g q =>
    intro a _ hl
    obtain ⟨h1, h2, h3, h4⟩ := hl
    by_cases h : q = pt
    · simp [accCell, leaves, h]
    · simp [accCell, leaves, h, pairForce, h1, h2, h3, h4]
  | node c g n ch ih =>
    intro a hw hl
    obtain ⟨hw0, hwch⟩ := hw
    have hpos : (0 : K) < c.w * c.w := mul_self_pos.mpr hw0
    simp only [accCell, sc_hmul, zero_mul, so_lt, hpos, if_true, leaves]
    rw [List.filter_flatMap, foldl_flatMap]
    have : ∀ (l : List (Fin 8)) (a : Acc K),
        l.foldl (fun a o => accCell sqrt G soft2 0 gx gy gz pt (ch o) a) a =
        l.foldl (fun a o => ((leaves (ch o)).filter (fun q => q ≠ pt)).foldl (pairForce sqrt G soft2 gx gy gz ps) a) a := by
      intro l
      induction l with
      | nil => intro a; rfl
      | cons o l ihl => intro a; simp only [List.foldl_cons]; rw [ih o a (hwch o) (hl o)]; exact ihl _
    exact this _ a


theorem LeafData_updGrav (ps : Nat → Pt K) : ∀ t : T K, LeafData ps (updGrav ps t) := by
  intro t
  induction t with
  | nil => trivial
  | leaf c g q => exact ⟨rfl, rfl, rfl, rfl⟩
  | node c g n ch ih => simp only [updGrav, memo_eq, LeafData]; exact ih

/-- all root boxes: tree gravity with opening angle 0 after the gravity-data update = direct sum over every other particle -/
theorem accForest_zero (sqrt : K → K) (G soft2 : K) (ps : Nat → Pt K) (tie : Bool) (rc : Nat → Cell K)
    (forest : List (T K)) (hwf : ∀ r (h : r < forest.length), WF ps tie (rc r) forest[r]) (hw : ∀ r, (rc r).w ≠ 0)
    (p : Pt K) (pt : Nat) :
    accForest sqrt G soft2 0 p pt (forest.map (updGrav ps)) =
      ((forest.flatMap leaves).filter (fun q => q ≠ pt)).foldl (pairForce sqrt G soft2 p.x p.y p.z ps) ⟨0, 0, 0⟩ := by
  unfold accForest
  rw [List.filter_flatMap, foldl_flatMap, List.foldl_map]
  simp only [sc_zero]
  have : ∀ (l : List (T K)) (a : Acc K), (∀ t ∈ l, WidthNZ (updGrav ps t)) →
      l.foldl (fun a t => accCell sqrt G soft2 0 p.x p.y p.z pt (updGrav ps t) a) a =
      l.foldl (fun a t => ((leaves t).filter (fun q => q ≠ pt)).foldl (pairForce sqrt G soft2 p.x p.y p.z ps) a) a := by
    intro l
    induction l with
    | nil => intro a _; rfl
    | cons t l ih =>
      intro a h
      simp only [List.foldl_cons]
      rw [accCell_zero sqrt G soft2 p.x p.y p.z ps pt _ a (h t (by simp)) (LeafData_updGrav ps t), leaves_updGrav]
      exact ih _ (fun t' ht' => h t' (by simp [ht']))
  apply this
  intro t ht
  obtain ⟨r, hr, rfl⟩ := List.getElem_of_mem ht
  exact WidthNZ_of_WF ps tie _ (rc r) (hw r) (WF_updGrav ps tie _ _ (hwf r hr))

end RV.C15
