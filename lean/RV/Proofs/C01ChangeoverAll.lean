import RV.Model.Changeover
import Mathlib.Algebra.Order.Field.Rat
import Mathlib.Tactic.Ring
import Mathlib.Tactic.Linarith
import Mathlib.Tactic.Positivity
import Mathlib.Tactic.FieldSimp
/- C01 / MERCURIUS changeover functions, for ALL d and all dcrit > 0 (over ℚ): plateaus, range, antisymmetry, continuity at the
   joins.  The polynomials are the regularised incomplete beta smooth-steps: p_n(y) = y^{n+1} Σ_k C(n+k,k)(1−y)^k. -/
set_option linter.unusedVariables false
namespace RV.C01.ChangeoverAll
open RV.C01.Changeover

theorem mercury_form (y : Rat) : pMercury y = y^3 * (1 + 3*(1-y) + 6*(1-y)^2) := by unfold pMercury; ring
theorem c4_form (y : Rat) : pC4 y = y^5 * (1 + 5*(1-y) + 15*(1-y)^2 + 35*(1-y)^3 + 70*(1-y)^4) := by unfold pC4; ring
theorem c5_form (y : Rat) : pC5 y = y^6 * (1 + 6*(1-y) + 21*(1-y)^2 + 56*(1-y)^3 + 126*(1-y)^4 + 252*(1-y)^5) := by unfold pC5; ring

theorem mercury_anti (y : Rat) : pMercury y + pMercury (1 - y) = 1 := by unfold pMercury; ring
theorem c4_anti (y : Rat) : pC4 y + pC4 (1 - y) = 1 := by unfold pC4; ring
theorem c5_anti (y : Rat) : pC5 y + pC5 (1 - y) = 1 := by unfold pC5; ring

theorem mercury_nonneg (y : Rat) (h0 : 0 ≤ y) (h1 : y ≤ 1) : 0 ≤ pMercury y := by
  rw [mercury_form]; have : 0 ≤ 1 - y := by linarith
  positivity
theorem c4_nonneg (y : Rat) (h0 : 0 ≤ y) (h1 : y ≤ 1) : 0 ≤ pC4 y := by
  rw [c4_form]; have : 0 ≤ 1 - y := by linarith
  positivity
theorem c5_nonneg (y : Rat) (h0 : 0 ≤ y) (h1 : y ≤ 1) : 0 ≤ pC5 y := by
  rw [c5_form]; have : 0 ≤ 1 - y := by linarith
  positivity

/-- a smooth-step: 0 at 0, 1 at 1, antisymmetric about ½, non-negative on [0,1] -/
structure SmoothStep (p : Rat → Rat) : Prop where
  anti : ∀ y, p y + p (1 - y) = 1
  nonneg : ∀ y, 0 ≤ y → y ≤ 1 → 0 ≤ p y
  zero : p 0 = 0

theorem ss_mercury : SmoothStep pMercury := ⟨mercury_anti, mercury_nonneg, by unfold pMercury; ring⟩
theorem ss_c4 : SmoothStep pC4 := ⟨c4_anti, c4_nonneg, by unfold pC4; ring⟩
theorem ss_c5 : SmoothStep pC5 := ⟨c5_anti, c5_nonneg, by unfold pC5; ring⟩

theorem y_nonneg_iff (d dcrit : Rat) (hc : 0 < dcrit) : yOf d dcrit < 0 ↔ d < dcrit / 10 := by
  unfold yOf
  have h9 : (0 : Rat) < 9 / 10 * dcrit := by positivity
  rw [div_lt_iff₀ h9]; constructor <;> intro h <;> linarith

theorem y_gt_one_iff (d dcrit : Rat) (hc : 0 < dcrit) : 1 < yOf d dcrit ↔ dcrit < d := by
  unfold yOf
  have h9 : (0 : Rat) < 9 / 10 * dcrit := by positivity
  rw [lt_div_iff₀ h9]; constructor <;> intro h <;> linarith

/-- **for every smooth-step polynomial `p`, every d and every dcrit > 0**: the changeover function is 0 for d < dcrit/10, 1 for
    d > dcrit, lies in [0,1] everywhere, is continuous at the two joins (value 0 at d = dcrit/10, 1 at d = dcrit), and
    the two sides mirror each other: L(d) + L(d') = 1 whenever y(d) + y(d') = 1 inside the transition -/
theorem changeover_properties (p : Rat → Rat) (hp : SmoothStep p) (d dcrit : Rat) (hc : 0 < dcrit) :
    (d < dcrit / 10 → changeover p d dcrit = 0) ∧ (dcrit < d → changeover p d dcrit = 1) ∧
    (0 ≤ changeover p d dcrit ∧ changeover p d dcrit ≤ 1) ∧
    changeover p (dcrit / 10) dcrit = 0 ∧ changeover p dcrit dcrit = 1 := by
  have hy0 := y_nonneg_iff d dcrit hc
  have hy1 := y_gt_one_iff d dcrit hc
  refine ⟨?_, ?_, ?_, ?_, ?_⟩
  · intro h; unfold changeover; simp only [hy0.mpr h, if_true]
  · intro h; unfold changeover
    have : ¬ yOf d dcrit < 0 := by have := hy1.mpr h; linarith
    simp only [this, if_false]; simp [hy1.mpr h]
  · unfold changeover
    by_cases h0 : yOf d dcrit < 0
    · simp [h0]
    · by_cases h1 : yOf d dcrit > 1
      · simp [h0, h1]
      · simp only [h0, h1, if_false]
        have a0 : 0 ≤ yOf d dcrit := le_of_not_gt h0
        have a1 : yOf d dcrit ≤ 1 := le_of_not_gt h1
        refine ⟨hp.nonneg _ a0 a1, ?_⟩
        have := hp.anti (yOf d dcrit)
        have := hp.nonneg (1 - yOf d dcrit) (by linarith) (by linarith)
        linarith
  · have hy : yOf (dcrit / 10) dcrit = 0 := by unfold yOf; field_simp; ring
    unfold changeover; simp [hy, hp.zero]
  · have hy : yOf dcrit dcrit = 1 := by unfold yOf; field_simp; ring
    have h1 : p 1 = 1 := by have := hp.anti 0; rw [hp.zero] at this; simpa using this
    unfold changeover; simp [hy, h1]

/-- mirror symmetry of the transition: L(d) + L(d') = 1 when the two distances are placed symmetrically in the transition zone -/
theorem changeover_mirror (p : Rat → Rat) (hp : SmoothStep p) (d d' dcrit : Rat)
    (h0 : 0 ≤ yOf d dcrit) (h1 : yOf d dcrit ≤ 1) (hs : yOf d' dcrit = 1 - yOf d dcrit) :
    changeover p d dcrit + changeover p d' dcrit = 1 := by
  unfold changeover
  have a : ¬ yOf d dcrit < 0 := not_lt.mpr h0
  have b : ¬ yOf d dcrit > 1 := not_lt.mpr h1
  have c : ¬ yOf d' dcrit < 0 := by rw [hs]; exact not_lt.mpr (by linarith)
  have e : ¬ yOf d' dcrit > 1 := by rw [hs]; exact not_lt.mpr (by linarith)
  simp only [a, b, c, e, if_false]; rw [hs]; exact hp.anti _
theorem mercury_mono (a b : Rat) (h0 : 0 ≤ a) (hab : a ≤ b) (h1 : b ≤ 1) : pMercury a ≤ pMercury b := by
  have key : pMercury b - pMercury a = (b - a) * (10*(a^2+a*b+b^2) - 15*(a^3+a^2*b+a*b^2+b^3) + 6*(a^4+a^3*b+a^2*b^2+a*b^3+b^4)) := by
    unfold pMercury; ring
  have hb0 : 0 ≤ b := le_trans h0 hab
  have ha1 : a ≤ 1 := le_trans hab h1
  have hq : 0 ≤ 10*(a^2+a*b+b^2) - 15*(a^3+a^2*b+a*b^2+b^3) + 6*(a^4+a^3*b+a^2*b^2+a*b^3+b^4) := by
    nlinarith [mul_nonneg h0 hb0, mul_nonneg (sub_nonneg.mpr ha1) (sub_nonneg.mpr h1), sq_nonneg (a-b), sq_nonneg (a+b-1), mul_nonneg (mul_nonneg h0 hb0) (mul_nonneg (sub_nonneg.mpr ha1) (sub_nonneg.mpr h1)), sq_nonneg (a*(1-a)), sq_nonneg (b*(1-b)), sq_nonneg (a*(1-a) - b*(1-b)), sq_nonneg (a*(1-a) + b*(1-b))]
  nlinarith [mul_nonneg (sub_nonneg.mpr hab) hq]

theorem y_mono (d d' dcrit : Rat) (hc : 0 < dcrit) (h : d ≤ d') : yOf d dcrit ≤ yOf d' dcrit := by
  unfold yOf
  have h9 : (0 : Rat) < 9 / 10 * dcrit := by positivity
  exact div_le_div_of_nonneg_right (by linarith) (le_of_lt h9)

/-- if the polynomial is monotone on [0,1], the changeover function is monotone in the distance, for every dcrit > 0 -/
theorem changeover_mono (p : Rat → Rat) (hp : SmoothStep p) (hm : ∀ a b, 0 ≤ a → a ≤ b → b ≤ 1 → p a ≤ p b)
    (d d' dcrit : Rat) (hc : 0 < dcrit) (h : d ≤ d') : changeover p d dcrit ≤ changeover p d' dcrit := by
  have hy := y_mono d d' dcrit hc h
  have r' := (changeover_properties p hp d' dcrit hc).2.2.1
  have r := (changeover_properties p hp d dcrit hc).2.2.1
  unfold changeover at *
  by_cases a0 : yOf d dcrit < 0
  · simp only [a0, if_true]; exact r'.1
  · by_cases a1 : yOf d dcrit > 1
    · have b0 : ¬ yOf d' dcrit < 0 := by intro hh; linarith
      have b1 : yOf d' dcrit > 1 := by linarith
      simp [a0, a1, b0, b1]
    · by_cases b1 : yOf d' dcrit > 1
      · have b0 : ¬ yOf d' dcrit < 0 := by intro hh; linarith
        simp only [a0, a1, b0, b1, if_false, if_true]
        simp only [a0, a1, if_false] at r; exact r.2
      · have b0 : ¬ yOf d' dcrit < 0 := by intro hh; exact a0 (by linarith)
        simp only [a0, a1, b0, b1, if_false]
        exact hm _ _ (le_of_not_gt a0) hy (le_of_not_gt b1)

/-- the Mercury changeover function is monotone in the distance -/
theorem mercury_changeover_mono (d d' dcrit : Rat) (hc : 0 < dcrit) (h : d ≤ d') : Lmercury d dcrit ≤ Lmercury d' dcrit :=
  changeover_mono pMercury ss_mercury mercury_mono d d' dcrit hc h
end RV.C01.ChangeoverAll
