import RV.Proofs.WHLink
import RV.Model.WHInt
/-
  The model of `reb_whfast_interaction_step` (Jacobi coordinates) has the shape that
  `InteractionLike` (RV/Proofs/WHSteps.lean) postulates: every Jacobi body gets
      v'_i += dt · ( a'_i + c_i · x'_i ),   a' = declarative Jacobi transform of the inertial accelerations,
  with the radial coefficient `c_i = rji·rj2i·G·η_i` for `i > 1` and `0` for `i = 1`.
-/
set_option linter.unusedTactic false
set_option linter.unreachableTactic false
set_option linter.unusedVariables false
set_option linter.unusedSimpArgs false
set_option linter.unusedSectionVars false
namespace RV.WHInt
open RV RV.Transform RV.WH
variable {K : Type} [Field K]

/-- the radial coefficient the loop uses for the body at list position `k` (index `i+k`) -/
def coef (sqrt : K → K) (G soft : K) (i : Nat) (eta : K) (bodies : List (JB K)) (k : Nat) (b : JB K) : K :=
  if 1 < i + k then
    sqrt (1 / (b.x.x * b.x.x + b.x.y * b.x.y + b.x.z * b.x.z + soft * soft))
      * (1 / (b.x.x * b.x.x + b.x.y * b.x.y + b.x.z * b.x.z + soft * soft)) * G
      * (eta + ((bodies.take (k + 1)).map (·.m)).sum)
  else 0

theorem kickLoop_get (sqrt : K → K) (G soft dt : K) :
    ∀ (bodies : List (JB K)) (accs : List (V3 K)) (i : Nat) (eta : K) (k : Nat) (b : JB K) (a : V3 K),
      bodies[k]? = some b → accs[k]? = some a →
      (kickLoop sqrt G soft dt i eta bodies accs)[k]?
        = some (b.v + dt • (a + coef sqrt G soft i eta bodies k b • b.x)) := by
  intro bodies
  induction bodies with
  | nil => intro accs i eta k b a hb; simp at hb
  | cons b0 r ih =>
    intro accs i eta k b a hb ha
    cases accs with
    | nil => simp at ha
    | cons a0 ra =>
      cases k with
      | zero =>
        simp only [List.getElem?_cons_zero, Option.some.injEq] at hb ha
        subst hb; subst ha
        simp only [kickLoop, List.getElem?_cons_zero, Option.some.injEq, coef, Nat.add_zero, List.take_succ_cons,
          List.take_zero, List.map_cons, List.map_nil, List.sum_cons, List.sum_nil, add_zero, sc_hadd, sc_hmul, sc_hdiv, sc_one]
        by_cases h1 : 1 < i
        · simp only [h1, if_true]; ext <;> simp <;> ring
        · simp only [h1, if_false]; ext <;> simp <;> ring
      | succ k =>
        simp only [List.getElem?_cons_succ] at hb ha
        simp only [kickLoop, List.getElem?_cons_succ, sc_hadd]
        rw [ih ra (i + 1) (eta + b0.m) k b a hb ha]
        congr 3
        simp only [coef, List.take_succ_cons, List.map_cons, List.sum_cons]
        have : i + 1 + k = i + (k + 1) := by omega
        rw [this]
        by_cases h1 : 1 < i + (k + 1)
        · simp only [h1, if_true]; congr 1; ring
        · simp only [h1, if_false]

/-- the Jacobi accelerations the model feeds into the loop are the declarative Jacobi coordinates
    (`jrel`) of the inertial accelerations, component by component -/
theorem jacAcc_get (m0 : K) (a0 : V3 K) (ms : List K) (as : List (V3 K)) (hlen : as.length = ms.length)
    (hx : SumsNZ m0 (ms.zip (as.map (·.x)))) (hy : SumsNZ m0 (ms.zip (as.map (·.y))))
    (hz : SumsNZ m0 (ms.zip (as.map (·.z)))) (k : Nat) (hk : k < ms.length) :
    (jacAcc m0 a0 ms as)[k]? = some
      ⟨jrel (mF ((m0, a0.x) :: ms.zip (as.map (·.x)))) (fF ((m0, a0.x) :: ms.zip (as.map (·.x)))) (k + 1),
       jrel (mF ((m0, a0.y) :: ms.zip (as.map (·.y)))) (fF ((m0, a0.y) :: ms.zip (as.map (·.y)))) (k + 1),
       jrel (mF ((m0, a0.z) :: ms.zip (as.map (·.z)))) (fF ((m0, a0.z) :: ms.zip (as.map (·.z)))) (k + 1)⟩ := by
  have lx : (ms.zip (as.map (·.x))).length = ms.length := by simp [hlen]
  have ly : (ms.zip (as.map (·.y))).length = ms.length := by simp [hlen]
  have lz : (ms.zip (as.map (·.z))).length = ms.length := by simp [hlen]
  obtain ⟨_, _, ex⟩ := jacFwd_decl m0 a0.x _ hx
  obtain ⟨_, _, ey⟩ := jacFwd_decl m0 a0.y _ hy
  obtain ⟨_, _, ez⟩ := jacFwd_decl m0 a0.z _ hz
  simp only [jacAcc, ex, ey, ez, lx, ly, lz, List.getElem?_map, List.getElem?_zip_eq_some, List.getElem?_range hk]
  simp [List.getElem?_zip_eq_some, List.getElem?_map, List.getElem?_range hk, hk]

end RV.WHInt
