import RV.Proofs.GravityEnc
import RV.Proofs.GravityTree
import RV.Proofs.GravityComp
import Mathlib.Algebra.Module.BigOperators
/-
  REB_GRAVITY_JACOBI (gravity.c:81-138): the running sums are `R_j = Σ_{i<j} m_i x_i`,
  `M_j = Σ_{i<j} m_i`; slot `k` ends up with the direct sum over all other particles except
  the pair {0,1}, plus the Jacobi terms.
-/
set_option linter.unusedTactic false
set_option linter.unreachableTactic false
set_option linter.unnecessarySeqFocus false
set_option linter.unusedVariables false
set_option linter.unusedSimpArgs false
set_option linter.unusedSectionVars false
namespace RV.Gravity
open RV
variable {K : Type} [Field K]

/-- `Rj`, `Mj` before outer iteration `j` -/
def Rn (m : Nat → K) (x : Nat → V3 K) (n : Nat) : V3 K := ∑ i ∈ Finset.range n, m i • x i
def Mn (m : Nat → K) (n : Nat) : K := ∑ i ∈ Finset.range n, m i

/-- `Qj = x_j - Rj/Mj` -/
def Qv (x : Nat → V3 K) (R : V3 K) (M : K) (j : Nat) : V3 K :=
  ⟨(x j).x - R.x / M, (x j).y - R.y / M, (x j).z - R.z / M⟩

/-- the Jacobi term added to slot `i` in outer iteration `j` (`j>1`, `i ≤ j`) -/
def jacTerm (G : K) (sqrt : K → K) (m : Nat → K) (x : Nat → V3 K) (R : V3 K) (M : K) (j i : Nat) : V3 K :=
  (G * (if i < j then -(m j) else M)
    / (sqrt ((Qv x R M j).x * (Qv x R M j).x + (Qv x R M j).y * (Qv x R M j).y + (Qv x R M j).z * (Qv x R M j).z)
      * sqrt ((Qv x R M j).x * (Qv x R M j).x + (Qv x R M j).y * (Qv x R M j).y + (Qv x R M j).z * (Qv x R M j).z)
      * sqrt ((Qv x R M j).x * (Qv x R M j).x + (Qv x R M j).y * (Qv x R M j).y + (Qv x R M j).z * (Qv x R M j).z)))
    • Qv x R M j

/-- `dx*dx + dy*dy + dz*dz` of the direct term (no softening in this routine) -/
def d2 (x : Nat → V3 K) (i j : Nat) : K :=
  (dvec x 0 i j).x * (dvec x 0 i j).x + (dvec x 0 i j).y * (dvec x 0 i j).y + (dvec x 0 i j).z * (dvec x 0 i j).z

/-- contribution of the inner loop body `(j,i)` to slot `k` -/
def innerC (kern : K → K) (G : K) (sqrt : K → K) (Na : Nat) (m : Nat → K) (x : Nat → V3 K) (R : V3 K) (M : K)
    (j i k : Nat) : V3 K :=
  (if 1 < j then (if i = k then jacTerm G sqrt m x R M j i else 0) else 0)
  + (if (i ≠ j ∧ (i ≠ 0 ∨ j ≠ 1)) ∧ (i < Na ∨ j < Na) then
      ((if i = k then (-(kern (d2 x i j) * m j)) • dvec x 0 i j else 0)
        + (if j = k then (kern (d2 x i j) * m i) • dvec x 0 i j else 0))
    else 0)

theorem additive_jacInner (kern : K → K) (G : K) (sqrt : K → K) (Na : Nat) {N : Nat} (m : Nat → K) (x : Nat → V3 K)
    (R : V3 K) (M : K) {i j : Nat} (hi : i < N) (hj : j < N) :
    Additive (fun acc => jacInner kern G sqrt Na (mkPs N m x) R M j acc i)
      (innerC kern G sqrt Na m x R M j i) := by
  have e : (⟨(x i).x - (x j).x, (x i).y - (x j).y, (x i).z - (x j).z⟩ : V3 K) = dvec x 0 i j := by
    ext <;> simp [dvec]
  have es : ((x i).x - (x j).x) * ((x i).x - (x j).x) + ((x i).y - (x j).y) * ((x i).y - (x j).y)
      + ((x i).z - (x j).z) * ((x i).z - (x j).z) = d2 x i j := by
    simp [d2, dvec]
  -- first half: Jacobi term
  have h1 : Additive (fun acc : Acc K => if 1 < j then
        addTo acc i (G * (if i < j then -(m j) else M)
          / (sqrt ((Qv x R M j).x * (Qv x R M j).x + (Qv x R M j).y * (Qv x R M j).y + (Qv x R M j).z * (Qv x R M j).z)
            * sqrt ((Qv x R M j).x * (Qv x R M j).x + (Qv x R M j).y * (Qv x R M j).y + (Qv x R M j).z * (Qv x R M j).z)
            * sqrt ((Qv x R M j).x * (Qv x R M j).x + (Qv x R M j).y * (Qv x R M j).y + (Qv x R M j).z * (Qv x R M j).z)))
          (Qv x R M j)
      else acc)
      (fun k => if 1 < j then (if i = k then jacTerm G sqrt m x R M j i else 0) else 0) := by
    by_cases h : 1 < j
    · simp only [h, if_true]; exact additive_addTo i _ _
    · simp only [h, if_false]; exact additive_id
  -- second half: direct term
  have h2 : Additive (fun acc : Acc K => if (i ≠ j ∧ (i ≠ 0 ∨ j ≠ 1)) ∧ (i < Na ∨ j < Na) then
        addTo (acc.modify i fun a => ⟨a.x - kern (d2 x i j) * m j * (dvec x 0 i j).x,
            a.y - kern (d2 x i j) * m j * (dvec x 0 i j).y, a.z - kern (d2 x i j) * m j * (dvec x 0 i j).z⟩)
          j (kern (d2 x i j) * m i) (dvec x 0 i j)
      else acc)
      (fun k => if (i ≠ j ∧ (i ≠ 0 ∨ j ≠ 1)) ∧ (i < Na ∨ j < Na) then
        ((if i = k then (-(kern (d2 x i j) * m j)) • dvec x 0 i j else 0)
          + (if j = k then (kern (d2 x i j) * m i) • dvec x 0 i j else 0)) else 0) := by
    by_cases h : (i ≠ j ∧ (i ≠ 0 ∨ j ≠ 1)) ∧ (i < Na ∨ j < Na)
    · simp only [if_pos h]
      refine additive_comp (f := fun acc : Acc K => acc.modify i fun a =>
          ⟨a.x - kern (d2 x i j) * m j * (dvec x 0 i j).x, a.y - kern (d2 x i j) * m j * (dvec x 0 i j).y,
            a.z - kern (d2 x i j) * m j * (dvec x 0 i j).z⟩)
        (g := fun acc => addTo acc j (kern (d2 x i j) * m i) (dvec x 0 i j)) ?_ (additive_addTo j _ _)
      apply additive_modify
      intro a; ext <;> simp <;> ring
    · simp only [if_neg h]; exact additive_id
  have hf : (fun acc => jacInner kern G sqrt Na (mkPs N m x) R M j acc i)
      = (fun acc => (fun acc : Acc K => if (i ≠ j ∧ (i ≠ 0 ∨ j ≠ 1)) ∧ (i < Na ∨ j < Na) then
            addTo (acc.modify i fun a => ⟨a.x - kern (d2 x i j) * m j * (dvec x 0 i j).x,
                a.y - kern (d2 x i j) * m j * (dvec x 0 i j).y, a.z - kern (d2 x i j) * m j * (dvec x 0 i j).z⟩)
              j (kern (d2 x i j) * m i) (dvec x 0 i j)
          else acc)
        ((fun acc : Acc K => if 1 < j then
            addTo acc i (G * (if i < j then -(m j) else M)
              / (sqrt ((Qv x R M j).x * (Qv x R M j).x + (Qv x R M j).y * (Qv x R M j).y + (Qv x R M j).z * (Qv x R M j).z)
                * sqrt ((Qv x R M j).x * (Qv x R M j).x + (Qv x R M j).y * (Qv x R M j).y + (Qv x R M j).z * (Qv x R M j).z)
                * sqrt ((Qv x R M j).x * (Qv x R M j).x + (Qv x R M j).y * (Qv x R M j).y + (Qv x R M j).z * (Qv x R M j).z)))
              (Qv x R M j)
          else acc) acc)) := by
    funext acc
    simp only [jacInner, mkPs_get m x hi, mkPs_get m x hj, sc_hadd, sc_hsub, sc_hmul, sc_hdiv, sc_hneg, e, es,
      bne_iff_ne, Bool.and_eq_true, Bool.or_eq_true, decide_eq_true_eq, ne_eq, Qv]
    by_cases hj1 : 1 < j <;> by_cases hd : (¬i = j ∧ (¬i = 0 ∨ ¬j = 1)) ∧ (i < Na ∨ j < Na) <;> simp [hj1, hd] <;> simp [dvec]
  rw [hf]
  exact additive_congr (additive_comp h1 h2) (by intro k; simp [innerC])

theorem innerC_zero (kern : K → K) (G : K) (sqrt : K → K) (Na : Nat) (m : Nat → K) (x : Nat → V3 K) (R : V3 K) (M : K)
    {j i k : Nat} (hi : i ≠ k) (hj : j ≠ k) : innerC kern G sqrt Na m x R M j i k = 0 := by
  simp [innerC, hi, hj]

/-- body of the outer `for (int j=0; j<N; j++)` loop -/
def jacBody (kern : K → K) (G : K) (sqrt : K → K) (Na : Nat) (ps : Array (Body K)) (st : JacSt K) (j : Nat) : JacSt K :=
  let acc := st.acc.setIfInBounds j V3.zero
  let acc := forRange 0 (j + 1) acc (jacInner kern G sqrt Na ps st.R st.M j)
  match ps[j]? with
  | some pj =>
    ⟨acc, ⟨st.R.x + pj.m * pj.p.x, st.R.y + pj.m * pj.p.y, st.R.z + pj.m * pj.p.z⟩, st.M + pj.m⟩
  | none => ⟨acc, st.R, st.M⟩

theorem accJacobi_def (kern : K → K) (G : K) (sqrt : K → K) (Na : Nat) (ps : Array (Body K)) (init : Acc K) :
    accJacobi kern G sqrt Na ps init
      = (forRange 0 ps.size (⟨init, V3.zero, Scalar.zero⟩ : JacSt K) (jacBody kern G sqrt Na ps)).acc := rfl

/-- contribution of outer iteration `j` to slot `k` -/
def cj (kern : K → K) (G : K) (sqrt : K → K) (Na : Nat) (m : Nat → K) (x : Nat → V3 K) (j k : Nat) : V3 K :=
  ∑ i ∈ Finset.Ico 0 (j + 1), innerC kern G sqrt Na m x (Rn m x j) (Mn m j) j i k

theorem cj_zero (kern : K → K) (G : K) (sqrt : K → K) (Na : Nat) (m : Nat → K) (x : Nat → V3 K) {j k : Nat}
    (h : j < k) : cj kern G sqrt Na m x j k = 0 := by
  unfold cj
  apply Finset.sum_eq_zero
  intro i hi
  have := Finset.mem_Ico.mp hi
  exact innerC_zero kern G sqrt Na m x _ _ (by omega) (by omega)

theorem jacobi_invariant (kern : K → K) (G : K) (sqrt : K → K) (Na : Nat) {N : Nat} (m : Nat → K) (x : Nat → V3 K)
    (init : Acc K) (hinit : init.size = N) :
    ∀ n, n ≤ N →
      let st := forRange 0 n (⟨init, V3.zero, Scalar.zero⟩ : JacSt K) (jacBody kern G sqrt Na (mkPs N m x))
      st.R = Rn m x n ∧ st.M = Mn m n ∧ st.acc.size = N ∧
      ∀ k, st.acc[k]? = if k < n then some (∑ j ∈ Finset.range n, cj kern G sqrt Na m x j k) else init[k]? := by
  intro n
  induction n with
  | zero =>
    intro _
    simp only [forRange_empty 0 0 (le_refl 0)]
    refine ⟨by simp [Rn], by simp [Mn], hinit, ?_⟩
    intro k; simp
  | succ n ih =>
    intro hn
    have hn' : n < N := by omega
    obtain ⟨iR, iM, iS, iA⟩ := ih (by omega)
    rw [forRange_succ 0 n (Nat.zero_le n)]
    set st := forRange 0 n (⟨init, V3.zero, Scalar.zero⟩ : JacSt K) (jacBody kern G sqrt Na (mkPs N m x)) with hst
    have hadd : Additive (fun acc => forRange 0 (n + 1) acc (jacInner kern G sqrt Na (mkPs N m x) st.R st.M n))
        (cj kern G sqrt Na m x n) := by
      unfold cj
      rw [iR, iM]
      apply additive_forRange
      intro i _ hi
      exact additive_jacInner kern G sqrt Na m x _ _ (by omega) hn'
    have hsize : (forRange 0 (n + 1) (st.acc.setIfInBounds n V3.zero)
        (jacInner kern G sqrt Na (mkPs N m x) st.R st.M n)).size = N := by
      unfold forRange
      rw [foldl_size_eq]
      · simpa using iS
      · intro acc i
        unfold jacInner
        cases (mkPs N m x)[i]? <;> cases (mkPs N m x)[n]? <;> simp [addTo]
        split_ifs <;> simp [addTo]
    simp only [jacBody, mkPs_get m x hn', sc_hadd, sc_hmul]
    refine ⟨?_, ?_, hsize, ?_⟩
    · rw [iR]; simp only [Rn, Finset.sum_range_succ]; ext <;> simp
    · rw [iM]; simp only [Mn, Finset.sum_range_succ]
    · intro k
      rw [hadd _ k, Array.getElem?_setIfInBounds, iS]
      by_cases hk : k < n
      · have : n ≠ k := by omega
        simp only [this, if_false, iA k, hk, if_true, Option.map_some, show k < n + 1 by omega, Finset.sum_range_succ]
      · by_cases hkn : n = k
        · subst hkn
          simp only [if_true, hn', Option.map_some, show n < n + 1 by omega, Finset.sum_range_succ]
          congr 1
          rw [Finset.sum_eq_zero (fun j hj => cj_zero kern G sqrt Na m x (Finset.mem_range.mp hj))]
          simp
        · have h1 : ¬ k < n + 1 := by omega
          simp only [hkn, if_false, iA k, hk, h1]
          rw [cj_zero kern G sqrt Na m x (show n < k by omega)]
          cases init[k]? <;> simp

/-- JACOBI routine: slot `k` holds the direct sum over all `j ≠ k` except the pair {0,1}
    (no softening, no ghost boxes, all particles sources) plus the Jacobi terms of all outer
    iterations `j > 1`, `j ≥ k`. -/
theorem accJacobi_get (kern : K → K) (G : K) (sqrt : K → K) (Na : Nat) {N : Nat} (m : Nat → K) (x : Nat → V3 K)
    (init : Acc K) (hinit : init.size = N) {k : Nat} (hk : k < N) :
    (accJacobi kern G sqrt Na (mkPs N m x) init)[k]?
      = some ((∑ j ∈ Finset.range N, if Src Na true 1 k j
                then force (fun s _ _ => kern s) 0 m x 0 k j else 0)
          + (∑ j ∈ Finset.range N, if 1 < j ∧ k ≤ j
                then jacTerm G sqrt m x (Rn m x j) (Mn m j) j k else 0)) := by
  rw [accJacobi_def, mkPs_size]
  obtain ⟨-, -, -, hA⟩ := jacobi_invariant kern G sqrt Na m x init hinit N (le_refl N)
  rw [hA k]
  simp only [hk, if_true]
  congr 1
  unfold cj innerC
  simp only [Finset.sum_add_distrib, Finset.range_eq_Ico]
  rw [add_comm]
  congr 1
  · -- direct terms
    have split : ∀ (c : Prop) [Decidable c] (p q : Prop) [Decidable p] [Decidable q] (A B : V3 K),
        (if c then ((if p then A else 0) + (if q then B else 0)) else 0)
          = (if c ∧ p then A else 0) + (if c ∧ q then B else 0) := by
      intro c _ p _ q _ A B
      by_cases h : c <;> simp [h]
    simp only [split, Finset.sum_add_distrib]
    rw [collapse2 k, collapse1 k]
    rw [ite_sum_zero]
    rw [sum_Ico_ind _ _ N (le_refl N), sum_Ico_ind _ _ N (show k + 1 ≤ N by omega)]
    rw [← Finset.range_eq_Ico, ← Finset.sum_add_distrib]
    apply Finset.sum_congr rfl
    intro j hj
    have hj' := Finset.mem_range.mp hj
    have hr : (kern (d2 x j k) * m j) • dvec x 0 j k = force (fun s _ _ => kern s) 0 m x 0 k j := by
      have := roleJ_eq_roleI (fun s _ _ => kern s) (fun _ _ _ => rfl) 0 m x 0 k j
      simp only [neg_zero] at this
      show _ = roleI (fun s _ _ => kern s) 0 m x 0 k j
      rw [← this]
      simp [roleJ, s2, d2]
    have hr2 : (-(kern (d2 x k j) * m j)) • dvec x 0 k j = force (fun s _ _ => kern s) 0 m x 0 k j := by
      simp [force, roleI, s2, d2]
    simp only [hr, hr2, ← ite_and]
    apply ite_add_ite_of
    unfold Src
    simp only [true_and]
    omega
  · -- Jacobi terms
    apply Finset.sum_congr rfl
    intro j hj
    by_cases h1 : 1 < j
    · simp only [h1, if_true, true_and, Finset.sum_ite_eq', Finset.mem_Ico]
      by_cases hkj : k ≤ j
      · simp [hkj, show k < j + 1 by omega]
      · simp [hkj, show ¬ k < j + 1 by omega]
    · simp [h1]

end RV.Gravity
