import RV.Proofs.VarAux
import RV.Gen.C16Deriv
/- helper lemmas for RV/Props/C16.lean: the generated derivative functions (RV/Gen/C16Deriv, translated
   from src/derivatives.c and tied bitwise to the compiled functions) are the ε-parts of the
   element → Cartesian maps `palMap` / `orbMap` run on dual numbers. -/
set_option linter.unusedVariables false
set_option linter.unusedSimpArgs false
set_option linter.unusedSectionVars false
set_option linter.unusedTactic false
set_option linter.unreachableTactic false
namespace RV.Var
open RV RV.Gen.C16Deriv
variable {K : Type} [Field K] [CharZero K]

def epsP7 (r : P7 (Dual K)) : P7 K := ⟨r.m.eps, r.x.eps, r.y.eps, r.z.eps, r.vx.eps, r.vy.eps, r.vz.eps⟩
def cst (x : K) : Dual K := Dual.const x
def var1 (x : K) : Dual K := ⟨x, 1⟩

section liftlemmas
variable {F : Type} [Scalar F]
theorem lift_sin (o : DOps F) (sgn : F → F) (a : Dual F) : (o.lift sgn).sin a = ⟨o.sin a.re, o.cos a.re * a.eps⟩ := rfl
theorem lift_cos (o : DOps F) (sgn : F → F) (a : Dual F) : (o.lift sgn).cos a = ⟨o.cos a.re, -(o.sin a.re * a.eps)⟩ := rfl
theorem lift_sqrt (o : DOps F) (sgn : F → F) (a : Dual F) :
    (o.lift sgn).sqrt a = ⟨o.sqrt a.re, a.eps / (Scalar.ofNat 2 * o.sqrt a.re)⟩ := rfl
theorem lift_fabs (o : DOps F) (sgn : F → F) (a : Dual F) : (o.lift sgn).fabs a = ⟨o.fabs a.re, sgn a.re * a.eps⟩ := rfl
theorem sgnLift_re (sgn : F → F) (a : Dual F) : (sgnLift sgn a).re = sgn a.re := rfl
theorem sgnLift_eps (sgn : F → F) (a : Dual F) : (sgnLift sgn a).eps = Scalar.zero := rfl
end liftlemmas


macro "deriv_unfold" "[" ds:Lean.Parser.Tactic.simpLemma,* "]" : tactic => `(tactic| (
  simp only [$ds,*, palMap, orbMap, epsP7, cst, var1, dlit, two, lift_sin, lift_cos, lift_sqrt, lift_fabs,
    Dual.add_re, Dual.add_eps, Dual.sub_re, Dual.sub_eps, Dual.mul_re, Dual.mul_eps, Dual.div_re, Dual.div_eps,
    Dual.neg_re, Dual.neg_eps, Dual.const_re, Dual.const_eps, Dual.one_re, Dual.one_eps, Dual.ofNat_re, Dual.ofNat_eps,
    Dual.zero_re, Dual.zero_eps,
    sc_zero, sc_one, sc_hadd, sc_hsub, sc_hmul, sc_hdiv, sc_hneg, sc_ofNat, P7.mk.injEq]
  push_cast
  simp only [mul_zero, zero_mul, add_zero, zero_add, sub_zero, mul_one, one_mul, neg_zero, zero_div, sub_self]))

macro "deriv_finish" : tactic => `(tactic| (refine ⟨?_, ?_, ?_, ?_, ?_, ?_, ?_⟩ <;> first | trivial | ring1 | (field_simp; ring1) | (simp; done)))

theorem deriv_a_is_eps (o : DOps K) (sgn : K → K) (G m M a lam k h ix iy p q : K)
    (hS : o.sqrt (G * (m + M) / a) * o.sqrt (G * (m + M) / a) = G * (m + M) / a)
    (hS3 : o.sqrt (G * (m + M) / (a * a * a)) * a = o.sqrt (G * (m + M) / a))
    (hS1 : o.sqrt (G * (m + M) / a) ≠ 0) (ha : a ≠ 0) :
    d_a o G m M a lam k h ix iy p q
      = epsP7 (palMap (o.lift sgn) (cst G) (cst m) (cst M) (var1 a) (cst lam) (cst k) (cst h) (cst ix) (cst iy) (cst p) (cst q)) := by
  deriv_unfold [d_a]
  generalize o.sin (lam + p) = s
  generalize o.cos (lam + p) = cc
  generalize o.sqrt (1 - h * h - k * k) = L
  generalize o.sqrt (o.fabs (4 - ix * ix - iy * iy)) = iz
  generalize G * (m + M) = μ at *
  generalize o.sqrt (μ / a) = S1 at *
  generalize o.sqrt (μ / (a * a * a)) = S3 at *
  have e3 : S3 = S1 / a := by field_simp; linear_combination hS3
  have eμ : μ = S1 * S1 * a := by field_simp at hS; linear_combination -hS
  subst e3; subst eμ
  deriv_finish

theorem deriv_ix_is_eps (o : DOps K) (sgn : K → K) (G m M a lam k h ix iy p q : K)
    (hsgn : sgn (4 - ix * ix - iy * iy) = 1) :
    d_ix o G m M a lam k h ix iy p q
      = epsP7 (palMap (o.lift sgn) (cst G) (cst m) (cst M) (cst a) (cst lam) (cst k) (cst h) (var1 ix) (cst iy) (cst p) (cst q)) := by
  deriv_unfold [d_ix]
  rw [hsgn]
  generalize o.sin (lam + p) = s
  generalize o.cos (lam + p) = cc
  generalize o.sqrt (1 - h * h - k * k) = L
  generalize o.sqrt (o.fabs (4 - ix * ix - iy * iy)) = iz
  generalize o.sqrt (G * (m + M) / a) = S1
  deriv_finish

theorem deriv_lambda_is_eps_partial (o : DOps K) (sgn : K → K) (G m M a lam k h ix iy p q : K)
    (hq : 1 - q ≠ 0) (hl : 2 - (1 - o.sqrt (1 - h * h - k * k)) ≠ 0) :
    d_lambda o G m M a lam k h ix iy p q
      = epsP7 (palMap (o.lift sgn) (cst G) (cst m) (cst M) (cst a) (var1 lam) (cst k) (cst h) (cst ix) (cst iy)
          ⟨p, q / (1 - q)⟩ ⟨q, -p / (1 - q)⟩) := by
  deriv_unfold [d_lambda]
  generalize o.sin (lam + p) = s
  generalize o.cos (lam + p) = cc
  generalize o.sqrt (1 - h * h - k * k) = L
  generalize o.sqrt (o.fabs (4 - ix * ix - iy * iy)) = iz
  generalize o.sqrt (G * (m + M) / a) = S1
  deriv_finish
theorem deriv_m_is_eps (o : DOps K) (sgn : K → K) (G m M a lam k h ix iy p q : K)
    (hS : o.sqrt (G / (a * (m + M))) * o.sqrt (G * (m + M) / a) = G / a) (hS1 : o.sqrt (G * (m + M) / a) ≠ 0) (ha : a ≠ 0) :
    d_m o G m M a lam k h ix iy p q
      = epsP7 (palMap (o.lift sgn) (cst G) (var1 m) (cst M) (cst a) (cst lam) (cst k) (cst h) (cst ix) (cst iy) (cst p) (cst q)) := by
  have h2 : (2:K) ≠ 0 := by norm_num
  simp only [d_m, palMap, epsP7, cst, var1, dlit, two, lift_sin, lift_cos, lift_sqrt, lift_fabs,
    Dual.add_re, Dual.add_eps, Dual.sub_re, Dual.sub_eps, Dual.mul_re, Dual.mul_eps, Dual.div_re, Dual.div_eps,
    Dual.neg_re, Dual.neg_eps, Dual.const_re, Dual.const_eps, Dual.one_re, Dual.one_eps, Dual.ofNat_re, Dual.ofNat_eps,
    Dual.zero_re, Dual.zero_eps,
    sc_zero, sc_one, sc_hadd, sc_hsub, sc_hmul, sc_hdiv, sc_hneg, sc_ofNat, P7.mk.injEq]
  push_cast
  simp only [mul_zero, zero_mul, add_zero, zero_add, sub_zero, mul_one, one_mul, neg_zero, zero_div, sub_self]
  generalize o.sin (lam + p) = s
  generalize o.cos (lam + p) = cc
  generalize o.sqrt (1 - h * h - k * k) = L
  generalize o.sqrt (o.fabs (4 - ix * ix - iy * iy)) = iz
  generalize hS1' : o.sqrt (G * (m + M) / a) = S1 at *
  generalize hS2' : o.sqrt (G / (a * (m + M))) = S2 at *
  have e2 : S2 = G / (a * S1) := by field_simp; field_simp at hS; linear_combination hS
  subst e2
  refine ⟨?_, ?_, ?_, ?_, ?_, ?_, ?_⟩ <;> first | trivial | ring1 | (field_simp; ring1) | (simp; done)

theorem deriv_iy_is_eps (o : DOps K) (sgn : K → K) (G m M a lam k h ix iy p q : K)
    (hsgn : sgn (4 - ix * ix - iy * iy) = 1) :
    d_iy o G m M a lam k h ix iy p q
      = epsP7 (palMap (o.lift sgn) (cst G) (cst m) (cst M) (cst a) (cst lam) (cst k) (cst h) (cst ix) (var1 iy) (cst p) (cst q)) := by
  deriv_unfold [d_iy]
  rw [hsgn]
  generalize o.sin (lam + p) = s
  generalize o.cos (lam + p) = cc
  generalize o.sqrt (1 - h * h - k * k) = L
  generalize o.sqrt (o.fabs (4 - ix * ix - iy * iy)) = iz
  generalize o.sqrt (G * (m + M) / a) = S1
  deriv_finish

theorem deriv_h_is_eps_partial (o : DOps K) (sgn : K → K) (G m M a lam k h ix iy p q : K)
    (hq : 1 - q ≠ 0) (hl : 2 - (1 - o.sqrt (1 - h * h - k * k)) ≠ 0) (hL : o.sqrt (1 - h * h - k * k) ≠ 0) :
    d_h o G m M a lam k h ix iy p q
      = epsP7 (palMap (o.lift sgn) (cst G) (cst m) (cst M) (cst a) (cst lam) (cst k) (var1 h) (cst ix) (cst iy)
          ⟨p, 1 / (1 - q) * (-o.cos (lam + p))⟩ ⟨q, 1 / (1 - q) * (o.sin (lam + p) - h)⟩) := by
  have h2 : (2:K) ≠ 0 := by norm_num
  deriv_unfold [d_h]
  generalize o.sin (lam + p) = s
  generalize o.cos (lam + p) = cc
  generalize o.sqrt (1 - h * h - k * k) = L at *
  generalize o.sqrt (o.fabs (4 - ix * ix - iy * iy)) = iz
  generalize o.sqrt (G * (m + M) / a) = S1
  deriv_finish

theorem deriv_k_is_eps_partial (o : DOps K) (sgn : K → K) (G m M a lam k h ix iy p q : K)
    (hq : 1 - q ≠ 0) (hl : 2 - (1 - o.sqrt (1 - h * h - k * k)) ≠ 0) (hL : o.sqrt (1 - h * h - k * k) ≠ 0) :
    d_k o G m M a lam k h ix iy p q
      = epsP7 (palMap (o.lift sgn) (cst G) (cst m) (cst M) (cst a) (cst lam) (var1 k) (cst h) (cst ix) (cst iy)
          ⟨p, 1 / (1 - q) * o.sin (lam + p)⟩ ⟨q, 1 / (1 - q) * (o.cos (lam + p) - k)⟩) := by
  have h2 : (2:K) ≠ 0 := by norm_num
  deriv_unfold [d_k]
  generalize o.sin (lam + p) = s
  generalize o.cos (lam + p) = cc
  generalize o.sqrt (1 - h * h - k * k) = L at *
  generalize o.sqrt (o.fabs (4 - ix * ix - iy * iy)) = iz
  generalize o.sqrt (G * (m + M) / a) = S1
  deriv_finish

/-! ### classical elements: every first derivative is explicit -/

set_option hygiene false in
macro "orb_gen" : tactic => `(tactic| (
  generalize o.sin Om = sO
  generalize o.cos Om = cO
  generalize o.sin om = so
  generalize o.cos om = co
  generalize o.sin inc = si
  generalize o.cos inc = ci
  generalize o.sin f = sf
  generalize o.cos f = cf))

theorem deriv_inc_is_eps (o : DOps K) (sgn : K → K) (G m M a e inc Om om f : K) :
    d_inc o G m M a e inc Om om f
      = epsP7 (orbMap (o.lift sgn) (cst G) (cst m) (cst M) (cst a) (cst e) (var1 inc) (cst Om) (cst om) (cst f)) := by
  deriv_unfold [d_inc]
  orb_gen
  generalize o.sqrt (G * (m + M) / a / (1 - e * e)) = V0
  deriv_finish

theorem deriv_Omega_is_eps (o : DOps K) (sgn : K → K) (G m M a e inc Om om f : K) :
    d_Omega o G m M a e inc Om om f
      = epsP7 (orbMap (o.lift sgn) (cst G) (cst m) (cst M) (cst a) (cst e) (cst inc) (var1 Om) (cst om) (cst f)) := by
  deriv_unfold [d_Omega]
  orb_gen
  generalize o.sqrt (G * (m + M) / a / (1 - e * e)) = V0
  deriv_finish

theorem deriv_omega_is_eps (o : DOps K) (sgn : K → K) (G m M a e inc Om om f : K) :
    d_omega o G m M a e inc Om om f
      = epsP7 (orbMap (o.lift sgn) (cst G) (cst m) (cst M) (cst a) (cst e) (cst inc) (cst Om) (var1 om) (cst f)) := by
  deriv_unfold [d_omega]
  orb_gen
  generalize o.sqrt (G * (m + M) / a / (1 - e * e)) = V0
  deriv_finish

theorem deriv_f_is_eps (o : DOps K) (sgn : K → K) (G m M a e inc Om om f : K)
    (hr : 1 + e * o.cos f ≠ 0) :
    d_f o G m M a e inc Om om f
      = epsP7 (orbMap (o.lift sgn) (cst G) (cst m) (cst M) (cst a) (cst e) (cst inc) (cst Om) (cst om) (var1 f)) := by
  deriv_unfold [d_f]
  orb_gen
  generalize o.sqrt (G * (m + M) / a / (1 - e * e)) = V0
  deriv_finish

theorem deriv_e_is_eps (o : DOps K) (sgn : K → K) (G m M a e inc Om om f : K)
    (hr : 1 + e * o.cos f ≠ 0) (he : 1 - e * e ≠ 0) (ha : a ≠ 0)
    (hA : o.sqrt (G * (m + M) / a) * o.sqrt (G * (m + M) / a) = G * (m + M) / a)
    (hE : o.sqrt (1 - e * e) * o.sqrt (1 - e * e) = 1 - e * e)
    (hV : o.sqrt (G * (m + M) / a / (1 - e * e)) * o.sqrt (1 - e * e) = o.sqrt (G * (m + M) / a))
    (hV0 : o.sqrt (G * (m + M) / a / (1 - e * e)) ≠ 0) :
    d_e o G m M a e inc Om om f
      = epsP7 (orbMap (o.lift sgn) (cst G) (cst m) (cst M) (cst a) (var1 e) (cst inc) (cst Om) (cst om) (cst f)) := by
  have h2 : (2:K) ≠ 0 := by norm_num
  deriv_unfold [d_e]
  orb_gen
  generalize G * (m + M) = μ at *
  generalize o.sqrt (μ / a / (1 - e * e)) = V0 at *
  generalize o.sqrt (μ / a) = A at *
  generalize o.sqrt (1 - e * e) = Eo at *
  have hEo : Eo ≠ 0 := by intro h0; rw [h0] at hE; simp at hE; exact he hE.symm
  have eA : A = V0 * Eo := hV.symm
  subst eA
  have eμ : μ = V0 * Eo * (V0 * Eo) * a := by field_simp at hA; linear_combination -hA
  subst eμ
  refine ⟨?_, ?_, ?_, ?_, ?_, ?_, ?_⟩
  · trivial
  · field_simp; ring1
  · field_simp; ring1
  · field_simp; ring1
  all_goals (rw [← hE]; field_simp; ring1)

/-! ### second order scaffolding -/
def epsP72 (r : P7 (Dual2 K)) : P7 K := ⟨r.m.eps.eps, r.x.eps.eps, r.y.eps.eps, r.z.eps.eps, r.vx.eps.eps, r.vy.eps.eps, r.vz.eps.eps⟩
def c2 (x : K) : Dual2 K := ⟨⟨x, 0⟩, ⟨0, 0⟩⟩
/-- varied along ε₁ -/
def v1 (x : K) : Dual2 K := ⟨⟨x, 1⟩, ⟨0, 0⟩⟩
/-- varied along ε₂ -/
def v2 (x : K) : Dual2 K := ⟨⟨x, 0⟩, ⟨1, 0⟩⟩
/-- varied along both (second derivative with respect to one parameter) -/
def v12 (x : K) : Dual2 K := ⟨⟨x, 1⟩, ⟨1, 0⟩⟩
def lift2 (o : DOps K) (sgn : K → K) : DOps (Dual2 K) := (o.lift sgn).lift (sgnLift sgn)

macro "deriv2_unfold" "[" ds:Lean.Parser.Tactic.simpLemma,* "]" : tactic => `(tactic| (
  simp only [$ds,*, palMap, orbMap, epsP72, c2, v1, v2, v12, lift2, dlit, two, lift_sin, lift_cos, lift_sqrt, lift_fabs, sgnLift_re, sgnLift_eps,
    Dual.add_re, Dual.add_eps, Dual.sub_re, Dual.sub_eps, Dual.mul_re, Dual.mul_eps, Dual.div_re, Dual.div_eps,
    Dual.neg_re, Dual.neg_eps, Dual.const_re, Dual.const_eps, Dual.one_re, Dual.one_eps, Dual.ofNat_re, Dual.ofNat_eps,
    Dual.zero_re, Dual.zero_eps,
    sc_zero, sc_one, sc_hadd, sc_hsub, sc_hmul, sc_hdiv, sc_hneg, sc_ofNat, P7.mk.injEq]
  push_cast
  simp only [mul_zero, zero_mul, add_zero, zero_add, sub_zero, mul_one, one_mul, neg_zero, zero_div, sub_self]))

end RV.Var
