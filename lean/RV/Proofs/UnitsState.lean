import RV.Proofs.Units
import RV.Model.UnitsState
/- helper lemmas for the unit state machine theorems of RV/Props/C20.lean -/
set_option linter.unusedTactic false
set_option linter.unusedVariables false
set_option linter.unusedSimpArgs false
set_option linter.unusedSectionVars false
namespace RV.UnitsState
open RV RV.Units
variable {K : Type} [Field K]

/-- `G` is the value `convert_G` gives for the stored units -/
def Follows (gSI : K) (s : USim K) : Prop :=
  ∀ u, s.units = some u → s.G = convertG gSI u.L u.T u.M

theorem convertParticle_rev (p : PData K) (aL aT aM bL bT bM : K)
    (hL : bL ≠ 0) (hT : bT ≠ 0) (hM : bM ≠ 0) (hL' : aL ≠ 0) (hT' : aT ≠ 0) (hM' : aM ≠ 0) :
    convertParticle (convertParticle p aL aT aM bL bT bM) bL bT bM aL aT aM = p := by
  cases p
  simp only [convertParticle, convertMass, convertLength, convertVel, convertAcc, p_powi, sc_hmul, sc_hdiv]
  congr 1 <;> field_simp

theorem convertParticle_trans (p : PData K) (aL aT aM bL bT bM cL cT cM : K)
    (hL : bL ≠ 0) (hT : bT ≠ 0) (hM : bM ≠ 0) :
    convertParticle (convertParticle p aL aT aM bL bT bM) bL bT bM cL cT cM =
      convertParticle p aL aT aM cL cT cM := by
  simp only [convertParticle, convertMass, convertLength, convertVel, convertAcc, p_powi, sc_hmul, sc_hdiv]
  congr 1 <;> field_simp

theorem convertParticle_same (p : PData K) (aL aT aM : K) (hL : aL ≠ 0) (hT : aT ≠ 0) (hM : aM ≠ 0) :
    convertParticle p aL aT aM aL aT aM = p := by
  cases p
  simp only [convertParticle, convertMass, convertLength, convertVel, convertAcc, p_powi, sc_hmul, sc_hdiv]
  congr 1 <;> field_simp

theorem step_setUnits_ok (gSI : K) (s : USim K) (u : UnitSys K) (h : s.parts = []) :
    step gSI s (.setUnits (some u)) = .ok (updateUnits gSI s u) := by
  simp [step, h]

theorem step_convert_ok (gSI : K) (s : USim K) (cur u : UnitSys K) (h : s.units = some cur) :
    step gSI s (.convert (some u)) =
      .ok (updateUnits gSI { s with parts := s.parts.map (fun p => convertParticle p cur.L cur.T cur.M u.L u.T u.M) } u) := by
  simp [step, h]

end RV.UnitsState
