import RV.Proofs.Kepler
import Mathlib.Algebra.Order.Field.Basic
import Mathlib.Tactic.Linarith
import Mathlib.Tactic.Positivity
/- how the truncation residual of the Stumpff series travels through the duplication loop of
   stumpff_cs3 (helper lemmas for RV/Props/C03.lean) -/
set_option linter.unusedTactic false
set_option linter.unusedVariables false
set_option linter.unusedSectionVars false
namespace RV.Kepler
open RV
section alg
variable {K : Type} [Field K] [CharZero K]

/-- defects of the three Stumpff relations -/
def D0 (z : K) (c : Cs3 K) : K := c.c0 - (1 - z * c.c2)
def D1 (z : K) (c : Cs3 K) : K := c.c1 - (1 - z * c.c3)
def D2 (c : Cs3 K) : K := c.c1 ^ 2 - (1 + c.c0) * c.c2
/-- defect of `c0² + z c1² = 1` -/
def DP (z : K) (c : Cs3 K) : K := c.c0 ^ 2 + z * c.c1 ^ 2 - 1

/-- exact defect recursion of one duplication step -/
theorem defect_step (z : K) (c : Cs3 K) :
    D2 (cs3DupStep c) = 0 ∧
    D1 (4 * z) (cs3DupStep c) = c.c0 * D1 z c + D0 z c ∧
    D0 (4 * z) (cs3DupStep c) = 2 * (1 + c.c0) * D0 z c + 2 * z * D2 c := by
  simp only [D0, D1, D2, cs3DupStep, sc_hadd, sc_hsub, sc_hmul, sc_one, n2_eq, half_eq, quarter_eq]
  refine ⟨by ring, by ring, by ring⟩

theorem defect_pythagoras (z : K) (c : Cs3 K) : DP z c = (1 + c.c0) * D0 z c + z * D2 c := by
  simp only [DP, D0, D2]; ring

theorem D_rel_iff (z : K) (c : Cs3 K) : StumpffRel z c ↔ D0 z c = 0 ∧ D1 z c = 0 ∧ D2 c = 0 := by
  simp only [D0, D1, D2, sub_eq_zero]
  exact ⟨fun h => ⟨h.h0, h.h1, h.h2⟩, fun h => ⟨h.1, h.2.1, h.2.2⟩⟩

/-- the series start: only the quadratic relation has a defect -/
theorem defect_series (z : K) : D0 z (cs3Series z) = 0 ∧ D1 z (cs3Series z) = 0 := by
  obtain ⟨e3, e2, e1, e0⟩ := cs3Series_eq z
  simp only [D0, D1]
  constructor
  · rw [e0]; ring
  · rw [e1]; ring
end alg

section ord
variable {K : Type} [Field K] [LinearOrder K] [IsStrictOrderedRing K]

/-- bound after `n` duplications starting from data whose quadratic defect vanishes, as long as the
    intermediate `c0` stay in [-1, 1] (they are cosines in the elliptic case) -/
theorem defect_bound (n : Nat) : ∀ (z : K) (c : Cs3 K), D2 c = 0 →
    (∀ k < n, |(cs3Dup k c).c0| ≤ 1) →
    |D0 (4 ^ n * z) (cs3Dup n c)| ≤ 4 ^ n * |D0 z c| ∧
    |D1 (4 ^ n * z) (cs3Dup n c)| ≤ |D1 z c| + (4 ^ n - 1) / 3 * |D0 z c| ∧
    (0 < n → D2 (cs3Dup n c) = 0) := by
  induction n with
  | zero =>
    intro z c h2 hc
    simp only [pow_zero, one_mul, cs3Dup, sub_self, zero_div, zero_mul, add_zero, le_refl, true_and]
    exact fun h => absurd h (lt_irrefl 0)
  | succ n ih =>
    intro z c h2 hc
    obtain ⟨s2, s1, s0⟩ := defect_step z c
    have hc0 : |c.c0| ≤ 1 := by simpa [cs3Dup] using hc 0 (Nat.succ_pos n)
    have hc' : ∀ k < n, |(cs3Dup k (cs3DupStep c)).c0| ≤ 1 := fun k hk => by
      have := hc (k + 1) (Nat.succ_lt_succ hk); simpa [cs3Dup] using this
    obtain ⟨i0, i1, i2⟩ := ih (4 * z) (cs3DupStep c) s2 hc'
    rw [h2, mul_zero, add_zero] at s0
    have a0 : |D0 (4 * z) (cs3DupStep c)| ≤ 4 * |D0 z c| := by
      rw [s0, abs_mul, abs_mul]
      have : |(1 : K) + c.c0| ≤ 2 := by
        rw [abs_le] at hc0 ⊢; constructor <;> linarith
      have h2' : |(2 : K)| = 2 := abs_of_pos (by norm_num)
      rw [h2']
      nlinarith [abs_nonneg (D0 z c), abs_nonneg ((1 : K) + c.c0)]
    have a1 : |D1 (4 * z) (cs3DupStep c)| ≤ |D1 z c| + |D0 z c| := by
      rw [s1]
      calc |c.c0 * D1 z c + D0 z c| ≤ |c.c0 * D1 z c| + |D0 z c| := abs_add_le _ _
        _ ≤ |D1 z c| + |D0 z c| := by
          rw [abs_mul]; nlinarith [abs_nonneg (D1 z c), abs_nonneg c.c0]
    have e : (4 : K) ^ (n + 1) * z = 4 ^ n * (4 * z) := by ring
    have p4 : (0 : K) < 4 ^ n := by positivity
    have p41 : (0 : K) ≤ (4 ^ n - 1) / 3 := by
      have : (1 : K) ≤ 4 ^ n := one_le_pow₀ (by norm_num)
      apply div_nonneg <;> linarith
    simp only [cs3Dup]
    rw [e]
    refine ⟨?_, ?_, fun _ => ?_⟩
    · calc |D0 (4 ^ n * (4 * z)) (cs3Dup n (cs3DupStep c))| ≤ 4 ^ n * |D0 (4 * z) (cs3DupStep c)| := i0
        _ ≤ 4 ^ n * (4 * |D0 z c|) := by nlinarith
        _ = 4 ^ (n + 1) * |D0 z c| := by ring
    · calc |D1 (4 ^ n * (4 * z)) (cs3Dup n (cs3DupStep c))|
          ≤ |D1 (4 * z) (cs3DupStep c)| + (4 ^ n - 1) / 3 * |D0 (4 * z) (cs3DupStep c)| := i1
        _ ≤ (|D1 z c| + |D0 z c|) + (4 ^ n - 1) / 3 * (4 * |D0 z c|) := by nlinarith
        _ = |D1 z c| + (4 ^ (n + 1) - 1) / 3 * |D0 z c| := by ring
    · by_cases hn : 0 < n
      · exact i2 hn
      · have : n = 0 := by omega
        subst this; simpa [cs3Dup] using s2

end ord
end RV.Kepler
