import RV.Model.Janus
/-
  Reversal of the JANUS model (appendix A6 of DESIGN.md).  No Mathlib needed.

  * every elementary map `D_c`, `K_b` has the exact partial inverse `D_{-c}`, `K_{-b}`
    (sign symmetry of `* /`, odd truncation, `BitVec 64` addition is a group; `K` does not
    move positions, `D` does not move velocities);
  * negating `dt` negates every coefficient of the step position by position;
  * the list of elementary maps of one step is a palindrome when `gg` is (commutativity of `+`);
  * hence `ops(-dt) = ((ops dt).map inv).reverse`, and running `l` then `(l.map inv).reverse`
    is the identity; `n` steps by induction.
-/
set_option linter.unusedVariables false
set_option linter.unusedSectionVars false
namespace RV.Janus
open RV JFloat

variable {F : Type} [JFloat F]

/-- IEEE-754 sign-symmetry laws used by the reversal proof — hypotheses, not axioms.
    (round-to-nearest is symmetric under negation, so `*` and `/` commute with `-`; `+` is
    commutative; the C cast truncates toward zero, so it is odd.) -/
structure JLaws (F : Type) [JFloat F] : Prop where
  mul_neg_left : ∀ a b : F, mul (neg a) b = neg (mul a b)
  mul_neg_right : ∀ a b : F, mul a (neg b) = neg (mul a b)
  div_neg_left : ∀ a b : F, div (neg a) b = neg (div a b)
  add_comm : ∀ a b : F, add a b = add b a
  trunc_neg : ∀ a : F, truncToInt (neg a) = (truncToInt a).map (fun t => -t)

theorem add_neg_cancel64 (x t : I64) : x + t + -t = x := by
  rw [← BitVec.sub_eq_add_neg, BitVec.add_sub_cancel]

/-! ### elementary maps are partial bijections -/

def Op.inv : Op F → Op F
  | .drift c => .drift (neg c)
  | .kick b => .kick (neg b)

theorem driftP_inv (L : JLaws F) (c sp sv : F) (p p' : PInt)
    (h : driftP c sp sv p = some p') : driftP (neg c) sp sv p' = some p := by
  unfold driftP at h
  split at h
  · rename_i dx dy dz hx hy hz
    injection h with h
    subst h
    unfold driftP
    simp only [L.mul_neg_left, L.div_neg_left, L.trunc_neg, hx, hy, hz, Option.map_some,
      add_neg_cancel64]
  · exact absurd h (by simp)

theorem drift_inv (L : JLaws F) (c sp sv : F) :
    ∀ (s s' : List PInt), drift c sp sv s = some s' → drift (neg c) sp sv s' = some s
  | [], s', h => by
    simp only [drift] at h; injection h with h; subst h; rfl
  | p :: r, s', h => by
    unfold drift at h
    split at h
    · rename_i p' r' hp hr
      injection h with h
      subst h
      unfold drift
      rw [driftP_inv L c sp sv p p' hp, drift_inv L c sp sv r r' hr]
    · exact absurd h (by simp)

theorem driftP_vel (c sp sv : F) (p p' : PInt) (h : driftP c sp sv p = some p') :
    p'.vx = p.vx ∧ p'.vy = p.vy ∧ p'.vz = p.vz := by
  unfold driftP at h
  split at h
  · injection h with h; subst h; exact ⟨rfl, rfl, rfl⟩
  · exact absurd h (by simp)

theorem kickP_pos (b sv : F) (p p' : PInt) (a : V3 F) (h : kickP b sv p a = some p') :
    p'.x = p.x ∧ p'.y = p.y ∧ p'.z = p.z := by
  unfold kickP at h
  split at h
  · injection h with h; subst h; exact ⟨rfl, rfl, rfl⟩
  · exact absurd h (by simp)

theorem kickP_inv (L : JLaws F) (b sv : F) (p p' : PInt) (a : V3 F)
    (h : kickP b sv p a = some p') : kickP (neg b) sv p' a = some p := by
  unfold kickP at h
  split at h
  · rename_i dx dy dz hx hy hz
    injection h with h
    subst h
    unfold kickP
    simp only [L.mul_neg_left, L.div_neg_left, L.trunc_neg, hx, hy, hz, Option.map_some,
      add_neg_cancel64]
  · exact absurd h (by simp)

/-- a kick leaves the positions, hence the doubles the force routine sees, unchanged -/
theorem kickL_positions (b sv sp : F) :
    ∀ (s : List PInt) (A : List (V3 F)) (s' : List PInt), kickL b sv s A = some s' →
      positions sp s' = positions sp s
  | [], [], s', h => by
    simp only [kickL] at h; injection h with h; subst h; rfl
  | p :: r, a :: ar, s', h => by
    unfold kickL at h
    split at h
    · rename_i p' r' hp hr
      injection h with h
      subst h
      have ih := kickL_positions b sv sp r ar r' hr
      obtain ⟨e1, e2, e3⟩ := kickP_pos b sv p p' a hp
      simp only [positions, List.map_cons] at ih ⊢
      rw [ih, e1, e2, e3]
    · exact absurd h (by simp)
  | [], _ :: _, s', h => by simp [kickL] at h
  | _ :: _, [], s', h => by simp [kickL] at h

theorem kickL_inv (L : JLaws F) (b sv : F) :
    ∀ (s : List PInt) (A : List (V3 F)) (s' : List PInt), kickL b sv s A = some s' →
      kickL (neg b) sv s' A = some s
  | [], [], s', h => by
    simp only [kickL] at h; injection h with h; subst h; rfl
  | p :: r, a :: ar, s', h => by
    unfold kickL at h
    split at h
    · rename_i p' r' hp hr
      injection h with h
      subst h
      unfold kickL
      rw [kickP_inv L b sv p p' a hp, kickL_inv L b sv r ar r' hr]
    · exact absurd h (by simp)
  | [], _ :: _, s', h => by simp [kickL] at h
  | _ :: _, [], s', h => by simp [kickL] at h

theorem kick_inv (L : JLaws F) (cfg : Cfg F) (b : F) (s s' : List PInt)
    (h : kick cfg b s = some s') : kick cfg (neg b) s' = some s := by
  unfold kick at h ⊢
  rw [kickL_positions b cfg.scaleVel cfg.scalePos s _ s' h]
  exact kickL_inv L b cfg.scaleVel s _ s' h

theorem op_inv (L : JLaws F) (cfg : Cfg F) (op : Op F) (s s' : List PInt)
    (h : op.apply cfg s = some s') : op.inv.apply cfg s' = some s := by
  cases op with
  | drift c => exact drift_inv L c cfg.scalePos cfg.scaleVel s s' h
  | kick b => exact kick_inv L cfg b s s' h

/-! ### lists of elementary maps -/

theorem run_append (cfg : Cfg F) (l₁ l₂ : List (Op F)) (s : List PInt) :
    run cfg (l₁ ++ l₂) s = (run cfg l₁ s).bind (run cfg l₂) := by
  induction l₁ generalizing s with
  | nil => rfl
  | cons op r ih =>
    simp only [List.cons_append, run]
    cases h : op.apply cfg s with
    | none => rfl
    | some s' => exact ih s'

/-- running `l` and then the inverted maps in reverse order is the identity -/
theorem run_inv_reverse (L : JLaws F) (cfg : Cfg F) (l : List (Op F)) (s s' : List PInt)
    (h : run cfg l s = some s') : run cfg ((l.map Op.inv).reverse) s' = some s := by
  induction l generalizing s with
  | nil =>
    simp only [run] at h; injection h with h; subst h; rfl
  | cons op r ih =>
    simp only [run] at h
    cases h1 : op.apply cfg s with
    | none => rw [h1] at h; exact absurd h (by simp)
    | some s1 =>
      rw [h1] at h
      simp only [List.map_cons, List.reverse_cons, run_append, ih s1 h, Option.bind_some, run,
        op_inv L cfg op s s1 h1]

/-! ### negating `dt` negates every coefficient, position by position -/

theorem stageLoop_neg (L : JLaws F) (s : Scheme F) (dt : F) (n : Nat) :
    ∀ i, stageLoop s (neg dt) i n = (stageLoop s dt i n).map (List.map Op.inv) := by
  induction n with
  | zero => intro i; rfl
  | succ n ih =>
    intro i
    unfold stageLoop
    rw [ih (i + 1)]
    cases gg s (i - 1) <;> cases gg s i <;> cases stageLoop s dt (i + 1) n <;>
      simp [Op.inv, L.mul_neg_right, L.div_neg_left]

theorem stepOps_neg (L : JLaws F) (s : Scheme F) (dt : F) :
    stepOps s (neg dt) = (stepOps s dt).map (List.map Op.inv) := by
  unfold stepOps
  rw [stageLoop_neg L]
  cases gg s 0 <;> cases stageLoop s dt 1 (s.stages - 1) <;> cases gg s (s.stages - 1) <;>
    simp [Op.inv, L.mul_neg_right, L.div_neg_left]

/-! ### the list of one step is a palindrome when `gg` is -/

/-- `gg` is defined on all stages and reads the same from both ends -/
structure Palin (s : Scheme F) : Prop where
  stages_pos : 1 ≤ s.stages
  defined : ∀ i, i < s.stages → ∃ g, gg s i = some g
  mirror : ∀ i, i < s.stages → gg s (s.stages - 1 - i) = gg s i

/-- the elementary map at position `k` (0 … 2S) of a step, for a total gamma function -/
def opAt (g : Nat → F) (dt : F) (S k : Nat) : Op F :=
  if k % 2 = 1 then .kick (mul (g (k / 2)) dt)
  else if k = 0 then .drift (div (mul (g 0) dt) two)
  else if k = 2 * S then .drift (div (mul (g (S - 1)) dt) two)
  else .drift (div (mul (add (g (k / 2 - 1)) (g (k / 2))) dt) two)

theorem stageLoop_eq (s : Scheme F) (dt : F) (g : Nat → F)
    (hg : ∀ i, i < s.stages → gg s i = some (g i)) (n : Nat) :
    ∀ i, 1 ≤ i → i + n ≤ s.stages →
      stageLoop s dt i n = some ((List.range' (2 * i) (2 * n)).map (opAt g dt s.stages)) := by
  induction n with
  | zero => intro i _ _; rfl
  | succ n ih =>
    intro i h1 h2
    unfold stageLoop
    rw [hg (i - 1) (by omega), hg i (by omega), ih (i + 1) (by omega) (by omega)]
    have e : 2 * (n + 1) = (2 * n + 1) + 1 := by omega
    rw [e, List.range'_succ, List.range'_succ]
    have e2 : 2 * i + 1 + 1 = 2 * (i + 1) := by omega
    simp only [List.map_cons, e2]
    have o1 : opAt g dt s.stages (2 * i) = .drift (div (mul (add (g (i - 1)) (g i)) dt) two) := by
      unfold opAt
      have a1 : ¬ (2 * i % 2 = 1) := by omega
      have a2 : ¬ (2 * i = 0) := by omega
      have a3 : ¬ (2 * i = 2 * s.stages) := by omega
      have a4 : 2 * i / 2 = i := by omega
      simp only [a1, a2, a3, a4, if_false]
    have o2 : opAt g dt s.stages (2 * i + 1) = .kick (mul (g i) dt) := by
      unfold opAt
      have a1 : (2 * i + 1) % 2 = 1 := by omega
      have a4 : (2 * i + 1) / 2 = i := by omega
      simp only [a1, a4, if_true]
    rw [o1, o2]

theorem stepOps_eq (s : Scheme F) (dt : F) (g : Nat → F) (hpos : 1 ≤ s.stages)
    (hg : ∀ i, i < s.stages → gg s i = some (g i)) :
    stepOps s dt = some ((List.range' 0 (2 * s.stages + 1)).map (opAt g dt s.stages)) := by
  unfold stepOps
  rw [hg 0 (by omega), hg (s.stages - 1) (by omega),
    stageLoop_eq s dt g hg (s.stages - 1) 1 (by omega) (by omega)]
  have e : 2 * s.stages + 1 = 2 + (2 * (s.stages - 1) + 1) := by omega
  have r1 : List.range' 0 (2 * s.stages + 1) =
      0 :: 1 :: (List.range' 2 (2 * (s.stages - 1)) ++ [2 * s.stages]) := by
    rw [e, ← List.range'_append_1 (s := 0) (m := 2) (n := 2 * (s.stages - 1) + 1)]
    have : List.range' 0 2 = [0, 1] := by decide
    rw [this, List.range'_concat]
    have e3 : 0 + 2 + 1 * (2 * (s.stages - 1)) = 2 * s.stages := by omega
    simp only [Nat.zero_add, List.cons_append, List.nil_append] at e3 ⊢
    have e4 : 2 + 1 * (2 * (s.stages - 1)) = 2 * s.stages := by omega
    rw [e4]
  rw [r1]
  simp only [List.map_cons, List.map_append, List.map_nil, Nat.mul_one]
  have o0 : opAt g dt s.stages 0 = .drift (div (mul (g 0) dt) two) := by
    unfold opAt; simp
  have o1 : opAt g dt s.stages 1 = .kick (mul (g 0) dt) := by
    unfold opAt; simp
  have oS : opAt g dt s.stages (2 * s.stages) = .drift (div (mul (g (s.stages - 1)) dt) two) := by
    unfold opAt
    have a1 : ¬ (2 * s.stages % 2 = 1) := by omega
    have a2 : ¬ (2 * s.stages = 0) := by omega
    simp only [a1, a2, if_false, if_true]
  rw [o0, o1, oS]

theorem opAt_mirror (L : JLaws F) (g : Nat → F) (dt : F) (S : Nat) (hS : 1 ≤ S)
    (hm : ∀ i, i < S → g (S - 1 - i) = g i) (k : Nat) (hk : k ≤ 2 * S) :
    opAt g dt S (2 * S - k) = opAt g dt S k := by
  unfold opAt
  by_cases p : k % 2 = 1
  · have p' : (2 * S - k) % 2 = 1 := by omega
    have e : (2 * S - k) / 2 = S - 1 - k / 2 := by omega
    simp only [p, p', if_true, e]
    rw [hm (k / 2) (by omega)]
  · have p' : ¬ ((2 * S - k) % 2 = 1) := by omega
    simp only [p, p', if_false]
    by_cases k0 : k = 0
    · subst k0
      have a2 : ¬ (2 * S - 0 = 0) := by omega
      have a3 : 2 * S - 0 = 2 * S := by omega
      have := hm 0 (by omega)
      simp only [Nat.sub_zero] at this
      simp only [a3, if_true, this]
      split <;> rfl
    · by_cases kS : k = 2 * S
      · subst kS
        have a1 : 2 * S - 2 * S = 0 := by omega
        have a2 : ¬ (2 * S = 0) := by omega
        simp only [a1, a2, if_false, if_true]
        have := hm 0 (by omega)
        simp only [Nat.sub_zero] at this
        rw [this]
      · have a1 : ¬ (2 * S - k = 0) := by omega
        have a2 : ¬ (2 * S - k = 2 * S) := by omega
        simp only [k0, kS, a1, a2, if_false]
        have e1 : (2 * S - k) / 2 - 1 = S - 1 - k / 2 := by omega
        have e2 : (2 * S - k) / 2 = S - 1 - (k / 2 - 1) := by omega
        rw [e1, e2, hm (k / 2) (by omega), hm (k / 2 - 1) (by omega), L.add_comm]

theorem map_range'_reverse {α : Type} (f : Nat → α) (n : Nat) (hf : ∀ k, k ≤ n → f (n - k) = f k) :
    ((List.range' 0 (n + 1)).map f).reverse = (List.range' 0 (n + 1)).map f := by
  apply List.ext_getElem
  · simp
  · intro i h1 h2
    simp only [List.length_reverse, List.length_map, List.length_range'] at h1
    simp only [List.getElem_reverse, List.getElem_map, List.getElem_range', List.length_map,
      List.length_range', Nat.zero_add, Nat.one_mul]
    have : n + 1 - 1 - i = n - i := by omega
    rw [this]
    exact hf i (by omega)

/-- the list of elementary maps of one step reads the same in both directions -/
theorem stepOps_palindrome (L : JLaws F) (s : Scheme F) (hp : Palin s) (dt : F) (ops : List (Op F))
    (h : stepOps s dt = some ops) : ops.reverse = ops := by
  -- a total gamma function agreeing with `gg` on the stages
  let g : Nat → F := fun i => match gg s i with | some x => x | none => dt
  have hg : ∀ i, i < s.stages → gg s i = some (g i) := by
    intro i hi
    obtain ⟨x, hx⟩ := hp.defined i hi
    simp only [g, hx]
  have hm : ∀ i, i < s.stages → g (s.stages - 1 - i) = g i := by
    intro i hi
    have := hp.mirror i hi
    simp only [g, this]
  rw [stepOps_eq s dt g hp.stages_pos hg] at h
  injection h with h
  subst h
  exact map_range'_reverse _ _ (fun k hk => opAt_mirror L g dt s.stages hp.stages_pos hm k hk)

/-! ### one step, n steps -/

theorem step_reverse (L : JLaws F) (cfg : Cfg F) (s : Scheme F) (hp : Palin s) (dt : F)
    (st st' : List PInt) (h : step cfg s dt st = some st') : step cfg s (neg dt) st' = some st := by
  unfold step at h ⊢
  rw [stepOps_neg L]
  cases ho : stepOps s dt with
  | none => rw [ho] at h; exact absurd h (by simp)
  | some ops =>
    rw [ho] at h
    simp only [Option.map_some]
    have hpal := stepOps_palindrome L s hp dt ops ho
    have := run_inv_reverse L cfg ops st st' h
    rw [← List.map_reverse, hpal] at this
    exact this

theorem steps_succ_right (cfg : Cfg F) (s : Scheme F) (dt : F) (n : Nat) (st : List PInt) :
    steps cfg s dt (n + 1) st = (steps cfg s dt n st).bind (step cfg s dt) := by
  induction n generalizing st with
  | zero =>
    have e1 : steps cfg s dt (0 + 1) st =
        match step cfg s dt st with | some st' => steps cfg s dt 0 st' | none => none := rfl
    have e0 : (steps cfg s dt 0 st).bind (step cfg s dt) = step cfg s dt st := rfl
    rw [e1, e0]
    cases step cfg s dt st <;> rfl
  | succ n ih =>
    have e1 : steps cfg s dt (n + 1 + 1) st =
        match step cfg s dt st with | some st' => steps cfg s dt (n + 1) st' | none => none := rfl
    have e2 : steps cfg s dt (n + 1) st =
        match step cfg s dt st with | some st' => steps cfg s dt n st' | none => none := rfl
    rw [e1, e2]
    cases step cfg s dt st with
    | none => rfl
    | some st1 => exact ih st1

theorem steps_reverse (L : JLaws F) (cfg : Cfg F) (s : Scheme F) (hp : Palin s) (dt : F) (n : Nat) :
    ∀ (st st' : List PInt), steps cfg s dt n st = some st' → steps cfg s (neg dt) n st' = some st := by
  induction n with
  | zero =>
    intro st st' h
    simp only [steps] at h ⊢
    injection h with h; rw [h]
  | succ n ih =>
    intro st st' h
    rw [steps] at h
    cases h1 : step cfg s dt st with
    | none => rw [h1] at h; exact absurd h (by simp)
    | some st1 =>
      rw [h1] at h
      dsimp only at h
      rw [steps_succ_right, ih st1 st' h, Option.bind_some]
      exact step_reverse L cfg s hp dt st st1 h1

/-! ### the recalculation flag: an undisturbed run never re-derives the grid state -/

theorem drift_length (c sp sv : F) :
    ∀ (s s' : List PInt), drift c sp sv s = some s' → s'.length = s.length
  | [], s', h => by simp only [drift] at h; injection h with h; subst h; rfl
  | p :: r, s', h => by
    unfold drift at h
    split at h
    · rename_i p' r' hp hr
      injection h with h; subst h
      simp only [List.length_cons, drift_length c sp sv r r' hr]
    · exact absurd h (by simp)

theorem kickL_length (b sv : F) :
    ∀ (s : List PInt) (A : List (V3 F)) (s' : List PInt), kickL b sv s A = some s' → s'.length = s.length
  | [], [], s', h => by simp only [kickL] at h; injection h with h; subst h; rfl
  | p :: r, a :: ar, s', h => by
    unfold kickL at h
    split at h
    · rename_i p' r' hp hr
      injection h with h; subst h
      simp only [List.length_cons, kickL_length b sv r ar r' hr]
    · exact absurd h (by simp)
  | [], _ :: _, s', h => by simp [kickL] at h
  | _ :: _, [], s', h => by simp [kickL] at h

theorem run_length (cfg : Cfg F) (l : List (Op F)) :
    ∀ (s s' : List PInt), run cfg l s = some s' → s'.length = s.length := by
  induction l with
  | nil => intro s s' h; simp only [run] at h; injection h with h; rw [h]
  | cons op r ih =>
    intro s s' h
    simp only [run] at h
    cases h1 : op.apply cfg s with
    | none => rw [h1] at h; exact absurd h (by simp)
    | some s1 =>
      rw [h1] at h
      have e1 : s1.length = s.length := by
        cases op with
        | drift c => exact drift_length c _ _ s s1 h1
        | kick b => exact kickL_length b _ s _ s1 h1
      rw [ih s1 s' h, e1]

theorem step_length (cfg : Cfg F) (s : Scheme F) (dt : F) (st st' : List PInt)
    (h : step cfg s dt st = some st') : st'.length = st.length := by
  unfold step at h
  cases ho : stepOps s dt with
  | none => rw [ho] at h; exact absurd h (by simp)
  | some ops => rw [ho] at h; exact run_length cfg ops st st' h

/-- flag clear and `N_allocated == N`: `part1` does not touch the grid state -/
theorem part1Sync_clean (sp sv : F) (js : JState) (hr : js.recalc = false)
    (hn : js.nAllocated = js.pInt.length) :
    part1Sync sp sv (toDouble sp sv js.pInt) js = some js := by
  unfold part1Sync
  simp [hr, hn, toDouble]

/-- an undisturbed run of the full step (flag, `N_allocated`, doubles) is the run of `step` on the
    grid state; the flag stays clear -/
theorem stepsFull_eq (cfg : Cfg F) (s : Scheme F) (dt : F) (n : Nat) :
    ∀ (js : JState), js.recalc = false → js.nAllocated = js.pInt.length →
      stepsFull cfg s dt n js = (steps cfg s dt n js.pInt).map (fun st => { js with pInt := st }) := by
  induction n with
  | zero => intro js _ _; rfl
  | succ n ih =>
    intro js hr hn
    unfold stepsFull stepFull
    rw [part1Sync_clean cfg.scalePos cfg.scaleVel js hr hn]
    simp only [steps]
    cases h1 : step cfg s dt js.pInt with
    | none => rfl
    | some st1 =>
      simp only []
      have hl := step_length cfg s dt js.pInt st1 h1
      rw [ih { js with pInt := st1 } hr (by simp only []; rw [hl]; exact hn)]

theorem steps_length (cfg : Cfg F) (s : Scheme F) (dt : F) (n : Nat) :
    ∀ (st st' : List PInt), steps cfg s dt n st = some st' → st'.length = st.length := by
  induction n with
  | zero => intro st st' h; simp only [steps] at h; injection h with h; rw [h]
  | succ n ih =>
    intro st st' h
    rw [steps] at h
    cases h1 : step cfg s dt st with
    | none => rw [h1] at h; exact absurd h (by simp)
    | some st1 =>
      rw [h1] at h
      dsimp only at h
      rw [ih st1 st' h, step_length cfg s dt st st1 h1]

theorem stepsFull_reverse (L : JLaws F) (cfg : Cfg F) (s : Scheme F) (hp : Palin s) (dt : F) (n : Nat)
    (js js' : JState) (hr : js.recalc = false) (hn : js.nAllocated = js.pInt.length)
    (h : stepsFull cfg s dt n js = some js') :
    stepsFull cfg s (neg dt) n js' = some js ∧ js'.recalc = false ∧
      js'.nAllocated = js'.pInt.length := by
  rw [stepsFull_eq cfg s dt n js hr hn] at h
  cases h1 : steps cfg s dt n js.pInt with
  | none => rw [h1] at h; exact absurd h (by simp)
  | some st' =>
    rw [h1] at h
    simp only [Option.map_some] at h
    injection h with h
    subst h
    have hl := steps_length cfg s dt n js.pInt st' h1
    refine ⟨?_, hr, ?_⟩
    · have hn' : ({ js with pInt := st' } : JState).nAllocated = ({ js with pInt := st' } : JState).pInt.length := by
        show js.nAllocated = st'.length
        rw [hl]; exact hn
      rw [stepsFull_eq cfg s (neg dt) n { js with pInt := st' } hr hn']
      show (steps cfg s (neg dt) n st').map _ = _
      rw [steps_reverse L cfg s hp dt n js.pInt st' h1]
      rfl
    · show js.nAllocated = st'.length
      rw [hl]; exact hn

/-! ### velocity-dependent forces: the model with `accV` restricts to the position-only model -/

theorem positions_of_toDouble (sp sv : F) (s : List PInt) :
    (toDouble sp sv s).map (fun d => (⟨d.x, d.y, d.z⟩ : V3 F)) = positions sp s := by
  simp only [toDouble, positions, List.map_map]
  rfl

theorem runV_eq_run (cfg : Cfg F) (accV : List (PDbl F) → List (V3 F))
    (h : ∀ d, accV d = cfg.acc (d.map (fun q => (⟨q.x, q.y, q.z⟩ : V3 F)))) (l : List (Op F)) :
    ∀ st, runV cfg accV l st = run cfg l st := by
  induction l with
  | nil => intro st; rfl
  | cons op r ih =>
    intro st
    have e : op.applyV cfg accV st = op.apply cfg st := by
      cases op with
      | drift c => rfl
      | kick b =>
        show kickL b cfg.scaleVel st (accV _) = kickL b cfg.scaleVel st (cfg.acc _)
        rw [h, positions_of_toDouble]
    simp only [runV, run, e]
    cases op.apply cfg st with
    | none => rfl
    | some s' => exact ih s'

theorem stepsV_eq_steps (cfg : Cfg F) (accV : List (PDbl F) → List (V3 F))
    (h : ∀ d, accV d = cfg.acc (d.map (fun q => (⟨q.x, q.y, q.z⟩ : V3 F)))) (s : Scheme F) (dt : F) (n : Nat) :
    ∀ st, stepsV cfg accV s dt n st = steps cfg s dt n st := by
  have hs : ∀ st, stepV cfg accV s dt st = step cfg s dt st := by
    intro st
    unfold stepV step
    cases stepOps s dt with
    | none => rfl
    | some ops => exact runV_eq_run cfg accV h ops st
  induction n with
  | zero => intro st; rfl
  | succ n ih =>
    intro st
    simp only [stepsV, steps, hs]
    cases step cfg s dt st with
    | none => rfl
    | some st1 => exact ih st1

/-! ### palindromes from the index function alone -/

/-- the scheme a table denotes, its constants read through an arbitrary `f` -/
def schemeOf {F α : Type} (f : α → F) (order stages : Nat) (gamma : List α) : Scheme F :=
  ⟨order, stages, gamma.map f⟩


/-- the finite fact decided per table: `gg` stays inside `gamma[len]` and its index is mirror
    symmetric on the stages -/
def IndexPalin (stages len : Nat) : Prop :=
  1 ≤ stages ∧ ∀ i, i < stages →
    ggIndex stages i < len ∧ ggIndex stages (stages - 1 - i) = ggIndex stages i

instance (stages len : Nat) : Decidable (IndexPalin stages len) := by
  unfold IndexPalin; exact inferInstance

theorem palin_of_index (s : Scheme F) (h : IndexPalin s.stages s.gamma.length) : Palin s where
  stages_pos := h.1
  defined := by
    intro i hi
    have hb := (h.2 i hi).1
    exact ⟨s.gamma[ggIndex s.stages i], by simp [gg, hb]⟩
  mirror := by
    intro i hi
    simp only [gg, (h.2 i hi).2]

/-! ### a concrete instance of the laws: three-decimal fixed point numbers as "doubles",
    every operation rounding toward zero -/

@[instance_reducible] def intJFloat : JFloat Int where
  add := (· + ·)
  mul a b := (a * b).tdiv 1000
  div a b := (a * 1000).tdiv b
  neg := (- ·)
  two := 2000
  ofInt i := i.toInt * 1000
  truncToInt a := if (a.tdiv 1000).natAbs < 2 ^ 63 then some (BitVec.ofInt 64 (a.tdiv 1000)) else none

theorem intLaws : @JLaws Int intJFloat :=
  @JLaws.mk Int intJFloat
    (fun a b => by
      show ((-a) * b).tdiv 1000 = -((a * b).tdiv 1000)
      rw [Int.neg_mul, Int.neg_tdiv])
    (fun a b => by
      show (a * (-b)).tdiv 1000 = -((a * b).tdiv 1000)
      rw [Int.mul_neg, Int.neg_tdiv])
    (fun a b => by
      show ((-a) * 1000).tdiv b = -((a * 1000).tdiv b)
      rw [Int.neg_mul, Int.neg_tdiv])
    (fun a b => Int.add_comm a b)
    (fun a => by
      show (if ((-a).tdiv 1000).natAbs < 2 ^ 63 then some (BitVec.ofInt 64 ((-a).tdiv 1000)) else none) =
        (if (a.tdiv 1000).natAbs < 2 ^ 63 then some (BitVec.ofInt 64 (a.tdiv 1000)) else none).map
          (fun t => -t)
      rw [Int.neg_tdiv, Int.natAbs_neg]
      split
      · simp [BitVec.ofInt_neg]
      · rfl)

end RV.Janus
