import RV.Proofs.Orbit
/-
  C11 (ii): reader ∘ constructor in exact arithmetic, on the model functions themselves.
-/
set_option linter.unusedSimpArgs false
set_option linter.unusedVariables false
set_option linter.unusedSectionVars false
set_option linter.unusedTactic false
namespace RV.Orbit
variable {K : Type} [Field K] [LinearOrder K] [IsStrictOrderedRing K]

omit [LinearOrder K] [IsStrictOrderedRing K] in
theorem evec_component (MU r a v0 e cfv VS dot W VW dir : K) (hr : r ≠ 0) (hMU : MU ≠ 0)
    (hmur : MU / r = v0 ^ 2 * (1 + e * cfv)) (hMUr : v0 ^ 2 * r * (1 + e * cfv) = MU)
    (hvs : VS = MU * (2 / r - 1 / a))
    (A : (VS - v0 ^ 2 * (1 + e * cfv)) * W - dot * VW = v0 ^ 2 * r * (1 + e * cfv) * e * dir) :
    1 / MU * ((MU * (2 / r - 1 / a) - MU / r) * W - r * (dot / r) * VW) = e * dir := by
  have h1 : r * (dot / r) = dot := by field_simp
  rw [h1, hmur, ← hvs, A, hMUr]
  field_simp

theorem libm_fabs (L : Libm K) (x : K) : @ScalarT.fabs K L.orbitK.toScalarT x = L.fabs x := rfl

/-- reader ∘ constructor in exact arithmetic, on the model functions themselves: the
    semi-major axis, the distance, the eccentricity vector and the angular-momentum vector
    that `orbitFromParticle` computes for the particle `fromOrbit` built are the ones of
    the elements it was built from -/
theorem reader_of_constructor (L : Libm K)
    (htrig : ∀ x, L.cos x ^ 2 + L.sin x ^ 2 = 1)
    (hsqrt : ∀ x, 0 ≤ x → 0 ≤ L.sqrt x ∧ L.sqrt x ^ 2 = x)
    (v : Variant) (G : K) (pr : Part K) (m a e inc Om om f t0 : K) (P : Part K) (o : Orb K)
    (hP : @fromOrbit K L.orbitK v G pr m a e inc Om om f = .ok P)
    (ho : @orbitFromParticle K L.orbitK v G P pr t0 = .ok o)
    (hmu : 0 < G * (m + pr.m)) (ha : a ≠ 0) (hasym : v.asymLe = false → e * L.cos f ≠ -1) :
    o.d = a * (1 - e * e) / (1 + e * L.cos f) ∧ o.a = a ∧
    o.ex = e * (L.cos Om * L.cos om - L.sin Om * L.sin om * L.cos inc) ∧
    o.ey = e * (L.sin Om * L.cos om + L.cos Om * L.sin om * L.cos inc) ∧
    o.ez = e * (L.sin om * L.sin inc) ∧ o.e = e := by
  obtain ⟨hchk, hPc⟩ := fromOrbit_ok L v G pr m a e inc Om om f P hP
  obtain ⟨he, hd, hpos, hdpos⟩ := guard_denoms _ _ _ _ _ _ hchk (fun _ => ha) hasym
  have hv0 : 0 ≤ v0sq G pr.m m a e := by
    rw [v0sq_eq, div_div]; exact div_nonneg (le_of_lt hmu) (le_of_lt hpos)
  obtain ⟨hs0, hs2⟩ := hsqrt _ hv0
  have R := core_relations G pr m a e (L.cos Om) (L.sin Om) (L.cos om) (L.sin om) (L.cos f) (L.sin f)
    (L.cos inc) (L.sin inc) (L.sqrt (v0sq G pr.m m a e)) (htrig _) (htrig _) (htrig _) (htrig _) ha he hd (by rw [← v0sq_eq]; exact hs2)
  obtain ⟨e1, e2, e3, e4, e5, e6, e7⟩ := core_rel pr m a e (L.cos Om) (L.sin Om) (L.cos om) (L.sin om)
    (L.cos f) (L.sin f) (L.cos inc) (L.sin inc) (L.sqrt (v0sq G pr.m m a e))
  rw [← hPc] at R e1 e2 e3 e4 e5 e6 e7
  rw [radius_eq] at e1 e2 e3
  obtain ⟨R1, R2, R3, ⟨R4, _, _, _⟩, R5⟩ := R
  -- abbreviations
  generalize hv0def : L.sqrt (v0sq G pr.m m a e) = v0 at *
  rw [v0sq_eq] at hs2
  generalize hrdef : a * (1 - e * e) / (1 + e * L.cos f) = r at *
  have hr_pos : 0 < r := by rw [← hrdef]; exact div_pos hpos hdpos
  have hrd : r * (1 + e * L.cos f) = a * (1 - e * e) := by rw [← hrdef]; field_simp
  have hmu2 : v0 ^ 2 * (a * (1 - e * e)) = G * (m + pr.m) := by
    have he' : (1 : K) - e ^ 2 ≠ 0 := by rwa [pow_two]
    rw [hs2]; field_simp
  have hmur : G * (m + pr.m) / r = v0 ^ 2 * (1 + e * L.cos f) := by
    rw [div_eq_iff (ne_of_gt hr_pos), ← hmu2]; linear_combination (-(v0 ^ 2)) * hrd
  -- the reader
  unfold orbitFromParticle at ho
  split at ho
  · cases ho
  simp only at ho
  split at ho
  · cases ho
  injection ho with ho
  subst ho
  simp only [orbitBody, evec, invariants, libm_sqrt, sc_hadd, sc_hsub, sc_hmul, sc_hdiv, sc_hneg, sc_neg, sc_one, two, sc_ofNat,
    Nat.cast_ofNat, e7]
  have hsum : (P.x - pr.x) * (P.x - pr.x) + (P.y - pr.y) * (P.y - pr.y) + (P.z - pr.z) * (P.z - pr.z) = r * r := by
    linear_combination R1
  have hd_eq : L.sqrt ((P.x - pr.x) * (P.x - pr.x) + (P.y - pr.y) * (P.y - pr.y) + (P.z - pr.z) * (P.z - pr.z)) = r := by
    rw [hsum]
    obtain ⟨s0, s2⟩ := hsqrt (r * r) (mul_self_nonneg r)
    have : (L.sqrt (r * r) - r) * (L.sqrt (r * r) + r) = 0 := by linear_combination s2
    rcases mul_eq_zero.mp this with h | h
    · linarith
    · exfalso; linarith
  have hvsq : (P.vx - pr.vx) * (P.vx - pr.vx) + (P.vy - pr.vy) * (P.vy - pr.vy) + (P.vz - pr.vz) * (P.vz - pr.vz)
      = G * (m + pr.m) * (2 / r - 1 / a) := by linear_combination R2
  rw [hd_eq, hvsq]
  have hMU0 : G * (m + pr.m) ≠ 0 := ne_of_gt hmu
  have hr0 : r ≠ 0 := ne_of_gt hr_pos
  have hMUr : v0 ^ 2 * r * (1 + e * L.cos f) = G * (m + pr.m) := by
    rw [← hmu2]; linear_combination (v0 ^ 2) * hrd
  have X1 : P.x - pr.x = relX r (L.cos Om) (L.sin Om) (L.cos om) (L.sin om) (L.cos f) (L.sin f) (L.cos inc) := e1
  have Y1 : P.y - pr.y = relY r (L.cos Om) (L.sin Om) (L.cos om) (L.sin om) (L.cos f) (L.sin f) (L.cos inc) := e2
  have Z1 : P.z - pr.z = relZ r (L.cos om) (L.sin om) (L.cos f) (L.sin f) (L.sin inc) := e3
  have VX1 : P.vx - pr.vx = relVX v0 e (L.cos Om) (L.sin Om) (L.cos om) (L.sin om) (L.cos f) (L.sin f) (L.cos inc) := e4
  have VY1 : P.vy - pr.vy = relVY v0 e (L.cos Om) (L.sin Om) (L.cos om) (L.sin om) (L.cos f) (L.sin f) (L.cos inc) := e5
  have VZ1 : P.vz - pr.vz = relVZ v0 e (L.cos om) (L.sin om) (L.cos f) (L.sin f) (L.sin inc) := e6
  have Ax := rel_ex r v0 e (L.cos Om) (L.sin Om) (L.cos om) (L.sin om) (L.cos f) (L.sin f) (L.cos inc) (L.sin inc)
    (htrig _) (htrig _) (htrig _) (htrig _)
  have Ay := rel_ey r v0 e (L.cos Om) (L.sin Om) (L.cos om) (L.sin om) (L.cos f) (L.sin f) (L.cos inc) (L.sin inc)
    (htrig _) (htrig _) (htrig _) (htrig _)
  have Az := rel_ez r v0 e (L.cos Om) (L.sin Om) (L.cos om) (L.sin om) (L.cos f) (L.sin f) (L.cos inc) (L.sin inc)
    (htrig _) (htrig _) (htrig _) (htrig _)
  rw [← X1, ← Y1, ← Z1, ← VX1, ← VY1, ← VZ1] at Ax Ay Az
  have hex := evec_component _ r a v0 e (L.cos f) _ _ _ _ _ hr0 hMU0 hmur hMUr R2 Ax
  have hey := evec_component _ r a v0 e (L.cos f) _ _ _ _ _ hr0 hMU0 hmur hMUr R2 Ay
  have hez := evec_component _ r a v0 e (L.cos f) _ _ _ _ _ hr0 hMU0 hmur hMUr R2 Az
  rw [hex, hey, hez]
  have he0 : 0 ≤ e := ((check_none_iff _ _ _ _ _ _).mp hchk).2.1
  refine ⟨rfl, ?_, rfl, rfl, rfl, ?_⟩
  · generalize G * (m + pr.m) = MU at hMU0 ⊢
    have h1 : MU * (2 / r - 1 / a) - 2 * (MU / r) = -(MU / a) := by
      field_simp; ring
    rw [h1, neg_div_neg_eq]
    field_simp
  · have hu := peri_dir_unit (L.cos Om) (L.sin Om) (L.cos om) (L.sin om) (L.cos inc) (L.sin inc) (htrig _) (htrig _) (htrig _)
    have : e * (L.cos Om * L.cos om - L.sin Om * L.sin om * L.cos inc) * (e * (L.cos Om * L.cos om - L.sin Om * L.sin om * L.cos inc)) +
        e * (L.sin Om * L.cos om + L.cos Om * L.sin om * L.cos inc) * (e * (L.sin Om * L.cos om + L.cos Om * L.sin om * L.cos inc)) +
        e * (L.sin om * L.sin inc) * (e * (L.sin om * L.sin inc)) = e * e := by
      linear_combination (e * e) * hu
    rw [this]
    obtain ⟨s0, s2⟩ := hsqrt (e * e) (mul_self_nonneg e)
    have h3 : (L.sqrt (e * e) - e) * (L.sqrt (e * e) + e) = 0 := by linear_combination s2
    rcases mul_eq_zero.mp h3 with h | h
    · linarith
    · have : L.sqrt (e * e) = 0 := by linarith
      linarith
end RV.Orbit
