import RV.Proofs.VarDeriv
/- second derivatives, classical elements: generated proofs (scripted, one template), part 1 -/
set_option linter.unusedVariables false
set_option linter.unusedSimpArgs false
set_option linter.unusedSectionVars false
set_option linter.unusedTactic false
set_option linter.unreachableTactic false
namespace RV.Var
open RV RV.Gen.C16Deriv
variable {K : Type} [Field K] [CharZero K]

set_option hygiene false in
macro "orb_gen_at" : tactic => `(tactic| (
  generalize o.sin Om = sO at *
  generalize o.cos Om = cO at *
  generalize o.sin om = so at *
  generalize o.cos om = co at *
  generalize o.sin inc = si at *
  generalize o.cos inc = ci at *
  generalize o.sin f = sf at *
  generalize o.cos f = cf at *))

set_option maxHeartbeats 1600000 in
theorem deriv2_m_e_is_eps (o : DOps K) (sgn : K → K) (G m M a e inc Om om f : K)
    (hr : 1 + e * o.cos f ≠ 0) (he : 1 - e * e ≠ 0) (ha : a ≠ 0) (hm : m + M ≠ 0) (hV0 : o.sqrt (G * (m + M) / a / (1 - e * e)) ≠ 0) (hV2 : o.sqrt (G * (m + M) / a / (1 - e * e)) * o.sqrt (G * (m + M) / a / (1 - e * e)) = G * (m + M) / a / (1 - e * e)) (hE : o.sqrt (1 - e * e) * o.sqrt (1 - e * e) = 1 - e * e) (hA : o.sqrt (G * (m + M) / a) = o.sqrt (G * (m + M) / a / (1 - e * e)) * o.sqrt (1 - e * e)) :
    d_m_e o G m M a e inc Om om f
      = epsP72 (orbMap (lift2 o sgn) (c2 G) (v1 m) (c2 M) (c2 a) (v2 e) (c2 inc) (c2 Om) (c2 om) (c2 f)) := by
  have h2 : (2:K) ≠ 0 := by norm_num
  deriv2_unfold [d_m_e]
  try simp only [hA]
  orb_gen_at
  generalize m + M = T at *
  generalize o.sqrt (G * T / a / (1 - e * e)) = V0 at *
  generalize o.sqrt (1 - e * e) = Eo at *
  have he' : (1:K) - e ^ 2 ≠ 0 := by rw [sq]; exact he
  refine ⟨?_, ?_, ?_, ?_, ?_, ?_, ?_⟩
  all_goals try (first | trivial | ring1 | (field_simp; ring1) | (field_simp; done))
  all_goals (
    have hEo : Eo ≠ 0 := by intro h0; rw [h0] at hE; simp at hE; exact he hE.symm
    rw [← hE] at hV2 ⊢
    have eG : G = V0 * V0 * a * (Eo * Eo) / T := by first | (field_simp at hV2 ⊢; linear_combination -hV2) | (field_simp at hV2 ⊢)
    subst eG
    first | trivial | ring1 | (field_simp; ring1) | (field_simp; done))

set_option maxHeartbeats 1600000 in
theorem deriv2_m_inc_is_eps (o : DOps K) (sgn : K → K) (G m M a e inc Om om f : K)
    (hr : 1 + e * o.cos f ≠ 0) (he : 1 - e * e ≠ 0) (ha : a ≠ 0) (hm : m + M ≠ 0) (hV0 : o.sqrt (G * (m + M) / a / (1 - e * e)) ≠ 0) (hV2 : o.sqrt (G * (m + M) / a / (1 - e * e)) * o.sqrt (G * (m + M) / a / (1 - e * e)) = G * (m + M) / a / (1 - e * e)) (hTm : o.sqrt (m + M) ≠ 0) (hZ : o.sqrt (G / a / (1 - e * e)) = o.sqrt (G * (m + M) / a / (1 - e * e)) / (m + M) * o.sqrt (m + M)) :
    d_m_inc o G m M a e inc Om om f
      = epsP72 (orbMap (lift2 o sgn) (c2 G) (v1 m) (c2 M) (c2 a) (c2 e) (v2 inc) (c2 Om) (c2 om) (c2 f)) := by
  have h2 : (2:K) ≠ 0 := by norm_num
  deriv2_unfold [d_m_inc]
  try simp only [hZ]
  orb_gen_at
  generalize m + M = T at *
  generalize o.sqrt (G * T / a / (1 - e * e)) = V0 at *
  generalize o.sqrt T = Tm at *
  have he' : (1:K) - e ^ 2 ≠ 0 := by rw [sq]; exact he
  refine ⟨?_, ?_, ?_, ?_, ?_, ?_, ?_⟩
  all_goals try (first | trivial | ring1 | (field_simp; ring1) | (field_simp; done))
  all_goals (
    have eG : G = V0 * V0 * a * (1 - e * e) / T := by first | (field_simp at hV2 ⊢; linear_combination -hV2) | (field_simp at hV2 ⊢)
    subst eG
    first | trivial | ring1 | (field_simp; ring1) | (field_simp; done))

set_option maxHeartbeats 1600000 in
theorem deriv2_m_Omega_is_eps (o : DOps K) (sgn : K → K) (G m M a e inc Om om f : K)
    (hr : 1 + e * o.cos f ≠ 0) (he : 1 - e * e ≠ 0) (ha : a ≠ 0) (hm : m + M ≠ 0) (hV0 : o.sqrt (G * (m + M) / a / (1 - e * e)) ≠ 0) (hV2 : o.sqrt (G * (m + M) / a / (1 - e * e)) * o.sqrt (G * (m + M) / a / (1 - e * e)) = G * (m + M) / a / (1 - e * e)) (hTm : o.sqrt (m + M) ≠ 0) (hZ : o.sqrt (G / a / (1 - e * e)) = o.sqrt (G * (m + M) / a / (1 - e * e)) / (m + M) * o.sqrt (m + M)) :
    d_m_Omega o G m M a e inc Om om f
      = epsP72 (orbMap (lift2 o sgn) (c2 G) (v1 m) (c2 M) (c2 a) (c2 e) (c2 inc) (v2 Om) (c2 om) (c2 f)) := by
  have h2 : (2:K) ≠ 0 := by norm_num
  deriv2_unfold [d_m_Omega]
  try simp only [hZ]
  orb_gen_at
  generalize m + M = T at *
  generalize o.sqrt (G * T / a / (1 - e * e)) = V0 at *
  generalize o.sqrt T = Tm at *
  have he' : (1:K) - e ^ 2 ≠ 0 := by rw [sq]; exact he
  refine ⟨?_, ?_, ?_, ?_, ?_, ?_, ?_⟩
  all_goals try (first | trivial | ring1 | (field_simp; ring1) | (field_simp; done))
  all_goals (
    have eG : G = V0 * V0 * a * (1 - e * e) / T := by first | (field_simp at hV2 ⊢; linear_combination -hV2) | (field_simp at hV2 ⊢)
    subst eG
    first | trivial | ring1 | (field_simp; ring1) | (field_simp; done))

set_option maxHeartbeats 1600000 in
theorem deriv2_m_omega_is_eps (o : DOps K) (sgn : K → K) (G m M a e inc Om om f : K)
    (hr : 1 + e * o.cos f ≠ 0) (he : 1 - e * e ≠ 0) (ha : a ≠ 0) (hm : m + M ≠ 0) (hV0 : o.sqrt (G * (m + M) / a / (1 - e * e)) ≠ 0) (hV2 : o.sqrt (G * (m + M) / a / (1 - e * e)) * o.sqrt (G * (m + M) / a / (1 - e * e)) = G * (m + M) / a / (1 - e * e)) (hTm : o.sqrt (m + M) ≠ 0) (hZ : o.sqrt (G / a / (1 - e * e)) = o.sqrt (G * (m + M) / a / (1 - e * e)) / (m + M) * o.sqrt (m + M)) :
    d_m_omega o G m M a e inc Om om f
      = epsP72 (orbMap (lift2 o sgn) (c2 G) (v1 m) (c2 M) (c2 a) (c2 e) (c2 inc) (c2 Om) (v2 om) (c2 f)) := by
  have h2 : (2:K) ≠ 0 := by norm_num
  deriv2_unfold [d_m_omega]
  try simp only [hZ]
  orb_gen_at
  generalize m + M = T at *
  generalize o.sqrt (G * T / a / (1 - e * e)) = V0 at *
  generalize o.sqrt T = Tm at *
  have he' : (1:K) - e ^ 2 ≠ 0 := by rw [sq]; exact he
  refine ⟨?_, ?_, ?_, ?_, ?_, ?_, ?_⟩
  all_goals try (first | trivial | ring1 | (field_simp; ring1) | (field_simp; done))
  all_goals (
    have eG : G = V0 * V0 * a * (1 - e * e) / T := by first | (field_simp at hV2 ⊢; linear_combination -hV2) | (field_simp at hV2 ⊢)
    subst eG
    first | trivial | ring1 | (field_simp; ring1) | (field_simp; done))

set_option maxHeartbeats 1600000 in
theorem deriv2_m_f_is_eps (o : DOps K) (sgn : K → K) (G m M a e inc Om om f : K)
    (hr : 1 + e * o.cos f ≠ 0) (he : 1 - e * e ≠ 0) (ha : a ≠ 0) (hm : m + M ≠ 0) (hV0 : o.sqrt (G * (m + M) / a / (1 - e * e)) ≠ 0) (hV2 : o.sqrt (G * (m + M) / a / (1 - e * e)) * o.sqrt (G * (m + M) / a / (1 - e * e)) = G * (m + M) / a / (1 - e * e)) (hTm : o.sqrt (m + M) ≠ 0) (hZ : o.sqrt (G / a / (1 - e * e)) = o.sqrt (G * (m + M) / a / (1 - e * e)) / (m + M) * o.sqrt (m + M)) :
    d_m_f o G m M a e inc Om om f
      = epsP72 (orbMap (lift2 o sgn) (c2 G) (v1 m) (c2 M) (c2 a) (c2 e) (c2 inc) (c2 Om) (c2 om) (v2 f)) := by
  have h2 : (2:K) ≠ 0 := by norm_num
  deriv2_unfold [d_m_f]
  try simp only [hZ]
  orb_gen_at
  generalize m + M = T at *
  generalize o.sqrt (G * T / a / (1 - e * e)) = V0 at *
  generalize o.sqrt T = Tm at *
  have he' : (1:K) - e ^ 2 ≠ 0 := by rw [sq]; exact he
  refine ⟨?_, ?_, ?_, ?_, ?_, ?_, ?_⟩
  all_goals try (first | trivial | ring1 | (field_simp; ring1) | (field_simp; done))
  all_goals (
    have eG : G = V0 * V0 * a * (1 - e * e) / T := by first | (field_simp at hV2 ⊢; linear_combination -hV2) | (field_simp at hV2 ⊢)
    subst eG
    first | trivial | ring1 | (field_simp; ring1) | (field_simp; done))

set_option maxHeartbeats 1600000 in
theorem deriv2_a_e_is_eps (o : DOps K) (sgn : K → K) (G m M a e inc Om om f : K)
    (hr : 1 + e * o.cos f ≠ 0) (he : 1 - e * e ≠ 0) (ha : a ≠ 0) (hm : m + M ≠ 0) (hV0 : o.sqrt (G * (m + M) / a / (1 - e * e)) ≠ 0) (hV2 : o.sqrt (G * (m + M) / a / (1 - e * e)) * o.sqrt (G * (m + M) / a / (1 - e * e)) = G * (m + M) / a / (1 - e * e)) (hE : o.sqrt (1 - e * e) * o.sqrt (1 - e * e) = 1 - e * e) (hA : o.sqrt (G * (m + M) / a) = o.sqrt (G * (m + M) / a / (1 - e * e)) * o.sqrt (1 - e * e)) :
    d_a_e o G m M a e inc Om om f
      = epsP72 (orbMap (lift2 o sgn) (c2 G) (c2 m) (c2 M) (v1 a) (v2 e) (c2 inc) (c2 Om) (c2 om) (c2 f)) := by
  have h2 : (2:K) ≠ 0 := by norm_num
  deriv2_unfold [d_a_e]
  try simp only [hA]
  orb_gen_at
  generalize m + M = T at *
  generalize o.sqrt (G * T / a / (1 - e * e)) = V0 at *
  generalize o.sqrt (1 - e * e) = Eo at *
  have he' : (1:K) - e ^ 2 ≠ 0 := by rw [sq]; exact he
  refine ⟨?_, ?_, ?_, ?_, ?_, ?_, ?_⟩
  all_goals try (first | trivial | ring1 | (field_simp; ring1) | (field_simp; done))
  all_goals (
    have hEo : Eo ≠ 0 := by intro h0; rw [h0] at hE; simp at hE; exact he hE.symm
    rw [← hE] at hV2 ⊢
    have eG : G = V0 * V0 * a * (Eo * Eo) / T := by first | (field_simp at hV2 ⊢; linear_combination -hV2) | (field_simp at hV2 ⊢)
    subst eG
    first | trivial | ring1 | (field_simp; ring1) | (field_simp; done))

set_option maxHeartbeats 1600000 in
theorem deriv2_a_inc_is_eps (o : DOps K) (sgn : K → K) (G m M a e inc Om om f : K)
    (hr : 1 + e * o.cos f ≠ 0) (he : 1 - e * e ≠ 0) (ha : a ≠ 0) (hm : m + M ≠ 0) (hV0 : o.sqrt (G * (m + M) / a / (1 - e * e)) ≠ 0) (hV2 : o.sqrt (G * (m + M) / a / (1 - e * e)) * o.sqrt (G * (m + M) / a / (1 - e * e)) = G * (m + M) / a / (1 - e * e)) (hA3 : o.sqrt (a * a * a) ≠ 0) (hY : o.sqrt (G * (m + M) / (1 - e * e)) = o.sqrt (G * (m + M) / a / (1 - e * e)) / a * o.sqrt (a * a * a)) :
    d_a_inc o G m M a e inc Om om f
      = epsP72 (orbMap (lift2 o sgn) (c2 G) (c2 m) (c2 M) (v1 a) (c2 e) (v2 inc) (c2 Om) (c2 om) (c2 f)) := by
  have h2 : (2:K) ≠ 0 := by norm_num
  deriv2_unfold [d_a_inc]
  try simp only [hY]
  orb_gen_at
  generalize m + M = T at *
  generalize o.sqrt (G * T / a / (1 - e * e)) = V0 at *
  generalize o.sqrt (a * a * a) = A3 at *
  have he' : (1:K) - e ^ 2 ≠ 0 := by rw [sq]; exact he
  refine ⟨?_, ?_, ?_, ?_, ?_, ?_, ?_⟩
  all_goals try (first | trivial | ring1 | (field_simp; ring1) | (field_simp; done))
  all_goals (
    have eG : G = V0 * V0 * a * (1 - e * e) / T := by first | (field_simp at hV2 ⊢; linear_combination -hV2) | (field_simp at hV2 ⊢)
    subst eG
    first | trivial | ring1 | (field_simp; ring1) | (field_simp; done))

set_option maxHeartbeats 1600000 in
theorem deriv2_a_Omega_is_eps (o : DOps K) (sgn : K → K) (G m M a e inc Om om f : K)
    (hr : 1 + e * o.cos f ≠ 0) (he : 1 - e * e ≠ 0) (ha : a ≠ 0) (hm : m + M ≠ 0) (hV0 : o.sqrt (G * (m + M) / a / (1 - e * e)) ≠ 0) (hV2 : o.sqrt (G * (m + M) / a / (1 - e * e)) * o.sqrt (G * (m + M) / a / (1 - e * e)) = G * (m + M) / a / (1 - e * e)) (hA3 : o.sqrt (a * a * a) ≠ 0) (hY : o.sqrt (G * (m + M) / (1 - e * e)) = o.sqrt (G * (m + M) / a / (1 - e * e)) / a * o.sqrt (a * a * a)) :
    d_a_Omega o G m M a e inc Om om f
      = epsP72 (orbMap (lift2 o sgn) (c2 G) (c2 m) (c2 M) (v1 a) (c2 e) (c2 inc) (v2 Om) (c2 om) (c2 f)) := by
  have h2 : (2:K) ≠ 0 := by norm_num
  deriv2_unfold [d_a_Omega]
  try simp only [hY]
  orb_gen_at
  generalize m + M = T at *
  generalize o.sqrt (G * T / a / (1 - e * e)) = V0 at *
  generalize o.sqrt (a * a * a) = A3 at *
  have he' : (1:K) - e ^ 2 ≠ 0 := by rw [sq]; exact he
  refine ⟨?_, ?_, ?_, ?_, ?_, ?_, ?_⟩
  all_goals try (first | trivial | ring1 | (field_simp; ring1) | (field_simp; done))
  all_goals (
    have eG : G = V0 * V0 * a * (1 - e * e) / T := by first | (field_simp at hV2 ⊢; linear_combination -hV2) | (field_simp at hV2 ⊢)
    subst eG
    first | trivial | ring1 | (field_simp; ring1) | (field_simp; done))

set_option maxHeartbeats 1600000 in
theorem deriv2_a_omega_is_eps (o : DOps K) (sgn : K → K) (G m M a e inc Om om f : K)
    (hr : 1 + e * o.cos f ≠ 0) (he : 1 - e * e ≠ 0) (ha : a ≠ 0) (hm : m + M ≠ 0) (hV0 : o.sqrt (G * (m + M) / a / (1 - e * e)) ≠ 0) (hV2 : o.sqrt (G * (m + M) / a / (1 - e * e)) * o.sqrt (G * (m + M) / a / (1 - e * e)) = G * (m + M) / a / (1 - e * e)) (hA3 : o.sqrt (a * a * a) ≠ 0) (hY : o.sqrt (G * (m + M) / (1 - e * e)) = o.sqrt (G * (m + M) / a / (1 - e * e)) / a * o.sqrt (a * a * a)) :
    d_a_omega o G m M a e inc Om om f
      = epsP72 (orbMap (lift2 o sgn) (c2 G) (c2 m) (c2 M) (v1 a) (c2 e) (c2 inc) (c2 Om) (v2 om) (c2 f)) := by
  have h2 : (2:K) ≠ 0 := by norm_num
  deriv2_unfold [d_a_omega]
  try simp only [hY]
  orb_gen_at
  generalize m + M = T at *
  generalize o.sqrt (G * T / a / (1 - e * e)) = V0 at *
  generalize o.sqrt (a * a * a) = A3 at *
  have he' : (1:K) - e ^ 2 ≠ 0 := by rw [sq]; exact he
  refine ⟨?_, ?_, ?_, ?_, ?_, ?_, ?_⟩
  all_goals try (first | trivial | ring1 | (field_simp; ring1) | (field_simp; done))
  all_goals (
    have eG : G = V0 * V0 * a * (1 - e * e) / T := by first | (field_simp at hV2 ⊢; linear_combination -hV2) | (field_simp at hV2 ⊢)
    subst eG
    first | trivial | ring1 | (field_simp; ring1) | (field_simp; done))

set_option maxHeartbeats 1600000 in
theorem deriv2_a_f_is_eps (o : DOps K) (sgn : K → K) (G m M a e inc Om om f : K)
    (hr : 1 + e * o.cos f ≠ 0) (he : 1 - e * e ≠ 0) (ha : a ≠ 0) (hm : m + M ≠ 0) (hV0 : o.sqrt (G * (m + M) / a / (1 - e * e)) ≠ 0) (hV2 : o.sqrt (G * (m + M) / a / (1 - e * e)) * o.sqrt (G * (m + M) / a / (1 - e * e)) = G * (m + M) / a / (1 - e * e)) (hA3 : o.sqrt (a * a * a) ≠ 0) (hY : o.sqrt (G * (m + M) / (1 - e * e)) = o.sqrt (G * (m + M) / a / (1 - e * e)) / a * o.sqrt (a * a * a)) :
    d_a_f o G m M a e inc Om om f
      = epsP72 (orbMap (lift2 o sgn) (c2 G) (c2 m) (c2 M) (v1 a) (c2 e) (c2 inc) (c2 Om) (c2 om) (v2 f)) := by
  have h2 : (2:K) ≠ 0 := by norm_num
  deriv2_unfold [d_a_f]
  try simp only [hY]
  orb_gen_at
  generalize m + M = T at *
  generalize o.sqrt (G * T / a / (1 - e * e)) = V0 at *
  generalize o.sqrt (a * a * a) = A3 at *
  have he' : (1:K) - e ^ 2 ≠ 0 := by rw [sq]; exact he
  refine ⟨?_, ?_, ?_, ?_, ?_, ?_, ?_⟩
  all_goals try (first | trivial | ring1 | (field_simp; ring1) | (field_simp; done))
  all_goals (
    have eG : G = V0 * V0 * a * (1 - e * e) / T := by first | (field_simp at hV2 ⊢; linear_combination -hV2) | (field_simp at hV2 ⊢)
    subst eG
    first | trivial | ring1 | (field_simp; ring1) | (field_simp; done))

set_option maxHeartbeats 1600000 in
theorem deriv2_e_inc_is_eps (o : DOps K) (sgn : K → K) (G m M a e inc Om om f : K)
    (hr : 1 + e * o.cos f ≠ 0) (he : 1 - e * e ≠ 0) (ha : a ≠ 0) (hm : m + M ≠ 0) (hV0 : o.sqrt (G * (m + M) / a / (1 - e * e)) ≠ 0) (hV2 : o.sqrt (G * (m + M) / a / (1 - e * e)) * o.sqrt (G * (m + M) / a / (1 - e * e)) = G * (m + M) / a / (1 - e * e)) (hE : o.sqrt (1 - e * e) * o.sqrt (1 - e * e) = 1 - e * e) (hA : o.sqrt (G * (m + M) / a) = o.sqrt (G * (m + M) / a / (1 - e * e)) * o.sqrt (1 - e * e)) :
    d_e_inc o G m M a e inc Om om f
      = epsP72 (orbMap (lift2 o sgn) (c2 G) (c2 m) (c2 M) (c2 a) (v1 e) (v2 inc) (c2 Om) (c2 om) (c2 f)) := by
  have h2 : (2:K) ≠ 0 := by norm_num
  deriv2_unfold [d_e_inc]
  try simp only [hA]
  orb_gen_at
  generalize m + M = T at *
  generalize o.sqrt (G * T / a / (1 - e * e)) = V0 at *
  generalize o.sqrt (1 - e * e) = Eo at *
  have he' : (1:K) - e ^ 2 ≠ 0 := by rw [sq]; exact he
  refine ⟨?_, ?_, ?_, ?_, ?_, ?_, ?_⟩
  all_goals try (first | trivial | ring1 | (field_simp; ring1) | (field_simp; done))
  all_goals (
    have hEo : Eo ≠ 0 := by intro h0; rw [h0] at hE; simp at hE; exact he hE.symm
    rw [← hE] at hV2 ⊢
    have eG : G = V0 * V0 * a * (Eo * Eo) / T := by first | (field_simp at hV2 ⊢; linear_combination -hV2) | (field_simp at hV2 ⊢)
    subst eG
    first | trivial | ring1 | (field_simp; ring1) | (field_simp; done))

set_option maxHeartbeats 1600000 in
theorem deriv2_e_Omega_is_eps (o : DOps K) (sgn : K → K) (G m M a e inc Om om f : K)
    (hr : 1 + e * o.cos f ≠ 0) (he : 1 - e * e ≠ 0) (ha : a ≠ 0) (hm : m + M ≠ 0) (hV0 : o.sqrt (G * (m + M) / a / (1 - e * e)) ≠ 0) (hV2 : o.sqrt (G * (m + M) / a / (1 - e * e)) * o.sqrt (G * (m + M) / a / (1 - e * e)) = G * (m + M) / a / (1 - e * e)) (hE : o.sqrt (1 - e * e) * o.sqrt (1 - e * e) = 1 - e * e) (hA : o.sqrt (G * (m + M) / a) = o.sqrt (G * (m + M) / a / (1 - e * e)) * o.sqrt (1 - e * e)) :
    d_e_Omega o G m M a e inc Om om f
      = epsP72 (orbMap (lift2 o sgn) (c2 G) (c2 m) (c2 M) (c2 a) (v1 e) (c2 inc) (v2 Om) (c2 om) (c2 f)) := by
  have h2 : (2:K) ≠ 0 := by norm_num
  deriv2_unfold [d_e_Omega]
  try simp only [hA]
  orb_gen_at
  generalize m + M = T at *
  generalize o.sqrt (G * T / a / (1 - e * e)) = V0 at *
  generalize o.sqrt (1 - e * e) = Eo at *
  have he' : (1:K) - e ^ 2 ≠ 0 := by rw [sq]; exact he
  refine ⟨?_, ?_, ?_, ?_, ?_, ?_, ?_⟩
  all_goals try (first | trivial | ring1 | (field_simp; ring1) | (field_simp; done))
  all_goals (
    have hEo : Eo ≠ 0 := by intro h0; rw [h0] at hE; simp at hE; exact he hE.symm
    rw [← hE] at hV2 ⊢
    have eG : G = V0 * V0 * a * (Eo * Eo) / T := by first | (field_simp at hV2 ⊢; linear_combination -hV2) | (field_simp at hV2 ⊢)
    subst eG
    first | trivial | ring1 | (field_simp; ring1) | (field_simp; done))

end RV.Var
