import RV.Model.Advertised
import RV.Gen.C01Leapfrog
/- C01 / LEAPFROG: the particle updates of reb_integrator_leapfrog_part1/2 read as drift ½, kick 1, drift ½ -/
namespace RV.C01.Leapfrog
open RV.C01 RV.C01.Gen RV.C01.Adv
theorem schedule : leapfrogStep = [⟨0, 1/2, 1⟩, ⟨2, 0, 0⟩, ⟨1, 1, 0⟩, ⟨0, 1/2, 1⟩] := by decide +kernel
theorem properties : Consistent leapfrogStep 0 ∧ Palindrome leapfrogStep ∧ Fresh leapfrogStep ∧
    WordOrder leapfrogStep [2, 2, 2] 0 0 ∧ ¬ WordOrder leapfrogStep [3, 3, 2] 0 (1/100) := by decide +kernel
end RV.C01.Leapfrog
