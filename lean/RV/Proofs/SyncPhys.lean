import RV.Proofs.Sync
import Mathlib.Algebra.Group.Basic
/-
  C09, physics part: unsafe mode + synchronize = safe mode, under the group laws of the
  (otherwise uninterpreted) primitives.
-/
set_option linter.unusedVariables false
set_option linter.unusedSimpArgs false
set_option linter.unusedSectionVars false
namespace RV.Sync
variable {T PJ X V A : Type}

/-- the first-corrector block of part1 (`inv = 1`) / synchronize (`inv = -1`) -/
def corrBlk (c : Config) (inv : Int) : List Prim :=
  if c.corrector != 0 then correctorOps c.coord c.corrector inv else []
/-- the second-corrector block -/
def c2Blk (c : Config) (inv : Int) : List Prim :=
  if c.corrector2 then corrector2Ops inv else []

theorem closed_corrBlk (c : Config) (inv : Int) : Closed (corrBlk c inv) :=
  closed_ite _ (closed_corrector _ _ _) closed_nil
theorem closed_c2Blk (c : Config) (inv : Int) : Closed (c2Blk c inv) :=
  closed_ite _ (closed_corrector2 _) closed_nil

/-- group laws of the primitives (exact arithmetic) -/
structure Laws [AddCommGroup T] (S : Sem T PJ X V A) : Prop where
  kepler_add : ∀ a b p, S.kepler a (S.kepler b p) = S.kepler (a + b) p
  com_add : ∀ a b p, S.com a (S.com b p) = S.com (a + b) p
  kepler_com : ∀ a b p, S.kepler a (S.com b p) = S.com b (S.kepler a p)
  from_to : ∀ p, S.fromI (S.toIpos p) (S.toIvel p) p = p
  ev_half : S.ev (.frac 1 2) + S.ev (.frac 1 2) = S.ev (.frac 1 1)
  ev_comp : S.ev (.frac 5 8) + S.ev (.frac 3 8) = S.ev (.frac 1 1)

/-- a block whose `inv = 1` instance undoes its `inv = -1` instance on the internal coordinates -/
def InverseOn (S : Sem T PJ X V A) (blk : Int → List Prim) : Prop :=
  ∀ s : St PJ X V A, (exec S (blk (-1) ++ blk 1) s).pj = s.pj

theorem closed_pj_congr (S : Sem T PJ X V A) {b : List Prim} (hb : Closed b) {s s' : St PJ X V A}
    (h : s.pj = s'.pj) : (exec S b s).pj = (exec S b s').pj :=
  (agree_exec S b _ _ _ (agree_pj h)).1 (hb.pj (L := ⟨true, false, false, false, false, false⟩) rfl)

variable [AddCommGroup T]

theorem ev_first_last {S : Sem T PJ X V A} (L : Laws S) (k : Nat) :
    S.ev (firstCoef k) + S.ev (lastCoef k) = S.ev (.frac 1 1) := by
  unfold firstCoef lastCoef
  split
  · exact L.ev_comp
  · exact L.ev_half

theorem syncMid_eq (c : Config) :
    syncMid c = [.kepler (lastCoef c.kernel), .com (lastCoef c.kernel)] ++ c2Blk c (-1) ++
      corrBlk c (-1) ++ [.toInertial] := rfl

theorem driftOps_true_eq (c : Config) :
    driftOps c true = corrBlk c 1 ++ c2Blk c 1 ++
      [.kepler (firstCoef c.kernel), .com (firstCoef c.kernel)] := rfl

theorem driftOps_false_eq (c : Config) :
    driftOps c false = [.kepler (.frac 1 1), .com (.frac 1 1)] := rfl

theorem syncMid_pos (S : Sem T PJ X V A) (c : Config) (s : St PJ X V A) :
    (exec S (syncMid c) s).pos = S.toIpos (exec S (syncMid c) s).pj ∧
    (exec S (syncMid c) s).vel = S.toIvel (exec S (syncMid c) s).pj := by
  rw [syncMid_eq, exec_append]
  simp [exec, denote]

/-- the heart of the matter: last half drift + inverse correctors (synchronize), then
    correctors + first half drift (next part1) = one full drift -/
theorem merge_drifts {S : Sem T PJ X V A} (L : Laws S) (c : Config)
    (hC : InverseOn S (corrBlk c)) (hC2 : InverseOn S (c2Blk c))
    (u w : St PJ X V A) (hw : w.pj = (exec S (syncMid c) u).pj) :
    (exec S (driftOps c true) w).pj = (exec S (driftOps c false) u).pj := by
  rw [syncMid_eq] at hw
  simp only [exec_append] at hw
  rw [driftOps_true_eq, driftOps_false_eq]
  simp only [exec_append]
  -- name the intermediate states of synchronize
  generalize hm0 : exec S [Prim.kepler (lastCoef c.kernel), Prim.com (lastCoef c.kernel)] u = m0 at hw
  generalize hm1 : exec S (c2Blk c (-1)) m0 = m1 at hw
  generalize hm2 : exec S (corrBlk c (-1)) m1 = m2 at hw
  have hw2 : w.pj = m2.pj := by rw [hw]; simp [exec, denote]
  -- first corrector cancels
  have h1 : (exec S (corrBlk c 1) w).pj = m1.pj := by
    rw [closed_pj_congr S (closed_corrBlk c 1) hw2, ← hm2, ← exec_append]
    exact hC m1
  -- second corrector cancels
  have h2 : (exec S (c2Blk c 1) (exec S (corrBlk c 1) w)).pj = m0.pj := by
    rw [closed_pj_congr S (closed_c2Blk c 1) h1, ← hm1, ← exec_append]
    exact hC2 m0
  have h0 : m0.pj = S.com (S.ev (lastCoef c.kernel)) (S.kepler (S.ev (lastCoef c.kernel)) u.pj) := by
    rw [← hm0]; simp [exec, denote]
  simp only [exec, denote]
  rw [h2, h0, L.kepler_com, L.kepler_add, L.com_add, ev_first_last L]

/-! ### safe and unsafe instances of one configuration -/

def Config.mode (c : Config) (safe keep : Bool) : Config := { c with safe := safe, keep := keep }

@[simp] theorem driftOps_mode (c : Config) (a b i : Bool) : driftOps (c.mode a b) i = driftOps c i := rfl
@[simp] theorem stepTail_mode (c : Config) (a b : Bool) : stepTail (c.mode a b) = stepTail c := rfl
@[simp] theorem syncMid_mode (c : Config) (a b : Bool) : syncMid (c.mode a b) = syncMid c := rfl
@[simp] theorem mode_safe (c : Config) (a b : Bool) : (c.mode a b).safe = a := rfl
@[simp] theorem mode_keep (c : Config) (a b : Bool) : (c.mode a b).keep = b := rfl

/-- shape of a safe-mode step from a synchronised state -/
theorem stepOps_safe (c : Config) (r : Bool) :
    stepOps (c.mode true false) ⟨true, r, true⟩ =
      ([.init, .fromInertial] ++ driftOps c true ++ stepTail c ++ ([.init] ++ syncMid c) ++
        [.advT (.frac 1 2)], ⟨true, false, true⟩) := by
  have e : syncOps (c.mode true false) ⟨false, false, true⟩ =
      ([.init] ++ syncMid c, ⟨true, false, true⟩) := by
    rw [syncOps_unsync _ _ (by simp [initF])]
    simp [initF]
  cases r
  · simp [stepOps, part1Ops, part2Ops, initF, driftOps, stepTail, List.append_assoc, e, Config.mode]
    set_option pp.all true in trace_state
    rfl
  · simp [stepOps, part1Ops, part2Ops, initF, driftOps, stepTail, List.append_assoc, e, Config.mode]
    rfl

/-- shape of an unsafe-mode (no keep) synchronize from an unsynchronised state -/
theorem syncOps_unsafe_unsync (c : Config) (r : Bool) :
    syncOps (c.mode false false) ⟨false, r, true⟩ = ([.init] ++ syncMid c, ⟨true, r, true⟩) := by
  rw [syncOps_unsync _ _ (by simp [initF])]
  simp [initF]

end RV.Sync
