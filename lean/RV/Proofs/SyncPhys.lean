import RV.Proofs.Sync
import Mathlib.Algebra.Group.Basic
/-
  C09, physics part: unsafe mode + synchronize = safe mode, under the group laws of the
  (otherwise uninterpreted) primitives.
-/
set_option linter.unusedVariables false
set_option linter.unusedSimpArgs false
set_option linter.unusedSectionVars false
namespace RV.Sync
variable {T PJ X V A : Type}

/-- the first-corrector block of part1 (`inv = 1`) / synchronize (`inv = -1`) -/
def corrBlk (c : Config) (inv : Int) : List Prim :=
  if c.corrector != 0 then correctorOps c.coord c.corrector inv else []
/-- the second-corrector block -/
def c2Blk (c : Config) (inv : Int) : List Prim :=
  if c.corrector2 then corrector2Ops c.c2fixed inv else []

theorem closed_corrBlk (c : Config) (inv : Int) : Closed (corrBlk c inv) :=
  closed_ite _ (closed_corrector _ _ _) closed_nil
theorem closed_c2Blk (c : Config) (inv : Int) : Closed (c2Blk c inv) :=
  closed_ite _ (closed_corrector2 _ _) closed_nil

/-- group laws of the primitives (exact arithmetic) -/
structure Laws [AddCommGroup T] (S : Sem T PJ X V A) : Prop where
  kepler_add : ∀ a b p, S.kepler a (S.kepler b p) = S.kepler (a + b) p
  com_add : ∀ a b p, S.com a (S.com b p) = S.com (a + b) p
  kepler_com : ∀ a b p, S.kepler a (S.com b p) = S.com b (S.kepler a p)
  from_to : ∀ p, S.fromI (S.toIpos p) (S.toIvel p) p = p
  ev_half : S.ev (.frac 1 2) + S.ev (.frac 1 2) = S.ev (.frac 1 1)
  ev_comp : S.ev (.frac 5 8) + S.ev (.frac 3 8) = S.ev (.frac 1 1)

/-- a block whose `inv = 1` instance undoes its `inv = -1` instance on the internal coordinates -/
def InverseOn (S : Sem T PJ X V A) (blk : Int → List Prim) : Prop :=
  ∀ s : St PJ X V A, (exec S (blk (-1) ++ blk 1) s).pj = s.pj

theorem closed_pj_congr (S : Sem T PJ X V A) {b : List Prim} (hb : Closed b) {s s' : St PJ X V A}
    (h : s.pj = s'.pj) : (exec S b s).pj = (exec S b s').pj :=
  (agree_exec S b _ _ _ (agree_pj h)).1 (hb.pj (L := ⟨true, false, false, false, false, false⟩) rfl)

variable [AddCommGroup T]

theorem ev_first_last {S : Sem T PJ X V A} (L : Laws S) (k : Nat) :
    S.ev (firstCoef k) + S.ev (lastCoef k) = S.ev (.frac 1 1) := by
  unfold firstCoef lastCoef
  split
  · exact L.ev_comp
  · exact L.ev_half

theorem syncMid_eq (c : Config) :
    syncMid c = [.kepler (lastCoef c.kernel), .com (lastCoef c.kernel)] ++ c2Blk c (-1) ++
      corrBlk c (-1) ++ [.toInertial] := rfl

theorem driftOps_true_eq (c : Config) :
    driftOps c true = corrBlk c 1 ++ c2Blk c 1 ++
      [.kepler (firstCoef c.kernel), .com (firstCoef c.kernel)] := rfl

theorem driftOps_false_eq (c : Config) :
    driftOps c false = [.kepler (.frac 1 1), .com (.frac 1 1)] := rfl

theorem syncMid_pos (S : Sem T PJ X V A) (c : Config) (s : St PJ X V A) :
    (exec S (syncMid c) s).pos = S.toIpos (exec S (syncMid c) s).pj ∧
    (exec S (syncMid c) s).vel = S.toIvel (exec S (syncMid c) s).pj := by
  rw [syncMid_eq, exec_append]
  simp [exec, denote]

/-- the heart of the matter: last half drift + inverse correctors (synchronize), then
    correctors + first half drift (next part1) = one full drift -/
theorem merge_drifts {S : Sem T PJ X V A} (L : Laws S) (c : Config)
    (hC : InverseOn S (corrBlk c)) (hC2 : InverseOn S (c2Blk c))
    (u w : St PJ X V A) (hw : w.pj = (exec S (syncMid c) u).pj) :
    (exec S (driftOps c true) w).pj = (exec S (driftOps c false) u).pj := by
  rw [syncMid_eq] at hw
  simp only [exec_append] at hw
  rw [driftOps_true_eq, driftOps_false_eq]
  simp only [exec_append]
  -- name the intermediate states of synchronize
  generalize hm0 : exec S [Prim.kepler (lastCoef c.kernel), Prim.com (lastCoef c.kernel)] u = m0 at hw
  generalize hm1 : exec S (c2Blk c (-1)) m0 = m1 at hw
  generalize hm2 : exec S (corrBlk c (-1)) m1 = m2 at hw
  have hw2 : w.pj = m2.pj := by rw [hw]; simp [exec, denote]
  -- first corrector cancels
  have h1 : (exec S (corrBlk c 1) w).pj = m1.pj := by
    rw [closed_pj_congr S (closed_corrBlk c 1) hw2, ← hm2, ← exec_append]
    exact hC m1
  -- second corrector cancels
  have h2 : (exec S (c2Blk c 1) (exec S (corrBlk c 1) w)).pj = m0.pj := by
    rw [closed_pj_congr S (closed_c2Blk c 1) h1, ← hm1, ← exec_append]
    exact hC2 m0
  have h0 : m0.pj = S.com (S.ev (lastCoef c.kernel)) (S.kepler (S.ev (lastCoef c.kernel)) u.pj) := by
    rw [← hm0]; simp [exec, denote]
  simp only [exec, denote]
  rw [h2, h0, L.kepler_com, L.kepler_add, L.com_add, ev_first_last L]

/-! ### safe and unsafe instances of one configuration -/

def Config.mode (c : Config) (safe keep : Bool) : Config := { c with safe := safe, keep := keep }

@[simp] theorem driftOps_mode (c : Config) (a b i : Bool) : driftOps (c.mode a b) i = driftOps c i := rfl
@[simp] theorem stepTail_mode (c : Config) (a b : Bool) : stepTail (c.mode a b) = stepTail c := rfl
@[simp] theorem syncMid_mode (c : Config) (a b : Bool) : syncMid (c.mode a b) = syncMid c := rfl
@[simp] theorem mode_safe (c : Config) (a b : Bool) : (c.mode a b).safe = a := rfl
@[simp] theorem mode_keep (c : Config) (a b : Bool) : (c.mode a b).keep = b := rfl
@[simp] theorem mode_coord (c : Config) (a b : Bool) : (c.mode a b).coord = c.coord := rfl
@[simp] theorem mode_kernel (c : Config) (a b : Bool) : (c.mode a b).kernel = c.kernel := rfl
@[simp] theorem mode_corrector (c : Config) (a b : Bool) : (c.mode a b).corrector = c.corrector := rfl
@[simp] theorem mode_corrector2 (c : Config) (a b : Bool) : (c.mode a b).corrector2 = c.corrector2 := rfl
@[simp] theorem mode_c2fixed (c : Config) (a b : Bool) : (c.mode a b).c2fixed = c.c2fixed := rfl

/-- shape of a safe-mode step from a synchronised state -/
theorem stepOps_safe (c : Config) (r : Bool) :
    stepOps (c.mode true false) ⟨true, r, true⟩ =
      ([.init, .fromInertial] ++ driftOps c true ++ stepTail c ++ ([.init] ++ syncMid c) ++
        [.advT (.frac 1 2)], ⟨true, false, true⟩) := by
  have e : syncOps (c.mode true false) ⟨false, false, true⟩ =
      ([.init] ++ syncMid c, ⟨true, false, true⟩) := by
    rw [syncOps_unsync _ _ (by simp [initF])]
    simp [initF]
  cases r <;>
    simp [stepOps, part1Ops, part2Ops, initF, driftOps, stepTail, List.append_assoc, e] <;> rfl

/-- shape of an unsafe-mode (no keep) synchronize from an unsynchronised state -/
theorem syncOps_unsafe_unsync (c : Config) (r : Bool) :
    syncOps (c.mode false false) ⟨false, r, true⟩ = ([.init] ++ syncMid c, ⟨true, r, true⟩) := by
  rw [syncOps_unsync _ _ (by simp [initF])]
  simp [initF]

theorem initF_isSync (f : Flags) : (initF f).isSync = f.isSync := by
  unfold initF; split <;> rfl

theorem flags_eta (f : Flags) : f = ⟨f.isSync, f.recalc, f.allocated⟩ := rfl

/-- shapes of an unsafe-mode (no keep) step -/
theorem stepOps_unsafe_unsync (c : Config) :
    stepOps (c.mode false false) ⟨false, false, true⟩ =
      ([.init] ++ driftOps c false ++ stepTail c ++ [.advT (.frac 1 2)], ⟨false, false, true⟩) := by
  rw [stepOps_unsafe _ rfl _ rfl]; simp
theorem stepOps_unsafe_sync (c : Config) :
    stepOps (c.mode false false) ⟨true, false, true⟩ =
      ([.init] ++ driftOps c true ++ stepTail c ++ [.advT (.frac 1 2)], ⟨false, false, true⟩) := by
  rw [stepOps_unsafe _ rfl _ rfl]; simp
theorem stepOps_unsafe_fresh (c : Config) :
    stepOps (c.mode false false) ⟨true, true, true⟩ =
      ([.init, .fromInertial] ++ driftOps c true ++ stepTail c ++ [.advT (.frac 1 2)],
       ⟨false, false, true⟩) := by
  rw [stepOps_unsafe _ rfl _ rfl]; simp

/-- relation between the unsafe run `u` (steps and synchronisations) and the safe run `v`
    (the same steps) -/
inductive Inv (S : Sem T PJ X V A) (c : Config) :
    Flags × St PJ X V A → Flags × St PJ X V A → Prop
  /-- nothing stepped yet: same state, synchronised, coordinates will be recalculated -/
  | fresh (u v) : u.2 = v.2 → initF u.1 = ⟨true, true, true⟩ → initF v.1 = ⟨true, true, true⟩ → Inv S c u v
  /-- unsafe run is half a drift behind -/
  | unsync (u v) : u.1 = ⟨false, false, true⟩ → v.1 = ⟨true, false, true⟩ →
      v.2.pj = (exec S (syncMid c) u.2).pj → v.2.pos = S.toIpos v.2.pj → v.2.vel = S.toIvel v.2.pj →
      Inv S c u v
  /-- unsafe run was synchronised by the user -/
  | synced (u v) : u.1 = ⟨true, false, true⟩ → v.1 = ⟨true, false, true⟩ →
      u.2.pj = v.2.pj → u.2.pos = v.2.pos → u.2.vel = v.2.vel →
      v.2.pos = S.toIpos v.2.pj → v.2.vel = S.toIvel v.2.pj → Inv S c u v
  /-- both runs synchronised, the user (a callback) has edited the particles and set the
      recalculate flag: same internal coordinates, same (edited) particles -/
  | edited (u v) : u.1 = ⟨true, true, true⟩ → v.1.isSync = true → v.1.allocated = true →
      u.2.pj = v.2.pj → u.2.pos = v.2.pos → u.2.vel = v.2.vel → Inv S c u v

theorem exec_cons (S : Sem T PJ X V A) (p : Prim) (ps : List Prim) (s : St PJ X V A) :
    exec S (p :: ps) s = exec S ps (denote S p s) := rfl

/-- the common end of every step case: once the drifts agree on `pj`, the safe run ends
    `syncMid` ahead of the unsafe one -/
theorem step_join (S : Sem T PJ X V A) (c : Config) (a b : St PJ X V A) (h : a.pj = b.pj) :
    let u' := exec S (stepTail c ++ [.advT (.frac 1 2)]) a
    let v' := exec S (stepTail c ++ ([.init] ++ syncMid c) ++ [.advT (.frac 1 2)]) b
    v'.pj = (exec S (syncMid c) u').pj ∧ v'.pos = S.toIpos v'.pj ∧ v'.vel = S.toIvel v'.pj := by
  intro u' v'
  have e1 : u' = exec S (stepTail c) a := by
    show exec S (stepTail c ++ [.advT (.frac 1 2)]) a = _
    rw [exec_append]; rfl
  have e2 : v' = exec S (syncMid c) (exec S (stepTail c) b) := by
    show exec S (stepTail c ++ ([.init] ++ syncMid c) ++ [.advT (.frac 1 2)]) b = _
    rw [exec_append, exec_append, exec_append]; rfl
  rw [e1, e2]
  refine ⟨?_, (syncMid_pos S c _).1, (syncMid_pos S c _).2⟩
  exact closed_pj_congr S (closed_syncMid c) (closed_pj_congr S (closed_stepTail c) h).symm

theorem inv_step {S : Sem T PJ X V A} (L : Laws S) (c : Config)
    (hC : InverseOn S (corrBlk c)) (hC2 : InverseOn S (c2Blk c))
    {u v : Flags × St PJ X V A} (h : Inv S c u v) :
    Inv S c (apply S (c.mode false false) .step u) (apply S (c.mode true false) .step v) := by
  rw [apply_step, apply_step]
  cases h with
  | fresh h1 h2 h3 =>
    rw [← stepOps_initF _ u.1, ← stepOps_initF _ v.1, h2, h3, stepOps_unsafe_fresh, stepOps_safe]
    have hj := step_join S c (exec S ([.init, .fromInertial] ++ driftOps c true) u.2)
      (exec S ([.init, .fromInertial] ++ driftOps c true) v.2) (by rw [h1])
    refine Inv.unsync _ _ rfl rfl ?_ ?_ ?_ <;>
      simp only [List.append_assoc, exec_append] at hj ⊢
    · exact hj.1
    · exact hj.2.1
    · exact hj.2.2
  | unsync h1 h2 h3 h4 h5 =>
    rw [h1, h2, stepOps_unsafe_unsync, stepOps_safe]
    have hw : (exec S [.init, .fromInertial] v.2).pj = (exec S (syncMid c) u.2).pj := by
      simp only [exec, denote]; rw [h4, h5, L.from_to, h3]
    have hd := merge_drifts L c hC hC2 u.2 _ hw
    have hj := step_join S c (exec S ([.init] ++ driftOps c false) u.2)
      (exec S ([.init, .fromInertial] ++ driftOps c true) v.2)
      (by rw [exec_append, exec_append]; exact hd.symm)
    refine Inv.unsync _ _ rfl rfl ?_ ?_ ?_ <;>
      simp only [List.append_assoc, exec_append] at hj ⊢
    · exact hj.1
    · exact hj.2.1
    · exact hj.2.2
  | synced h1 h2 h3 h4 h5 h6 h7 =>
    rw [h1, h2, stepOps_unsafe_sync, stepOps_safe]
    have hw : (exec S [.init, .fromInertial] v.2).pj = (exec S [.init] u.2).pj := by
      simp only [exec, denote]; rw [h6, h7, L.from_to, h3]
    have hj := step_join S c (exec S ([.init] ++ driftOps c true) u.2)
      (exec S ([.init, .fromInertial] ++ driftOps c true) v.2)
      (by rw [exec_append, exec_append]; exact (closed_pj_congr S (closed_driftOps c true) hw).symm)
    refine Inv.unsync _ _ rfl rfl ?_ ?_ ?_ <;>
      simp only [List.append_assoc, exec_append] at hj ⊢
    · exact hj.1
    · exact hj.2.1
    · exact hj.2.2

  | edited h1 h2 h3 h4 h5 h6 =>
    have hv : v.1 = ⟨true, v.1.recalc, true⟩ := by
      have := flags_eta v.1; rw [h2, h3] at this; exact this
    rw [h1, hv, stepOps_unsafe_fresh, stepOps_safe]
    have hw : (exec S [.init, .fromInertial] v.2).pj = (exec S [.init, .fromInertial] u.2).pj := by
      simp only [exec, denote]; rw [h4, h5, h6]
    have hj := step_join S c (exec S ([.init, .fromInertial] ++ driftOps c true) u.2)
      (exec S ([.init, .fromInertial] ++ driftOps c true) v.2)
      (by rw [exec_append, exec_append]; exact (closed_pj_congr S (closed_driftOps c true) hw).symm)
    refine Inv.unsync _ _ rfl rfl ?_ ?_ ?_ <;>
      simp only [List.append_assoc, exec_append] at hj ⊢
    · exact hj.1
    · exact hj.2.1
    · exact hj.2.2

theorem inv_sync (S : Sem T PJ X V A) (c : Config) {u v : Flags × St PJ X V A} (h : Inv S c u v) :
    Inv S c (apply S (c.mode false false) .synchronize u) v := by
  rw [apply_sync]
  cases h with
  | fresh h1 h2 h3 =>
    have hs : (initF u.1).isSync = true := by rw [h2]
    rw [syncOps_sync _ _ hs]
    exact Inv.fresh _ _ h1 (by rw [initF_idem]; exact h2) h3
  | unsync h1 h2 h3 h4 h5 =>
    rw [h1, syncOps_unsafe_unsync]
    have e : exec S ([Prim.init] ++ syncMid c) u.2 = exec S (syncMid c) u.2 := rfl
    refine Inv.synced _ _ rfl h2 ?_ ?_ ?_ h4 h5 <;> simp only [e]
    · exact h3.symm
    · rw [(syncMid_pos S c _).1, ← h3, h4]
    · rw [(syncMid_pos S c _).2, ← h3, h5]
  | synced h1 h2 h3 h4 h5 h6 h7 =>
    have hs : (initF u.1).isSync = true := by rw [h1]; rfl
    rw [syncOps_sync _ _ hs, h1]
    exact Inv.synced _ _ rfl h2 h3 h4 h5 h6 h7
  | edited h1 h2 h3 h4 h5 h6 =>
    have hs : (initF u.1).isSync = true := by rw [h1]; rfl
    rw [syncOps_sync _ _ hs, h1]
    exact Inv.edited _ _ rfl h2 h3 h4 h5 h6

theorem inv_run {S : Sem T PJ X V A} (L : Laws S) (c : Config)
    (hC : InverseOn S (corrBlk c)) (hC2 : InverseOn S (c2Blk c))
    (σ : List (Op (X × V))) (hσ : ∀ o ∈ σ, o.benign = true) (u v : Flags × St PJ X V A)
    (h : Inv S c u v) :
    Inv S c (run S (c.mode false false) σ u) (run S (c.mode true false) (σ.filter Op.isStep) v) := by
  induction σ generalizing u v with
  | nil => exact h
  | cons o os ih =>
    have hos : ∀ o ∈ os, o.benign = true := fun o ho => hσ o (List.mem_cons_of_mem _ ho)
    have ho := hσ o List.mem_cons_self
    cases o with
    | step =>
      simp only [List.filter, Op.isStep, run]
      exact ih hos _ _ (inv_step L c hC hC2 h)
    | synchronize =>
      simp only [List.filter, Op.isStep, run]
      exact ih hos _ _ (inv_sync S c h)
    | read =>
      simp only [List.filter, Op.isStep, run]
      exact ih hos _ _ h
    | setRecalc => simp [Op.benign] at ho
    | poke v => simp [Op.benign] at ho

/-- after a final synchronize the unsafe run shows what the safe run shows -/
theorem inv_final (S : Sem T PJ X V A) (c : Config) {u v : Flags × St PJ X V A} (h : Inv S c u v) :
    (apply S (c.mode false false) .synchronize u).2.pj = v.2.pj ∧
    (apply S (c.mode false false) .synchronize u).2.pos = v.2.pos ∧
    (apply S (c.mode false false) .synchronize u).2.vel = v.2.vel := by
  have := inv_sync S c h
  cases this with
  | fresh h1 h2 h3 => rw [h1]; exact ⟨rfl, rfl, rfl⟩
  | unsync h1 h2 h3 h4 h5 =>
    -- impossible: synchronize (no keep) always leaves is_synchronized = 1
    exfalso
    have : (apply S (c.mode false false) .synchronize u).1.isSync = true := by
      rw [apply_sync]
      cases hs : (initF u.1).isSync
      · rw [syncOps_unsync _ _ hs]; simp
      · rw [syncOps_sync _ _ hs]; exact hs
    rw [h1] at this; cases this
  | synced h1 h2 h3 h4 h5 h6 h7 => exact ⟨h3, h4, h5⟩
  | edited h1 h2 h3 h4 h5 h6 => exact ⟨h4, h5, h6⟩

/-! ### particle edits through the step callbacks -/

theorem sync_isSync_unsafe (S : Sem T PJ X V A) (c : Config) (u : Flags × St PJ X V A) :
    (apply S (c.mode false false) .synchronize u).1.isSync = true := by
  rw [apply_sync]
  cases hs : (initF u.1).isSync
  · rw [syncOps_unsync _ _ hs]; simp
  · rw [syncOps_sync _ _ hs]; exact hs

theorem run_append (S : Sem T PJ X V A) (c : Config) (a b : List (Op (X × V))) (x : Flags × St PJ X V A) :
    run S c (a ++ b) x = run S c b (run S c a x) := by
  induction a generalizing x with
  | nil => rfl
  | cons o os ih => exact ih _

/-- synchronize, then the callback's edit, then the recalculate flag (unsafe run) against edit and
    flag (safe run) -/
theorem inv_sync_edit (S : Sem T PJ X V A) (c : Config) (w : X × V) {u v : Flags × St PJ X V A}
    (h : Inv S c u v) :
    Inv S c (run S (c.mode false false) [.synchronize, .poke w, .setRecalc] u)
      (run S (c.mode true false) [.poke w, .setRecalc] v) := by
  have hi := sync_isSync_unsafe S c u
  have h' := inv_sync S c h
  show Inv S c (apply S (c.mode false false) .setRecalc (apply S (c.mode false false) (.poke w)
      (apply S (c.mode false false) .synchronize u)))
    (apply S (c.mode true false) .setRecalc (apply S (c.mode true false) (.poke w) v))
  generalize apply S (c.mode false false) .synchronize u = u1 at hi h' ⊢
  cases h' with
  | fresh h1 h2 h3 =>
    refine Inv.fresh _ _ ?_ ?_ ?_
    · show ({ u1.2 with pos := w.1, vel := w.2 } : St PJ X V A) = { v.2 with pos := w.1, vel := w.2 }
      rw [h1]
    · show initF { u1.1 with recalc := true } = _
      rw [initF_setRecalc, h2]
    · show initF { v.1 with recalc := true } = _
      rw [initF_setRecalc, h3]
  | unsync h1 h2 h3 h4 h5 => rw [h1] at hi; cases hi
  | synced h1 h2 h3 h4 h5 h6 h7 =>
    refine Inv.edited _ _ ?_ ?_ ?_ h3 rfl rfl
    · show ({ u1.1 with recalc := true } : Flags) = _
      rw [h1]
    · show ({ v.1 with recalc := true } : Flags).isSync = true
      rw [h2]
    · show ({ v.1 with recalc := true } : Flags).allocated = true
      rw [h2]
  | edited h1 h2 h3 h4 h5 h6 =>
    refine Inv.edited _ _ ?_ h2 h3 h4 rfl rfl
    show ({ u1.1 with recalc := true } : Flags) = _
    rw [h1]

theorem inv_macro {S : Sem T PJ X V A} (L : Laws S) (c : Config)
    (hC : InverseOn S (corrBlk c)) (hC2 : InverseOn S (c2Blk c)) (m : MOp (X × V))
    {u v : Flags × St PJ X V A} (h : Inv S c u v) :
    Inv S c (run S (c.mode false false) m.expand u)
      (run S (c.mode true false) (m.expand.filter Op.isKept) v) := by
  cases m with
  | synchronize => exact inv_sync S c h
  | read => exact h
  | cbStep pre post =>
    have hstep : ∀ {u v}, Inv S c u v →
        Inv S c (run S (c.mode false false) [.step] u) (run S (c.mode true false) [.step] v) :=
      fun h => inv_step L c hC hC2 h
    cases pre <;> cases post <;>
      simp only [MOp.expand, cbStepPlan, List.nil_append, List.append_nil, List.cons_append, List.filter,
        Op.isKept]
    · exact hstep h
    · show Inv S c (run S _ ([.step] ++ [.synchronize, .poke _, .setRecalc]) u)
        (run S _ ([.step] ++ [.poke _, .setRecalc]) v)
      rw [run_append, run_append]
      exact inv_sync_edit S c _ (hstep h)
    · show Inv S c (run S _ ([.synchronize, .poke _, .setRecalc] ++ [.step]) u)
        (run S _ ([.poke _, .setRecalc] ++ [.step]) v)
      rw [run_append, run_append]
      exact hstep (inv_sync_edit S c _ h)
    · show Inv S c (run S _ ([.synchronize, .poke _, .setRecalc] ++ ([.step] ++ [.synchronize, .poke _, .setRecalc])) u)
        (run S _ ([.poke _, .setRecalc] ++ ([.step] ++ [.poke _, .setRecalc])) v)
      rw [run_append, run_append, run_append, run_append]
      exact inv_sync_edit S c _ (hstep (inv_sync_edit S c _ h))

theorem filter_flatMap_expand (l : List (MOp (X × V))) :
    (expandAll l).filter Op.isKept = l.flatMap (fun m => m.expand.filter Op.isKept) := by
  induction l with
  | nil => rfl
  | cons m ms ih =>
    show ((m.expand ++ expandAll ms).filter Op.isKept) = _
    rw [List.filter_append, ih]; rfl

theorem inv_macro_run {S : Sem T PJ X V A} (L : Laws S) (c : Config)
    (hC : InverseOn S (corrBlk c)) (hC2 : InverseOn S (c2Blk c)) (l : List (MOp (X × V)))
    (u v : Flags × St PJ X V A) (h : Inv S c u v) :
    Inv S c (run S (c.mode false false) (expandAll l) u)
      (run S (c.mode true false) ((expandAll l).filter Op.isKept) v) := by
  rw [filter_flatMap_expand]
  induction l generalizing u v with
  | nil => exact h
  | cons m ms ih =>
    show Inv S c (run S _ (m.expand ++ expandAll ms) u)
      (run S _ (m.expand.filter Op.isKept ++ ms.flatMap (fun m => m.expand.filter Op.isKept)) v)
    rw [run_append, run_append]
    exact ih _ _ (inv_macro L c hC hC2 m h)

end RV.Sync
