import RV.Model.Conc
/-
  Invariant of the protocol LTS (DESIGN appendix A9) and the lemmas behind RV/Props/C19.lean.
  Pure case analysis over the transition function; no Mathlib needed.
-/
set_option linter.unusedVariables false
set_option linter.unusedSimpArgs false
namespace RV.Conc

def critI : IPc → Bool
  | .postLock | .locked | .stepping | .stepped | .inHb => true
  | _ => false

def critS : SPc → Bool
  | .holding | .serialising | .serialised | .ncClr => true
  | _ => false

def ncHigh : SPc → Bool
  | .ncSet | .holding | .serialising | .serialised => true
  | _ => false

/-- program points of the integrator at which it writes `r` without holding the mutex -/
def adjPc : IPc → Bool
  | .pro | .chkAdj | .epiAdj => true
  | _ => false

/-- A9: the invariant of the product system, for every execution in which the server was not
started inside an iteration of the loop that runs without the mutex (`racy = false`) -/
structure Inv (s : State) : Prop where
  ownI  : s.owner = some .I ↔ (critI s.ipc = true ∧ s.ilock = true)
  ownS  : s.owner = some .S ↔ critS s.spc = true
  stepP : s.sim.phase = .inStep ↔ (s.ipc = .stepping ∨ s.ipc = .inHb)
  adjP  : s.sim.phase = .inAdjust ↔ adjPc s.ipc = true
  nc    : s.needCopy = true ↔ ncHigh s.spc = true
  snapS : s.spc = .serialising → ∃ m, s.snap = some m ∧ m.steps = s.sim.steps ∧ m.phase ≠ .inStep
  lockC : s.ilock = true → (critI s.ipc = true ∨ s.ipc = .shotWait)
  shotC : s.ipc = .shotWait → s.ilock = true
  upC   : critI s.ipc = true → s.ilock = false → s.srvUp = false
  downS : s.srvUp = false → s.spc = .accepting
  noUB  : s.ub = false
  lockUp : s.ilock = true → s.srvUp = true
  waitUp : (s.ipc = .waitNC ∨ s.ipc = .wantLock) → s.srvUp = true
  flagUp : (s.ipc = .postLock ∨ s.ipc = .postUnlock) → s.srvUp = true
  noMem  : s.memerr = false

theorem inv_init : Inv init := by
  constructor <;> simp [init, critI, critS, ncHigh, adjPc, boundary]

/-- `racy` is a history flag: once set it stays set -/
theorem step_racy_mono {s s' : State} {e : Ev} (hs : step s e = some s') (h : s'.racy = false) :
    s.racy = false := by
  obtain ⟨ipc, spc, owner, nc, ⟨steps, adj, phase⟩, snap, served, up, il, rc, ub, me⟩ := s
  cases e <;> simp only [step, setPhase] at hs <;> (repeat' split at hs) <;>
    simp only [Option.some.injEq, reduceCtorEq] at hs <;> subst hs <;> simp_all

/-- split of the events into groups (only to keep each case analysis small) -/
def grp : Ev → Nat
  | .iEnter | .iChkBegin | .iChkSync | .iChkEnd _ => 0
  | .iSeeSrv _ | .iSpin | .iSeeNC0 | .iLock | .iSetFlag => 1
  | .iStepBegin | .iStepEnd | .iUnlock | .iSkipUnlock | .iClrFlag => 2
  | .iShotUnlock | .iShotLock | .sStatic | .sDrop | .iHbBegin | .iHbEnd => 5
  | .iEpiSync | .iLeave | .xStart | .sReq | .xStop => 3
  | .sSetNC | .sLock | .sSerBegin | .sSerEnd => 4
  | .sClrNC | .sUnlock | .sSent => 5

set_option hygiene false in
macro "inv_case" : tactic => `(tactic|
  (simp only [step, setPhase] at hs <;> (repeat' split at hs) <;>
    simp only [Option.some.injEq, reduceCtorEq] at hs <;> subst hs <;>
    (constructor <;> simp_all [critI, critS, ncHigh, adjPc]) <;>
    (try (intro hx; subst hx; simp_all))))

theorem step_inv_g0 {s s' : State} {e : Ev} (hg : grp e = 0) (h : Inv s)
    (hs : step s e = some s') (hr : s'.racy = false) : Inv s' := by
  obtain ⟨ipc, spc, owner, nc, ⟨steps, adj, phase⟩, snap, served, up, il, rc, ub, me⟩ := s
  obtain ⟨h1, h2, h3, h4, h5, h6, h7, h8, h9, h10, h11, h12, h13, h14, h15⟩ := h
  cases e <;> simp only [grp] at hg <;> (try omega) <;> inv_case <;> (try (cases ipc <;> simp_all))

theorem step_inv_g1 {s s' : State} {e : Ev} (hg : grp e = 1) (h : Inv s)
    (hs : step s e = some s') (hr : s'.racy = false) : Inv s' := by
  obtain ⟨ipc, spc, owner, nc, ⟨steps, adj, phase⟩, snap, served, up, il, rc, ub, me⟩ := s
  obtain ⟨h1, h2, h3, h4, h5, h6, h7, h8, h9, h10, h11, h12, h13, h14, h15⟩ := h
  cases e <;> simp only [grp] at hg <;> (try omega) <;> inv_case <;> (try (cases ipc <;> simp_all))

theorem step_inv_g2 {s s' : State} {e : Ev} (hg : grp e = 2) (h : Inv s)
    (hs : step s e = some s') (hr : s'.racy = false) : Inv s' := by
  obtain ⟨ipc, spc, owner, nc, ⟨steps, adj, phase⟩, snap, served, up, il, rc, ub, me⟩ := s
  obtain ⟨h1, h2, h3, h4, h5, h6, h7, h8, h9, h10, h11, h12, h13, h14, h15⟩ := h
  cases e <;> simp only [grp] at hg <;> (try omega) <;> inv_case <;> (try (cases ipc <;> simp_all))

theorem step_inv_g3 {s s' : State} {e : Ev} (hg : grp e = 3) (h : Inv s)
    (hs : step s e = some s') (hr : s'.racy = false) : Inv s' := by
  obtain ⟨ipc, spc, owner, nc, ⟨steps, adj, phase⟩, snap, served, up, il, rc, ub, me⟩ := s
  obtain ⟨h1, h2, h3, h4, h5, h6, h7, h8, h9, h10, h11, h12, h13, h14, h15⟩ := h
  cases e <;> simp only [grp] at hg <;> (try omega) <;> inv_case <;> (try (cases ipc <;> simp_all))

theorem step_inv_g4 {s s' : State} {e : Ev} (hg : grp e = 4) (h : Inv s)
    (hs : step s e = some s') (hr : s'.racy = false) : Inv s' := by
  obtain ⟨ipc, spc, owner, nc, ⟨steps, adj, phase⟩, snap, served, up, il, rc, ub, me⟩ := s
  obtain ⟨h1, h2, h3, h4, h5, h6, h7, h8, h9, h10, h11, h12, h13, h14, h15⟩ := h
  cases e <;> simp only [grp] at hg <;> (try omega) <;> inv_case <;> (try (cases ipc <;> simp_all))

theorem step_inv_g5 {s s' : State} {e : Ev} (hg : grp e = 5) (h : Inv s)
    (hs : step s e = some s') (hr : s'.racy = false) : Inv s' := by
  obtain ⟨ipc, spc, owner, nc, ⟨steps, adj, phase⟩, snap, served, up, il, rc, ub, me⟩ := s
  obtain ⟨h1, h2, h3, h4, h5, h6, h7, h8, h9, h10, h11, h12, h13, h14, h15⟩ := h
  cases e <;> simp only [grp] at hg <;> (try omega) <;> inv_case <;> (try (cases ipc <;> simp_all))

theorem grp_lt (e : Ev) : grp e < 6 := by cases e <;> simp [grp]

theorem step_inv {s s' : State} {e : Ev} (h : Inv s) (hs : step s e = some s') (hr : s'.racy = false) :
    Inv s' := by
  have := grp_lt e
  match hg : grp e with
  | 0 => exact step_inv_g0 hg h hs hr
  | 1 => exact step_inv_g1 hg h hs hr
  | 2 => exact step_inv_g2 hg h hs hr
  | 3 => exact step_inv_g3 hg h hs hr
  | 4 => exact step_inv_g4 hg h hs hr
  | 5 => exact step_inv_g5 hg h hs hr
  | n + 6 => omega

theorem run_racy_mono {tr : List Ev} : ∀ {s s' : State}, run s tr = some s' → s'.racy = false →
    s.racy = false := by
  induction tr with
  | nil => intro s s' hr h; simp [run] at hr; subst hr; exact h
  | cons e es ih =>
    intro s s' hr h
    simp only [run] at hr
    split at hr
    · simp at hr
    · next s1 h1 => exact step_racy_mono h1 (ih hr h)

theorem run_inv {tr : List Ev} : ∀ {s s' : State}, Inv s → run s tr = some s' → s'.racy = false → Inv s' := by
  induction tr with
  | nil => intro s s' h hr _; simp [run] at hr; subst hr; exact h
  | cons e es ih =>
    intro s s' h hr hq
    simp only [run] at hr
    split at hr
    · simp at hr
    · next s1 h1 => exact ih (step_inv h h1 (run_racy_mono hr hq)) hr hq

theorem exec_inv {tr : List Ev} {s : State} (h : Exec tr s) (hq : s.racy = false) : Inv s :=
  run_inv inv_init h hq

/-- `racy` only changes when the server is started or stopped -/
theorem step_racy_const {s s' : State} {e : Ev} (hs : step s e = some s') (h1 : e ≠ .xStart) (h2 : e ≠ .xStop) :
    s'.racy = s.racy := by
  obtain ⟨ipc, spc, owner, nc, ⟨steps, adj, phase⟩, snap, served, up, il, rc, ub, me⟩ := s
  cases e <;> simp only [step, setPhase] at hs <;> (repeat' split at hs) <;>
    simp only [Option.some.injEq, reduceCtorEq] at hs <;> subst hs <;> simp_all

theorem run_racy_const {tr : List Ev} : ∀ {s s' : State}, run s tr = some s' →
    (∀ e ∈ tr, e ≠ .xStart) → (∀ e ∈ tr, e ≠ .xStop) → s'.racy = s.racy := by
  induction tr with
  | nil => intro s s' hr _ _; simp [run] at hr; subst hr; rfl
  | cons e es ih =>
    intro s s' hr h1 h2
    simp only [run] at hr
    split at hr
    · simp at hr
    · next s1 hs =>
      rw [ih hr (fun x hx => h1 x (by simp [hx])) (fun x hx => h2 x (by simp [hx])),
          step_racy_const hs (h1 e (by simp)) (h2 e (by simp))]

theorem run_append {a b : List Ev} : ∀ {s : State},
    run s (a ++ b) = match run s a with | none => none | some s1 => run s1 b := by
  induction a with
  | nil => intro s; simp [run]
  | cons e es ih =>
    intro s
    simp only [List.cons_append, run]
    cases step s e with
    | none => rfl
    | some s1 => exact ih

/-! ### the integrator does what it does without a server -/

theorem step_proj {s s' : State} {e : Ev} (hs : step s e = some s') :
    (if e.isI && e != .iSpin then soloStep ⟨s.ipc, s.sim⟩ e = some ⟨s'.ipc, s'.sim⟩
     else (s'.ipc = s.ipc ∧ s'.sim = s.sim)) := by
  obtain ⟨ipc, spc, owner, nc, ⟨steps, adj, phase⟩, snap, served, up, il, rc, ub, me⟩ := s
  cases e <;> simp only [step, setPhase] at hs <;> (repeat' split at hs) <;>
    simp only [Option.some.injEq, reduceCtorEq] at hs <;> subst hs <;>
    simp_all [Ev.isI, soloStep, setPhase]

theorem run_proj {tr : List Ev} : ∀ {s s' : State}, run s tr = some s' →
    soloRun ⟨s.ipc, s.sim⟩ (projI tr) = some ⟨s'.ipc, s'.sim⟩ := by
  induction tr with
  | nil => intro s s' hr; simp [run] at hr; subst hr; simp [projI, soloRun]
  | cons e es ih =>
    intro s s' hr
    simp only [run] at hr
    split at hr
    · simp at hr
    · next s1 h1 =>
      have hp := step_proj h1
      have ih' := ih hr
      by_cases hc : (e.isI && e != .iSpin) = true
      · simp only [hc, if_true] at hp
        simp only [projI, List.filter_cons, hc, if_true, soloRun, hp]
        exact ih'
      · simp only [hc] at hp
        simp only [projI, List.filter_cons, hc]
        simp only [projI] at ih'
        rw [← hp.1, ← hp.2]
        exact ih'

/-! ### a serialisation that no unlocked write overlaps -/

/-- the state during such a serialisation -/
structure Quiet (s : State) : Prop where
  ser  : s.spc = .serialising
  nadj : adjPc s.ipc = false
  same : s.snap = some s.sim

theorem step_quiet {s s' : State} {e : Ev} (h : Inv s) (q : Quiet s) (hs : step s e = some s')
    (ha : e.isAdjust = false) (he : e ≠ .sSerEnd) : Quiet s' := by
  obtain ⟨ipc, spc, owner, nc, ⟨steps, adj, phase⟩, snap, served, up, il, rc, ub, me⟩ := s
  obtain ⟨h1, h2, h3, h4, h5, h6, h7, h8, h9, h10, h11, h12, h13, h14, h15⟩ := h
  obtain ⟨q1, q2, q3⟩ := q
  cases e <;> simp only [step, setPhase] at hs <;> (repeat' split at hs) <;>
    simp only [Option.some.injEq, reduceCtorEq] at hs <;> subst hs <;>
    (constructor <;> simp_all [critI, critS, ncHigh, adjPc, Ev.isAdjust])

theorem run_quiet {post : List Ev} : ∀ {s s' : State}, Inv s → Quiet s → run s post = some s' →
    s'.racy = false →
    (∀ e ∈ post, e.isAdjust = false) → (∀ e ∈ post, e ≠ .sSerEnd) → Quiet s' := by
  induction post with
  | nil => intro s s' _ q hr _ _ _; simp [run] at hr; subst hr; exact q
  | cons e es ih =>
    intro s s' h q hr hq ha he
    simp only [run] at hr
    split at hr
    · simp at hr
    · next s1 h1 =>
      have q1 := step_quiet h q h1 (ha e (by simp)) (he e (by simp))
      exact ih (step_inv h h1 (run_racy_mono hr hq)) q1 hr hq
        (fun x hx => ha x (by simp [hx])) (fun x hx => he x (by simp [hx]))

/-! ### independent machines commute -/

theorem upd_same {α : Type} (v : Nat → α) (i : Nat) (x : α) : upd v i x i = x := by simp [upd]
theorem upd_other {α : Type} (v : Nat → α) (i j : Nat) (x : α) (h : j ≠ i) : upd v i x j = v j := by
  simp [upd, h]

/-- component `i` of the result of any interleaving is the result of running machine `i`
alone on its own events -/
theorem prun_component (M : Machine) {tr : List (Nat × M.ε)} :
    ∀ {v v' : Nat → M.σ}, prun M v tr = some v' → ∀ i, M.run (v i) (proj i tr) = some (v' i) := by
  induction tr with
  | nil => intro v v' h i; simp [prun] at h; subst h; simp [proj, Machine.run]
  | cons e es ih =>
    intro v v' h i
    obtain ⟨j, x⟩ := e
    simp only [prun, pstep] at h
    split at h
    · simp at h
    · next v1 h1 =>
      split at h1
      · simp at h1
      · next y hy =>
        simp only [Option.some.injEq] at h1; subst h1
        have := ih h i
        by_cases hji : j = i
        · subst hji
          simp only [proj, List.filter_cons, beq_self_eq_true, if_true, List.map_cons, Machine.run, hy]
          simpa [proj, upd_same] using this
        · have hne : (j == i) = false := by simp [hji]
          simp only [proj, List.filter_cons, hne]
          have hij : i ≠ j := fun h => hji h.symm
          simpa [proj, upd_other _ _ _ _ hij] using this

/-- running only events of machine `i` -/
theorem prun_tag (M : Machine) (i : Nat) {es : List M.ε} :
    ∀ {v : Nat → M.σ} {x : M.σ}, M.run (v i) es = some x → prun M v (tag i es) = some (upd v i x) := by
  induction es with
  | nil =>
    intro v x h; simp [Machine.run] at h; subst h
    simp only [tag, List.map_nil, prun, Option.some.injEq]
    funext j; by_cases hj : j = i <;> simp [upd, hj]
  | cons e es ih =>
    intro v x h
    simp only [Machine.run] at h
    split at h
    · simp at h
    · next y hy =>
      simp only [tag, List.map_cons, prun, pstep, hy]
      have h' : M.run ((upd v i y) i) es = some x := by simpa [upd_same] using h
      have := ih h'
      simp only [tag] at this
      rw [this]
      congr 1
      funext j; by_cases hj : j = i <;> simp [upd, hj]

theorem prun_append (M : Machine) {a b : List (Nat × M.ε)} : ∀ {v : Nat → M.σ},
    prun M v (a ++ b) = match prun M v a with | none => none | some v1 => prun M v1 b := by
  induction a with
  | nil => intro v; simp [prun]
  | cons e es ih =>
    intro v
    simp only [List.cons_append, prun]
    cases pstep M v e with
    | none => rfl
    | some v1 => exact ih

/-- components without events do not move -/
theorem prun_untouched (M : Machine) {tr : List (Nat × M.ε)} {v v' : Nat → M.σ}
    (h : prun M v tr = some v') (i : Nat) (hi : ∀ e ∈ tr, e.1 ≠ i) : v' i = v i := by
  have := prun_component M h i
  have hp : proj i tr = [] := by
    simp only [proj, List.map_eq_nil_iff, List.filter_eq_nil_iff]
    intro e he; simpa using hi e he
  rw [hp] at this
  simpa [Machine.run] using this.symm

/-- the sequential schedule of the first `k` machines is accepted and yields, on those
machines, the states of the interleaved run -/
theorem prun_seq (M : Machine) {tr : List (Nat × M.ε)} {v v' : Nat → M.σ}
    (h : prun M v tr = some v') :
    ∀ k, prun M v (seqSched tr k) = some (fun j => if j < k then v' j else v j) := by
  intro k
  induction k with
  | zero => simp [seqSched, prun]
  | succ k ih =>
    simp only [seqSched, prun_append, ih]
    have hc := prun_component M h k
    have hk : (fun j => if j < k then v' j else v j) k = v k := by simp
    have := prun_tag M k (v := fun j => if j < k then v' j else v j) (x := v' k) (by simpa using hc)
    rw [this]
    congr 1
    funext j
    by_cases h1 : j = k
    · subst h1; simp [upd]
    · by_cases h2 : j < k
      · have : j < k + 1 := by omega
        simp [upd, h1, h2, this]
      · have : ¬ j < k + 1 := by omega
        simp [upd, h1, h2, this]

/-! ### the acceptor only accepts observable projections of executions -/

theorem mem_foldl_dedup (l : List State) : ∀ (acc : List State) (x : State),
    x ∈ l.foldl (fun acc s => if acc.contains s then acc else acc ++ [s]) acc ↔ x ∈ acc ∨ x ∈ l := by
  induction l with
  | nil => intro acc x; simp
  | cons a l ih =>
    intro acc x
    simp only [List.foldl_cons]
    rw [ih]
    by_cases h : acc.contains a = true
    · simp only [h, if_true, List.mem_cons]
      have ha : a ∈ acc := by simpa using h
      constructor
      · rintro (h1 | h1)
        · exact Or.inl h1
        · exact Or.inr (Or.inr h1)
      · rintro (h1 | h1 | h1)
        · exact Or.inl h1
        · exact Or.inl (h1 ▸ ha)
        · exact Or.inr h1
    · simp only [h, List.mem_append, List.mem_cons, List.mem_singleton]
      simp only [Bool.false_eq_true, if_false, List.mem_append, List.mem_singleton]
      constructor
      · rintro ((h1 | h1) | h1)
        · exact Or.inl h1
        · exact Or.inr (Or.inl h1)
        · exact Or.inr (Or.inr h1)
      · rintro (h1 | h1 | h1)
        · exact Or.inl (Or.inl h1)
        · exact Or.inl (Or.inr h1)
        · exact Or.inr h1

theorem mem_dedup (l : List State) (x : State) : x ∈ dedup l ↔ x ∈ l := by
  unfold dedup
  rw [mem_foldl_dedup]
  simp

/-- `b` is reachable from `a` by silent events only -/
def SilentReach (a b : State) : Prop := ∃ tr, (∀ e ∈ tr, e.silent = true) ∧ run a tr = some b

theorem SilentReach.refl (a : State) : SilentReach a a := ⟨[], by simp, rfl⟩

theorem SilentReach.snoc {a b c : State} {e : Ev} (h : SilentReach a b) (he : e.silent = true)
    (hs : step b e = some c) : SilentReach a c := by
  obtain ⟨tr, h1, h2⟩ := h
  refine ⟨tr ++ [e], ?_, ?_⟩
  · intro x hx
    simp only [List.mem_append, List.mem_singleton] at hx
    rcases hx with hx | hx
    · exact h1 x hx
    · exact hx ▸ he
  · rw [run_append, h2]; simp [run, hs]

theorem silentEvs_silent : ∀ e ∈ silentEvs, e.silent = true := by decide

theorem closure_reach : ∀ (fuel : Nat) (l : List State) (s : State), s ∈ closure fuel l →
    ∃ s0 ∈ l, SilentReach s0 s := by
  intro fuel
  induction fuel with
  | zero => intro l s h; exact ⟨s, h, SilentReach.refl s⟩
  | succ n ih =>
    intro l s h
    simp only [closure] at h
    split at h
    · exact ⟨s, h, SilentReach.refl s⟩
    · obtain ⟨s1, h1, r1⟩ := ih _ s h
      rw [mem_dedup] at h1
      simp only [List.mem_append, List.mem_flatMap, List.mem_filterMap] at h1
      rcases h1 with h1 | ⟨s2, h2, e, he, hs⟩
      · exact ⟨s1, h1, r1⟩
      · refine ⟨s2, h2, ?_⟩
        obtain ⟨tr, t1, t2⟩ := r1
        refine ⟨e :: tr, ?_, ?_⟩
        · intro x hx
          simp only [List.mem_cons] at hx
          rcases hx with hx | hx
          · exact hx ▸ silentEvs_silent e he
          · exact t1 x hx
        · simp [run, hs, t2]

theorem obsStep_reach (cands : List State) (o : Obs) (f : State) (h : f ∈ obsStep cands o) :
    ∃ s0 ∈ cands, ∃ m, SilentReach s0 m ∧ step m o.ev = some f := by
  simp only [obsStep, mem_dedup, List.mem_filterMap] at h
  obtain ⟨m, hm, hs⟩ := h
  obtain ⟨s0, h0, r⟩ := closure_reach 8 cands m hm
  refine ⟨s0, h0, m, r, ?_⟩
  split at hs
  · exact hs
  · simp at hs

/-- the observable part of an event list -/
def observable (tr : List Ev) : List Ev := tr.filter (fun e => !e.silent)

theorem observable_silent {tr : List Ev} (h : ∀ e ∈ tr, e.silent = true) : observable tr = [] := by
  simp only [observable, List.filter_eq_nil_iff]
  intro e he; simp [h e he]

theorem acceptFrom_sound : ∀ (obs : List Obs) (cands : List State) (i : Nat) (finals : List State),
    acceptFrom cands i obs = .ok finals → ∀ f ∈ finals, ∃ s0 ∈ cands, ∃ tr,
      run s0 tr = some f ∧ observable tr = obs.map (·.ev) := by
  intro obs
  induction obs with
  | nil =>
    intro cands i finals h f hf
    simp only [acceptFrom, Except.ok.injEq] at h
    subst h
    exact ⟨f, hf, [], rfl, rfl⟩
  | cons o os ih =>
    intro cands i finals h f hf
    simp only [acceptFrom] at h
    split at h
    · simp at h
    · next hsil =>
      split at h
      · simp at h
      · next c' hc =>
        obtain ⟨s1, h1, tr1, r1, p1⟩ := ih _ _ _ h f hf
        obtain ⟨s0, h0, m, ⟨tr0, t0, r0⟩, hs⟩ := obsStep_reach cands o s1 h1
        refine ⟨s0, h0, tr0 ++ o.ev :: tr1, ?_, ?_⟩
        · rw [run_append, r0]; simp [run, hs, r1]
        · have hns : (!o.ev.silent) = true := by simpa using hsil
          simp only [observable, List.filter_append, List.filter_cons, hns, if_true, List.map_cons]
          have := observable_silent t0
          simp only [observable] at this p1
          rw [this, p1]; rfl

end RV.Conc
