import RV.Proofs.Field
import RV.Model.Boundary
import Mathlib.Tactic.Linarith
import Mathlib.Tactic.Push
import Mathlib.Algebra.Order.Field.Basic
/-
  Lemmas about the boundary model over a linearly ordered field (C15).
-/
set_option linter.unusedSectionVars false
set_option linter.unusedVariables false
namespace RV.C15
open RV RV.Boundary

variable {K : Type} [Field K] [LinearOrder K] [IsStrictOrderedRing K]

/-- exact-arithmetic instance of the ordered scalar class: comparisons are the field's -/
instance ordScalarO : ScalarO K :=
  { toScalar := fieldScalar, lt := fun a b => decide (a < b), le := fun a b => decide (a ≤ b) }

@[simp] theorem so_lt (a b : K) : (ScalarO.lt a b = true) ↔ a < b := by simp [ScalarO.lt]
@[simp] theorem so_le (a b : K) : (ScalarO.le a b = true) ↔ a ≤ b := by simp [ScalarO.le]
@[simp] theorem so_lt_false (a b : K) : (ScalarO.lt a b = false) ↔ ¬ a < b := by simp [ScalarO.lt]
@[simp] theorem so_le_false (a b : K) : (ScalarO.le a b = false) ↔ ¬ a ≤ b := by simp [ScalarO.le]
@[simp] theorem half_eq (L : K) : half L = L / 2 := by simp [half]
@[simp] theorem nhalf_eq (L : K) : nhalf L = -L / 2 := by simp [nhalf]

/-! ### one coordinate -/

theorem wrapHi_spec (L : K) : ∀ (f : Nat) (x y : K), wrapHi L f x = some y →
    ∃ n : Nat, n ≤ f ∧ y = x - n * L ∧ y ≤ L / 2 ∧ (n = 0 ∨ -L / 2 < y) := by
  intro f
  induction f with
  | zero =>
    intro x y h
    by_cases hx : L / 2 < x
    · simp [wrapHi, hx] at h
    · simp [wrapHi, hx] at h
      subst h
      exact ⟨0, le_refl _, by simp, not_lt.mp hx, Or.inl rfl⟩
  | succ f ih =>
    intro x y h
    by_cases hx : L / 2 < x
    · simp [wrapHi, hx] at h
      obtain ⟨n, hn, hy, hle, hlo⟩ := ih _ _ h
      refine ⟨n + 1, by omega, by rw [hy]; push_cast; ring, hle, Or.inr ?_⟩
      rcases hlo with h0 | h1
      · subst h0; simp at hy; rw [hy]; linarith
      · exact h1
    · simp [wrapHi, hx] at h
      subst h
      exact ⟨0, by omega, by simp, not_lt.mp hx, Or.inl rfl⟩

theorem wrapLo_spec (L : K) : ∀ (f : Nat) (x y : K), wrapLo L f x = some y →
    ∃ n : Nat, n ≤ f ∧ y = x + n * L ∧ -L / 2 ≤ y ∧ (n = 0 ∨ y < L / 2) := by
  intro f
  induction f with
  | zero =>
    intro x y h
    by_cases hx : x < -L / 2
    · simp [wrapLo, hx] at h
    · simp [wrapLo, hx] at h
      subst h
      exact ⟨0, le_refl _, by simp, not_lt.mp hx, Or.inl rfl⟩
  | succ f ih =>
    intro x y h
    by_cases hx : x < -L / 2
    · simp [wrapLo, hx] at h
      obtain ⟨n, hn, hy, hle, hlo⟩ := ih _ _ h
      refine ⟨n + 1, by omega, by rw [hy]; push_cast; ring, hle, Or.inr ?_⟩
      rcases hlo with h0 | h1
      · subst h0; simp at hy; rw [hy]; linarith
      · exact h1
    · simp [wrapLo, hx] at h
      subst h
      exact ⟨0, by omega, by simp, not_lt.mp hx, Or.inl rfl⟩

theorem wrapHi_terminates (L : K) : ∀ (f : Nat) (x : K), x ≤ L / 2 + f * L →
    ∃ y, wrapHi L f x = some y := by
  intro f
  induction f with
  | zero =>
    intro x hx
    simp at hx
    exact ⟨x, by simp [wrapHi, not_lt.mpr hx]⟩
  | succ f ih =>
    intro x hx
    by_cases h : L / 2 < x
    · obtain ⟨y, hy⟩ := ih (x - L) (by push_cast at hx; linarith)
      exact ⟨y, by simp [wrapHi, h, hy]⟩
    · exact ⟨x, by simp [wrapHi, h]⟩

theorem wrapLo_terminates (L : K) : ∀ (f : Nat) (x : K), -L / 2 - f * L ≤ x →
    ∃ y, wrapLo L f x = some y := by
  intro f
  induction f with
  | zero =>
    intro x hx
    simp at hx
    exact ⟨x, by simp [wrapLo, not_lt.mpr hx]⟩
  | succ f ih =>
    intro x hx
    by_cases h : x < -L / 2
    · obtain ⟨y, hy⟩ := ih (x + L) (by push_cast at hx; linarith)
      exact ⟨y, by simp [wrapLo, h, hy]⟩
    · exact ⟨x, by simp [wrapLo, h]⟩

/-- partial correctness of the two loops of one coordinate -/
theorem wrap1_spec (L : K) (f : Nat) (x y : K) (h : wrap1 L f x = some y) :
    -L / 2 ≤ y ∧ y ≤ L / 2 ∧ ∃ n : Int, y = x - n * L := by
  unfold wrap1 at h
  cases h1 : wrapHi L f x with
  | none => simp [h1] at h
  | some y1 =>
    simp [h1] at h
    obtain ⟨n1, _, hy1, hle1, hlo1⟩ := wrapHi_spec L f x y1 h1
    obtain ⟨n2, _, hy2, hge2, hlo2⟩ := wrapLo_spec L f y1 y h
    refine ⟨hge2, ?_, ⟨(n1 : Int) - n2, by rw [hy2, hy1]; push_cast; ring⟩⟩
    rcases hlo2 with h0 | h2
    · subst h0; simp at hy2; rw [hy2]; exact hle1
    · exact le_of_lt h2

theorem wrap1_terminates (L : K) (hL : 0 < L) (f : Nat) (x : K)
    (hx : |x| ≤ L / 2 + f * L) : ∃ y, wrap1 L f x = some y := by
  have hx' := abs_le.mp hx
  obtain ⟨y1, h1⟩ := wrapHi_terminates L f x hx'.2
  obtain ⟨n1, hn1, hy1, hle1, hlo1⟩ := wrapHi_spec L f x y1 h1
  have : -L / 2 - f * L ≤ y1 := by
    rcases hlo1 with h0 | h2
    · subst h0; simp at hy1; rw [hy1]; linarith [hx'.1]
    · have : (0:K) ≤ f * L := by positivity
      linarith
  obtain ⟨y, h2⟩ := wrapLo_terminates L f y1 this
  exact ⟨y, by simp [wrap1, h1, h2]⟩

theorem wrap1_inside (L : K) (f : Nat) (x : K) (h1 : -L / 2 ≤ x) (h2 : x ≤ L / 2) :
    wrap1 L f x = some x := by
  have a : wrapHi L f x = some x := by cases f <;> simp [wrapHi, not_lt.mpr h2]
  have b : wrapLo L f x = some x := by cases f <;> simp [wrapLo, not_lt.mpr h1]
  simp [wrap1, a, b]

/-! ### lists -/

theorem mapOpt_forall₂ {α β : Type} (g : α → Option β) :
    ∀ (l : List α) (l' : List β), mapOpt g l = some l' → List.Forall₂ (fun a b => g a = some b) l l' := by
  intro l
  induction l with
  | nil => intro l' h; simp [mapOpt] at h; subst h; exact List.Forall₂.nil
  | cons a l ih =>
    intro l' h
    cases ha : g a with
    | none => simp [mapOpt, ha] at h
    | some b =>
      cases hl : mapOpt g l with
      | none => simp [mapOpt, ha, hl] at h
      | some lb =>
        simp [mapOpt, ha, hl] at h
        subst h
        exact List.Forall₂.cons ha (ih lb hl)

theorem mapOpt_terminates {α β : Type} (g : α → Option β) :
    ∀ (l : List α), (∀ a ∈ l, ∃ b, g a = some b) → ∃ l', mapOpt g l = some l' := by
  intro l
  induction l with
  | nil => intro _; exact ⟨[], rfl⟩
  | cons a l ih =>
    intro h
    obtain ⟨b, hb⟩ := h a (by simp)
    obtain ⟨l', hl'⟩ := ih (fun a ha => h a (by simp [ha]))
    exact ⟨b :: l', by simp [mapOpt, hb, hl']⟩

/-! ### shear: the radial loops -/

theorem shearHi_spec (bx op1 dv : K) : ∀ (f : Nat) (p q : P K), shearHi bx op1 dv f p = some q →
    ∃ n : Nat, q.x = p.x - n * bx ∧ q.y = p.y + n * op1 ∧ q.vy = p.vy + n * dv ∧ q.z = p.z ∧
      q.x ≤ bx / 2 ∧ (n = 0 ∨ -bx / 2 < q.x) := by
  intro f
  induction f with
  | zero =>
    intro p q h
    by_cases hx : bx / 2 < p.x
    · simp [shearHi, hx] at h
    · simp [shearHi, hx] at h
      subst h
      exact ⟨0, by simp, by simp, by simp, rfl, not_lt.mp hx, Or.inl rfl⟩
  | succ f ih =>
    intro p q h
    by_cases hx : bx / 2 < p.x
    · simp [shearHi, hx] at h
      obtain ⟨n, h1, h2, h3, h4, h5, h6⟩ := ih _ _ h
      simp at h1 h2 h3 h4
      refine ⟨n + 1, by rw [h1]; push_cast; ring, by rw [h2]; push_cast; ring, by rw [h3]; push_cast; ring, h4, h5, Or.inr ?_⟩
      rcases h6 with h0 | h7
      · subst h0; simp at h1; rw [h1]; linarith
      · exact h7
    · simp [shearHi, hx] at h
      subst h
      exact ⟨0, by simp, by simp, by simp, rfl, not_lt.mp hx, Or.inl rfl⟩

theorem shearLo_spec (bx om1 dv : K) : ∀ (f : Nat) (p q : P K), shearLo bx om1 dv f p = some q →
    ∃ n : Nat, q.x = p.x + n * bx ∧ q.y = p.y + n * om1 ∧ q.vy = p.vy - n * dv ∧ q.z = p.z ∧
      -bx / 2 ≤ q.x ∧ (n = 0 ∨ q.x < bx / 2) := by
  intro f
  induction f with
  | zero =>
    intro p q h
    by_cases hx : p.x < -bx / 2
    · simp [shearLo, hx] at h
    · simp [shearLo, hx] at h
      subst h
      exact ⟨0, by simp, by simp, by simp, rfl, not_lt.mp hx, Or.inl rfl⟩
  | succ f ih =>
    intro p q h
    by_cases hx : p.x < -bx / 2
    · simp [shearLo, hx] at h
      obtain ⟨n, h1, h2, h3, h4, h5, h6⟩ := ih _ _ h
      simp at h1 h2 h3 h4
      refine ⟨n + 1, by rw [h1]; push_cast; ring, by rw [h2]; push_cast; ring, by rw [h3]; push_cast; ring, h4, h5, Or.inr ?_⟩
      rcases h6 with h0 | h7
      · subst h0; simp at h1; rw [h1]; linarith
      · exact h7
    · simp [shearLo, hx] at h
      subst h
      exact ⟨0, by simp, by simp, by simp, rfl, not_lt.mp hx, Or.inl rfl⟩


/-! ### open boundary: the removal loop -/
section openLoop
variable {α : Type}

theorem swapRemove_take (l : List α) (i : Nat) (h : i < l.length) :
    (swapRemove l i).take i = l.take i := by
  unfold swapRemove
  cases hl : l.getLast? with
  | none => rfl
  | some last =>
    simp only [List.take_set_of_le (Nat.le_refl i)]
    rw [List.dropLast_eq_take, List.take_take]
    congr 1
    omega

theorem swapRemove_perm (l : List α) (i : Nat) (h : i < l.length) :
    List.Perm (swapRemove l i) (l.eraseIdx i) := by
  unfold swapRemove
  cases hl : l.getLast? with
  | none => simp [List.getLast?_eq_none_iff] at hl; subst hl; simp at h
  | some last =>
    obtain ⟨l0, rfl⟩ : ∃ l0, l = l0 ++ [last] := by
      have hne : l ≠ [] := by intro e; subst e; simp at h
      refine ⟨l.dropLast, ?_⟩
      have := List.dropLast_append_getLast hne
      rw [List.getLast?_eq_some_getLast hne] at hl
      simp at hl
      rw [hl] at this
      exact this.symm
    simp only [List.dropLast_concat]
    simp at h
    by_cases hi : i < l0.length
    · rw [List.eraseIdx_append_of_lt_length hi]
      have hs : l0.set i last = l0.take i ++ last :: l0.drop (i+1) := by
        rw [List.set_eq_take_append_cons_drop]; simp [hi]
      have he : l0.eraseIdx i = l0.take i ++ l0.drop (i+1) := List.eraseIdx_eq_take_drop_succ _ _
      rw [hs, he, List.append_assoc]
      apply List.Perm.append_left
      exact (List.perm_append_singleton last (l0.drop (i+1))).symm
    · have hi' : i = l0.length := by omega
      subst hi'
      rw [List.set_eq_of_length_le (Nat.le_refl _)]
      rw [List.eraseIdx_append_of_length_le (Nat.le_refl _)]
      simp


theorem openLoop_perm (out : α → Bool) (i : Nat) (l : List α) :
    List.Perm (openLoop out i l) (l.take i ++ (l.drop i).filter (fun a => !out a)) := by
  fun_induction openLoop out i l with
  | case1 i l h ho ih =>
    refine ih.trans ?_
    rw [swapRemove_take l i h]
    apply List.Perm.append_left
    have hp := swapRemove_perm l i h
    have e1 : swapRemove l i = (swapRemove l i).take i ++ (swapRemove l i).drop i := (List.take_append_drop i _).symm
    rw [e1, swapRemove_take l i h, List.eraseIdx_eq_take_drop_succ] at hp
    have hd := (List.perm_append_left_iff _).mp hp
    rw [List.drop_eq_getElem_cons h, List.filter_cons]
    simp only [ho, Bool.not_true, Bool.false_eq_true, if_false]
    exact hd.filter _
  | case2 i l h ho ih =>
    refine ih.trans ?_
    rw [List.drop_eq_getElem_cons h, List.filter_cons]
    simp only [ho, Bool.not_false, if_true]
    have : List.take (i+1) l = List.take i l ++ [l[i]] := List.take_succ_eq_append_getElem h
    rw [this, List.append_assoc, List.singleton_append]
  | case3 i l h =>
    simp at h
    simp [List.take_of_length_le h, List.drop_of_length_le h]

/-- every survivor is inside, in particular -/
theorem openLoop_zero (out : α → Bool) (l : List α) :
    List.Perm (openLoop out 0 l) (l.filter (fun a => !out a)) := by
  simpa using openLoop_perm out 0 l

theorem take_eraseIdx_self {α} (l : List α) (i : Nat) (h : i < l.length) : (l.eraseIdx i).take i = l.take i := by
  rw [List.eraseIdx_eq_take_drop_succ]
  have hl : (l.take i).length = i := by simp; omega
  rw [List.take_append_of_le_length (by omega)]
  rw [List.take_take]; simp
theorem drop_eraseIdx_self {α} (l : List α) (i : Nat) (h : i < l.length) : (l.eraseIdx i).drop i = l.drop (i+1) := by
  rw [List.eraseIdx_eq_take_drop_succ]
  have hl : (l.take i).length = i := by simp; omega
  rw [List.drop_append_of_le_length (by omega)]
  rw [List.drop_eq_nil_of_le (by omega)]; simp

theorem openLoopSorted_eq {α : Type} (out : α → Bool) (i : Nat) (l : List α) :
    openLoopSorted out i l = l.take i ++ (l.drop i).filter (fun a => !out a) := by
  fun_induction openLoopSorted out i l with
  | case1 i l h ho ih =>
    rw [ih, take_eraseIdx_self l i h, drop_eraseIdx_self l i h]
    rw [List.drop_eq_getElem_cons h, List.filter_cons]
    simp only [ho, Bool.not_true, Bool.false_eq_true, if_false]
  | case2 i l h ho ih =>
    rw [ih, List.drop_eq_getElem_cons h, List.filter_cons]
    simp only [ho, Bool.not_false, if_true]
    rw [List.take_succ_eq_append_getElem h, List.append_assoc, List.singleton_append]
  | case3 i l h =>
    simp at h
    simp [List.take_of_length_le h, List.drop_of_length_le h]

end openLoop

end RV.C15
