import RV.Proofs.C01Whfast
/- C01 / WHFast: consistency and symmetry of every member of the option lattice -/
namespace RV.C01.Whfast
open RV.C01 RV.C01.Gen RV.C01.Adv
theorem consistent : ∀ cfg ∈ whAccepted, ∀ s ∈ stepOf cfg,
    Consistent s tolWH ∧ (cfg.1 = 1 ∨ cfg.1 = 2 → jumpSum s = 1) := by decide +kernel


/-- without second corrector and for the default, modified-kick and lazy kernels every configuration is
    `χ ∘ K ∘ χ⁻¹`: `χ` = the first corrector, `χ⁻¹` literally its reverse with negated coefficients, `K` a palindrome -/
theorem symmetric_partial : ∀ cfg ∈ whAccepted, cfg.2.2.2 = 0 → cfg.2.1 ≠ 2 → ∀ s ∈ stepOf cfg, SplitSym s (preLen cfg) := by
  decide +kernel

/-- the composition kernel (kernel = 2) is not a palindrome -/
theorem composition_kernel_not_symmetric : ∀ core ∈ whCore.lookup (0, 2), ¬ Palindrome core := by decide +kernel

/-- finding F18: with `corrector2 = 1` the operators after the kernel are not the inverse of those before it, in any
    configuration — `reb_whfast_apply_corrector2(r, -1.)` is not the inverse of `reb_whfast_apply_corrector2(r, 1.)` -/
theorem symmetric_fails_with_corrector2 : ∀ cfg ∈ whAccepted, cfg.2.2.2 = 1 → ∀ s ∈ stepOf cfg, ¬ SplitSym s (preLen cfg) := by
  decide +kernel
/-- F18 in the free algebra: second corrector followed by its "inverse" is not the identity: the coefficient of the
    words with two `B`s and two `A`s deviates by 7/1440 -/
theorem corrector2_not_inverse : ¬ WordIdentity (whCorr2_p ++ whCorr2_m) [4, 4, 4] κWH (1/1000) ∧
    WordIdentity (whCorr2_p ++ whCorr2_m) [4, 4, 3] κWH tolWH ∧
    ¬ (norm whCorr2_m = invG (norm whCorr2_p)) := by decide +kernel

/-- two unsynchronised steps + synchronize = two synchronized steps (as words in the operator groups) -/
theorem unsync_partial : ∀ cfg ∈ whAccepted, cfg.2.2.2 = 0 → ∀ s ∈ stepOf cfg, ∀ two ∈ twoOf cfg,
    norm two = norm (s ++ s) := by decide +kernel

end RV.C01.Whfast
