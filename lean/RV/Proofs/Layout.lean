import RV.Model.Layout
/-
  C18 — what the matcher of RV/Model/Layout.lean establishes, for ARBITRARY tables
  (this is the unbounded half; RV/Props/C18.lean then evaluates the matcher on the tables
  generated from the code).  Mathlib-free.
-/
set_option linter.unusedVariables false
set_option linter.unusedSimpArgs false
namespace RV.Layout

/-! ### names -/

theorem nameEq_iff (a b : Name) : nameEq a b = true ↔ a = b := by
  induction a generalizing b with
  | nil => cases b <;> simp [nameEq]
  | cons x r ih =>
    cases b with
    | nil => simp [nameEq]
    | cons y r' => simp [nameEq, ih, Nat.beq_eq_true_eq]

theorem stripPrefix_iff (p s rest : Name) : stripPrefix p s = some rest ↔ s = p ++ rest := by
  induction p generalizing s with
  | nil => simp [stripPrefix, eq_comm]
  | cons a p ih =>
    cases s with
    | nil => simp [stripPrefix]
    | cons b s =>
      simp only [stripPrefix]
      by_cases hab : Nat.beq a b = true
      · have : a = b := Nat.eq_of_beq_eq_true hab
        subst this
        simp [ih]
      · have hne : a ≠ b := fun e => hab (e ▸ Nat.beq_refl a)
        simp [hab]
        intro e
        exact fun _ => hne e.symm

/-- `means pre name e`: `e` is `pre` followed by something equal to `name` modulo case and punctuation -/
theorem means_iff (pre name e : Name) :
    means pre name e = true ↔ ∃ rest, e = pre ++ rest ∧ norm rest = norm name := by
  unfold means
  constructor
  · intro h
    split at h
    · rename_i rest hs
      exact ⟨rest, (stripPrefix_iff _ _ _).1 hs, (nameEq_iff _ _).1 h⟩
    · cases h
  · rintro ⟨rest, he, hn⟩
    have := (stripPrefix_iff pre e rest).2 he
    rw [this]
    exact (nameEq_iff _ _).2 hn

/-! ### the pairing -/

theorem splitN_spec {α : Type} (n : Nat) (l a b : List α) (h : splitN n l = some (a, b)) :
    a ++ b = l ∧ a.length = n := by
  induction n generalizing l a b with
  | zero => simp [splitN] at h; obtain ⟨rfl, rfl⟩ := h; simp
  | succ n ih =>
    cases l with
    | nil => simp [splitN] at h
    | cons x r =>
      simp only [splitN] at h
      split at h
      · rename_i a' b' hs
        simp at h
        obtain ⟨rfl, rfl⟩ := h
        obtain ⟨e1, e2⟩ := ih r a' b' hs
        simp [e1, e2]
      · cases h

/-- `pairUp` returns the ctypes fields in order, each with a non-empty run, and the runs followed by
    the left-over members are exactly the C members, in order: nothing skipped, nothing used twice -/
theorem pairUp_spec (py c : List Field) (prs : List (Field × List Field)) (rest : List Field)
    (h : pairUp py c = some (prs, rest)) :
    prs.map Prod.fst = py ∧ (prs.map Prod.snd).flatten ++ rest = c ∧
    ∀ pr ∈ prs, pr.2.length = span pr.1 (pr.2.headD default) ∧ pr.2 ≠ [] := by
  induction py generalizing c prs rest with
  | nil => simp [pairUp] at h; obtain ⟨rfl, rfl⟩ := h; simp
  | cons p ps ih =>
    cases c with
    | nil => simp [pairUp] at h
    | cons c cs =>
      simp only [pairUp] at h
      split at h
      · cases h
      · rename_i n hn
        split at h
        · cases h
        · rename_i run rest' hsp
          split at h
          · cases h
          · rename_i prs' left hp
            simp at h
            obtain ⟨rfl, rfl⟩ := h
            obtain ⟨e1, e2, e3⟩ := ih rest' prs' left hp
            obtain ⟨s1, s2⟩ := splitN_spec n cs run rest' hsp
            refine ⟨by simp [e1], ?_, ?_⟩
            · simp [List.flatten, List.append_assoc, e2, s1]
            · intro pr hpr
              simp at hpr
              rcases hpr with rfl | hpr
              · simp [s2, hn]
              · exact e3 pr hpr

/-! ### what a good pair means -/

/-- consecutive members of size `es` starting at `off`, each compatible with `ek` -/
def RunAt (cm : ClassMap) (ek : Kind) (es : Nat) : Nat → List Field → Prop
  | _, [] => True
  | off, c :: cs => c.off = off ∧ c.size = es ∧ kindOk cm c.kind ek = true ∧ RunAt cm ek es (off + es) cs

theorem runOk_iff (cm : ClassMap) (ek : Kind) (es off : Nat) (run : List Field) :
    runOk cm ek es off run = true ↔ RunAt cm ek es off run := by
  induction run generalizing off with
  | nil => simp [runOk, RunAt]
  | cons c cs ih => simp [runOk, RunAt, ih, and_assoc]

/-- the `i`-th member of a good run sits at `off + i * es`, has size `es` and a compatible kind -/
theorem runAt_get (cm : ClassMap) (ek : Kind) (es off : Nat) (run : List Field)
    (h : RunAt cm ek es off run) (i : Nat) (hi : i < run.length) :
    run[i].off = off + i * es ∧ run[i].size = es ∧ kindOk cm run[i].kind ek = true := by
  induction run generalizing off i with
  | nil => simp at hi
  | cons c cs ih =>
    obtain ⟨h1, h2, h3, h4⟩ := h
    cases i with
    | zero => simp [h1, h2, h3]
    | succ j =>
      have := ih (off + es) h4 j (by simpa using hi)
      simp only [List.getElem_cons_succ]
      refine ⟨?_, this.2.1, this.2.2⟩
      rw [this.1, Nat.succ_mul]; omega

/-- a ctypes field and the run of C members it is paired with are the same bytes with the same type:
    either one member with equal offset, equal size and compatible kind (a one-element ctypes array may
    stand for a scalar), or a ctypes array of `n` elements laid exactly over `n` consecutive equal members -/
def Covers (cm : ClassMap) (p : Field) (run : List Field) : Prop :=
  (∃ c, run = [c] ∧ c.off = p.off ∧ c.size = p.size ∧
      (kindOk cm c.kind p.kind = true ∨ ∃ ek, p.kind = .arr ek 1 ∧ kindOk cm c.kind ek = true)) ∨
  (∃ ek n es, p.kind = .arr ek n ∧ n ≠ 0 ∧ run.length = n ∧ p.size = n * es ∧ RunAt cm ek es p.off run)

theorem pairWhy_none_covers (cm : ClassMap) (pr : Field × List Field) (hne : pr.2 ≠ [])
    (h : pairWhy cm pr = none) : Covers cm pr.1 pr.2 := by
  obtain ⟨p, run⟩ := pr
  simp only at hne h ⊢
  match run, hne with
  | [c], _ =>
    simp only [pairWhy] at h
    split at h; · cases h
    rename_i h1
    split at h; · cases h
    rename_i h2
    have e1 : c.off = p.off := by simpa using h1
    have e2 : c.size = p.size := by simpa using h2
    split at h
    · rename_i hk
      exact Or.inl ⟨c, rfl, e1, e2, Or.inl hk⟩
    · split at h
      · rename_i ek n hkind
        split at h
        · rename_i hc
          simp only [Bool.and_eq_true, beq_iff_eq] at hc
          obtain ⟨⟨_, hn⟩, hk⟩ := hc
          subst hn
          exact Or.inl ⟨c, rfl, e1, e2, Or.inr ⟨ek, hkind, hk⟩⟩
        · cases h
      · cases h
  | c :: d :: r, _ =>
    simp only [pairWhy] at h
    split at h
    · rename_i ek n hkind
      split at h
      · rename_i hc
        simp only [Bool.and_eq_true, bne_iff_ne, ne_eq, beq_iff_eq] at hc
        obtain ⟨⟨⟨hn, hl⟩, hs⟩, hr⟩ := hc
        exact Or.inr ⟨ek, n, p.size / n, hkind, hn, hl, hs, (runOk_iff _ _ _ _ _).1 hr⟩
      · cases h
    · cases h

theorem badPairs_nil (cm : ClassMap) (s : Name) (prs : List (Field × List Field))
    (h : badPairs cm s prs = []) : ∀ pr ∈ prs, pairWhy cm pr = none := by
  induction prs with
  | nil => simp
  | cons pr r ih =>
    simp only [badPairs] at h
    split at h
    · rename_i hw
      intro x hx
      simp at hx
      rcases hx with rfl | hx
      · exact hw
      · exact ih h x hx
    · cases h

/-- two lists of equal length related element by element -/
inductive Forall₂ {α β : Type} (R : α → β → Prop) : List α → List β → Prop
  | nil : Forall₂ R [] []
  | cons {a b l₁ l₂} : R a b → Forall₂ R l₁ l₂ → Forall₂ R (a :: l₁) (b :: l₂)

theorem Forall₂.length_eq {α β : Type} {R : α → β → Prop} {l₁ : List α} {l₂ : List β}
    (h : Forall₂ R l₁ l₂) : l₁.length = l₂.length := by
  induction h with
  | nil => rfl
  | cons _ _ ih => simp [ih]

theorem Forall₂.get {α β : Type} {R : α → β → Prop} {l₁ : List α} {l₂ : List β}
    (h : Forall₂ R l₁ l₂) (i : Nat) (h₁ : i < l₁.length) (h₂ : i < l₂.length) : R l₁[i] l₂[i] := by
  induction h generalizing i with
  | nil => simp at h₁
  | cons hab _ ih =>
    cases i with
    | zero => simpa using hab
    | succ j => simpa using ih j (by simpa using h₁) (by simpa using h₂)

theorem forall₂_of_pairs {R : Field → List Field → Prop} (prs : List (Field × List Field))
    (h : ∀ pr ∈ prs, R pr.1 pr.2) : Forall₂ R (prs.map Prod.fst) (prs.map Prod.snd) := by
  induction prs with
  | nil => exact Forall₂.nil
  | cons pr r ih =>
    simp only [List.map_cons]
    exact Forall₂.cons (h pr (by simp)) (ih (fun x hx => h x (by simp [hx])))

/-- **Soundness of the matcher, for arbitrary tables.**  If `layoutBad` reports nothing, the C members
    split — in order, without gaps or reuse — into one run per ctypes field, each field `Covers` its run
    (same offset, same size, compatible kind), and no C member is left over unless the class is allowed
    to mirror a prefix. -/
theorem layoutBad_nil_sound (cm : ClassMap) (pfx : Bool) (s : Name) (py c : List Field)
    (h : layoutBad cm pfx s py c = []) :
    ∃ runs : List (List Field), Forall₂ (Covers cm) py runs ∧
      (runs.flatten = c ∨ (pfx = true ∧ ∃ tail, runs.flatten ++ tail = c)) := by
  unfold layoutBad at h
  split at h
  · cases h
  · rename_i prs rest hp
    obtain ⟨e1, e2, e3⟩ := pairUp_spec py c prs rest hp
    have hb : badPairs cm s prs = [] := (List.append_eq_nil_iff.1 h).1
    have hr := (List.append_eq_nil_iff.1 h).2
    have hw := badPairs_nil cm s prs hb
    refine ⟨prs.map Prod.snd, ?_, ?_⟩
    · rw [← e1]
      exact forall₂_of_pairs prs (fun pr hpr => pairWhy_none_covers cm pr (e3 pr hpr).2 (hw pr hpr))
    · cases rest with
      | nil => left; simpa using e2
      | cons r rs =>
        simp only at hr
        split at hr
        · rename_i hpfx
          exact Or.inr ⟨hpfx, r :: rs, e2⟩
        · cases hr

/-- a class checked without the prefix allowance mirrors every C member -/
theorem layoutBad_nil_exact (cm : ClassMap) (s : Name) (py c : List Field)
    (h : layoutBad cm false s py c = []) :
    ∃ runs : List (List Field), Forall₂ (Covers cm) py runs ∧ runs.flatten = c := by
  obtain ⟨runs, h1, h2⟩ := layoutBad_nil_sound cm false s py c h
  refine ⟨runs, h1, ?_⟩
  rcases h2 with h2 | ⟨h2, _⟩
  · exact h2
  · cases h2

/-! ### kinds: what compatibility gives for scalars -/

theorem kindOk_int (cm : ClassMap) (s : Bool) (n : Nat) (p : Kind) (h : kindOk cm (.int s n) p = true) :
    p = .int s n := by
  cases p <;> simp [kindOk] at h
  obtain ⟨rfl, rfl⟩ := h; rfl

theorem kindOk_f64 (cm : ClassMap) (p : Kind) (h : kindOk cm .f64 p = true) : p = .f64 := by
  cases p <;> simp [kindOk] at h; rfl

theorem kindOk_struct (cm : ClassMap) (s : Name) (p : Kind) (h : kindOk cm (.struct s) p = true) :
    ∃ c, p = .struct c ∧ structOf cm c = some s := by
  cases p <;> simp [kindOk] at h
  rename_i c
  refine ⟨c, rfl, ?_⟩
  unfold optNameEq at h
  split at h
  · rename_i a b hs; rw [hs, (nameEq_iff _ _).1 h]
  · cases h

theorem kindOk_fptr_not_ptr (cm : ClassMap) (r : Kind) (n : Nat) (p : Kind) : kindOk cm (.fptr r n) (.ptr p) = false := by
  simp [kindOk]

/-! ### options -/

theorem mem_itemsOf {k : Name} {l : List (Name × Name × Int)} {x : Name × Int} (h : x ∈ itemsOf k l) :
    (k, x.1, x.2) ∈ l := by
  induction l with
  | nil => simp [itemsOf] at h
  | cons y r ih =>
    obtain ⟨k', n, v⟩ := y
    simp only [itemsOf] at h
    split at h
    · rename_i hk
      have := (nameEq_iff _ _).1 hk
      subst this
      simp at h
      rcases h with rfl | h
      · simp
      · exact List.mem_cons_of_mem _ (ih h)
    · exact List.mem_cons_of_mem _ (ih h)

/-- **Forward map, arbitrary tables.**  If `optForward` holds for a family then the C member of the family
    is an enumeration and every (name, value) of the Python dictionary has a C enumerator of that
    enumeration, starting with the family's prefix, whose remainder equals the name modulo case and
    punctuation, and whose value is the Python value; and no second enumerator has that meaning. -/
theorem optForward_sound (o : OptTables) (f : OptFamily) (h : optForward o f = true) :
    ∃ en, enumOfMember o.cRows f.struct f.member = some en ∧
      ∀ it ∈ itemsOf f.dict o.pyOpts, ∃ e, (en, e, it.2) ∈ o.cEnums ∧
        (∃ rest, e = f.pre ++ rest ∧ norm rest = norm it.1) ∧
        ∀ e' ∈ itemsOf en o.cEnums, means f.pre it.1 e'.1 = true → e' = (e, it.2) := by
  unfold optForward at h
  split at h
  · cases h
  · rename_i en hen
    refine ⟨en, hen, ?_⟩
    simp only [Bool.and_eq_true, List.all_eq_true] at h
    intro it hit
    have := h.2 it hit
    split at this
    · rename_i e hm
      have hv : e.2 = it.2 := by simpa using this
      have hmem : e ∈ meaning f.pre it.1 (itemsOf en o.cEnums) := by rw [hm]; simp
      unfold meaning at hmem hm
      obtain ⟨h1, h2⟩ := List.mem_filter.1 hmem
      refine ⟨e.1, ?_, (means_iff _ _ _).1 h2, ?_⟩
      · have := mem_itemsOf h1; rw [hv] at this; exact this
      · intro e' he' hm'
        have : e' ∈ List.filter (fun e => means f.pre it.1 e.1) (itemsOf en o.cEnums) :=
          List.mem_filter.2 ⟨he', hm'⟩
        rw [hm] at this
        simp at this
        rw [this, ← hv]
    · cases this

theorem distinctBy_pairwise {α : Type} (eq : α → α → Bool) (l : List α) (h : distinctBy eq l = true) :
    l.Pairwise (fun a b => eq a b = false) := by
  induction l with
  | nil => exact List.Pairwise.nil
  | cons x r ih =>
    simp only [distinctBy, Bool.and_eq_true, Bool.not_eq_true', List.any_eq_false] at h
    exact List.Pairwise.cons (fun b hb => by simpa using h.1 b hb) (ih h.2)

/-- **Reverse map, arbitrary tables.**  If `optRoundtrip` holds, no two names of the dictionary share a
    value (so the getter's search `for name, v in D.items(): if v == field` can only return the name
    that was set), and no two names coincide modulo case and punctuation. -/
theorem optRoundtrip_sound (o : OptTables) (f : OptFamily) (h : optRoundtrip o f = true) :
    (itemsOf f.dict o.pyOpts).Pairwise (fun a b => a.2 ≠ b.2) ∧
    (itemsOf f.dict o.pyOpts).Pairwise (fun a b => norm a.1 ≠ norm b.1) := by
  unfold optRoundtrip at h
  simp only [Bool.and_eq_true] at h
  obtain ⟨⟨h1, h2⟩, _⟩ := h
  constructor
  · exact (distinctBy_pairwise _ _ h1).imp (fun hab => by simpa using hab)
  · refine (distinctBy_pairwise _ _ h2).imp (fun {a b} hab => ?_)
    intro e
    rw [(nameEq_iff _ _).2 e] at hab
    cases hab

/-! ### call sites -/

theorem nth_mem {α : Type} (i : Nat) (l : List α) (x : α) (h : nth i l = some x) : x ∈ l := by
  induction l generalizing i with
  | nil => simp [nth] at h
  | cons y r ih =>
    cases i with
    | zero => simp [nth] at h; simp [h]
    | succ j => simp only [nth] at h; exact List.mem_cons_of_mem _ (ih j h)

theorem protoAt_some (i : Nat) (n : Name) (protos : List Proto) (p : Proto) (h : protoAt i n protos = some p) :
    p ∈ protos ∧ p.name = n := by
  unfold protoAt at h
  split at h
  · rename_i q hq
    split at h
    · rename_i hn
      simp at h; subst h
      exact ⟨nth_mem _ _ _ hq, (nameEq_iff _ _).1 hn⟩
    · cases h
  · cases h

theorem callWhy_none_sound (cm : ClassMap) (protos : List Proto) (c : CallSite) (h : callWhy cm protos c = none) :
    ∃ p, (p ∈ protos ∧ p.name = c.fn) ∧
      ((∃ r, c.restype = some r ∧ kindOk cm p.ret r = true) ∨
       (c.restype = none ∧ (c.used = false ∨ retDefaultOk p.ret = true))) := by
  unfold callWhy at h
  split at h
  · cases h
  · rename_i p hp
    refine ⟨p, protoAt_some _ _ _ _ hp, ?_⟩
    split at h
    · rename_i r hr
      split at h
      · cases h
      · rename_i hk
        exact Or.inl ⟨r, hr, by simpa using hk⟩
    · rename_i hr
      split at h
      · cases h
      · rename_i hk
        refine Or.inr ⟨hr, ?_⟩
        simp only [Bool.and_eq_true, Bool.not_eq_true', not_and, Bool.not_eq_false] at hk
        cases hu : c.used
        · exact Or.inl rfl
        · exact Or.inr (hk hu)

/-! ### the option setter / getter model -/

theorem lookupVal_mem (k : Name) (d : List (Name × Int)) (v : Int) (h : lookupVal k d = some v) : (k, v) ∈ d := by
  induction d with
  | nil => simp [lookupVal] at h
  | cons e r ih =>
    obtain ⟨k', v'⟩ := e
    simp only [lookupVal] at h
    split at h
    · rename_i hk
      have := (nameEq_iff _ _).1 hk
      simp at h; subst h; subst this; simp
    · exact List.mem_cons_of_mem _ (ih h)

/-- if values are pairwise distinct, the getter returns the name stored with the value -/
theorem getOpt_of_mem (d : List (Name × Int)) (n : Name) (v : Int) (hm : (n, v) ∈ d)
    (hd : d.Pairwise (fun a b => a.2 ≠ b.2)) : getOpt d v = some n := by
  induction d with
  | nil => cases hm
  | cons e r ih =>
    obtain ⟨n', v'⟩ := e
    simp only [getOpt]
    rcases List.mem_cons.1 hm with h | h
    · cases h; simp
    · have hne : v' ≠ v := (List.pairwise_cons.1 hd).1 (n, v) h
      have : (v' == v) = false := by simpa using hne
      rw [this]; simp only [Bool.false_eq_true, if_false]
      exact ih h (List.pairwise_cons.1 hd).2

/-- **last write wins**: the field after any history of assignments followed by a successful one is what that last
    assignment stores on a fresh field — the result does not depend on what was set before -/
theorem assignAll_last (lc : Bool) (strip : List Nat) (d : List (Name × Int)) (c0 c1 : Int) (hist : List OptArg) (a : OptArg)
    (v : Int) (h : setOpt lc strip d a = some v) :
    assignAll lc strip d c0 (hist ++ [a]) = v ∧ assign lc strip d c1 a = v := by
  constructor
  · induction hist generalizing c0 with
    | nil => simp [assignAll, assign, h]
    | cons x r ih => simp only [List.cons_append, assignAll]; exact ih _
  · simp [assign, h]

/-- **set then get**: a string the setter accepts stores the dictionary value of its normal form, and — values being
    pairwise distinct — the getter returns that normal form (the dictionary's spelling of the name) -/
theorem set_then_get (lc : Bool) (strip : List Nat) (d : List (Name × Int)) (s : Name) (v : Int)
    (h : setOpt lc strip d (.str s) = some v) (hd : d.Pairwise (fun a b => a.2 ≠ b.2)) :
    (normIn lc strip s, v) ∈ d ∧ getOpt d v = some (normIn lc strip s) := by
  have hm := lookupVal_mem _ _ _ (by simpa [setOpt] using h)
  exact ⟨hm, getOpt_of_mem d _ v hm hd⟩

/-- an integer argument is stored as it is, and an unknown string leaves the field unchanged -/
theorem assign_int_and_unknown (lc : Bool) (strip : List Nat) (d : List (Name × Int)) (cur v : Int) (s : Name)
    (hs : lookupVal (normIn lc strip s) d = none) :
    assign lc strip d cur (.int v) = v ∧ assign lc strip d cur (.str s) = cur := by
  simp [assign, setOpt, hs]

end RV.Layout
