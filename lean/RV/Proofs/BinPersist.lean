/-
  Bridge between the field-level persistence model of C05 (RV/Model/Persist.lean: descriptor table, streams as
  lists of (id, payload) over `UInt8`) and the byte-level model of C06/C07 (RV/Model/Bin.lean: 64-byte header,
  16-byte field headers, END marker, trailer over `List Nat`).

  Adapter: a `Persist.Field = Nat × List UInt8` becomes the `Bin.Field` with the same id, `size = payload length`,
  and the payload bytes as naturals (`UInt8.toNat`; back with `UInt8.ofNat`).  Assumed of a stream: ids < 2³²,
  payload lengths < 2⁶⁴, the id of the END row is 9999 (`Bin.END`).  Nothing else.
-/
import RV.Proofs.BinArch
import RV.Proofs.PersistRT3
set_option linter.unusedVariables false
namespace RV.BinPersist
open RV

def toBin (f : Persist.Field) : Bin.Field := ⟨f.1, f.2.length, f.2.map (·.toNat)⟩
def toP (f : Bin.Field) : Persist.Field := (f.ty, f.data.map UInt8.ofNat)

theorem toP_toBin (f : Persist.Field) : toP (toBin f) = f := by
  obtain ⟨id, pl⟩ := f
  simp only [toP, toBin, List.map_map]
  congr 1
  conv_rhs => rw [← List.map_id pl]
  apply List.map_congr_left
  intro b _
  simp

/-- what the byte stream needs of a field list (END excluded) -/
def StreamOK (fs : List Persist.Field) : Prop :=
  ∀ f ∈ fs, f.1 < 4294967296 ∧ f.2.length < 18446744073709551616 ∧ f.1 ≠ Bin.END

theorem toBin_WFs (fs : List Persist.Field) (h : StreamOK fs) : Bin.WFs (fs.map toBin) := by
  intro g hg
  obtain ⟨f, hf, rfl⟩ := List.mem_map.mp hg
  obtain ⟨h1, h2, h3⟩ := h f hf
  exact ⟨by simp [toBin], h1, h2, h3⟩

/-- the byte stream of a field list: header, encoded fields, END marker, zero trailer
    (= `reb_simulation_save_to_stream`, output.c:475-619) -/
def streamBytes (hdr : Bin.Bytes) (fs : List Persist.Field) : Bin.Bytes := Bin.encStream hdr (fs.map toBin)

/-- the field list of a byte stream (what the reader loop sees before END) -/
def fieldsOfBytes (bytes : Bin.Bytes) : Option (List Persist.Field) :=
  (Bin.parse (bytes.drop 64)).map (·.map toP)

/-- bytes ↔ fields round trip -/
theorem fields_of_stream (hdr : Bin.Bytes) (hh : hdr.length = 64) (fs : List Persist.Field) (h : StreamOK fs) :
    fieldsOfBytes (streamBytes hdr fs) = some fs := by
  unfold fieldsOfBytes streamBytes Bin.encStream
  have : (hdr ++ Bin.encFs (fs.map toBin) ++ Bin.endBytes ++ Bin.trailerBytes 0 0 0).drop 64
      = Bin.encFs (fs.map toBin) ++ Bin.endBytes ++ Bin.trailerBytes 0 0 0 := by
    rw [List.append_assoc, List.append_assoc, ← hh]; simp
  rw [this, Bin.parse_enc _ _ (toBin_WFs fs h)]
  simp only [Option.map_some, List.map_map, Option.some.injEq]
  conv_rhs => rw [← List.map_id fs]
  apply List.map_congr_left
  intro f _
  exact toP_toBin f

/-- the reader loop on the part of a stream before END is the reader loop on the stream -/
theorem decodeFields_body (psz : Nat) (sp : Persist.Special) (tbl : List Persist.Desc)
    (st : Persist.Sim × List Persist.Warning) (fs : List Persist.Field) :
    Persist.decodeFields psz sp tbl st (Persist.body sp fs) = Persist.decodeFields psz sp tbl st fs := by
  induction fs generalizing st with
  | nil => rfl
  | cons f r ih =>
    simp only [Persist.body, Persist.decodeFields]
    by_cases h : f.1 = sp.endId
    · simp [h, Persist.decodeFields]
    · simp only [h, if_false, Persist.decodeFields]
      exact ih _

/-- byte-level save: the serialisation of simulation `s` as the writer produces it -/
def encodeBytes (hdr : Bin.Bytes) (psz : Nat) (sp : Persist.Special) (tbl : List Persist.Desc) (s : Persist.Sim)
    (fp : Bool) : Bin.Bytes :=
  streamBytes hdr (Persist.body sp (Persist.encode psz sp tbl s fp))

/-- byte-level load: parse the byte stream, run the reader loop of C05 on its fields -/
def decodeBytes (psz : Nat) (sp : Persist.Special) (tbl : List Persist.Desc) (init : Persist.Sim) (bytes : Bin.Bytes) :
    Option (Persist.Sim × List Persist.Warning) :=
  (fieldsOfBytes bytes).map (Persist.decodeFields psz sp tbl (init, []))

/-- **C05's codec lifts to bytes**: loading the byte stream the writer produces is the field-level decode of the
    field-level encode — so every theorem of C05 about `decodeFields (encode s)` is a theorem about the real byte
    stream (the one drv_c06 reproduces byte for byte) -/
theorem decodeBytes_encodeBytes (hdr : Bin.Bytes) (hh : hdr.length = 64) (psz : Nat) (sp : Persist.Special)
    (tbl : List Persist.Desc) (s init : Persist.Sim) (fp : Bool)
    (hs : StreamOK (Persist.body sp (Persist.encode psz sp tbl s fp))) :
    decodeBytes psz sp tbl init (encodeBytes hdr psz sp tbl s fp)
      = some (Persist.decodeFields psz sp tbl (init, []) (Persist.encode psz sp tbl s fp)) := by
  unfold decodeBytes encodeBytes
  rw [fields_of_stream hdr hh _ hs]
  simp only [Option.map_some, decodeFields_body]

/-- with C05's round-trip theorem: `decodeBytes (encodeBytes img) = img` for every table with unique ids and every
    well-formed simulation that differs from a fresh one only in persisted locations -/
theorem bytes_roundtrip (hdr : Bin.Bytes) (hh : hdr.length = 64) {psz : Nat} {sp : Persist.Special}
    {tbl : List Persist.Desc} (ok : Persist.TableOK psz sp tbl) (s init : Persist.Sim)
    (hwf : Persist.WF psz tbl s) (hp : Persist.Persisted psz tbl init s)
    (hs : StreamOK (Persist.body sp (Persist.encode psz sp tbl s false))) :
    decodeBytes psz sp tbl init (encodeBytes hdr psz sp tbl s false) = some (s, []) := by
  rw [decodeBytes_encodeBytes hdr hh psz sp tbl s init false hs,
      Persist.decode_encode ok s init false hwf, Persist.restore_eq_self init s hp]
  rfl

/-- any source simulation: the loaded struct is `restore` (source value at every persisted location, `init`
    elsewhere), warnings = the callback reminder only -/
theorem bytes_decode_encode (hdr : Bin.Bytes) (hh : hdr.length = 64) {psz : Nat} {sp : Persist.Special}
    {tbl : List Persist.Desc} (ok : Persist.TableOK psz sp tbl) (s init : Persist.Sim) (fp : Bool)
    (hwf : Persist.WF psz tbl s)
    (hs : StreamOK (Persist.body sp (Persist.encode psz sp tbl s fp))) :
    decodeBytes psz sp tbl init (encodeBytes hdr psz sp tbl s fp)
      = some (Persist.restore psz tbl init s, if fp then [.pointers] else []) := by
  rw [decodeBytes_encodeBytes hdr hh psz sp tbl s init fp hs, Persist.decode_encode ok s init fp hwf]

/-- the payload-level reader of the byte model and C05's field lists: the state `applyB` builds from a stream holds,
    for every id, the payload of the last field with that id — the same "later value wins" `decodeFields` implements
    row by row -/
theorem applyB_stream (hdr : Bin.Bytes) (hh : hdr.length = 64) (fs : List Persist.Field) (h : StreamOK fs)
    (hnh : ∀ f ∈ fs, f.1 ≠ Bin.HEADER) (st : Bin.State) :
    Bin.applyB st ((streamBytes hdr fs).drop 64) = Bin.applyF st (fs.map toBin) := by
  unfold streamBytes Bin.encStream
  have : (hdr ++ Bin.encFs (fs.map toBin) ++ Bin.endBytes ++ Bin.trailerBytes 0 0 0).drop 64
      = Bin.encFs (fs.map toBin) ++ (Bin.endBytes ++ Bin.trailerBytes 0 0 0) := by
    rw [List.append_assoc, List.append_assoc, ← hh]; simp
  rw [this]
  apply Bin.applyB_enc _ _ _ (toBin_WFs fs h)
  intro g hg
  obtain ⟨f, hf, rfl⟩ := List.mem_map.mp hg
  exact hnh f hf

end RV.BinPersist
