import RV.Proofs.Compare6
/-
  The whole loader (reader loop + post-load fix-ups) restores the persisted projection of the simulation STRUCT.
-/
set_option linter.unusedVariables false
set_option linter.unusedSimpArgs false
namespace RV.Persist

section
variable (sp : Special) (pl vl : ElemLayout) (pSim vSim self : Nat) (x : Sim)

/-- the variational configurations after the fix-ups: the `sim` back pointer of every element set to `self` -/
def fixVarCfg (b : Bytes) : Bytes := fillSlots vl.size [(vSim, 8)] (addrByte self vSim vl.size) b

theorem finish_heap_varcfg (hPV : sp.particlesMem ≠ sp.varCfgMem) :
    (finish sp pl vl pSim vSim self x).heap sp.varCfgMem = (x.heap sp.varCfgMem).map (fixVarCfg vl vSim self) := by
  unfold finish fixVarCfg
  have hVP : sp.varCfgMem ≠ sp.particlesMem := fun e => hPV e.symm
  cases hv : x.heap sp.varCfgMem <;> simp only [hv]
  · cases hp : ((x.setMem sp.nAllocMem (x.mem sp.nMem)).heap sp.particlesMem) <;>
      simp [hp, Sim.setMem, Sim.setHeap, hVP, hv]
  · rename_i b
    cases hp : (((x.setHeap sp.varCfgMem (some (fillSlots vl.size [(vSim, 8)] (addrByte self vSim vl.size) b))).setMem
        sp.nAllocMem ((x.setHeap sp.varCfgMem (some (fillSlots vl.size [(vSim, 8)] (addrByte self vSim vl.size) b))).mem sp.nMem)).heap
        sp.particlesMem) <;> simp [hp, Sim.setMem, Sim.setHeap, hVP]

theorem finish_mem_nAlloc (hAC : sp.nAllocMem ≠ sp.recalcMem) :
    (finish sp pl vl pSim vSim self x).mem sp.nAllocMem = x.mem sp.nMem := by
  unfold finish
  cases hv : x.heap sp.varCfgMem <;> simp only [hv]
  · cases hp : ((x.setMem sp.nAllocMem (x.mem sp.nMem)).heap sp.particlesMem) <;>
      simp [hp, Sim.setMem, Sim.setHeap, hAC]
  · rename_i b
    cases hp : (((x.setHeap sp.varCfgMem (some (fillSlots vl.size [(vSim, 8)] (addrByte self vSim vl.size) b))).setMem
        sp.nAllocMem ((x.setHeap sp.varCfgMem (some (fillSlots vl.size [(vSim, 8)] (addrByte self vSim vl.size) b))).mem sp.nMem)).heap
        sp.particlesMem) <;> simp [hp, Sim.setMem, Sim.setHeap, hAC]

theorem finish_mem_recalc : (finish sp pl vl pSim vSim self x).mem sp.recalcMem = encLE 4 1 := by
  unfold finish
  simp [Sim.setMem]
end

/-- **the restored simulation struct**: `load = finish ∘ decodeFields` applied to a saved stream, for every table
    with `TableOK`/`FixOK` and every well-formed source -/
theorem load_restores (psz : Nat) (sp : Special) (specs : List CmpSpec) (tbl : List Desc) (pl vl : ElemLayout)
    (pSim vSim self : Nat) (init s : Sim) (fp : Bool)
    (ok : TableOK psz sp tbl) (fok : FixOK psz sp specs tbl pl pSim) (hwf : WF psz tbl s)
    (hAC : sp.nAllocMem ≠ sp.recalcMem) (hNA : sp.nMem ≠ sp.nAllocMem) (hNC : sp.nMem ≠ sp.recalcMem) :
    let y := (load psz sp tbl pl vl pSim vSim self init (encode psz sp tbl s fp)).1
    -- no warning other than the function-pointer reminder
    (load psz sp tbl pl vl pSim vSim self init (encode psz sp tbl s fp)).2 = (if fp then [.pointers] else []) ∧
    -- every simple persisted member
    (∀ d ∈ live tbl, ∀ sz, simpleSize psz d.dtype = some sz → y.mem d.mem = s.mem d.mem) ∧
    -- every array row with content: the counter is re-derived from the payload size, the contents are restored;
    -- the particle array and the variational configurations up to their pointer members, which point to `self`
    (∀ d ∈ live tbl, (d.dtype = .pointer ∨ d.dtype = .pointerAligned) → fieldSize s d ≠ 0 →
        y.mem d.nMem = s.mem d.nMem ∧
        (d.mem ≠ sp.particlesMem → d.mem ≠ sp.varCfgMem → y.heap d.mem = s.heap d.mem) ∧
        (d.mem = sp.particlesMem → y.heap d.mem = (s.heap d.mem).map (fixParticles pl pSim self)) ∧
        (d.mem = sp.varCfgMem → y.heap d.mem = (s.heap d.mem).map (fixVarCfg vl vSim self))) ∧
    (∀ d ∈ live tbl, d.dtype = .dp7 → fieldSize s d ≠ 0 →
        y.mem d.nMem = s.mem d.nMem ∧ ∀ k, k < 7 → y.heap (d.mem + k) = s.heap (d.mem + k)) ∧
    (∀ d ∈ live tbl, d.dtype = .pointerFixed → (s.heap d.mem).isSome = true → y.heap d.mem = s.heap d.mem) ∧
    -- allocation counter of the particle array := N, WHFast512 constants flagged for recomputation
    y.mem sp.nAllocMem = y.mem sp.nMem ∧ y.mem sp.recalcMem = encLE 4 1 := by
  intro y
  have hy : y = finish sp pl vl pSim vSim self (restore psz tbl init s) := by
    show (load psz sp tbl pl vl pSim vSim self init (encode psz sp tbl s fp)).1 = _
    unfold load
    simp only
    rw [decode_encode ok s init fp hwf]
  have hw : (load psz sp tbl pl vl pSim vSim self init (encode psz sp tbl s fp)).2 = (if fp then [.pointers] else []) := by
    unfold load
    simp only
    rw [decode_encode ok s init fp hwf]
  refine ⟨hw, ?_, ?_, ?_, ?_, ?_, ?_⟩
  · intro d hd sz hs
    obtain ⟨hA, hC⟩ := fok.simple d hd sz hs
    rw [hy, finish_mem sp pl vl pSim vSim self _ d.mem hA hC]
    exact restore_mem_written init s d hd d.mem (by simp [memWritten, hs])
  · intro d hd hdt hz
    obtain ⟨hA, hC, _⟩ := fok.ptr d hd hdt
    have hmw : memWritten psz s d d.nMem = true := by
      rcases hdt with h | h <;> simp [memWritten, h, simpleSize, hz]
    have hhw : heapWritten psz s d d.mem = true := by
      rcases hdt with h | h <;> simp [heapWritten, h, simpleSize, hz]
    have hrh : (restore psz tbl init s).heap d.mem = s.heap d.mem := restore_heap_written init s d hd d.mem hhw
    refine ⟨?_, ?_, ?_, ?_⟩
    · rw [hy, finish_mem sp pl vl pSim vSim self _ d.nMem hA hC]
      exact restore_mem_written init s d hd d.nMem hmw
    · intro hP hV
      rw [hy, finish_heap sp pl vl pSim vSim self _ d.mem hP hV, hrh]
    · intro hP
      rw [hy, hP, finish_heap_particles sp pl vl pSim vSim self _ fok.pv, ← hP, hrh]
    · intro hV
      rw [hy, hV, finish_heap_varcfg sp pl vl pSim vSim self _ fok.pv, ← hV, hrh]
  · intro d hd hdt hz
    obtain ⟨hA, hC, hP, hV⟩ := fok.dp7 d hd hdt
    refine ⟨?_, ?_⟩
    · rw [hy, finish_mem sp pl vl pSim vSim self _ d.nMem hA hC]
      exact restore_mem_written init s d hd d.nMem (by simp [memWritten, hdt, simpleSize, hz])
    · intro k hk
      rw [hy, finish_heap sp pl vl pSim vSim self _ (d.mem + k) (by omega) (by omega)]
      apply restore_heap_written init s d hd
      simp [heapWritten, hdt, simpleSize, hz]
      omega
  · intro d hd hdt hsome
    obtain ⟨hP, hV⟩ := fok.fixed d hd hdt
    rw [hy, finish_heap sp pl vl pSim vSim self _ d.mem hP hV]
    exact restore_heap_written init s d hd d.mem (by simp [heapWritten, hdt, simpleSize, hsome])
  · rw [hy, finish_mem_nAlloc sp pl vl pSim vSim self _ hAC, finish_mem sp pl vl pSim vSim self _ sp.nMem hNA hNC]
  · rw [hy]; exact finish_mem_recalc sp pl vl pSim vSim self _

end RV.Persist
