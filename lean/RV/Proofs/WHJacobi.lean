import RV.Proofs.Diag
import Mathlib.Algebra.Module.BigOperators
/-
  Jacobi coordinates as a declarative linear map and the classical decomposition of the
  mass-weighted bilinear form:   Σ m_i a_i b_i = Σ μ_i A_i B_i
  (μ_0 = M, A_0 = centre-of-mass value, μ_i = m_i η_{i-1}/η_i, A_i = a_i − (Σ_{k<i} m_k a_k)/η_{i-1}).
  Hence  P = M V_com  and  L = M R×V + Σ_{i≥1} μ_i x'_i × v'_i.
-/
set_option linter.unusedTactic false
set_option linter.unreachableTactic false
set_option linter.unnecessarySeqFocus false
set_option linter.unusedVariables false
set_option linter.unusedSimpArgs false
set_option linter.unusedSectionVars false
namespace RV.WH
open RV
variable {K : Type} [Field K]

/-- `η_i = Σ_{k≤i} m_k` (the running mass of `inertial_to_jacobi`) -/
def eta (m : Nat → K) (i : Nat) : K := ∑ k ∈ Finset.range (i + 1), m k
/-- `s_i = Σ_{k≤i} m_k f_k` for one scalar component -/
def wsum (m f : Nat → K) (i : Nat) : K := ∑ k ∈ Finset.range (i + 1), m k * f k

/-- Jacobi coordinate `i ≥ 1` of a component: `f_i − s_{i-1}/η_{i-1}` -/
def jrel (m f : Nat → K) (i : Nat) : K := f i - wsum m f (i - 1) / eta m (i - 1)
/-- Jacobi mass `μ_i = m_i η_{i-1}/η_i`, `i ≥ 1` -/
def mu (m : Nat → K) (i : Nat) : K := m i * eta m (i - 1) / eta m i

theorem eta_succ (m : Nat → K) (i : Nat) : eta m (i + 1) = eta m i + m (i + 1) := by
  simp [eta, Finset.sum_range_succ]
theorem wsum_succ (m f : Nat → K) (i : Nat) : wsum m f (i + 1) = wsum m f i + m (i + 1) * f (i + 1) := by
  simp [wsum, Finset.sum_range_succ]

/-- the mass-weighted bilinear form in Jacobi coordinates, for the first `n+1` bodies -/
theorem bilinear_jacobi (m a b : Nat → K) (n : Nat) (h : ∀ i, i ≤ n → eta m i ≠ 0) :
    ∑ i ∈ Finset.range (n + 1), m i * a i * b i
      = wsum m a n * wsum m b n / eta m n
        + ∑ i ∈ Finset.Ico 1 (n + 1), mu m i * jrel m a i * jrel m b i := by
  induction n with
  | zero =>
    have h0 : m 0 ≠ 0 := by simpa [eta] using h 0 (le_refl 0)
    simp [wsum, eta]
    field_simp
  | succ n ih =>
    have hn := h n (by omega)
    have hn1 := h (n + 1) (le_refl _)
    rw [Finset.sum_range_succ, ih (fun i hi => h i (by omega)),
      Finset.sum_Ico_succ_top (by omega : 1 ≤ n + 1)]
    simp only [mu, jrel, Nat.add_sub_cancel, wsum_succ]
    rw [eta_succ] at hn1 ⊢
    field_simp
    ring

/-! ### vectors -/

def wsumV (m : Nat → K) (x : Nat → V3 K) (i : Nat) : V3 K := ∑ k ∈ Finset.range (i + 1), m k • x k

/-- Jacobi coordinates of `N` bodies: slot 0 = centre of mass, slot `i ≥ 1` = position relative
    to the centre of mass of the bodies `0..i-1` -/
def jacV (N : Nat) (m : Nat → K) (x : Nat → V3 K) (i : Nat) : V3 K :=
  if i = 0 then (1 / eta m (N - 1)) • wsumV m x (N - 1)
  else x i - (1 / eta m (i - 1)) • wsumV m x (i - 1)

/-- Jacobi masses: slot 0 carries the total mass -/
def muJ (N : Nat) (m : Nat → K) (i : Nat) : K := if i = 0 then eta m (N - 1) else mu m i

theorem wsumV_x (m : Nat → K) (x : Nat → V3 K) (i : Nat) : (wsumV m x i).x = wsum m (fun k => (x k).x) i := by
  simp [wsumV, wsum, V3.sum_x]
theorem wsumV_y (m : Nat → K) (x : Nat → V3 K) (i : Nat) : (wsumV m x i).y = wsum m (fun k => (x k).y) i := by
  simp [wsumV, wsum, V3.sum_y]
theorem wsumV_z (m : Nat → K) (x : Nat → V3 K) (i : Nat) : (wsumV m x i).z = wsum m (fun k => (x k).z) i := by
  simp [wsumV, wsum, V3.sum_z]

/-- scalar bilinear identity in the `jacV`/`muJ` packaging (all `N` slots) -/
theorem bilinear_jacobi' (N : Nat) (hN : 1 ≤ N) (m a b : Nat → K) (h : ∀ i, i < N → eta m i ≠ 0) :
    ∑ i ∈ Finset.range N, m i * a i * b i
      = eta m (N - 1) * (wsum m a (N - 1) / eta m (N - 1)) * (wsum m b (N - 1) / eta m (N - 1))
        + ∑ i ∈ Finset.Ico 1 N, mu m i * jrel m a i * jrel m b i := by
  obtain ⟨n, rfl⟩ : ∃ n, N = n + 1 := ⟨N - 1, by omega⟩
  have hn := h n (by omega)
  rw [bilinear_jacobi m a b n (fun i hi => h i (by omega))]
  simp only [Nat.add_sub_cancel]
  congr 1
  field_simp

/-- **Jacobi decomposition of angular momentum**: `Σ m_i x_i × v_i = Σ_i μ_i X_i × V_i`
    (slot 0: `M R × V`) -/
theorem angmom_jacobi (N : Nat) (hN : 1 ≤ N) (m : Nat → K) (x v : Nat → V3 K)
    (h : ∀ i, i < N → eta m i ≠ 0) :
    ∑ i ∈ Finset.range N, m i • V3.cross (x i) (v i)
      = ∑ i ∈ Finset.range N, muJ N m i • V3.cross (jacV N m x i) (jacV N m v i) := by
  have split : ∀ f : Nat → V3 K, ∑ i ∈ Finset.range N, f i = f 0 + ∑ i ∈ Finset.Ico 1 N, f i := by
    intro f
    rw [Finset.range_eq_Ico, Finset.sum_eq_sum_Ico_succ_bot (by omega : 0 < N)]
  rw [split (fun i => muJ N m i • V3.cross (jacV N m x i) (jacV N m v i))]
  have hi : ∀ i ∈ Finset.Ico 1 N, muJ N m i • V3.cross (jacV N m x i) (jacV N m v i)
      = mu m i • V3.cross (x i - (1 / eta m (i - 1)) • wsumV m x (i - 1))
          (v i - (1 / eta m (i - 1)) • wsumV m v (i - 1)) := by
    intro i hi
    have : i ≠ 0 := by have := Finset.mem_Ico.mp hi; omega
    simp [muJ, jacV, this]
  rw [Finset.sum_congr rfl hi]
  have b1 := fun (a b : Nat → K) => bilinear_jacobi' N hN m a b h
  ext
  · simp only [V3.sum_x, V3.smul_x, V3.cross_x, V3.add_x, muJ, jacV, if_true, V3.sub_y, V3.sub_z, V3.smul_y,
      V3.smul_z, wsumV_y, wsumV_z]
    have e1 := b1 (fun k => (x k).y) (fun k => (v k).z)
    have e2 := b1 (fun k => (x k).z) (fun k => (v k).y)
    have : ∀ i, m i * ((x i).y * (v i).z - (x i).z * (v i).y)
        = m i * (x i).y * (v i).z - m i * (x i).z * (v i).y := by intro i; ring
    simp only [this, Finset.sum_sub_distrib, e1, e2, jrel]
    rw [show ∀ (p q r s : K), p + q - (r + s) = (p - r) + (q - s) from by intros; ring, ← Finset.sum_sub_distrib]
    congr 1
    · ring
    · apply Finset.sum_congr rfl; intro i _; ring
  · simp only [V3.sum_y, V3.smul_y, V3.cross_y, V3.add_y, muJ, jacV, if_true, V3.sub_x, V3.sub_z, V3.smul_x,
      V3.smul_z, wsumV_x, wsumV_z]
    have e1 := b1 (fun k => (x k).z) (fun k => (v k).x)
    have e2 := b1 (fun k => (x k).x) (fun k => (v k).z)
    have : ∀ i, m i * ((x i).z * (v i).x - (x i).x * (v i).z)
        = m i * (x i).z * (v i).x - m i * (x i).x * (v i).z := by intro i; ring
    simp only [this, Finset.sum_sub_distrib, e1, e2, jrel]
    rw [show ∀ (p q r s : K), p + q - (r + s) = (p - r) + (q - s) from by intros; ring, ← Finset.sum_sub_distrib]
    congr 1
    · ring
    · apply Finset.sum_congr rfl; intro i _; ring
  · simp only [V3.sum_z, V3.smul_z, V3.cross_z, V3.add_z, muJ, jacV, if_true, V3.sub_x, V3.sub_y, V3.smul_x,
      V3.smul_y, wsumV_x, wsumV_y]
    have e1 := b1 (fun k => (x k).x) (fun k => (v k).y)
    have e2 := b1 (fun k => (x k).y) (fun k => (v k).x)
    have : ∀ i, m i * ((x i).x * (v i).y - (x i).y * (v i).x)
        = m i * (x i).x * (v i).y - m i * (x i).y * (v i).x := by intro i; ring
    simp only [this, Finset.sum_sub_distrib, e1, e2, jrel]
    rw [show ∀ (p q r s : K), p + q - (r + s) = (p - r) + (q - s) from by intros; ring, ← Finset.sum_sub_distrib]
    congr 1
    · ring
    · apply Finset.sum_congr rfl; intro i _; ring

/-- **momentum**: `Σ m_i v_i = M · V_0` -/
theorem momentum_jacobi (N : Nat) (hN : 1 ≤ N) (m : Nat → K) (v : Nat → V3 K)
    (h : eta m (N - 1) ≠ 0) :
    ∑ i ∈ Finset.range N, m i • v i = muJ N m 0 • jacV N m v 0 := by
  simp only [muJ, jacV, if_true, smul_smul]
  rw [mul_one_div_cancel h, one_smul, wsumV, Nat.sub_add_cancel hN]

end RV.WH
