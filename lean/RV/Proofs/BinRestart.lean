/-
  Restart after a crash: appending to a damaged archive.  Under NoFakeTrailer (the writer's recovery logic
  finds the end of the last intact blob) the restarted append writes exactly what the append to the intact
  archive writes, at the same place; what is left behind it is a stale tail no reader reaches.
-/
import RV.Proofs.BinWriter
set_option linter.unusedVariables false
set_option linter.unusedSimpArgs false
namespace RV.Bin

/-- `appendPlan` in terms of the recovery decision -/
theorem appendPlan_recover (v : Variant) (cmp : Nat → Bytes → Bytes → Bool) (file s : Bytes) :
    appendPlan v cmp file s =
      match recoverOf file with
      | none => .refused
      | some (so, last, fld2, corrupt) =>
        match diffRaw v cmp (file.take so) s with
        | none => .undefined
        | some delta =>
          .plan ⟨last - 12,
            trailerBytes (de (((file.drop (last - 12)).take 12).take 4))
                (de ((((file.drop (last - 12)).take 12).drop 4).take 4)) ((delta.length + 16) % 4294967296)
              ++ delta ++ (le32 END ++ (fld2.drop 4).take 4 ++ le64 0)
              ++ trailerBytes ((de (((file.drop (last - 12)).take 12).take 4) + 1) % 4294967296)
                  ((delta.length + 16) % 4294967296) 0,
            corrupt⟩ := by
  unfold appendPlan recoverOf
  rcases hsc : scanFirst (file.length + 1) 64 (file.drop 64) (List.replicate 16 0) with ⟨so, ok, fld0⟩
  simp only
  cases ok
  · simp only [Bool.not_false, if_true]
  · simp only [Bool.not_true, Bool.false_eq_true, if_false]
    by_cases htb : ((file.drop so).take 12).length < 12
    · rw [if_pos htb, if_pos htb]
    · rw [if_neg htb, if_neg htb]
      rcases hfc : fileCorrupt file (decide (sgn32 (de ((((file.drop so).take 12).drop 8).take 4)) > 0)) fld0 with ⟨cor, fld1⟩
      cases hd : diffRaw v cmp (file.take so) s with
      | none => simp [hd]
      | some delta =>
        cases cor
        · simp [hd]
        · simp only [if_true]
          rcases hrw : repairWalk file (file.length + 1) so (so + 12) fld1 with ⟨last, fld2⟩
          simp [hd]

/-- NoFakeTrailer as a proposition -/
def Recovers (img : Bytes) (lastIntact : Nat) : Prop := noFakeTrailer img lastIntact = true

theorem recovers_iff (img : Bytes) (L : Nat) :
    Recovers img L ↔ ∃ so fld c, recoverOf img = some (so, L, fld, c) ∧ (fld.drop 4).take 4 = [0, 0, 0, 0] := by
  unfold Recovers noFakeTrailer
  cases h : recoverOf img with
  | none => simp
  | some q =>
    obtain ⟨so, last, fld, c⟩ := q
    simp only [Bool.and_eq_true, beq_iff_eq, Option.some.injEq, Prod.mk.injEq]
    constructor
    · rintro ⟨rfl, hp⟩; exact ⟨so, fld, c, ⟨rfl, rfl, rfl, rfl⟩, hp⟩
    · rintro ⟨so', fld', c', ⟨_, rfl, rfl, _⟩, hp⟩; exact ⟨rfl, hp⟩

/-- a damaged archive: everything up to the last intact trailer of `archI hdr fs0 ds` is in place, the bytes
    `X` from there on are arbitrary except that the first 8 (index, offset_prev of that trailer) survived -/
def Damaged (hdr : Bytes) (fs0 : List Field) (ds : List (List Field)) (X : Bytes) : Bytes :=
  archPre hdr fs0 ds ++ X

theorem archPre_form (hdr : Bytes) (fs0 : List Field) (ds : List (List Field)) :
    ∃ Z, archPre hdr fs0 ds = hdr ++ (encFs fs0 ++ (endBytes ++ Z)) := ⟨chainPre 0 0 ds, rfl⟩

/-- the recovery decision starts from the right `size_old` on every damaged archive -/
theorem recoverOf_sizeOld (hdr : Bytes) (hh : HdrOK hdr) (fs0 : List Field) (h0 : WFs fs0)
    (ds : List (List Field)) (X : Bytes) (so last : Nat) (fld : Bytes) (c : Bool)
    (h : recoverOf (Damaged hdr fs0 ds X) = some (so, last, fld, c)) : so = 64 + blobLen fs0 := by
  have hl0 := encFs_length_ge fs0
  have hform : Damaged hdr fs0 ds X = hdr ++ (encFs fs0 ++ (endBytes ++ (chainPre 0 0 ds ++ X))) := by
    simp [Damaged, archPre, List.append_assoc]
  have hdrop : (Damaged hdr fs0 ds X).drop 64 = encFs fs0 ++ (endBytes ++ (chainPre 0 0 ds ++ X)) := by
    rw [hform, ← hh.len]; exact List.drop_left
  have hscan : scanFirst ((Damaged hdr fs0 ds X).length + 1) 64 ((Damaged hdr fs0 ds X).drop 64) (List.replicate 16 0)
      = (64 + blobLen fs0, true, endBytes) := by
    rw [hdrop]
    exact scanFirst_enc fs0 _ h0 _ 64 _ (by rw [hform]; simp; omega)
  unfold recoverOf at h
  rw [hscan] at h
  simp only [Bool.not_true, Bool.false_eq_true, if_false] at h
  by_cases htb : (((Damaged hdr fs0 ds X).drop (64 + blobLen fs0)).take 12).length < 12
  · rw [if_pos htb] at h; cases h
  · rw [if_neg htb] at h
    simp only [Option.some.injEq, Prod.mk.injEq] at h
    exact h.1.symm

/-- **restart theorem (one restart)**: on a damaged archive whose recovery ends at the last intact trailer
    (NoFakeTrailer), the writer writes, at the position of that trailer, exactly the bytes it would write on
    the intact archive: patched trailer, delta against the first snapshot, END, new trailer -/
theorem appendPlan_damaged (v : Variant) (cmp : Nat → Bytes → Bytes → Bool) (hdr : Bytes) (fs0 : List Field)
    (ds : List (List Field)) (h : ArchOK hdr fs0 ds) (X : Bytes)
    (hX : X.take 8 = le32 ds.length ++ le32 (lastPrev 0 ds)) (hXl : 12 ≤ X.length)
    (hrec : Recovers (Damaged hdr fs0 ds X) ((archPre hdr fs0 ds).length + 12))
    (h2 t2 : Bytes) (b : List Field) (hh2 : h2.length = 64) (hb : WFs b)
    (hL : blobLen (diffF v cmp fs0 b) < 2147483648) (hn : ds.length + 1 < 4294967296) :
    ∃ c, appendPlan v cmp (Damaged hdr fs0 ds X) (h2 ++ (encFs b ++ (endBytes ++ t2)))
      = .plan ⟨(archPre hdr fs0 ds).length, pendingData ds (diffF v cmp fs0 b), c⟩ := by
  obtain ⟨so, fld, c, hro, hpad⟩ := (recovers_iff _ _).mp hrec
  have hso := recoverOf_sizeOld hdr h.hdr fs0 h.b0.wf ds X so _ fld c hro
  subst hso
  refine ⟨c, ?_⟩
  rw [appendPlan_recover, hro]
  simp only
  have htake : (Damaged hdr fs0 ds X).take (64 + blobLen fs0) = hdr ++ (encFs fs0 ++ endBytes) := by
    have e : 64 + blobLen fs0 = (hdr ++ (encFs fs0 ++ endBytes)).length := by simp [blobLen, h.hdr.len]
    have f : Damaged hdr fs0 ds X = (hdr ++ (encFs fs0 ++ endBytes)) ++ (chainPre 0 0 ds ++ X) := by
      simp [Damaged, archPre, List.append_assoc]
    rw [e, f, List.take_left]
  rw [htake, diffRaw_enc v cmp hdr h2 t2 fs0 b h.hdr.len hh2 h.b0.wf hb]
  simp only [Nat.add_sub_cancel]
  have hdropX : (Damaged hdr fs0 ds X).drop (archPre hdr fs0 ds).length = X := List.drop_left
  have hp := lastPrev_lt ds h.ds
  have hX4 : (X.take 12).take 4 = le32 ds.length := by
    have e : (X.take 12).take 4 = (X.take 8).take 4 := by
      rw [List.take_take, List.take_take]; rfl
    rw [e, hX]; simp [le32]
  have hX8 : ((X.take 12).drop 4).take 4 = le32 (lastPrev 0 ds) := by
    have e1 : ((X.take 12).drop 4).take 4 = ((X.take 8).drop 4).take 4 := by
      rw [List.drop_take, List.drop_take, List.take_take, List.take_take]; rfl
    rw [e1, hX]; simp [le32]
  rw [hdropX, hX4, hX8, de_le32 _ (by omega), de_le32 _ (by omega), hpad]
  have e1 : ((encFs (diffF v cmp fs0 b)).length + 16) % 4294967296 = blobLen (diffF v cmp fs0 b) := by
    simp only [blobLen] at hL ⊢; exact Nat.mod_eq_of_lt (by omega)
  have e2 : (ds.length + 1) % 4294967296 = ds.length + 1 := Nat.mod_eq_of_lt hn
  have e3 : le32 END ++ [0, 0, 0, 0] ++ le64 0 = endBytes := by decide
  rw [e1, e2, e3]
  simp [pendingData, List.append_assoc]

/-- hence `∃ tail, append damaged s' = append intact s' ++ tail`: the restarted archive is the uninterrupted
    one followed by a stale tail (what the interrupted write left beyond the new end) -/
theorem append_damaged (v : Variant) (cmp : Nat → Bytes → Bytes → Bool) (hdr : Bytes) (fs0 : List Field)
    (ds : List (List Field)) (h : ArchOK hdr fs0 ds) (X : Bytes)
    (hX : X.take 8 = le32 ds.length ++ le32 (lastPrev 0 ds)) (hXl : 12 ≤ X.length)
    (hrec : Recovers (Damaged hdr fs0 ds X) ((archPre hdr fs0 ds).length + 12))
    (h2 t2 : Bytes) (b : List Field) (hh2 : h2.length = 64) (hb : WFs b)
    (hL : blobLen (diffF v cmp fs0 b) < 2147483648) (hn : ds.length + 1 < 4294967296) :
    append v cmp (Damaged hdr fs0 ds X) (h2 ++ (encFs b ++ (endBytes ++ t2)))
      = some (archI hdr fs0 (ds ++ [diffF v cmp fs0 b]) ++ X.drop (pendingData ds (diffF v cmp fs0 b)).length) := by
  obtain ⟨c, hp⟩ := appendPlan_damaged v cmp hdr fs0 ds h X hX hXl hrec h2 t2 b hh2 hb hL hn
  unfold append
  rw [hp]
  simp only [overwrite, Damaged, List.take_left, Option.some.injEq]
  rw [List.drop_append, List.drop_eq_nil_of_le (by omega), Nat.add_sub_cancel_left, archI_concat]
  simp [pendingData, finIntact, List.append_assoc]

end RV.Bin

namespace RV.Bin

/-! ### a stale tail behind the last trailer is invisible -/
def finTail (tail : Bytes) (idx prev : Nat) : Bytes := finIntact idx prev ++ tail

theorem archI_tail (hdr : Bytes) (fs0 : List Field) (ds : List (List Field)) (tail : Bytes) :
    archI hdr fs0 ds ++ tail = archG (finTail tail) hdr fs0 ds := by
  rw [archI, archG_split, archG_split]; simp [finTail, List.append_assoc]

theorem finTail_stops (v : Variant) (tail : Bytes) (i pos idx L : Nat) (hL : L < 2147483648) :
    FinStops v (finTail tail idx L) i pos (pos + L) := by
  have ht : (finTail tail idx L).take 12 = trailerBytes idx L 0 := by
    simp [finTail, finIntact, trailerBytes, le32]
  refine ⟨by rw [ht]; simp, ?_, Or.inl ?_⟩
  · intro _
    rw [ht, trailer_prev _ _ _ (by omega), sgn32_small _ hL]; omega
  · rw [ht, trailer_next _ _ _ (by omega)]

theorem finTail_stopsArch (v : Variant) (tail : Bytes) (fs0 : List Field) (ds : List (List Field))
    (hds : ChainOK ds) : FinStopsArch v (finTail tail) fs0 ds := by
  cases ds with
  | nil =>
    have ht : (finTail tail 0 0).take 12 = trailerBytes 0 0 0 := by
      simp [finTail, finIntact, trailerBytes, le32]
    refine ⟨by rw [ht]; simp, fun h => absurd h (by omega), Or.inl ?_⟩
    rw [ht, trailer_next _ _ _ (by omega)]
  | cons d r =>
    have hm := lastBlob_mem (off1 fs0) d r
    exact finTail_stops v tail _ _ _ _ (hds _ hm).2

/-- the reader's index of `archive ++ stale tail` is the index of the archive -/
theorem index_tail (v : Variant) (hdr : Bytes) (fs0 : List Field) (ds : List (List Field))
    (h : ArchOK hdr fs0 ds) (tail : Bytes) :
    index v (archI hdr fs0 ds ++ tail) = index v (archI hdr fs0 ds) := by
  rw [archI_tail, index_archG v _ hdr fs0 ds h (finTail_stopsArch v tail fs0 ds h.ds), index_intact v hdr fs0 ds h]

/-- snapshots of an archive with an arbitrary final segment -/
theorem snapshot_archG (fin : Nat → Nat → Bytes) (init : State) (hdr : Bytes) (fs0 : List Field)
    (ds : List (List Field)) (h : ArchOK hdr fs0 ds) (j : Nat) (d : List Field) (hj : ds[j]? = some d) :
    snapshot init (archG fin hdr fs0 ds) ((archEntries fs0 ds).map (·.off)) (j + 1)
      = some (applyF (applyF init fs0) d) ∧
    snapshot init (archG fin hdr fs0 ds) ((archEntries fs0 ds).map (·.off)) 0 = some (applyF init fs0) := by
  have hfirst : applyB init (archG fin hdr fs0 ds) = applyF init fs0 := applyB_first init hdr h.hdr fs0 h.b0 _
  have hmem : d ∈ ds := List.mem_of_getElem? hj
  obtain ⟨hd, _⟩ := h.ds d hmem
  constructor
  · unfold snapshot
    simp only [archEntries, List.map_cons, List.getElem?_cons_succ]
    rw [chainEntries_off (off1 fs0) ds j d hj]
    simp only [Nat.succ_ne_zero, if_false, Nat.add_one_ne_zero, hfirst]
    obtain ⟨rest, hr⟩ := chain_drop fin ds j d hj 0 0
    have hdrop : (archG fin hdr fs0 ds).drop (off1 fs0 + chainOffRel ds j - 12) = encFs d ++ (endBytes ++ rest) := by
      have e : off1 fs0 + chainOffRel ds j - 12 = (hdr ++ (encFs fs0 ++ endBytes)).length + chainOffRel ds j := by
        simp [off1, blobLen, h.hdr.len]; omega
      have e2 : archG fin hdr fs0 ds = (hdr ++ (encFs fs0 ++ endBytes)) ++ chainG fin 0 0 ds := by
        simp [archG]
      rw [e, e2, ← List.drop_drop, List.drop_left, hr]
    rw [hdrop, applyB_enc d rest _ hd.wf hd.noHeader]
  · unfold snapshot
    simp [archEntries, hfirst]

theorem snapshot0_archG (fin : Nat → Nat → Bytes) (init : State) (hdr : Bytes) (fs0 : List Field)
    (ds : List (List Field)) (h : ArchOK hdr fs0 ds) :
    snapshot init (archG fin hdr fs0 ds) ((archEntries fs0 ds).map (·.off)) 0 = some (applyF init fs0) := by
  have hfirst : applyB init (archG fin hdr fs0 ds) = applyF init fs0 := applyB_first init hdr h.hdr fs0 h.b0 _
  unfold snapshot
  simp [archEntries, hfirst]

/-- every snapshot of `archive ++ stale tail` is the snapshot of the archive -/
theorem snapshot_tail (init : State) (hdr : Bytes) (fs0 : List Field) (ds : List (List Field))
    (h : ArchOK hdr fs0 ds) (tail : Bytes) (k : Nat) (hk : k < ds.length + 1) :
    snapshot init (archI hdr fs0 ds ++ tail) ((archEntries fs0 ds).map (·.off)) k
      = snapshot init (archI hdr fs0 ds) ((archEntries fs0 ds).map (·.off)) k := by
  rw [archI_tail, archI]
  cases k with
  | zero => rw [snapshot0_archG _ init hdr fs0 ds h, snapshot0_archG _ init hdr fs0 ds h]
  | succ j =>
    have hj : j < ds.length := by omega
    have hget : ds[j]? = some ds[j] := List.getElem?_eq_getElem hj
    rw [(snapshot_archG _ init hdr fs0 ds h j _ hget).1, (snapshot_archG _ init hdr fs0 ds h j _ hget).1]

/-! ### crash images are damaged archives -/
theorem mix_take8 (A B P : Bytes) (hP : P.length = 8) (hA : A.take 8 = P) (hB : B.take 8 = P) (k : Nat) :
    (A.take k ++ B.drop k).take 8 = P := by
  have hAl : 8 ≤ A.length := by
    have := congrArg List.length hA; simp [hP] at this; omega
  have hBl : 8 ≤ B.length := by
    have := congrArg List.length hB; simp [hP] at this; omega
  by_cases hk : 8 ≤ k
  · rw [List.take_append_of_le_length (by simp; omega), List.take_take]
    have : min 8 k = 8 := by omega
    rw [this, hA]
  · have hk' : k < 8 := by omega
    rw [List.take_append, List.take_of_length_le (by simp; omega)]
    have e1 : A.take k = P.take k := by
      rw [← hA, List.take_take]; congr 1; omega
    have e2 : (B.drop k).take (8 - (P.take k).length) = P.drop k := by
      have : (P.take k).length = k := by simp; omega
      rw [this, ← hB, List.drop_take]
    rw [e1, e2, List.take_append_drop]

/-- **one crash / restart cycle**.  `F = archI hdr fs0 ds ++ tail0` (a well-formed archive, possibly followed by
    the stale tail of an earlier cycle), the append of `dn` to it (which writes `pendingData ds dn` at the last
    trailer) dies after `k` bytes (any `k`, also 0 and also the complete write `k = |data|` of a snapshot that
    is then taken again), the process restarts and appends `b`.  Under NoFakeTrailer for the image, the
    restarted archive is the archive of the uninterrupted run followed by a stale tail. -/
theorem crash_restart (v : Variant) (cmp : Nat → Bytes → Bytes → Bool) (hdr : Bytes) (fs0 : List Field)
    (ds : List (List Field)) (h : ArchOK hdr fs0 ds) (tail0 : Bytes) (dn : List Field) (k : Nat)
    (hrec : Recovers (crash (archI hdr fs0 ds ++ tail0) (archPre hdr fs0 ds).length (pendingData ds dn) k)
              ((archPre hdr fs0 ds).length + 12))
    (h2 t2 : Bytes) (b : List Field) (hh2 : h2.length = 64) (hb : WFs b)
    (hL : blobLen (diffF v cmp fs0 b) < 2147483648) (hn : ds.length + 1 < 4294967296) :
    ∃ tail, append v cmp (crash (archI hdr fs0 ds ++ tail0) (archPre hdr fs0 ds).length (pendingData ds dn) k)
              (h2 ++ (encFs b ++ (endBytes ++ t2)))
      = some (archI hdr fs0 (ds ++ [diffF v cmp fs0 b]) ++ tail) := by
  have hp := lastPrev_lt ds h.ds
  -- the image is `archPre ++ X`
  have hF : archI hdr fs0 ds ++ tail0 = archPre hdr fs0 ds ++ (finIntact ds.length (lastPrev 0 ds) ++ tail0) := by
    rw [archI, archG_split]; simp [List.append_assoc]
  have himg : crash (archI hdr fs0 ds ++ tail0) (archPre hdr fs0 ds).length (pendingData ds dn) k
      = Damaged hdr fs0 ds ((pendingData ds dn).take k ++
          (finIntact ds.length (lastPrev 0 ds) ++ tail0).drop ((pendingData ds dn).take k).length) := by
    rw [hF]
    simp only [crash, overwrite, Damaged, List.take_left, List.append_assoc]
    rw [List.drop_append, List.drop_eq_nil_of_le (by omega), Nat.add_sub_cancel_left]
    simp
  rw [himg] at hrec ⊢
  have hP8 : (le32 ds.length ++ le32 (lastPrev 0 ds)).length = 8 := by simp
  have hA : (pendingData ds dn).take 8 = le32 ds.length ++ le32 (lastPrev 0 ds) := by
    simp [pendingData, trailerBytes, le32]
  have hB : (finIntact ds.length (lastPrev 0 ds) ++ tail0).take 8 = le32 ds.length ++ le32 (lastPrev 0 ds) := by
    simp [finIntact, trailerBytes, le32]
  have hlenK : ((pendingData ds dn).take k).length = min k (pendingData ds dn).length := by simp
  have hX8 : ((pendingData ds dn).take k ++
      (finIntact ds.length (lastPrev 0 ds) ++ tail0).drop ((pendingData ds dn).take k).length).take 8
      = le32 ds.length ++ le32 (lastPrev 0 ds) := by
    rw [hlenK]
    have : (pendingData ds dn).take k = (pendingData ds dn).take (min k (pendingData ds dn).length) := by
      rw [List.take_eq_take_iff]; simp
    rw [this]
    exact mix_take8 _ _ _ hP8 hA hB _
  have hXl : 12 ≤ ((pendingData ds dn).take k ++
      (finIntact ds.length (lastPrev 0 ds) ++ tail0).drop ((pendingData ds dn).take k).length).length := by
    have := pendingData_length ds dn
    simp [finIntact]; omega
  exact ⟨_, append_damaged v cmp hdr fs0 ds h _ hX8 hXl hrec h2 t2 b hh2 hb hL hn⟩

/-- … and its index and snapshots are those of the uninterrupted run: the class "well-formed archive ++ stale
    tail" is closed under crash + restart, so the statement iterates over any number of cycles -/
theorem restarted_index (v : Variant) (hdr : Bytes) (fs0 : List Field) (ds : List (List Field)) (d : List Field)
    (h : ArchOK hdr fs0 (ds ++ [d])) (tail : Bytes) :
    index v (archI hdr fs0 (ds ++ [d]) ++ tail) = index v (archI hdr fs0 (ds ++ [d])) :=
  index_tail v hdr fs0 _ h tail

end RV.Bin

namespace RV.Bin

/-- one crash/restart cycle of a run: the append of the delta `crashed` dies after `k` bytes, the restarted
    process appends the serialisation `s` -/
structure Cycle where
  crashed : List Field
  k : Nat
  s : Bytes × List Field × Bytes

/-- the file after a sequence of cycles (`ds` = deltas of the snapshots completed so far) -/
def runCycles (v : Variant) (cmp : Nat → Bytes → Bytes → Bool) (hdr : Bytes) (fs0 : List Field) :
    List (List Field) → Bytes → List Cycle → Option Bytes
  | _, F, [] => some F
  | ds, F, c :: r =>
    match append v cmp (crash F (archPre hdr fs0 ds).length (pendingData ds c.crashed) c.k) (streamOf c.s) with
    | none => none
    | some F' => runCycles v cmp hdr fs0 (ds ++ [diffF v cmp fs0 c.s.2.1]) F' r

/-- the hypotheses along a run: NoFakeTrailer for every crash image, well-formed serialisations -/
def CyclesOK (v : Variant) (cmp : Nat → Bytes → Bytes → Bool) (hdr : Bytes) (fs0 : List Field) :
    List (List Field) → Bytes → List Cycle → Prop
  | _, _, [] => True
  | ds, F, c :: r =>
    Recovers (crash F (archPre hdr fs0 ds).length (pendingData ds c.crashed) c.k) ((archPre hdr fs0 ds).length + 12) ∧
    c.s.1.length = 64 ∧ WFs c.s.2.1 ∧ BlobOK (diffF v cmp fs0 c.s.2.1) ∧
    blobLen (diffF v cmp fs0 c.s.2.1) < 2147483648 ∧ ds.length + 1 < 4294967296 ∧
    ∀ F', append v cmp (crash F (archPre hdr fs0 ds).length (pendingData ds c.crashed) c.k) (streamOf c.s) = some F' →
      CyclesOK v cmp hdr fs0 (ds ++ [diffF v cmp fs0 c.s.2.1]) F' r

/-- **repeated crash/restart cycles**: after any number of cycles the file is the archive of the uninterrupted
    run (first snapshot + the deltas of the states appended after each restart) followed by a stale tail -/
theorem cycles_archive (v : Variant) (cmp : Nat → Bytes → Bytes → Bool) (hdr : Bytes) (fs0 : List Field)
    (cs : List Cycle) (ds : List (List Field)) (h : ArchOK hdr fs0 ds) (tail0 : Bytes)
    (hok : CyclesOK v cmp hdr fs0 ds (archI hdr fs0 ds ++ tail0) cs) :
    ∃ tail, runCycles v cmp hdr fs0 ds (archI hdr fs0 ds ++ tail0) cs
      = some (archI hdr fs0 (ds ++ cs.map (fun c => diffF v cmp fs0 c.s.2.1)) ++ tail) := by
  induction cs generalizing ds tail0 with
  | nil => exact ⟨tail0, by simp [runCycles]⟩
  | cons c r ih =>
    obtain ⟨hrec, h64, hwf, hbo, hbl, hn, hnext⟩ := hok
    obtain ⟨tail, ha⟩ := crash_restart v cmp hdr fs0 ds h tail0 c.crashed c.k hrec c.s.1 c.s.2.2 c.s.2.1 h64 hwf hbl hn
    have ha' : append v cmp (crash (archI hdr fs0 ds ++ tail0) (archPre hdr fs0 ds).length (pendingData ds c.crashed) c.k)
        (streamOf c.s) = some (archI hdr fs0 (ds ++ [diffF v cmp fs0 c.s.2.1]) ++ tail) := ha
    have h' : ArchOK hdr fs0 (ds ++ [diffF v cmp fs0 c.s.2.1]) := ⟨h.hdr, h.b0, h.s0, h.ver, fun x hx => by
      rcases List.mem_append.mp hx with hx | hx
      · exact h.ds x hx
      · simp only [List.mem_singleton] at hx; subst hx; exact ⟨hbo, hbl⟩⟩
    obtain ⟨tail', hr⟩ := ih (ds ++ [diffF v cmp fs0 c.s.2.1]) h' tail (hnext _ ha')
    refine ⟨tail', ?_⟩
    simp only [runCycles, ha', hr, List.map_cons, List.append_assoc, List.singleton_append]

end RV.Bin
