import RV.Proofs.Field
import RV.Model.Dual
import RV.Model.Var
import Mathlib.Tactic.NormNum
/- helper lemmas for RV/Props/C16.lean: loop homomorphisms and the pair-kernel algebra -/
set_option linter.unusedTactic false
set_option linter.unreachableTactic false
set_option linter.unnecessarySeqFocus false
set_option linter.unusedVariables false
set_option linter.unusedSimpArgs false
namespace RV.Var
open RV

/-! ## generic: a map between accumulator types that commutes with the loop body commutes
    with the whole loop -/
section hom
variable {α β A B : Type}

theorem inner_hom (addA : A → A → A) (addB : B → B → B) (φ : A → B) (ψ : β → α)
    (fA : α → α → A × A) (fB : β → β → B × B)
    (hadd : ∀ a b, φ (addA a b) = addB (φ a) (φ b))
    (pi : β) (ps : List β)
    (hf : ∀ pj ∈ ps, φ (fA (ψ pi) (ψ pj)).1 = (fB pi pj).1 ∧ φ (fA (ψ pi) (ψ pj)).2 = (fB pi pj).2)
    (ai : A) (as : List A) :
    φ (inner addA fA (ψ pi) ai (ps.map ψ) as).1 = (inner addB fB pi (φ ai) ps (as.map φ)).1 ∧
    (inner addA fA (ψ pi) ai (ps.map ψ) as).2.map φ = (inner addB fB pi (φ ai) ps (as.map φ)).2 := by
  induction ps generalizing ai as with
  | nil => simp [inner]
  | cons pj r ih =>
    cases as with
    | nil => simp [inner]
    | cons aj ar =>
      have h1 := hf pj (by simp)
      have ih' := ih (fun p hp => hf p (by simp [hp])) (addA ai (fA (ψ pi) (ψ pj)).1) ar
      simp only [List.map_cons, inner, hadd, h1.1, h1.2] at ih' ⊢
      exact ⟨ih'.1, by rw [ih'.2]⟩

theorem inner_length (add : A → A → A) (f : α → α → A × A) (pi : α) (ai : A) (ps : List α) (as : List A)
    (h : ps.length = as.length) : (inner add f pi ai ps as).2.length = as.length := by
  induction ps generalizing ai as with
  | nil => cases as <;> simp_all [inner]
  | cons pj r ih =>
    cases as with
    | nil => simp at h
    | cons aj ar => simp [inner]; exact ih _ _ (by simpa using h)

theorem loopLF_hom (addA : A → A → A) (addB : B → B → B) (zA : A) (zB : B) (φ : A → B) (ψ : β → α)
    (fA : α → α → A × A) (fB : β → β → B × B)
    (hadd : ∀ a b, φ (addA a b) = addB (φ a) (φ b)) (hz : φ zA = zB)
    (H : β → β → Prop)
    (hf : ∀ pi pj, H pi pj → φ (fA (ψ pi) (ψ pj)).1 = (fB pi pj).1 ∧ φ (fA (ψ pi) (ψ pj)).2 = (fB pi pj).2)
    (rest done : List β) (accs : List A)
    (h1 : ∀ pi ∈ rest, ∀ pj ∈ done, H pi pj)
    (h2 : rest.Pairwise (fun e l => H l e)) :
    (loopLF addA zA fA (done.map ψ) accs (rest.map ψ)).map φ
      = loopLF addB zB fB done (accs.map φ) rest := by
  induction rest generalizing done accs with
  | nil => simp [loopLF]
  | cons pi r ih =>
    have hi := inner_hom addA addB φ ψ fA fB hadd pi done
      (fun pj hpj => hf pi pj (h1 pi (by simp) pj hpj)) zA accs
    rw [List.pairwise_cons] at h2
    have := ih (done ++ [pi]) ((inner addA fA (ψ pi) zA (done.map ψ) accs).2 ++
        [(inner addA fA (ψ pi) zA (done.map ψ) accs).1])
      (by
        intro p hp q hq
        rcases List.mem_append.mp hq with hq | hq
        · exact h1 p (by simp [hp]) q hq
        · simp at hq; subst hq; exact h2.1 p hp)
      h2.2
    simp only [List.map_cons, loopLF]
    simp only [List.map_append, List.map_cons, List.map_nil] at this
    rw [this, hi.1, hi.2, hz]

theorem loopEF_hom (addA : A → A → A) (addB : B → B → B) (φ : A → B) (ψ : β → α)
    (fA : α → α → A × A) (fB : β → β → B × B)
    (hadd : ∀ a b, φ (addA a b) = addB (φ a) (φ b))
    (H : β → β → Prop)
    (hf : ∀ pi pj, H pi pj → φ (fA (ψ pi) (ψ pj)).1 = (fB pi pj).1 ∧ φ (fA (ψ pi) (ψ pj)).2 = (fB pi pj).2)
    (ps : List β) (accs : List A)
    (h2 : ps.Pairwise H) :
    (loopEF addA fA (ps.map ψ) accs).map φ = loopEF addB fB ps (accs.map φ) := by
  induction ps generalizing accs with
  | nil => simp [loopEF]
  | cons pi r ih =>
    cases accs with
    | nil => simp [loopEF]
    | cons ai ar =>
      rw [List.pairwise_cons] at h2
      have hi := inner_hom addA addB φ ψ fA fB hadd pi r (fun pj hpj => hf pi pj (h2.1 pj hpj)) ai ar
      simp only [List.map_cons, loopEF]
      rw [ih _ h2.2, hi.1, hi.2]

end hom

end RV.Var
