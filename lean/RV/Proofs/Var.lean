import RV.Proofs.Field
import RV.Model.Dual
import RV.Model.Var
import Mathlib.Tactic.NormNum
/- helper lemmas for RV/Props/C16.lean: loop homomorphisms and the pair-kernel algebra -/
set_option linter.unusedTactic false
set_option linter.unreachableTactic false
set_option linter.unnecessarySeqFocus false
set_option linter.unusedVariables false
set_option linter.unusedSimpArgs false
namespace RV.Var
open RV

/-! ## generic: a map between accumulator types that commutes with the loop body commutes
    with the whole loop -/
section hom
variable {α β A B : Type}

theorem inner_hom (addA : A → A → A) (addB : B → B → B) (φ : A → B) (ψ : β → α)
    (fA : α → α → A × A) (fB : β → β → B × B)
    (hadd : ∀ a b, φ (addA a b) = addB (φ a) (φ b))
    (pi : β) (ps : List β)
    (hf : ∀ pj ∈ ps, φ (fA (ψ pi) (ψ pj)).1 = (fB pi pj).1 ∧ φ (fA (ψ pi) (ψ pj)).2 = (fB pi pj).2)
    (ai : A) (as : List A) :
    φ (inner addA fA (ψ pi) ai (ps.map ψ) as).1 = (inner addB fB pi (φ ai) ps (as.map φ)).1 ∧
    (inner addA fA (ψ pi) ai (ps.map ψ) as).2.map φ = (inner addB fB pi (φ ai) ps (as.map φ)).2 := by
  induction ps generalizing ai as with
  | nil => simp [inner]
  | cons pj r ih =>
    cases as with
    | nil => simp [inner]
    | cons aj ar =>
      have h1 := hf pj (by simp)
      have ih' := ih (fun p hp => hf p (by simp [hp])) (addA ai (fA (ψ pi) (ψ pj)).1) ar
      simp only [List.map_cons, inner, hadd, h1.1, h1.2] at ih' ⊢
      exact ⟨ih'.1, by rw [ih'.2]⟩

theorem inner_length (add : A → A → A) (f : α → α → A × A) (pi : α) (ai : A) (ps : List α) (as : List A)
    (h : ps.length = as.length) : (inner add f pi ai ps as).2.length = as.length := by
  induction ps generalizing ai as with
  | nil => cases as <;> simp_all [inner]
  | cons pj r ih =>
    cases as with
    | nil => simp at h
    | cons aj ar => simp [inner]; exact ih _ _ (by simpa using h)

theorem loopLF_hom (addA : A → A → A) (addB : B → B → B) (zA : A) (zB : B) (φ : A → B) (ψ : β → α)
    (fA : α → α → A × A) (fB : β → β → B × B)
    (hadd : ∀ a b, φ (addA a b) = addB (φ a) (φ b)) (hz : φ zA = zB)
    (H : β → β → Prop)
    (hf : ∀ pi pj, H pi pj → φ (fA (ψ pi) (ψ pj)).1 = (fB pi pj).1 ∧ φ (fA (ψ pi) (ψ pj)).2 = (fB pi pj).2)
    (rest done : List β) (accs : List A)
    (h1 : ∀ pi ∈ rest, ∀ pj ∈ done, H pi pj)
    (h2 : rest.Pairwise (fun e l => H l e)) :
    (loopLF addA zA fA (done.map ψ) accs (rest.map ψ)).map φ
      = loopLF addB zB fB done (accs.map φ) rest := by
  induction rest generalizing done accs with
  | nil => simp [loopLF]
  | cons pi r ih =>
    have hi := inner_hom addA addB φ ψ fA fB hadd pi done
      (fun pj hpj => hf pi pj (h1 pi (by simp) pj hpj)) zA accs
    rw [List.pairwise_cons] at h2
    have := ih (done ++ [pi]) ((inner addA fA (ψ pi) zA (done.map ψ) accs).2 ++
        [(inner addA fA (ψ pi) zA (done.map ψ) accs).1])
      (by
        intro p hp q hq
        rcases List.mem_append.mp hq with hq | hq
        · exact h1 p (by simp [hp]) q hq
        · simp at hq; subst hq; exact h2.1 p hp)
      h2.2
    simp only [List.map_cons, loopLF]
    simp only [List.map_append, List.map_cons, List.map_nil] at this
    rw [this, hi.1, hi.2, hz]

theorem loopEF_hom (addA : A → A → A) (addB : B → B → B) (φ : A → B) (ψ : β → α)
    (fA : α → α → A × A) (fB : β → β → B × B)
    (hadd : ∀ a b, φ (addA a b) = addB (φ a) (φ b))
    (H : β → β → Prop)
    (hf : ∀ pi pj, H pi pj → φ (fA (ψ pi) (ψ pj)).1 = (fB pi pj).1 ∧ φ (fA (ψ pi) (ψ pj)).2 = (fB pi pj).2)
    (ps : List β) (accs : List A)
    (h2 : ps.Pairwise H) :
    (loopEF addA fA (ps.map ψ) accs).map φ = loopEF addB fB ps (accs.map φ) := by
  induction ps generalizing accs with
  | nil => simp [loopEF]
  | cons pi r ih =>
    cases accs with
    | nil => simp [loopEF]
    | cons ai ar =>
      rw [List.pairwise_cons] at h2
      have hi := inner_hom addA addB φ ψ fA fB hadd pi r (fun pj hpj => hf pi pj (h2.1 pj hpj)) ai ar
      simp only [List.map_cons, loopEF]
      rw [ih _ h2.2, hi.1, hi.2]

theorem crossLoop_hom (addA : A → A → A) (addB : B → B → B) (zA : A) (zB : B) (φ : A → B) (ψ : β → α)
    (fA : α → α → A × A) (fB : β → β → B × B)
    (hadd : ∀ a b, φ (addA a b) = addB (φ a) (φ b)) (hz : φ zA = zB)
    (H : β → β → Prop)
    (hf : ∀ pi pj, H pi pj → φ (fA (ψ pi) (ψ pj)).1 = (fB pi pj).1 ∧ φ (fA (ψ pi) (ψ pj)).2 = (fB pi pj).2)
    (back : Bool) (act tst : List β) (accs : List A)
    (h1 : ∀ pi ∈ tst, ∀ pj ∈ act, H pi pj) :
    (crossLoop addA zA fA back (act.map ψ) accs (tst.map ψ)).1.map φ
        = (crossLoop addB zB fB back act (accs.map φ) tst).1 ∧
    (crossLoop addA zA fA back (act.map ψ) accs (tst.map ψ)).2.map φ
        = (crossLoop addB zB fB back act (accs.map φ) tst).2 := by
  induction tst generalizing accs with
  | nil => simp [crossLoop]
  | cons pi r ih =>
    have hi := inner_hom addA addB φ ψ fA fB hadd pi act
      (fun pj hpj => hf pi pj (h1 pi (by simp) pj hpj)) zA accs
    have ih' := ih (if back then (inner addA fA (ψ pi) zA (act.map ψ) accs).2 else accs)
      (fun p hp q hq => h1 p (by simp [hp]) q hq)
    have hif : (if back then (inner addA fA (ψ pi) zA (act.map ψ) accs).2 else accs).map φ
        = if back then (inner addB fB pi zB act (accs.map φ)).2 else accs.map φ := by
      cases back
      · simp
      · simp only [if_true]; rw [hi.2, hz]
    simp only [List.map_cons, crossLoop]
    rw [hif] at ih'
    refine ⟨ih'.1, ?_⟩
    rw [ih'.2, hi.1, hz]

end hom

/-! ## the two loop orders agree for a kernel that is symmetric under exchange of the pair

No algebraic law of `add` is needed: with `f a b = swap (f b a)` both loops perform the
same additions in the same order. -/
section order
variable {α A : Type}

/-- `loopLF` with explicit initial accumulators for the particles still to come -/
def loopLFg (add : A → A → A) (f : α → α → A × A) : List α → List A → List α → List A → List A
  | _, accs, [], _ => accs
  | done, accs, pi :: rest, ai :: ar =>
    let res := inner add f pi ai done accs
    loopLFg add f (done ++ [pi]) (res.2 ++ [res.1]) rest ar
  | _, accs, _ :: _, [] => accs

theorem loopLF_eq_g (add : A → A → A) (zero : A) (f : α → α → A × A) (done : List α) (accs : List A)
    (rest : List α) :
    loopLF add zero f done accs rest = loopLFg add f done accs rest (rest.map (fun _ => zero)) := by
  induction rest generalizing done accs with
  | nil => simp [loopLF, loopLFg]
  | cons p r ih => simp [loopLF, loopLFg, ih]

def swapK (f : α → α → A × A) : α → α → A × A := fun x y => ((f y x).2, (f y x).1)

theorem loopLFg_peel (add : A → A → A) (f : α → α → A × A) (p : α) (a0 : A) (done : List α)
    (accs : List A) (rest : List α) (ar : List A) :
    loopLFg add f (p :: done) (a0 :: accs) rest ar =
      (inner add (swapK f) p a0 rest ar).1 ::
        loopLFg add f done accs rest (inner add (swapK f) p a0 rest ar).2 := by
  induction rest generalizing a0 done accs ar with
  | nil => simp [loopLFg, inner]
  | cons q r ih =>
    cases ar with
    | nil => simp [loopLFg, inner]
    | cons b ar' =>
      simp only [loopLFg, inner, swapK, List.cons_append]
      rw [ih]

theorem inner_congr (add : A → A → A) (f g : α → α → A × A) (p : α) (a0 : A) (ps : List α) (as : List A)
    (h : ∀ q ∈ ps, g p q = f p q) : inner add g p a0 ps as = inner add f p a0 ps as := by
  induction ps generalizing a0 as with
  | nil => simp [inner]
  | cons q r ih =>
    cases as with
    | nil => simp [inner]
    | cons b ar =>
      simp only [inner, h q (by simp)]
      rw [ih _ _ (fun q' hq' => h q' (by simp [hq']))]

theorem loopLFg_eq_loopEF (add : A → A → A) (f : α → α → A × A) (l : List α) (as : List A)
    (hlen : l.length = as.length)
    (hsym : l.Pairwise (fun a b => swapK f a b = f a b)) :
    loopLFg add f [] [] l as = loopEF add f l as := by
  induction l generalizing as with
  | nil => simp [loopLFg, loopEF]
  | cons p r ih =>
    cases as with
    | nil => simp at hlen
    | cons a0 ar =>
      rw [List.pairwise_cons] at hsym
      have hl : r.length = ar.length := by simpa using hlen
      simp only [loopLFg, inner, List.nil_append, loopEF]
      rw [loopLFg_peel, inner_congr add f (swapK f) p a0 r ar hsym.1]
      rw [ih _ (by rw [inner_length _ _ _ _ _ _ hl]; exact hl) hsym.2]

end order

/-! ## dualisation of particle sets -/
section kernels
variable {K : Type} [Field K] [CharZero K]

/-- real particle + ε · variational particle -/
def dz1 (p : RV1 K) : GP (Dual K) :=
  ⟨⟨p.1.m, p.2.m⟩, ⟨p.1.x, p.2.x⟩, ⟨p.1.y, p.2.y⟩, ⟨p.1.z, p.2.z⟩⟩
def epsV (v : V3 (Dual K)) : V3 K := ⟨v.x.eps, v.y.eps, v.z.eps⟩
def reV (v : V3 (Dual K)) : V3 K := ⟨v.x.re, v.y.re, v.z.re⟩

def d4 (x a b c : K) : Dual2 K := ⟨⟨x, a⟩, ⟨b, c⟩⟩
/-- real + ε₁ · (first order a) + ε₂ · (first order b) + ε₁ε₂ · (second order) -/
def dz2 (p : RV2 K) : GP (Dual2 K) :=
  ⟨d4 p.p.m p.da.m p.db.m p.dd.m, d4 p.p.x p.da.x p.db.x p.dd.x,
   d4 p.p.y p.da.y p.db.y p.dd.y, d4 p.p.z p.da.z p.db.z p.dd.z⟩
def epsV2 (v : V3 (Dual2 K)) : V3 K := ⟨v.x.eps.eps, v.y.eps.eps, v.z.eps.eps⟩

/-- squared distance as the C code computes it (without softening) -/
def r2of (a b : GP K) : K :=
  (a.x - b.x)*(a.x - b.x) + (a.y - b.y)*(a.y - b.y) + (a.z - b.z)*(a.z - b.z)

/-- what the theorems need of the square-root function on one pair: it squares back to
    the squared distance, and the distance is not zero (the C code divides by it) -/
def PairOK (sq : K → K) (a b : GP K) : Prop :=
  sq (r2of a b) * sq (r2of a b) = r2of a b ∧ sq (r2of a b) ≠ 0

omit [CharZero K] in
theorem epsV_add (a b : V3 (Dual K)) : epsV (V3.add a b) = V3.add (epsV a) (epsV b) := rfl
omit [CharZero K] in
theorem reV_add (a b : V3 (Dual K)) : reV (V3.add a b) = V3.add (reV a) (reV b) := rfl
omit [CharZero K] in
theorem epsV2_add (a b : V3 (Dual2 K)) : epsV2 (V3.add a b) = V3.add (epsV2 a) (epsV2 b) := rfl

/-- first order: the ε-part of the force kernel on duals is the hand-derived kernel
    `var1Pair` (gravity.c:1038-1072), including the variational-mass terms -/
theorem var1_pair (G : K) (sq : K → K) (pi pj : RV1 K) (h : PairOK sq pi.1 pj.1) :
    epsV (forcePair (Dual.const G) Scalar.zero (Dual.sqrtLift sq) (dz1 pi) (dz1 pj)).1 = (var1Pair G sq pi pj).1 ∧
    epsV (forcePair (Dual.const G) Scalar.zero (Dual.sqrtLift sq) (dz1 pi) (dz1 pj)).2 = (var1Pair G sq pi pj).2 := by
  obtain ⟨⟨mi, xi, yi, zi⟩, ⟨dmi, dxi, dyi, dzi⟩⟩ := pi
  obtain ⟨⟨mj, xj, yj, zj⟩, ⟨dmj, dxj, dyj, dzj⟩⟩ := pj
  obtain ⟨hs, hne⟩ := h
  have h2 : (2:K) ≠ 0 := by norm_num
  simp only [r2of] at hs hne
  simp only [forcePair, var1Pair, dz1, epsV, three, Dual.add_re, Dual.add_eps, Dual.sub_re, Dual.sub_eps,
    Dual.mul_re, Dual.mul_eps, Dual.div_re, Dual.div_eps, Dual.neg_re, Dual.neg_eps,
    Dual.sqrtLift_re, Dual.sqrtLift_eps, Dual.const_re, Dual.const_eps, Dual.zero_re, Dual.zero_eps,
    sc_zero, sc_one, sc_hadd, sc_hsub, sc_hmul, sc_hdiv, sc_hneg, sc_ofNat, add_zero]
  generalize hρ : sq ((xi - xj) * (xi - xj) + (yi - yj) * (yi - yj) + (zi - zj) * (zi - zj)) = ρ at *
  rw [← hs]
  push_cast
  constructor <;> (congr 1 <;> (field_simp; ring))

omit [CharZero K] in
/-- the real part of the dual run is the ordinary force -/
theorem re_pair (G : K) (sq : K → K) (pi pj : RV1 K) :
    reV (forcePair (Dual.const G) Scalar.zero (Dual.sqrtLift sq) (dz1 pi) (dz1 pj)).1
        = (forcePair G Scalar.zero sq pi.1 pj.1).1 ∧
    reV (forcePair (Dual.const G) Scalar.zero (Dual.sqrtLift sq) (dz1 pi) (dz1 pj)).2
        = (forcePair G Scalar.zero sq pi.1 pj.1).2 := by
  constructor <;> rfl

/-- components of `G/(r*r*r)`, `r = sqrt R`, on second-order duals -/
theorem prefactD2 (G : K) (sq : K → K) (R : Dual2 K) (hρ : sq R.re.re ≠ 0) :
    let ρ := sq R.re.re
    let P := (Dual.const (Dual.const G) : Dual2 K) /
      (Dual2.sqrtLift2 sq R * Dual2.sqrtLift2 sq R * Dual2.sqrtLift2 sq R)
    P.re.re = G*ρ⁻¹^3 ∧ P.re.eps = -(3*G*R.re.eps*2⁻¹*ρ⁻¹^5) ∧
    P.eps.re = -(3*G*R.eps.re*2⁻¹*ρ⁻¹^5) ∧
    P.eps.eps = -(3*G*R.eps.eps*2⁻¹*ρ⁻¹^5) + 15*G*R.re.eps*R.eps.re*2⁻¹*2⁻¹*ρ⁻¹^7 := by
  obtain ⟨⟨s, u⟩, ⟨v, w⟩⟩ := R
  have h2 : (2:K) ≠ 0 := by norm_num
  simp only at hρ
  simp only [Dual2.sqrtLift2,
    Dual.add_re, Dual.add_eps, Dual.sub_re, Dual.sub_eps,
    Dual.mul_re, Dual.mul_eps, Dual.div_re, Dual.div_eps, Dual.neg_re, Dual.neg_eps,
    Dual.sqrtLift_re, Dual.sqrtLift_eps, Dual.const_re, Dual.const_eps, Dual.zero_re, Dual.zero_eps,
    Dual.ofNat_re, Dual.ofNat_eps,
    sc_zero, sc_one, sc_hadd, sc_hsub, sc_hmul, sc_hdiv, sc_hneg, sc_ofNat, add_zero]
  generalize sq s = ρ at *
  push_cast
  refine ⟨?_, ?_, ?_, ?_⟩
  all_goals (field_simp; try ring)

/-- second order: the ε₁ε₂-part of the force kernel on `Dual (Dual K)` is the hand-derived
    kernel `var2Pair` (gravity.c:1177-1258) -/
theorem var2_pair (G : K) (sq : K → K) (pi pj : RV2 K) (h : PairOK sq pi.p pj.p) :
    epsV2 (forcePair (Dual.const (Dual.const G)) Scalar.zero (Dual2.sqrtLift2 sq) (dz2 pi) (dz2 pj)).1
      = (var2Pair G sq pi pj).1 ∧
    epsV2 (forcePair (Dual.const (Dual.const G)) Scalar.zero (Dual2.sqrtLift2 sq) (dz2 pi) (dz2 pj)).2
      = (var2Pair G sq pi pj).2 := by
  obtain ⟨⟨mi, xi, yi, zi⟩, ⟨mai, xai, yai, zai⟩, ⟨mbi, xbi, ybi, zbi⟩, ⟨mmi, xxi, yyi, zzi⟩⟩ := pi
  obtain ⟨⟨mj, xj, yj, zj⟩, ⟨maj, xaj, yaj, zaj⟩, ⟨mbj, xbj, ybj, zbj⟩, ⟨mmj, xxj, yyj, zzj⟩⟩ := pj
  obtain ⟨hs, hne⟩ := h
  simp only [r2of] at hs hne
  have key := prefactD2 G sq
    ((d4 xi xai xbi xxi - d4 xj xaj xbj xxj) * (d4 xi xai xbi xxi - d4 xj xaj xbj xxj)
      + (d4 yi yai ybi yyi - d4 yj yaj ybj yyj) * (d4 yi yai ybi yyi - d4 yj yaj ybj yyj)
      + (d4 zi zai zbi zzi - d4 zj zaj zbj zzj) * (d4 zi zai zbi zzi - d4 zj zaj zbj zzj) + Scalar.zero)
    (by simpa only [d4, Dual.add_re, Dual.sub_re, Dual.mul_re, Dual.zero_re, sc_zero, sc_hadd, sc_hsub,
          sc_hmul, add_zero] using hne)
  simp only [forcePair, dz2, epsV2]
  simp only at key
  generalize hP : (Dual.const (Dual.const G) : Dual2 K) / _ = P at key ⊢
  obtain ⟨k0, k1, k2, k3⟩ := key
  simp only [d4, Dual.add_re, Dual.add_eps, Dual.sub_re, Dual.sub_eps,
    Dual.mul_re, Dual.mul_eps, Dual.neg_re, Dual.neg_eps, Dual.zero_re, Dual.zero_eps,
    sc_zero, sc_hadd, sc_hsub, sc_hmul, sc_hneg, add_zero] at k0 k1 k2 k3 ⊢
  rw [k0, k1, k2, k3]
  simp only [var2Pair, var2Core, var2Upd, three, fifteen, sc_zero, sc_one, sc_hadd, sc_hsub, sc_hmul,
    sc_hdiv, sc_hneg, sc_ofNat]
  generalize hρ : sq ((xi - xj) * (xi - xj) + (yi - yj) * (yi - yj) + (zi - zj) * (zi - zj)) = ρ at *
  rw [← hs]
  push_cast
  generalize xi - xj = dx
  generalize yi - yj = dy
  generalize zi - zj = dz
  generalize xai - xaj = ax
  generalize yai - yaj = ay
  generalize zai - zaj = az
  generalize xbi - xbj = bx
  generalize ybi - ybj = bY
  generalize zbi - zbj = bz
  generalize xxi - xxj = cx
  generalize yyi - yyj = cy
  generalize zzi - zzj = cz
  simp only [div_eq_mul_inv, mul_inv, one_mul]
  constructor <;> (congr 1 <;> ring)

omit [CharZero K] in
theorem r2of_comm (a b : GP K) : r2of a b = r2of b a := by simp only [r2of]; ring

set_option maxRecDepth 8000 in
omit [CharZero K] in
/-- the second-order kernel is symmetric under exchange of the pair (every term is odd in
    the coordinate differences), so the `i<j` loop of the C code computes the same sums as
    the `j<i` loop of the force -/
theorem var2Pair_symm (G : K) (sq : K → K) (a b : RV2 K) :
    swapK (var2Pair G sq) a b = var2Pair G sq a b := by
  obtain ⟨⟨mi, xi, yi, zi⟩, ⟨mai, xai, yai, zai⟩, ⟨mbi, xbi, ybi, zbi⟩, ⟨mmi, xxi, yyi, zzi⟩⟩ := a
  obtain ⟨⟨mj, xj, yj, zj⟩, ⟨maj, xaj, yaj, zaj⟩, ⟨mbj, xbj, ybj, zbj⟩, ⟨mmj, xxj, yyj, zzj⟩⟩ := b
  simp only [swapK, var2Pair, var2Core, var2Upd, three, fifteen, sc_zero, sc_one, sc_hadd, sc_hsub,
    sc_hmul, sc_hdiv, sc_hneg, sc_ofNat]
  rw [show xj - xi = -(xi - xj) by ring]
  generalize xi - xj = d0
  rw [show yj - yi = -(yi - yj) by ring]
  generalize yi - yj = d1
  rw [show zj - zi = -(zi - zj) by ring]
  generalize zi - zj = d2
  rw [show xaj - xai = -(xai - xaj) by ring]
  generalize xai - xaj = d3
  rw [show yaj - yai = -(yai - yaj) by ring]
  generalize yai - yaj = d4
  rw [show zaj - zai = -(zai - zaj) by ring]
  generalize zai - zaj = d5
  rw [show xbj - xbi = -(xbi - xbj) by ring]
  generalize xbi - xbj = d6
  rw [show ybj - ybi = -(ybi - ybj) by ring]
  generalize ybi - ybj = d7
  rw [show zbj - zbi = -(zbi - zbj) by ring]
  generalize zbi - zbj = d8
  rw [show xxj - xxi = -(xxi - xxj) by ring]
  generalize xxi - xxj = d9
  rw [show yyj - yyi = -(yyi - yyj) by ring]
  generalize yyi - yyj = d10
  rw [show zzj - zzi = -(zzi - zzj) by ring]
  generalize zzi - zzj = d11
  rw [show -d0 * -d0 + -d1 * -d1 + -d2 * -d2 = d0 * d0 + d1 * d1 + d2 * d2 by ring]
  generalize sq (d0 * d0 + d1 * d1 + d2 * d2) = ρ
  generalize d0 * d0 + d1 * d1 + d2 * d2 = s
  simp only [div_eq_mul_inv, mul_inv, one_mul]
  refine Prod.ext ?_ ?_ <;> (congr 1 <;> first | ring1 | ring_nf)

end kernels

end RV.Var
