import RV.Proofs.OrbitAngles
import Mathlib.Analysis.SpecialFunctions.Trigonometric.Inverse
/-
  C11 (ii): the abstract libm hypotheses are satisfied by the real functions
  (Real.cos, Real.sin, Real.arccos, Real.sqrt, C-style fmod on ℝ).
-/
set_option linter.unusedVariables false
namespace RV.Orbit
/-- the real functions, with an arbitrary `fmod` -/
noncomputable def realLibm (fmod : ℝ → ℝ → ℝ) : Libm ℝ where
  sqrt := Real.sqrt
  sin := Real.sin
  cos := Real.cos
  fabs := fun x => |x|
  tan := Real.tan
  atan2 := fun _ _ => 0
  acos := Real.arccos
  asin := Real.arcsin
  atan := fun _ => 0
  exp := Real.exp
  log := fun _ => 0
  sinh := Real.sinh
  cosh := Real.cosh
  tanh := Real.tanh
  acosh := fun _ => 0
  cbrt := fun _ => 0
  floor := fun x => (⌊x⌋ : ℝ)
  ceil := fun x => (⌈x⌉ : ℝ)
  pow := fun _ _ => 0
  fmod := fmod
  pi := Real.pi
  tiny := 0

theorem realTrigSpec (fmod : ℝ → ℝ → ℝ) : TrigSpec (realLibm fmod) where
  pi_pos := Real.pi_pos
  sq := Real.cos_sq_add_sin_sq
  cos_zero := Real.cos_zero
  cos_pi := Real.cos_pi
  acos_cos := fun t h0 h1 => Real.arccos_cos h0 h1
  sin_pos := fun t h0 h1 => Real.sin_pos_of_pos_of_lt_pi h0 h1
  cos_neg := Real.cos_neg
  sin_neg := Real.sin_neg
  cos_add := Real.cos_add
  sin_add := Real.sin_add

theorem realSqrtSpec (fmod : ℝ → ℝ → ℝ) : ∀ x : ℝ, 0 ≤ x → 0 ≤ (realLibm fmod).sqrt x ∧ (realLibm fmod).sqrt x ^ 2 = x :=
  fun x hx => ⟨Real.sqrt_nonneg x, Real.sq_sqrt hx⟩
/-- C `fmod` on the reals: `x - y·trunc(x/y)` -/
noncomputable def fmodR (x y : ℝ) : ℝ := x - y * (if 0 ≤ x / y then (⌊x / y⌋ : ℝ) else (⌈x / y⌉ : ℝ))

theorem fmodR_spec : FmodSpec fmodR where
  bound := by
    intro x y hy
    unfold fmodR
    split_ifs with h
    · have h1 := Int.floor_le (x / y)
      have h2 := Int.lt_floor_add_one (x / y)
      have e : x = y * (x / y) := by field_simp
      constructor <;> nlinarith
    · have h1 := Int.le_ceil (x / y)
      have h2 := Int.ceil_lt_add_one (x / y)
      have e : x = y * (x / y) := by field_simp
      constructor <;> nlinarith
  nonneg := by
    intro x y hy hx
    unfold fmodR
    have hq : 0 ≤ x / y := div_nonneg hx (le_of_lt hy)
    rw [if_pos hq]
    have h1 := Int.floor_le (x / y)
    have e : x = y * (x / y) := by field_simp
    nlinarith
  congr := by
    intro x y hy
    unfold fmodR
    split_ifs with h
    · exact ⟨⌊x / y⌋, by ring⟩
    · exact ⟨⌈x / y⌉, by ring⟩
end RV.Orbit
