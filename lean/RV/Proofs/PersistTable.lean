import RV.Model.Persist
/-
  Decidable checks on a concrete descriptor table + struct layout (evaluated by `decide +kernel` on the
  generated RV/Gen/C05Descriptors.lean in RV/Props/C05.lean, every run).
-/
namespace RV.Persist

/-- members are listed by index and lie, in order and without overlap, inside the struct -/
def layoutSorted : List Member → Bool
  | a :: b :: r => (a.off + a.size ≤ b.off) && layoutSorted (b :: r)
  | _ => true

def indexed : List Member → Nat → Bool
  | [], _ => true
  | m :: r, i => m.idx == i && indexed r (i + 1)

def layoutOK (ms : List Member) (structSize : Nat) : Bool :=
  indexed ms 0 && layoutSorted ms &&
  (match ms.getLast? with
   | some m => m.off + m.size ≤ structSize
   | none => true)

/-- does row `d` persist member `i`? -/
def rowPersists (psz : Nat) (d : Desc) (i : Nat) : Bool :=
  match simpleSize psz d.dtype with
  | some _ => d.mem == i
  | none =>
    match d.dtype with
    | .pointer | .pointerAligned | .pointerFixed => d.mem == i
    | .dp7 => d.mem ≤ i && i < d.mem + 7
    | _ => false

def persisted (psz : Nat) (tbl : List Desc) (i : Nat) : Bool := (live tbl).any (fun d => rowPersists psz d i)

/-- **coverage**: every member is persisted, or classified transient, or a recorded gap -/
def coverageOK (psz : Nat) (tbl : List Desc) (ms : List Member) (transient gaps : List Nat) : Bool :=
  ms.all (fun m => persisted psz tbl m.idx || transient.contains m.idx || gaps.contains m.idx)

/-- members of `ms` that are neither persisted nor classified (for the error message / model counter-example) -/
def uncovered (psz : Nat) (tbl : List Desc) (ms : List Member) (transient gaps : List Nat) : List Nat :=
  (ms.filter (fun m => !(persisted psz tbl m.idx || transient.contains m.idx || gaps.contains m.idx))).map (·.idx)

/-- a member classified transient is not persisted at the same time (stale classification) -/
def transientFresh (psz : Nat) (tbl : List Desc) (transient : List Nat) : Bool :=
  transient.all (fun i => !persisted psz tbl i)

def kindCompat : DType → MKind → Bool
  | .double, .f64 => true
  | .int, .i32 => true
  | .int, .enum32 => true
  | .uint, .u32 => true
  | .uint32, .u32 => true
  | .int64, .i64 => true
  | .uint64, .u64 => true
  | .vec3d, .vec3d => true
  | .particle4, .parr => true
  | _, _ => false

def isPtr (ms : List Member) (i : Nat) : Bool :=
  match ms[i]? with
  | some m => m.kind == .ptr && m.size == 8
  | none => false

def isCounterMember (ms : List Member) (i : Nat) : Bool :=
  match ms[i]? with
  | some m => m.kind == .u32 && m.size == 4
  | none => false

def offOf (ms : List Member) (i : Nat) : Nat :=
  match ms[i]? with
  | some m => m.off
  | none => 0

/-- the dtype of a row matches the C type of the member it addresses: same size (what the writer copies is
    exactly the member), same kind; pointer rows address a pointer and an `unsigned int` counter -/
def rowOK (psz : Nat) (ms : List Member) (d : Desc) : Bool :=
  match simpleSize psz d.dtype with
  | some sz =>
    (match ms[d.mem]? with
     | some m => m.size == sz && kindCompat d.dtype m.kind
     | none => false)
  | none =>
    match d.dtype with
    | .pointer | .pointerAligned => isPtr ms d.mem && isCounterMember ms d.nMem && d.elemSize != 0
    | .pointerFixed => isPtr ms d.mem && d.elemSize != 0
    | .dp7 =>
      (List.range 7).all (fun k => isPtr ms (d.mem + k) && offOf ms (d.mem + k) == offOf ms d.mem + 8 * k) &&
      isCounterMember ms d.nMem && d.elemSize != 0 && d.elemSize % 7 == 0
    | _ => true

def rowsOK (psz : Nat) (ms : List Member) (tbl : List Desc) : Bool := (live tbl).all (rowOK psz ms)

/-- no member is persisted by two rows -/
def dataMems (psz : Nat) (tbl : List Desc) : List Nat :=
  (live tbl).flatMap (fun d =>
    match simpleSize psz d.dtype with
    | some _ => [d.mem]
    | none =>
      match d.dtype with
      | .pointer | .pointerAligned | .pointerFixed => [d.mem]
      | .dp7 => (List.range 7).map (fun k => d.mem + k)
      | _ => [])

def nodupNat : List Nat → Bool
  | [] => true
  | a :: r => !r.contains a && nodupNat r

/-- the element size of an array row is the size of its element struct as compiled -/
def elemSizesOK (tbl : List Desc) (rowElems : List (Nat × ElemLayout)) : Bool :=
  rowElems.all (fun p => tbl.all (fun d => d.id != p.1 ||
    (match d.dtype with
     | .pointer | .pointerAligned | .pointerFixed => d.elemSize == p.2.size
     | _ => true)))

/-- members of an element do not overlap and lie inside it -/
def elemSorted : List EMember → Bool
  | a :: b :: r => (a.off + a.size ≤ b.off) && elemSorted (b :: r)
  | _ => true

def elemOK (l : ElemLayout) : Bool :=
  elemSorted l.members &&
  (match l.members.getLast? with
   | some m => m.off + m.size ≤ l.size
   | none => true)

def hasPtr (l : ElemLayout) : Bool := l.members.any (fun m => m.kind == .ptr || m.kind == .fptr)

/-- ids of persisted payloads whose element struct contains a pointer member -/
def ptrPayloadIds (rowElems : List (Nat × ElemLayout)) : List Nat :=
  (rowElems.filter (fun p => hasPtr p.2)).map (·.1)

/-- ... and which reb_binary_diff compares with memcmp (no member-wise compare spec) -/
def memcmpPtrIds (tbl : List Desc) (rowElems : List (Nat × ElemLayout)) : List Nat :=
  (ptrPayloadIds rowElems).filter (fun id => tbl.any (fun d => d.id == id && d.cmp == 0))

/-- a member-wise compare spec covers every non-pointer member of the element struct and no pointer -/
def specCovers (c : CmpSpec) (l : ElemLayout) : Bool :=
  c.size == l.size &&
  l.members.all (fun m => (m.kind == .ptr || m.kind == .fptr) !=
    c.members.any (fun x => x.off == m.off && x.size == m.size))

/-- every function-pointer member (a callback the user must re-attach after a load) sets the warning flag of the
    stream, or is exempt for a stated reason, or is a recorded gap -/
def callbacksFlagged (ms : List Member) (flagged exempt gaps : List Nat) : Bool :=
  ms.all (fun m => m.kind != .fptr || flagged.contains m.idx || exempt.contains m.idx || gaps.contains m.idx)

/-- function-pointer members that neither set the flag nor are exempt -/
def unflaggedCallbacks (ms : List Member) (flagged exempt : List Nat) : List Nat :=
  (ms.filter (fun m => m.kind == .fptr && !(flagged.contains m.idx || exempt.contains m.idx))).map (·.idx)

/-- the flag the writer stores: some flagged callback is set -/
def fpFlagOf (flagged : List Nat) (isSet : Nat → Bool) : Bool := flagged.any isSet

def tableIdsNodup (tbl : List Desc) : Bool := nodupNat ((live tbl).map (·.id))

theorem nodupNat_iff (l : List Nat) : nodupNat l = true → l.Nodup := by
  induction l with
  | nil => intro _; exact List.nodup_nil
  | cons a r ih =>
    intro h
    simp only [nodupNat, Bool.and_eq_true, Bool.not_eq_true'] at h
    refine List.nodup_cons.mpr ⟨?_, ih h.2⟩
    intro hm
    have : r.contains a = true := List.contains_iff_mem.mpr hm
    rw [this] at h
    exact absurd h.1 (by simp)

end RV.Persist
