import RV.Model.Advertised
import RV.Gen.C01Eos
/- C01 / EOS: LF8 in the free algebra on two letters: all 511 words up to length 8 -/
namespace RV.C01.Eos
open RV.C01 RV.C01.Gen RV.C01.Adv
theorem order_lf8 : ∀ s ∈ eosOuter.lookup 3, ∀ lim ∈ eos.lookup 3, WordOrder s lim κEOS tolEOS := by decide +kernel
end RV.C01.Eos
