import RV.Proofs.Boundary
set_option linter.unusedSectionVars false
set_option linter.unusedVariables false
set_option linter.unusedSimpArgs false
namespace RV.C15
open RV RV.Boundary

variable {K : Type} [Field K] [LinearOrder K] [IsStrictOrderedRing K]

/-- the C99 specification of `fmod(a,b)` for `b ≠ 0`: `a - q*b` for an integer `q`, smaller than `b` in magnitude,
    with the sign of `a` (the exact emulation `fmodFloat` is compared with libm on every run) -/
def FmodSpec (fmod : K → K → K) : Prop :=
  ∀ a b : K, b ≠ 0 → (∃ q : Int, fmod a b = a - q * b) ∧ |fmod a b| < |b| ∧
    (0 ≤ a → 0 ≤ fmod a b) ∧ (a ≤ 0 → fmod a b ≤ 0)

theorem shearHi_terminates (bx op1 dv : K) : ∀ (f : Nat) (p : P K), p.x ≤ bx / 2 + f * bx →
    ∃ q, shearHi bx op1 dv f p = some q := by
  intro f
  induction f with
  | zero =>
    intro p hx
    simp at hx
    exact ⟨p, by simp [shearHi, not_lt.mpr hx]⟩
  | succ f ih =>
    intro p hx
    by_cases h : bx / 2 < p.x
    · obtain ⟨q, hq⟩ := ih { p with x := p.x - bx, y := p.y + op1, vy := p.vy + dv } (by simp; push_cast at hx; linarith)
      exact ⟨q, by simp [shearHi, h, hq]⟩
    · exact ⟨p, by simp [shearHi, h]⟩

theorem shearLo_terminates (bx om1 dv : K) : ∀ (f : Nat) (p : P K), -bx / 2 - f * bx ≤ p.x →
    ∃ q, shearLo bx om1 dv f p = some q := by
  intro f
  induction f with
  | zero =>
    intro p hx
    simp at hx
    exact ⟨p, by simp [shearLo, not_lt.mpr hx]⟩
  | succ f ih =>
    intro p hx
    by_cases h : p.x < -bx / 2
    · obtain ⟨q, hq⟩ := ih { p with x := p.x + bx, y := p.y + om1, vy := p.vy - dv } (by simp; push_cast at hx; linarith)
      exact ⟨q, by simp [shearLo, h, hq]⟩
    · exact ⟨p, by simp [shearLo, h]⟩


theorem offsets_bound (fmod : K → K → K) (hf : FmodSpec fmod) (omega t bx bY : K) (hY : 0 < bY) :
    |(shearOffsets fmod omega t bx bY).1| ≤ 2 * bY ∧ |(shearOffsets fmod omega t bx bY).2.1| ≤ 2 * bY := by
  simp only [shearOffsets, sc_hadd, sc_hsub, sc_hmul, sc_hdiv, sc_neg, sc_ofNat, half_eq, Nat.cast_ofNat]
  have hne : bY ≠ 0 := ne_of_gt hY
  obtain ⟨_, h1, _, _⟩ := hf (-(3 / 2) * omega * bx * t + bY / 2) bY hne
  obtain ⟨_, h2, _, _⟩ := hf (3 / 2 * omega * bx * t - bY / 2) bY hne
  rw [abs_of_pos hY] at h1 h2
  have a1 := abs_lt.mp h1
  have a2 := abs_lt.mp h2
  constructor <;> rw [abs_le] <;> constructor <;> linarith

/-- the whole shear wrap of one particle returns when the fuel covers the radial, azimuthal (including the offsets
    picked up by the radial wraps) and vertical excursions -/
theorem shear1_terminates (bx bY bz op1 om1 dv : K) (hx : 0 < bx) (hY : 0 < bY) (hz : 0 < bz)
    (ho1 : |op1| ≤ 2 * bY) (ho2 : |om1| ≤ 2 * bY) (kx ky kz F : Nat) (hF1 : kx ≤ F) (hF2 : ky + 4 * kx ≤ F) (hF3 : kz ≤ F)
    (p : P K) (hpx : |p.x| ≤ bx / 2 + kx * bx) (hpy : |p.y| ≤ bY / 2 + ky * bY) (hpz : |p.z| ≤ bz / 2 + kz * bz) :
    ∃ q, shear1 bx bY bz op1 om1 dv F p = some q := by
  have hFx : (kx : K) ≤ F := by exact_mod_cast hF1
  have hFy : (ky : K) + 4 * kx ≤ F := by exact_mod_cast hF2
  have hFz : (kz : K) ≤ F := by exact_mod_cast hF3
  have ax := abs_le.mp hpx
  have hkx0 : (0 : K) ≤ kx := Nat.cast_nonneg _
  have hFkx : (kx : K) * bx ≤ F * bx := mul_le_mul_of_nonneg_right hFx (le_of_lt hx)
  obtain ⟨p1, e1⟩ := shearHi_terminates bx op1 dv F p (by linarith)
  obtain ⟨n1, a1, a2, a3, a4, a5, a6⟩ := shearHi_spec _ _ _ _ _ _ e1
  have hn1 : (n1 : K) ≤ kx := by
    rcases a6 with h0 | h0
    · subst h0; simpa using hkx0
    · have e : (n1 : K) * bx = p.x - p1.x := by rw [a1]; ring
      have : (n1 : K) * bx < (kx + 1) * bx := by rw [e, add_mul, one_mul]; linarith
      have : (n1 : K) < kx + 1 := lt_of_mul_lt_mul_right this (le_of_lt hx)
      have : n1 < kx + 1 := by exact_mod_cast this
      exact_mod_cast Nat.lt_succ_iff.mp this
  have hx1lo : -bx / 2 - F * bx ≤ p1.x := by
    rcases a6 with h0 | h0
    · subst h0; simp at a1; rw [a1]; linarith
    · have : (0 : K) ≤ F * bx := by positivity
      linarith
  obtain ⟨p2, e2⟩ := shearLo_terminates bx om1 dv F p1 hx1lo
  obtain ⟨n2, b1, b2, b3, b4, b5, b6⟩ := shearLo_spec _ _ _ _ _ _ e2
  have hn2 : (n2 : K) ≤ kx := by
    rcases b6 with h0 | h0
    · subst h0; simpa using hkx0
    · have hx1 : p1.x ≥ -bx / 2 - kx * bx := by
        rcases a6 with h1 | h1
        · subst h1; simp at a1; rw [a1]; linarith
        · have : (0 : K) ≤ kx * bx := by positivity
          linarith
      have e : (n2 : K) * bx = p2.x - p1.x := by rw [b1]; ring
      have : (n2 : K) * bx < (kx + 1) * bx := by rw [e, add_mul, one_mul]; linarith
      have : (n2 : K) < kx + 1 := lt_of_mul_lt_mul_right this (le_of_lt hx)
      have : n2 < kx + 1 := by exact_mod_cast this
      exact_mod_cast Nat.lt_succ_iff.mp this
  have hy2 : |p2.y| ≤ bY / 2 + F * bY := by
    rw [b2, a2]
    have hn10 : (0 : K) ≤ n1 := Nat.cast_nonneg _
    have hn20 : (0 : K) ≤ n2 := Nat.cast_nonneg _
    have t1 : |(n1 : K) * op1| ≤ kx * (2 * bY) := by
      rw [abs_mul, abs_of_nonneg hn10]
      exact mul_le_mul hn1 ho1 (abs_nonneg _) hkx0
    have t2 : |(n2 : K) * om1| ≤ kx * (2 * bY) := by
      rw [abs_mul, abs_of_nonneg hn20]
      exact mul_le_mul hn2 ho2 (abs_nonneg _) hkx0
    have t3 := abs_add_three p.y ((n1 : K) * op1) ((n2 : K) * om1)
    have t4 : ((ky : K) + 4 * kx) * bY ≤ F * bY := mul_le_mul_of_nonneg_right hFy (le_of_lt hY)
    have t5 : ((ky : K) + 4 * kx) * bY = ky * bY + kx * (2 * bY) + kx * (2 * bY) := by ring
    linarith
  obtain ⟨y, ey⟩ := wrap1_terminates bY hY F p2.y hy2
  have hz2 : |p2.z| ≤ bz / 2 + F * bz := by
    rw [b4, a4]
    have : (kz : K) * bz ≤ F * bz := mul_le_mul_of_nonneg_right hFz (le_of_lt hz)
    linarith
  obtain ⟨z, ez⟩ := wrap1_terminates bz hz F p2.z hz2
  exact ⟨{ p2 with y := y, z := z }, by simp [shear1, e1, e2, ey, ez]⟩


theorem offsets_cong (fmod : K → K → K) (hf : FmodSpec fmod) (omega t bx bY : K) (hY : bY ≠ 0) :
    (∃ a : Int, (shearOffsets fmod omega t bx bY).1 = 3 / 2 * omega * bx * t + a * bY) ∧
    (∃ b : Int, (shearOffsets fmod omega t bx bY).2.1 = -(3 / 2 * omega * bx * t) + b * bY) ∧
    (shearOffsets fmod omega t bx bY).2.2 = 3 / 2 * omega * bx := by
  simp only [shearOffsets, sc_hadd, sc_hsub, sc_hmul, sc_hdiv, sc_neg, sc_ofNat, half_eq, Nat.cast_ofNat]
  obtain ⟨⟨q1, h1⟩, _⟩ := hf (-(3 / 2) * omega * bx * t + bY / 2) bY hY
  obtain ⟨⟨q2, h2⟩, _⟩ := hf (3 / 2 * omega * bx * t - bY / 2) bY hY
  refine ⟨⟨q1 - 1, ?_⟩, ⟨q2 + 1, ?_⟩, trivial⟩
  · rw [h1]; push_cast; ring
  · rw [h2]; push_cast; ring

end RV.C15
