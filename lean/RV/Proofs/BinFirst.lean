/-
  Crash images of the very first snapshot (a prefix of a fresh file): the reader reports an error,
  exposes nothing, reads nothing out of bounds.  Whether it also frees the caller's handle is the
  variant flag `f2`.
-/
import RV.Proofs.BinCrash
set_option linter.unusedVariables false
set_option linter.unusedSimpArgs false
namespace RV.Bin

theorem take_hdr64 (hdr Y : Bytes) (h : HdrOK hdr) (k : Nat) (hk : 16 ≤ k) :
    ∃ sz, readHdr ((hdr ++ Y).take k) = some (HEADER, sz, ((hdr ++ Y).take k).drop 16) ∧
      (((hdr ++ Y).take k).drop 16).drop 48 = Y.take (k - 64) := by
  have hl : ¬ (((hdr ++ Y).take k).length < 16) := by simp [h.len]; omega
  have ht : ((hdr ++ Y).take k).take 4 = hdr.take 4 := by
    rw [List.take_take, List.take_append]
    have : min 4 k = 4 := by omega
    simp [this, h.len]
  refine ⟨de ((((hdr ++ Y).take k).drop 8).take 8), ?_, ?_⟩
  · simp only [readHdr, shorter_eq, hl, decide_false, Bool.false_eq_true, if_false, ht, h.ty]
  · rw [List.drop_drop]
    have := drop_take_left hdr Y k
    rw [h.len] at this
    exact this

theorem scanVersion_prefix (v : Variant) (fs : List Field) (h : ScanOK fs) (m fuel ver : Nat) :
    ∃ w, scanVersion v fuel ((encFs fs ++ endBytes).take m) ver = some w := by
  induction fs generalizing m fuel ver with
  | nil =>
    cases fuel with
    | zero => exact ⟨ver, rfl⟩
    | succ n =>
      simp only [encFs, List.nil_append, scanVersion]
      by_cases h16 : m < 16
      · rw [readHdr_short _ (by simp; omega)]; exact ⟨ver, rfl⟩
      · have : endBytes.take m = endBytes ++ [] := by
          rw [List.take_of_length_le (by simp; omega)]; simp
        rw [this, readHdr_end]
        have h1 : ¬ END = HEADER := by decide
        simp only [h1, if_false, if_true]
        exact ⟨ver, rfl⟩
  | cons f fs ih =>
    cases fuel with
    | zero => exact ⟨ver, rfl⟩
    | succ n =>
      have hw : f.WF := h.wf f (List.mem_cons_self ..)
      have hnh : f.ty ≠ HEADER := h.noHeader f (List.mem_cons_self ..)
      have hrest : ScanOK fs := ⟨fun g hg => h.wf g (List.mem_cons_of_mem _ hg),
        fun g hg => h.noHeader g (List.mem_cons_of_mem _ hg), fun g hg => h.ver g (List.mem_cons_of_mem _ hg),
        fun g hg => h.small g (List.mem_cons_of_mem _ hg)⟩
      by_cases h16 : m < 16
      · simp only [scanVersion]
        rw [readHdr_short _ (by simp; omega)]; exact ⟨ver, rfl⟩
      · simp only [encFs, encF, List.append_assoc, scanVersion]
        rw [take_hdr_append _ _ _ _ (by omega), readHdr_hdr _ _ _ hw.ty_lt hw.size_lt]
        simp only [hnh, hw.ty_ne_end, if_false]
        have hdrop : ((f.data ++ (encFs fs ++ endBytes)).take (m - 16)).drop f.size
            = (encFs fs ++ endBytes).take (m - 16 - f.data.length) := by
          rw [hw.size_eq]; exact drop_take_left _ _ _
        by_cases hv : f.ty = SAVERSION
        · have hs : f.size = 4 := h.ver f (List.mem_cons_self ..) hv
          have h4 : ¬ (f.size > 4) := by omega
          simp only [hv, if_true, h4, if_false, hdrop]
          cases v.f19 <;> simp only [Bool.false_eq_true, if_false, if_true] <;> exact ih hrest _ _ _
        · simp only [hv, if_false]
          by_cases ht : f.ty = T_ID ∨ f.ty = AUTO_INTERVAL ∨ f.ty = AUTO_WALLTIME ∨ f.ty = AUTO_STEP
          · have hs := h.small f (List.mem_cons_self ..) ht
            have h8 : ¬ (f.size > 8) := by omega
            have hc : (!v.f19 && decide (f.size > 8)) = false := by simp [h8]
            simp only [ht, if_true, hc, Bool.false_eq_true, if_false, hdrop]
            exact ih hrest _ _ _
          · simp only [ht, if_false, hdrop]
            exact ih hrest _ _ _

/-- what a first-snapshot file looks like: header, fields, END, then anything (the zero trailer) -/
def firstFile (hdr : Bytes) (fs0 : List Field) (T : Bytes) : Bytes := hdr ++ (encFs fs0 ++ (endBytes ++ T))

theorem take_body (fs0 : List Field) (T : Bytes) (j : Nat) (hj : j < blobLen fs0) :
    (encFs fs0 ++ (endBytes ++ T)).take j = (encFs fs0 ++ endBytes).take j := by
  rw [← List.append_assoc, List.take_append_of_le_length]
  simp [blobLen] at hj ⊢; omega

/-- **first snapshot cut before its END marker is complete**: the reader ends in one of its two error
    exits, exposes no snapshot and never reads out of bounds.  With `v.f2 = false` (pinned source) the
    second exit frees the handle the caller owns. -/
theorem open_first_prefix (v : Variant) (hdr : Bytes) (hh : HdrOK hdr) (fs0 : List Field) (h0 : BlobOK fs0)
    (s0 : ScanOK fs0) (T : Bytes) (k : Nat) (hk : k < 64 + blobLen fs0) :
    openArchive v ((firstFile hdr fs0 T).take k) = .errorOld ∨
    openArchive v ((firstFile hdr fs0 T).take k) = .errorSeek (!v.f2) := by
  unfold openArchive
  -- version scan never leaves its objects
  have hscan : ∃ w, scanVersion v (((firstFile hdr fs0 T).take k).length + 1) ((firstFile hdr fs0 T).take k) 0 = some w := by
    by_cases h16 : k < 16
    · rw [scanVersion, readHdr_short _ (by simp; omega)]; exact ⟨0, rfl⟩
    · obtain ⟨sz, hr, hd⟩ := take_hdr64 hdr (encFs fs0 ++ (endBytes ++ T)) hh k (by omega)
      unfold firstFile
      rw [scanVersion, hr]
      simp only [if_true, hd]
      have h64 : k - 64 < blobLen fs0 := by have := blobLen_ge fs0; omega
      rw [take_body fs0 T _ h64]; exact scanVersion_prefix v fs0 s0 _ _ _
  obtain ⟨w, hw⟩ := hscan
  rw [hw]
  simp only
  by_cases hver : w < 2
  · left; simp [hver]
  · right
    simp only [hver, if_false]
    -- blob 0 is a strict prefix: read error, nothing accepted
    have hidx : (indexLoop v (((firstFile hdr fs0 T).take k).length + 1) 0 0 ((firstFile hdr fs0 T).take k))
        = ⟨[], true, false, false⟩ := by
      rw [indexLoop]
      by_cases h16 : k < 16
      · rw [walkBlob, readHdr_short _ (by simp; omega)]
      · obtain ⟨sz, hr, hd⟩ := take_hdr64 hdr (encFs fs0 ++ (endBytes ++ T)) hh k (by omega)
        unfold firstFile
        have hlen : ((hdr ++ (encFs fs0 ++ (endBytes ++ T))).take k).length + 1 = (((hdr ++ (encFs fs0 ++ (endBytes ++ T))).take k).length) + 1 := rfl
        rw [walkBlob, hr]
        simp only [if_true, hd]
        have h64 : k - 64 < blobLen fs0 := by have := blobLen_ge fs0; omega
        rw [take_body fs0 T _ h64, walkBlob_prefix v fs0 h0 _ h64]
    rw [hidx]
    simp

end RV.Bin
