import RV.Proofs.GravityBase
/-
  The BASIC loop nest (gravity.c:139-247) as an additive step, and its contribution to
  particle `k` rewritten as a sum over the *declarative* source set.
-/
set_option linter.unusedTactic false
set_option linter.unreachableTactic false
set_option linter.unnecessarySeqFocus false
set_option linter.unusedVariables false
set_option linter.unusedSimpArgs false
set_option linter.unusedSectionVars false
namespace RV.Gravity
open RV
variable {K : Type} [Field K]

/-- `d = (gb + x_i) - x_j` -/
def dvec (x : Nat → V3 K) (gb : V3 K) (i j : Nat) : V3 K := (gb + x i) - x j

/-- `dx*dx + dy*dy + dz*dz + softening2` -/
def s2 (x : Nat → V3 K) (soft2 : K) (gb : V3 K) (i j : Nat) : K :=
  (dvec x gb i j).x * (dvec x gb i j).x + (dvec x gb i j).y * (dvec x gb i j).y
    + (dvec x gb i j).z * (dvec x gb i j).z + soft2

/-- what the loop body for the ordered pair `(i,j)` adds to `a_i` … -/
def roleI (pref : K → Nat → Nat → K) (soft2 : K) (m : Nat → K) (x : Nat → V3 K) (gb : V3 K)
    (i j : Nat) : V3 K := ((-(pref (s2 x soft2 gb i j) i j)) * m j) • dvec x gb i j
/-- … and to `a_j` -/
def roleJ (pref : K → Nat → Nat → K) (soft2 : K) (m : Nat → K) (x : Nat → V3 K) (gb : V3 K)
    (i j : Nat) : V3 K := ((pref (s2 x soft2 gb i j) i j) * m i) • dvec x gb i j

/-- contribution of one execution of the loop body for `(i,j)` to slot `k` -/
def pairC (pref : K → Nat → Nat → K) (soft2 : K) (m : Nat → K) (x : Nat → V3 K) (gb : V3 K)
    (both : Bool) (i j k : Nat) : V3 K :=
  (if i = k then roleI pref soft2 m x gb i j else 0)
    + (if both = true ∧ j = k then roleJ pref soft2 m x gb i j else 0)

theorem additive_pairStep (pref : K → Nat → Nat → K) (soft2 : K) {N : Nat} (m : Nat → K)
    (x : Nat → V3 K) (gb : V3 K) (both : Bool) {i j : Nat} (hi : i < N) (hj : j < N) :
    Additive (fun acc => pairStep pref soft2 (mkPs N m x) gb both acc i j)
      (pairC pref soft2 m x gb both i j) := by
  have e : (⟨gb.x + (x i).x - (x j).x, gb.y + (x i).y - (x j).y, gb.z + (x i).z - (x j).z⟩ : V3 K)
      = dvec x gb i j := by ext <;> simp [dvec]
  have es : (gb.x + (x i).x - (x j).x) * (gb.x + (x i).x - (x j).x)
      + (gb.y + (x i).y - (x j).y) * (gb.y + (x i).y - (x j).y)
      + (gb.z + (x i).z - (x j).z) * (gb.z + (x i).z - (x j).z) + soft2 = s2 x soft2 gb i j := by
    simp [s2, dvec]
  cases both
  · have h := additive_addTo (K := K) i ((-(pref (s2 x soft2 gb i j) i j)) * m j) (dvec x gb i j)
    have hf : (fun acc => pairStep pref soft2 (mkPs N m x) gb false acc i j)
        = (fun acc => addTo acc i ((-(pref (s2 x soft2 gb i j) i j)) * m j) (dvec x gb i j)) := by
      funext acc
      simp only [pairStep, mkPs_get m x hi, mkPs_get m x hj, sc_hadd, sc_hsub, sc_hmul, sc_hneg,
        Bool.false_eq_true, if_false, e, es]
    rw [hf]
    exact additive_congr h (by intro k; simp [pairC, roleI])
  · have h1 := additive_addTo (K := K) i ((-(pref (s2 x soft2 gb i j) i j)) * m j) (dvec x gb i j)
    have h2 := additive_addTo (K := K) j ((pref (s2 x soft2 gb i j) i j) * m i) (dvec x gb i j)
    have h := additive_comp h1 h2
    have hf : (fun acc => pairStep pref soft2 (mkPs N m x) gb true acc i j)
        = (fun acc => addTo (addTo acc i ((-(pref (s2 x soft2 gb i j) i j)) * m j) (dvec x gb i j)) j
            ((pref (s2 x soft2 gb i j) i j) * m i) (dvec x gb i j)) := by
      funext acc
      simp only [pairStep, mkPs_get m x hi, mkPs_get m x hj, sc_hadd, sc_hsub, sc_hmul, sc_hneg,
        if_true, e, es]
    rw [hf]
    exact additive_congr h (by intro k; simp [pairC, roleI, roleJ])

/-- loop start indices of BASIC -/
def startI (ignore : Nat) : Nat := if ignore = 0 then 1 else 2
def startJ (ignore : Nat) : Nat := if ignore = 2 then 1 else 0
theorem startI_0 : startI 0 = 1 := rfl
theorem startI_1 : startI 1 = 2 := rfl
theorem startI_2 : startI 2 = 2 := rfl
theorem startJ_0 : startJ 0 = 0 := rfl
theorem startJ_1 : startJ 1 = 0 := rfl
theorem startJ_2 : startJ 2 = 1 := rfl

/-- contribution of one ghost box of BASIC to slot `k`, as the loops run -/
def boxC (pref : K → Nat → Nat → K) (cfg : Cfg K) (N : Nat) (m : Nat → K) (x : Nat → V3 K)
    (gb : V3 K) (k : Nat) : V3 K :=
  (∑ i ∈ Finset.Ico (startI cfg.ignore) cfg.nActive, ∑ j ∈ Finset.Ico (startJ cfg.ignore) i,
      pairC pref (cfg.soft * cfg.soft) m x gb true i j k)
  + (∑ i ∈ Finset.Ico (max cfg.nActive (startI cfg.ignore)) N,
      ∑ j ∈ Finset.Ico (startJ cfg.ignore) cfg.nActive,
        pairC pref (cfg.soft * cfg.soft) m x gb cfg.tpType i j k)

theorem additive_basicBox (pref : K → Nat → Nat → K) (cfg : Cfg K) {N : Nat} (m : Nat → K)
    (x : Nat → V3 K) (gb : V3 K) (hNa : cfg.nActive ≤ N) :
    Additive (fun acc => basicBox pref cfg (mkPs N m x) acc gb) (boxC pref cfg N m x gb) := by
  have hI : (if (cfg.ignore == 0) = true then 1 else 2) = startI cfg.ignore := by
    simp [startI]
  have hJ : (if (cfg.ignore == 2) = true then 1 else 0) = startJ cfg.ignore := by
    simp [startJ]
  unfold basicBox boxC
  simp only [sc_hmul, mkPs_size, hI, hJ]
  refine additive_comp
    (f := fun acc => forRange (startI cfg.ignore) cfg.nActive acc fun acc i =>
      forRange (startJ cfg.ignore) i acc fun acc j =>
        pairStep pref (cfg.soft * cfg.soft) (mkPs N m x) gb true acc i j)
    (g := fun acc => forRange (max cfg.nActive (startI cfg.ignore)) N acc fun acc i =>
      forRange (startJ cfg.ignore) cfg.nActive acc fun acc j =>
        pairStep pref (cfg.soft * cfg.soft) (mkPs N m x) gb cfg.tpType acc i j) ?_ ?_
  · apply additive_forRange
    intro i hi1 hi2
    apply additive_forRange
    intro j hj1 hj2
    exact additive_pairStep pref _ m x gb true (by omega) (by omega)
  · apply additive_forRange
    intro i hi1 hi2
    apply additive_forRange
    intro j hj1 hj2
    exact additive_pairStep pref _ m x gb cfg.tpType (by omega) (by omega)

/-- the whole routine: slot `k` holds the sum over ghost boxes of the box contributions -/
theorem accBasic_get (pref : K → Nat → Nat → K) (cfg : Cfg K) (ghosts : List (V3 K)) {N : Nat}
    (m : Nat → K) (x : Nat → V3 K) (hNa : cfg.nActive ≤ N) {k : Nat} (hk : k < N) :
    (accBasic pref cfg ghosts (mkPs N m x))[k]?
      = some ((ghosts.map fun gb => boxC pref cfg N m x gb k).sum) := by
  have h := additive_foldl ghosts (fun acc gb => basicBox pref cfg (mkPs N m x) acc gb)
    (fun gb => boxC pref cfg N m x gb) (fun gb _ => additive_basicBox pref cfg m x gb hNa)
  have := additive_from_zero h N k hk
  simpa [accBasic] using this

/-! ### from loop ranges to the declarative source set -/

/-- `k` receives from `j` in the `i`-role (the line `particles[i].ax += prefactj*dx`) -/
def SrcI (cfg : Cfg K) (N k j : Nat) : Prop :=
  (startI cfg.ignore ≤ k ∧ k < cfg.nActive ∧ startJ cfg.ignore ≤ j ∧ j < k) ∨
  (max cfg.nActive (startI cfg.ignore) ≤ k ∧ k < N ∧ startJ cfg.ignore ≤ j ∧ j < cfg.nActive)

/-- `k` receives from `j` in the `j`-role (the line `particles[j].ax += prefacti*dx`) -/
def SrcJ (cfg : Cfg K) (N k j : Nat) : Prop :=
  (startI cfg.ignore ≤ j ∧ j < cfg.nActive ∧ startJ cfg.ignore ≤ k ∧ k < j) ∨
  (cfg.tpType = true ∧ max cfg.nActive (startI cfg.ignore) ≤ j ∧ j < N ∧
    startJ cfg.ignore ≤ k ∧ k < cfg.nActive)

instance (cfg : Cfg K) (N k j : Nat) : Decidable (SrcI cfg N k j) := by unfold SrcI; infer_instance
instance (cfg : Cfg K) (N k j : Nat) : Decidable (SrcJ cfg N k j) := by unfold SrcJ; infer_instance

/-- the declarative source set of the property statement: active `j ≠ k`; test particles
    `j` too when `testparticle_type = 1` and `k` is active; minus the pairs named by
    `gravity_ignore_terms` (1: the pair {0,1}; 2: every pair containing particle 0). -/
def Src (Na : Nat) (tp : Bool) (ignore : Nat) (k j : Nat) : Prop :=
  j ≠ k ∧ (j < Na ∨ (tp = true ∧ k < Na)) ∧
  ¬(ignore = 1 ∧ ((k = 0 ∧ j = 1) ∨ (k = 1 ∧ j = 0))) ∧
  ¬(ignore = 2 ∧ (k = 0 ∨ j = 0))

instance (Na : Nat) (tp : Bool) (ignore k j : Nat) : Decidable (Src Na tp ignore k j) := by
  unfold Src; infer_instance

/-- the two loop nests reach exactly the declarative source set, each pair once.
    This is the statement that breaks when a loop bound is off by one. -/
theorem src_iff (cfg : Cfg K) (N k j : Nat) (hNa : cfg.nActive ≤ N) (hig : cfg.ignore ≤ 2)
    (hk : k < N) (hj : j < N) :
    (SrcI cfg N k j ∨ SrcJ cfg N k j ↔ Src cfg.nActive cfg.tpType cfg.ignore k j) ∧
    ¬(SrcI cfg N k j ∧ SrcJ cfg N k j) := by
  unfold SrcI SrcJ Src
  rcases cfg with ⟨Na, tp, ig, soft⟩
  simp only at hNa hig ⊢
  have : ig = 0 ∨ ig = 1 ∨ ig = 2 := by omega
  rcases this with rfl | rfl | rfl <;> cases tp <;>
    simp only [startI_0, startI_1, startI_2, startJ_0, startJ_1, startJ_2, Bool.false_eq_true,
      eq_self_iff_true, true_and, false_and, and_false, or_false] <;> omega

theorem ite_add_ite_of {M : Type} [AddCommMonoid M] (p q r : Prop) [Decidable p] [Decidable q]
    [Decidable r] (u : M) (h : (p ∨ q ↔ r) ∧ ¬(p ∧ q)) :
    (if p then u else 0) + (if q then u else 0) = if r then u else 0 := by
  by_cases hp : p <;> by_cases hq : q <;> by_cases hr : r <;> simp_all

theorem ite_sum_zero {M : Type} [AddCommMonoid M] (p : Prop) [Decidable p] (s : Finset Nat)
    (f : Nat → M) : (if p then ∑ j ∈ s, f j else 0) = ∑ j ∈ s, if p then f j else 0 := by
  split_ifs <;> simp

/-- box contribution in "oriented" declarative form -/
theorem boxC_oriented (pref : K → Nat → Nat → K) (cfg : Cfg K) {N : Nat} (m : Nat → K)
    (x : Nat → V3 K) (gb : V3 K) (hNa : cfg.nActive ≤ N) {k : Nat} (hk : k < N) :
    boxC pref cfg N m x gb k = ∑ j ∈ Finset.range N,
      ((if SrcI cfg N k j then roleI pref (cfg.soft * cfg.soft) m x gb k j else 0)
        + (if SrcJ cfg N k j then roleJ pref (cfg.soft * cfg.soft) m x gb j k else 0)) := by
  unfold boxC pairC
  simp only [Finset.sum_add_distrib]
  -- i-role terms: collapse the outer sum
  have c1 : ∀ (a b : Nat) (d : Nat → Nat) (c : Nat) (U : Nat → Nat → V3 K),
      (∑ i ∈ Finset.Ico a b, ∑ j ∈ Finset.Ico c (d i), if i = k then U i j else 0)
        = if a ≤ k ∧ k < b then ∑ j ∈ Finset.Ico c (d k), U k j else 0 := by
    intro a b d c U
    have : ∀ i, (∑ j ∈ Finset.Ico c (d i), if i = k then U i j else 0)
        = if i = k then ∑ j ∈ Finset.Ico c (d i), U i j else 0 := by
      intro i; split_ifs <;> simp
    simp only [this, Finset.sum_ite_eq', Finset.mem_Ico]
  -- j-role terms: collapse the inner sum
  have c2 : ∀ (a b : Nat) (d : Nat → Nat) (c : Nat) (p : Prop) [Decidable p] (V : Nat → Nat → V3 K),
      (∑ i ∈ Finset.Ico a b, ∑ j ∈ Finset.Ico c (d i), if p ∧ j = k then V i j else 0)
        = ∑ i ∈ Finset.Ico a b, if p ∧ c ≤ k ∧ k < d i then V i k else 0 := by
    intro a b d c p _ V
    apply Finset.sum_congr rfl
    intro i _
    by_cases hp : p
    · simp only [hp, true_and, Finset.sum_ite_eq', Finset.mem_Ico]
    · simp [hp]
  rw [c1, c1, c2, c2]
  rw [ite_sum_zero, ite_sum_zero]
  rw [sum_Ico_ind _ _ N (Nat.le_of_lt hk), sum_Ico_ind _ _ N hNa, sum_Ico_ind _ _ N hNa,
    sum_Ico_ind _ _ N (le_refl N)]
  simp only [← Finset.sum_add_distrib]
  apply Finset.sum_congr rfl
  intro j hj
  have hj' : j < N := Finset.mem_range.mp hj
  unfold SrcI SrcJ
  rcases cfg with ⟨Na, tp, ig, soft⟩
  simp only at hNa ⊢
  simp only [← ite_and]
  rw [add_add_add_comm]
  congr 1
  · apply ite_add_ite_of
    omega
  · apply ite_add_ite_of
    cases tp
    · simp only [Bool.false_eq_true, eq_self_iff_true, true_and, false_and, and_false, or_false,
        not_false_eq_true, and_true]
      omega
    · simp only [eq_self_iff_true, true_and]
      omega

end RV.Gravity
