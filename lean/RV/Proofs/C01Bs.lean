import RV.Model.Gbs
import RV.Gen.C01Bs
/- C01 / BS: the hand model of `extrapolate` and of the sequence/coefficient formulas equals what the translator executed
   from the source text; exactness of the extrapolation on monomials in the abscissa; exactness of the whole GBS row
   scheme for y' = tᵈ (kernel evaluation over ℚ) -/
namespace RV.C01.Bs
open RV.C01 RV.C01.Gen RV.C01.Gbs

theorem sequence_formula : bsSequenceLength = 9 ∧ bsSequence = (List.range 9).map seq ∧ bsCoeffs = (List.range 9).map coeff := by
  decide +kernel

/-- column `j` of the source's linear map = the model applied to the `j`-th unit vector: rows y1, C, D[0..k] -/
def modelColumn (k j : Nat) : List Rat :=
  -- inputs (D[0], …, D[k-1], T): unit vector e_j; the model wants the previous D-column most recent first
  let dsPrev : List Rat := (List.range k).reverse.map (fun i => if i = j then 1 else 0)
  let T : Rat := if j = k then 1 else 0
  let newD := go (coeff k) (xsDown coeff (k - 1)) dsPrev T          -- D[k-1], …, D[0]
  let y1 := T + sumL newD
  [y1, goC (coeff k) (xsDown coeff (k - 1)) dsPrev T] ++ newD.reverse ++ [T]

def transpose (rows : List (List Rat)) (n : Nat) : List (List Rat) :=
  (List.range n).map (fun j => rows.map (fun r => r.getD j 0))

theorem extrapolate_model : ∀ e ∈ bsExtrapolate, 1 ≤ e.1 ∧ e.1 ≤ 8 ∧ e.2.length = e.1 + 3 ∧
    transpose e.2 (e.1 + 1) = (List.range (e.1 + 1)).map (modelColumn e.1) := by decide +kernel

theorem extrapolate_count : bsExtrapolate.map (·.1) = [1, 2, 3, 4, 5, 6, 7, 8] := by decide +kernel

/-- Aitken–Neville with the code's coefficient formula reproduces the value at 0 of every monomial `x^m`, `m ≤ k`
    (1 for m = 0, 0 otherwise), for every row `k ≤ 8`; and not for `m = k + 1` -/
theorem monomials : ∀ k ∈ List.range 9, (∀ m ∈ List.range (k + 1), extrap coeff (fun i => coeff i ^ m) k = if m = 0 then 1 else 0) ∧
    extrap coeff (fun i => coeff i ^ (k + 1)) k ≠ 0 ∧ extrap coeff (fun _ => 0) k = 0 := by decide +kernel

/-- the modified midpoint for y' = f(t) with an even number of substeps is the trapezoidal rule; GBS row `k` integrates
    y' = (t - c)ᵈ exactly for d ≤ 2k + 1 and not for d = 2k + 2 (instances: two intervals) -/
theorem quadrature_exact : ∀ k ∈ List.range 6, ∀ p ∈ [((0 : Rat), (1 : Rat), (0 : Rat)), (-3/7, 5/3, 2/9)],
    (∀ d ∈ List.range (2 * k + 2),
      gbs (fun t _ => (t - p.2.2) ^ d) p.1 p.2.1 (7/10) k =
        7/10 + ((p.1 + p.2.1 - p.2.2) ^ (d + 1) - (p.1 - p.2.2) ^ (d + 1)) / ((d : Rat) + 1)) ∧
    gbs (fun t _ => (t - p.2.2) ^ (2 * k + 2)) p.1 p.2.1 (7/10) k ≠
        7/10 + ((p.1 + p.2.1 - p.2.2) ^ (2 * k + 3) - (p.1 - p.2.2) ^ (2 * k + 3)) / ((2 * k + 2 : Nat) + 1 : Rat) := by
  decide +kernel

/-- a genuinely state-dependent instance: y' = y, one GBS row sequence on [0, 1/2]: rows 0..4 approach e^{1/2} with
    errors decreasing by more than a factor 100 per row -/
theorem linear_ode_rows : ∀ k ∈ List.range 4,
    let e := fun k => gbs (fun _ y => y) 0 (1/2) 1 k - 1648721270700128 / 1000000000000000
    (if e (k+1) < 0 then -(e (k+1)) else e (k+1)) * 100 < (if e k < 0 then -(e k) else e k) := by decide +kernel
end RV.C01.Bs
