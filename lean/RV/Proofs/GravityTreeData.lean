import RV.Proofs.GravityTree
/-
  Monopole data of the tree cells (tree.c:217-283): after one pass of
  `reb_simulation_update_tree_gravity_data_in_cell`, the mass of every cell is the sum of the
  CURRENT masses (read from the particle array) of the particles in its leaves, and
  mass × centre of mass is the sum of their current mass × position.
-/
set_option linter.unusedTactic false
set_option linter.unreachableTactic false
set_option linter.unnecessarySeqFocus false
set_option linter.unusedVariables false
set_option linter.unusedSimpArgs false
set_option linter.unusedSectionVars false
namespace RV.Gravity
open RV
variable {K : Type} [Field K]

/-- mass the particle array holds NOW for the particle of a leaf (the cached leaf value only for a dangling index) -/
def massNow (ps : Array (Body K)) (l : Leaf K) : K :=
  match ps[l.pt]? with
  | some p => p.m
  | none => l.m
def posNow (ps : Array (Body K)) (l : Leaf K) : V3 K :=
  match ps[l.pt]? with
  | some p => p.p
  | none => l.pos

theorem accumKids_eq : ∀ (ks : List (Cell K)) (m : K) (s : V3 K),
    accumKids m s ks = (m + (ks.map cellM).sum, s + (ks.map fun d => cellM d • cellCom d).sum)
  | [], m, s => by simp [accumKids]
  | d :: r, m, s => by
    simp only [accumKids, sc_hadd, sc_hmul]
    rw [accumKids_eq r]
    simp only [List.map_cons, List.sum_cons, Prod.mk.injEq]
    refine ⟨by ring, ?_⟩
    ext <;> simp <;> ring

mutual
/-- every non-leaf cell of the refreshed tree has passed the `m_tot > 0` test -/
def nodesPos (gt0 : K → Bool) : Cell K → Prop
  | .leaf _ _ _ _ => True
  | .node _ m _ kids => gt0 m = true ∧ nodesPosL gt0 kids
def nodesPosL (gt0 : K → Bool) : List (Cell K) → Prop
  | [] => True
  | c :: cs => nodesPos gt0 c ∧ nodesPosL gt0 cs
end

mutual
theorem refresh_leaves (gt0 : K → Bool) (ps : Array (Body K)) :
    ∀ c : Cell K, (leaves (refreshCell gt0 ps c)).map (fun l => (l.pt, l.remote))
      = (leaves c).map (fun l => (l.pt, l.remote))
  | .leaf p r m com => by
    simp only [refreshCell]
    cases ps[p]? <;> simp [leaves]
  | .node w m com kids => by
    simp only [refreshCell]
    split <;> simp only [leaves] <;> exact refreshL_leaves gt0 ps kids
theorem refreshL_leaves (gt0 : K → Bool) (ps : Array (Body K)) :
    ∀ cs : List (Cell K), (leavesL (refreshCells gt0 ps cs)).map (fun l => (l.pt, l.remote))
      = (leavesL cs).map (fun l => (l.pt, l.remote))
  | [] => by simp [refreshCells, leavesL]
  | c :: cs => by
    simp only [refreshCells, leavesL, List.map_append]
    rw [refresh_leaves gt0 ps c, refreshL_leaves gt0 ps cs]
end

mutual
theorem refresh_mass (gt0 : K → Bool) (ps : Array (Body K)) :
    ∀ c : Cell K, cellM (refreshCell gt0 ps c) = ((leaves c).map (massNow ps)).sum
  | .leaf p r m com => by
    simp only [refreshCell, leaves, List.map_cons, List.map_nil, List.sum_cons, List.sum_nil,
      add_zero, massNow]
    cases ps[p]? <;> simp [cellM]
  | .node w m com kids => by
    simp only [refreshCell, leaves, accumKids_eq, sc_zero, zero_add]
    have := refreshL_mass gt0 ps kids
    split <;> simp only [cellM] <;> exact this
theorem refreshL_mass (gt0 : K → Bool) (ps : Array (Body K)) :
    ∀ cs : List (Cell K), ((refreshCells gt0 ps cs).map cellM).sum = ((leavesL cs).map (massNow ps)).sum
  | [] => by simp [refreshCells, leavesL]
  | c :: cs => by
    simp only [refreshCells, leavesL, List.map_cons, List.sum_cons, List.map_append, List.sum_append]
    rw [refresh_mass gt0 ps c, refreshL_mass gt0 ps cs]
end

mutual
theorem refresh_moment (gt0 : K → Bool) (hgt : ∀ m, gt0 m = true → m ≠ 0) (ps : Array (Body K)) :
    ∀ c : Cell K, nodesPos gt0 (refreshCell gt0 ps c) →
      cellM (refreshCell gt0 ps c) • cellCom (refreshCell gt0 ps c)
        = ((leaves c).map fun l => massNow ps l • posNow ps l).sum
  | .leaf p r m com, _ => by
    simp only [refreshCell, leaves, List.map_cons, List.map_nil, List.sum_cons, List.sum_nil,
      add_zero, massNow, posNow]
    cases ps[p]? <;> simp [cellM, cellCom]
  | .node w m com kids, h => by
    simp only [refreshCell, accumKids_eq, sc_zero, zero_add, V3.model_zero, sc_hdiv] at h ⊢
    split at h
    · rename_i hpos
      simp only [nodesPos] at h
      have hne := hgt _ hpos
      rw [if_pos hpos]
      simp only [leaves]
      rw [← refreshL_moment gt0 hgt ps kids h.2]
      generalize ((refreshCells gt0 ps kids).map fun d => cellM d • cellCom d).sum = S
      generalize ((refreshCells gt0 ps kids).map cellM).sum = M at hne
      show M • (⟨S.x / M, S.y / M, S.z / M⟩ : V3 K) = S
      ext <;> simp <;> field_simp
    · rename_i hneg
      simp only [nodesPos] at h
      exact absurd h.1 hneg
theorem refreshL_moment (gt0 : K → Bool) (hgt : ∀ m, gt0 m = true → m ≠ 0) (ps : Array (Body K)) :
    ∀ cs : List (Cell K), nodesPosL gt0 (refreshCells gt0 ps cs) →
      ((refreshCells gt0 ps cs).map fun d => cellM d • cellCom d).sum
        = ((leavesL cs).map fun l => massNow ps l • posNow ps l).sum
  | [], _ => by simp [refreshCells, leavesL]
  | c :: cs, h => by
    simp only [refreshCells, nodesPosL] at h
    simp only [refreshCells, leavesL, List.map_cons, List.sum_cons, List.map_append, List.sum_append]
    rw [refresh_moment gt0 hgt ps c h.1, refreshL_moment gt0 hgt ps cs h.2]
end

end RV.Gravity
