import RV.Model.Advertised
import RV.Gen.C01Trace
import RV.Gen.C01Mercurius
/- C01 / TRACE on its splitting path (no pericentre flag in any of the three peri modes; pericentre flag with PARTIAL_BS):
   the schedule of reb_integrator_trace_part1/part2/reb_integrator_trace_step -/
namespace RV.C01.Trace
open RV.C01 RV.C01.Gen RV.C01.Adv

def dh : List Op := [⟨2, 0, 0⟩, ⟨1, 1/2, 0⟩, ⟨3, 1/2, 0⟩, ⟨0, 1, 1⟩, ⟨3, 1/2, 0⟩, ⟨2, 0, 0⟩, ⟨1, 1/2, 0⟩]

theorem counts : tracePeriModes = [("REB_TRACE_PERI_PARTIAL_BS", 0), ("REB_TRACE_PERI_FULL_BS", 1), ("REB_TRACE_PERI_FULL_IAS15", 2)] ∧
    traceStep.map (·.1) = [(0, 0, 0), (0, 0, 1), (0, 1, 0), (0, 1, 1), (1, 0, 0), (1, 0, 1), (2, 0, 0), (2, 0, 1)] ∧
    traceJumpNoop = [(0, false), (1, true)] := by decide +kernel

/-- without pericentre flag all three peri modes execute kick ½ (with its own force evaluation), jump ½, Kepler + centre of
    mass 1, jump ½, kick ½: consistent, palindrome, fresh, jump sum 1, order exactly 2; the same word as MERCURIUS' safe step -/
theorem splitting_step : ∀ pm ∈ [0, 1, 2], ∀ s ∈ traceStep.lookup (pm, 0, 0), s = dh ∧ Consistent s 0 ∧ Palindrome s ∧ Fresh s ∧
    jumpSum s = 1 ∧ Quadrature s 2 0 ∧ WordOrder s [2, 2, 2] 0 0 ∧ ¬ WordOrder s [3, 3, 2] 0 (1/100) ∧ norm s = norm merc_safe := by
  decide +kernel

/-- pericentre flag with PARTIAL_BS: the same scheme without jump steps (the jump step returns immediately) -/
theorem pericentre_partial : ∀ s ∈ traceStep.lookup (0, 1, 0), s = [⟨2, 0, 0⟩, ⟨1, 1/2, 0⟩, ⟨0, 1, 1⟩, ⟨2, 0, 0⟩, ⟨1, 1/2, 0⟩] ∧
    Consistent s 0 ∧ Palindrome s ∧ Fresh s ∧ WordOrder s [2, 2, 2] 0 0 := by decide +kernel

/-- a rejected first attempt: the backup is restored and exactly the same schedule is executed again -/
theorem rejected_attempt : ∀ e ∈ traceStep, e.1.2.2 = 1 → ∀ s0 ∈ traceStep.lookup (e.1.1, e.1.2.1, 0),
    e.2 = s0 ++ [⟨5, 0, 0⟩] ++ s0 := by decide +kernel
end RV.C01.Trace
