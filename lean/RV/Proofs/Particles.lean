import RV.Model.Particles
/-
  Lemmas about RV/Model/Particles.lean (property C14): storage growth, the shift loop,
  binary search (soundness, absence of out-of-bounds reads, completeness on a sorted table),
  the rebuild loop with its zero-hash special case, lookup by hash for an arbitrary stale
  table, and the list identities the refinement proof needs.  Core Lean only (no Mathlib).
-/
set_option linter.unusedVariables false
namespace RV.Particles


/-! ### storage growth -/

theorem grow_spec (mem : List P) (na n : Nat) (h : mem.length = na) :
    ∃ k, grow mem na n = (mem ++ List.replicate k P.zero, na + k) ∧ n < na + k := by
  fun_induction grow mem na n with
  | case1 mem na hle na' ih =>
    have hna : na ≤ na' := by simp only [na']; split <;> omega
    have hl : (mem ++ List.replicate (na' - na) P.zero).length = na' := by
      simp [List.length_append, List.length_replicate]; omega
    obtain ⟨k, hk, hlt⟩ := ih hl
    refine ⟨(na' - na) + k, ?_, ?_⟩
    · rw [hk]; simp [List.append_assoc, List.replicate_append_replicate]; omega
    · omega
  | case2 mem na hgt => exact ⟨0, by simp, by omega⟩

/-! ### the shift loop of the sorted removal -/

theorem shiftLoop_spec {α : Type} : ∀ (cnt : Nat) (mem : List α) (j : Nat), j + cnt < mem.length →
    ∃ m', shiftLoop mem j cnt = some m' ∧ m'.length = mem.length ∧
      ∀ k, m'[k]? = if j ≤ k ∧ k < j + cnt then mem[k + 1]? else mem[k]? := by
  intro cnt
  induction cnt with
  | zero => intro mem j h; exact ⟨mem, rfl, rfl, by intro k; simp; omega⟩
  | succ cnt ih =>
    intro mem j h
    have h1 : j + 1 < mem.length := by omega
    obtain ⟨m', e1, e2, e3⟩ := ih (mem.set j mem[j + 1]) (j + 1) (by simp; omega)
    refine ⟨m', ?_, ?_, ?_⟩
    · simp only [shiftLoop, List.getElem?_eq_getElem h1]
      rw [if_pos (by omega)]; exact e1
    · simpa using e2
    · intro k
      rw [e3 k]
      simp only [List.getElem?_set]
      by_cases hk : j + 1 ≤ k ∧ k < j + 1 + cnt
      · rw [if_pos hk, if_neg (by omega), if_pos (by omega)]
      · rw [if_neg hk]
        by_cases hjk : j = k
        · subst hjk; rw [if_pos rfl, if_pos (by omega), if_pos (by omega)]; simp [h1]
        · rw [if_neg hjk, if_neg (by omega)]



/-! ### binary search -/

theorem bsearch_hit (t : List Entry) (h N : Nat) (l r : Int) (i : Nat)
    (hb : bsearch t h N l r = .hit i) : ∃ e ∈ t, e.hash = h ∧ e.index = i ∧ i < N := by
  fun_induction bsearch t h N l r with
  | case1 => simp at hb
  | case2 => simp at hb
  | case3 l r _ m _ e _ _ ih => exact ih hb
  | case4 l r _ m _ e _ _ _ ih => exact ih hb
  | case5 l r _ m _ e he h1 h2 h3 =>
    simp at hb
    exact ⟨e, List.mem_of_getElem? he, by omega, hb, by omega⟩
  | case6 => simp at hb
  | case7 => simp at hb

theorem bsearch_no_fault (t : List Entry) (h N : Nat) (l r : Int)
    (hl : 0 ≤ l) (hr : r < t.length) : bsearch t h N l r ≠ .fault := by
  fun_induction bsearch t h N l r with
  | case1 l r hlr m hm => omega
  | case2 l r hlr m hm hnone =>
    rw [List.getElem?_eq_none_iff] at hnone; omega
  | case3 l r hlr m _ e _ _ ih => exact ih (by omega) hr
  | case4 l r hlr m _ e _ _ _ ih => exact ih hl (by omega)
  | case5 => simp
  | case6 => simp
  | case7 => simp

def SortedH (t : List Entry) : Prop := t.Pairwise (fun a b => a.hash ≤ b.hash)

theorem sortedH_get {t : List Entry} (hs : SortedH t) {i j : Nat} {a b : Entry}
    (ha : t[i]? = some a) (hb : t[j]? = some b) (hij : i ≤ j) : a.hash ≤ b.hash := by
  obtain ⟨hi, rfl⟩ := List.getElem?_eq_some_iff.mp ha
  obtain ⟨hj, rfl⟩ := List.getElem?_eq_some_iff.mp hb
  by_cases h : i = j
  · subst h; omega
  · exact (List.pairwise_iff_getElem.mp hs) i j hi hj (by omega)

/-- on a sorted table whose entries with key `h` all have a live index, the search finds
    one as soon as one lies in the window -/
theorem bsearch_complete (t : List Entry) (h N : Nat) (l r : Int) (hs : SortedH t)
    (hidx : ∀ e ∈ t, e.hash = h → e.index < N)
    (hl : 0 ≤ l) (hr : r < t.length)
    (hin : ∀ (k : Nat) e, t[k]? = some e → e.hash = h → l ≤ k ∧ (k : Int) ≤ r)
    (hex : ∃ e ∈ t, e.hash = h) : ∃ i, bsearch t h N l r = .hit i := by
  fun_induction bsearch t h N l r with
  | case1 l r hlr m hm => omega
  | case2 l r hlr m hm hnone => rw [List.getElem?_eq_none_iff] at hnone; omega
  | case3 l r hlr m hm e he hlt ih =>
    apply ih (by omega) hr
    intro k e' hk hh
    have := hin k e' hk hh
    refine ⟨?_, this.2⟩
    by_cases hkm : k ≤ m.toNat
    · have := sortedH_get hs hk he hkm; omega
    · omega
  | case4 l r hlr m hm e he _ hgt ih =>
    apply ih hl (by omega)
    intro k e' hk hh
    have := hin k e' hk hh
    refine ⟨this.1, ?_⟩
    by_cases hkm : m.toNat ≤ k
    · have := sortedH_get hs he hk hkm; omega
    · omega
  | case5 l r _ m _ e he h1 h2 h3 => exact ⟨_, rfl⟩
  | case6 l r _ m _ e he h1 h2 h3 =>
    exact absurd (hidx e (List.mem_of_getElem? he) (by omega)) h3
  | case7 l r hlr =>
    obtain ⟨e, hm, hh⟩ := hex
    obtain ⟨k, hk⟩ := List.getElem?_of_mem hm
    have := hin k e hk hh
    omega



/-! ### the rebuild loop -/

/-- invariant of `rebuildLoop` after the particles `pre` have been visited -/
structure LoopInv (pre : List P) (t : List Entry) (zh : Option Nat) : Prop where
  sound : ∀ (k : Nat) (e : Entry), t[k]? = some e → ∃ p : P, pre[e.index]? = some p ∧ p.hash = e.hash
  complete : ∀ (j : Nat) (p : P), pre[j]? = some p → ∃ (k : Nat) (e : Entry), t[k]? = some e ∧ e.hash = p.hash
  zero_some : ∀ z : Nat, zh = some z → ∃ e : Entry, t[z]? = some e ∧ e.hash = 0
  zero_none : zh = none → t.length = pre.length
  len : t.length ≤ pre.length
  zero_unique : ∀ (k : Nat) (e : Entry), t[k]? = some e → e.hash = 0 → zh = some k
  zero_last : ∀ z : Nat, zh = some z → ∃ e : Entry, t[z]? = some e ∧
    ∀ (j : Nat) (p : P), pre[j]? = some p → p.hash = 0 → j ≤ e.index

theorem LoopInv.init : LoopInv [] [] none :=
  ⟨by simp, by simp, by simp, by simp, by simp, by simp, by simp⟩

theorem getElem?_snoc_cases {α} (l : List α) (a : α) (k : Nat) (x : α)
    (h : (l ++ [a])[k]? = some x) : (k < l.length ∧ l[k]? = some x) ∨ (k = l.length ∧ x = a) := by
  rw [List.getElem?_append] at h
  by_cases hk : k < l.length
  · rw [if_pos hk] at h; exact Or.inl ⟨hk, h⟩
  · rw [if_neg hk] at h
    have : k - l.length = 0 := by
      by_cases h0 : k - l.length = 0
      · exact h0
      · rw [List.getElem?_eq_none_iff.mpr (by simp; omega)] at h; simp at h
    rw [this] at h; simp at h
    exact Or.inr ⟨by omega, h.symm⟩

theorem getElem?_snoc_left {α} (l : List α) (a : α) (k : Nat) (x : α) (h : l[k]? = some x) :
    (l ++ [a])[k]? = some x := by
  have hk := (List.getElem?_eq_some_iff.mp h).1
  rw [List.getElem?_append, if_pos hk]; exact h

theorem getElem?_snoc_last {α} (l : List α) (a : α) : (l ++ [a])[l.length]? = some a := by
  simp

theorem rebuildLoop_spec : ∀ (ps pre : List P) (t : List Entry) (zh : Option Nat),
    LoopInv pre t zh →
    ∃ t' zh', rebuildLoop ps pre.length t zh = some t' ∧ LoopInv (pre ++ ps) t' zh' := by
  intro ps
  induction ps with
  | nil => intro pre t zh h; exact ⟨t, zh, rfl, by simpa using h⟩
  | cons p ps ih =>
    intro pre t zh h
    have hlen : (pre ++ [p]).length = pre.length + 1 := by simp
    have happ : pre ++ p :: ps = (pre ++ [p]) ++ ps := by simp
    -- the table after visiting `p`, in each of the three branches
    suffices hstep : ∃ t1 zh1, LoopInv (pre ++ [p]) t1 zh1 ∧
        rebuildLoop (p :: ps) pre.length t zh = rebuildLoop ps (pre.length + 1) t1 zh1 by
      obtain ⟨t1, zh1, hinv, heq⟩ := hstep
      obtain ⟨t', zh', e1, e2⟩ := ih (pre ++ [p]) t1 zh1 hinv
      rw [hlen] at e1
      exact ⟨t', zh', by rw [heq, e1], by rw [happ]; exact e2⟩
    by_cases hz : p.hash = 0
    · cases zh with
      | none =>
        have htl : t.length = pre.length := h.zero_none rfl
        refine ⟨t ++ [⟨p.hash, pre.length⟩], some pre.length, ?_, ?_⟩
        · refine ⟨?_, ?_, ?_, by simp, by simp; omega, ?_, ?_⟩
          · intro k e hk
            rcases getElem?_snoc_cases _ _ _ _ hk with ⟨_, hk'⟩ | ⟨_, rfl⟩
            · obtain ⟨q, hq, hh⟩ := h.sound k e hk'
              exact ⟨q, getElem?_snoc_left _ _ _ _ hq, hh⟩
            · exact ⟨p, by simp, rfl⟩
          · intro j q hj
            rcases getElem?_snoc_cases _ _ _ _ hj with ⟨_, hj'⟩ | ⟨_, rfl⟩
            · obtain ⟨k, e, hk, hh⟩ := h.complete j q hj'
              exact ⟨k, e, getElem?_snoc_left _ _ _ _ hk, hh⟩
            · exact ⟨t.length, _, getElem?_snoc_last _ _, rfl⟩
          · intro z hzz
            simp at hzz; subst hzz
            exact ⟨_, by rw [← htl]; exact getElem?_snoc_last _ _, hz⟩
          · intro k e hk he0
            rcases getElem?_snoc_cases _ _ _ _ hk with ⟨_, hk'⟩ | ⟨hkl, _⟩
            · have := h.zero_unique k e hk' he0; simp at this
            · rw [hkl, htl]
          · intro z hzz
            simp at hzz; subst hzz
            refine ⟨⟨p.hash, pre.length⟩, by rw [← htl]; exact getElem?_snoc_last _ _, ?_⟩
            intro j q hj _
            have := (List.getElem?_eq_some_iff.mp hj).1
            simp at this; simp; omega
        · simp only [rebuildLoop, if_pos hz, tblWrite]
          rw [← htl, if_neg (Nat.lt_irrefl _), if_pos rfl]
          simp
      | some z =>
        obtain ⟨e, he, he0⟩ := h.zero_some z rfl
        have hzl : z < t.length := (List.getElem?_eq_some_iff.mp he).1
        refine ⟨t.set z ⟨e.hash, pre.length⟩, some z, ?_, ?_⟩
        · refine ⟨?_, ?_, ?_, by simp, by simp; have := h.len; omega, ?_, ?_⟩
          · intro k e' hk
            rw [List.getElem?_set] at hk
            by_cases hzk : z = k
            · rw [if_pos hzk, if_pos hzl] at hk
              simp at hk; subst hk
              exact ⟨p, by simp, by simp [hz, he0]⟩
            · rw [if_neg hzk] at hk
              obtain ⟨q, hq, hh⟩ := h.sound k e' hk
              exact ⟨q, getElem?_snoc_left _ _ _ _ hq, hh⟩
          · intro j q hj
            have key : ∀ (k : Nat) (e' : Entry), t[k]? = some e' → ∃ (k2 : Nat) (e2 : Entry), (t.set z ⟨e.hash, pre.length⟩)[k2]? = some e2 ∧ e2.hash = e'.hash := by
              intro k e' hk
              by_cases hzk : z = k
              · subst hzk
                refine ⟨z, ⟨e.hash, pre.length⟩, by rw [List.getElem?_set, if_pos rfl, if_pos hzl], ?_⟩
                rw [he] at hk; simp at hk; subst hk; rfl
              · exact ⟨k, e', by rw [List.getElem?_set, if_neg hzk]; exact hk, rfl⟩
            rcases getElem?_snoc_cases _ _ _ _ hj with ⟨_, hj'⟩ | ⟨_, rfl⟩
            · obtain ⟨k, e', hk, hh⟩ := h.complete j q hj'
              obtain ⟨k2, e2, h2, hh2⟩ := key k e' hk
              exact ⟨k2, e2, h2, by omega⟩
            · obtain ⟨k2, e2, h2, hh2⟩ := key z e he
              exact ⟨k2, e2, h2, by omega⟩
          · intro z' hzz
            simp at hzz; subst hzz
            exact ⟨⟨e.hash, pre.length⟩, by rw [List.getElem?_set, if_pos rfl, if_pos hzl], he0⟩
          · intro k e' hk he0'
            rw [List.getElem?_set] at hk
            by_cases hzk : z = k
            · rw [hzk]
            · rw [if_neg hzk] at hk
              exact h.zero_unique k e' hk he0'
          · intro z' hzz
            simp at hzz; subst hzz
            refine ⟨⟨e.hash, pre.length⟩, by rw [List.getElem?_set, if_pos rfl, if_pos hzl], ?_⟩
            intro j q hj _
            have := (List.getElem?_eq_some_iff.mp hj).1
            simp at this; simp; omega
        · simp only [rebuildLoop, if_pos hz, he]
    · refine ⟨t ++ [⟨p.hash, pre.length⟩], zh, ?_, ?_⟩
      · refine ⟨?_, ?_, ?_, ?_, by simp; have := h.len; omega, ?_, ?_⟩
        · intro k e hk
          rcases getElem?_snoc_cases _ _ _ _ hk with ⟨_, hk'⟩ | ⟨_, rfl⟩
          · obtain ⟨q, hq, hh⟩ := h.sound k e hk'
            exact ⟨q, getElem?_snoc_left _ _ _ _ hq, hh⟩
          · exact ⟨p, by simp, rfl⟩
        · intro j q hj
          rcases getElem?_snoc_cases _ _ _ _ hj with ⟨_, hj'⟩ | ⟨_, rfl⟩
          · obtain ⟨k, e, hk, hh⟩ := h.complete j q hj'
            exact ⟨k, e, getElem?_snoc_left _ _ _ _ hk, hh⟩
          · exact ⟨t.length, _, getElem?_snoc_last _ _, rfl⟩
        · intro z hzz
          obtain ⟨e, he, he0⟩ := h.zero_some z hzz
          exact ⟨e, getElem?_snoc_left _ _ _ _ he, he0⟩
        · intro hn; simp; exact h.zero_none hn
        · intro k e hk he0
          rcases getElem?_snoc_cases _ _ _ _ hk with ⟨_, hk'⟩ | ⟨_, rfl⟩
          · exact h.zero_unique k e hk' he0
          · exact absurd he0 hz
        · intro z hzz
          obtain ⟨e, he, hlast⟩ := h.zero_last z hzz
          refine ⟨e, getElem?_snoc_left _ _ _ _ he, ?_⟩
          intro j q hj hq0
          rcases getElem?_snoc_cases _ _ _ _ hj with ⟨_, hj'⟩ | ⟨_, rfl⟩
          · exact hlast j q hj' hq0
          · exact absurd hq0 hz
      · simp only [rebuildLoop, if_neg hz]

/-! ### lookup by hash -/

/-- the contract of C's `qsort` with `compare_hash` -/
def Sorter.Valid (s : Sorter) : Prop := ∀ l, (s.f l).Perm l ∧ SortedH (s.f l)

/-- what a freshly rebuilt table knows about the live particles -/
structure Fresh (c : State) (t : List Entry) : Prop where
  sorted : SortedH t
  sound : ∀ e ∈ t, ∃ p : P, (c.mem.take c.N)[e.index]? = some p ∧ p.hash = e.hash
  complete : ∀ (j : Nat) (p : P), (c.mem.take c.N)[j]? = some p → ∃ e ∈ t, e.hash = p.hash
  zero_last : ∀ e ∈ t, e.hash = 0 → ∀ (j : Nat) (p : P), (c.mem.take c.N)[j]? = some p → p.hash = 0 → j ≤ e.index

theorem rebuild_spec (srt : Sorter) (hv : srt.Valid) (c : State) :
    ∃ t, rebuild srt c = some { c with lookup := t } ∧ Fresh c t := by
  obtain ⟨t', zh', e1, inv⟩ := rebuildLoop_spec (c.mem.take c.N) [] [] none LoopInv.init
  simp only [List.length_nil, List.nil_append] at e1 inv
  obtain ⟨hp, hs⟩ := hv t'
  refine ⟨srt.f t', by simp [rebuild, e1], hs, ?_, ?_, ?_⟩
  · intro e he
    obtain ⟨k, hk⟩ := List.getElem?_of_mem (hp.mem_iff.mp he)
    exact inv.sound k e hk
  · intro j p hj
    obtain ⟨k, e, hk, hh⟩ := inv.complete j p hj
    exact ⟨e, hp.mem_iff.mpr (List.mem_of_getElem? hk), hh⟩
  · intro e he he0 j p hj hp0
    obtain ⟨k, hk⟩ := List.getElem?_of_mem (hp.mem_iff.mp he)
    have hz := inv.zero_unique k e hk he0
    obtain ⟨e', he', hl⟩ := inv.zero_last k hz
    rw [hk] at he'; simp at he'; subst he'
    exact hl j p hj hp0

theorem search_no_fault (t : List Entry) (h N : Nat) : search t h N ≠ .fault :=
  bsearch_no_fault t h N 0 _ (by omega) (by omega)

/-- the answer of a lookup, judged against the live particles only -/
def LookupRes (c : State) (h : Nat) : Out → Prop
  | .found i => i < c.N ∧ ∃ p : P, c.mem[i]? = some p ∧ p.hash = h
  | .notFound => ∀ (i : Nat) (p : P), i < c.N → c.mem[i]? = some p → p.hash ≠ h
  | _ => False

theorem take_get {c : State} {i : Nat} {p : P} (h : (c.mem.take c.N)[i]? = some p) :
    i < c.N ∧ c.mem[i]? = some p := by
  rw [List.getElem?_take] at h
  by_cases hi : i < c.N
  · rw [if_pos hi] at h; exact ⟨hi, h⟩
  · rw [if_neg hi] at h; simp at h

theorem lookupAgain_spec (srt : Sorter) (hv : srt.Valid) (c : State) (h : Nat) :
    (∃ t, (lookupAgain srt c h).1 = { c with lookup := t }) ∧ LookupRes c h (lookupAgain srt c h).2 := by
  obtain ⟨t, e1, fr⟩ := rebuild_spec srt hv c
  simp only [lookupAgain, e1]
  cases hs : search t h c.N with
  | fault => exact absurd hs (search_no_fault _ _ _)
  | hit i =>
    refine ⟨⟨t, rfl⟩, ?_⟩
    obtain ⟨e, hm, hh, hi, hlt⟩ := bsearch_hit _ _ _ _ _ _ hs
    obtain ⟨p, hp, hph⟩ := fr.sound e hm
    have := take_get hp
    exact ⟨hlt, p, by rw [← hi]; exact this.2, by omega⟩
  | miss =>
    refine ⟨⟨t, rfl⟩, ?_⟩
    intro i p hi hp heq
    have hp' : (c.mem.take c.N)[i]? = some p := by rw [List.getElem?_take, if_pos hi]; exact hp
    obtain ⟨e, hm, hh⟩ := fr.complete i p hp'
    have : ∃ j, bsearch t h c.N 0 ((t.length : Int) - 1) = .hit j := by
      apply bsearch_complete t h c.N 0 _ fr.sorted
      · intro e' hm' _
        obtain ⟨q, hq, _⟩ := fr.sound e' hm'
        exact (take_get hq).1
      · omega
      · omega
      · intro k e' hk _
        have := (List.getElem?_eq_some_iff.mp hk).1
        omega
      · exact ⟨e, hm, by omega⟩
    obtain ⟨j, hj⟩ := this
    unfold search at hs
    rw [hs] at hj; simp at hj

/-- after a rebuild, hash 0 denotes the LAST particle with hash 0 -/
theorem lookupAgain_zero_last (srt : Sorter) (hv : srt.Valid) (c : State) (i : Nat)
    (hf : (lookupAgain srt c 0).2 = Out.found i) (j : Nat) (p : P) (hj : j < c.N)
    (hp : c.mem[j]? = some p) (hp0 : p.hash = 0) : j ≤ i := by
  obtain ⟨t, e1, fr⟩ := rebuild_spec srt hv c
  simp only [lookupAgain, e1] at hf
  cases hs : search t 0 c.N with
  | fault => rw [hs] at hf; simp at hf
  | miss => rw [hs] at hf; simp at hf
  | hit i' =>
    rw [hs] at hf; simp at hf; subst hf
    obtain ⟨e, hm, hh, hi, _⟩ := bsearch_hit _ _ _ _ _ _ hs
    have := fr.zero_last e hm hh j p (by rw [List.getElem?_take, if_pos hj]; exact hp) hp0
    omega

theorem particleByHash_spec (srt : Sorter) (hv : srt.Valid) (c : State) (hN : c.N ≤ c.mem.length) (h : Nat) :
    ((particleByHash srt c h).1 = c ∨ ∃ t, (particleByHash srt c h).1 = { c with lookup := t }) ∧
    LookupRes c h (particleByHash srt c h).2 := by
  have ha := lookupAgain_spec srt hv c h
  unfold particleByHash
  cases hs : search c.lookup h c.N with
  | fault => exact absurd hs (search_no_fault _ _ _)
  | miss => exact ⟨Or.inr ha.1, ha.2⟩
  | hit i =>
    obtain ⟨e, hm, hh, hi, hlt⟩ := bsearch_hit _ _ _ _ _ _ hs
    have hil : i < c.mem.length := by omega
    simp only [List.getElem?_eq_getElem hil]
    by_cases hp : c.mem[i].hash = h
    · rw [if_pos hp]
      exact ⟨Or.inl rfl, hlt, c.mem[i], List.getElem?_eq_getElem hil, hp⟩
    · rw [if_neg hp]
      exact ⟨Or.inr ha.1, ha.2⟩

/-! ### list facts used by the refinement -/

theorem take_set_same (l : List P) (n : Nat) (p : P) : (l.set n p).take n = l.take n := by
  apply List.ext_getElem?; intro i
  simp only [List.getElem?_take, List.getElem?_set]
  by_cases h : i < n
  · rw [if_pos h, if_pos h, if_neg (by omega)]
  · rw [if_neg h, if_neg h]

theorem take_succ_set_append (mem r : List P) (n : Nat) (p : P) (h1 : n ≤ mem.length)
    (h2 : n < (mem ++ r).length) : ((mem ++ r).set n p).take (n + 1) = mem.take n ++ [p] := by
  apply List.ext_getElem?; intro i
  simp only [List.getElem?_take, List.getElem?_set, List.getElem?_append, List.length_take]
  have hm : min n mem.length = n := by omega
  rw [hm]
  by_cases hi : i < n
  · rw [if_pos (by omega), if_neg (by omega), if_pos (by omega), if_pos hi, if_pos hi]
  · by_cases hin : i = n
    · subst hin
      rw [if_pos (by omega), if_pos rfl, if_pos h2, if_neg (by omega)]; simp
    · rw [if_neg (by omega), if_neg (by omega)]
      have : i - n ≠ 0 := by omega
      simp; omega

theorem take_append_le (mem r : List P) (n : Nat) (h : n ≤ mem.length) :
    (mem ++ r).take n = mem.take n := by
  apply List.ext_getElem?; intro i
  simp only [List.getElem?_take, List.getElem?_append]
  by_cases hi : i < n
  · rw [if_pos hi, if_pos hi, if_pos (by omega)]
  · rw [if_neg hi, if_neg hi]

theorem take_sorted_remove (mem m' : List P) (n idx : Nat) (hn : n + 1 ≤ mem.length) (hidx : idx ≤ n)
    (hl : m'.length = mem.length)
    (hk : ∀ k, m'[k]? = if idx ≤ k ∧ k < idx + (n - idx) then mem[k + 1]? else mem[k]?) :
    m'.take n = (mem.take (n + 1)).eraseIdx idx := by
  apply List.ext_getElem?; intro i
  simp only [List.getElem?_take, List.getElem?_eraseIdx, hk]
  by_cases hi : i < n
  · rw [if_pos hi]
    by_cases hii : i < idx
    · rw [if_neg (by omega), if_pos hii, if_pos (by omega)]
    · rw [if_pos (by omega), if_neg hii, if_pos (by omega)]
  · rw [if_neg hi, if_neg (by omega), if_neg (by omega)]

theorem take_unsorted_remove (mem : List P) (n idx : Nat) (last : P) (hn : n + 1 ≤ mem.length)
    (hidx : idx ≤ n) (hlast : mem[n]? = some last) :
    (mem.set idx last).take n = ((mem.take (n + 1)).set idx last).dropLast := by
  apply List.ext_getElem?; intro i
  simp only [List.getElem?_take, List.getElem?_dropLast, List.getElem?_set, List.length_set, List.length_take]
  have hm : min (n + 1) mem.length = n + 1 := by omega
  rw [hm]
  by_cases hi : i < n <;> by_cases hii : idx = i <;> simp [hi, hii]
  · rw [if_pos (by omega), if_pos (by omega)]
  · omega

theorem take_flag (mem : List P) (n idx : Nat) (p : P) (f : P → P) (hn : n ≤ mem.length) (hidx : idx < n)
    (hp : mem[idx]? = some p) : (mem.set idx (f p)).take n = (mem.take n).modify idx f := by
  apply List.ext_getElem?; intro i
  simp only [List.getElem?_take, List.getElem?_modify, List.getElem?_set]
  by_cases hi : i < n
  · rw [if_pos hi, if_pos hi]
    by_cases hii : idx = i
    · subst hii; rw [if_pos rfl, if_pos (by omega), hp]; simp
    · rw [if_neg hii]; cases mem[i]? <;> simp [hii]
  · rw [if_neg hi, if_neg hi]; simp

/-- what the MERCURIUS `dcrit` shift loop leaves behind, as a list -/
theorem shift_eq_erased {α : Type} (l d : List α) (m j : Nat) (hm : m ≤ l.length) (hj : j < m)
    (hl : d.length = l.length)
    (hk : ∀ k, d[k]? = if j ≤ k ∧ k < j + (m - 1 - j) then l[k + 1]? else l[k]?) :
    d = (l.take m).eraseIdx j ++ l.drop (m - 1) := by
  apply List.ext_getElem?; intro k
  have hlen : ((l.take m).eraseIdx j).length = m - 1 := by
    rw [List.length_eraseIdx, List.length_take]
    have : min m l.length = m := by omega
    rw [this, if_pos hj]
  rw [hk, List.getElem?_append, hlen]
  by_cases hk1 : k < m - 1
  · rw [if_pos hk1, List.getElem?_eraseIdx, List.getElem?_take, List.getElem?_take]
    by_cases hkj : k < j
    · rw [if_neg (by omega), if_pos hkj, if_pos (by omega)]
    · rw [if_pos (by omega), if_neg hkj, if_pos (by omega)]
  · rw [if_neg hk1, if_neg (by omega), List.getElem?_drop]
    congr 1; omega

theorem getLast_take (mem : List P) (n : Nat) (hn : n + 1 ≤ mem.length) :
    (mem.take (n + 1)).getLast? = mem[n]? := by
  rw [List.getLast?_eq_getElem?, List.getElem?_take, List.length_take]
  have hm : min (n + 1) mem.length = n + 1 := by omega
  rw [hm, if_pos (by omega)]; simp


end RV.Particles
