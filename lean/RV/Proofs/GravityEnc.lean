import RV.Proofs.GravityLaws
/-
  The encounter routines (MERCURIUS mode 1, TRACE Kepler mode; gravity.c:617-748, 848-983):
  star term by assignment for the particles in `encounter_map`, then the BASIC-shaped loop
  nests (start indices 2 / 1) over *map indices*.  Result: the sub-system re-indexed by the
  map receives the BASIC{ignore=2} sum with the routine's weight, plus the star term.
-/
set_option linter.unusedTactic false
set_option linter.unreachableTactic false
set_option linter.unnecessarySeqFocus false
set_option linter.unusedVariables false
set_option linter.unusedSimpArgs false
set_option linter.unusedSectionVars false
namespace RV.Gravity
open RV
variable {K : Type} [Field K]

/-- an encounter map given by a function: every array is of this form -/
def mkMap (L : Nat) (mp : Nat → Nat) : Array Nat := Array.ofFn (n := L) fun i => mp i

theorem mkMap_get {L : Nat} (mp : Nat → Nat) {i : Nat} (h : i < L) : (mkMap L mp)[i]? = some (mp i) := by
  simp [mkMap, Array.getElem?_ofFn, h]

theorem forRange_succ {σ : Type} (a b : Nat) (h : a ≤ b) (s : σ) (f : σ → Nat → σ) :
    forRange a (b + 1) s f = f (forRange a b s f) b := by
  unfold forRange
  have : b + 1 - a = (b - a) + 1 := by omega
  rw [this, List.range'_concat, List.foldl_append]
  simp
  congr 1
  omega

theorem forRange_empty {σ : Type} (a b : Nat) (h : b ≤ a) (s : σ) (f : σ → Nat → σ) :
    forRange a b s f = s := by
  unfold forRange
  have : b - a = 0 := by omega
  simp [this]

/-- the star term written into the slot of particle `k` -/
def starV (starPref : K → K) (soft2 : K) (x : Nat → V3 K) (k : Nat) : V3 K :=
  (starPref ((x k).x * (x k).x + (x k).y * (x k).y + (x k).z * (x k).z + soft2)) • x k

/-- body of the "Acceleration due to star" loop -/
def starBody (starPref : K → K) (soft2 : K) (ps : Array (Body K)) (map : Array Nat) (acc : Acc K)
    (i : Nat) : Acc K :=
  match map[i]? with
  | some mi =>
    match ps[mi]? with
    | some p =>
      let x := p.p.x
      let y := p.p.y
      let z := p.p.z
      let prefact := starPref (x * x + y * y + z * z + soft2)
      acc.setIfInBounds mi ⟨prefact * x, prefact * y, prefact * z⟩
    | none => acc
  | none => acc

theorem starLoop_def (starPref : K → K) (soft2 : K) (ps : Array (Body K)) (map : Array Nat)
    (encN : Nat) (acc : Acc K) :
    starLoop starPref soft2 ps map encN acc = forRange 1 encN acc (starBody starPref soft2 ps map) := rfl

theorem starBody_size (starPref : K → K) (soft2 : K) (ps : Array (Body K)) (map : Array Nat)
    (acc : Acc K) (i : Nat) : (starBody starPref soft2 ps map acc i).size = acc.size := by
  unfold starBody
  cases map[i]? with
  | none => rfl
  | some mi =>
    cases h : ps[mi]? with
    | none => simp [h]
    | some p => simp [h]

theorem foldl_size_eq {α ι : Type} (l : List ι) (g : Array α → ι → Array α)
    (hg : ∀ acc i, (g acc i).size = acc.size) (acc : Array α) : (l.foldl g acc).size = acc.size := by
  induction l generalizing acc with
  | nil => rfl
  | cons a r ih => simp only [List.foldl_cons]; rw [ih, hg]

theorem starBody_get (starPref : K → K) (soft2 : K) {N L : Nat} (m : Nat → K) (x : Nat → V3 K)
    (mp : Nat → Nat) (acc : Acc K) (hsz : acc.size = N) {i : Nat} (hi : i < L) (hmi : mp i < N) (k : Nat) :
    (starBody starPref soft2 (mkPs N m x) (mkMap L mp) acc i)[k]?
      = if mp i = k then some (starV starPref soft2 x k) else acc[k]? := by
  simp only [starBody, mkMap_get mp hi, mkPs_get m x hmi, sc_hadd, sc_hmul, Array.getElem?_setIfInBounds, hsz, hmi, if_true]
  by_cases h : mp i = k
  · subst h
    simp only [if_true]
    congr 1
  · simp [h]

open Classical in
/-- "Acceleration due to star" loop: exactly the slots `map[i]`, `1 ≤ i < encounter_N`, are
    overwritten with the star term of that particle; all other slots are untouched -/
theorem starLoop_get (starPref : K → K) (soft2 : K) {N L : Nat} (m : Nat → K) (x : Nat → V3 K)
    (mp : Nat → Nat) (acc : Acc K) (hsz : acc.size = N) :
    ∀ (encN : Nat), encN ≤ L → (∀ i, i < encN → mp i < N) → ∀ k,
      (starLoop starPref soft2 (mkPs N m x) (mkMap L mp) encN acc)[k]?
        = if ∃ i, 1 ≤ i ∧ i < encN ∧ mp i = k then some (starV starPref soft2 x k) else acc[k]? := by
  intro encN
  induction encN with
  | zero =>
    intro _ _ k
    rw [starLoop_def, forRange_empty _ _ (by omega)]
    have : ¬ ∃ i, 1 ≤ i ∧ i < 0 ∧ mp i = k := by rintro ⟨i, _, h, _⟩; omega
    simp [this]
  | succ b ih =>
    intro hL hmp k
    by_cases hb : b = 0
    · subst hb
      rw [starLoop_def, forRange_empty _ _ (by omega)]
      have : ¬ ∃ i, 1 ≤ i ∧ i < 0 + 1 ∧ mp i = k := by rintro ⟨i, h1, h, _⟩; omega
      simp [this]
    · have hb1 : 1 ≤ b := by omega
      have ihb := ih (by omega) (fun i hi => hmp i (by omega)) k
      rw [starLoop_def] at ihb ⊢
      rw [forRange_succ 1 b hb1]
      have hsize : (forRange 1 b acc (starBody starPref soft2 (mkPs N m x) (mkMap L mp))).size = N := by
        unfold forRange
        rw [foldl_size_eq _ _ (starBody_size starPref soft2 _ _), hsz]
      rw [starBody_get starPref soft2 m x mp _ hsize (show b < L by omega) (hmp b (by omega)) k, ihb]
      by_cases hk : mp b = k
      · have : ∃ i, 1 ≤ i ∧ i < b + 1 ∧ mp i = k := ⟨b, hb1, by omega, hk⟩
        rw [if_pos hk, if_pos this]
      · have e : (∃ i, 1 ≤ i ∧ i < b + 1 ∧ mp i = k) ↔ (∃ i, 1 ≤ i ∧ i < b ∧ mp i = k) := by
          constructor
          · rintro ⟨i, h1, h2, h3⟩
            have : i ≠ b := by rintro rfl; exact hk h3
            exact ⟨i, h1, by omega, h3⟩
          · rintro ⟨i, h1, h2, h3⟩
            exact ⟨i, h1, by omega, h3⟩
        simp only [hk, if_false, e]

/-- contribution of one mapped pair update to slot `k` -/
theorem additive_pairMap (pref : K → Nat → Nat → K) (soft2 : K) {N L : Nat} (m : Nat → K)
    (x : Nat → V3 K) (mp : Nat → Nat) (both : Bool) {i j : Nat} (hi : i < L) (hj : j < L)
    (hmi : mp i < N) (hmj : mp j < N) :
    Additive (fun acc => pairMap pref soft2 (mkPs N m x) (mkMap L mp) both acc i j)
      (pairC pref soft2 m x 0 both (mp i) (mp j)) := by
  have h := additive_pairStep pref soft2 m x 0 both hmi hmj
  have hf : (fun acc => pairMap pref soft2 (mkPs N m x) (mkMap L mp) both acc i j)
      = (fun acc => pairStep pref soft2 (mkPs N m x) 0 both acc (mp i) (mp j)) := by
    funext acc
    simp only [pairMap, pairStep, mkMap_get mp hi, mkMap_get mp hj, mkPs_get m x hmi, mkPs_get m x hmj,
      sc_hadd, sc_hsub, sc_hmul, sc_hneg, V3.zero_x, V3.zero_y, V3.zero_z, zero_add]
  rw [hf]; exact h

/-- the weight seen in map-index space, with the `continue` test folded in as weight 0 -/
def prefEnc (pref : K → Nat → Nat → K) (skip : Nat → Nat → Bool) (mp : Nat → Nat) (s : K) (i j : Nat) : K :=
  if skip (mp i) (mp j) = true then 0 else pref s (mp i) (mp j)

theorem pairC_mapped (pref : K → Nat → Nat → K) (skip : Nat → Nat → Bool) (soft2 : K) (m : Nat → K)
    (x : Nat → V3 K) (mp : Nat → Nat) (both : Bool) {encN : Nat}
    (hinj : ∀ i j, i < encN → j < encN → mp i = mp j → i = j)
    {i j i0 : Nat} (hi : i < encN) (hj : j < encN) (hi0 : i0 < encN) :
    (if skip (mp i) (mp j) = true then 0 else pairC pref soft2 m x 0 both (mp i) (mp j) (mp i0))
      = pairC (prefEnc pref skip mp) soft2 (fun t => m (mp t)) (fun t => x (mp t)) 0 both i j i0 := by
  have e1 : (mp i = mp i0) ↔ (i = i0) := ⟨hinj i i0 hi hi0, fun h => by rw [h]⟩
  have e2 : (mp j = mp i0) ↔ (j = i0) := ⟨hinj j i0 hj hi0, fun h => by rw [h]⟩
  unfold pairC roleI roleJ prefEnc
  have hs : s2 (fun t => x (mp t)) soft2 0 i j = s2 x soft2 0 (mp i) (mp j) := rfl
  have hd : dvec (fun t => x (mp t)) 0 i j = dvec x 0 (mp i) (mp j) := rfl
  simp only [hs, hd, e1, e2]
  by_cases hsk : skip (mp i) (mp j) = true
  · simp [hsk]
  · simp [hsk]

theorem pairC_unmapped (pref : K → Nat → Nat → K) (soft2 : K) (m : Nat → K)
    (x : Nat → V3 K) (mp : Nat → Nat) (both : Bool) {i j k : Nat} (hi : mp i ≠ k) (hj : mp j ≠ k) :
    pairC pref soft2 m x 0 both (mp i) (mp j) k = 0 := by
  simp [pairC, hi, hj]

/-- the two pair loop nests of the encounter routines, as one function of the accumulator -/
def encLoops (pref : K → Nat → Nat → K) (skip : Nat → Nat → Bool) (soft2 : K) (tpType : Bool)
    (ps : Array (Body K)) (map : Array Nat) (encN encNa : Nat) (acc : Acc K) : Acc K :=
  let acc := forRange 2 encNa acc fun acc i =>
    forRange 1 i acc fun acc j =>
      match map[i]?, map[j]? with
      | some mi, some mj => if skip mi mj then acc else pairMap pref soft2 ps map true acc i j
      | _, _ => acc
  forRange (max encNa 2) encN acc fun acc i =>
    forRange 1 encNa acc fun acc j =>
      match map[i]?, map[j]? with
      | some mi, some mj => if skip mi mj then acc else pairMap pref soft2 ps map tpType acc i j
      | _, _ => acc

theorem accEnc_eq (pref : K → Nat → Nat → K) (starPref : K → K) (skip : Nat → Nat → Bool)
    (soft : K) (tpType : Bool) (ps : Array (Body K)) (map : Array Nat) (encN encNa : Nat) (init : Acc K) :
    accEnc pref starPref skip soft tpType ps map encN encNa init
      = encLoops pref skip (soft * soft) tpType ps map encN encNa
          (starLoop starPref (soft * soft) ps map encN (init.setIfInBounds 0 V3.zero)) := rfl

/-- contribution of the encounter loop nests to slot `k`, as the loops run -/
def encC (pref : K → Nat → Nat → K) (skip : Nat → Nat → Bool) (soft2 : K) (tp : Bool)
    (m : Nat → K) (x : Nat → V3 K) (mp : Nat → Nat) (encN encNa : Nat) (k : Nat) : V3 K :=
  (∑ i ∈ Finset.Ico 2 encNa, ∑ j ∈ Finset.Ico 1 i,
      if skip (mp i) (mp j) = true then 0 else pairC pref soft2 m x 0 true (mp i) (mp j) k)
  + (∑ i ∈ Finset.Ico (max encNa 2) encN, ∑ j ∈ Finset.Ico 1 encNa,
      if skip (mp i) (mp j) = true then 0 else pairC pref soft2 m x 0 tp (mp i) (mp j) k)

theorem additive_encLoops (pref : K → Nat → Nat → K) (skip : Nat → Nat → Bool) (soft2 : K) (tp : Bool)
    {N L : Nat} (m : Nat → K) (x : Nat → V3 K) (mp : Nat → Nat) (encN encNa : Nat)
    (hL : encN ≤ L) (hNa : encNa ≤ encN) (hmp : ∀ i, i < encN → mp i < N) :
    Additive (encLoops pref skip soft2 tp (mkPs N m x) (mkMap L mp) encN encNa)
      (encC pref skip soft2 tp m x mp encN encNa) := by
  unfold encLoops encC
  refine additive_comp
    (f := fun acc => forRange 2 encNa acc fun acc i =>
      forRange 1 i acc fun acc j =>
        match (mkMap L mp)[i]?, (mkMap L mp)[j]? with
        | some mi, some mj => if skip mi mj then acc else pairMap pref soft2 (mkPs N m x) (mkMap L mp) true acc i j
        | _, _ => acc)
    (g := fun acc => forRange (max encNa 2) encN acc fun acc i =>
      forRange 1 encNa acc fun acc j =>
        match (mkMap L mp)[i]?, (mkMap L mp)[j]? with
        | some mi, some mj => if skip mi mj then acc else pairMap pref soft2 (mkPs N m x) (mkMap L mp) tp acc i j
        | _, _ => acc) ?_ ?_
  · apply additive_forRange
    intro i hi1 hi2
    apply additive_forRange
    intro j hj1 hj2
    simp only [mkMap_get mp (show i < L by omega), mkMap_get mp (show j < L by omega)]
    by_cases hs : skip (mp i) (mp j) = true
    · simpa [hs] using additive_id (K := K)
    · simpa [hs] using additive_pairMap pref soft2 m x mp true (show i < L by omega) (show j < L by omega)
        (hmp i (by omega)) (hmp j (by omega))
  · apply additive_forRange
    intro i hi1 hi2
    apply additive_forRange
    intro j hj1 hj2
    simp only [mkMap_get mp (show i < L by omega), mkMap_get mp (show j < L by omega)]
    by_cases hs : skip (mp i) (mp j) = true
    · simpa [hs] using additive_id (K := K)
    · simpa [hs] using additive_pairMap pref soft2 m x mp tp (show i < L by omega) (show j < L by omega)
        (hmp i (by omega)) (hmp j (by omega))

/-- in map-index space the loop contribution to slot `map[i0]` is the BASIC box contribution
    (start indices 2 / 1, no ghost shift) of the re-indexed sub-system -/
theorem encC_mapped (pref : K → Nat → Nat → K) (skip : Nat → Nat → Bool) (soft : K) (tp : Bool)
    (m : Nat → K) (x : Nat → V3 K) (mp : Nat → Nat) (encN encNa : Nat) (hNa : encNa ≤ encN)
    (hinj : ∀ i j, i < encN → j < encN → mp i = mp j → i = j) {i0 : Nat} (hi0 : i0 < encN) :
    encC pref skip (soft * soft) tp m x mp encN encNa (mp i0)
      = boxC (prefEnc pref skip mp) ⟨encNa, tp, 2, soft⟩ encN (fun t => m (mp t)) (fun t => x (mp t)) 0 i0 := by
  unfold encC boxC
  simp only [startI_2, startJ_2]
  congr 1
  · apply Finset.sum_congr rfl
    intro i hi
    apply Finset.sum_congr rfl
    intro j hj
    have := Finset.mem_Ico.mp hi
    have := Finset.mem_Ico.mp hj
    exact pairC_mapped pref skip (soft * soft) m x mp true hinj (by omega) (by omega) hi0
  · apply Finset.sum_congr rfl
    intro i hi
    apply Finset.sum_congr rfl
    intro j hj
    have := Finset.mem_Ico.mp hi
    have := Finset.mem_Ico.mp hj
    exact pairC_mapped pref skip (soft * soft) m x mp tp hinj (by omega) (by omega) hi0

/-- a single box without ghost shift in declarative form (symmetric weight) -/
theorem boxC_declarative (pref : K → Nat → Nat → K) (hsym : ∀ s i j, pref s i j = pref s j i)
    (cfg : Cfg K) {N : Nat} (m : Nat → K) (x : Nat → V3 K) (hNa : cfg.nActive ≤ N)
    (hig : cfg.ignore ≤ 2) {k : Nat} (hk : k < N) :
    boxC pref cfg N m x 0 k = ∑ j ∈ Finset.range N,
      if Src cfg.nActive cfg.tpType cfg.ignore k j then force pref (cfg.soft * cfg.soft) m x 0 k j else 0 := by
  have h1 := accBasic_get pref cfg [0] m x hNa hk
  have h2 := accBasic_declarative pref hsym cfg [0] (by intro G; simp) m x hNa hig hk
  rw [h1] at h2
  simpa using Option.some.inj h2

/-- slot `map[i0]` after the encounter routine: star term + box contribution of the re-indexed
    sub-system (before the loop ranges are turned into the declarative source set) -/
theorem accEnc_get_boxC (pref : K → Nat → Nat → K) (starPref : K → K) (skip : Nat → Nat → Bool)
    (soft : K) (tp : Bool) {N L : Nat} (m : Nat → K) (x : Nat → V3 K) (mp : Nat → Nat)
    (encN encNa : Nat) (init : Acc K) (hinit : init.size = N) (hL : encN ≤ L) (hNa : encNa ≤ encN)
    (hmp : ∀ i, i < encN → mp i < N)
    (hinj : ∀ i j, i < encN → j < encN → mp i = mp j → i = j)
    {i0 : Nat} (h1 : 1 ≤ i0) (h2 : i0 < encN) :
    (accEnc pref starPref skip soft tp (mkPs N m x) (mkMap L mp) encN encNa init)[mp i0]?
      = some (starV starPref (soft * soft) x (mp i0)
          + boxC (prefEnc pref skip mp) ⟨encNa, tp, 2, soft⟩ encN (fun t => m (mp t)) (fun t => x (mp t)) 0 i0) := by
  rw [accEnc_eq, additive_encLoops pref skip (soft * soft) tp m x mp encN encNa hL hNa hmp,
    starLoop_get starPref (soft * soft) m x mp _ (by simpa using hinit) encN hL hmp (mp i0)]
  have hex : ∃ i, 1 ≤ i ∧ i < encN ∧ mp i = mp i0 := ⟨i0, h1, h2, rfl⟩
  simp only [hex, if_true, Option.map_some]
  rw [encC_mapped pref skip soft tp m x mp encN encNa hNa hinj h2]

end RV.Gravity
