import RV.Model.ParticlesLookup
import RV.Proofs.Particles
/-
  The allocated lookup table (RV/Model/ParticlesLookup.lean) against the abstract rebuild loop of RV/Model/Particles.lean:
  same entries, never a write outside the allocation, capacity ≥ N_lookup.  Core Lean only.
-/
set_option linter.unusedVariables false
set_option linter.unusedSimpArgs false
namespace RV.Particles

theorem lookupGrow_gt (cap n : Nat) (h : n ≤ cap) : n < lookupGrow cap n ∧ cap ≤ lookupGrow cap n := by
  unfold lookupGrow
  split
  · split <;> omega
  · omega

/-- the first `t.length` cells of the allocation are exactly the abstract table -/
def Repr (cells : List (Option Entry)) (t : List Entry) : Prop :=
  t.length ≤ cells.length ∧ ∀ k, k < t.length → cells[k]? = some t[k]?

theorem Repr.grow {cells : List (Option Entry)} {t : List Entry} (h : Repr cells t) (m : Nat) :
    Repr (cells ++ List.replicate m none) t := by
  refine ⟨by simp; have := h.1; omega, fun k hk => ?_⟩
  rw [List.getElem?_append, if_pos (by have := h.1; omega)]; exact h.2 k hk

theorem Repr.push {cells : List (Option Entry)} {t : List Entry} (h : Repr cells t) (e : Entry) (hl : t.length < cells.length) :
    Repr (cells.set t.length (some e)) (t ++ [e]) := by
  refine ⟨by simp; omega, fun k hk => ?_⟩
  simp only [List.length_append, List.length_singleton] at hk
  rw [List.getElem?_set]
  by_cases hkt : t.length = k
  · subst hkt; rw [if_pos rfl, if_pos hl]; simp
  · rw [if_neg hkt, h.2 k (by omega), List.getElem?_append, if_pos (by omega)]

theorem Repr.update {cells : List (Option Entry)} {t : List Entry} (h : Repr cells t) (z : Nat) (e : Entry) (hz : z < t.length) :
    Repr (cells.set z (some e)) (t.set z e) := by
  refine ⟨by simp; exact h.1, fun k hk => ?_⟩
  simp only [List.length_set] at hk
  rw [List.getElem?_set, List.getElem?_set]
  by_cases hzk : z = k
  · subst hzk; rw [if_pos rfl, if_pos (by have := h.1; omega), if_pos rfl, if_pos hz]
  · rw [if_neg hzk, if_neg hzk]; exact h.2 k hk

/-- simulation: wherever the abstract loop succeeds, the allocated loop succeeds with the same entries in its first
    `N_lookup` cells, without a write outside the allocation, and only ever grows the allocation -/
theorem rebuildAlloc_simulates : ∀ (ps : List P) (i : Nat) (t : List Entry) (zh : Option Nat) (cells : List (Option Entry)),
    Repr cells t → (zh = none → t.length = i) → (∀ z, zh = some z → z < t.length) →
    ∀ t', rebuildLoop ps i t zh = some t' →
      ∃ cells', rebuildAllocLoop ps i cells t.length zh = some (cells', t'.length) ∧ Repr cells' t' ∧
        cells.length ≤ cells'.length := by
  intro ps
  induction ps with
  | nil =>
    intro i t zh cells hr _ _ t' ht
    simp [rebuildLoop] at ht; subst ht
    exact ⟨cells, rfl, hr, Nat.le_refl _⟩
  | cons p ps ih =>
    intro i t zh cells hr hzn hzs t' ht
    obtain ⟨hgt, hge⟩ := lookupGrow_gt cells.length t.length hr.1
    have hr1 := hr.grow (lookupGrow cells.length t.length - cells.length)
    have hlen1 : (cells ++ List.replicate (lookupGrow cells.length t.length - cells.length) none).length
        = lookupGrow cells.length t.length := by simp; omega
    unfold rebuildAllocLoop
    unfold rebuildLoop at ht
    simp only []
    by_cases hz : p.hash = 0
    · rw [if_pos hz] at ht ⊢
      cases zh with
      | none =>
        have hti : t.length = i := hzn rfl
        simp only [] at ht ⊢
        simp only [tblWrite, ← hti, Nat.lt_irrefl, if_false, if_true] at ht
        simp only [List.length_append, List.length_singleton, if_true] at ht
        have hw : ltWrite (cells ++ List.replicate (lookupGrow cells.length t.length - cells.length) none) i ⟨p.hash, i⟩
            = some ((cells ++ List.replicate (lookupGrow cells.length t.length - cells.length) none).set t.length (some ⟨p.hash, t.length⟩)) := by
          unfold ltWrite; rw [← hti, if_pos (by rw [hlen1]; exact hgt)]
        rw [hw]
        simp only []
        have hr2 := hr1.push (Entry.mk p.hash t.length) (by rw [hlen1]; exact hgt)
        obtain ⟨c', e, r', l'⟩ := ih (t.length + 1) (t ++ [⟨p.hash, t.length⟩]) (some t.length) _ hr2
          (by intro h; cases h) (by intro z hz'; simp at hz'; subst hz'; simp) t' ht
        have hl2 : (t ++ [Entry.mk p.hash t.length]).length = t.length + 1 := by simp
        rw [hl2] at e
        rw [← hti]
        exact ⟨c', e, r', by simp at l'; omega⟩
      | some z =>
        have hzt : z < t.length := hzs z rfl
        simp only [] at ht ⊢
        have htz : t[z]? = some t[z] := List.getElem?_eq_getElem hzt
        rw [htz] at ht
        simp only [] at ht
        rw [hr1.2 z hzt, htz]
        simp only []
        have hr2 := hr1.update z (Entry.mk t[z].hash i) hzt
        obtain ⟨c', e, r', l'⟩ := ih (i + 1) (t.set z ⟨t[z].hash, i⟩) (some z) _ hr2
          (by intro h; cases h) (by intro z' hz'; simp at hz'; subst hz'; simpa using hzt) t' ht
        rw [List.length_set] at e
        exact ⟨c', e, r', by simp at l'; omega⟩
    · rw [if_neg hz] at ht ⊢
      have hw : ltWrite (cells ++ List.replicate (lookupGrow cells.length t.length - cells.length) none) t.length ⟨p.hash, i⟩
          = some ((cells ++ List.replicate (lookupGrow cells.length t.length - cells.length) none).set t.length (some ⟨p.hash, i⟩)) := by
        unfold ltWrite; rw [if_pos (by rw [hlen1]; exact hgt)]
      rw [hw]
      simp only []
      have hr2 := hr1.push (Entry.mk p.hash i) (by rw [hlen1]; exact hgt)
      obtain ⟨c', e, r', l'⟩ := ih (i + 1) (t ++ [⟨p.hash, i⟩]) zh _ hr2
        (by intro h; have := hzn h; simp; omega) (by intro z' hz'; have := hzs z' hz'; simp; omega) t' ht
      have hl2 : (t ++ [Entry.mk p.hash i]).length = t.length + 1 := by simp
      rw [hl2] at e
      exact ⟨c', e, r', by simp at l'; omega⟩

/-- `reb_update_particle_lookup_table` on ANY particle array and ANY previous allocation: it never writes outside the
    allocation; afterwards `N_lookup ≤ N_allocated_lookup`, `N_lookup ≤ N`, the allocation has not shrunk, and the first
    `N_lookup` cells are exactly the entries of the abstract loop `rebuildLoop` (about which the lookup theorems speak). -/
theorem rebuildAlloc_spec (ps : List P) (cells0 : List (Option Entry)) :
    ∃ cells n t, rebuildAllocLoop ps 0 cells0 0 none = some (cells, n) ∧ rebuildLoop ps 0 [] none = some t ∧
      n = t.length ∧ n ≤ cells.length ∧ n ≤ ps.length ∧ cells0.length ≤ cells.length ∧
      ∀ k, k < n → cells[k]? = some t[k]? := by
  obtain ⟨t, zh', e1, inv⟩ := rebuildLoop_spec ps [] [] none LoopInv.init
  simp only [List.length_nil, List.nil_append] at e1 inv
  obtain ⟨cells, e2, r, l⟩ := rebuildAlloc_simulates ps 0 [] none cells0 ⟨by simp, by simp⟩ (fun _ => rfl)
    (by intro z h; cases h) t e1
  exact ⟨cells, t.length, t, e2, e1, rfl, r.1, inv.len, l, r.2⟩

end RV.Particles
