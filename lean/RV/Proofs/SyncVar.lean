import RV.Proofs.Sync
/-
  C09: WHFast with first-order variational particles (`vStepOps` / `vSyncOps`, the fourth replay
  family) — the keep_unsynchronized bitwise clause.  Own footprint components: the variational
  particles' positions / velocities / accelerations are separate from the real particles', because
  `to_inertial` only overwrites the real ones.
-/
set_option linter.unusedVariables false
set_option linter.unusedSimpArgs false
namespace RV.Sync.Var
open RV.Sync

structure VSt (PJ X V A VX VV VA : Type) where
  pj : PJ          -- ri_whfast.p_jh, all N entries (real and variational)
  pos : X          -- real particles
  vel : V
  acc : A
  vpos : VX        -- variational particles
  vvel : VV
  vacc : VA
  saved : PJ

/-- uninterpreted primitives, typed by their footprints -/
structure VSem (T PJ X V A VX VV VA : Type) where
  ev : Coef → T
  fromI : X → V → VX → VV → PJ → PJ      -- from_inertial transforms real and variational particles
  toIpos : PJ → X
  toIvel : PJ → V
  kepler : T → PJ → PJ
  com : T → PJ → PJ
  jump : T → PJ → PJ
  inter : T → A → VA → PJ → PJ           -- reads the accelerations of real and variational particles
  upd : X → A
  updV : X → VX → VA                     -- reb_calculate_acceleration_var: positions only
  vcom : T → PJ → PJ
  vposOf : PJ → VX                       -- jacobi_to_inertial_pos / _posvel of the variational configs
  vvelOf : PJ → VV
  rescaleX : VX → VV → VX                -- reb_simulation_rescale_var
  rescaleV : VX → VV → VV

variable {T PJ X V A VX VV VA : Type}

/-- denotation of the primitives that occur in `vStepOps` / `vSyncOps` (all others: identity) -/
def vDenote (S : VSem T PJ X V A VX VV VA) : Prim → VSt PJ X V A VX VV VA → VSt PJ X V A VX VV VA
  | .fromInertial, s => { s with pj := S.fromI s.pos s.vel s.vpos s.vvel s.pj }
  | .toInertial, s => { s with pos := S.toIpos s.pj, vel := S.toIvel s.pj }
  | .kepler τ, s => { s with pj := S.kepler (S.ev τ) s.pj }
  | .com τ, s => { s with pj := S.com (S.ev τ) s.pj }
  | .jump τ, s => { s with pj := S.jump (S.ev τ) s.pj }
  | .interaction τ, s => { s with pj := S.inter (S.ev τ) s.acc s.vacc s.pj }
  | .updateAcc, s => { s with acc := S.upd s.pos, vacc := S.updV s.pos s.vpos }
  | .varComDrift τ, s => { s with pj := S.vcom (S.ev τ) s.pj }
  | .varToInertialPos, s => { s with vpos := S.vposOf s.pj }
  | .varToInertialPosvel, s => { s with vpos := S.vposOf s.pj, vvel := S.vvelOf s.pj }
  | .rescaleVar, s => { s with vpos := S.rescaleX s.vpos s.vvel, vvel := S.rescaleV s.vpos s.vvel }
  | .savePJ, s => { s with saved := s.pj }
  | .restorePJ, s => { s with pj := s.saved }
  | _, s => s

def vExec (S : VSem T PJ X V A VX VV VA) : List Prim → VSt PJ X V A VX VV VA → VSt PJ X V A VX VV VA
  | [], s => s
  | p :: ps, s => vExec S ps (vDenote S p s)

structure VComps where
  pj : Bool
  pos : Bool
  vel : Bool
  acc : Bool
  vpos : Bool
  vvel : Bool
  vacc : Bool
  saved : Bool
  deriving DecidableEq, Repr

def vAgree (L : VComps) (s s' : VSt PJ X V A VX VV VA) : Prop :=
  (L.pj = true → s.pj = s'.pj) ∧ (L.pos = true → s.pos = s'.pos) ∧ (L.vel = true → s.vel = s'.vel) ∧
  (L.acc = true → s.acc = s'.acc) ∧ (L.vpos = true → s.vpos = s'.vpos) ∧ (L.vvel = true → s.vvel = s'.vvel) ∧
  (L.vacc = true → s.vacc = s'.vacc) ∧ (L.saved = true → s.saved = s'.saved)

def vTransfer : Prim → VComps → VComps
  | .fromInertial, L => { L with pj := L.pos && L.vel && L.vpos && L.vvel && L.pj }
  | .toInertial, L => { L with pos := L.pj, vel := L.pj }
  | .kepler _, L | .com _, L | .jump _, L | .varComDrift _, L => L
  | .interaction _, L => { L with pj := L.acc && L.vacc && L.pj }
  | .updateAcc, L => { L with acc := L.pos, vacc := L.pos && L.vpos }
  | .varToInertialPos, L => { L with vpos := L.pj }
  | .varToInertialPosvel, L => { L with vpos := L.pj, vvel := L.pj }
  | .rescaleVar, L => { L with vpos := L.vpos && L.vvel, vvel := L.vpos && L.vvel }
  | .savePJ, L => { L with saved := L.pj }
  | .restorePJ, L => { L with pj := L.saved }
  | _, L => L

def vTransferList : List Prim → VComps → VComps
  | [], L => L
  | p :: ps, L => vTransferList ps (vTransfer p L)

theorem vAgree_denote (S : VSem T PJ X V A VX VV VA) (p : Prim) (L : VComps)
    (s s' : VSt PJ X V A VX VV VA) (h : vAgree L s s') :
    vAgree (vTransfer p L) (vDenote S p s) (vDenote S p s') := by
  obtain ⟨h1, h2, h3, h4, h5, h6, h7, h8⟩ := h
  cases p <;> simp only [vTransfer, vDenote, vAgree, Bool.and_eq_true] <;>
    refine ⟨?_, ?_, ?_, ?_, ?_, ?_, ?_, ?_⟩ <;> intro hh <;>
    first
      | exact h1 hh | exact h2 hh | exact h3 hh | exact h4 hh | exact h5 hh | exact h6 hh
      | exact h7 hh | exact h8 hh
      | (simp only [h1 hh])
      | (simp only [h8 hh])
      | (simp only [h2 hh])
      | (simp only [h2 hh.1, h5 hh.2])
      | (simp only [h5 hh.1, h6 hh.2])
      | (simp only [h1 hh.2, h4 hh.1.1, h7 hh.1.2])
      | (simp only [h1 hh.2, h2 hh.1.1.1.1, h3 hh.1.1.1.2, h5 hh.1.1.2, h6 hh.1.2])

theorem vAgree_exec (S : VSem T PJ X V A VX VV VA) (ps : List Prim) (L : VComps)
    (s s' : VSt PJ X V A VX VV VA) (h : vAgree L s s') :
    vAgree (vTransferList ps L) (vExec S ps s) (vExec S ps s') := by
  induction ps generalizing L s s' with
  | nil => exact h
  | cons p ps ih => exact ih _ _ _ (vAgree_denote S p L s s' h)

/-! ### API level -/

def vApply (S : VSem T PJ X V A VX VV VA) (c : Config) (o : Op Unit)
    (x : Flags × VSt PJ X V A VX VV VA) : Flags × VSt PJ X V A VX VV VA :=
  ((vOpOps c x.1 o).2, vExec S (vOpOps c x.1 o).1 x.2)

def vRun (S : VSem T PJ X V A VX VV VA) (c : Config) :
    List (Op Unit) → Flags × VSt PJ X V A VX VV VA → Flags × VSt PJ X V A VX VV VA
  | [], x => x
  | o :: os, x => vRun S c os (vApply S c o x)

/-- two (flags, state) pairs no later step can tell apart (keep_unsynchronized) -/
def VRel (x y : Flags × VSt PJ X V A VX VV VA) : Prop :=
  initF x.1 = initF y.1 ∧ x.2.pj = y.2.pj ∧
  ((initF x.1).isSync = true →
    x.2.pos = y.2.pos ∧ x.2.vel = y.2.vel ∧ x.2.vpos = y.2.vpos ∧ x.2.vvel = y.2.vvel)

theorem VRel.refl (x : Flags × VSt PJ X V A VX VV VA) : VRel x x := ⟨rfl, rfl, fun _ => ⟨rfl, rfl, rfl, rfl⟩⟩
theorem VRel.symm {x y : Flags × VSt PJ X V A VX VV VA} (h : VRel x y) : VRel y x :=
  ⟨h.1.symm, h.2.1.symm, fun hs => by
    have := h.2.2 (by rw [h.1]; exact hs)
    exact ⟨this.1.symm, this.2.1.symm, this.2.2.1.symm, this.2.2.2.symm⟩⟩
theorem VRel.trans {x y z : Flags × VSt PJ X V A VX VV VA} (a : VRel x y) (b : VRel y z) : VRel x z :=
  ⟨a.1.trans b.1, a.2.1.trans b.2.1, fun hs => by
    have h1 := a.2.2 hs
    have h2 := b.2.2 (by rw [← a.1]; exact hs)
    exact ⟨h1.1.trans h2.1, h1.2.1.trans h2.2.1, h1.2.2.1.trans h2.2.2.1, h1.2.2.2.trans h2.2.2.2⟩⟩

theorem vStepOps_initF (c : Config) (f : Flags) : vStepOps c (initF f) = vStepOps c f := by
  unfold vStepOps vStepCore vPart1Ops; rw [initF_idem]

theorem vSyncOps_initF (c : Config) (f : Flags) : vSyncOps c (initF f) = vSyncOps c f := by
  unfold vSyncOps; rw [initF_idem]

/-- dataflow of a step with variational particles, keep_unsynchronized = 1, safe_mode = 0: the new
    `p_jh` (all N entries) and the flags depend on the old `p_jh` alone, or — from a synchronised
    state — on `p_jh` and the positions / velocities of real and variational particles -/
theorem vstep_determined (c : Config) (hk : c.keep = true) (hs : c.safe = false) (g : Flags)
    (hg : g.allocated = true) :
    (vTransferList (vStepOps c g).1 ⟨true, g.isSync, g.isSync, false, g.isSync, g.isSync, false, false⟩).pj = true ∧
    (vStepOps c g).2 = ⟨false, false, true⟩ := by
  obtain ⟨isSync, recalc, allocated⟩ := g
  simp only at hg; subst hg
  cases isSync <;> cases recalc <;> cases hv : c.vfix <;> cases hp : c.p1fix <;>
    simp [vStepOps, vStepCore, vPart1Ops, vPart2Ops, vSyncOps, initF, hk, hs, hv, hp, vTransferList, vTransfer]

theorem vsync_keep (S : VSem T PJ X V A VX VV VA) (c : Config) (hk : c.keep = true) (f : Flags)
    (s : VSt PJ X V A VX VV VA) :
    (vSyncOps c f).2 = initF f ∧ (vExec S (vSyncOps c f).1 s).pj = s.pj ∧
    ((initF f).isSync = true → vExec S (vSyncOps c f).1 s = s) := by
  unfold vSyncOps
  cases h : (initF f).isSync <;> simp [hk, h, vExec, vDenote]

/-- what a user sees after `synchronize` is a function of `p_jh` (unsynchronised state) -/
theorem vsync_obs_determined (c : Config) (hk : c.keep = true) (f : Flags) (h : (initF f).isSync = false) :
    let M := vTransferList (vSyncOps c f).1 ⟨true, false, false, false, false, false, false, false⟩
    M.pj = true ∧ M.pos = true ∧ M.vel = true ∧ M.vpos = true ∧ M.vvel = true := by
  unfold vSyncOps
  simp [hk, h, vTransferList, vTransfer]

theorem vrel_step (S : VSem T PJ X V A VX VV VA) (c : Config) (hk : c.keep = true) (hs : c.safe = false)
    {x y : Flags × VSt PJ X V A VX VV VA} (h : VRel x y) :
    VRel (vApply S c .step x) (vApply S c .step y) := by
  obtain ⟨h1, h2, h3⟩ := h
  show VRel ((vStepOps c x.1).2, vExec S (vStepOps c x.1).1 x.2) ((vStepOps c y.1).2, vExec S (vStepOps c y.1).1 y.2)
  rw [← vStepOps_initF c x.1, ← vStepOps_initF c y.1, ← h1]
  have hg := initF_allocated x.1
  generalize initF x.1 = g at *
  obtain ⟨hd, hf⟩ := vstep_determined c hk hs g hg
  have ha : vAgree ⟨true, g.isSync, g.isSync, false, g.isSync, g.isSync, false, false⟩ x.2 y.2 :=
    ⟨fun _ => h2, fun hh => (h3 hh).1, fun hh => (h3 hh).2.1, fun hh => (by cases hh),
     fun hh => (h3 hh).2.2.1, fun hh => (h3 hh).2.2.2, fun hh => (by cases hh), fun hh => (by cases hh)⟩
  have := vAgree_exec S (vStepOps c g).1 _ _ _ ha
  refine ⟨rfl, this.1 hd, ?_⟩
  rw [hf]; intro hh; simp [initF] at hh

theorem vrel_sync (S : VSem T PJ X V A VX VV VA) (c : Config) (hk : c.keep = true)
    (x : Flags × VSt PJ X V A VX VV VA) : VRel x (vApply S c .synchronize x) := by
  obtain ⟨e1, e2, e3⟩ := vsync_keep S c hk x.1 x.2
  show VRel x ((vSyncOps c x.1).2, vExec S (vSyncOps c x.1).1 x.2)
  refine ⟨by rw [e1, initF_idem], e2.symm, fun hh => ?_⟩
  rw [e3 hh]; exact ⟨rfl, rfl, rfl, rfl⟩

theorem vrel_run (S : VSem T PJ X V A VX VV VA) (c : Config) (hk : c.keep = true) (hs : c.safe = false)
    (σ : List (Op Unit)) (hσ : ∀ o ∈ σ, o.benign = true) (x y : Flags × VSt PJ X V A VX VV VA)
    (h : VRel x y) : VRel (vRun S c σ x) (vRun S c (σ.filter Op.isStep) y) := by
  induction σ generalizing x y with
  | nil => exact h
  | cons o os ih =>
    have hos : ∀ o ∈ os, o.benign = true := fun o ho => hσ o (List.mem_cons_of_mem _ ho)
    have ho := hσ o List.mem_cons_self
    cases o with
    | step =>
      simp only [List.filter, Op.isStep, vRun]
      exact ih hos _ _ (vrel_step S c hk hs h)
    | synchronize =>
      simp only [List.filter, Op.isStep, vRun]
      exact ih hos _ _ ((vrel_sync S c hk x).symm.trans h)
    | read =>
      simp only [List.filter, Op.isStep, vRun]
      have : vApply S c .read x = x := rfl
      rw [this]
      exact ih hos _ _ h
    | setRecalc => simp [Op.benign] at ho
    | poke v => simp [Op.benign] at ho

/-- indistinguishable pairs show the same after a synchronize -/
theorem vrel_sync_obs (S : VSem T PJ X V A VX VV VA) (c : Config) (hk : c.keep = true)
    {x y : Flags × VSt PJ X V A VX VV VA} (h : VRel x y) :
    (vExec S (vSyncOps c x.1).1 x.2).pj = (vExec S (vSyncOps c y.1).1 y.2).pj ∧
    (vExec S (vSyncOps c x.1).1 x.2).pos = (vExec S (vSyncOps c y.1).1 y.2).pos ∧
    (vExec S (vSyncOps c x.1).1 x.2).vel = (vExec S (vSyncOps c y.1).1 y.2).vel ∧
    (vExec S (vSyncOps c x.1).1 x.2).vpos = (vExec S (vSyncOps c y.1).1 y.2).vpos ∧
    (vExec S (vSyncOps c x.1).1 x.2).vvel = (vExec S (vSyncOps c y.1).1 y.2).vvel := by
  rw [← vSyncOps_initF c x.1, ← vSyncOps_initF c y.1, ← h.1]
  cases hs : (initF x.1).isSync
  · have hs' : (initF (initF x.1)).isSync = false := by rw [initF_idem]; exact hs
    have hm := vsync_obs_determined c hk (initF x.1) hs'
    have ha : vAgree ⟨true, false, false, false, false, false, false, false⟩ x.2 y.2 :=
      ⟨fun _ => h.2.1, fun hh => (by cases hh), fun hh => (by cases hh), fun hh => (by cases hh),
       fun hh => (by cases hh), fun hh => (by cases hh), fun hh => (by cases hh), fun hh => (by cases hh)⟩
    have := vAgree_exec S (vSyncOps c (initF x.1)).1 _ _ _ ha
    exact ⟨this.1 hm.1, this.2.1 hm.2.1, this.2.2.1 hm.2.2.1, this.2.2.2.2.1 hm.2.2.2.1,
      this.2.2.2.2.2.1 hm.2.2.2.2⟩
  · have hs' : (initF (initF x.1)).isSync = true := by rw [initF_idem]; exact hs
    rw [(vsync_keep S c hk (initF x.1) x.2).2.2 hs', (vsync_keep S c hk (initF x.1) y.2).2.2 hs']
    have := h.2.2 hs
    exact ⟨h.2.1, this.1, this.2.1, this.2.2.1, this.2.2.2⟩

/-! ### the variational centre of mass: drift accounting

  `p_jh[vc.index]` (the centre of mass of a set of variational particles) is moved by nothing but
  the two explicit half drifts `p_jh[index].pos += dt/2 · p_jh[index].vel` at the end of part1 and
  in the `N_var_config` block of part2.  A *clock* reads off a state how many such half drifts the
  variational centre of mass has received; the laws say which primitive does what to it (facts
  about the C primitives: Kepler / COM / jump / interaction steps do not move that entry's
  position, the explicit drift adds its coefficient, the transformations carry it over). -/

structure VClock (S : VSem T PJ X V A VX VV VA) where
  κ : PJ → Int                 -- half drifts received by the variational COM held in `p_jh`
  κx : VX → Int                -- … by the variational particles the user sees
  half : T → Int
  kepler : ∀ t p, κ (S.kepler t p) = κ p
  com : ∀ t p, κ (S.com t p) = κ p
  jump : ∀ t p, κ (S.jump t p) = κ p
  inter : ∀ t a va p, κ (S.inter t a va p) = κ p
  vcom : ∀ t p, κ (S.vcom t p) = κ p + half t
  vposOf : ∀ p, κx (S.vposOf p) = κ p
  fromI : ∀ x v vx vv p, κ (S.fromI x v vx vv p) = κx vx
  rescale : ∀ vx vv, κx (S.rescaleX vx vv) = κx vx
  ev_half : half (S.ev (.frac 1 2)) = 1

/-- both copies of the variational centre of mass have received `n` half drifts -/
def VInv {S : VSem T PJ X V A VX VV VA} (K : VClock S) (n : Int)
    (x : Flags × VSt PJ X V A VX VV VA) : Prop :=
  K.κx x.2.vpos = n ∧
  (K.κ x.2.pj = n ∨ (x.1.isSync = true ∧ (x.1.recalc = true ∨ x.1.allocated = false)))

/-- every API operation keeps the two copies together; a step adds exactly two half drifts to both —
    for every combination of safe_mode, keep_unsynchronized and internal flags (repaired source) -/
theorem vinv_apply {S : VSem T PJ X V A VX VV VA} (K : VClock S) (c : Config) (hv : c.vfix = true)
    (o : Op Unit) (n : Int) (x : Flags × VSt PJ X V A VX VV VA) (h : VInv K n x) :
    VInv K (n + if o.isStep then 2 else 0) (vApply S c o x) := by
  obtain ⟨⟨isSync, recalc, allocated⟩, s⟩ := x
  obtain ⟨h1, h2⟩ := h
  simp only at h1 h2
  cases o with
  | read => simpa [vApply, vOpOps, vExec, VInv, Op.isStep] using ⟨h1, h2⟩
  | poke v => simpa [vApply, vOpOps, vExec, VInv, Op.isStep] using ⟨h1, h2⟩
  | setRecalc =>
    refine ⟨by simpa [vApply, vOpOps, vExec, Op.isStep] using h1, ?_⟩
    rcases h2 with h2 | ⟨h2, _⟩
    · left; simpa [vApply, vOpOps, vExec, Op.isStep] using h2
    · right; exact ⟨h2, Or.inl rfl⟩
  | synchronize =>
    cases allocated <;> cases isSync <;> cases hk : c.keep <;>
      simp_all [vApply, vOpOps, vSyncOps, initF, vExec, vDenote, VInv, Op.isStep, K.kepler, K.com,
        K.vposOf]
  | step =>
    cases allocated <;> cases isSync <;> cases recalc <;> cases hk : c.keep <;> cases hs : c.safe <;>
      cases hp : c.p1fix <;>
      simp_all [vApply, vOpOps, vStepOps, vStepCore, vPart1Ops, vPart2Ops, vSyncOps, initF, vExec, vDenote, VInv,
        Op.isStep, K.kepler, K.com, K.jump, K.inter, K.vcom, K.vposOf, K.fromI, K.rescale, K.ev_half] <;>
      omega

def stepCount (σ : List (Op Unit)) : Int := ((σ.filter Op.isStep).length : Int)

theorem vinv_run {S : VSem T PJ X V A VX VV VA} (K : VClock S) (c : Config) (hv : c.vfix = true)
    (σ : List (Op Unit)) (n : Int) (x : Flags × VSt PJ X V A VX VV VA) (h : VInv K n x) :
    VInv K (n + 2 * stepCount σ) (vRun S c σ x) := by
  induction σ generalizing n x with
  | nil => simpa [vRun, stepCount] using h
  | cons o os ih =>
    have := ih _ _ (vinv_apply K c hv o n x h)
    have e : n + 2 * stepCount (o :: os) = (n + if o.isStep then 2 else 0) + 2 * stepCount os := by
      cases o <;> simp [stepCount, List.filter, Op.isStep] <;> omega
    rw [e]; exact this

/-- concrete clock: the state *is* the count -/
def clockSem : VSem Int Int Unit Unit Unit Int Int Unit where
  ev := fun τ => match τ with | .frac n 2 => n | .frac n 1 => 2 * n | _ => 0
  fromI := fun _ _ vx _ _ => vx
  toIpos := fun _ => ()
  toIvel := fun _ => ()
  kepler := fun _ p => p
  com := fun _ p => p
  jump := fun _ p => p
  inter := fun _ _ _ p => p
  upd := fun _ => ()
  updV := fun _ _ => ()
  vcom := fun t p => p + t
  vposOf := fun p => p
  vvelOf := fun p => p
  rescaleX := fun vx _ => vx
  rescaleV := fun _ vv => vv

def clockK : VClock clockSem where
  κ := id
  κx := id
  half := id
  kepler := fun _ _ => rfl
  com := fun _ _ => rfl
  jump := fun _ _ => rfl
  inter := fun _ _ _ _ => rfl
  vcom := fun _ _ => rfl
  vposOf := fun _ => rfl
  fromI := fun _ _ _ _ _ => rfl
  rescale := fun _ _ => rfl
  ev_half := rfl

end RV.Sync.Var
