import RV.Proofs.CollisionPrune
import RV.Proofs.TreeUpdate
/-
  Completeness of the TREE collision walk relative to the DIRECT test (helper for
  RV/Props/C13.lean).  Uses, read-only, the oct-tree model and well-formedness invariant of
  C15 (`RV.Tree`, `RV.C15.WF`, `RV.C15.In_of_mem_leaves`).
-/
set_option linter.unusedVariables false
set_option linter.unusedSimpArgs false
set_option linter.unusedSectionVars false
namespace RV.Collision
open RV RV.Tree RV.C15
variable {K : Type} [Field K] [LinearOrder K] [IsStrictOrderedRing K]

/-- the particle array as the tree code sees it (position and mass) -/
def psT (P : Nat → Part K) : Nat → Pt K := fun q => ⟨(P q).x, (P q).y, (P q).z, (P q).m⟩

theorem sq_mono' {a b : K} (h0 : 0 ≤ a) (h : a ≤ b) : a^2 ≤ b^2 := pow_le_pow_left₀ h0 h 2

theorem kw_slack (k ε w : K) (hkε : 3 ≤ 4 * (k + ε)^2) : 3 * (w/2)^2 ≤ (k*w + ε*w)^2 := by
  have e : (k * w + ε * w)^2 = w^2 * (k + ε)^2 := by ring
  rw [e]
  have hw2 : 0 ≤ w^2 := sq_nonneg _
  nlinarith

theorem drift_nb (τ dt a b c D : K) (hτ : τ^2 ≤ dt^2) (hD : dt^2 * (a^2 + b^2 + c^2) ≤ D^2) :
    (τ*a)^2 + (τ*b)^2 + (τ*c)^2 ≤ D^2 := by
  have hv : 0 ≤ a^2 + b^2 + c^2 := by positivity
  have e : (τ*a)^2 + (τ*b)^2 + (τ*c)^2 = τ^2 * (a^2 + b^2 + c^2) := by ring
  rw [e]
  exact le_trans (mul_le_mul_of_nonneg_right hτ hv) hD

theorem drift_nb_neg (τ dt a b c D : K) (hτ : τ^2 ≤ dt^2) (hD : dt^2 * (a^2 + b^2 + c^2) ≤ D^2) :
    (-(τ*a))^2 + (-(τ*b))^2 + (-(τ*c))^2 ≤ D^2 := by
  have := drift_nb τ dt a b c D hτ hD
  simpa [neg_sq] using this

theorem lt_sq_of_lt_sq_le (x A B : K) (hA : 0 ≤ A) (hAB : A ≤ B) (h : x < A^2) : x < B^2 :=
  lt_of_lt_of_le h (sq_mono' hA hAB)

/-- `descends` with an explicit slack `s`: the pruning constant may be short of √3/2 by `s/w`
    if the overlap is deeper than `s` -/
theorem descends_of_overlap_slack (k maxR1 r1 r2 w h s : K) (gx gy gz x2 y2 z2 cx cy cz : K)
    (hk : 0 ≤ k) (hw : 0 ≤ w) (hs : 0 ≤ s)
    (hH : r2 ≤ maxR1) (hm : 0 ≤ r1 + r2 - s)
    (hcx : (x2 - cx)^2 ≤ h^2) (hcy : (y2 - cy)^2 ≤ h^2) (hcz : (z2 - cz)^2 ≤ h^2)
    (hkh : 3 * h^2 ≤ (k*w + s)^2)
    (hov : (gx - x2)^2 + (gy - y2)^2 + (gz - z2)^2 < (r1 + r2 - s)^2) :
    descends k maxR1 r1 w gx gy gz cx cy cz = true := by
  unfold descends
  simp only [sc_hadd, sc_hsub, sc_hmul, sco_lt, decide_eq_true_eq]
  have hb : (x2 - cx)^2 + (y2 - cy)^2 + (z2 - cz)^2 ≤ (k*w + s)^2 := by linarith
  have hkw : 0 ≤ k*w + s := add_nonneg (mul_nonneg hk hw) hs
  have ht := tri_sq_lt (gx - x2) (gy - y2) (gz - z2) (x2 - cx) (y2 - cy) (z2 - cz)
    (r1 + r2 - s) (k*w + s) hm hkw hov hb
  have e : ∀ (u v c' : K), u - v + (v - c') = u - c' := by intro u v c'; ring
  rw [e, e, e] at ht
  have e2 : r1 + r2 - s + (k*w + s) = r1 + r2 + k*w := by ring
  rw [e2] at ht
  have h0 : 0 ≤ r1 + r2 + k*w := by linarith
  have hle : r1 + r2 + k*w ≤ r1 + maxR1 + k*w := by linarith
  have : (r1 + r2 + k*w)^2 ≤ (r1 + maxR1 + k*w)^2 := by nlinarith
  nlinarith

theorem childCell_w (c : Cell K) (o : Fin 8) : (childCell c o).w = c.w / 2 := by
  simp [childCell]

theorem sq_le_of_abs_le {a b : K} (h : |a| ≤ b) : a^2 ≤ b^2 := by
  have hb : 0 ≤ b := le_trans (abs_nonneg a) h
  have := abs_le.mp h
  nlinarith

/-- the TREE walk started from particle `i` reaches every leaf `q ≠ i` of a well-formed tree that
    passes the DIRECT test, provided `r_q ≤ max_radius1` (H) and the overlap is deeper than
    `ε·W` where `W` bounds the cell widths and `(k+ε)² ≥ 3/4` -/
theorem mem_treeWalk (k ε maxR1 W : K) (hk : 0 ≤ k) (hε : 0 ≤ ε) (hkε : 3 ≤ 4 * (k + ε)^2)
    (P : Nat → Part K) (tie : Bool) (gb g : GB K) (i q : Nat) (r1 : K)
    (hr1 : 0 ≤ r1) (hH : (P q).r ≤ maxR1) (hqi : q ≠ i)
    (hhit : directHit g r1 (P q) = true)
    (hm : 0 ≤ r1 + (P q).r - ε*W)
    (hov : (g.x - (P q).x)^2 + (g.y - (P q).y)^2 + (g.z - (P q).z)^2 < (r1 + (P q).r - ε*W)^2) :
    ∀ (t : T K) (c : Cell K), WF (psT P) tie c t → 0 ≤ c.w → c.w ≤ W → q ∈ leaves t →
      (⟨(i : Int), (q : Int), gb⟩ : Coll (GB K)) ∈ treeWalk k maxR1 P gb g i r1 t := by
  intro t
  induction t with
  | nil => intro c _ _ _ hq; simp [leaves] at hq
  | leaf c' gr q' =>
    intro c _ _ _ hq
    simp only [leaves, List.mem_singleton] at hq
    subst hq
    have : (q == i) = false := by simpa using hqi
    simp [treeWalk, this, hhit]
  | node c' gr n ch ih =>
    intro c hwf hw0 hwW hq
    have hin := In_of_mem_leaves (psT P) tie _ c hwf q hq
    obtain ⟨hcc, hch, _, _, _⟩ := hwf
    subst hcc
    obtain ⟨hx, hy, hz⟩ := hin
    have hd : descends k maxR1 r1 c'.w g.x g.y g.z c'.x c'.y c'.z = true := by
      have hs : 0 ≤ ε * c'.w := mul_nonneg hε hw0
      have hsW : ε * c'.w ≤ ε * W := mul_le_mul_of_nonneg_left hwW hε
      have hm' : 0 ≤ r1 + (P q).r - ε * c'.w := by linarith
      apply descends_of_overlap_slack k maxR1 r1 (P q).r c'.w (c'.w/2) (ε * c'.w) g.x g.y g.z
        (P q).x (P q).y (P q).z c'.x c'.y c'.z hk hw0 hs hH hm'
        (sq_le_of_abs_le hx) (sq_le_of_abs_le hy) (sq_le_of_abs_le hz)
      · exact kw_slack k ε c'.w hkε
      · have h1 : r1 + (P q).r - ε * W ≤ r1 + (P q).r - ε * c'.w := by linarith
        exact lt_sq_of_lt_sq_le _ _ _ hm h1 hov
    simp only [treeWalk, hd, if_true, List.mem_flatMap]
    simp only [leaves, List.mem_flatMap] at hq
    obtain ⟨o, _, hqo⟩ := hq
    refine ⟨o, List.mem_finRange o, ?_⟩
    apply ih o (childCell c' o) (hch o)
    · rw [childCell_w]; linarith
    · rw [childCell_w]; linarith
    · exact hqo

/-- soundness: whatever the TREE walk appends passed the DIRECT test at a leaf `q ≠ i` -/
theorem treeWalk_sound (k maxR1 : K) (P : Nat → Part K) (gb g : GB K) (i : Nat) (r1 : K) :
    ∀ (t : T K) (e : Coll (GB K)), e ∈ treeWalk k maxR1 P gb g i r1 t →
      ∃ q, q ∈ leaves t ∧ q ≠ i ∧ directHit g r1 (P q) = true ∧ e = ⟨(i : Int), (q : Int), gb⟩ := by
  intro t
  induction t with
  | nil => intro e h; simp [treeWalk] at h
  | leaf c gr q =>
    intro e h
    unfold treeWalk at h
    split at h
    · simp at h
    · rename_i hq
      split at h
      · rename_i hh
        simp only [List.mem_singleton] at h
        exact ⟨q, by simp [leaves], by simpa using hq, hh, h⟩
      · simp at h
  | node c gr n ch ih =>
    intro e h
    unfold treeWalk at h
    split at h
    · simp only [List.mem_flatMap] at h
      obtain ⟨o, _, ho⟩ := h
      obtain ⟨q, hq, h2, h3, h4⟩ := ih o e ho
      exact ⟨q, by simp only [leaves, List.mem_flatMap]; exact ⟨o, List.mem_finRange o, hq⟩, h2, h3, h4⟩
    · simp at h

/-! ### LINETREE -/

theorem cmax_eq_max' (a b : K) : cmax a b = max a b := by
  unfold cmax
  simp only [gt_iff', decide_eq_true_eq]
  split
  · rename_i h; exact (max_eq_left h.le).symm
  · rename_i h; exact (max_eq_right (not_lt.mp h)).symm

/-- norm bound through squares -/
def NB (a1 a2 a3 A : K) : Prop := 0 ≤ A ∧ a1^2 + a2^2 + a3^2 ≤ A^2

theorem NB.add {a1 a2 a3 b1 b2 b3 A B : K} (ha : NB a1 a2 a3 A) (hb : NB b1 b2 b3 B) :
    NB (a1+b1) (a2+b2) (a3+b3) (A+B) := by
  refine ⟨add_nonneg ha.1 hb.1, ?_⟩
  have hd := dot_le a1 a2 a3 b1 b2 b3 A B ha.1 hb.1 ha.2 hb.2
  nlinarith [ha.2, hb.2]

/-- the LINETREE pruning test passes for a cell that contains a partner whose straight-line
    path came strictly within `r1 + r2 - s` of p1's at some time `τ` of the step; `D1`, `D2`
    bound the two drifts `|dt|·|v|` -/
theorem descendsLine_of_path_overlap (k maxR1 r1 r2 w h s dt τ D1 D2 : K)
    (gx gy gz gvx gvy gvz x2 y2 z2 v2x v2y v2z cx cy cz : K)
    (hk : 0 ≤ k) (hw : 0 ≤ w) (hs : 0 ≤ s) (hH : r2 ≤ maxR1) (hm : 0 ≤ r1 + r2 - s)
    (hτ : τ^2 ≤ dt^2)
    (hD1 : 0 ≤ D1 ∧ dt^2 * (gvx^2 + gvy^2 + gvz^2) ≤ D1^2)
    (hD2 : 0 ≤ D2 ∧ dt^2 * (v2x^2 + v2y^2 + v2z^2) ≤ D2^2)
    (hcx : (x2 - cx)^2 ≤ h^2) (hcy : (y2 - cy)^2 ≤ h^2) (hcz : (z2 - cz)^2 ≤ h^2)
    (hkh : 3 * h^2 ≤ (k*w + s)^2)
    (hov : (gx - x2 - τ*(gvx - v2x))^2 + (gy - y2 - τ*(gvy - v2y))^2 + (gz - z2 - τ*(gvz - v2z))^2
            < (r1 + r2 - s)^2) :
    descendsLine k maxR1 (r1 + D1) D2 w gx gy gz cx cy cz = true := by
  unfold descendsLine
  simp only [sc_hadd, sc_hsub, sc_hmul, sco_lt, decide_eq_true_eq]
  have nb1 : NB (τ*gvx) (τ*gvy) (τ*gvz) D1 := ⟨hD1.1, drift_nb τ dt gvx gvy gvz D1 hτ hD1.2⟩
  have nb2 : NB (-(τ*v2x)) (-(τ*v2y)) (-(τ*v2z)) D2 := ⟨hD2.1, drift_nb_neg τ dt v2x v2y v2z D2 hτ hD2.2⟩
  have nb3 : NB (x2 - cx) (y2 - cy) (z2 - cz) (k*w + s) :=
    ⟨add_nonneg (mul_nonneg hk hw) hs, by linarith⟩
  have nb := (nb1.add nb2).add nb3
  have ht := tri_sq_lt (gx - x2 - τ*(gvx - v2x)) (gy - y2 - τ*(gvy - v2y)) (gz - z2 - τ*(gvz - v2z))
    (τ*gvx + -(τ*v2x) + (x2 - cx)) (τ*gvy + -(τ*v2y) + (y2 - cy)) (τ*gvz + -(τ*v2z) + (z2 - cz))
    (r1 + r2 - s) (D1 + D2 + (k*w + s)) hm nb.1 hov nb.2
  have e : ∀ (u x v v2 c' : K), u - x - τ*(v - v2) + (τ*v + -(τ*v2) + (x - c')) = u - c' := by
    intro u x v v2 c'; ring
  rw [e, e, e] at ht
  have h0 : 0 ≤ r1 + r2 - s + (D1 + D2 + (k*w + s)) := add_nonneg hm nb.1
  have hle : r1 + r2 - s + (D1 + D2 + (k*w + s)) ≤ r1 + D1 + maxR1 + D2 + k*w := by linarith
  have e3 : ∀ (a b c : K), (a*a + b*b + c*c) = a^2 + b^2 + c^2 := by intro a b c; ring
  have e4 : ∀ (a : K), a*a = a^2 := by intro a; ring
  rw [e3, e4]
  exact lt_sq_of_lt_sq_le _ _ _ h0 hle ht

/-- the LINETREE walk started from particle `i` reaches every leaf `q ≠ i` of a well-formed tree
    whose straight-line path came within `r_i + r_q` (deeper than `ε·W`) during the last step,
    provided `r_q ≤ max_radius1` and `D1`, `D2` bound the drifts of the two particles -/
theorem mem_lineTreeWalk (k ε maxR1 W dt D1 D2 : K) (hk : 0 ≤ k) (hε : 0 ≤ ε)
    (hkε : 3 ≤ 4 * (k + ε)^2) (hdt : dt ≠ 0)
    (P : Nat → Part K) (tie : Bool) (gb g : GB K) (i q : Nat) (r1 : K)
    (hr1 : 0 ≤ r1) (hH : (P q).r ≤ maxR1) (hqi : q ≠ i)
    (hD1 : 0 ≤ D1 ∧ dt^2 * (g.vx^2 + g.vy^2 + g.vz^2) ≤ D1^2)
    (hD2 : 0 ≤ D2 ∧ dt^2 * ((P q).vx^2 + (P q).vy^2 + (P q).vz^2) ≤ D2^2)
    (hhit : lineHit dt g r1 (P q) = true)
    (hm : 0 ≤ r1 + (P q).r - ε*W)
    (hov : lineRmin2 dt g (P q) < (r1 + (P q).r - ε*W)^2) :
    ∀ (t : T K) (c : Cell K), WF (psT P) tie c t → 0 ≤ c.w → c.w ≤ W → q ∈ leaves t →
      (⟨(i : Int), (q : Int), gb⟩ : Coll (GB K)) ∈
        lineTreeWalk k maxR1 dt D2 P gb g i r1 (r1 + D1) t := by
  obtain ⟨τ, hτ0, hτ1, hτe⟩ := lineRmin2_attained dt hdt g (P q)
  have hτ2 : τ^2 ≤ dt^2 := by
    have e : τ = (τ/dt) * dt := by field_simp
    have hs2 : (τ/dt)^2 ≤ 1 := by
      have := sq_mono' hτ0 hτ1; simpa using this
    have h3 : τ^2 = (τ/dt)^2 * dt^2 := by rw [← mul_pow, ← e]
    rw [h3]
    calc (τ/dt)^2 * dt^2 ≤ 1 * dt^2 := mul_le_mul_of_nonneg_right hs2 (sq_nonneg dt)
      _ = dt^2 := one_mul _
  have hsep : sep2 (lineQ dt g (P q)) τ =
      (g.x - (P q).x - τ*(g.vx - (P q).vx))^2 + (g.y - (P q).y - τ*(g.vy - (P q).vy))^2
        + (g.z - (P q).z - τ*(g.vz - (P q).vz))^2 := by
    simp [sep2, lineQ]
  rw [hτe, hsep] at hov
  intro t
  induction t with
  | nil => intro c _ _ _ hq; simp [leaves] at hq
  | leaf c' gr q' =>
    intro c _ _ _ hq
    simp only [leaves, List.mem_singleton] at hq
    subst hq
    have : (q == i) = false := by simpa using hqi
    simp [lineTreeWalk, this, hhit]
  | node c' gr n ch ih =>
    intro c hwf hw0 hwW hq
    have hin := In_of_mem_leaves (psT P) tie _ c hwf q hq
    obtain ⟨hcc, hch, _, _, _⟩ := hwf
    subst hcc
    obtain ⟨hx, hy, hz⟩ := hin
    have hd : descendsLine k maxR1 (r1 + D1) D2 c'.w g.x g.y g.z c'.x c'.y c'.z = true := by
      have hs : 0 ≤ ε * c'.w := mul_nonneg hε hw0
      have hsW : ε * c'.w ≤ ε * W := mul_le_mul_of_nonneg_left hwW hε
      have hm' : 0 ≤ r1 + (P q).r - ε * c'.w := by linarith
      apply descendsLine_of_path_overlap k maxR1 r1 (P q).r c'.w (c'.w/2) (ε * c'.w) dt τ D1 D2
        g.x g.y g.z g.vx g.vy g.vz (P q).x (P q).y (P q).z (P q).vx (P q).vy (P q).vz c'.x c'.y c'.z
        hk hw0 hs hH hm' hτ2 hD1 hD2
        (sq_le_of_abs_le hx) (sq_le_of_abs_le hy) (sq_le_of_abs_le hz)
      · exact kw_slack k ε c'.w hkε
      · have h1 : r1 + (P q).r - ε * W ≤ r1 + (P q).r - ε * c'.w := by linarith
        exact lt_sq_of_lt_sq_le _ _ _ hm h1 hov
    simp only [lineTreeWalk, hd, if_true, List.mem_flatMap]
    simp only [leaves, List.mem_flatMap] at hq
    obtain ⟨o, _, hqo⟩ := hq
    refine ⟨o, List.mem_finRange o, ?_⟩
    apply ih o (childCell c' o) (hch o)
    · rw [childCell_w]; linarith
    · rw [childCell_w]; linarith
    · exact hqo

theorem foldl_max_ge (f : Nat → K) : ∀ (l : List Nat) (init : K),
    init ≤ l.foldl (fun a i => cmax a (f i)) init ∧
    ∀ q ∈ l, f q ≤ l.foldl (fun a i => cmax a (f i)) init := by
  intro l
  induction l with
  | nil => intro init; simp
  | cons x r ih =>
    intro init
    simp only [List.foldl_cons, cmax_eq_max']
    obtain ⟨h1, h2⟩ := ih (max init (f x))
    simp only [cmax_eq_max'] at h1 h2
    refine ⟨le_trans (le_max_left _ _) h1, ?_⟩
    intro q hq
    rcases List.mem_cons.mp hq with rfl | hq
    · exact le_trans (le_max_right _ _) h1
    · exact h2 q hq

theorem vmax2_ge (P : Nat → Part K) (n q : Nat) (hq : q < n) :
    (P q).vx^2 + (P q).vy^2 + (P q).vz^2 ≤ vmax2 P n ∧ 0 ≤ vmax2 P n := by
  unfold vmax2
  obtain ⟨h1, h2⟩ := foldl_max_ge (fun i => (P i).vx*(P i).vx + (P i).vy*(P i).vy + (P i).vz*(P i).vz)
    (List.range n) (0 : K)
  simp only [sc_zero, sc_hadd, sc_hmul]
  refine ⟨?_, h1⟩
  have := h2 q (List.mem_range.mpr hq)
  calc (P q).vx^2 + (P q).vy^2 + (P q).vz^2
      = (P q).vx*(P q).vx + (P q).vy*(P q).vy + (P q).vz*(P q).vz := by ring
    _ ≤ _ := this

/-! ### `reb_collision_update_max_radius` -/

/-- number of entries of `l` that exceed `m` -/
def exceed (m : K) (l : List K) : Nat := (l.filter fun x => decide (m < x)).length

theorem exceed_cons (m x : K) (l : List K) :
    exceed m (x :: l) = (if m < x then 1 else 0) + exceed m l := by
  unfold exceed
  by_cases h : m < x <;> simp [List.filter_cons, h]; omega

theorem exceed_append (m : K) (a b : List K) : exceed m (a ++ b) = exceed m a + exceed m b := by
  unfold exceed; simp

theorem exceed_mono {m m' : K} (h : m ≤ m') (l : List K) : exceed m' l ≤ exceed m l := by
  induction l with
  | nil => simp [exceed]
  | cons x r ih =>
    rw [exceed_cons, exceed_cons]
    by_cases h1 : m' < x
    · have : m < x := lt_of_le_of_lt h h1
      simp [h1, this, ih]
    · by_cases h2 : m < x <;> simp [h1, h2] <;> omega

theorem exceed_zero_of_le {m : K} {l : List K} (h : ∀ x ∈ l, x ≤ m) : exceed m l = 0 := by
  unfold exceed
  simp only [List.length_eq_zero_iff, List.filter_eq_nil_iff, decide_eq_true_eq, not_lt]
  exact h

theorem le_of_exceed_zero {m : K} {l : List K} (h : exceed m l = 0) : ∀ x ∈ l, x ≤ m := by
  unfold exceed at h
  simpa only [List.length_eq_zero_iff, List.filter_eq_nil_iff, decide_eq_true_eq, not_lt] using h

/-- loop invariant of the scan: everything seen is ≤ `m0`, `m1 ≤ m0`, and at most one entry
    seen exceeds `m1` -/
theorem scanMaxRadius_spec : ∀ (rest seen : List K) (m : K × K),
    (∀ x ∈ seen, x ≤ m.1) → m.2 ≤ m.1 → exceed m.2 seen ≤ 1 →
    (∀ x ∈ seen ++ rest, x ≤ (scanMaxRadius m rest).1) ∧
    (scanMaxRadius m rest).2 ≤ (scanMaxRadius m rest).1 ∧
    exceed (scanMaxRadius m rest).2 (seen ++ rest) ≤ 1 ∧
    m.1 ≤ (scanMaxRadius m rest).1 ∧ m.2 ≤ (scanMaxRadius m rest).2 := by
  intro rest
  induction rest with
  | nil => intro seen m h1 h2 h3; simpa [scanMaxRadius] using ⟨h1, h2, h3⟩
  | cons r rest ih =>
    intro seen m h1 h2 h3
    obtain ⟨m0, m1⟩ := m
    simp only at h1 h2 h3
    have hassoc : seen ++ r :: rest = (seen ++ [r]) ++ rest := by simp
    rw [hassoc]
    unfold scanMaxRadius
    simp only [sco_le, decide_eq_true_eq]
    by_cases ha : m0 ≤ r
    · rw [if_pos ha]
      have := ih (seen ++ [r]) (r, m0)
        (by intro x hx; rcases List.mem_append.mp hx with h | h
            · exact le_trans (h1 x h) ha
            · simp at h; rw [h])
        ha
        (by rw [exceed_append, exceed_zero_of_le h1, exceed_cons]; simp [exceed]; split <;> omega)
      obtain ⟨a, b, c, d, e⟩ := this
      exact ⟨a, b, c, le_trans ha d, le_trans h2 e⟩
    · rw [if_neg ha]
      have hlt : r < m0 := not_le.mp ha
      by_cases hb : m1 ≤ r
      · rw [if_pos hb]
        have := ih (seen ++ [r]) (m0, r)
          (by intro x hx; rcases List.mem_append.mp hx with h | h
              · exact h1 x h
              · simp at h; rw [h]; exact hlt.le)
          hlt.le
          (by rw [exceed_append, exceed_cons]; simp [exceed]
              exact le_trans (exceed_mono hb seen) h3)
        obtain ⟨a, b, c, d, e⟩ := this
        exact ⟨a, b, c, d, le_trans hb e⟩
      · rw [if_neg hb]
        have := ih (seen ++ [r]) (m0, m1)
          (by intro x hx; rcases List.mem_append.mp hx with h | h
              · exact h1 x h
              · simp at h; rw [h]; exact hlt.le)
          h2
          (by rw [exceed_append, exceed_cons]
              have : ¬ m1 < r := fun h => hb h.le
              simp [this, exceed]; exact h3)
        exact this

theorem cmax_eq_max (a b : K) : cmax a b = max a b := by
  unfold cmax
  simp only [gt_iff', decide_eq_true_eq]
  split
  · rename_i h; exact (max_eq_left h.le).symm
  · rename_i h; exact (max_eq_right (not_lt.mp h)).symm

/-- after `reb_collision_update_max_radius`: every radius ≤ max_radius0, at most one radius
    exceeds max_radius1, and the stored values did not decrease -/
theorem updateMaxRadius_spec (old0 old1 : K) (radii : List K) :
    (∀ x ∈ radii, x ≤ (updateMaxRadius old0 old1 radii).1) ∧
    exceed (updateMaxRadius old0 old1 radii).2 radii ≤ 1 ∧
    old0 ≤ (updateMaxRadius old0 old1 radii).1 ∧ old1 ≤ (updateMaxRadius old0 old1 radii).2 := by
  have h := scanMaxRadius_spec radii [] ((0 : K), (0 : K)) (by simp) (le_refl _) (by simp [exceed])
  simp only [List.nil_append] at h
  obtain ⟨a, b, c, _, _⟩ := h
  unfold updateMaxRadius
  simp only [cmax_eq_max, sc_zero]
  refine ⟨fun x hx => le_trans (a x hx) (le_max_right _ _), ?_, le_max_left _ _, le_max_left _ _⟩
  exact le_trans (exceed_mono (le_max_right _ _) radii) c

/-- "at most one exceeds" ⇒ of any two entries at different positions one is bounded -/
theorem exceed_pair (m : K) : ∀ (l : List K), exceed m l ≤ 1 → ∀ (a b : Nat) (hab : a < b)
    (hb : b < l.length), l[a]'(by omega) ≤ m ∨ l[b] ≤ m := by
  intro l
  induction l with
  | nil => intro _ a b _ hb; simp at hb
  | cons x r ih =>
    intro h a b hab hb
    rw [exceed_cons] at h
    cases a with
    | zero =>
      by_cases hx : m < x
      · right
        simp only [hx, if_true] at h
        have h0 : exceed m r = 0 := by omega
        obtain ⟨b', rfl⟩ : ∃ b', b = b' + 1 := ⟨b - 1, by omega⟩
        simp only [List.getElem_cons_succ]
        exact le_of_exceed_zero h0 _ (List.getElem_mem _)
      · left; simpa using not_lt.mp hx
    | succ a' =>
      obtain ⟨b', rfl⟩ : ∃ b', b = b' + 1 := ⟨b - 1, by omega⟩
      simp only [List.getElem_cons_succ]
      exact ih (by omega) a' b' (by omega) (by simpa using hb)

end RV.Collision
