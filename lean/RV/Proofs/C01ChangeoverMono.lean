import RV.Proofs.C01ChangeoverAll
import Mathlib.Analysis.Calculus.Deriv.Pow
import Mathlib.Analysis.Calculus.Deriv.MeanValue
import Mathlib.Data.Rat.Cast.Order
/-
  C01 — monotonicity of the degree-9 / degree-11 changeover polynomials `pC4`, `pC5` (integrator_mercurius.c) on [0,1], at full
  strength: over ℝ the derivative is `630 y⁴(1−y)⁴` resp. `2772 y⁵(1−y)⁵`, non-negative on [0,1]; the mean-value theorem gives
  monotonicity there, and the cast ℚ → ℝ is an order embedding commuting with the polynomial.
-/
namespace RV.C01.ChangeoverMono
open RV.C01.Changeover RV.C01.ChangeoverAll

def c4R (y : ℝ) : ℝ := 70*y^9 - 315*y^8 + 540*y^7 - 420*y^6 + 126*y^5
def c5R (y : ℝ) : ℝ := -252*y^11 + 1386*y^10 - 3080*y^9 + 3465*y^8 - 1980*y^7 + 462*y^6

theorem c4_cast (a : Rat) : ((pC4 a : Rat) : ℝ) = c4R (a : ℝ) := by unfold pC4 c4R; push_cast; ring
theorem c5_cast (a : Rat) : ((pC5 a : Rat) : ℝ) = c5R (a : ℝ) := by unfold pC5 c5R; push_cast; ring

theorem c4_hasDeriv (x : ℝ) : HasDerivAt c4R (630 * x^4 * (1-x)^4) x := by
  have h := (((((hasDerivAt_pow 9 x).const_mul 70).sub ((hasDerivAt_pow 8 x).const_mul 315)).add
    ((hasDerivAt_pow 7 x).const_mul 540)).sub ((hasDerivAt_pow 6 x).const_mul 420)).add ((hasDerivAt_pow 5 x).const_mul 126)
  have h2 : HasDerivAt _ (630 * x^4 * (1-x)^4) x := h.congr_deriv (by norm_num; ring)
  exact h2
theorem c5_hasDeriv (x : ℝ) : HasDerivAt c5R (2772 * x^5 * (1-x)^5) x := by
  have h := ((((((hasDerivAt_pow 11 x).const_mul (-252)).add ((hasDerivAt_pow 10 x).const_mul 1386)).sub
    ((hasDerivAt_pow 9 x).const_mul 3080)).add ((hasDerivAt_pow 8 x).const_mul 3465)).sub ((hasDerivAt_pow 7 x).const_mul 1980)).add
    ((hasDerivAt_pow 6 x).const_mul 462)
  have h2 : HasDerivAt _ (2772 * x^5 * (1-x)^5) x := h.congr_deriv (by norm_num; ring)
  exact h2

theorem c4R_mono : MonotoneOn c4R (Set.Icc 0 1) := by
  apply monotoneOn_of_deriv_nonneg (convex_Icc 0 1)
  · exact fun x _ => (c4_hasDeriv x).continuousAt.continuousWithinAt
  · exact fun x _ => (c4_hasDeriv x).differentiableAt.differentiableWithinAt
  · intro x _; rw [(c4_hasDeriv x).deriv]; positivity
theorem c5R_mono : MonotoneOn c5R (Set.Icc 0 1) := by
  apply monotoneOn_of_deriv_nonneg (convex_Icc 0 1)
  · exact fun x _ => (c5_hasDeriv x).continuousAt.continuousWithinAt
  · exact fun x _ => (c5_hasDeriv x).differentiableAt.differentiableWithinAt
  · intro x hx; rw [interior_Icc] at hx; rw [(c5_hasDeriv x).deriv]
    have h0 : 0 ≤ x := le_of_lt hx.1
    have h1 : 0 ≤ 1 - x := sub_nonneg.mpr (le_of_lt hx.2)
    positivity

theorem c4_mono (a b : Rat) (h0 : 0 ≤ a) (hab : a ≤ b) (h1 : b ≤ 1) : pC4 a ≤ pC4 b := by
  have ha : (a : ℝ) ∈ Set.Icc (0 : ℝ) 1 := ⟨by exact_mod_cast h0, by exact_mod_cast le_trans hab h1⟩
  have hb : (b : ℝ) ∈ Set.Icc (0 : ℝ) 1 := ⟨by exact_mod_cast le_trans h0 hab, by exact_mod_cast h1⟩
  have := c4R_mono ha hb (by exact_mod_cast hab)
  rw [← c4_cast, ← c4_cast] at this; exact_mod_cast this
theorem c5_mono (a b : Rat) (h0 : 0 ≤ a) (hab : a ≤ b) (h1 : b ≤ 1) : pC5 a ≤ pC5 b := by
  have ha : (a : ℝ) ∈ Set.Icc (0 : ℝ) 1 := ⟨by exact_mod_cast h0, by exact_mod_cast le_trans hab h1⟩
  have hb : (b : ℝ) ∈ Set.Icc (0 : ℝ) 1 := ⟨by exact_mod_cast le_trans h0 hab, by exact_mod_cast h1⟩
  have := c5R_mono ha hb (by exact_mod_cast hab)
  rw [← c5_cast, ← c5_cast] at this; exact_mod_cast this

/-- L_C4 and L_C5 are monotone non-decreasing in the distance for every dcrit > 0 -/
theorem c4_changeover_mono (d d' dcrit : Rat) (hc : 0 < dcrit) (h : d ≤ d') : LC4 d dcrit ≤ LC4 d' dcrit :=
  changeover_mono pC4 ss_c4 c4_mono d d' dcrit hc h
theorem c5_changeover_mono (d d' dcrit : Rat) (hc : 0 < dcrit) (h : d ≤ d') : LC5 d dcrit ≤ LC5 d' dcrit :=
  changeover_mono pC5 ss_c5 c5_mono d d' dcrit hc h

/-! ### strict monotonicity inside the transition zone (no plateau between 0.1·dcrit and dcrit) -/
def mR (y : ℝ) : ℝ := 10*y^3 - 15*y^4 + 6*y^5
theorem m_cast (a : Rat) : ((pMercury a : Rat) : ℝ) = mR (a : ℝ) := by unfold pMercury mR; push_cast; ring
theorem m_hasDeriv (x : ℝ) : HasDerivAt mR (30 * x^2 * (1-x)^2) x := by
  have h := (((hasDerivAt_pow 3 x).const_mul 10).sub ((hasDerivAt_pow 4 x).const_mul 15)).add ((hasDerivAt_pow 5 x).const_mul 6)
  have h2 : HasDerivAt _ (30 * x^2 * (1-x)^2) x := h.congr_deriv (by norm_num; ring)
  exact h2

theorem strict_of_deriv (f : ℝ → ℝ) (f' : ℝ → ℝ) (hd : ∀ x, HasDerivAt f (f' x) x) (hpos : ∀ x ∈ Set.Ioo (0:ℝ) 1, 0 < f' x) :
    StrictMonoOn f (Set.Icc 0 1) := by
  apply strictMonoOn_of_deriv_pos (convex_Icc 0 1)
  · exact fun x _ => (hd x).continuousAt.continuousWithinAt
  · intro x hx; rw [interior_Icc] at hx; rw [(hd x).deriv]; exact hpos x hx

theorem mR_strict : StrictMonoOn mR (Set.Icc 0 1) :=
  strict_of_deriv mR _ m_hasDeriv (fun x hx => by
    have h0 : 0 < x := hx.1
    have h1 : 0 < 1 - x := sub_pos.mpr hx.2
    positivity)
theorem c4R_strict : StrictMonoOn c4R (Set.Icc 0 1) :=
  strict_of_deriv c4R _ c4_hasDeriv (fun x hx => by
    have h0 : 0 < x := hx.1
    have h1 : 0 < 1 - x := sub_pos.mpr hx.2
    positivity)
theorem c5R_strict : StrictMonoOn c5R (Set.Icc 0 1) :=
  strict_of_deriv c5R _ c5_hasDeriv (fun x hx => by
    have h0 : 0 < x := hx.1
    have h1 : 0 < 1 - x := sub_pos.mpr hx.2
    positivity)

theorem strict_cast (p : Rat → Rat) (f : ℝ → ℝ) (hc : ∀ a : Rat, ((p a : Rat) : ℝ) = f (a : ℝ)) (hf : StrictMonoOn f (Set.Icc 0 1))
    (a b : Rat) (h0 : 0 ≤ a) (hab : a < b) (h1 : b ≤ 1) : p a < p b := by
  have ha : (a : ℝ) ∈ Set.Icc (0 : ℝ) 1 := ⟨by exact_mod_cast h0, by exact_mod_cast le_trans (le_of_lt hab) h1⟩
  have hb : (b : ℝ) ∈ Set.Icc (0 : ℝ) 1 := ⟨by exact_mod_cast le_trans h0 (le_of_lt hab), by exact_mod_cast h1⟩
  have := hf ha hb (by exact_mod_cast hab)
  rw [← hc, ← hc] at this; exact_mod_cast this

/-- inside the transition zone `dcrit/10 ≤ d < d' ≤ dcrit` every polynomial changeover function is strictly increasing -/
theorem changeover_strict (p : Rat → Rat) (hm : ∀ a b, 0 ≤ a → a < b → b ≤ 1 → p a < p b)
    (d d' dcrit : Rat) (hc : 0 < dcrit) (hlo : dcrit / 10 ≤ d) (h : d < d') (hhi : d' ≤ dcrit) :
    changeover p d dcrit < changeover p d' dcrit := by
  have h9 : (0 : Rat) < 9 / 10 * dcrit := by positivity
  have hy : yOf d dcrit < yOf d' dcrit := by unfold yOf; exact div_lt_div_of_pos_right (by linarith) h9
  have a0 : ¬ yOf d dcrit < 0 := fun hh => absurd ((y_nonneg_iff d dcrit hc).mp hh) (not_lt.mpr hlo)
  have b1 : ¬ yOf d' dcrit > 1 := fun hh => absurd ((y_gt_one_iff d' dcrit hc).mp hh) (not_lt.mpr hhi)
  have a1 : ¬ yOf d dcrit > 1 := fun hh => b1 (lt_trans hh hy)
  have b0 : ¬ yOf d' dcrit < 0 := fun hh => a0 (lt_trans hy hh)
  unfold changeover
  simp only [a0, a1, b0, b1, if_false]
  exact hm _ _ (le_of_not_gt a0) hy (le_of_not_gt b1)

theorem all_strict (d d' dcrit : Rat) (hc : 0 < dcrit) (hlo : dcrit / 10 ≤ d) (h : d < d') (hhi : d' ≤ dcrit) :
    Lmercury d dcrit < Lmercury d' dcrit ∧ LC4 d dcrit < LC4 d' dcrit ∧ LC5 d dcrit < LC5 d' dcrit :=
  ⟨changeover_strict pMercury (strict_cast pMercury mR m_cast mR_strict) d d' dcrit hc hlo h hhi,
   changeover_strict pC4 (strict_cast pC4 c4R c4_cast c4R_strict) d d' dcrit hc hlo h hhi,
   changeover_strict pC5 (strict_cast pC5 c5R c5_cast c5R_strict) d d' dcrit hc hlo h hhi⟩
end RV.C01.ChangeoverMono
