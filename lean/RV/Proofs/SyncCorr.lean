import RV.Proofs.SyncPhys
import Mathlib.Tactic.Abel
/-
  C09 / A7: the first symplectic corrector with inv = 1 undoes the one with inv = -1,
  from the group laws of its factors and the palindromic structure of its table.
-/
set_option linter.unusedVariables false
set_option linter.unusedSimpArgs false
set_option linter.unusedSectionVars false
namespace RV.Sync
variable {T PJ X V A : Type} [AddCommGroup T]

/-- laws of the factors of `reb_whfast_corrector_Z` -/
structure CorrLaws (S : Sem T PJ X V A) : Prop where
  kepler_add : ∀ a b p, S.kepler a (S.kepler b p) = S.kepler (a + b) p
  kepler_zero : ∀ p, S.kepler 0 p = p
  /-- a kick adds to the velocities linearly in its coefficient, at fixed accelerations -/
  inter_add : ∀ a b acc p, S.inter a acc (S.inter b acc p) = S.inter (a + b) acc p
  inter_zero : ∀ acc p, S.inter 0 acc p = p
  /-- a kick does not move the positions the accelerations are computed from -/
  posJ_inter : ∀ b acc p, S.posJ (S.inter b acc p) = S.posJ p
  posB_inter : ∀ b acc p, S.posB (S.inter b acc p) = S.posB p
  ev_corrA_neg : ∀ i m, S.ev (.corrA i (-m)) = -S.ev (.corrA i m)
  ev_corrA_double : ∀ i m, S.ev (.corrA i (-2 * m)) = -(S.ev (.corrA i m) + S.ev (.corrA i m))
  ev_corrB_neg : ∀ n s, S.ev (.corrB n (-s)) = -S.ev (.corrB n s)

/-- `Z(a,b)` followed by `Z(-a,b)` is the identity on the internal coordinates -/
theorem zOps_inverse {S : Sem T PJ X V A} (L : CorrLaws S) (co : Coord) (ai : Nat) (am : Int)
    (bn : Nat) (bs : Int) (s : St PJ X V A) :
    (exec S (zOps co ai am bn bs ++ zOps co ai (-am) bn bs) s).pj = s.pj := by
  have e2 : S.ev (.corrA ai (-2 * -am)) = S.ev (.corrA ai am) + S.ev (.corrA ai am) := by
    rw [L.ev_corrA_double, L.ev_corrA_neg]; abel
  cases co <;>
    simp only [zOps, exec, denote, List.append, List.cons_append, List.nil_append,
      L.ev_corrA_neg, L.ev_corrA_double, L.ev_corrB_neg, e2, L.kepler_add, L.inter_add,
      L.posJ_inter, L.posB_inter, neg_add_cancel, add_neg_cancel, L.kepler_zero, L.inter_zero,
      neg_neg, neg_add_rev, add_assoc, neg_add_cancel_left, add_neg_cancel_left]

/-- the table entry whose `inv = 1` operator is the inverse of this entry's `inv = -1` operator -/
def entryInv (e : Nat × Int × Nat × Int) : Nat × Int × Nat × Int := (e.1, -e.2.1, e.2.2.1, -e.2.2.2)

theorem zList_append (co : Coord) (inv : Int) (a b : List (Nat × Int × Nat × Int)) :
    zList co inv (a ++ b) = zList co inv a ++ zList co inv b := by
  induction a with
  | nil => rfl
  | cons x r ih =>
    obtain ⟨ai, as, bn, bs⟩ := x
    simp [zList, ih, List.append_assoc]

/-- a Z-list with `inv = -1` followed by the reversed list of inverse entries with `inv = 1`
    is the identity on the internal coordinates -/
theorem zList_inverse {S : Sem T PJ X V A} (L : CorrLaws S) (co : Coord)
    (l : List (Nat × Int × Nat × Int)) (s : St PJ X V A) :
    (exec S (zList co (-1) l ++ zList co 1 (l.reverse.map entryInv)) s).pj = s.pj := by
  induction l generalizing s with
  | nil => rfl
  | cons x r ih =>
    obtain ⟨ai, as, bn, bs⟩ := x
    have e : zList co 1 ((((ai, as, bn, bs) :: r).reverse).map entryInv) =
        zList co 1 (r.reverse.map entryInv) ++ zOps co ai (-as) bn (-bs) := by
      rw [List.reverse_cons, List.map_append, zList_append]
      simp [zList, entryInv]
    rw [e]
    show (exec S ((zOps co ai as bn (bs * -1) ++ zList co (-1) r) ++
      (zList co 1 (r.reverse.map entryInv) ++ zOps co ai (-as) bn (-bs))) s).pj = s.pj
    have hb : bs * -1 = -bs := by omega
    rw [hb]
    have e2 : (zOps co ai as bn (-bs) ++ zList co (-1) r) ++
        (zList co 1 (r.reverse.map entryInv) ++ zOps co ai (-as) bn (-bs)) =
        zOps co ai as bn (-bs) ++ ((zList co (-1) r ++ zList co 1 (r.reverse.map entryInv)) ++
        zOps co ai (-as) bn (-bs)) := by simp [List.append_assoc]
    rw [e2, exec_append, exec_append]
    -- the middle is the identity on pj, the last Z only depends on pj
    rw [closed_pj_congr S (closed_zOps co ai (-as) bn (-bs)) (ih _), ← exec_append]
    exact zOps_inverse L co ai as bn (-bs) s

/-- every corrector table is a palindrome of mutually inverse entries -/
theorem corrTable_palindrome (order : Nat) :
    (corrTable order).reverse.map entryInv = corrTable order := by
  unfold corrTable
  split <;> decide

/-- **A7**: `reb_whfast_apply_corrector(r, 1, order)` undoes `reb_whfast_apply_corrector(r, -1, order)`
    on the internal coordinates, for every order and both supported coordinate systems -/
theorem corrector_inverse {S : Sem T PJ X V A} (L : CorrLaws S) (c : Config) :
    InverseOn S (corrBlk c) := by
  intro s
  unfold corrBlk
  split
  · unfold correctorOps
    have := zList_inverse L c.coord (corrTable c.corrector) s
    rw [corrTable_palindrome] at this
    exact this
  · rfl

/-! ### the repaired second corrector (fixes/F18.diff) is an inverse -/

structure C2Laws (S : Sem T PJ X V A) : Prop where
  ev_half_neg : S.ev (.frac (-1) 2) = -S.ev (.frac 1 2)
  ev_c2b_neg : S.ev (.c2b (-1)) = -S.ev (.c2b 1)

/-- `Uinv(a,b)` followed by `U(a,b)` is the identity on the internal coordinates
    (`a ∈ {±dt/2}`, `b = corrector2_b·dt`) -/
theorem opUinv_opU {S : Sem T PJ X V A} (L : CorrLaws S) (L2 : C2Laws S) (sa : Bool)
    (s : St PJ X V A) :
    (exec S (opUinv (.frac (if sa then 1 else -1) 2) (.c2b 1) ++
             opU (.frac (if sa then 1 else -1) 2) (.c2b 1)) s).pj = s.pj := by
  cases sa <;>
    simp only [opUinv, opU, opY, opC, Coef.neg, exec, denote, List.append, List.cons_append,
      List.nil_append, if_true, if_false, Bool.false_eq_true, Int.neg_neg, L2.ev_half_neg, L2.ev_c2b_neg,
      L.kepler_add, L.inter_add, L.posJ_inter, neg_add_cancel, add_neg_cancel, L.kepler_zero,
      L.inter_zero, neg_neg, neg_add_rev, add_assoc, neg_add_cancel_left, add_neg_cancel_left]

/-- with the repaired source (`c2fixed`), `apply_corrector2(1)` undoes `apply_corrector2(-1)` -/
theorem corrector2_inverse_fixed {S : Sem T PJ X V A} (L : CorrLaws S) (L2 : C2Laws S) (c : Config)
    (hf : c.c2fixed = true) : InverseOn S (c2Blk c) := by
  intro s
  unfold c2Blk
  split
  · simp only [corrector2Ops, hf, if_true]
    have e : (if (-1 : Int) > 0 then opU (.frac 1 2) (.c2b 1) ++ opU (.frac (-1) 2) (.c2b 1)
        else opUinv (.frac (-1) 2) (.c2b 1) ++ opUinv (.frac 1 2) (.c2b 1)) ++
        (if (1 : Int) > 0 then opU (.frac 1 2) (.c2b 1) ++ opU (.frac (-1) 2) (.c2b 1)
        else opUinv (.frac (-1) 2) (.c2b 1) ++ opUinv (.frac 1 2) (.c2b 1)) =
        opUinv (.frac (-1) 2) (.c2b 1) ++ ((opUinv (.frac 1 2) (.c2b 1) ++ opU (.frac 1 2) (.c2b 1)) ++
        opU (.frac (-1) 2) (.c2b 1)) := by
      simp [List.append_assoc]
    rw [e, exec_append, exec_append]
    have h1 := opUinv_opU L L2 true (exec S (opUinv (.frac (-1) 2) (.c2b 1)) s)
    simp only [if_true] at h1
    rw [closed_pj_congr S (closed_opU _ _) h1, ← exec_append]
    have h2 := opUinv_opU L L2 false s
    simpa using h2
  · rfl

end RV.Sync
