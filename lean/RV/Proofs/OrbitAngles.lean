import RV.Proofs.OrbitRoundTrip
/-
  C11 (ii), angles: `acos2` returns the representative in (-π, π] of the angle whose cosine
  and sine (up to positive factors) it is given; from this the reader recovers inc, Ω, ω, f
  of the particle the constructor built.
-/
set_option linter.unusedSimpArgs false
set_option linter.unusedVariables false
set_option linter.unusedSectionVars false
set_option linter.unusedTactic false
set_option linter.unreachableTactic false
namespace RV.Orbit
variable {K : Type} [Field K] [LinearOrder K] [IsStrictOrderedRing K]

/-- what is assumed of the abstract `cos`, `sin`, `acos`, `pi` (all true of the real functions) -/
structure TrigSpec (L : Libm K) : Prop where
  pi_pos : 0 < L.pi
  sq : ∀ x, L.cos x ^ 2 + L.sin x ^ 2 = 1
  cos_zero : L.cos 0 = 1
  cos_pi : L.cos L.pi = -1
  acos_cos : ∀ t, 0 ≤ t → t ≤ L.pi → L.acos (L.cos t) = t
  sin_pos : ∀ t, 0 < t → t < L.pi → 0 < L.sin t
  cos_neg : ∀ t, L.cos (-t) = L.cos t
  sin_neg : ∀ t, L.sin (-t) = -L.sin t
  cos_add : ∀ a b, L.cos (a + b) = L.cos a * L.cos b - L.sin a * L.sin b
  sin_add : ∀ a b, L.sin (a + b) = L.sin a * L.cos b + L.cos a * L.sin b

variable {L : Libm K}

theorem TrigSpec.sin_zero (T : TrigSpec L) : L.sin 0 = 0 := by
  have := T.sq 0; rw [T.cos_zero] at this
  have h : L.sin 0 ^ 2 = 0 := by linear_combination this
  exact pow_eq_zero_iff (by norm_num) |>.mp h

theorem TrigSpec.sin_pi (T : TrigSpec L) : L.sin L.pi = 0 := by
  have := T.sq L.pi; rw [T.cos_pi] at this
  have h : L.sin L.pi ^ 2 = 0 := by linear_combination this
  exact pow_eq_zero_iff (by norm_num) |>.mp h

theorem TrigSpec.cos_sub_two_pi (T : TrigSpec L) (x : K) :
    L.cos (x - 2 * L.pi) = L.cos x ∧ L.sin (x - 2 * L.pi) = L.sin x := by
  have e : x - 2 * L.pi = x + (-(L.pi + L.pi)) := by ring
  rw [e, T.cos_add, T.sin_add, T.cos_neg, T.sin_neg, T.cos_add, T.sin_add, T.cos_pi, T.sin_pi]
  constructor <;> ring

theorem TrigSpec.cos_lt_one (T : TrigSpec L) (t : K) (h0 : 0 < t) (h1 : t < L.pi) :
    -1 < L.cos t ∧ L.cos t < 1 := by
  have hs := T.sin_pos t h0 h1
  have := T.sq t
  constructor <;> nlinarith

/-- `acos2(ρ cos θ, ρ, κ sin θ) = θ` for θ ∈ (-π, π], ρ, κ > 0 : the quadrant logic -/
theorem acos2_angle (T : TrigSpec L) (t rho kappa : K) (hr : 0 < rho) (hk : 0 < kappa)
    (h0 : -L.pi < t) (h1 : t ≤ L.pi) :
    @acos2 K L.orbitK (rho * L.cos t) rho (kappa * L.sin t) = t := by
  have hrho : rho ≠ 0 := ne_of_gt hr
  have hc : rho * L.cos t / rho = L.cos t := by field_simp
  simp only [acos2]
  have hden : (@eqB K orderedScalarO rho (0:K) && @eqB K orderedScalarO (rho * L.cos t) (0:K)) = false := by
    have : @eqB K orderedScalarO rho (0:K) = false := by
      rw [Bool.eq_false_iff]; intro h; exact hrho ((so_eqB rho 0).mp h)
    simp [this]
  simp only [sc_zero, sc_hmul, sc_hdiv, sc_one, sc_neg, hden, hc, Bool.false_eq_true, if_false, libm_acos, libm_pi]
  rcases lt_trichotomy t 0 with hneg | hz | hpos
  · -- t ∈ (-π, 0)
    have hp0 : 0 < -t := by linarith
    have hp1 : -t < L.pi := by linarith
    obtain ⟨c1, c2⟩ := T.cos_lt_one (-t) hp0 hp1
    rw [T.cos_neg] at c1 c2
    have hs : L.sin t < 0 := by
      have := T.sin_pos (-t) hp0 hp1; rw [T.sin_neg] at this; linarith
    have hd : kappa * L.sin t < 0 := mul_neg_of_pos_of_neg hk hs
    have ha : L.acos (L.cos t) = -t := by
      rw [← T.cos_neg]; exact T.acos_cos (-t) (le_of_lt hp0) (le_of_lt hp1)
    simp [so_lt, c1, c2, hd, ha]
  · subst hz
    simp [so_lt, so_le, T.cos_zero]
  · rcases lt_or_eq_of_le h1 with hlt | heq
    · obtain ⟨c1, c2⟩ := T.cos_lt_one t hpos hlt
      have hs := T.sin_pos t hpos hlt
      have hd : ¬ kappa * L.sin t < 0 := not_lt.mpr (le_of_lt (mul_pos hk hs))
      have ha := T.acos_cos t (le_of_lt hpos) h1
      simp [so_lt, c1, c2, hd, ha]
    · rw [heq]
      simp [so_lt, so_le, T.cos_pi]

/-- every angle in [0, 4π) has a representative in (-π, π] with the same cosine and sine -/
theorem TrigSpec.reduce (T : TrigSpec L) (u : K) (h0 : 0 ≤ u) (h1 : u < 4 * L.pi) :
    ∃ (t : K) (j : ℤ), -L.pi < t ∧ t ≤ L.pi ∧ t = u - j * (2 * L.pi) ∧ L.cos t = L.cos u ∧ L.sin t = L.sin u := by
  have hp := T.pi_pos
  by_cases c1 : u ≤ L.pi
  · exact ⟨u, 0, by linarith, c1, by simp, rfl, rfl⟩
  · by_cases c2 : u ≤ 3 * L.pi
    · obtain ⟨e1, e2⟩ := T.cos_sub_two_pi u
      exact ⟨u - 2 * L.pi, 1, by linarith, by linarith, by simp, e1, e2⟩
    · obtain ⟨e1, e2⟩ := T.cos_sub_two_pi u
      obtain ⟨e3, e4⟩ := T.cos_sub_two_pi (u - 2 * L.pi)
      refine ⟨u - 2 * L.pi - 2 * L.pi, 2, by linarith, by linarith, by push_cast; ring, e3.trans e1, e4.trans e2⟩

/-- `mod2pi` returns the representative in [0, 2π) -/
theorem mod2pi_unique (hf : FmodSpec L.fmod) (hpi : 0 < L.pi) (x f : K) (j : ℤ)
    (hf0 : 0 ≤ f) (hf1 : f < 2 * L.pi) (hx : x = f + j * (2 * L.pi)) :
    @mod2pi K L.orbitK x = f := by
  obtain ⟨r0, r1⟩ := mod2pi_range L hf hpi x
  obtain ⟨n, hn⟩ := mod2piCore_congr L.fmod hf L.pi hpi x
  have hn' : @mod2pi K L.orbitK x = x - n * (2 * L.pi) := hn
  have hp : (0 : K) < 2 * L.pi := by linarith
  have key : @mod2pi K L.orbitK x - f = ((j - n : ℤ) : K) * (2 * L.pi) := by
    rw [hn', hx]; push_cast; ring
  have hlt : ((j - n : ℤ) : K) * (2 * L.pi) < 1 * (2 * L.pi) := by rw [← key]; linarith
  have hgt : (-1 : K) * (2 * L.pi) < ((j - n : ℤ) : K) * (2 * L.pi) := by rw [← key]; linarith
  have h1 : ((j - n : ℤ) : K) < 1 := lt_of_mul_lt_mul_right hlt (le_of_lt hp)
  have h2 : (-1 : K) < ((j - n : ℤ) : K) := lt_of_mul_lt_mul_right hgt (le_of_lt hp)
  have h1' : (j - n : ℤ) < 1 := by exact_mod_cast h1
  have h2' : (-1 : ℤ) < (j - n : ℤ) := by exact_mod_cast h2
  have hz : (j - n : ℤ) = 0 := by omega
  rw [hz] at key
  have : @mod2pi K L.orbitK x - f = 0 := by rw [key]; simp
  linarith

/-! projections of `orbitBody` (definitional) -/
theorem orbitBody_inc (v : Variant) (i : Inv K) (t0 : K) :
    (@orbitBody K L.orbitK v i t0).inc = @acos2 K L.orbitK i.hz i.h 1 := rfl

theorem orbitBody_Omega (v : Variant) (i : Inv K) (t0 : K) :
    (@orbitBody K L.orbitK v i t0).Omega =
      @acos2 K L.orbitK (-i.hy) (L.sqrt ((-i.hy) * (-i.hy) + i.hx * i.hx)) i.hx := rfl

/-- geometry of the constructed particle: `r > 0`, `H = |h| > 0`, positions and `h` vector -/
theorem constructor_geometry (L : Libm K)
    (htrig : ∀ x, L.cos x ^ 2 + L.sin x ^ 2 = 1)
    (hsqrt : ∀ x, 0 ≤ x → 0 ≤ L.sqrt x ∧ L.sqrt x ^ 2 = x)
    (v : Variant) (G : K) (pr : Part K) (m a e inc Om om f : K) (P : Part K)
    (hP : @fromOrbit K L.orbitK v G pr m a e inc Om om f = .ok P)
    (hmu : 0 < G * (m + pr.m)) (ha : a ≠ 0) (hasym : v.asymLe = false → e * L.cos f ≠ -1) :
    ∃ r H : K, 0 < r ∧ 0 < H ∧ 0 ≤ e ∧ r = a * (1 - e * e) / (1 + e * L.cos f) ∧
      P.x - pr.x = r * (L.cos Om * (L.cos om * L.cos f - L.sin om * L.sin f) -
        L.sin Om * (L.sin om * L.cos f + L.cos om * L.sin f) * L.cos inc) ∧
      P.y - pr.y = r * (L.sin Om * (L.cos om * L.cos f - L.sin om * L.sin f) +
        L.cos Om * (L.sin om * L.cos f + L.cos om * L.sin f) * L.cos inc) ∧
      P.z - pr.z = r * (L.sin om * L.cos f + L.cos om * L.sin f) * L.sin inc ∧
      (P.y - pr.y) * (P.vz - pr.vz) - (P.z - pr.z) * (P.vy - pr.vy) = H * L.sin inc * L.sin Om ∧
      (P.z - pr.z) * (P.vx - pr.vx) - (P.x - pr.x) * (P.vz - pr.vz) = -(H * L.sin inc * L.cos Om) ∧
      (P.x - pr.x) * (P.vy - pr.vy) - (P.y - pr.y) * (P.vx - pr.vx) = H * L.cos inc := by
  obtain ⟨hchk, hPc⟩ := fromOrbit_ok L v G pr m a e inc Om om f P hP
  obtain ⟨he, hd, hpos, hdpos⟩ := guard_denoms _ _ _ _ _ _ hchk (fun _ => ha) hasym
  have he0 : 0 ≤ e := ((check_none_iff _ _ _ _ _ _).mp hchk).2.1
  have hv0 : 0 ≤ v0sq G pr.m m a e := by
    rw [v0sq_eq, div_div]; exact div_nonneg (le_of_lt hmu) (le_of_lt hpos)
  obtain ⟨hs0, hs2⟩ := hsqrt _ hv0
  have R := core_relations G pr m a e (L.cos Om) (L.sin Om) (L.cos om) (L.sin om) (L.cos f) (L.sin f)
    (L.cos inc) (L.sin inc) (L.sqrt (v0sq G pr.m m a e)) (htrig _) (htrig _) (htrig _) (htrig _) ha he hd (by rw [← v0sq_eq]; exact hs2)
  obtain ⟨e1, e2, e3, e4, e5, e6, e7⟩ := core_rel pr m a e (L.cos Om) (L.sin Om) (L.cos om) (L.sin om)
    (L.cos f) (L.sin f) (L.cos inc) (L.sin inc) (L.sqrt (v0sq G pr.m m a e))
  rw [← hPc] at R e1 e2 e3
  rw [radius_eq] at e1 e2 e3
  obtain ⟨R1, R2, R3, ⟨R4, Rz, Rx, Ry⟩, R5⟩ := R
  have hv0pos : 0 < L.sqrt (v0sq G pr.m m a e) := by
    rcases lt_or_eq_of_le hs0 with h | h
    · exact h
    · exfalso
      rw [← h] at hs2
      have : v0sq G pr.m m a e = 0 := by rw [← hs2]; ring
      rw [v0sq_eq, div_div] at this
      have h2 : 0 < G * (m + pr.m) / (a * (1 - e * e)) := div_pos hmu hpos
      linarith
  exact ⟨_, a * (1 - e * e) * L.sqrt (v0sq G pr.m m a e), div_pos hpos hdpos, mul_pos hpos hv0pos, he0, rfl,
    e1, e2, e3, Rx, Ry, Rz⟩

/-- `acos2` with a disambiguator that merely has the sign of `sin t` -/
theorem acos2_angle' (T : TrigSpec L) (t rho dis : K) (hr : 0 < rho)
    (h0 : -L.pi < t) (h1 : t ≤ L.pi)
    (hd1 : L.sin t < 0 → dis < 0) (hd2 : 0 < L.sin t → 0 ≤ dis) :
    @acos2 K L.orbitK (rho * L.cos t) rho dis = t := by
  have key := acos2_angle T t rho 1 hr one_pos h0 h1
  rw [one_mul] at key
  -- the disambiguator is only inspected through `dis < 0`
  have hsame : (decide (dis < 0)) = decide (L.sin t < 0) ∨ L.sin t = 0 := by
    rcases lt_trichotomy (L.sin t) 0 with h | h | h
    · left; simp [h, hd1 h]
    · right; exact h
    · left; have := hd2 h; simp [not_lt.mpr this, not_lt.mpr (le_of_lt h)]
  rcases hsame with h | h
  · have hsw : @acos2 K L.orbitK (rho * L.cos t) rho dis = @acos2 K L.orbitK (rho * L.cos t) rho (L.sin t) := by
      have h' : @ScalarO.lt K orderedScalarO dis (0:K) = @ScalarO.lt K orderedScalarO (L.sin t) (0:K) := h
      simp only [acos2, sc_zero, h']
    rw [hsw, key]
  · -- sin t = 0: t = 0 or t = π, the disambiguator is not consulted
    have hsq := T.sq t
    rw [h] at hsq
    have hc : (L.cos t - 1) * (L.cos t + 1) = 0 := by linear_combination hsq
    rcases lt_trichotomy t 0 with hneg | hz | hpos
    · have := T.sin_pos (-t) (by linarith) (by linarith); rw [T.sin_neg, h] at this; linarith
    · subst hz
      have hrho : rho ≠ 0 := ne_of_gt hr
      have hden : (@eqB K orderedScalarO rho (0:K) && @eqB K orderedScalarO (rho * L.cos 0) (0:K)) = false := by
        have : @eqB K orderedScalarO rho (0:K) = false := by
          rw [Bool.eq_false_iff]; intro h; exact hrho ((so_eqB rho 0).mp h)
        simp [this]
      have hcc : rho * L.cos 0 / rho = L.cos 0 := by field_simp
      simp only [acos2, sc_zero, sc_hmul, sc_hdiv, sc_one, sc_neg, hden, hcc, Bool.false_eq_true, if_false]
      simp [so_lt, so_le, T.cos_zero]
    · rcases lt_or_eq_of_le h1 with hlt | heq
      · have := T.sin_pos t hpos hlt; rw [h] at this; linarith
      · rw [heq]
        have hrho : rho ≠ 0 := ne_of_gt hr
        have hden : (@eqB K orderedScalarO rho (0:K) && @eqB K orderedScalarO (rho * L.cos L.pi) (0:K)) = false := by
          have : @eqB K orderedScalarO rho (0:K) = false := by
            rw [Bool.eq_false_iff]; intro h; exact hrho ((so_eqB rho 0).mp h)
          simp [this]
        have hcc : rho * L.cos L.pi / rho = L.cos L.pi := by field_simp
        simp only [acos2, sc_zero, sc_hmul, sc_hdiv, sc_one, sc_neg, hden, hcc, Bool.false_eq_true, if_false, libm_pi]
        simp [so_lt, so_le, T.cos_pi]

/-- the generic (non-planar) branch of the angle switch -/
theorem readerAngles_generic (inc Omega e M d dx dy dz ex ey ez nx ny nn : K)
    (h1 : ¬ inc < 1 / 100000000) (h2 : ¬ L.pi - 1 / 100000000 < inc) :
    let A := @readerAngles K L.orbitK inc Omega e M d dx dy dz ex ey ez nx ny nn
    let w := @acos2 K L.orbitK (nx * ex + ny * ey) (nn * e) ez
    let wpf := @acos2 K L.orbitK (nx * dx + ny * dy) (nn * d) dz
    A.omega = w ∧ A.f = wpf - w ∧
    (inc < L.pi / 2 → A.pomega = Omega + w ∧ A.theta = Omega + wpf) ∧
    (¬ inc < L.pi / 2 → A.pomega = Omega - w ∧ A.theta = Omega - wpf) := by
  intro A w wpf
  have hc : (@ScalarO.lt K orderedScalarO inc c1em8 || @ScalarO.lt K orderedScalarO (L.pi - c1em8) inc) = false := by
    simp only [c1em8, sc_hdiv, sc_one, sc_ofNat, Nat.cast_ofNat, ScalarO.lt]
    have h1' : (100000000 : K)⁻¹ ≤ inc := by rw [← one_div]; exact not_lt.mp h1
    have h2' : inc ≤ L.pi - (100000000 : K)⁻¹ := by rw [← one_div]; exact not_lt.mp h2
    simp [h1', h2']
  simp only [A, w, wpf, readerAngles, libm_pi, sc_hsub, sc_hadd, sc_hmul, sc_hdiv, hc, Bool.false_eq_true, if_false,
    two, sc_ofNat, Nat.cast_ofNat]
  by_cases hp : inc < L.pi / 2
  · simp [ScalarO.lt, hp]
  · simp [ScalarO.lt, hp]

theorem orbitBody_angles (v : Variant) (i : Inv K) (t0 : K) :
    ∃ M : K,
    let o := @orbitBody K L.orbitK v i t0
    let A := @readerAngles K L.orbitK o.inc o.Omega o.e M o.d i.dx i.dy i.dz o.ex o.ey o.ez (-i.hy) i.hx
      (L.sqrt ((-i.hy) * (-i.hy) + i.hx * i.hx))
    o.omega = @mod2pi K L.orbitK A.omega ∧ o.f = @mod2pi K L.orbitK A.f ∧
    o.theta = @mod2pi K L.orbitK A.theta ∧ o.pomega = A.pomega ∧ o.d = i.d :=
  ⟨_, rfl, rfl, rfl, rfl, rfl⟩

theorem invariants_rel (G : K) (P pr : Part K) :
    let i := @invariants K L.orbitK G P pr
    i.dx = P.x - pr.x ∧ i.dy = P.y - pr.y ∧ i.dz = P.z - pr.z ∧
    i.hx = (P.y - pr.y) * (P.vz - pr.vz) - (P.z - pr.z) * (P.vy - pr.vy) ∧
    i.hy = (P.z - pr.z) * (P.vx - pr.vx) - (P.x - pr.x) * (P.vz - pr.vz) ∧
    i.hz = (P.x - pr.x) * (P.vy - pr.vy) - (P.y - pr.y) * (P.vx - pr.vx) ∧
    i.h = L.sqrt (i.hx * i.hx + i.hy * i.hy + i.hz * i.hz) :=
  ⟨rfl, rfl, rfl, rfl, rfl, rfl, rfl⟩

theorem sqrt_sq_pos (hsqrt : ∀ x, 0 ≤ x → 0 ≤ L.sqrt x ∧ L.sqrt x ^ 2 = x) (y x : K) (hx : 0 ≤ x)
    (h : y = x * x) : L.sqrt y = x := by
  subst h
  obtain ⟨s0, s2⟩ := hsqrt (x * x) (mul_self_nonneg x)
  have : (L.sqrt (x * x) - x) * (L.sqrt (x * x) + x) = 0 := by linear_combination s2
  rcases mul_eq_zero.mp this with h | h
  · linarith
  · have : L.sqrt (x * x) = 0 := by linarith
    linarith

/-- generic branch: the reader returns the six classical elements the particle was built from -/
theorem reader_inverse_generic (T : TrigSpec L) (hf : FmodSpec L.fmod)
    (hsqrt : ∀ x, 0 ≤ x → 0 ≤ L.sqrt x ∧ L.sqrt x ^ 2 = x)
    (v : Variant) (G : K) (pr : Part K) (m a e inc Om om f t0 : K) (P : Part K) (o : Orb K)
    (hP : @fromOrbit K L.orbitK v G pr m a e inc Om om f = .ok P)
    (ho : @orbitFromParticle K L.orbitK v G P pr t0 = .ok o)
    (hmu : 0 < G * (m + pr.m)) (ha : a ≠ 0) (hasym : v.asymLe = false → e * L.cos f ≠ -1)
    (he : e ≠ 0)
    (hi1 : ¬ inc < 1 / 100000000) (hi2 : ¬ L.pi - 1 / 100000000 < inc)
    (hO : -L.pi < Om ∧ Om ≤ L.pi) (hom : 0 ≤ om ∧ om < 2 * L.pi) (hff : 0 ≤ f ∧ f < 2 * L.pi) :
    o.a = a ∧ o.e = e ∧ o.inc = inc ∧ o.Omega = Om ∧ o.omega = om ∧ o.f = f ∧
    (inc < L.pi / 2 → (∃ n : ℤ, o.theta = Om + (om + f) - n * (2 * L.pi)) ∧ (∃ n : ℤ, o.pomega = Om + om - n * (2 * L.pi))) ∧
    (¬ inc < L.pi / 2 → (∃ n : ℤ, o.theta = Om - (om + f) - n * (2 * L.pi)) ∧ (∃ n : ℤ, o.pomega = Om - om - n * (2 * L.pi))) := by
  have hpi := T.pi_pos
  obtain ⟨hd, hA, hex, hey, hez, hE⟩ := reader_of_constructor L T.sq hsqrt v G pr m a e inc Om om f t0 P o hP ho hmu ha hasym
  obtain ⟨r, H, hr, hH, he0, hrv, ex1, ex2, ex3, hhx, hhy, hhz⟩ := constructor_geometry L T.sq hsqrt v G pr m a e inc Om om f P hP hmu ha hasym
  have hepos : 0 < e := lt_of_le_of_ne he0 (Ne.symm he)
  have hinc0 : 0 < inc := lt_of_lt_of_le (by norm_num) (not_lt.mp hi1)
  have hinc1 : inc < L.pi := lt_of_le_of_lt (not_lt.mp hi2) (by linarith [show (0:K) < 1 / 100000000 by norm_num])
  have hsi : 0 < L.sin inc := T.sin_pos inc hinc0 hinc1
  -- o is the body
  unfold orbitFromParticle at ho
  split at ho
  · cases ho
  simp only at ho
  split at ho
  · cases ho
  injection ho with ho
  obtain ⟨i1, i2, i3, i4, i5, i6, i7⟩ := @invariants_rel K _ _ _ L G P pr
  obtain ⟨M, a1, a2, a3, a4, a5⟩ := @orbitBody_angles K _ _ _ L v (@invariants K L.orbitK G P pr) t0
  have oinc := @orbitBody_inc K _ _ _ L v (@invariants K L.orbitK G P pr) t0
  have oOm := @orbitBody_Omega K _ _ _ L v (@invariants K L.orbitK G P pr) t0
  rw [ho] at a1 a2 a3 a4 a5 oinc oOm
  generalize @invariants K L.orbitK G P pr = I at *
  rw [hhx] at i4; rw [hhy] at i5; rw [hhz] at i6
  have hh : I.h = H := by
    rw [i7]; apply sqrt_sq_pos hsqrt _ _ (le_of_lt hH)
    rw [i4, i5, i6]
    linear_combination (H * H * L.sin inc ^ 2) * T.sq Om + (H * H) * T.sq inc
  -- inclination
  have Hinc : o.inc = inc := by
    rw [oinc, i6, hh]
    exact acos2_angle' T inc H 1 hH (by linarith) (le_of_lt hinc1) (fun h => by linarith) (fun _ => by norm_num)
  -- node
  have hrho : 0 < H * L.sin inc := mul_pos hH hsi
  have hnn : L.sqrt ((-I.hy) * (-I.hy) + I.hx * I.hx) = H * L.sin inc := by
    apply sqrt_sq_pos hsqrt _ _ (le_of_lt hrho)
    rw [i4, i5]; linear_combination ((H * L.sin inc) ^ 2) * T.sq Om
  have hnx : -I.hy = (H * L.sin inc) * L.cos Om := by rw [i5]; ring
  have HOm : o.Omega = Om := by
    rw [oOm, hnn, hnx, i4]
    exact acos2_angle' T Om _ _ hrho hO.1 hO.2
      (fun h => mul_neg_of_pos_of_neg hrho h) (fun h => le_of_lt (mul_pos hrho h))
  -- generic branch of the switch
  rw [Hinc, HOm, hE, hnn, hnx, hex, hey, hez, i1, i2, i3, i4] at a1 a2 a3 a4
  rw [a5] at hd
  obtain ⟨g1, g2, g3, g4⟩ := readerAngles_generic (L := L) inc Om e M o.d (P.x - pr.x) (P.y - pr.y) (P.z - pr.z)
    (e * (L.cos Om * L.cos om - L.sin Om * L.sin om * L.cos inc))
    (e * (L.sin Om * L.cos om + L.cos Om * L.sin om * L.cos inc)) (e * (L.sin om * L.sin inc))
    (H * L.sin inc * L.cos Om) (H * L.sin inc * L.sin Om) (H * L.sin inc) hi1 hi2
  -- argument of pericentre
  obtain ⟨tw, jw, tw0, tw1, twe, twc, tws⟩ := T.reduce om hom.1 (by linarith)
  have hw : @acos2 K L.orbitK (H * L.sin inc * L.cos Om * (e * (L.cos Om * L.cos om - L.sin Om * L.sin om * L.cos inc)) +
      H * L.sin inc * L.sin Om * (e * (L.sin Om * L.cos om + L.cos Om * L.sin om * L.cos inc))) (H * L.sin inc * e)
      (e * (L.sin om * L.sin inc)) = tw := by
    have e1 : H * L.sin inc * L.cos Om * (e * (L.cos Om * L.cos om - L.sin Om * L.sin om * L.cos inc)) +
      H * L.sin inc * L.sin Om * (e * (L.sin Om * L.cos om + L.cos Om * L.sin om * L.cos inc))
        = (H * L.sin inc * e) * L.cos tw := by
      rw [twc]; linear_combination (H * L.sin inc * e * L.cos om) * T.sq Om
    rw [e1]
    have hk : 0 < e * L.sin inc := mul_pos hepos hsi
    exact acos2_angle' T tw _ _ (mul_pos hrho hepos) tw0 tw1
      (fun h => by rw [tws] at h; have := mul_neg_of_pos_of_neg hk h; linarith)
      (fun h => by rw [tws] at h; have := mul_pos hk h; linarith)
  have Hom : o.omega = om := by
    rw [a1, g1, hw]
    exact mod2pi_unique hf hpi tw om (-jw) hom.1 hom.2 (by rw [twe]; push_cast; ring)
  -- true anomaly
  have hod : o.d = r := by rw [a5, hd, hrv]
  obtain ⟨tu, ju, tu0, tu1, tue, tuc, tus⟩ := T.reduce (om + f) (by linarith [hom.1, hff.1]) (by linarith [hom.2, hff.2])
  have hwpf : @acos2 K L.orbitK (H * L.sin inc * L.cos Om * (P.x - pr.x) + H * L.sin inc * L.sin Om * (P.y - pr.y))
      (H * L.sin inc * o.d) (P.z - pr.z) = tu := by
    have e1 : H * L.sin inc * L.cos Om * (P.x - pr.x) + H * L.sin inc * L.sin Om * (P.y - pr.y)
        = (H * L.sin inc * o.d) * L.cos tu := by
      rw [tuc, T.cos_add, ex1, ex2, hod]
      linear_combination (H * L.sin inc * r * (L.cos om * L.cos f - L.sin om * L.sin f)) * T.sq Om
    rw [e1]
    have hk : 0 < r * L.sin inc := mul_pos hr hsi
    have hz : P.z - pr.z = (r * L.sin inc) * L.sin tu := by rw [tus, T.sin_add, ex3]; ring
    rw [hz]
    exact acos2_angle' T tu _ _ (by rw [hod]; exact mul_pos hrho hr) tu0 tu1
      (fun h => mul_neg_of_pos_of_neg hk h) (fun h => le_of_lt (mul_pos hk h))
  have Hf : o.f = f := by
    rw [a2, g2, hw, hwpf]
    exact mod2pi_unique hf hpi (tu - tw) f (jw - ju) hff.1 hff.2 (by rw [twe, tue]; push_cast; ring)
  refine ⟨hA, hE, Hinc, HOm, Hom, Hf, ?_, ?_⟩
  · intro hp
    obtain ⟨p1, p2⟩ := g3 hp
    constructor
    · obtain ⟨n, hn⟩ := mod2piCore_congr L.fmod hf L.pi hpi (Om + tu)
      refine ⟨n + ju, ?_⟩
      rw [a3, p2, hwpf]
      have : @mod2pi K L.orbitK (Om + tu) = Om + tu - n * (2 * L.pi) := hn
      rw [this, tue]; push_cast; ring
    · refine ⟨jw, ?_⟩
      rw [a4, p1, hw, twe]; push_cast; ring
  · intro hp
    obtain ⟨p1, p2⟩ := g4 hp
    constructor
    · obtain ⟨n, hn⟩ := mod2piCore_congr L.fmod hf L.pi hpi (Om - tu)
      refine ⟨n - ju, ?_⟩
      rw [a3, p2, hwpf]
      have : @mod2pi K L.orbitK (Om - tu) = Om - tu - n * (2 * L.pi) := hn
      rw [this, tue]; push_cast; ring
    · refine ⟨-jw, ?_⟩
      rw [a4, p1, hw, twe]; push_cast; ring

/-- whatever branch the switch takes: for 0 < inc < π the reader returns a, e, inc, Ω -/
theorem reader_inverse_common (T : TrigSpec L)
    (hsqrt : ∀ x, 0 ≤ x → 0 ≤ L.sqrt x ∧ L.sqrt x ^ 2 = x)
    (v : Variant) (G : K) (pr : Part K) (m a e inc Om om f t0 : K) (P : Part K) (o : Orb K)
    (hP : @fromOrbit K L.orbitK v G pr m a e inc Om om f = .ok P)
    (ho : @orbitFromParticle K L.orbitK v G P pr t0 = .ok o)
    (hmu : 0 < G * (m + pr.m)) (ha : a ≠ 0) (hasym : v.asymLe = false → e * L.cos f ≠ -1)
    (hinc0 : 0 < inc) (hinc1 : inc < L.pi)
    (hO : -L.pi < Om ∧ Om ≤ L.pi) :
    o.a = a ∧ o.e = e ∧ o.inc = inc ∧ o.Omega = Om := by
  have hpi := T.pi_pos
  obtain ⟨hd, hA, hex, hey, hez, hE⟩ := reader_of_constructor L T.sq hsqrt v G pr m a e inc Om om f t0 P o hP ho hmu ha hasym
  obtain ⟨r, H, hr, hH, he0, hrv, ex1, ex2, ex3, hhx, hhy, hhz⟩ := constructor_geometry L T.sq hsqrt v G pr m a e inc Om om f P hP hmu ha hasym
  have hsi : 0 < L.sin inc := T.sin_pos inc hinc0 hinc1
  unfold orbitFromParticle at ho
  split at ho
  · cases ho
  simp only at ho
  split at ho
  · cases ho
  injection ho with ho
  obtain ⟨i1, i2, i3, i4, i5, i6, i7⟩ := @invariants_rel K _ _ _ L G P pr
  have oinc := @orbitBody_inc K _ _ _ L v (@invariants K L.orbitK G P pr) t0
  have oOm := @orbitBody_Omega K _ _ _ L v (@invariants K L.orbitK G P pr) t0
  rw [ho] at oinc oOm
  generalize @invariants K L.orbitK G P pr = I at *
  rw [hhx] at i4; rw [hhy] at i5; rw [hhz] at i6
  have hh : I.h = H := by
    rw [i7]; apply sqrt_sq_pos hsqrt _ _ (le_of_lt hH)
    rw [i4, i5, i6]
    linear_combination (H * H * L.sin inc ^ 2) * T.sq Om + (H * H) * T.sq inc
  have Hinc : o.inc = inc := by
    rw [oinc, i6, hh]
    exact acos2_angle' T inc H 1 hH (by linarith) (le_of_lt hinc1) (fun h => by linarith) (fun _ => by norm_num)
  have hrho : 0 < H * L.sin inc := mul_pos hH hsi
  have hnn : L.sqrt ((-I.hy) * (-I.hy) + I.hx * I.hx) = H * L.sin inc := by
    apply sqrt_sq_pos hsqrt _ _ (le_of_lt hrho)
    rw [i4, i5]; linear_combination ((H * L.sin inc) ^ 2) * T.sq Om
  have hnx : -I.hy = (H * L.sin inc) * L.cos Om := by rw [i5]; ring
  have HOm : o.Omega = Om := by
    rw [oOm, hnn, hnx, i4]
    exact acos2_angle' T Om _ _ hrho hO.1 hO.2
      (fun h => mul_neg_of_pos_of_neg hrho h) (fun h => le_of_lt (mul_pos hrho h))
  exact ⟨hA, hE, Hinc, HOm⟩

theorem acos2_zero_zero (dis : K) : @acos2 K L.orbitK 0 0 dis = 0 := by
  simp [acos2, eqB, ScalarO.le]

/-- the near-planar branch of the angle switch (`inc < MIN_INC || inc > M_PI - MIN_INC`) -/
theorem readerAngles_planar (inc Omega e M d dx dy dz ex ey ez nx ny nn : K)
    (h : inc < 1 / 100000000 ∨ L.pi - 1 / 100000000 < inc) :
    let A := @readerAngles K L.orbitK inc Omega e M d dx dy dz ex ey ez nx ny nn
    let th := @acos2 K L.orbitK dx d dy
    let pw := @acos2 K L.orbitK ex e ey
    A.theta = th ∧ A.pomega = pw ∧
    (inc < L.pi / 2 → A.omega = pw - Omega ∧ A.f = th - pw) ∧
    (¬ inc < L.pi / 2 → A.omega = Omega - pw ∧ A.f = pw - th) := by
  intro A th pw
  have hc : (@ScalarO.lt K orderedScalarO inc c1em8 || @ScalarO.lt K orderedScalarO (L.pi - c1em8) inc) = true := by
    simp only [c1em8, sc_hdiv, sc_one, sc_ofNat, Nat.cast_ofNat, ScalarO.lt]
    rcases h with h | h
    · have : inc < (100000000 : K)⁻¹ := by rw [← one_div]; exact h
      simp [this]
    · have : L.pi - (100000000 : K)⁻¹ < inc := by rw [← one_div]; exact h
      simp [this]
  simp only [A, th, pw, readerAngles, libm_pi, sc_hsub, sc_hadd, sc_hmul, sc_hdiv, hc, if_true,
    two, sc_ofNat, Nat.cast_ofNat]
  by_cases hp : inc < L.pi / 2
  · simp [ScalarO.lt, hp]
  · simp [ScalarO.lt, hp]

/-- exactly planar prograde orbit given with Ω = 0: the near-planar branch returns all six elements -/
theorem reader_inverse_planar (T : TrigSpec L) (hf : FmodSpec L.fmod)
    (hsqrt : ∀ x, 0 ≤ x → 0 ≤ L.sqrt x ∧ L.sqrt x ^ 2 = x)
    (v : Variant) (G : K) (pr : Part K) (m a e om f t0 : K) (P : Part K) (o : Orb K)
    (hP : @fromOrbit K L.orbitK v G pr m a e 0 0 om f = .ok P)
    (ho : @orbitFromParticle K L.orbitK v G P pr t0 = .ok o)
    (hmu : 0 < G * (m + pr.m)) (ha : a ≠ 0) (hasym : v.asymLe = false → e * L.cos f ≠ -1)
    (he : e ≠ 0)
    (hom : 0 ≤ om ∧ om < 2 * L.pi) (hff : 0 ≤ f ∧ f < 2 * L.pi) :
    o.a = a ∧ o.e = e ∧ o.inc = 0 ∧ o.Omega = 0 ∧ o.omega = om ∧ o.f = f := by
  have hpi := T.pi_pos
  obtain ⟨hd, hA, hex, hey, hez, hE⟩ := reader_of_constructor L T.sq hsqrt v G pr m a e 0 0 om f t0 P o hP ho hmu ha hasym
  obtain ⟨r, H, hr, hH, he0, hrv, ex1, ex2, ex3, hhx, hhy, hhz⟩ := constructor_geometry L T.sq hsqrt v G pr m a e 0 0 om f P hP hmu ha hasym
  have hepos : 0 < e := lt_of_le_of_ne he0 (Ne.symm he)
  simp only [T.cos_zero, T.sin_zero] at hex hey hez ex1 ex2 ex3 hhx hhy hhz
  unfold orbitFromParticle at ho
  split at ho
  · cases ho
  simp only at ho
  split at ho
  · cases ho
  injection ho with ho
  obtain ⟨i1, i2, i3, i4, i5, i6, i7⟩ := @invariants_rel K _ _ _ L G P pr
  obtain ⟨M, a1, a2, a3, a4, a5⟩ := @orbitBody_angles K _ _ _ L v (@invariants K L.orbitK G P pr) t0
  have oinc := @orbitBody_inc K _ _ _ L v (@invariants K L.orbitK G P pr) t0
  have oOm := @orbitBody_Omega K _ _ _ L v (@invariants K L.orbitK G P pr) t0
  rw [ho] at a1 a2 a3 a4 a5 oinc oOm
  generalize @invariants K L.orbitK G P pr = I at *
  rw [hhx] at i4; rw [hhy] at i5; rw [hhz] at i6
  have i4' : I.hx = 0 := by rw [i4]; ring
  have i5' : I.hy = 0 := by rw [i5]; ring
  have i6' : I.hz = H := by rw [i6]; ring
  have hh : I.h = H := by
    rw [i7]; apply sqrt_sq_pos hsqrt _ _ (le_of_lt hH)
    rw [i4', i5', i6']; ring
  have Hinc : o.inc = 0 := by
    rw [oinc, i6', hh]
    have := acos2_angle' T 0 H 1 hH (by linarith) (le_of_lt hpi) (fun h => by rw [T.sin_zero] at h; linarith) (fun _ => by norm_num)
    rwa [T.cos_zero, mul_one] at this
  have hnn : L.sqrt ((-I.hy) * (-I.hy) + I.hx * I.hx) = 0 := by
    apply sqrt_sq_pos hsqrt _ _ (le_refl 0)
    rw [i4', i5']; ring
  have HOm : o.Omega = 0 := by
    rw [oOm, hnn, i5', i4', neg_zero]; exact acos2_zero_zero 0
  rw [Hinc, HOm, hE, hnn, i5', i4', neg_zero, hex, hey, hez, i1, i2, i3] at a1 a2 a3 a4
  rw [a5] at hd
  have hod : o.d = r := by rw [a5, hd, hrv]
  obtain ⟨g1, g2, g3, g4⟩ := readerAngles_planar (L := L) 0 0 e M o.d (P.x - pr.x) (P.y - pr.y) (P.z - pr.z)
    (e * (1 * L.cos om - 0 * L.sin om * 1)) (e * (0 * L.cos om + 1 * L.sin om * 1)) (e * (L.sin om * 0))
    0 0 0 (Or.inl (by norm_num))
  obtain ⟨p1, p2⟩ := g3 (by linarith)
  obtain ⟨tw, jw, tw0, tw1, twe, twc, tws⟩ := T.reduce om hom.1 (by linarith)
  obtain ⟨tu, ju, tu0, tu1, tue, tuc, tus⟩ := T.reduce (om + f) (by linarith [hom.1, hff.1]) (by linarith [hom.2, hff.2])
  have hpw : @acos2 K L.orbitK (e * (1 * L.cos om - 0 * L.sin om * 1)) e (e * (0 * L.cos om + 1 * L.sin om * 1)) = tw := by
    have e1 : e * (1 * L.cos om - 0 * L.sin om * 1) = e * L.cos tw := by rw [twc]; ring
    have e2 : e * (0 * L.cos om + 1 * L.sin om * 1) = e * L.sin tw := by rw [tws]; ring
    rw [e1, e2]
    exact acos2_angle T tw e e hepos hepos tw0 tw1
  have hth : @acos2 K L.orbitK (P.x - pr.x) o.d (P.y - pr.y) = tu := by
    have e1 : P.x - pr.x = o.d * L.cos tu := by rw [ex1, hod, tuc, T.cos_add]; ring
    have e2 : P.y - pr.y = o.d * L.sin tu := by rw [ex2, hod, tus, T.sin_add]; ring
    rw [e1, e2]
    exact acos2_angle T tu _ _ (by rw [hod]; exact hr) (by rw [hod]; exact hr) tu0 tu1
  refine ⟨hA, hE, Hinc, HOm, ?_, ?_⟩
  · rw [a1, p1, hpw]
    exact mod2pi_unique hf hpi (tw - 0) om (-jw) hom.1 hom.2 (by rw [twe]; push_cast; ring)
  · rw [a2, p2, hth, hpw]
    exact mod2pi_unique hf hpi (tu - tw) f (jw - ju) hff.1 hff.2 (by rw [twe, tue]; push_cast; ring)

/-- exactly circular orbit (e = 0) given with ω = 0, generic inclination: all six elements come back -/
theorem reader_inverse_circular (T : TrigSpec L) (hf : FmodSpec L.fmod)
    (hsqrt : ∀ x, 0 ≤ x → 0 ≤ L.sqrt x ∧ L.sqrt x ^ 2 = x)
    (v : Variant) (G : K) (pr : Part K) (m a inc Om f t0 : K) (P : Part K) (o : Orb K)
    (hP : @fromOrbit K L.orbitK v G pr m a 0 inc Om 0 f = .ok P)
    (ho : @orbitFromParticle K L.orbitK v G P pr t0 = .ok o)
    (hmu : 0 < G * (m + pr.m)) (ha : a ≠ 0)     (hi1 : ¬ inc < 1 / 100000000) (hi2 : ¬ L.pi - 1 / 100000000 < inc)
    (hO : -L.pi < Om ∧ Om ≤ L.pi) (hff : 0 ≤ f ∧ f < 2 * L.pi) :
    o.a = a ∧ o.e = 0 ∧ o.inc = inc ∧ o.Omega = Om ∧ o.omega = 0 ∧ o.f = f := by
  have hpi := T.pi_pos
  obtain ⟨hd, hA, hex, hey, hez, hE⟩ := reader_of_constructor L T.sq hsqrt v G pr m a 0 inc Om 0 f t0 P o hP ho hmu ha (fun _ => by simp)
  obtain ⟨r, H, hr, hH, he0, hrv, ex1, ex2, ex3, hhx, hhy, hhz⟩ := constructor_geometry L T.sq hsqrt v G pr m a 0 inc Om 0 f P hP hmu ha (fun _ => by simp)
  have hinc0 : 0 < inc := lt_of_lt_of_le (by norm_num) (not_lt.mp hi1)
  have hinc1 : inc < L.pi := lt_of_le_of_lt (not_lt.mp hi2) (by linarith [show (0:K) < 1 / 100000000 by norm_num])
  have hsi : 0 < L.sin inc := T.sin_pos inc hinc0 hinc1
  -- o is the body
  unfold orbitFromParticle at ho
  split at ho
  · cases ho
  simp only at ho
  split at ho
  · cases ho
  injection ho with ho
  obtain ⟨i1, i2, i3, i4, i5, i6, i7⟩ := @invariants_rel K _ _ _ L G P pr
  obtain ⟨M, a1, a2, a3, a4, a5⟩ := @orbitBody_angles K _ _ _ L v (@invariants K L.orbitK G P pr) t0
  have oinc := @orbitBody_inc K _ _ _ L v (@invariants K L.orbitK G P pr) t0
  have oOm := @orbitBody_Omega K _ _ _ L v (@invariants K L.orbitK G P pr) t0
  rw [ho] at a1 a2 a3 a4 a5 oinc oOm
  generalize @invariants K L.orbitK G P pr = I at *
  rw [hhx] at i4; rw [hhy] at i5; rw [hhz] at i6
  have hh : I.h = H := by
    rw [i7]; apply sqrt_sq_pos hsqrt _ _ (le_of_lt hH)
    rw [i4, i5, i6]
    linear_combination (H * H * L.sin inc ^ 2) * T.sq Om + (H * H) * T.sq inc
  -- inclination
  have Hinc : o.inc = inc := by
    rw [oinc, i6, hh]
    exact acos2_angle' T inc H 1 hH (by linarith) (le_of_lt hinc1) (fun h => by linarith) (fun _ => by norm_num)
  -- node
  have hrho : 0 < H * L.sin inc := mul_pos hH hsi
  have hnn : L.sqrt ((-I.hy) * (-I.hy) + I.hx * I.hx) = H * L.sin inc := by
    apply sqrt_sq_pos hsqrt _ _ (le_of_lt hrho)
    rw [i4, i5]; linear_combination ((H * L.sin inc) ^ 2) * T.sq Om
  have hnx : -I.hy = (H * L.sin inc) * L.cos Om := by rw [i5]; ring
  have HOm : o.Omega = Om := by
    rw [oOm, hnn, hnx, i4]
    exact acos2_angle' T Om _ _ hrho hO.1 hO.2
      (fun h => mul_neg_of_pos_of_neg hrho h) (fun h => le_of_lt (mul_pos hrho h))
  -- generic branch of the switch
  rw [Hinc, HOm, hE, hnn, hnx, hex, hey, hez, i1, i2, i3, i4] at a1 a2 a3 a4
  rw [a5] at hd
  obtain ⟨g1, g2, g3, g4⟩ := readerAngles_generic (L := L) inc Om 0 M o.d (P.x - pr.x) (P.y - pr.y) (P.z - pr.z)
    (0 * (L.cos Om * L.cos 0 - L.sin Om * L.sin 0 * L.cos inc))
    (0 * (L.sin Om * L.cos 0 + L.cos Om * L.sin 0 * L.cos inc)) (0 * (L.sin 0 * L.sin inc))
    (H * L.sin inc * L.cos Om) (H * L.sin inc * L.sin Om) (H * L.sin inc) hi1 hi2
  have hw : @acos2 K L.orbitK (H * L.sin inc * L.cos Om * (0 * (L.cos Om * L.cos 0 - L.sin Om * L.sin 0 * L.cos inc)) +
      H * L.sin inc * L.sin Om * (0 * (L.sin Om * L.cos 0 + L.cos Om * L.sin 0 * L.cos inc))) (H * L.sin inc * 0)
      (0 * (L.sin 0 * L.sin inc)) = 0 := by
    have e1 : H * L.sin inc * L.cos Om * (0 * (L.cos Om * L.cos 0 - L.sin Om * L.sin 0 * L.cos inc)) +
      H * L.sin inc * L.sin Om * (0 * (L.sin Om * L.cos 0 + L.cos Om * L.sin 0 * L.cos inc)) = 0 := by ring
    rw [e1, mul_zero]; exact acos2_zero_zero _
  have Hom : o.omega = 0 := by
    rw [a1, g1, hw]
    exact mod2pi_unique hf hpi 0 0 0 (le_refl 0) (by linarith) (by simp)
  have hod : o.d = r := by rw [a5, hd, hrv]
  obtain ⟨tu, ju, tu0, tu1, tue, tuc, tus⟩ := T.reduce (0 + f) (by linarith [hff.1]) (by linarith [hff.2])
  have hwpf : @acos2 K L.orbitK (H * L.sin inc * L.cos Om * (P.x - pr.x) + H * L.sin inc * L.sin Om * (P.y - pr.y))
      (H * L.sin inc * o.d) (P.z - pr.z) = tu := by
    have e1 : H * L.sin inc * L.cos Om * (P.x - pr.x) + H * L.sin inc * L.sin Om * (P.y - pr.y)
        = (H * L.sin inc * o.d) * L.cos tu := by
      rw [tuc, T.cos_add, ex1, ex2, hod]
      linear_combination (H * L.sin inc * r * (L.cos 0 * L.cos f - L.sin 0 * L.sin f)) * T.sq Om
    rw [e1]
    have hk : 0 < r * L.sin inc := mul_pos hr hsi
    have hz : P.z - pr.z = (r * L.sin inc) * L.sin tu := by rw [tus, T.sin_add, ex3]; ring
    rw [hz]
    exact acos2_angle' T tu _ _ (by rw [hod]; exact mul_pos hrho hr) tu0 tu1
      (fun h => mul_neg_of_pos_of_neg hk h) (fun h => le_of_lt (mul_pos hk h))
  have Hf : o.f = f := by
    rw [a2, g2, hw, hwpf]
    exact mod2pi_unique hf hpi (tu - 0) f (-ju) hff.1 hff.2 (by rw [tue]; push_cast; ring)
  exact ⟨hA, hE, Hinc, HOm, Hom, Hf⟩


end RV.Orbit
