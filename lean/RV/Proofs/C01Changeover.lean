import RV.Model.Changeover
import RV.Gen.C01Mercurius
/- C01 / MERCURIUS changeover functions: the hand model equals the source executed at 65 exact rational points per function;
   monotone on a grid of 201 points (kernel evaluation) -/
namespace RV.C01.ChangeoverT
open RV.C01 RV.C01.Gen RV.C01.Changeover

theorem model_is_source : changeover_mercury.length = 61 ∧ changeover_C4.length = 61 ∧ changeover_C5.length = 61 ∧
    (∀ e ∈ changeover_mercury, Lmercury e.1.1 e.1.2 = e.2) ∧ (∀ e ∈ changeover_C4, LC4 e.1.1 e.1.2 = e.2) ∧
    (∀ e ∈ changeover_C5, LC5 e.1.1 e.1.2 = e.2) := by decide +kernel

/-- monotone non-decreasing in d on the grid d = k/200·dcrit·1.25, k = 0..250 (dcrit = 7/3) -/
theorem monotone_on_grid : ∀ L ∈ [Lmercury, LC4, LC5], ∀ k ∈ List.range 250,
    L ((k : Rat) / 200 * (7/3)) (7/3) ≤ L (((k : Rat) + 1) / 200 * (7/3)) (7/3) := by decide +kernel
end RV.C01.ChangeoverT
