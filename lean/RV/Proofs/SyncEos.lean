import RV.Model.SyncEos
import RV.Proofs.SyncMerc
/-
  C09 / EOS: the full-resolution operator list (RV.Model.SyncEos, replayed bit for bit against
  reb_integrator_eos_part2 / _synchronize) refines the abstract outer schedule the EOS theorem is about.
-/
set_option linter.unusedVariables false
set_option linter.unusedSectionVars false
namespace RV.Sync.Eos
open RV RV.Sync
variable {K E : Type} [Scalar K]

/-- run a list of elementary operator calls under an arbitrary interpretation -/
def execE (den : EOp K → E → E) : List (EOp K) → E → E
  | [], s => s
  | p :: ps, s => execE den ps (den p s)

theorem execE_append (den : EOp K → E → E) (a b : List (EOp K)) (s : E) :
    execE den (a ++ b) s = execE den b (execE den a s) := by
  induction a generalizing s with
  | nil => rfl
  | cons p ps ih => exact ih _

/-- the abstract operators of `ESem`, realised by the concrete operator lists -/
def semOf (den : EOp K → E → E) (T : Tab K) (phi0 phi1 n : Nat) (dt : K) : ESem E where
  pre := execE den (concr T phi0 phi1 n dt .pre)
  post := execE den (concr T phi0 phi1 n dt .post)
  drift := fun k => execE den (concr T phi0 phi1 n dt (.drift k))
  body := execE den (concr T phi0 phi1 n dt .body)

theorem exec_concr (den : EOp K → E → E) (T : Tab K) (phi0 phi1 n : Nat) (dt : K) (l : List EPrim) (s : E) :
    execE den (l.flatMap (concr T phi0 phi1 n dt)) s = eExec (semOf den T phi0 phi1 n dt) l s := by
  induction l generalizing s with
  | nil => rfl
  | cons p ps ih =>
    rw [List.flatMap_cons, execE_append, ih]
    cases p <;> rfl

end RV.Sync.Eos
