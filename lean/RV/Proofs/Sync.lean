import RV.Model.Sync
/-
  Lemmas for C09 (no Mathlib needed for the dataflow part).
-/
set_option linter.unusedVariables false
set_option linter.unusedSimpArgs false
namespace RV.Sync
variable {T PJ X V A : Type}

/-! ### soundness of the dataflow analysis -/

theorem agree_denote (S : Sem T PJ X V A) (p : Prim) (L : Comps) (s s' : St PJ X V A)
    (h : agree L s s') : agree (transfer p L) (denote S p s) (denote S p s') := by
  obtain ⟨h1, h2, h3, h4, h5, h6⟩ := h
  cases p <;> simp only [transfer, denote, agree, Bool.and_eq_true] <;>
    refine ⟨?_, ?_, ?_, ?_, ?_, ?_⟩ <;> intro hh <;>
    first
      | exact h1 hh | exact h2 hh | exact h3 hh | exact h4 hh | exact h5 hh | exact h6 hh
      | (simp only [h1 hh])
      | (simp only [h5 hh])
      | (simp only [h1 hh.2, h4 hh.1])
      | (simp only [h1 hh.2, h6 hh.1])
      | (simp only [h1 hh.1, h4 hh.2])
      | (simp only [h2 hh])
      | (simp only [h1 hh.2, h2 hh.1.1, h3 hh.1.2])
      | (simp only [h1 hh.2, h2 hh.1.1, h4 hh.1.2])

theorem agree_exec (S : Sem T PJ X V A) (ps : List Prim) (L : Comps) (s s' : St PJ X V A)
    (h : agree L s s') : agree (transferList ps L) (exec S ps s) (exec S ps s') := by
  induction ps generalizing L s s' with
  | nil => exact h
  | cons p ps ih => exact ih _ _ _ (agree_denote S p L s s' h)

/-! ### blocks that never lose agreement once `pj` is agreed -/

def Comps.le (L M : Comps) : Prop :=
  (L.pj = true → M.pj = true) ∧ (L.pos = true → M.pos = true) ∧ (L.vel = true → M.vel = true) ∧
  (L.acc = true → M.acc = true) ∧ (L.saved = true → M.saved = true) ∧ (L.tmp = true → M.tmp = true)

theorem Comps.le_refl (L : Comps) : L.le L := ⟨id, id, id, id, id, id⟩
theorem Comps.le_trans {L M N : Comps} (a : L.le M) (b : M.le N) : L.le N :=
  ⟨fun h => b.1 (a.1 h), fun h => b.2.1 (a.2.1 h), fun h => b.2.2.1 (a.2.2.1 h),
   fun h => b.2.2.2.1 (a.2.2.2.1 h), fun h => b.2.2.2.2.1 (a.2.2.2.2.1 h),
   fun h => b.2.2.2.2.2 (a.2.2.2.2.2 h)⟩

theorem agree_of_le {L M : Comps} (h : L.le M) {s s' : St PJ X V A} (a : agree M s s') :
    agree L s s' :=
  ⟨fun x => a.1 (h.1 x), fun x => a.2.1 (h.2.1 x), fun x => a.2.2.1 (h.2.2.1 x),
   fun x => a.2.2.2.1 (h.2.2.2.1 x), fun x => a.2.2.2.2.1 (h.2.2.2.2.1 x),
   fun x => a.2.2.2.2.2 (h.2.2.2.2.2 x)⟩

theorem transferList_append (a b : List Prim) (L : Comps) :
    transferList (a ++ b) L = transferList b (transferList a L) := by
  induction a generalizing L with
  | nil => rfl
  | cons p ps ih => exact ih _

/-- `Closed ps`: once the two runs agree on `pj`, running `ps` loses no agreement -/
def Closed (ps : List Prim) : Prop := ∀ L : Comps, L.pj = true → L.le (transferList ps L)

theorem Closed.pj {ps : List Prim} (h : Closed ps) {L : Comps} (hl : L.pj = true) :
    (transferList ps L).pj = true := (h L hl).1 hl

theorem closed_nil : Closed [] := fun L _ => L.le_refl

theorem closed_append {a b : List Prim} (ha : Closed a) (hb : Closed b) : Closed (a ++ b) := by
  intro L hl
  rw [transferList_append]
  exact Comps.le_trans (ha L hl) (hb _ (ha.pj hl))

/-- tactic for literal blocks -/
macro "closed_lit" : tactic =>
  `(tactic| (intro L hl; obtain ⟨pj, pos, vel, acc, saved, tmp⟩ := L; simp only at hl; subst hl;
             simp [transferList, transfer, Comps.le, zOps, opC, kickOps]))

theorem closed_init : Closed [.init] := by closed_lit
theorem closed_warn : Closed [.warn] := by closed_lit
theorem closed_drift (a b : Coef) : Closed [.kepler a, .com b] := by closed_lit
theorem closed_kepler (a : Coef) : Closed [.kepler a] := by closed_lit
theorem closed_toI : Closed [.toInertial] := by closed_lit
theorem closed_advT (a : Coef) : Closed [.advT a] := by closed_lit
theorem closed_jump_toI (a b : Coef) : Closed [.jump a, .toInertial, .advT b] := by closed_lit

theorem closed_zOps (co : Coord) (ai : Nat) (am : Int) (bn : Nat) (bs : Int) :
    Closed (zOps co ai am bn bs) := by
  cases co <;> closed_lit

theorem closed_zList (co : Coord) (inv : Int) (l : List (Nat × Int × Nat × Int)) :
    Closed (zList co inv l) := by
  induction l with
  | nil => exact closed_nil
  | cons x r ih =>
    obtain ⟨ai, as, bn, bs⟩ := x
    exact closed_append (closed_zOps _ _ _ _ _) ih

theorem closed_corrector (co : Coord) (order : Nat) (inv : Int) :
    Closed (correctorOps co order inv) := closed_zList _ _ _

theorem closed_opC (a b : Coef) : Closed (opC a b) := by closed_lit
theorem closed_opY (a b : Coef) : Closed (opY a b) := closed_append (closed_opC _ _) (closed_opC _ _)
theorem closed_opU (a b : Coef) : Closed (opU a b) :=
  closed_append (closed_append (closed_append (closed_kepler _) (closed_opY _ _)) (closed_opY _ _))
    (closed_kepler _)
theorem closed_opUinv (a b : Coef) : Closed (opUinv a b) :=
  closed_append (closed_append (closed_append (closed_kepler _) (closed_opY _ _)) (closed_opY _ _))
    (closed_kepler _)
theorem closed_corrector2 (fx : Bool) (inv : Int) : Closed (corrector2Ops fx inv) := by
  unfold corrector2Ops
  cases fx
  · exact closed_append (closed_opU _ _) (closed_opU _ _)
  · simp only [if_true]
    split
    · exact closed_append (closed_opU _ _) (closed_opU _ _)
    · exact closed_append (closed_opUinv _ _) (closed_opUinv _ _)

theorem closed_ite (b : Bool) {p q : List Prim} (hp : Closed p) (hq : Closed q) :
    Closed (if b then p else q) := by cases b <;> simpa

/-- the kick is closed once positions and accelerations are agreed (they are: `to_inertial`
    and the acceleration update precede it) -/
theorem kick_le (k : Nat) (L : Comps) (h1 : L.pj = true) (h2 : L.pos = true) (h3 : L.acc = true) :
    L.le (transferList (kickOps k) L) := by
  obtain ⟨pj, pos, vel, acc, saved, tmp⟩ := L
  simp only at h1 h2 h3; subst h1 h2 h3
  match k with
  | 0 => simp [transferList, transfer, Comps.le, kickOps]
  | 1 => simp [transferList, transfer, Comps.le, kickOps]
  | 2 => simp [transferList, transfer, Comps.le, kickOps]
  | 3 => simp [transferList, transfer, Comps.le, kickOps]
  | _ + 4 => simp [transferList, transfer, Comps.le, kickOps]

/-! ### flags -/

theorem initF_idem (f : Flags) : initF (initF f) = initF f := by
  unfold initF; split <;> simp_all

theorem initF_allocated (f : Flags) : (initF f).allocated = true := by
  unfold initF; split <;> simp_all

theorem initF_of_allocated {f : Flags} (h : f.allocated = true) : initF f = f := by
  unfold initF; simp [h]

theorem syncOps_initF (c : Config) (f : Flags) : syncOps c (initF f) = syncOps c f := by
  unfold syncOps; rw [initF_idem]

theorem part1Ops_initF (c : Config) (f : Flags) : part1Ops c (initF f) = part1Ops c f := by
  unfold part1Ops; rw [initF_idem]

theorem stepOps_initF (c : Config) (f : Flags) : stepOps c (initF f) = stepOps c f := by
  unfold stepOps; rw [part1Ops_initF]

/-! ### the middle of synchronize -/

/-- what `synchronize` does between saving and restoring `p_jh` -/
def syncMid (c : Config) : List Prim :=
  [.kepler (lastCoef c.kernel), .com (lastCoef c.kernel)] ++
  (if c.corrector2 then corrector2Ops c.c2fixed (-1) else []) ++
  (if c.corrector != 0 then correctorOps c.coord c.corrector (-1) else []) ++
  [.toInertial]

theorem closed_syncMid (c : Config) : Closed (syncMid c) :=
  closed_append (closed_append (closed_append (closed_drift _ _)
    (closed_ite _ (closed_corrector2 _ _) closed_nil))
    (closed_ite _ (closed_corrector _ _ _) closed_nil)) closed_toI

theorem syncOps_unsync (c : Config) (f : Flags) (h : (initF f).isSync = false) :
    syncOps c f = (.init :: ((if c.keep then [Prim.savePJ] else []) ++ syncMid c ++
      (if c.keep then [Prim.restorePJ] else [])),
      if c.keep then initF f else { initF f with isSync := true }) := by
  unfold syncOps syncMid
  simp [h]

theorem syncOps_sync (c : Config) (f : Flags) (h : (initF f).isSync = true) :
    syncOps c f = ([.init], initF f) := by
  unfold syncOps; simp [h]

theorem transferList_syncMid_posvel (c : Config) (L : Comps) (h : L.pj = true) :
    (transferList (syncMid c) L).pos = true ∧ (transferList (syncMid c) L).vel = true := by
  unfold syncMid
  rw [transferList_append]
  have hc : Closed ([Prim.kepler (lastCoef c.kernel), .com (lastCoef c.kernel)] ++
      (if c.corrector2 then corrector2Ops c.c2fixed (-1) else []) ++
      (if c.corrector != 0 then correctorOps c.coord c.corrector (-1) else [])) :=
    closed_append (closed_append (closed_drift _ _)
      (closed_ite _ (closed_corrector2 _ _) closed_nil))
      (closed_ite _ (closed_corrector _ _ _) closed_nil)
  have := hc.pj h
  simp only [transferList, transfer]
  exact ⟨this, this⟩

/-- `synchronize` (any flags, any options) keeps every agreement once `pj` is agreed,
    provided `keep_unsynchronized` restores from an agreed copy — which it does, the copy is
    taken from `pj` itself -/
theorem closed_syncOps (c : Config) (f : Flags) : Closed (syncOps c f).1 := by
  cases hs : (initF f).isSync
  · rw [syncOps_unsync c f hs]
    show Closed ([Prim.init] ++ _)
    refine closed_append closed_init ?_
    cases c.keep
    · simpa using closed_syncMid c
    · intro L hl
      show L.le (transferList (([Prim.savePJ] ++ syncMid c) ++ [Prim.restorePJ]) L)
      rw [transferList_append, transferList_append]
      have h1 : L.le (transferList [Prim.savePJ] L) ∧ (transferList [Prim.savePJ] L).saved = true ∧
          (transferList [Prim.savePJ] L).pj = true := by
        obtain ⟨pj, pos, vel, acc, saved, tmp⟩ := L
        simp only at hl; subst hl
        simp [transferList, transfer, Comps.le]
      have h2 := closed_syncMid c _ h1.2.2
      have h3 : (transferList (syncMid c) (transferList [Prim.savePJ] L)).saved = true :=
        h2.2.2.2.2.1 h1.2.1
      have h4 : (transferList [Prim.restorePJ] (transferList (syncMid c) (transferList [Prim.savePJ] L))) =
          (transferList (syncMid c) (transferList [Prim.savePJ] L)) := by
        have hp := h2.1 h1.2.2
        generalize (transferList (syncMid c) (transferList [Prim.savePJ] L)) = M at *
        obtain ⟨pj, pos, vel, acc, saved, tmp⟩ := M
        simp only at h3 hp; subst h3 hp
        simp [transferList, transfer]
      rw [h4]
      exact Comps.le_trans h1.1 h2
  · rw [syncOps_sync c f hs]; exact closed_init

/-! ### the step -/

theorem exec_append (S : Sem T PJ X V A) (a b : List Prim) (s : St PJ X V A) :
    exec S (a ++ b) s = exec S b (exec S a s) := by
  induction a generalizing s with
  | nil => rfl
  | cons p ps ih => exact ih _

/-- everything of a step after the drift: jump, to_inertial, acceleration update, kick -/
def stepTail (c : Config) : List Prim :=
  [.jump (.frac 1 2), .toInertial, .advT (.frac 1 2), .updateAcc] ++ kickOps c.kernel

theorem closed_stepTail (c : Config) : Closed (stepTail c) := by
  intro L hl
  unfold stepTail
  rw [transferList_append]
  have h1 : L.le (transferList [Prim.jump (.frac 1 2), .toInertial, .advT (.frac 1 2), .updateAcc] L) ∧
      (transferList [Prim.jump (.frac 1 2), .toInertial, .advT (.frac 1 2), .updateAcc] L).pj = true ∧
      (transferList [Prim.jump (.frac 1 2), .toInertial, .advT (.frac 1 2), .updateAcc] L).pos = true ∧
      (transferList [Prim.jump (.frac 1 2), .toInertial, .advT (.frac 1 2), .updateAcc] L).acc = true := by
    obtain ⟨pj, pos, vel, acc, saved, tmp⟩ := L
    simp only at hl; subst hl
    simp [transferList, transfer, Comps.le]
  exact Comps.le_trans h1.1 (kick_le _ _ h1.2.1 h1.2.2.1 h1.2.2.2)

/-- the drift of part1 -/
def driftOps (c : Config) (isSync : Bool) : List Prim :=
  if isSync then
    (if c.corrector != 0 then correctorOps c.coord c.corrector 1 else []) ++
    (if c.corrector2 then corrector2Ops c.c2fixed 1 else []) ++
    [.kepler (firstCoef c.kernel), .com (firstCoef c.kernel)]
  else [.kepler (.frac 1 1), .com (.frac 1 1)]

theorem closed_driftOps (c : Config) (b : Bool) : Closed (driftOps c b) := by
  unfold driftOps
  cases b
  · exact closed_drift _ _
  · exact closed_append (closed_append (closed_ite _ (closed_corrector _ _ _) closed_nil)
      (closed_ite _ (closed_corrector2 _ _) closed_nil)) (closed_drift _ _)

/-- shape of a step in unsafe mode, by flag case (flags already initialised) -/
theorem stepOps_unsafe (c : Config) (hs : c.safe = false) (g : Flags) (hg : g.allocated = true) :
    stepOps c g =
      (if g.recalc then
          (if g.isSync then
             [.init, .fromInertial] ++ driftOps c true ++ stepTail c ++ [.advT (.frac 1 2)]
           else
             [.init] ++ (syncOps c g).1 ++ [.warn, .fromInertial] ++ driftOps c (c.p1fix || (syncOps c g).2.isSync) ++
               stepTail c ++ [.advT (.frac 1 2)])
        else [.init] ++ driftOps c g.isSync ++ stepTail c ++ [.advT (.frac 1 2)],
       { isSync := false, recalc := false, allocated := true }) := by
  obtain ⟨isSync, recalc, allocated⟩ := g
  simp only at hg; subst hg
  cases isSync <;> cases recalc <;>
    simp [stepOps, part1Ops, part2Ops, hs, initF, driftOps, stepTail, List.append_assoc]
  all_goals
    (cases hk : c.keep <;> cases hp : c.p1fix <;> simp [syncOps, initF, hk, hp])

/-! ### `saved` is written only by `savePJ` -/

def SavedKept (ps : List Prim) : Prop :=
  ∀ (T PJ X V A : Type) (S : Sem T PJ X V A) (s : St PJ X V A), (exec S ps s).saved = s.saved

theorem savedKept_nil : SavedKept [] := fun _ _ _ _ _ _ _ => rfl
theorem savedKept_append {a b : List Prim} (ha : SavedKept a) (hb : SavedKept b) :
    SavedKept (a ++ b) := by
  intro T PJ X V A S s
  rw [exec_append, hb, ha]
theorem savedKept_ite (b : Bool) {p q : List Prim} (hp : SavedKept p) (hq : SavedKept q) :
    SavedKept (if b then p else q) := by cases b <;> simpa

macro "saved_lit" : tactic =>
  `(tactic| (intro T PJ X V A S s; simp [exec, denote, zOps, opC]))

theorem savedKept_zOps (co : Coord) (ai : Nat) (am : Int) (bn : Nat) (bs : Int) :
    SavedKept (zOps co ai am bn bs) := by
  cases co <;> saved_lit
theorem savedKept_zList (co : Coord) (inv : Int) (l : List (Nat × Int × Nat × Int)) :
    SavedKept (zList co inv l) := by
  induction l with
  | nil => exact savedKept_nil
  | cons x r ih =>
    obtain ⟨ai, as, bn, bs⟩ := x
    exact savedKept_append (savedKept_zOps _ _ _ _ _) ih
theorem savedKept_corrector (co : Coord) (order : Nat) (inv : Int) :
    SavedKept (correctorOps co order inv) := savedKept_zList _ _ _
theorem savedKept_kepler (a : Coef) : SavedKept [.kepler a] := by saved_lit
theorem savedKept_drift (a b : Coef) : SavedKept [.kepler a, .com b] := by saved_lit
theorem savedKept_toI : SavedKept [.toInertial] := by saved_lit
theorem savedKept_opC (a b : Coef) : SavedKept (opC a b) := by saved_lit
theorem savedKept_opY (a b : Coef) : SavedKept (opY a b) :=
  savedKept_append (savedKept_opC _ _) (savedKept_opC _ _)
theorem savedKept_opU (a b : Coef) : SavedKept (opU a b) :=
  savedKept_append (savedKept_append (savedKept_append (savedKept_kepler _) (savedKept_opY _ _))
    (savedKept_opY _ _)) (savedKept_kepler _)
theorem savedKept_opUinv (a b : Coef) : SavedKept (opUinv a b) :=
  savedKept_append (savedKept_append (savedKept_append (savedKept_kepler _) (savedKept_opY _ _))
    (savedKept_opY _ _)) (savedKept_kepler _)
theorem savedKept_corrector2 (fx : Bool) (inv : Int) : SavedKept (corrector2Ops fx inv) := by
  unfold corrector2Ops
  cases fx
  · exact savedKept_append (savedKept_opU _ _) (savedKept_opU _ _)
  · simp only [if_true]
    split
    · exact savedKept_append (savedKept_opU _ _) (savedKept_opU _ _)
    · exact savedKept_append (savedKept_opUinv _ _) (savedKept_opUinv _ _)
theorem savedKept_syncMid (c : Config) : SavedKept (syncMid c) :=
  savedKept_append (savedKept_append (savedKept_append (savedKept_drift _ _)
    (savedKept_ite _ (savedKept_corrector2 _ _) savedKept_nil))
    (savedKept_ite _ (savedKept_corrector _ _ _) savedKept_nil)) savedKept_toI

/-! ### synchronize with keep_unsynchronized -/

/-- with `keep_unsynchronized`, `synchronize` leaves `p_jh` exactly as it was -/
theorem exec_sync_keep_pj (S : Sem T PJ X V A) (c : Config) (hk : c.keep = true) (f : Flags)
    (s : St PJ X V A) : (exec S (syncOps c f).1 s).pj = s.pj := by
  cases hs : (initF f).isSync
  · rw [syncOps_unsync c f hs]
    simp only [hk, if_true]
    show (exec S ([Prim.init] ++ (([Prim.savePJ] ++ syncMid c) ++ [Prim.restorePJ])) s).pj = _
    rw [exec_append, exec_append, exec_append]
    simp only [exec, denote]
    rw [savedKept_syncMid c]
  · rw [syncOps_sync c f hs]; rfl

theorem syncOps_keep_flags (c : Config) (hk : c.keep = true) (f : Flags) :
    (syncOps c f).2 = initF f := by
  cases hs : (initF f).isSync
  · rw [syncOps_unsync c f hs]; simp [hk]
  · rw [syncOps_sync c f hs]

/-- after an unsynchronised `synchronize` the two runs agree on positions and velocities as soon
    as they agreed on `pj` -/
theorem sync_unsync_posvel (c : Config) (f : Flags) (hs : (initF f).isSync = false) (L : Comps)
    (hl : L.pj = true) :
    (transferList (syncOps c f).1 L).pos = true ∧ (transferList (syncOps c f).1 L).vel = true := by
  rw [syncOps_unsync c f hs]
  show (transferList ([Prim.init] ++ ((_ ++ syncMid c) ++ _)) L).pos = true ∧
       (transferList ([Prim.init] ++ ((_ ++ syncMid c) ++ _)) L).vel = true
  rw [transferList_append, transferList_append, transferList_append]
  have h0 : (transferList (if c.keep = true then [Prim.savePJ] else []) (transferList [Prim.init] L)).pj = true := by
    cases c.keep <;> simpa [transferList, transfer] using hl
  have h1 := transferList_syncMid_posvel c _ h0
  generalize c.keep = k at *
  cases k <;> simpa [transferList, transfer] using h1

/-! ### dataflow of a step in unsafe mode -/

theorem step_pj_determined (c : Config) (hs : c.safe = false) (g : Flags)
    (hg : g.allocated = true) :
    (transferList (stepOps c g).1 ⟨true, g.isSync, g.isSync, false, false, false⟩).pj = true := by
  rw [stepOps_unsafe c hs g hg]
  have tailc : ∀ b, Closed (driftOps c b ++ stepTail c ++ [Prim.advT (.frac 1 2)]) := fun b =>
    closed_append (closed_append (closed_driftOps c b) (closed_stepTail c)) (closed_advT _)
  cases hr : g.recalc <;> cases hi : g.isSync <;> simp only [if_true, if_false, Bool.false_eq_true]
  · have := (closed_append closed_init (tailc false)).pj (L := ⟨true, false, false, false, false, false⟩) rfl
    simpa [List.append_assoc] using this
  · have := (closed_append closed_init (tailc true)).pj (L := ⟨true, true, true, false, false, false⟩) rfl
    simpa [List.append_assoc] using this
  · -- recalculating while unsynchronised: synchronize first, then from_inertial
    have e : [Prim.init] ++ (syncOps c g).1 ++ [Prim.warn, Prim.fromInertial] ++
        driftOps c (c.p1fix || (syncOps c g).2.isSync) ++ stepTail c ++ [Prim.advT (.frac 1 2)] =
        ([Prim.init] ++ (syncOps c g).1) ++ ([Prim.warn, Prim.fromInertial] ++
        (driftOps c (c.p1fix || (syncOps c g).2.isSync) ++ stepTail c ++ [Prim.advT (.frac 1 2)])) := by
      simp [List.append_assoc]
    rw [e, transferList_append, transferList_append]
    have hs' : (initF g).isSync = false := by rw [initF_of_allocated hg]; exact hi
    have hc := closed_append closed_init (closed_syncOps c g)
    have h1 := hc.pj (L := ⟨true, false, false, false, false, false⟩) rfl
    have h2 : (transferList ([Prim.init] ++ (syncOps c g).1) ⟨true, false, false, false, false, false⟩).pos = true ∧
        (transferList ([Prim.init] ++ (syncOps c g).1) ⟨true, false, false, false, false, false⟩).vel = true := by
      rw [transferList_append]
      exact sync_unsync_posvel c g hs' _ rfl
    generalize transferList ([Prim.init] ++ (syncOps c g).1) ⟨true, false, false, false, false, false⟩ = M at *
    have h3 : (transferList [Prim.warn, Prim.fromInertial] M).pj = true := by
      simp [transferList, transfer, h1, h2.1, h2.2]
    exact (tailc _).pj h3
  · have e : [Prim.init, Prim.fromInertial] ++ driftOps c true ++ stepTail c ++ [Prim.advT (.frac 1 2)] =
        [Prim.init, Prim.fromInertial] ++ (driftOps c true ++ stepTail c ++ [Prim.advT (.frac 1 2)]) := by
      simp [List.append_assoc]
    rw [e, transferList_append]
    exact (tailc true).pj (by simp [transferList, transfer])

/-! ### the interleaving argument -/

/-- two (flags, state) pairs that no subsequent step can tell apart (keep_unsynchronized) -/
def Rel (x y : Flags × St PJ X V A) : Prop :=
  initF x.1 = initF y.1 ∧ x.2.pj = y.2.pj ∧
  ((initF x.1).isSync = true → x.2.pos = y.2.pos ∧ x.2.vel = y.2.vel)

theorem Rel.refl (x : Flags × St PJ X V A) : Rel x x := ⟨rfl, rfl, fun _ => ⟨rfl, rfl⟩⟩
theorem Rel.symm {x y : Flags × St PJ X V A} (h : Rel x y) : Rel y x :=
  ⟨h.1.symm, h.2.1.symm, fun hs => by
    have := h.2.2 (by rw [h.1]; exact hs)
    exact ⟨this.1.symm, this.2.symm⟩⟩
theorem Rel.trans {x y z : Flags × St PJ X V A} (a : Rel x y) (b : Rel y z) : Rel x z :=
  ⟨a.1.trans b.1, a.2.1.trans b.2.1, fun hs => by
    have h1 := a.2.2 hs
    have h2 := b.2.2 (by rw [← a.1]; exact hs)
    exact ⟨h1.1.trans h2.1, h1.2.trans h2.2⟩⟩

theorem apply_step (S : Sem T PJ X V A) (c : Config) (x : Flags × St PJ X V A) :
    apply S c .step x = ((stepOps c x.1).2, exec S (stepOps c x.1).1 x.2) := rfl
theorem apply_sync (S : Sem T PJ X V A) (c : Config) (x : Flags × St PJ X V A) :
    apply S c .synchronize x = ((syncOps c x.1).2, exec S (syncOps c x.1).1 x.2) := rfl
theorem apply_read (S : Sem T PJ X V A) (c : Config) (x : Flags × St PJ X V A) :
    apply S c .read x = x := rfl

theorem agree_pj {s s' : St PJ X V A} (h : s.pj = s'.pj) :
    agree ⟨true, false, false, false, false, false⟩ s s' :=
  ⟨fun _ => h, fun hh => (by cases hh), fun hh => (by cases hh), fun hh => (by cases hh),
   fun hh => (by cases hh), fun hh => (by cases hh)⟩

theorem agree_pj_posvel {s s' : St PJ X V A} (b : Bool) (h : s.pj = s'.pj)
    (h2 : b = true → s.pos = s'.pos ∧ s.vel = s'.vel) :
    agree ⟨true, b, b, false, false, false⟩ s s' :=
  ⟨fun _ => h, fun hh => (h2 hh).1, fun hh => (h2 hh).2, fun hh => (by cases hh),
   fun hh => (by cases hh), fun hh => (by cases hh)⟩

/-- a step maps indistinguishable pairs to indistinguishable pairs (unsafe mode) -/
theorem rel_step (S : Sem T PJ X V A) (c : Config) (hs : c.safe = false)
    {x y : Flags × St PJ X V A} (h : Rel x y) : Rel (apply S c .step x) (apply S c .step y) := by
  obtain ⟨h1, h2, h3⟩ := h
  rw [apply_step, apply_step, ← stepOps_initF c x.1, ← stepOps_initF c y.1, ← h1]
  have hg := initF_allocated x.1
  generalize initF x.1 = g at *
  have hd := step_pj_determined c hs g hg
  have ha : agree ⟨true, g.isSync, g.isSync, false, false, false⟩ x.2 y.2 :=
    agree_pj_posvel _ h2 h3
  have := agree_exec S (stepOps c g).1 _ _ _ ha
  refine ⟨rfl, this.1 hd, ?_⟩
  rw [stepOps_unsafe c hs g hg]
  simp [initF]

/-- with keep_unsynchronized, `synchronize` produces a pair indistinguishable from its input -/
theorem rel_sync (S : Sem T PJ X V A) (c : Config) (hk : c.keep = true)
    (x : Flags × St PJ X V A) : Rel x (apply S c .synchronize x) := by
  rw [apply_sync]
  refine ⟨?_, ?_, ?_⟩
  · simp only [syncOps_keep_flags c hk, initF_idem]
  · exact (exec_sync_keep_pj S c hk x.1 x.2).symm
  · intro hh
    simp only [syncOps_sync c x.1 hh]
    exact ⟨rfl, rfl⟩

/-- what a user can observe after `synchronize` -/
theorem rel_sync_obs (S : Sem T PJ X V A) (c : Config) {x y : Flags × St PJ X V A} (h : Rel x y) :
    (apply S c .synchronize x).1 = (apply S c .synchronize y).1 ∧
    (apply S c .synchronize x).2.pj = (apply S c .synchronize y).2.pj ∧
    (apply S c .synchronize x).2.pos = (apply S c .synchronize y).2.pos ∧
    (apply S c .synchronize x).2.vel = (apply S c .synchronize y).2.vel := by
  rw [apply_sync, apply_sync, ← syncOps_initF c x.1, ← syncOps_initF c y.1, ← h.1]
  cases hs : (initF x.1).isSync
  · have ha : agree ⟨true, false, false, false, false, false⟩ x.2 y.2 := agree_pj h.2.1
    have := agree_exec S (syncOps c (initF x.1)).1 _ _ _ ha
    have hs' : (initF (initF x.1)).isSync = false := by rw [initF_idem]; exact hs
    have hpv := sync_unsync_posvel c (initF x.1) hs' ⟨true, false, false, false, false, false⟩ rfl
    have hpj := (closed_syncOps c (initF x.1)).pj (L := ⟨true, false, false, false, false, false⟩) rfl
    exact ⟨rfl, this.1 hpj, this.2.1 hpv.1, this.2.2.1 hpv.2⟩
  · have hs' : (initF (initF x.1)).isSync = true := by rw [initF_idem]; exact hs
    rw [syncOps_sync c _ hs']
    have := h.2.2 hs
    exact ⟨rfl, h.2.1, this.1, this.2⟩

theorem rel_run (S : Sem T PJ X V A) (c : Config) (hk : c.keep = true) (hs : c.safe = false)
    (σ : List (Op (X × V))) (hσ : ∀ o ∈ σ, o.benign = true) (x y : Flags × St PJ X V A)
    (h : Rel x y) : Rel (run S c σ x) (run S c (σ.filter Op.isStep) y) := by
  induction σ generalizing x y with
  | nil => exact h
  | cons o os ih =>
    have hos : ∀ o ∈ os, o.benign = true := fun o ho => hσ o (List.mem_cons_of_mem _ ho)
    have ho := hσ o List.mem_cons_self
    cases o with
    | step =>
      simp only [List.filter, Op.isStep, run]
      exact ih hos _ _ (rel_step S c hs h)
    | synchronize =>
      simp only [List.filter, Op.isStep, run]
      exact ih hos _ _ ((rel_sync S c hk x).symm.trans h)
    | read =>
      simp only [List.filter, Op.isStep, run]
      exact ih hos _ _ h
    | setRecalc => simp [Op.benign] at ho
    | poke v => simp [Op.benign] at ho

/-! ### the user's own operations preserve indistinguishability -/

theorem initF_setRecalc (f : Flags) :
    initF { f with recalc := true } = { initF f with recalc := true } := by
  unfold initF; split <;> simp_all

theorem rel_setRecalc (S : Sem T PJ X V A) (c : Config) {x y : Flags × St PJ X V A} (h : Rel x y) :
    Rel (apply S c .setRecalc x) (apply S c .setRecalc y) := by
  obtain ⟨h1, h2, h3⟩ := h
  refine ⟨?_, h2, ?_⟩
  · show initF { x.1 with recalc := true } = initF { y.1 with recalc := true }
    rw [initF_setRecalc, initF_setRecalc, h1]
  · intro hs
    have : (initF x.1).isSync = true := by
      have e : (initF { x.1 with recalc := true }).isSync = (initF x.1).isSync := by
        rw [initF_setRecalc]
      exact e ▸ hs
    exact h3 this

theorem rel_poke (S : Sem T PJ X V A) (c : Config) (v : X × V) {x y : Flags × St PJ X V A}
    (h : Rel x y) : Rel (apply S c (.poke v) x) (apply S c (.poke v) y) :=
  ⟨h.1, h.2.1, fun _ => ⟨rfl, rfl⟩⟩

/-- interleaving theorem over the full operation alphabet: the synchronize / read-only calls of an
    arbitrary sequence can be dropped -/
theorem rel_run_all (S : Sem T PJ X V A) (c : Config) (hk : c.keep = true) (hs : c.safe = false)
    (σ : List (Op (X × V))) (x y : Flags × St PJ X V A) (h : Rel x y) :
    Rel (run S c σ x) (run S c (σ.filter Op.isKept) y) := by
  induction σ generalizing x y with
  | nil => exact h
  | cons o os ih =>
    cases o with
    | step =>
      simp only [List.filter, Op.isKept, run]
      exact ih _ _ (rel_step S c hs h)
    | synchronize =>
      simp only [List.filter, Op.isKept, run]
      exact ih _ _ ((rel_sync S c hk x).symm.trans h)
    | read =>
      simp only [List.filter, Op.isKept, run]
      exact ih _ _ h
    | setRecalc =>
      simp only [List.filter, Op.isKept, run]
      exact ih _ _ (rel_setRecalc S c h)
    | poke v =>
      simp only [List.filter, Op.isKept, run]
      exact ih _ _ (rel_poke S c v h)

end RV.Sync
