import RV.Gen.C15Schedule
/-
  The extracted schedule of reb_simulation_step, run on the abstract state of RV/Model/StepSchedule.lean.
-/
namespace RV.C15
open RV.StepSchedule RV.Gen.C15

/-- one step of the extracted schedule, started with every particle inside the box; `userFlagged`: a particle flagged by
    a user `remove` on a simulation with a tree is in the array -/
def runStep (c : Cfg) (e : Ev) (userFlagged : Bool) : St :=
  runCalls c e treeSearchUpdatesFirst lineTreeSearchUpdatesFirst searchEndCalls stepCalls
    { flagged := userFlagged, outside := false, needsUpdate := false, collFlagged := false }

theorem step_schedule_clean (g : Bool) (coll : Coll) (b : Boundary) (o1 o2 cr uf : Bool)
    (hb : b ≠ .none) (huf : uf = true → (Cfg.hasTree ⟨g, coll, b⟩) = true) :
    (runStep ⟨g, coll, b⟩ ⟨o1, o2, cr⟩ uf).flagged = false ∧ (runStep ⟨g, coll, b⟩ ⟨o1, o2, cr⟩ uf).outside = false := by
  cases g <;> cases coll <;> cases b <;> cases o1 <;> cases o2 <;> cases cr <;> cases uf <;>
    first | exact absurd rfl hb | (exact absurd (huf rfl) (by decide)) | decide

end RV.C15
