import RV.Model.Sched
import Mathlib.Algebra.Order.Field.Rat
import Mathlib.Tactic.Ring
import Mathlib.Tactic.FieldSimp
import Mathlib.Tactic.Linarith
/-
  C01 / EOS: the inner scheme for **every** number of sub-steps `n ≥ 1`.
  `innerSched pre head body merge tail post n` is the hand model of the `n`-loop of `reb_integrator_eos_drift_shell0`
  (RV.Proofs.C01Eos.inner_loop_model ties it to the source's unrolling for n = 1..4).  If merging two sub-steps is exact
  (`merge` carries the coefficients of `tail` followed by `head`) and the processors cancel, the drift / centre-of-mass /
  kick sums of the `n`-sub-step scheme equal those of a single sub-step, for all `n`.
-/
set_option linter.unusedVariables false
namespace RV.C01.EosAllN
open RV.C01

theorem foldl_add (l : List Rat) (a : Rat) : l.foldl (· + ·) a = a + l.foldl (· + ·) 0 := by
  induction l generalizing a with
  | nil => simp
  | cons x r ih => simp only [List.foldl_cons]; rw [ih (a + x), ih (0 + x)]; ring

theorem sumQ_append (a b : List Rat) : sumQ (a ++ b) = sumQ a + sumQ b := by
  unfold sumQ; rw [List.foldl_append, foldl_add]

theorem sumBy_append (p : Op → Bool) (f : Op → Rat) (a b : List Op) : sumBy p f (a ++ b) = sumBy p f a + sumBy p f b := by
  unfold sumBy; rw [List.filter_append, List.map_append, sumQ_append]

theorem sumBy_nil (p : Op → Bool) (f : Op → Rat) : sumBy p f [] = 0 := rfl

theorem sumBy_cons (p : Op → Bool) (f : Op → Rat) (o : Op) (r : List Op) :
    sumBy p f (o :: r) = (if p o then f o else 0) + sumBy p f r := by
  have : o :: r = [o] ++ r := rfl
  rw [this, sumBy_append]
  congr 1
  unfold sumBy sumQ
  by_cases h : p o = true <;> simp [h]

/-- a selector/weight pair that `scaleOp n` turns into weight `/ n` -/
structure Scales (p : Op → Bool) (f : Op → Rat) : Prop where
  sel : ∀ (n : Nat) (o : Op), p (scaleOp n o) = p o
  val : ∀ (n : Nat) (o : Op), p o = true → f (scaleOp n o) = f o / (n : Rat)

theorem sumBy_scale (p : Op → Bool) (f : Op → Rat) (hs : Scales p f) (n : Nat) (l : List Op) :
    sumBy p f (l.map (scaleOp n)) = sumBy p f l / (n : Rat) := by
  induction l with
  | nil => simp [sumBy_nil]
  | cons o r ih =>
    rw [List.map_cons, sumBy_cons, sumBy_cons, ih, hs.sel]
    by_cases h : p o = true
    · simp only [h, if_true]; rw [hs.val n o h]; ring
    · simp only [h]; simp

theorem rep_sum (p : Op → Bool) (f : Op → Rat) (body merge : List Op) (k : Nat) :
    sumBy p f (innerRaw.rep body merge k) = (k : Rat) * (sumBy p f body + sumBy p f merge) := by
  induction k with
  | zero => simp [innerRaw.rep, sumBy_nil]
  | succ k ih =>
    rw [innerRaw.rep, sumBy_append, sumBy_append, ih]; push_cast; ring

theorem raw_sum (p : Op → Bool) (f : Op → Rat) (head body merge tail : List Op) (n : Nat) (hn : 1 ≤ n)
    (hm : sumBy p f merge = sumBy p f head + sumBy p f tail) :
    sumBy p f (innerRaw head body merge tail n) = (n : Rat) * (sumBy p f head + sumBy p f body + sumBy p f tail) := by
  match n, hn with
  | 1, _ => simp only [innerRaw, sumBy_append]; push_cast; ring
  | k + 2, _ =>
    simp only [innerRaw, sumBy_append, rep_sum, hm]; push_cast; ring

/-- **all n**: with exact merging and cancelling processors, the `n`-sub-step scheme has the sums of one sub-step -/
theorem inner_sum_all_n (p : Op → Bool) (f : Op → Rat) (hs : Scales p f) (pre head body merge tail post : List Op)
    (hm : sumBy p f merge = sumBy p f head + sumBy p f tail) (hp : sumBy p f pre + sumBy p f post = 0)
    (n : Nat) (hn : 1 ≤ n) :
    sumBy p f (innerSched pre head body merge tail post n) = sumBy p f (head ++ body ++ tail) := by
  unfold innerSched
  rw [sumBy_scale p f hs, sumBy_append, sumBy_append, raw_sum p f head body merge tail n hn hm, sumBy_append, sumBy_append]
  have hn' : (n : Rat) ≠ 0 := by
    have : (0 : Rat) < n := by exact_mod_cast hn
    exact ne_of_gt this
  field_simp
  linarith [hp]

theorem scales_drift : Scales (fun o => o.kind == 0) (·.a) where
  sel := by intro n o; unfold scaleOp; split <;> simp_all
  val := by intro n o h; unfold scaleOp; simp_all

theorem scales_com : Scales (fun o => o.kind == 0 && o.b == 1) (·.a) where
  sel := by
    intro n o; unfold scaleOp; split
    · simp_all
    · rename_i h
      have h0 : (o.kind == 0) = false := by simpa using h
      simp [h0]
  val := by
    intro n o h; unfold scaleOp
    have : (o.kind == 0) = true := by
      rw [Bool.and_eq_true] at h; exact h.1
    simp [this]

theorem scales_kick : Scales isKick (·.a) where
  sel := by
    intro n o; unfold scaleOp isKick; split
    · rename_i h; simp_all
    · rfl
  val := by
    intro n o h; unfold scaleOp
    have : ¬ ((o.kind == 0) = true) := by
      intro h0; unfold isKick at h; simp_all
    simp [this]

/-- drift, centre-of-mass and kick sums of the inner scheme, for every `n ≥ 1` -/
theorem inner_consistent_all_n (pre head body merge tail post : List Op)
    (hd : driftSum merge = driftSum head + driftSum tail) (hc : comSum merge = comSum head + comSum tail)
    (hk : kickSum merge = kickSum head + kickSum tail)
    (pd : driftSum pre + driftSum post = 0) (pc : comSum pre + comSum post = 0) (pk : kickSum pre + kickSum post = 0)
    (tol : Rat) (h1 : Consistent (head ++ body ++ tail) tol) (n : Nat) (hn : 1 ≤ n) :
    Consistent (innerSched pre head body merge tail post n) tol := by
  unfold Consistent at *
  have e1 := inner_sum_all_n _ _ scales_drift pre head body merge tail post hd pd n hn
  have e2 := inner_sum_all_n _ _ scales_com pre head body merge tail post hc pc n hn
  have e3 := inner_sum_all_n _ _ scales_kick pre head body merge tail post hk pk n hn
  unfold driftSum comSum kickSum at *
  rw [e1, e2, e3]; exact h1
end RV.C01.EosAllN
