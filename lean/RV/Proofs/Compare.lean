import RV.Proofs.PersistRT3
/-
  Lemmas about `compare` (the equality decision of reb_binary_diff at field level).
-/
set_option linter.unusedVariables false
set_option linter.unusedSimpArgs false
set_option linter.unusedSectionVars false
namespace RV.Persist

/-! ### fields -/

theorem findField_self (fs : List Field) (hn : (fs.map (·.1)).Nodup) (f : Field) (hf : f ∈ fs) :
    findField fs f.1 = some f.2 := by
  induction fs with
  | nil => simp at hf
  | cons a r ih =>
    simp only [List.map_cons, List.nodup_cons] at hn
    rcases List.mem_cons.mp hf with h | h
    · subst h; simp [findField]
    · have hne : a.1 ≠ f.1 := by
        intro e; apply hn.1; rw [e]; exact List.mem_map_of_mem h
      have := ih hn.2 h
      simp only [findField] at this ⊢
      rw [List.find?_cons_of_neg (by simpa using hne)]
      exact this

theorem findField_some_mem (fs : List Field) (id : Nat) (p : Bytes) (h : findField fs id = some p) :
    (id, p) ∈ fs := by
  unfold findField at h
  split at h
  · rename_i f hf
    have h1 := List.mem_of_find?_eq_some hf
    have h2 := List.find?_some hf
    simp at h2
    cases h
    rw [← h2]
    exact h1
  · cases h

theorem findField_isSome_iff (fs : List Field) (id : Nat) : (findField fs id).isSome ↔ id ∈ fs.map (·.1) := by
  unfold findField
  constructor
  · intro h
    split at h
    · rename_i f hf
      have h1 := List.mem_of_find?_eq_some hf
      have h2 := List.find?_some hf
      simp at h2
      rw [← h2]; exact List.mem_map_of_mem h1
    · simp at h
  · intro h
    obtain ⟨f, hf, he⟩ := List.mem_map.mp h
    cases hfind : fs.find? (fun g => g.1 = id) with
    | some g => simp
    | none =>
      have := List.find?_eq_none.mp hfind f hf
      simp [he] at this

/-! ### IEEE `!=` on bit patterns -/

/-- a double whose comparison with itself is well behaved: not a NaN -/
def notNaN (b : Bytes) : Prop := isNaN64 (leNat b) = false

theorem f64Ne_self (b : Bytes) (h : notNaN b) : f64Ne b b = false := by
  unfold f64Ne
  unfold notNaN at h
  simp [h]

theorem f64Ne_self_nan (b : Bytes) (h : isNaN64 (leNat b) = true) : f64Ne b b = true := by
  unfold f64Ne
  simp [h]

/-- `a != b` false means: neither is a NaN and the bit patterns are equal or both are zeros (±0) -/
theorem f64Ne_false_iff (a b : Bytes) :
    f64Ne a b = false ↔ isNaN64 (leNat a) = false ∧ isNaN64 (leNat b) = false ∧
      (leNat a = leNat b ∨ (isZero64 (leNat a) = true ∧ isZero64 (leNat b) = true)) := by
  unfold f64Ne
  by_cases h1 : isNaN64 (leNat a) = true
  · simp [h1]
  · by_cases h2 : isNaN64 (leNat b) = true
    · simp [h1, h2]
    · have h1' : isNaN64 (leNat a) = false := by simpa using h1
      have h2' : isNaN64 (leNat b) = false := by simpa using h2
      by_cases hz : (isZero64 (leNat a) && isZero64 (leNat b)) = true
      · simp only [Bool.and_eq_true] at hz
        simp [h1', h2', hz.1, hz.2]
      · have hz' : (isZero64 (leNat a) && isZero64 (leNat b)) = false := by simpa using hz
        simp only [h1', h2', Bool.or_self, Bool.false_eq_true, if_false, hz']
        simp only [Bool.and_eq_false_iff] at hz'
        constructor
        · intro h
          have : leNat a = leNat b := by simpa using h
          exact ⟨trivial, trivial, Or.inl this⟩
        · intro ⟨_, _, h⟩
          rcases h with h | ⟨ha, hb⟩
          · simp [h]
          · rcases hz' with h | h
            · rw [ha] at h; cases h
            · rw [hb] at h; cases h

/-! ### member-wise comparison -/

/-- the bytes of member `m` of element `i` -/
def memberBytes (c : CmpSpec) (a : Bytes) (i : Nat) (m : EMember) : Bytes :=
  slice (slice a (i * c.size) c.size) m.off m.size

/-- no compared floating-point member of any element is a NaN -/
def FpClean (c : CmpSpec) (a : Bytes) : Prop :=
  ∀ i, i < a.length / c.size → ∀ m ∈ c.members, m.kind = .f64 → notNaN (memberBytes c a i m)

theorem memberNe_self (m : EMember) (x : Bytes) (h : m.kind = .f64 → notNaN (slice x m.off m.size)) :
    memberNe m x x = false := by
  unfold memberNe
  cases hk : m.kind <;> simp [hk] at h ⊢
  exact f64Ne_self _ h

theorem elemDiffer_self (c : CmpSpec) (a : Bytes) (i : Nat)
    (h : ∀ m ∈ c.members, m.kind = .f64 → notNaN (memberBytes c a i m)) : elemDiffer c a a i = false := by
  unfold elemDiffer
  rw [List.any_eq_false]
  intro m hm
  have := memberNe_self m (slice a (i * c.size) c.size) (h m hm)
  simp [this]

/-- a payload never differs from itself — provided no member-wise compared double is a NaN -/
theorem payloadDiffer_self (specs : List CmpSpec) (d : Option Desc) (a : Bytes)
    (h : ∀ dd k c, d = some dd → dd.cmp = k + 1 → specs[k]? = some c → FpClean c a) :
    payloadDiffer specs d a a = false := by
  unfold payloadDiffer
  simp only [ne_eq, not_true_eq_false, if_false]
  cases d with
  | none => simp
  | some dd =>
    simp only
    cases hc : dd.cmp with
    | zero => simp
    | succ k =>
      simp only
      cases hs : specs[k]? with
      | none => simp
      | some c =>
        simp only
        rw [List.any_eq_false]
        intro i hi
        have hi' : i < a.length / c.size := by simpa using hi
        have := elemDiffer_self c a i (fun m hm hk => h dd k c rfl hc hs i hi' m hm hk)
        simp [this]

/-- `fields_differ` for a field compared with memcmp is plain inequality of the payloads -/
theorem payloadDiffer_memcmp (specs : List CmpSpec) (d : Desc) (a b : Bytes) (h : d.cmp = 0) :
    payloadDiffer specs (some d) a b = true ↔ a ≠ b := by
  unfold payloadDiffer
  by_cases hl : a.length = b.length
  · simp [hl, h]
  · simp only [ne_eq, hl, not_false_eq_true, if_true, true_iff]
    intro e; apply hl; rw [e]

/-- member-wise compared payloads are equal iff they have the same length and no listed member of any element
    compares unequal -/
theorem payloadDiffer_memberwise (specs : List CmpSpec) (d : Desc) (k : Nat) (c : CmpSpec) (a b : Bytes)
    (h : d.cmp = k + 1) (hs : specs[k]? = some c) :
    payloadDiffer specs (some d) a b = false ↔
      a.length = b.length ∧ ∀ i, i < a.length / c.size → ∀ m ∈ c.members,
        memberNe m (slice a (i * c.size) c.size) (slice b (i * c.size) c.size) = false := by
  unfold payloadDiffer
  by_cases hl : a.length = b.length
  · simp only [hl, ne_eq, not_true_eq_false, if_false, h, hs, true_and]
    rw [List.any_eq_false]
    constructor
    · intro hh i hi m hm
      have := hh i (by simpa [hl] using hi)
      simp only [elemDiffer, Bool.not_eq_true] at this
      rw [List.any_eq_false] at this
      simpa using this m hm
    · intro hh i hi
      have hi' : i < b.length / c.size := by simpa using hi
      simp only [elemDiffer, Bool.not_eq_true]
      rw [List.any_eq_false]
      intro m hm
      simpa using hh i hi' m hm
  · simp [hl]

/-! ### pointer slots do not influence a member-wise comparison -/

theorem slice_getElem? (b : Bytes) (off size j : Nat) :
    (slice b off size)[j]? = if j < size then b[off + j]? else none := by
  unfold slice
  rw [List.getElem?_take]
  split
  · rw [List.getElem?_drop]
  · rfl

theorem fillSlots_getElem? (esz : Nat) (slots : List (Nat × Nat)) (fill : Nat → UInt8) (b : Bytes) (p : Nat) :
    (fillSlots esz slots fill b)[p]? = (b[p]?).map (fun x => if slotHit slots (p % esz) then fill p else x) := by
  unfold fillSlots
  rw [List.getElem?_mapIdx]

theorem fillSlots_length (esz : Nat) (slots : List (Nat × Nat)) (fill : Nat → UInt8) (b : Bytes) :
    (fillSlots esz slots fill b).length = b.length := by
  simp [fillSlots]

/-- no byte of member `m` lies in a slot -/
def memberClear (slots : List (Nat × Nat)) (m : EMember) : Bool :=
  (List.range m.size).all (fun j => !slotHit slots (m.off + j))

/-- every compared member lies inside the element and clear of the slots -/
def specClear (c : CmpSpec) (slots : List (Nat × Nat)) : Bool :=
  c.members.all (fun m => memberClear slots m && decide (m.off + m.size ≤ c.size))

theorem memberBytes_fill (c : CmpSpec) (slots : List (Nat × Nat)) (fill : Nat → UInt8) (a : Bytes)
    (i : Nat) (m : EMember) (hc : memberClear slots m = true) (hin : m.off + m.size ≤ c.size)
    (hpos : 0 < c.size) :
    slice (slice (fillSlots c.size slots fill a) (i * c.size) c.size) m.off m.size =
      slice (slice a (i * c.size) c.size) m.off m.size := by
  have hpt : ∀ j : Nat, (slice (slice (fillSlots c.size slots fill a) (i * c.size) c.size) m.off m.size)[j]? =
      (slice (slice a (i * c.size) c.size) m.off m.size)[j]? := by
    intro (j : Nat)
    simp only [slice_getElem?]
    by_cases hj : j < m.size
    · have hlt : m.off + j < c.size := by omega
      simp only [hj, hlt, if_true]
      rw [fillSlots_getElem?]
      have hmod : (i * c.size + (m.off + j)) % c.size = m.off + j := by
        rw [Nat.mul_comm, Nat.mul_add_mod]
        exact Nat.mod_eq_of_lt hlt
      rw [hmod]
      have hclear : slotHit slots (m.off + j) = false := by
        unfold memberClear at hc
        rw [List.all_eq_true] at hc
        have := hc j (List.mem_range.mpr hj)
        simpa using this
      rw [hclear]
      cases a[i * c.size + (m.off + j)]? <;> simp
    · simp only [hj, if_false]
  exact List.ext_getElem? hpt

/-- **overwriting pointer slots (and padding) never changes the outcome of a member-wise comparison** -/
theorem payloadDiffer_fillSlots (specs : List CmpSpec) (d : Desc) (k : Nat) (c : CmpSpec)
    (slots : List (Nat × Nat)) (fa fb : Nat → UInt8) (a b : Bytes)
    (h : d.cmp = k + 1) (hs : specs[k]? = some c) (hclear : specClear c slots = true) (hpos : 0 < c.size) :
    payloadDiffer specs (some d) (fillSlots c.size slots fa a) (fillSlots c.size slots fb b) =
      payloadDiffer specs (some d) a b := by
  have key : ∀ x y : Bytes, payloadDiffer specs (some d) x y = false ↔
      x.length = y.length ∧ ∀ i, i < x.length / c.size → ∀ m ∈ c.members,
        memberNe m (slice x (i * c.size) c.size) (slice y (i * c.size) c.size) = false :=
    fun x y => payloadDiffer_memberwise specs d k c x y h hs
  have hm : ∀ (i : Nat) (m : EMember), m ∈ c.members →
      memberNe m (slice (fillSlots c.size slots fa a) (i * c.size) c.size)
        (slice (fillSlots c.size slots fb b) (i * c.size) c.size) =
      memberNe m (slice a (i * c.size) c.size) (slice b (i * c.size) c.size) := by
    intro i m hmem
    unfold specClear at hclear
    rw [List.all_eq_true] at hclear
    have hcm := hclear m hmem
    simp only [Bool.and_eq_true, decide_eq_true_eq] at hcm
    unfold memberNe
    rw [memberBytes_fill c slots fa a i m hcm.1 hcm.2 hpos, memberBytes_fill c slots fb b i m hcm.1 hcm.2 hpos]
  have e : (payloadDiffer specs (some d) (fillSlots c.size slots fa a) (fillSlots c.size slots fb b) = false) ↔
      (payloadDiffer specs (some d) a b = false) := by
    rw [key, key, fillSlots_length, fillSlots_length]
    constructor
    · intro ⟨hl, hh⟩
      exact ⟨hl, fun i hi m hmem => by rw [← hm i m hmem]; exact hh i hi m hmem⟩
    · intro ⟨hl, hh⟩
      exact ⟨hl, fun i hi m hmem => by rw [hm i m hmem]; exact hh i hi m hmem⟩
  cases h1 : payloadDiffer specs (some d) (fillSlots c.size slots fa a) (fillSlots c.size slots fb b) <;>
    cases h2 : payloadDiffer specs (some d) a b <;> simp_all

end RV.Persist
