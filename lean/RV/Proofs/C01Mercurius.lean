import RV.Model.Advertised
import RV.Gen.C01Mercurius
/- C01 / MERCURIUS away from close encounters: the kick – jump – Kepler – jump – kick schedule of
   reb_integrator_mercurius_part1/part2/synchronize in both safe modes and both synchronisation states -/
namespace RV.C01.Mercurius
open RV.C01 RV.C01.Gen RV.C01.Adv

theorem counts : mercCounts = [("schedules", 7)] := by decide +kernel

/-- safe mode: half kick, half jump, full Kepler step with the centre-of-mass step, half jump, half kick -/
theorem safe_schedule : merc_safe = [⟨2, 0, 0⟩, ⟨1, 1/2, 0⟩, ⟨3, 1/2, 0⟩, ⟨0, 1, 1⟩, ⟨3, 1/2, 0⟩, ⟨2, 0, 0⟩, ⟨1, 1/2, 0⟩] := by
  decide +kernel

/-- consistent, a palindrome, forces fresh, jump coefficients sum to 1, second order (quadrature conditions and, with the jump
    step left out, all words of length ≤ 2) and not third -/
theorem safe_properties : Consistent merc_safe 0 ∧ Palindrome merc_safe ∧ Fresh merc_safe ∧ jumpSum merc_safe = 1 ∧
    Quadrature merc_safe 2 0 ∧ WordOrder merc_safe [2, 2, 2] 0 0 ∧ ¬ WordOrder merc_safe [3, 3, 2] 0 (1/100) := by decide +kernel

/-- safe_mode = 0: the first step after a synchronisation starts with a HALF kick, every later one with a full kick, and
    synchronize adds the closing half kick; the three pieces concatenate to what two steps + synchronize execute -/
theorem unsafe_states : merc_unsafe_first = [⟨2, 0, 0⟩, ⟨1, 1/2, 0⟩, ⟨3, 1/2, 0⟩, ⟨0, 1, 1⟩, ⟨3, 1/2, 0⟩] ∧
    merc_unsafe_next = [⟨2, 0, 0⟩, ⟨1, 1, 0⟩, ⟨3, 1/2, 0⟩, ⟨0, 1, 1⟩, ⟨3, 1/2, 0⟩] ∧
    merc_sync_only = [⟨2, 0, 0⟩, ⟨1, 1/2, 0⟩] ∧
    merc_two_unsync = merc_unsafe_first ++ merc_unsafe_next ++ merc_sync_only ∧
    Fresh merc_unsafe_first ∧ Fresh merc_unsafe_next ∧ Fresh merc_two_unsync := by decide +kernel

/-- unsynchronised stepping = synchronised stepping, also across an intermediate synchronize; entering safe mode
    unsynchronised first completes the pending half kick -/
theorem unsync : norm merc_two_unsync = norm (merc_safe ++ merc_safe) ∧
    norm merc_three_unsync_resync = norm (merc_safe ++ merc_safe ++ merc_safe) ∧
    kickSum merc_three_unsync_resync = 3 ∧ driftSum merc_three_unsync_resync = 3 ∧ jumpSum merc_three_unsync_resync = 3 ∧
    merc_safe_from_unsync = merc_sync_only ++ merc_safe := by decide +kernel
end RV.C01.Mercurius
