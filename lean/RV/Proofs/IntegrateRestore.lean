import RV.Proofs.IntegrateStatus
/-
  C08, step-size clause on EVERY exit path: with exact_finish_time = 1 a fixed-step integration
  that returns — with SUCCESS or with any exit code, at any boundary, also the one that ends the
  step cut to fit tmax — leaves dt at the full step.  Arbitrary exit-condition flags everywhere.
-/
set_option linter.unusedSectionVars false
set_option linter.unusedVariables false
set_option linter.unusedSimpArgs false
set_option linter.unnecessarySimpa false
set_option linter.unusedTactic false
set_option linter.unreachableTactic false
namespace RV.Integrate
open RV
variable {K : Type} [Field K] [LinearOrder K] [IsStrictOrderedRing K]

theorem exitTime_run (s : Sim K) (tmax lf sg' : K) (hs : s.status = -1 ∨ s.status = -2) :
    exitTime s tmax false lf sg' =
      (if s.exactFinish = 1 then
        if tmax * sg' ≤ (s.t + s.dt) * sg' then
          if s.t = tmax then ({ s with status := 0 }, lf)
          else if s.status = -2 then
            if |s.t - tmax| < tscale tmax then ({ s with status := 0 }, lf)
            else ({ s with syncs := s.syncs + 1, dt := tmax - s.t }, lf)
          else ({ s with status := -2, syncs := s.syncs + 1, dt := tmax - s.t },
                 (if s.dtLastDone ≠ 0 then s.dtLastDone else lf))
        else if s.status = -2 then ({ s with status := -1 }, lf) else (s, lf)
      else if tmax * sg' ≤ s.t * sg' then ({ s with status := 0 }, lf) else (s, lf)) := by
  rcases hs with hs | hs
  · simp [exitTime, hs, Status.code]
    try (split_ifs <;> rfl)
  · simp [exitTime, hs, Status.code, tscale]
    try (split_ifs <;> rfl)

theorem exitNoParticles_cases (s : Sim K) (f : Flags) :
    exitNoParticles s f = s ∨ exitNoParticles s f = { s with status := 2 } := by
  unfold exitNoParticles
  split_ifs <;> simp [Status.code]

theorem stepAndBeat_time (step : StepFn K) (k : Nat) (s : Sim K) (f : Flags) :
    (stepAndBeat step k s f).t = (step k s.t s.dt s.dtLastDone).t ∧
    (stepAndBeat step k s f).dt = (step k s.t s.dt s.dtLastDone).dt ∧
    (stepAndBeat step k s f).dtLastDone = (step k s.t s.dt s.dtLastDone).dld ∧
    (stepAndBeat step k s f).exactFinish = s.exactFinish := by
  unfold stepAndBeat runHeartbeat
  rcases f with ⟨c, u, e, n, sg, em, nn, se⟩
  cases c <;> cases u <;> cases e <;> cases n <;> cases sg <;> cases se <;> simp

/-- invariant at the entry of `reb_check_exit` -/
def RInv (tmax d sg : K) (s : Sim K) (lf : K) : Prop :=
  lf = d ∧ s.exactFinish = 1 ∧
  (1 ≤ s.status ∨
   (s.status = -1 ∧ s.dt = d ∧ (s.dtLastDone = 0 ∨ s.dtLastDone = d) ∧ 0 < (tmax - s.t) * sg) ∨
   (s.status = -2 ∧ s.t = tmax ∧ 0 < s.dt * sg))

/-- what `reb_check_exit` hands to the step (or returns with) -/
def RPost (tmax d sg : K) (s : Sim K) (lf : K) : Prop :=
  lf = d ∧ s.exactFinish = 1 ∧
  (0 ≤ s.status ∨
   (s.status = -1 ∧ s.dt = d ∧ (s.dtLastDone = 0 ∨ s.dtLastDone = d) ∧ (s.t + d) * sg < tmax * sg) ∨
   (s.status = -2 ∧ s.dt = tmax - s.t ∧ 0 < (tmax - s.t) * sg))

theorem check_restore (tmax d sg : K) (hsg : sg = 1 ∨ sg = -1) (hd : 0 < d * sg) (s : Sim K) (lf : K)
    (f : Flags) (inv : RInv tmax d sg s lf) :
    ∃ s1 lf1, checkExit s tmax false lf f = .ret s1 lf1 ∧ RPost tmax d sg s1 lf1 := by
  obtain ⟨hlf, hex, hcase⟩ := inv
  have hs : s.status = -1 ∨ s.status = -2 ∨ 1 ≤ s.status := by
    rcases hcase with h | h | h
    · exact Or.inr (Or.inr h)
    · exact Or.inl h.1
    · exact Or.inr (Or.inl h.1)
  refine ⟨_, _, checkExit_form s tmax lf false f hs, ?_⟩
  -- it suffices to establish RPost for the result of the time logic: NO_PARTICLES only raises the status
  suffices h : RPost tmax d sg (exitTime (if f.errMsg then { s with status := 1 } else s) tmax false lf (copysign 1 s.dt)).1
      (exitTime (if f.errMsg then { s with status := 1 } else s) tmax false lf (copysign 1 s.dt)).2 by
    rcases exitNoParticles_cases (exitTime (if f.errMsg then { s with status := 1 } else s) tmax false lf (copysign 1 s.dt)).1 f with e | e
    · rw [e]; exact h
    · rw [e]; exact ⟨h.1, h.2.1, Or.inl (by norm_num)⟩
  by_cases he : f.errMsg = true
  · simp only [he, if_true]
    rw [exitTime_of_nonneg _ _ _ _ _ (by norm_num)]
    exact ⟨hlf, hex, Or.inl (by norm_num)⟩
  · have he' : f.errMsg = false := by simpa using he
    simp only [he', Bool.false_eq_true, if_false]
    rcases hcase with h | ⟨hst, hdt, hdld, hrem⟩ | ⟨hst, ht, hpos⟩
    · rw [exitTime_of_nonneg _ _ _ _ _ (by omega)]
      exact ⟨hlf, hex, Or.inl (by show 0 ≤ s.status; omega)⟩
    · have hc : copysign 1 s.dt = sg := copysign_one_dir hsg (by rw [hdt]; exact hd)
      rw [exitTime_run s tmax lf _ (Or.inl hst), hc]
      simp only [hex, if_true]
      have h2 : ¬ s.status = -2 := by rw [hst]; norm_num
      by_cases hnear : tmax * sg ≤ (s.t + s.dt) * sg
      · simp only [hnear, if_true]
        by_cases ht : s.t = tmax
        · simp only [ht, if_true]
          exact ⟨hlf, by first | rfl | exact hex, Or.inl (by norm_num)⟩
        · simp only [ht, if_false, h2]
          refine ⟨?_, by first | rfl | exact hex, Or.inr (Or.inr ⟨rfl, rfl, hrem⟩)⟩
          by_cases h0 : s.dtLastDone = 0
          · simp only [h0, ne_eq, not_true_eq_false, if_false]; exact hlf
          · simp only [ne_eq, h0, not_false_eq_true, if_true]
            rcases hdld with h | h
            · exact absurd h h0
            · exact h
      · simp only [hnear, if_false, h2]
        refine ⟨hlf, hex, Or.inr (Or.inl ⟨hst, hdt, hdld, ?_⟩)⟩
        rw [← hdt]; exact not_le.mp hnear
    · have hc : copysign 1 s.dt = sg := copysign_one_dir hsg hpos
      rw [exitTime_run s tmax lf _ (Or.inr hst), hc]
      have hnear : tmax * sg ≤ (tmax + s.dt) * sg := by nlinarith
      simp only [hex, if_true, ht, hnear]
      exact ⟨hlf, by first | rfl | exact hex, Or.inl (by norm_num)⟩

theorem step_restore (step : StepFn K) (hfix : IsFixed step) (tmax d sg : K) (hd : 0 < d * sg)
    (k : Nat) (s1 : Sim K) (lf1 : K) (f : Flags) (p : RPost tmax d sg s1 lf1) (hneg : s1.status < 0) :
    RInv tmax d sg (stepAndBeat step k s1 f) lf1 := by
  obtain ⟨hlf, hex, hcase⟩ := p
  obtain ⟨e1, e2, e3⟩ := hfix k s1.t s1.dt s1.dtLastDone
  obtain ⟨g1, g2, g3, g4⟩ := stepAndBeat_time step k s1 f
  have gst := stepAndBeat_status step k s1 f
  refine ⟨hlf, by rw [g4]; exact hex, ?_⟩
  cases hsc : f.stepCode with
  | some x =>
    left; rw [gst, hsc]; simpa using stepCode_pos f x hsc
  | none =>
    rw [hsc] at gst; simp only [Option.getD_none] at gst
    rcases hcase with h | ⟨hst, hdt, hdld, hfar⟩ | ⟨hst, hdt, hrem⟩
    · omega
    · right; left
      refine ⟨by rw [gst]; exact hst, by rw [g2, e2]; exact hdt, ?_, ?_⟩
      · rw [g3]
        rcases e3 with h | h
        · right; rw [h]; exact hdt
        · rw [h]; exact hdld
      · rw [g1, e1, hdt]; nlinarith
    · right; right
      refine ⟨by rw [gst]; exact hst, by rw [g1, e1, hdt]; ring, ?_⟩
      rw [g2, e2, hdt]; exact hrem

/-- every way out of the loop carries `last_full_dt = d` -/
theorem loop_restore (step : StepFn K) (hfix : IsFixed step) (env : Nat → Flags) (tmax d sg : K)
    (hsg : sg = 1 ∨ sg = -1) (hd : 0 < d * sg) :
    ∀ (fuel k : Nat) (s : Sim K) (lf : K), RInv tmax d sg s lf →
      ∀ s' lf', loop step env tmax false fuel k s lf = (.done s', lf') → lf' = d ∧ s'.exactFinish = 1 := by
  intro fuel
  induction fuel with
  | zero => intro k s lf inv s' lf' h; simp [loop] at h
  | succ fuel ih =>
    intro k s lf inv s' lf' h
    obtain ⟨s1, lf1, hce, post⟩ := check_restore tmax d sg hsg hd s lf (env k) inv
    by_cases hneg : s1.status < 0
    · rw [loop_of_ret_neg step env tmax false fuel k s s1 lf lf1 hce hneg] at h
      exact ih (k + 1) _ lf1 (step_restore step hfix tmax d sg hd k s1 lf1 (env (k + 1)) post hneg) s' lf' h
    · rw [loop_of_ret_done step env tmax false fuel k s s1 lf lf1 hce hneg] at h
      simp only [Prod.mk.injEq, Outcome.done.injEq] at h
      obtain ⟨h1, h2⟩ := h
      subst h1 h2
      exact ⟨post.1, post.2.1⟩

end RV.Integrate
