import RV.Proofs.IntegrateStatus
import Mathlib.Data.List.Pairwise
/-
  C08: the exit conditions of reb_run_heartbeat computed from the particle positions (rebound.c:743-774)
  are what the documentation says: some particle farther than exit_max_distance from the origin / some pair
  closer than exit_min_distance; a zero distance switches the test off.
-/
set_option linter.unusedSectionVars false
set_option linter.unusedVariables false
set_option linter.unusedSimpArgs false
namespace RV.Integrate
open RV
variable {K : Type} [Field K] [LinearOrder K] [IsStrictOrderedRing K]

theorem norm2_eq (p : V3 K) : norm2 p = p.x ^ 2 + p.y ^ 2 + p.z ^ 2 := by
  simp only [norm2, sc_hadd, sc_hmul]; ring

theorem dist2_eq (a b : V3 K) : dist2 a b = (a.x - b.x) ^ 2 + (a.y - b.y) ^ 2 + (a.z - b.z) ^ 2 := by
  simp only [dist2, sc_hadd, sc_hmul, sc_hsub]; ring

theorem dist2_symm (a b : V3 K) : dist2 a b = dist2 b a := by
  rw [dist2_eq, dist2_eq]; ring

theorem escapeFlag_iff (maxd : K) (ps : List (V3 K)) :
    escapeFlag maxd ps = true ↔ maxd ≠ 0 ∧ ∃ p ∈ ps, maxd ^ 2 < p.x ^ 2 + p.y ^ 2 + p.z ^ 2 := by
  unfold escapeFlag
  simp only [fne_iff, sc_zero, fgt_iff, sc_hmul]
  by_cases h : maxd = 0
  · simp [h]
  · simp only [ne_eq, h, not_false_eq_true, decide_true, if_true, List.any_eq_true, decide_eq_true_eq, true_and]
    constructor
    · rintro ⟨p, hp, hlt⟩
      exact ⟨p, hp, by rw [← norm2_eq]; rw [pow_two]; exact hlt⟩
    · rintro ⟨p, hp, hlt⟩
      exact ⟨p, hp, by rw [norm2_eq, ← pow_two]; exact hlt⟩

theorem anyClosePair_false_iff (m2 : K) (ps : List (V3 K)) :
    anyClosePair m2 ps = false ↔ ps.Pairwise (fun a b => m2 ≤ dist2 b a) := by
  induction ps with
  | nil => simp [anyClosePair]
  | cons p rest ih =>
    simp only [anyClosePair, Bool.or_eq_false_iff, List.pairwise_cons, ih, slt_iff]
    constructor
    · rintro ⟨h1, h2⟩
      refine ⟨fun q hq => ?_, h2⟩
      have := List.any_eq_false.mp h1 q hq
      simpa using this
    · rintro ⟨h1, h2⟩
      refine ⟨?_, h2⟩
      rw [List.any_eq_false]
      intro q hq
      simpa using h1 q hq

theorem encounterFlag_false_iff (mind : K) (ps : List (V3 K)) :
    encounterFlag mind ps = false ↔
      mind = 0 ∨ ps.Pairwise (fun a b => mind ^ 2 ≤ (b.x - a.x) ^ 2 + (b.y - a.y) ^ 2 + (b.z - a.z) ^ 2) := by
  unfold encounterFlag
  simp only [fne_iff, sc_zero, sc_hmul]
  by_cases h : mind = 0
  · simp [h]
  · simp only [ne_eq, h, not_false_eq_true, decide_true, if_true, false_or, anyClosePair_false_iff]
    constructor <;> intro hp <;> refine hp.imp ?_ <;> intro a b hab
    · rw [← dist2_eq, pow_two]; exact hab
    · rw [dist2_eq, ← pow_two]; exact hab

end RV.Integrate
