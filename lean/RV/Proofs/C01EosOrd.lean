import RV.Model.Advertised
import RV.Gen.C01Eos
/- C01 / EOS: the high-order schemes LF6, LF8, PMLF6 -/
namespace RV.C01.Eos
open RV.C01 RV.C01.Gen RV.C01.Adv
theorem order_lf6 : ∀ s ∈ eosOuter.lookup 2, ∀ lim ∈ eos.lookup 2, WordOrder s lim κEOS tolEOS := by decide +kernel
theorem order_pmlf6 : ∀ s ∈ eosOuter.lookup 8, ∀ lim ∈ eos.lookup 8, WordOrder s lim κEOS tolEOS := by decide +kernel
/-- LF, LF4, LF6, LF8 are symmetric compositions of leapfrog maps satisfying all order conditions up to 2, 4, 6, 8 -/
theorem composition_order : ∀ tp ∈ eosComposition, ∀ s ∈ eosOuter.lookup tp.1,
    IsLeapfrogComposition s ∧ CompositionOrder (kicks s) tp.2 tolEOS := by decide +kernel
end RV.C01.Eos
