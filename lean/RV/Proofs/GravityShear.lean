import RV.Proofs.GravityLaws
/-
  The ghost list of REB_BOUNDARY_SHEAR (boundary.c:161-184) is point symmetric — column `-i`
  mirrors column `+i` — provided C `fmod` is odd in its first argument (it keeps the sign of
  the dividend) and `fmod(0, b) = 0`.  This is what makes the pairwise update
  `a_i += …; a_j -= …` of BASIC legitimate for sheared images, and what the three separate
  wrap formulas (`i==0`, `i>0`, `i<0`) have to guarantee.
-/
set_option linter.unusedTactic false
set_option linter.unreachableTactic false
set_option linter.unnecessarySeqFocus false
set_option linter.unusedVariables false
set_option linter.unusedSimpArgs false
set_option linter.unusedSectionVars false
namespace RV.Gravity
open RV
variable {K : Type} [Field K]

theorem ghostboxShear_neg (fmod : K → K → K) (hodd : ∀ a b, fmod (-a) b = -fmod a b)
    (h0 : ∀ b, fmod 0 b = 0) (bs : V3 K) (omega t : K) (i j k : Int) :
    -(ghostboxShear fmod bs omega t i j k) = ghostboxShear fmod bs omega t (-i) (-j) (-k) := by
  rcases lt_trichotomy i 0 with hi | hi | hi
  · have h1 : ¬ (i == 0) = true := by simp; omega
    have h2 : ¬ i > 0 := by omega
    have h3 : ¬ ((-i) == 0) = true := by simp; omega
    have h4 : -i > 0 := by omega
    ext <;> simp only [ghostboxShear, h1, h2, h3, h4, if_true, if_false, ofInt_cast, sc_hmul, sc_hsub, sc_hadd,
      sc_hdiv, sc_hneg, sc_ofNat, V3.neg_x, V3.neg_y, V3.neg_z, Int.cast_neg]
    · ring
    · have e : -(3 / 2 : K) * -(i : K) * omega * bs.x * t - bs.y / 2
          = -(-(3 / 2 : K) * (i : K) * omega * bs.x * t + bs.y / 2) := by ring
      push_cast
      rw [e, hodd]; ring
    · ring
  · subst hi
    ext <;> simp [ghostboxShear, ofInt_cast, h0]
  · have h1 : ¬ (i == 0) = true := by simp; omega
    have h2 : i > 0 := by omega
    have h3 : ¬ ((-i) == 0) = true := by simp; omega
    have h4 : ¬ -i > 0 := by omega
    ext <;> simp only [ghostboxShear, h1, h2, h3, h4, if_true, if_false, ofInt_cast, sc_hmul, sc_hsub, sc_hadd,
      sc_hdiv, sc_hneg, sc_ofNat, V3.neg_x, V3.neg_y, V3.neg_z, Int.cast_neg]
    · ring
    · have e : -(3 / 2 : K) * -(i : K) * omega * bs.x * t + bs.y / 2
          = -(-(3 / 2 : K) * (i : K) * omega * bs.x * t - bs.y / 2) := by ring
      push_cast
      rw [e, hodd]; ring
    · ring

theorem ghostListShear_symm (fmod : K → K → K) (hodd : ∀ a b, fmod (-a) b = -fmod a b)
    (h0 : ∀ b, fmod 0 b = 0) (bs : V3 K) (omega t : K) (nx ny nz : Nat) :
    GhostSymm (ghostListShear fmod bs omega t nx ny nz) := by
  intro G
  unfold ghostListShear
  simp only [list_sum_flatMap, List.map_map, Function.comp_def, ghostboxShear_neg fmod hodd h0]
  rw [ghostIdx_reflect nx (fun i => ((ghostIdx ny).map fun j => ((ghostIdx nz).map fun k =>
    G (ghostboxShear fmod bs omega t i (-j) (-k))).sum).sum)]
  congr 1; apply List.map_congr_left; intro i _
  rw [ghostIdx_reflect ny (fun j => ((ghostIdx nz).map fun k => G (ghostboxShear fmod bs omega t i j (-k))).sum)]
  congr 1; apply List.map_congr_left; intro j _
  rw [ghostIdx_reflect nz (fun k => G (ghostboxShear fmod bs omega t i j k))]

end RV.Gravity
