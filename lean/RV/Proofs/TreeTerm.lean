import RV.Proofs.Tree
set_option linter.unusedSectionVars false
set_option linter.unusedVariables false
set_option linter.unusedSimpArgs false
namespace RV.C15
open RV RV.Tree

variable {K : Type} [Field K] [LinearOrder K] [IsStrictOrderedRing K]

/-- `p` and `q` differ on some axis by more than `w / 2^k` -/
def Sep (p q : Pt K) (w : K) (k : Nat) : Prop :=
  w < 2 ^ k * |p.x - q.x| ∨ w < 2 ^ k * |p.y - q.y| ∨ w < 2 ^ k * |p.z - q.z|

theorem axis_close (a b c w : K) (ha : |a - c| ≤ w / 2) (hb : |b - c| ≤ w / 2) : |a - b| ≤ w := by
  have h1 := abs_le.mp ha
  have h2 := abs_le.mp hb
  rw [abs_le]; constructor <;> linarith

theorem w_nonneg_of_In (p : Pt K) (c : Cell K) (h : In p c) : 0 ≤ c.w := by
  have := abs_nonneg (p.x - c.x)
  have := h.1
  linarith

theorem not_Sep_zero (p q : Pt K) (c : Cell K) (hp : In p c) (hq : In q c) : ¬ Sep p q c.w 0 := by
  intro h
  have hx := axis_close _ _ _ _ hp.1 hq.1
  have hy := axis_close _ _ _ _ hp.2.1 hq.2.1
  have hz := axis_close _ _ _ _ hp.2.2 hq.2.2
  rcases h with h | h | h <;> simp at h <;> linarith

theorem Sep_of_samePos (p q : Pt K) (w : K) (k : Nat) (hw : 0 ≤ w) (hs : samePos p q = true) : ¬ Sep p q w k := by
  simp only [samePos, Bool.and_eq_true, so_le] at hs
  obtain ⟨⟨⟨h1, h2⟩, ⟨h3, h4⟩⟩, ⟨h5, h6⟩⟩ := hs
  have ex : p.x = q.x := le_antisymm h1 h2
  have ey : p.y = q.y := le_antisymm h3 h4
  have ez : p.z = q.z := le_antisymm h5 h6
  intro h
  rcases h with h | h | h <;> simp [ex, ey, ez] at h <;> linarith

theorem childCell_w (c : Cell K) (o : Fin 8) : (childCell c o).w = c.w / 2 := by
  simp [childCell]

/-- splitting a leaf stops after at most `k` levels when the two particles differ by more than `w/2^k` -/
theorem add_leaf_terminates (ps : Nat → Pt K) (pt q : Nat) : ∀ (k : Nat) (c cnew : Cell K) (g : Grav K),
    In (ps q) c → In (ps pt) c → Sep (ps pt) (ps q) c.w k →
    ∃ t', add ps (k + 1) (.leaf c g q) cnew pt = .ok t' := by
  intro k
  induction k with
  | zero => intro c cnew g hq hp hs; exact absurd hs (not_Sep_zero _ _ c hp hq)
  | succ k ih =>
    intro c cnew g hq hp hs
    have hw := w_nonneg_of_In _ _ hp
    simp only [add]
    split
    · rename_i hco
      exact absurd hs (Sep_of_samePos _ _ _ _ hw hco.2)
    · simp only [add_nil, bind, Except.bind]
      by_cases e : octant (ps pt) c = octant (ps q) c
      · rw [e, setCh_same]
        have hq' : In (ps q) (childCell c (octant (ps q) c)) := In_child _ _ hq
        have hp' : In (ps pt) (childCell c (octant (ps q) c)) := by rw [← e]; exact In_child _ _ hp
        have hs' : Sep (ps pt) (ps q) (childCell c (octant (ps q) c)).w k := by
          rw [childCell_w]
          rcases hs with h | h | h
          · left; rw [pow_succ] at h; linarith
          · right; left; rw [pow_succ] at h; linarith
          · right; right; rw [pow_succ] at h; linarith
        obtain ⟨t2, h2⟩ := ih _ (childCell c (octant (ps q) c)) zeroGrav hq' hp' hs'
        rw [h2]
        exact ⟨_, rfl⟩
      · rw [setCh_other _ _ _ _ e, add_nil]
        exact ⟨_, rfl⟩

/-- more fuel never changes a successful insertion -/
theorem add_mono (ps : Nat → Pt K) : ∀ (f : Nat) (t : T K) (c : Cell K) (pt : Nat) (t' : T K),
    add ps f t c pt = .ok t' → add ps (f + 1) t c pt = .ok t' := by
  intro f
  induction f with
  | zero =>
    intro t c pt t' h
    cases t with
    | nil => rw [add_nil] at h ⊢; exact h
    | leaf _ _ _ => simp [add] at h
    | node _ _ _ _ => simp [add] at h
  | succ f ih =>
    intro t c pt t' h
    cases t with
    | nil => rw [add_nil] at h ⊢; exact h
    | leaf c0 g q =>
      simp only [add] at h ⊢
      split at h
      · simp at h
      · rename_i hco
        rw [if_neg hco]
        simp only [add_nil, bind, Except.bind] at h ⊢
        cases h2 : add ps f (setCh (fun _ => T.nil) (octant (ps q) c0) (T.leaf (childCell c0 (octant (ps q) c0)) zeroGrav q)
            (octant (ps pt) c0)) (childCell c0 (octant (ps pt) c0)) pt with
        | error e => simp [h2] at h
        | ok t2 =>
          rw [ih _ _ _ _ h2]
          simp only [h2] at h
          exact h
    | node c0 g n ch =>
      simp only [add, bind, Except.bind] at h ⊢
      cases h1 : add ps f (ch (octant (ps pt) c0)) (childCell c0 (octant (ps pt) c0)) pt with
      | error e => simp [h1] at h
      | ok t1 =>
        rw [ih _ _ _ _ h1]
        simp only [h1] at h
        exact h

theorem add_mono_le (ps : Nat → Pt K) (f f' : Nat) (hf : f ≤ f') (t : T K) (c : Cell K) (pt : Nat) (t' : T K)
    (h : add ps f t c pt = .ok t') : add ps f' t c pt = .ok t' := by
  induction f' with
  | zero => have : f = 0 := by omega
            subst this; exact h
  | succ n ih =>
    by_cases e : f = n + 1
    · subst e; exact h
    · exact add_mono ps n t c pt t' (ih (by omega))


/-- height of a tree (number of inner-node levels) -/
def depth : T K → Nat
  | .nil => 0
  | .leaf _ _ _ => 0
  | .node _ _ _ ch => 1 + (List.finRange 8).foldl (fun a o => max a (depth (ch o))) 0

theorem le_foldl_max (f : Fin 8 → Nat) : ∀ (l : List (Fin 8)) (a : Nat) (o : Fin 8), o ∈ l →
    f o ≤ l.foldl (fun a o => max a (f o)) a := by
  intro l
  induction l with
  | nil => intro a o h; simp at h
  | cons x l ih =>
    intro a o h
    simp only [List.foldl_cons]
    have hmono : ∀ (l : List (Fin 8)) (a : Nat), a ≤ l.foldl (fun a o => max a (f o)) a := by
      intro l
      induction l with
      | nil => intro a; simp
      | cons y l ih2 => intro a; simp only [List.foldl_cons]; exact le_trans (le_max_left _ _) (ih2 _)
    rcases List.mem_cons.mp h with h | h
    · subst h; exact le_trans (le_max_right _ _) (hmono l _)
    · exact ih _ o h

theorem depth_child (c : Cell K) (g : Grav K) (n : Int) (ch : Fin 8 → T K) (o : Fin 8) :
    depth (ch o) + 1 ≤ depth (.node c g n ch) := by
  have := le_foldl_max (fun o => depth (ch o)) (List.finRange 8) 0 o (List.mem_finRange o)
  simp only [depth]
  omega

theorem Sep_half (p q : Pt K) (w : K) (k : Nat) (hw : 0 ≤ w) (h : Sep p q w k) : Sep p q (w / 2) k := by
  rcases h with h | h | h
  · left; linarith
  · right; left; linarith
  · right; right; linarith

/-- insertion terminates: if the new particle lies in the root cell and differs from every particle in the
    tree by more than `w / 2^k` on some axis, fuel `depth t + k + 1` suffices -/
theorem add_terminates (ps : Nat → Pt K) (tie : Bool) (pt k : Nat) : ∀ (t : T K) (c : Cell K),
    WF ps tie c t → In (ps pt) c → (∀ q ∈ leaves t, Sep (ps pt) (ps q) c.w k) →
    ∃ t', add ps (depth t + k + 1) t c pt = .ok t' := by
  intro t
  induction t with
  | nil => intro c _ _ _; exact ⟨_, add_nil ps _ c pt⟩
  | leaf c0 g q =>
    intro c hwf hp hs
    obtain ⟨hc, hq⟩ := hwf
    subst hc
    have := add_leaf_terminates ps pt q k c0 c0 g hq hp (hs q (by simp [leaves]))
    simpa [depth] using this
  | node c0 g n ch ih =>
    intro c hwf hp hs
    obtain ⟨hc, hch, _, _, _⟩ := hwf
    subst hc
    have hw := w_nonneg_of_In _ _ hp
    set o := octant (ps pt) c0 with ho
    have hs' : ∀ q ∈ leaves (ch o), Sep (ps pt) (ps q) (childCell c0 o).w k := by
      intro q hq
      rw [childCell_w]
      apply Sep_half _ _ _ _ hw
      apply hs
      simp only [leaves, List.mem_flatMap]
      exact ⟨o, List.mem_finRange o, hq⟩
    obtain ⟨t1, h1⟩ := ih o (childCell c0 o) (hch o) (In_child _ _ hp) hs'
    have hd := depth_child c0 g n ch o
    have h1' := add_mono_le ps _ (depth (T.node c0 g n ch) + k) (by omega) _ _ _ _ h1
    refine ⟨.node c0 g (n - 1) (setCh ch o t1), ?_⟩
    show add ps ((depth (T.node c0 g n ch) + k) + 1) (T.node c0 g n ch) c0 pt = _
    simp only [add, bind, Except.bind]
    rw [← ho, h1']

end RV.C15
