import RV.Model.Cadence
set_option linter.unusedVariables false
set_option linter.unusedSimpArgs false
namespace RV.Cadence

theorem hb_int (s d next t : Int) :
    hb intOps s d next t = if s * next ≤ s * t then (true, next + s * d) else (false, next) := by
  simp only [hb, intOps]
  by_cases h : s * next ≤ s * t <;> simp [h]

theorem run_cons (s d next t : Int) (r : List Int) :
    run intOps s d next (t :: r) =
      ((hb intOps s d next t).1 :: (run intOps s d (hb intOps s d next t).2 r).1,
       (run intOps s d (hb intOps s d next t).2 r).2) := rfl

/-- consecutive step boundaries move in the direction of integration by at most one interval -/
def Chain (s d : Int) : Int → List Int → Prop
  | _, [] => True
  | p, t :: r => 0 ≤ s * (t - p) ∧ s * (t - p) ≤ d ∧ Chain s d t r

/-- exact cadence: at every boundary a snapshot is taken iff the prescribed time `next` has been reached, the
    boundary is then less than one interval past it (it is the first boundary at or after the prescribed
    time, and the following prescribed time is still ahead), and `next` advances by exactly one interval -/
def Exact (s d : Int) : Int → List Int → List Bool → Prop
  | _, [], [] => True
  | next, t :: r, b :: bs =>
    (b = true ↔ s * next ≤ s * t) ∧ (b = true → s * t < s * next + d) ∧
      Exact s d (if b then next + s * d else next) r bs
  | _, _, _ => False

theorem cadence_exact (s d : Int) (hs : s = 1 ∨ s = -1) (hd : 0 < d) (p next : Int) (ts : List Int)
    (hinv : s * p < s * next) (hc : Chain s d p ts) :
    Exact s d next ts (run intOps s d next ts).1 := by
  induction ts generalizing p next with
  | nil => simp [run, Exact]
  | cons t r ih =>
    obtain ⟨h0, h1, hr⟩ := hc
    rw [run_cons, hb_int]
    by_cases hle : s * next ≤ s * t
    · simp only [hle, if_true, Exact, true_iff, forall_const]
      refine ⟨trivial, ?_, ?_⟩
      · rcases hs with rfl | rfl <;> omega
      · exact ih t (next + s * d) (by rcases hs with rfl | rfl <;> omega) hr
    · simp only [hle, if_false, Exact, false_iff, not_false_eq_true, Bool.false_eq_true,
        false_implies, true_and]
      exact ih t next (by rcases hs with rfl | rfl <;> omega) hr

/-- number of snapshots taken -/
def count : List Bool → Nat
  | [] => 0
  | b :: r => (if b then 1 else 0) + count r

/-- the cadence state after the run is the start value advanced by exactly one interval per snapshot -/
theorem cadence_next (s d : Int) (next : Int) (ts : List Int) :
    (run intOps s d next ts).2 = next + (count (run intOps s d next ts).1 : Int) * (s * d) := by
  induction ts generalizing next with
  | nil => simp [run, count]
  | cons t r ih =>
    rw [run_cons, hb_int]
    by_cases hle : s * next ≤ s * t
    · simp only [hle, if_true, count]
      rw [ih]
      have : ((1 + count (run intOps s d (next + s * d) r).1 : Nat) : Int) = 1 + (count (run intOps s d (next + s * d) r).1 : Int) := by omega
      rw [this, Int.add_mul]; omega
    · simp only [hle, if_false, count, Bool.false_eq_true]
      rw [ih]; simp

/-! ### wall-time cadence: the clock is an arbitrary input -/
theorem hbWall_int (d next w : Int) :
    hbWall intOps d next w = if next ≤ w then (true, next + d) else (false, next) := by
  simp only [hbWall, intOps]
  by_cases h : next ≤ w <;> simp [h]

theorem runWall_cons (d next w : Int) (r : List Int) :
    runWall intOps d next (w :: r) =
      ((hbWall intOps d next w).1 :: (runWall intOps d (hbWall intOps d next w).2 r).1,
       (runWall intOps d (hbWall intOps d next w).2 r).2) := rfl

/-- what holds for EVERY clock sequence: a snapshot is taken at a heartbeat iff the prescribed wall time has been
    reached (never early, never omitted), at most one per heartbeat, and `next` moves by exactly one interval -/
def WallSound (d : Int) : Int → List Int → List Bool → Prop
  | _, [], [] => True
  | next, w :: r, b :: bs => (b = true ↔ next ≤ w) ∧ WallSound d (if b then next + d else next) r bs
  | _, _, _ => False

theorem wall_sound (d next : Int) (ws : List Int) : WallSound d next ws (runWall intOps d next ws).1 := by
  induction ws generalizing next with
  | nil => simp [runWall, WallSound]
  | cons w r ih =>
    rw [runWall_cons, hbWall_int]
    by_cases hle : next ≤ w
    · simp only [hle, if_true, WallSound, true_iff, true_and]; exact ih _
    · simp only [hle, if_false, WallSound, false_iff, not_false_eq_true, Bool.false_eq_true, true_and]; exact ih _

theorem wall_next (d next : Int) (ws : List Int) :
    (runWall intOps d next ws).2 = next + (count (runWall intOps d next ws).1 : Int) * d := by
  induction ws generalizing next with
  | nil => simp [runWall, count]
  | cons w r ih =>
    rw [runWall_cons, hbWall_int]
    by_cases hle : next ≤ w
    · simp only [hle, if_true, count]
      rw [ih]
      have : ((1 + count (runWall intOps d (next + d) r).1 : Nat) : Int) = 1 + (count (runWall intOps d (next + d) r).1 : Int) := by omega
      rw [this, Int.add_mul]; omega
    · simp only [hle, if_false, count, Bool.false_eq_true]
      rw [ih]; simp

/-- with a clock that is non-decreasing and advances by at most one interval between heartbeats the wall-time
    cadence is exact (it is the interval cadence with sign +1) -/
theorem wall_exact (d : Int) (hd : 0 < d) (p next : Int) (ws : List Int)
    (hinv : p < next) (hc : Chain 1 d p ws) :
    Exact 1 d next ws (runWall intOps d next ws).1 := by
  have h1 : ∀ (n : Int) (l : List Int), runWall intOps d n l = run intOps 1 d n l := by
    intro n l
    induction l generalizing n with
    | nil => rfl
    | cons w r ih =>
      rw [runWall_cons, run_cons, hbWall_int, hb_int]
      by_cases hle : n ≤ w
      · have : (1 : Int) * n ≤ 1 * w := by omega
        simp only [hle, this, if_true]; rw [ih]; simp
      · have : ¬ ((1 : Int) * n ≤ 1 * w) := by omega
        simp only [hle, this, if_false]; rw [ih]
  rw [h1]
  exact cadence_exact 1 d (Or.inl rfl) hd p next ws (by omega) hc

def ChainStep (step : Nat) : Nat → List Nat → Prop
  | _, [] => True
  | p, t :: r => p ≤ t ∧ t ≤ p + step ∧ ChainStep step t r

def ExactStep (step : Nat) : Nat → List Nat → List Bool → Prop
  | _, [], [] => True
  | next, t :: r, b :: bs =>
    (b = true ↔ next ≤ t) ∧ (b = true → t < next + step) ∧
      ExactStep step (if b then next + step else next) r bs
  | _, _, _ => False

theorem cadence_step_exact (step : Nat) (hd : 0 < step) (p next : Nat) (ts : List Nat)
    (hinv : p < next) (hc : ChainStep step p ts) :
    ExactStep step next ts (runStep step next ts).1 := by
  induction ts generalizing p next with
  | nil => simp [runStep, ExactStep]
  | cons t r ih =>
    obtain ⟨h0, h1, hr⟩ := hc
    simp only [runStep, hbStep]
    by_cases hle : next ≤ t
    · simp only [hle, if_true, ExactStep, true_iff, forall_const]
      exact ⟨trivial, by omega, ih t (next + step) (by omega) hr⟩
    · simp only [hle, if_false, ExactStep, false_iff, not_false_eq_true, Bool.false_eq_true, false_implies, true_and]
      exact ih t next (by omega) hr

/-! ### the cadence state survives a restart -/
def intNe : Int → Int → Bool := fun a b => decide (a ≠ b)

theorem run_append (s d next : Int) (a b : List Int) :
    run intOps s d next (a ++ b) =
      ((run intOps s d next a).1 ++ (run intOps s d (run intOps s d next a).2 b).1,
       (run intOps s d (run intOps s d next a).2 b).2) := by
  induction a generalizing next with
  | nil => simp [run]
  | cons t r ih => simp only [List.cons_append, run_cons, ih]

theorem runStep_append (step next : Nat) (a b : List Nat) :
    runStep step next (a ++ b) =
      ((runStep step next a).1 ++ (runStep step (runStep step next a).2 b).1,
       (runStep step (runStep step next a).2 b).2) := by
  induction a generalizing next with
  | nil => simp [runStep]
  | cons t r ih => simp only [List.cons_append, runStep, ih]

/-- re-arming with the interval found in the snapshot leaves the prescribed time alone -/
theorem arm_same (d next t : Int) : arm intNe d next d t = (d, next) := by simp [arm, intNe]

/-- re-arming with another interval starts a new cadence at the current time -/
theorem arm_changed (d d' next t : Int) (h : d ≠ d') : arm intNe d next d' t = (d', t) := by simp [arm, intNe, h]

/-- the heartbeat that wrote a snapshot does not fire a second time at the same boundary, provided the boundary was
    less than one interval past the prescribed time (which `cadence_exact` gives for steps no longer than the interval) -/
theorem hb_no_refire (s d next t : Int) (hs : s = 1 ∨ s = -1) (hfire : s * next ≤ s * t) (hnl : s * t < s * next + d) :
    hb intOps s d (next + s * d) t = (false, next + s * d) := by
  rw [hb_int]
  have : ¬ (s * (next + s * d) ≤ s * t) := by rcases hs with rfl | rfl <;> omega
  simp [this]

/-- ... and it DOES fire again when the prescribed time lags by a whole interval or more (finding
    `cadence:lagging-next-duplicate`: the model follows the source) -/
theorem hb_refire_lagging (s d next t : Int) (hlag : s * (next + s * d) ≤ s * t) :
    (hb intOps s d (next + s * d) t).1 = true := by
  rw [hb_int]; simp [hlag]

/-- **restart neither skips nor duplicates.**  Uninterrupted run over the boundaries `ts1 ++ t :: ts2`; the heartbeat at
    `t` writes snapshot k (and `t` is less than an interval past the prescribed time).  Restart from snapshot k with the
    persisted state, re-arm with the same interval, integrate on: the heartbeat at `t` stays silent, every later
    boundary gets a snapshot iff it got one in the uninterrupted run, and the final cadence state is the same. -/
theorem restart_exact (s d next0 t : Int) (ts1 ts2 : List Int) (hs : s = 1 ∨ s = -1)
    (hfire : s * (run intOps s d next0 ts1).2 ≤ s * t) (hnl : s * t < s * (run intOps s d next0 ts1).2 + d) :
    let n1 := (run intOps s d next0 ts1).2
    let rest := run intOps s d (n1 + s * d) ts2
    run intOps s d next0 (ts1 ++ t :: ts2) = ((run intOps s d next0 ts1).1 ++ true :: rest.1, rest.2) ∧
    restart intOps intNe s d (n1 + s * d) d t ts2 = (false :: rest.1, rest.2) := by
  intro n1 rest
  constructor
  · rw [run_append, run_cons, hb_int]
    simp only [hfire, if_true]; rfl
  · simp only [restart, arm_same]
    rw [run_cons, hb_no_refire s d n1 t hs hfire hnl]

/-- lagging prescribed time: the restarted run writes snapshot k a second time -/
theorem restart_lagging_duplicates (s d n1 t : Int) (ts2 : List Int) (hlag : s * (n1 + s * d) ≤ s * t) :
    (restart intOps intNe s d (n1 + s * d) d t ts2).1.head? = some true := by
  simp only [restart, arm_same]
  rw [run_cons]
  simp [hb_refire_lagging s d n1 t hlag]

/-- re-arming with a different interval after the restart: a snapshot at the restart time, then the new cadence -/
theorem restart_rearmed (s d d' pn t : Int) (ts2 : List Int) (h : d ≠ d') :
    restart intOps intNe s d pn d' t ts2 = (true :: (run intOps s d' (t + s * d') ts2).1, (run intOps s d' (t + s * d') ts2).2) := by
  simp only [restart, arm_changed d d' pn t h]
  rw [run_cons, hb_int]; simp

theorem hbStep_no_refire (step next sd : Nat) (hfire : next ≤ sd) (hnl : sd < next + step) :
    hbStep step (next + step) sd = (false, next + step) := by
  simp only [hbStep]
  have : ¬ (next + step ≤ sd) := by omega
  simp [this]

theorem restartStep_exact (step next0 sk : Nat) (ts1 ts2 : List Nat)
    (hfire : (runStep step next0 ts1).2 ≤ sk) (hnl : sk < (runStep step next0 ts1).2 + step) :
    let n1 := (runStep step next0 ts1).2
    let rest := runStep step (n1 + step) ts2
    runStep step next0 (ts1 ++ sk :: ts2) = ((runStep step next0 ts1).1 ++ true :: rest.1, rest.2) ∧
    restartStep step (n1 + step) step sk ts2 = (false :: rest.1, rest.2) := by
  intro n1 rest
  constructor
  · rw [runStep_append]
    simp only [runStep, hbStep, hfire, if_true]; rfl
  · simp only [restartStep, armStep, ne_eq, not_true_eq_false, if_false]
    simp only [runStep]
    rw [hbStep_no_refire step n1 sk hfire hnl]

/-- wall-time mode is re-armed unconditionally: the restarted run writes a snapshot at once (documented in
    simulationarchive.c:654 "this will create two snapshots if restarted") -/
theorem wall_restart_fires (d w : Int) : (hbWall intOps d (armWall d w).2 w).1 = true := by
  simp [armWall, hbWall_int]

/-! ### repaired heartbeat: no hypothesis on the step length -/
theorem hbR_int (s d next t : Int) (hs : s = 1 ∨ s = -1) (hd : 0 < d) :
    hbR intOpsR s d next t =
      if s * next ≤ s * t then
        (true, if s * (next + s * d) ≤ s * t then next + s * d + s * ((s * (t - (next + s * d))) / d + 1) * d else next + s * d)
      else (false, next) := by
  have hdiv : ∀ x : Int, 0 ≤ x → d * (x / d) ≤ x ∧ x < d * (x / d) + d := by
    intro x hx
    have h1 := Int.mul_ediv_add_emod x d
    have h2 := Int.emod_nonneg x (by omega : d ≠ 0)
    have h3 := Int.emod_lt_of_pos x hd
    constructor <;> omega
  simp only [hbR, intOpsR, intOps]
  by_cases h : s * next ≤ s * t
  · simp only [h, decide_true, if_true]
    by_cases h1 : s * (next + s * d) ≤ s * t
    · simp only [h1, decide_true, hd, Bool.and_self, if_true]
      -- the rounding branch is dead on integers
      have hx : 0 ≤ s * (t - (next + s * d)) := by rcases hs with rfl | rfl <;> omega
      obtain ⟨q, hq, ha, hb⟩ : ∃ q, (s * (t - (next + s * d))) / d = q ∧ d * q ≤ s * (t - (next + s * d)) ∧ s * (t - (next + s * d)) < d * q + d :=
        ⟨_, rfl, (hdiv _ hx).1, (hdiv _ hx).2⟩
      simp only [hq]
      have hq2 : d * q + d = (q + 1) * d := by rw [Int.add_mul, Int.mul_comm]; omega
      have key : ¬ (s * (next + s * d + s * (q + 1) * d) ≤ s * t) := by
        have e : s * (next + s * d + s * (q + 1) * d) = s * (next + s * d) + (s * s) * ((q + 1) * d) := by
          rw [Int.mul_add, Int.mul_assoc s (q + 1) d, ← Int.mul_assoc s s]
        have ss : s * s = 1 := by rcases hs with rfl | rfl <;> rfl
        rw [e, ss, Int.one_mul]
        have : s * (t - (next + s * d)) = s * t - s * (next + s * d) := by rw [Int.mul_sub]
        omega
      simp [key]
    · simp [h1]
  · simp [h]

/-- after the repaired heartbeat wrote a snapshot the prescribed time is strictly ahead of `t` and at most one
    interval ahead: the following prescribed time of the grid `next0 + k·interval` -/
theorem hbR_next_ahead (s d next t : Int) (hs : s = 1 ∨ s = -1) (hd : 0 < d) (hfire : s * next ≤ s * t) :
    s * t < s * (hbR intOpsR s d next t).2 ∧ s * (hbR intOpsR s d next t).2 ≤ s * t + d := by
  have hdiv : ∀ x : Int, 0 ≤ x → d * (x / d) ≤ x ∧ x < d * (x / d) + d := by
    intro x hx
    have h1 := Int.mul_ediv_add_emod x d
    have h2 := Int.emod_nonneg x (by omega : d ≠ 0)
    have h3 := Int.emod_lt_of_pos x hd
    constructor <;> omega
  rw [hbR_int s d next t hs hd]
  simp only [hfire, if_true]
  have ss : s * s = 1 := by rcases hs with rfl | rfl <;> rfl
  by_cases h1 : s * (next + s * d) ≤ s * t
  · simp only [h1, if_true]
    have hx : 0 ≤ s * (t - (next + s * d)) := by rw [Int.mul_sub]; omega
    obtain ⟨q, hq, ha, hb⟩ : ∃ q, (s * (t - (next + s * d))) / d = q ∧ d * q ≤ s * (t - (next + s * d)) ∧ s * (t - (next + s * d)) < d * q + d :=
      ⟨_, rfl, (hdiv _ hx).1, (hdiv _ hx).2⟩
    simp only [hq]
    have e : s * (next + s * d + s * (q + 1) * d) = s * (next + s * d) + (q + 1) * d := by
      rw [Int.mul_add, Int.mul_assoc s (q + 1) d, ← Int.mul_assoc s s, ss, Int.one_mul]
    have hq2 : d * q + d = (q + 1) * d := by rw [Int.add_mul, Int.mul_comm]; omega
    have : s * (t - (next + s * d)) = s * t - s * (next + s * d) := by rw [Int.mul_sub]
    rw [e]; constructor <;> omega
  · simp only [h1, if_false]
    have e : s * (next + s * d) = s * next + d := by rw [Int.mul_add, ← Int.mul_assoc, ss, Int.one_mul]
    constructor <;> omega

/-- when the step is not longer than the interval past the prescribed time, the repaired heartbeat is the pinned one
    (so `cadence_exact` holds for it unchanged) -/
theorem hbR_eq_hb (s d next t : Int) (hs : s = 1 ∨ s = -1) (hd : 0 < d) (hnl : s * t < s * next + d) :
    hbR intOpsR s d next t = hb intOps s d next t := by
  rw [hbR_int s d next t hs hd, hb_int]
  have : ¬ (s * (next + s * d) ≤ s * t) := by rcases hs with rfl | rfl <;> omega
  simp [this]

/-- the repaired heartbeat never writes twice at the same time, whatever the ratio of step and interval -/
theorem hbR_no_refire (s d next t : Int) (hs : s = 1 ∨ s = -1) (hd : 0 < d) (hfire : s * next ≤ s * t) :
    (hbR intOpsR s d (hbR intOpsR s d next t).2 t) = (false, (hbR intOpsR s d next t).2) := by
  have h := (hbR_next_ahead s d next t hs hd hfire).1
  rw [hbR_int s d _ t hs hd]
  have : ¬ (s * (hbR intOpsR s d next t).2 ≤ s * t) := by omega
  simp [this]

theorem runR_cons (s d next t : Int) (r : List Int) :
    runR intOpsR s d next (t :: r) =
      ((hbR intOpsR s d next t).1 :: (runR intOpsR s d (hbR intOpsR s d next t).2 r).1,
       (runR intOpsR s d (hbR intOpsR s d next t).2 r).2) := rfl

theorem runR_append (s d next : Int) (a b : List Int) :
    runR intOpsR s d next (a ++ b) =
      ((runR intOpsR s d next a).1 ++ (runR intOpsR s d (runR intOpsR s d next a).2 b).1,
       (runR intOpsR s d (runR intOpsR s d next a).2 b).2) := by
  induction a generalizing next with
  | nil => simp [runR]
  | cons t r ih => simp only [List.cons_append, runR_cons, ih]

/-- **restart neither skips nor duplicates, repaired source, every step length**: no `hnl` hypothesis -/
theorem restartR_exact (s d next0 t : Int) (ts1 ts2 : List Int) (hs : s = 1 ∨ s = -1) (hd : 0 < d)
    (hfire : s * (runR intOpsR s d next0 ts1).2 ≤ s * t) :
    let n1 := (hbR intOpsR s d (runR intOpsR s d next0 ts1).2 t).2
    let rest := runR intOpsR s d n1 ts2
    runR intOpsR s d next0 (ts1 ++ t :: ts2) = ((runR intOpsR s d next0 ts1).1 ++ true :: rest.1, rest.2) ∧
    restartR intOpsR intNe s d n1 d t ts2 = (false :: rest.1, rest.2) := by
  intro n1 rest
  have hf : (hbR intOpsR s d (runR intOpsR s d next0 ts1).2 t).1 = true := by
    rw [hbR_int s d _ t hs hd]; simp [hfire]
  constructor
  · rw [runR_append, runR_cons, hf]
  · simp only [restartR, arm_same]
    rw [runR_cons, hbR_no_refire s d _ t hs hd hfire]

/-- the index arrays are always large enough: slot `i` exists when iteration `i` writes it, and the loop
    bound `i < nblobsmax` never ends the walk -/
theorem cap_ok (i : Nat) : i < capAt i := by
  induction i with
  | zero => simp [capAt]
  | succ n ih =>
    show n + 1 < growCap (capAt n) n
    unfold growCap
    by_cases h : n = capAt n - 1
    · rw [if_pos h]; omega
    · rw [if_neg h]; omega

end RV.Cadence
