import RV.Model.Reversal
import RV.Proofs.Field
/-
  Exact-arithmetic reversal of the symmetric schemes of RV/Model/Reversal.lean:
  `step(-dt) ∘ step(dt) = id` over any field, for an arbitrary position-dependent force.
-/
set_option linter.unusedVariables false
set_option linter.unusedSectionVars false
set_option linter.unusedSimpArgs false
namespace RV.Reversal
open RV
variable {K : Type} [Field K]

/-! ## LEAPFROG -/

theorem lfP_back_pos (dt : K) (p : LfP K) (a : V3 K) :
    (lfDriftP (-dt) (lfDriftP dt (lfKickP dt (lfDriftP dt p) a))).x = (lfDriftP dt p).x := by
  obtain ⟨⟨x, y, z⟩, ⟨vx, vy, vz⟩⟩ := p
  obtain ⟨ax, ay, az⟩ := a
  simp only [lfDriftP, lfKickP, half, sc_hadd, sc_hmul, sc_hdiv, sc_one, sc_ofNat, V3.mk.injEq]
  refine ⟨?_, ?_, ?_⟩ <;> ring

theorem lfP_back (dt : K) (p : LfP K) (a : V3 K) :
    lfDriftP (-dt) (lfKickP (-dt) (lfDriftP (-dt) (lfDriftP dt (lfKickP dt (lfDriftP dt p) a))) a) = p := by
  obtain ⟨⟨x, y, z⟩, ⟨vx, vy, vz⟩⟩ := p
  obtain ⟨ax, ay, az⟩ := a
  simp only [lfDriftP, lfKickP, half, sc_hadd, sc_hmul, sc_hdiv, sc_one, sc_ofNat, LfP.mk.injEq,
    V3.mk.injEq]
  refine ⟨⟨?_, ?_, ?_⟩, ⟨?_, ?_, ?_⟩⟩ <;> ring

theorem lfPart2_back (dt : K) :
    ∀ (s0 : List (LfP K)) (A : List (V3 K)) (s' : List (LfP K)),
      lfPart2 dt (lfDrift dt s0) A = some s' →
      (lfDrift (-dt) s').map (·.x) = (lfDrift dt s0).map (·.x) ∧
      lfPart2 (-dt) (lfDrift (-dt) s') A = some s0
  | [], [], s', h => by
    simp only [lfDrift, List.map_nil, lfPart2] at h
    injection h with h; subst h
    exact ⟨rfl, rfl⟩
  | p :: r, a :: ar, s', h => by
    simp only [lfDrift, List.map_cons] at h
    unfold lfPart2 at h
    split at h
    · rename_i r' hr
      injection h with h; subst h
      obtain ⟨ih1, ih2⟩ := lfPart2_back dt r ar r' hr
      simp only [lfDrift] at ih1 ih2
      refine ⟨?_, ?_⟩
      · simp only [lfDrift, List.map_cons, ih1, lfP_back_pos]
      · simp only [lfDrift, List.map_cons]
        unfold lfPart2
        rw [ih2]
        simp only [lfP_back]
    · exact absurd h (by simp)
  | [], _ :: _, s', h => by simp [lfDrift, lfPart2] at h
  | _ :: _, [], s', h => by simp [lfDrift, lfPart2] at h

theorem lfStep_reverse (acc : List (V3 K) → List (V3 K)) (dt : K) (s s' : List (LfP K))
    (h : lfStep acc dt s = some s') : lfStep acc (-dt) s' = some s := by
  unfold lfStep at h ⊢
  obtain ⟨h1, h2⟩ := lfPart2_back dt s _ s' h
  simp only [h1]
  exact h2

theorem lfSteps_succ_right (acc : List (V3 K) → List (V3 K)) (dt : K) (n : Nat) (s : List (LfP K)) :
    lfSteps acc dt (n + 1) s = (lfSteps acc dt n s).bind (lfStep acc dt) := by
  induction n generalizing s with
  | zero =>
    have e1 : lfSteps acc dt (0 + 1) s =
        match lfStep acc dt s with | some s' => lfSteps acc dt 0 s' | none => none := rfl
    have e0 : (lfSteps acc dt 0 s).bind (lfStep acc dt) = lfStep acc dt s := rfl
    rw [e1, e0]
    cases lfStep acc dt s <;> rfl
  | succ n ih =>
    have e1 : lfSteps acc dt (n + 1 + 1) s =
        match lfStep acc dt s with | some s' => lfSteps acc dt (n + 1) s' | none => none := rfl
    have e2 : lfSteps acc dt (n + 1) s =
        match lfStep acc dt s with | some s' => lfSteps acc dt n s' | none => none := rfl
    rw [e1, e2]
    cases lfStep acc dt s with
    | none => rfl
    | some s1 => exact ih s1

theorem lfSteps_reverse (acc : List (V3 K) → List (V3 K)) (dt : K) (n : Nat) :
    ∀ (s s' : List (LfP K)), lfSteps acc dt n s = some s' → lfSteps acc (-dt) n s' = some s := by
  induction n with
  | zero =>
    intro s s' h
    simp only [lfSteps] at h ⊢
    injection h with h; rw [h]
  | succ n ih =>
    intro s s' h
    rw [lfSteps] at h
    cases h1 : lfStep acc dt s with
    | none => rw [h1] at h; exact absurd h (by simp)
    | some s1 =>
      rw [h1] at h
      dsimp only at h
      rw [lfSteps_succ_right, ih s1 s' h, Option.bind_some]
      exact lfStep_reverse acc dt s s1 h1

/-! ## SEI -/

/-- the constants `reb_integrator_sei_init` produces for `-dt` when `sin`, `tan` are odd -/
def SeiC.rev (c : SeiC K) : SeiC K :=
  { c with sindt := -c.sindt, tandt := -c.tandt, sindtz := -c.sindtz, tandtz := -c.tandtz }

theorem seiInit_neg (sn tn : K → K) (hs : ∀ a, sn (-a) = -sn a) (ht : ∀ a, tn (-a) = -tn a)
    (omega omegaZ dt : K) :
    seiInit sn tn omega omegaZ (-dt) = (seiInit sn tn omega omegaZ dt).rev := by
  simp only [seiInit, SeiC.rev, sc_hmul, sc_hdiv, sc_hneg, sc_ofNat, neg_neg]
  have e1 : omega * (dt / ((2 : ℕ) : K)) = -(omega * (-dt / ((2 : ℕ) : K))) := by ring
  have e2 : omega * (dt / ((4 : ℕ) : K)) = -(omega * (-dt / ((4 : ℕ) : K))) := by ring
  have e3 : omegaZ * (dt / ((2 : ℕ) : K)) = -(omegaZ * (-dt / ((2 : ℕ) : K))) := by ring
  have e4 : omegaZ * (dt / ((4 : ℕ) : K)) = -(omegaZ * (-dt / ((4 : ℕ) : K))) := by ring
  rw [e1, e2, e3, e4, hs, ht, hs, ht]

theorem seiH012_back (dt : K) (c : SeiC K) (h2 : (2 : K) ≠ 0) (ho : c.omega ≠ 0) (hz : c.omegaZ ≠ 0)
    (p : LfP K) : seiH012 (-dt) c.rev (seiH012 dt c p) = p := by
  obtain ⟨⟨x, y, z⟩, ⟨vx, vy, vz⟩⟩ := p
  obtain ⟨om, omz, s, t, sz, tz⟩ := c
  simp only at ho hz
  have h4 : (4 : K) ≠ 0 := by
    have : (4 : K) = 2 * 2 := by norm_num
    rw [this]; exact mul_ne_zero h2 h2
  simp only [seiH012, SeiC.rev, sc_hadd, sc_hsub, sc_hmul, sc_hdiv, sc_hneg, sc_ofNat, LfP.mk.injEq,
    V3.mk.injEq, Nat.cast_ofNat]
  refine ⟨⟨?_, ?_, ?_⟩, ⟨?_, ?_, ?_⟩⟩ <;> field_simp <;> ring

theorem seiH012_pos_kick (dt : K) (p : LfP K) (a : V3 K) : (lfKickP dt p a).x = p.x := rfl

theorem lfKickP_back (dt : K) (p : LfP K) (a : V3 K) : lfKickP (-dt) (lfKickP dt p a) a = p := by
  obtain ⟨⟨x, y, z⟩, ⟨vx, vy, vz⟩⟩ := p
  obtain ⟨ax, ay, az⟩ := a
  simp only [lfKickP, sc_hadd, sc_hmul, LfP.mk.injEq, V3.mk.injEq]
  refine ⟨trivial, ?_, ?_, ?_⟩ <;> ring

theorem seiPart2_back (dt : K) (c : SeiC K) (h2 : (2 : K) ≠ 0) (ho : c.omega ≠ 0) (hz : c.omegaZ ≠ 0) :
    ∀ (s1 : List (LfP K)) (A : List (V3 K)) (s' : List (LfP K)),
      seiPart2 dt c s1 A = some s' →
      (s'.map (seiH012 (-dt) c.rev)).map (·.x) = s1.map (·.x) ∧
      seiPart2 (-dt) c.rev (s'.map (seiH012 (-dt) c.rev)) A = some (s1.map (seiH012 (-dt) c.rev))
  | [], [], s', h => by
    simp only [seiPart2] at h
    injection h with h; subst h
    exact ⟨rfl, rfl⟩
  | p :: r, a :: ar, s', h => by
    unfold seiPart2 at h
    split at h
    · rename_i r' hr
      injection h with h; subst h
      obtain ⟨ih1, ih2⟩ := seiPart2_back dt c h2 ho hz r ar r' hr
      refine ⟨?_, ?_⟩
      · simp only [List.map_cons, ih1, seiH012_back dt c h2 ho hz, seiH012_pos_kick]
      · simp only [List.map_cons]
        unfold seiPart2
        rw [ih2]
        simp only [seiH012_back dt c h2 ho hz, lfKickP_back]
    · exact absurd h (by simp)
  | [], _ :: _, s', h => by simp [seiPart2] at h
  | _ :: _, [], s', h => by simp [seiPart2] at h

theorem seiStep_reverse (acc : List (V3 K) → List (V3 K)) (dt : K) (c : SeiC K)
    (h2 : (2 : K) ≠ 0) (ho : c.omega ≠ 0) (hz : c.omegaZ ≠ 0) (s s' : List (LfP K))
    (h : seiStep acc dt c s = some s') : seiStep acc (-dt) c.rev s' = some s := by
  unfold seiStep at h ⊢
  obtain ⟨h1, h2'⟩ := seiPart2_back dt c h2 ho hz _ _ s' h
  simp only [h1]
  rw [h2']
  congr 1
  rw [List.map_map]
  conv_rhs => rw [← List.map_id s]
  apply List.map_congr_left
  intro p _
  exact seiH012_back dt c h2 ho hz p

/-! ## abstract palindromic splittings -/

theorem splitRun_append {S C : Type} (A B : C → S → S) (l₁ l₂ : List (Bool × C)) (s : S) :
    splitRun A B (l₁ ++ l₂) s = splitRun A B l₂ (splitRun A B l₁ s) := by
  induction l₁ generalizing s with
  | nil => rfl
  | cons a r ih =>
    obtain ⟨b, c⟩ := a
    cases b <;> simp only [List.cons_append, splitRun, ih]

theorem splitRun_inv_reverse {S C : Type} (A B : C → S → S) (ng : C → C)
    (hA : ∀ c s, A (ng c) (A c s) = s) (hB : ∀ c s, B (ng c) (B c s) = s)
    (l : List (Bool × C)) (s : S) :
    splitRun A B ((l.map (fun p => (p.1, ng p.2))).reverse) (splitRun A B l s) = s := by
  induction l generalizing s with
  | nil => rfl
  | cons a r ih =>
    obtain ⟨b, c⟩ := a
    cases b <;>
      simp only [List.map_cons, List.reverse_cons, splitRun, splitRun_append, ih, hA, hB]

theorem opRun_append {O S : Type} (φ : O → S → S) (l₁ l₂ : List O) (s : S) :
    opRun φ (l₁ ++ l₂) s = opRun φ l₂ (opRun φ l₁ s) := by
  induction l₁ generalizing s with
  | nil => rfl
  | cons a r ih => simp only [List.cons_append, opRun, ih]

theorem opRun_inv_reverse {O S : Type} (φ : O → S → S) (ng : O → O) (hφ : ∀ o s, φ (ng o) (φ o s) = s)
    (l : List O) (s : S) : opRun φ ((l.map ng).reverse) (opRun φ l s) = s := by
  induction l generalizing s with
  | nil => rfl
  | cons a r ih => simp only [List.map_cons, List.reverse_cons, opRun, opRun_append, ih, hφ]

theorem opRun_palindrome {O S : Type} (φ : O → S → S) (ng : O → O) (hφ : ∀ o s, φ (ng o) (φ o s) = s)
    (l : List O) (hl : l.reverse = l) (s : S) : opRun φ (l.map ng) (opRun φ l s) = s := by
  have := opRun_inv_reverse φ ng hφ l s
  rwa [← List.map_reverse, hl] at this

theorem iter_succ_right {S : Type} (f : S → S) (n : Nat) (s : S) : iter f (n + 1) s = f (iter f n s) := by
  induction n generalizing s with
  | zero => rfl
  | succ n ih => exact ih (f s)

theorem iter_inverse {S : Type} (f g : S → S) (h : ∀ s, g (f s) = s) (n : Nat) (s : S) :
    iter g n (iter f n s) = s := by
  induction n generalizing s with
  | zero => rfl
  | succ n ih =>
    rw [iter_succ_right f n s]
    show iter g n (g (f (iter f n s))) = s
    rw [h, ih]

/-- n unsynchronised steps followed by a synchronisation are n synchronized steps, if two half Kepler drifts make a full one -/
theorem unsafe_eq_safe {S C : Type} (kepler inter : C → S → S) (half : C → C) (τ : C)
    (hadd : ∀ s, kepler (half τ) (kepler (half τ) s) = kepler τ s) (n : Nat) (x : S) :
    uSync kepler half τ (iter (uStep kepler inter half τ) n ⟨x, false⟩) = ⟨iter (whStep kepler inter half τ) n x, false⟩ := by
  cases n with
  | zero => rfl
  | succ n =>
    have key : ∀ n, iter (uStep kepler inter half τ) (n + 1) ⟨x, false⟩ =
        ⟨inter τ (kepler (half τ) (iter (whStep kepler inter half τ) n x)), true⟩ := by
      intro n
      induction n with
      | zero => rfl
      | succ n ih =>
        rw [iter_succ_right, ih, iter_succ_right (whStep kepler inter half τ) n x]
        simp only [uStep, if_true, whStep, hadd]
    rw [key n, iter_succ_right (whStep kepler inter half τ) n x]
    simp only [uSync, if_true, whStep]

end RV.Reversal
