import RV.Proofs.Field
import RV.Model.Kepler
import Mathlib.Algebra.Order.Archimedean.Basic
import Mathlib.Algebra.Order.Field.Basic
import Mathlib.Tactic.Linarith
/- termination of the argument-halving loop of stumpff_cs3 / stumpff_cs over an
   Archimedean ordered field (helper for RV/Props/C03.lean) -/
set_option linter.unusedTactic false
set_option linter.unusedVariables false
set_option linter.unusedSectionVars false
namespace RV.Kepler
open RV
variable {K : Type} [Field K] [LinearOrder K] [IsStrictOrderedRing K]

/-- comparisons of an ordered field as the operation-only class the model is written over -/
instance ordScalarO : ScalarO K :=
  { (fieldScalar : Scalar K) with lt := fun a b => decide (a < b), le := fun a b => decide (a ≤ b) }

theorem halve_succ (abs : K → K) (thr div : K) (fin : K → Bool) (hfin : ∀ x, fin x = true)
    (fuel : Nat) (z : K) (n : Nat) :
    halve abs thr div fin (fuel + 1) z n =
      if thr < abs z then halve abs thr div fin fuel (z / div) (n + 1) else some (z, n) := by
  simp only [halve, ScalarO.lt, hfin, Bool.and_true, decide_eq_true_eq]

/-- if the loop condition holds for the first `k` iterates and fails for the next one, the
    loop exits after exactly `k` passes provided it has `k+1` units of fuel -/
theorem halve_exact (thr div : K) (fin : K → Bool) (hfin : ∀ x, fin x = true) (hdiv : div ≠ 0) (k : Nat) :
    ∀ (fuel : Nat) (z : K) (n : Nat), (∀ j < k, thr < |z / div ^ j|) → ¬ thr < |z / div ^ k| →
      k + 1 ≤ fuel → halve (fun x => |x|) thr div fin fuel z n = some (z / div ^ k, n + k) := by
  induction k with
  | zero =>
    intro fuel z n _ hk hf
    obtain ⟨f, rfl⟩ : ∃ f, fuel = f + 1 := ⟨fuel - 1, by omega⟩
    rw [halve_succ _ _ _ _ hfin]
    simp only [pow_zero, div_one] at hk ⊢
    rw [if_neg hk]; rfl
  | succ k ih =>
    intro fuel z n hj hk hf
    obtain ⟨f, rfl⟩ : ∃ f, fuel = f + 1 := ⟨fuel - 1, by omega⟩
    rw [halve_succ _ _ _ _ hfin]
    have h0 : thr < |z| := by simpa using hj 0 (by omega)
    rw [if_pos h0]
    have e : ∀ j, z / div / div ^ j = z / div ^ (j + 1) := by
      intro j; rw [pow_succ]; field_simp
    rw [ih f (z / div) (n + 1) (fun j hjk => by rw [e]; exact hj (j + 1) (by omega))
      (by rw [e]; exact hk) (by omega), e]
    congr 2; omega

variable [Archimedean K]

/-- the halving loop terminates for every argument: with `n` = the least number of
    divisions that brings `|z|` down to the threshold -/
theorem halve_terminates (thr div : K) (fin : K → Bool) (hfin : ∀ x, fin x = true)
    (hthr : 0 < thr) (hdiv : 1 < div) (z : K) :
    ∃ n : Nat, (∀ fuel, n + 1 ≤ fuel → ∀ n0, halve (fun x => |x|) thr div fin fuel z n0 = some (z / div ^ n, n0 + n)) ∧
      |z / div ^ n| ≤ thr ∧ (∀ j < n, thr * div ^ j < |z|) := by
  have hd0 : (0 : K) < div := lt_trans zero_lt_one hdiv
  obtain ⟨m, hm⟩ := pow_unbounded_of_one_lt (|z| / thr) hdiv
  have hex : ∃ k : Nat, ¬ thr < |z / div ^ k| := by
    refine ⟨m, ?_⟩
    rw [abs_div, abs_of_pos (pow_pos hd0 m), not_lt, div_le_iff₀ (pow_pos hd0 m)]
    have := (div_lt_iff₀ hthr).1 hm
    linarith
  classical
  refine ⟨Nat.find hex, ?_, ?_, ?_⟩
  · intro fuel hf n0
    exact halve_exact thr div fin hfin (ne_of_gt hd0) (Nat.find hex) fuel z n0
      (fun j hj => not_not.1 (Nat.find_min hex hj)) (Nat.find_spec hex) hf
  · exact not_lt.1 (Nat.find_spec hex)
  · intro j hj
    have := not_not.1 (Nat.find_min hex hj)
    rw [abs_div, abs_of_pos (pow_pos hd0 j), lt_div_iff₀ (pow_pos hd0 j)] at this
    exact this

end RV.Kepler
