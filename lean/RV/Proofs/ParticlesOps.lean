import RV.Proofs.ParticlesDcrit
/-
  Operation-level lemmas for C14: every operation of RV/Model/Particles.lean keeps the storage
  invariant, faults only in the call shape of finding F4g, and — outside the call shapes of the
  findings F4/F18 — does on the abstract machine exactly what `Spec` says.  Tree mode's second phase
  (eviction of flagged particles by the tree update) and the MERCURIUS side array included.
-/
set_option linter.unusedVariables false
set_option linter.unusedSimpArgs false
namespace RV.Particles


theorem inv_dcrit (c : State) (d : List Nat) : Inv { c with dcrit := d } ↔ Inv c := Iff.rfl

theorem removeCore_removed_valid (v : Variant) (c : State) (i : Int) (ks : Bool)
    (h : (removeCore v c i ks).2 = Out.removed) : ¬ rangeBad c i = true := by
  intro hb
  rw [removeCore_eq, if_pos hb] at h
  split at h <;> simp [removeShortcut] at h

theorem Spec.removeCore_removed (s : Spec) (i : Int) (ks : Bool) (h0 : 0 ≤ i) (h1 : i < (s.ps.length : Int))
    (hN : s.ps.length ≠ 1) (hv : s.nVar = 0) (ht : s.treeRoot = false) :
    (s.removeCore i ks).2 = Out.removed := by
  unfold Spec.removeCore
  rw [if_neg (by omega), if_neg hN]
  unfold Spec.removeMany
  rw [if_neg (by simp [hv])]
  split
  · simp [ht]
  · simp only [ht, Bool.false_eq_true, if_false]
    have : s.ps ≠ [] := by intro h; rw [h] at h1; simp at h1; omega
    cases hl : s.ps.getLast? with
    | none => exact absurd (List.getLast?_eq_none_iff.mp hl) this
    | some l => rfl

/-- where the source variant `v` can answer `fault` (leave the `dcrit` allocation) -/
def NoFaultRemove (v : Variant) (c : State) (i : Int) : Prop :=
  (v.dcritBounded = true ∨ ¬ Overrun c i) ∧
  (v.dcritWithParticles = true ∨ v.rangeFirst = true ∨ c.mercurius = false ∨ rangeBad c i = false)

/-- the call shapes in which variant `v` departs from the documented behaviour -/
def NoShapeRemove (v : Variant) (c : State) (i : Int) (ks : Bool) : Prop :=
  NoShapeCore v c i ks ∧ NoFaultRemove v c i ∧
  (v.dcritWithParticles = true ∨ c.mercurius = false ∨ c.dcrit = [] ∨ c.N = 1 ∨
    (c.nVar = 0 ∧ c.treeRoot = false) ∨ rangeBad c i = true)

theorem NoShapeRemove.repaired (c : State) (i : Int) (ks : Bool) : NoShapeRemove Variant.repaired c i ks :=
  ⟨NoShapeCore.repaired c i ks, ⟨Or.inl rfl, Or.inl rfl⟩, Or.inl rfl⟩

theorem dcritShift_not_merc (v : Variant) (c : State) (i : Int) (h : c.mercurius = false) :
    dcritShift v c i = some c := by
  unfold dcritShift; simp [h]

theorem remove_spec (v : Variant) (c : State) (hinv : Inv c) (i : Int) (ks : Bool) :
    Inv (remove v c i ks).1 ∧ (NoFaultRemove v c i → (remove v c i ks).2 ≠ Out.fault) ∧
    (NoShapeRemove v c i ks → (abs (remove v c i ks).1, (remove v c i ks).2) = (abs c).remove i ks) := by
  have hlen := abs_len hinv
  obtain ⟨k1, k2, k3⟩ := removeCore_spec v c hinv i ks
  have hkeep := removeCore_keeps_dcrit v c i ks
  -- the abstract side, given the core refinement
  have hspec : NoShapeCore v c i ks → ∀ d, d = (if c.mercurius then dcritErased c.dcrit c.N i else c.dcrit) →
      (removeCore v c i ks).2 = Out.removed →
      (abs { (removeCore v c i ks).1 with dcrit := d }, (removeCore v c i ks).2) = (abs c).remove i ks := by
    intro hs d hd hrem
    have e := k3 hs
    unfold Spec.remove
    rw [← e]
    simp only [hrem, true_and]
    have hm : (abs c).mercurius = c.mercurius := rfl
    have hdc : (abs c).dcrit = c.dcrit := rfl
    rw [hm, hdc, hlen]
    cases hmm : c.mercurius
    · simp only [Bool.false_eq_true, if_false]
      rw [hmm] at hd; simp only [Bool.false_eq_true, if_false] at hd
      rw [hd, ← hkeep]
    · simp only [if_true]
      rw [hmm] at hd; simp only [if_true] at hd
      rw [hd]; rfl
  have hspec' : NoShapeCore v c i ks → (removeCore v c i ks).2 ≠ Out.removed →
      (abs (removeCore v c i ks).1, (removeCore v c i ks).2) = (abs c).remove i ks := by
    intro hs hrem
    have e := k3 hs
    unfold Spec.remove
    rw [← e]
    simp only [hrem, false_and, if_false]
  unfold remove
  by_cases hW : v.dcritWithParticles = true
  · rw [if_pos hW]
    simp only []
    by_cases hrem : (removeCore v c i ks).2 = Out.removed
    · rw [if_pos hrem]
      have hval := removeCore_removed_valid v c i ks hrem
      have hr : 0 ≤ i ∧ i < (c.N : Int) := by
        have : ¬ (i < 0 ∨ i ≥ (c.N : Int)) := fun h => hval ((rangeBad_iff c i).mpr h)
        omega
      cases hds : dcritShift v c i with
      | none =>
        refine ⟨hinv, fun hnf => ?_, fun hs => ?_⟩
        · obtain ⟨d, e1, _⟩ := dcritShift_spec v c i hr.1 hr.2 hnf.1
          rw [e1] at hds; simp at hds
        · obtain ⟨d, e1, _⟩ := dcritShift_spec v c i hr.1 hr.2 hs.2.1.1
          rw [e1] at hds; simp at hds
      | some c1 =>
        simp only []
        refine ⟨(inv_dcrit _ _).mpr k1, fun _ => by rw [hrem]; simp, fun hs => ?_⟩
        obtain ⟨d, e1, e2⟩ := dcritShift_spec v c i hr.1 hr.2 hs.2.1.1
        rw [e1] at hds; simp at hds; subst hds
        exact hspec hs.1 d e2 hrem
    · rw [if_neg hrem]
      exact ⟨k1, fun _ => k2, fun hs => hspec' hs.1 hrem⟩
  · rw [if_neg hW]
    by_cases hb : (v.rangeFirst && rangeBad c i) = true
    · rw [if_pos hb]
      simp only [Bool.and_eq_true] at hb
      refine ⟨hinv, fun _ => by simp, fun hs => ?_⟩
      have hcore : removeCore v c i ks = (c, Out.errRange) := by
        rw [removeCore_eq, if_pos hb.2, if_neg (by simp [hb.1])]
      have := hspec' hs.1 (by rw [hcore]; simp)
      rw [hcore] at this; exact this
    · rw [if_neg hb]
      by_cases hrb : rangeBad c i = true
      · -- only reachable when the range check comes later (original source)
        have hrf : v.rangeFirst = false := by
          cases h : v.rangeFirst
          · rfl
          · exact absurd (by simp [h, hrb]) hb
        cases hds : dcritShift v c i with
        | none =>
          refine ⟨hinv, fun hnf => ?_, fun hs => ?_⟩
          · rcases hnf.2 with h | h | h | h
            · exact absurd h hW
            · rw [hrf] at h; simp at h
            · rw [dcritShift_not_merc v c i h] at hds; simp at hds
            · rw [hrb] at h; simp at h
          · rcases hs.2.1.2 with h | h | h | h
            · exact absurd h hW
            · rw [hrf] at h; simp at h
            · rw [dcritShift_not_merc v c i h] at hds; simp at hds
            · rw [hrb] at h; simp at h
        | some c1 =>
          simp only []
          have hsh := dcritShift_shape v c c1 i hds
          obtain ⟨q1, q2, q3⟩ := removeCore_spec v c1 ((by rw [hsh]; exact (inv_dcrit _ _).mpr hinv)) i ks
          refine ⟨q1, fun _ => q2, fun hs => ?_⟩
          rcases hs.2.1.2 with h | h | h | h
          · exact absurd h hW
          · rw [hrf] at h; simp at h
          · rw [dcritShift_not_merc v c i h] at hds; simp at hds; subst hds
            have hne : (removeCore v c i ks).2 ≠ Out.removed := fun hr => removeCore_removed_valid v c i ks hr hrb
            exact hspec' hs.1 hne
          · rw [hrb] at h; simp at h
      · have hr : 0 ≤ i ∧ i < (c.N : Int) := by
          have : ¬ (i < 0 ∨ i ≥ (c.N : Int)) := fun h => hrb ((rangeBad_iff c i).mpr h)
          omega
        cases hds : dcritShift v c i with
        | none =>
          refine ⟨hinv, fun hnf => ?_, fun hs => ?_⟩
          · obtain ⟨d, e1, _⟩ := dcritShift_spec v c i hr.1 hr.2 hnf.1
            rw [e1] at hds; simp at hds
          · obtain ⟨d, e1, _⟩ := dcritShift_spec v c i hr.1 hr.2 hs.2.1.1
            rw [e1] at hds; simp at hds
        | some c1 =>
          simp only []
          have hsh := dcritShift_shape v c c1 i hds
          rw [hsh, removeCore_dcrit]
          refine ⟨(inv_dcrit _ _).mpr k1, fun _ => k2, fun hs => ?_⟩
          obtain ⟨d, e1, e2⟩ := dcritShift_spec v c i hr.1 hr.2 hs.2.1.1
          have hd : c1.dcrit = d := by rw [e1] at hds; simp at hds; rw [← hds]
          rw [hd]
          by_cases hrem : (removeCore v c i ks).2 = Out.removed
          · exact hspec hs.1 d e2 hrem
          · -- nothing was removed: `dcrit` must be what it was
            have hdd : d = c.dcrit := by
              rcases hs.2.2 with h | h | h | h | h | h
              · exact absurd h hW
              · rw [e2, h]; simp
              · rw [e2]; cases c.mercurius <;> simp [dcritErased, h]
              · rw [e2]
                cases c.mercurius
                · simp
                · simp only [if_true]; rw [h]; exact dcritErased_one _ _ hr.1 (by omega)
              · by_cases hN1 : c.N = 1
                · rw [e2]
                  cases c.mercurius
                  · simp
                  · simp only [if_true]; rw [hN1]; exact dcritErased_one _ _ hr.1 (by omega)
                · exfalso
                  have e := k3 hs.1
                  have := Spec.removeCore_removed (abs c) i ks hr.1 (by rw [hlen]; exact hr.2)
                    (by rw [hlen]; exact hN1) h.1 h.2
                  rw [← e] at this
                  exact hrem this
              · exact absurd h hrb
            rw [hdd, ← hkeep]
            exact hspec' hs.1 hrem



/-! ### unsorted removal as a permutation -/

theorem snoc_of_getLast {α} (l : List α) (a : α) (h : l.getLast? = some a) : l = l.dropLast ++ [a] := by
  induction l with
  | nil => simp at h
  | cons x t ih =>
    cases t with
    | nil => simp at h; simp [h]
    | cons y t' =>
      have : (y :: t').getLast? = some a := by simpa [List.getLast?_cons_cons] using h
      have := ih this
      simp only [List.dropLast_cons_cons, List.cons_append]
      rw [← this]

/-- moving the last element into the hole gives the same multiset as erasing the element -/
theorem set_dropLast_perm {α} (l : List α) (i : Nat) (a : α) (hi : i < l.length)
    (h : l.getLast? = some a) : ((l.set i a).dropLast).Perm (l.eraseIdx i) := by
  have hl := snoc_of_getLast l a h
  generalize l.dropLast = ini at hl
  subst hl
  simp only [List.length_append, List.length_singleton] at hi
  by_cases hlast : i < ini.length
  · rw [List.set_append, if_pos hlast, List.dropLast_concat, List.eraseIdx_append_of_lt_length hlast]
    rw [List.set_eq_take_append_cons_drop, if_pos hlast, List.eraseIdx_eq_take_drop_succ]
    exact List.perm_middle.trans (List.perm_append_singleton a _).symm
  · have : i = ini.length := by omega
    subst this
    rw [List.set_append, if_neg (by omega), List.eraseIdx_append_of_length_le (by omega)]
    simp

theorem cons_eraseIdx_perm {α} (l : List α) (i : Nat) (h : i < l.length) : (l[i] :: l.eraseIdx i).Perm l := by
  induction l generalizing i with
  | nil => simp at h
  | cons y t ih =>
    cases i with
    | zero => simp
    | succ j =>
      have hj : j < t.length := by simpa using h
      simp only [List.getElem_cons_succ, List.eraseIdx_cons_succ]
      exact (List.Perm.swap y (t[j]'hj) _).trans ((ih j hj).cons y)

theorem filter_eraseIdx_of_not {α} (f : α → Bool) : ∀ (l : List α) (i : Nat) (x : α),
    l[i]? = some x → f x = false → (l.eraseIdx i).filter f = l.filter f := by
  intro l
  induction l with
  | nil => intro i x h; simp at h
  | cons y t ih =>
    intro i x h hf
    cases i with
    | zero => simp at h; subst h; simp [List.filter_cons, hf]
    | succ j =>
      simp at h
      simp only [List.eraseIdx_cons_succ, List.filter_cons]
      rw [ih j x h hf]

/-! ### tree mode, second phase: the tree update evicts the flagged particles -/

def unfl (p : P) : Bool := !p.flagged

def live (c : State) : List P := (c.mem.take c.N).filter unfl

theorem evict_spec (c : State) (hinv : Inv c) (q : Nat) (hf : isFlaggedAt c q = true) :
    ∃ c', evict c q = some c' ∧ Inv c' ∧ c' = { c with mem := c'.mem, N := c'.N } ∧ c'.N + 1 = c.N ∧
      (live c').Perm (live c) := by
  have hle := hinv.le
  simp only [isFlaggedAt, Bool.and_eq_true, decide_eq_true_eq] at hf
  obtain ⟨hq, hfl⟩ := hf
  obtain ⟨n, hn⟩ : ∃ n, c.N = n + 1 := ⟨c.N - 1, by omega⟩
  have hn' : c.N - 1 = n := by omega
  have hnl : n < c.mem.length := by omega
  have hql : q < c.mem.length := by omega
  have hqv : c.mem[q]? = some c.mem[q] := List.getElem?_eq_getElem hql
  rw [hqv] at hfl
  simp only at hfl
  unfold evict
  rw [if_neg (by omega)]
  simp only [hn', List.getElem?_eq_getElem hnl, writeAt, if_pos hql]
  refine ⟨_, rfl, ?_, rfl, by simp; omega, ?_⟩
  · simp [Inv]; have := hinv.1; have := hinv.2; omega
  · simp only [live]
    have ht := take_unsorted_remove c.mem n q c.mem[n] (by omega) (by omega) (List.getElem?_eq_getElem hnl)
    rw [ht, hn]
    have hlast : (c.mem.take (n + 1)).getLast? = some c.mem[n] := by
      rw [getLast_take c.mem n (by omega)]; exact List.getElem?_eq_getElem hnl
    have hp := set_dropLast_perm (c.mem.take (n + 1)) q c.mem[n] (by simp; omega) hlast
    have hq' : (c.mem.take (n + 1))[q]? = some c.mem[q] := by
      rw [List.getElem?_take, if_pos (by omega)]; exact hqv
    have he := filter_eraseIdx_of_not unfl (c.mem.take (n + 1)) q c.mem[q] hq' (by simp [unfl, hfl])
    rw [← he]
    exact hp.filter unfl

theorem evictAll_spec : ∀ (visit : List Nat) (c : State), Inv c →
    evictAll c visit ≠ some none ∧
    ∀ c', evictAll c visit = some (some c') →
      Inv c' ∧ c' = { c with mem := c'.mem, N := c'.N } ∧ (live c').Perm (live c) := by
  intro visit
  induction visit with
  | nil =>
    intro c hinv
    refine ⟨by simp [evictAll], fun c' h => ?_⟩
    simp [evictAll] at h; subst h
    exact ⟨hinv, rfl, List.Perm.refl _⟩
  | cons q rest ih =>
    intro c hinv
    unfold evictAll
    by_cases hf : isFlaggedAt c q = true
    · rw [if_pos hf]
      obtain ⟨c1, e1, i1, s1, _, p1⟩ := evict_spec c hinv q hf
      rw [e1]
      simp only []
      obtain ⟨a, b⟩ := ih c1 i1
      refine ⟨a, fun c' h => ?_⟩
      obtain ⟨i2, s2, p2⟩ := b c' h
      refine ⟨i2, ?_, p2.trans p1⟩
      rw [s2, s1]
    · rw [if_neg hf]
      exact ⟨by simp, fun c' h => by simp at h⟩

theorem filter_unfl_of_none (l : List P) (h : l.any (·.flagged) = false) : l.filter unfl = l := by
  rw [List.filter_eq_self]
  intro a ha
  rw [List.any_eq_false] at h
  have := h a ha
  simp [unfl, this]

/-- the `N_active` clause of the tree update (finding F4h) -/
def NoShapeTreeUpdate (v : Variant) (c : State) : Prop :=
  v.evictClamp = true ∨ c.nActive ≤ ((live c).length : Int)

theorem treeUpdate_spec (v : Variant) (c : State) (hinv : Inv c) (visit : List Nat) :
    Inv (treeUpdate v c visit).1 ∧ (treeUpdate v c visit).2 ≠ Out.fault ∧
    (NoShapeTreeUpdate v c →
      SpecStep (abs c) (.treeUpdate visit) (treeUpdate v c visit).2 (abs (treeUpdate v c visit).1)) := by
  obtain ⟨nf, hall⟩ := evictAll_spec visit c hinv
  unfold treeUpdate
  cases he : evictAll c visit with
  | none => exact ⟨hinv, by simp, fun _ => Or.inl ⟨rfl, rfl⟩⟩
  | some r =>
    cases r with
    | none => exact absurd he nf
    | some c' =>
      obtain ⟨i2, s2, p2⟩ := hall c' he
      simp only []
      by_cases hany : (c'.mem.take c'.N).any (·.flagged) = true
      · rw [if_pos hany]; exact ⟨hinv, by simp, fun _ => Or.inl ⟨rfl, rfl⟩⟩
      · rw [if_neg hany]
        simp only [Bool.not_eq_true] at hany
        have hps : c'.mem.take c'.N = live c' := (filter_unfl_of_none _ hany).symm
        have hlen' : (c'.mem.take c'.N).length = c'.N := by
          have := i2.le; simp [List.length_take]; omega
        refine ⟨by simp [Inv]; exact i2, by simp, fun hs => Or.inr ⟨rfl, ?_, ?_⟩⟩
        · show (c'.mem.take c'.N).Perm ((c.mem.take c.N).filter (fun p => !p.flagged))
          rw [hps]; exact p2
        · have hact : (if v.evictClamp = true then clampActive c'.nActive c'.N else c'.nActive)
              = clampActive c.nActive c'.N := by
            have hna : c'.nActive = c.nActive := by rw [s2]
            rw [hna]
            rcases hs with h | h
            · simp [h]
            · have hl : (live c).length = c'.N := by
                rw [← p2.length_eq, ← hps, hlen']
              rw [hl] at h
              cases v.evictClamp <;> simp [clampActive] <;> omega
          simp only [abs, hact, hlen']
          rw [s2]



/-! ### the wrapper only adds a `dcrit` update to the core removal -/

theorem remove_core_shape (v : Variant) (c : State) (i : Int) (ks : Bool) (hnf : NoFaultRemove v c i) :
    ∃ d, remove v c i ks = ({ (removeCore v c i ks).1 with dcrit := d }, (removeCore v c i ks).2) := by
  have hkeep := removeCore_keeps_dcrit v c i ks
  have hself : ∀ x : State, ({ x with dcrit := x.dcrit } : State) = x := fun _ => rfl
  unfold remove
  by_cases hW : v.dcritWithParticles = true
  · rw [if_pos hW]
    simp only []
    by_cases hrem : (removeCore v c i ks).2 = Out.removed
    · rw [if_pos hrem]
      have hval := removeCore_removed_valid v c i ks hrem
      have hr : 0 ≤ i ∧ i < (c.N : Int) := by
        have : ¬ (i < 0 ∨ i ≥ (c.N : Int)) := fun h => hval ((rangeBad_iff c i).mpr h)
        omega
      obtain ⟨d, e1, _⟩ := dcritShift_spec v c i hr.1 hr.2 hnf.1
      rw [e1]
      exact ⟨d, rfl⟩
    · rw [if_neg hrem]
      exact ⟨(removeCore v c i ks).1.dcrit, rfl⟩
  · rw [if_neg hW]
    by_cases hb : (v.rangeFirst && rangeBad c i) = true
    · rw [if_pos hb]
      simp only [Bool.and_eq_true] at hb
      have hcore : removeCore v c i ks = (c, Out.errRange) := by
        rw [removeCore_eq, if_pos hb.2, if_neg (by simp [hb.1])]
      rw [hcore]
      exact ⟨c.dcrit, rfl⟩
    · rw [if_neg hb]
      have hsome : ∃ d, dcritShift v c i = some { c with dcrit := d } := by
        by_cases hrb : rangeBad c i = true
        · have hrf : v.rangeFirst = false := by
            cases h : v.rangeFirst
            · rfl
            · exact absurd (by simp [h, hrb]) hb
          rcases hnf.2 with h | h | h | h
          · exact absurd h hW
          · rw [hrf] at h; simp at h
          · exact ⟨c.dcrit, by rw [dcritShift_not_merc v c i h]⟩
          · rw [hrb] at h; simp at h
        · have hr : 0 ≤ i ∧ i < (c.N : Int) := by
            have : ¬ (i < 0 ∨ i ≥ (c.N : Int)) := fun h => hrb ((rangeBad_iff c i).mpr h)
            omega
          obtain ⟨d, e1, _⟩ := dcritShift_spec v c i hr.1 hr.2 hnf.1
          exact ⟨d, e1⟩
      obtain ⟨d, e1⟩ := hsome
      rw [e1]
      simp only []
      rw [removeCore_dcrit]
      exact ⟨d, rfl⟩

theorem filter_modify_flag {α} (g : α → Bool) (f : α → α) (hg : ∀ x, g (f x) = false) :
    ∀ (l : List α) (i : Nat), i < l.length → (l.modify i f).filter g = (l.eraseIdx i).filter g := by
  intro l
  induction l with
  | nil => intro i h; simp at h
  | cons y t ih =>
    intro i h
    cases i with
    | zero => simp [List.filter_cons, hg]
    | succ j =>
      simp only [List.modify_succ_cons, List.eraseIdx_cons_succ, List.filter_cons]
      rw [ih j (by simpa using h)]

/-! ### add, with the MERCURIUS recalculation requests -/

theorem addCore_cfg (c : State) (p : P) (g : Geo) : (addCore c p g).1.mercurius = c.mercurius := by
  unfold addCore writeAt
  repeat' split
  all_goals first | rfl

theorem inv_addTail (c : State) : Inv (addTail c) ↔ Inv c := by
  unfold addTail; split <;> exact Iff.rfl

theorem add_spec (c : State) (hinv : Inv c) (p : P) (g : Geo) :
    Inv (add c p g).1 ∧ (add c p g).2 ≠ .fault ∧
    (c.staleLeaf = false → (abs (add c p g).1, (add c p g).2) = (abs c).add p g) := by
  obtain ⟨a, b, d⟩ := addCore_spec c hinv p g
  have hm := addCore_cfg c p g
  unfold add
  simp only []
  by_cases hc : (addCore c p g).2 = Out.ok ∨ (addCore c p g).2 = Out.errSameCoords
  · rw [if_pos hc]
    refine ⟨(inv_addTail _).mpr a, b, fun hs => ?_⟩
    have e := d hs
    have e2 : (addCore c p g).2 = ((abs c).addCore p g).2 := congrArg Prod.snd e
    have e1 : abs (addCore c p g).1 = ((abs c).addCore p g).1 := congrArg Prod.fst e
    unfold Spec.add
    simp only []
    rw [← e2, if_pos hc, ← e1]
    have hma : (abs c).mercurius = c.mercurius := rfl
    rw [hma]
    unfold addTail
    by_cases hmm : c.mercurius = true
    · rw [if_pos (hm.trans hmm), if_pos hmm]; rfl
    · rw [if_neg (by rw [hm]; exact hmm), if_neg hmm]
  · rw [if_neg hc]
    refine ⟨a, b, fun hs => ?_⟩
    have e := d hs
    have e2 : (addCore c p g).2 = ((abs c).addCore p g).2 := congrArg Prod.snd e
    unfold Spec.add
    simp only []
    rw [← e2, if_neg hc]
    exact e

theorem integratorStep_spec (c : State) (hinv : Inv c) (vals : List Nat) :
    Inv (integratorStep c vals).1 ∧ (integratorStep c vals).2 ≠ .fault ∧
    (abs (integratorStep c vals).1, (integratorStep c vals).2) = (abs c).integratorStep vals := by
  have hlen := abs_len hinv
  unfold integratorStep Spec.integratorStep
  rw [hlen]
  have hma : (abs c).mercurius = c.mercurius := rfl
  rw [hma]
  split
  · exact ⟨hinv, by simp, rfl⟩
  · exact ⟨hinv, by simp, rfl⟩
/-! ### the remaining operations -/

theorem abs_lookup (c : State) (t : List Entry) : abs { c with lookup := t } = abs c := rfl

theorem lookupOK_of_res (c : State) (hinv : Inv c) (h : Nat) (o : Out) (hr : LookupRes c h o) :
    (abs c).LookupOK h o := by
  cases o <;> simp only [LookupRes] at hr <;> try exact hr.elim
  · obtain ⟨hi, p, hp, hh⟩ := hr
    exact ⟨p, by simp only [abs]; rw [List.getElem?_take, if_pos hi]; exact hp, hh⟩
  · intro p hp
    simp only [abs] at hp
    obtain ⟨i, hi⟩ := List.getElem?_of_mem hp
    have := take_get hi
    exact hr i p this.1 this.2

theorem particleByHash_step (srt : Sorter) (hv : srt.Valid) (c : State) (hinv : Inv c) (h : Nat) :
    Inv (particleByHash srt c h).1 ∧ (particleByHash srt c h).2 ≠ .fault ∧
    abs (particleByHash srt c h).1 = abs c ∧ (abs c).LookupOK h (particleByHash srt c h).2 := by
  obtain ⟨h1, h2⟩ := particleByHash_spec srt hv c hinv.le h
  have hok := lookupOK_of_res c hinv h _ h2
  refine ⟨?_, ?_, ?_, hok⟩
  · rcases h1 with e | ⟨t, e⟩ <;> rw [e] <;> exact hinv
  · intro hf; rw [hf] at h2; exact h2
  · rcases h1 with e | ⟨t, e⟩ <;> rw [e]
    rfl

theorem noShapeRemove_lookup (v : Variant) (c : State) (t : List Entry) (i : Int) (ks : Bool) :
    NoShapeRemove v { c with lookup := t } i ks = NoShapeRemove v c i ks := rfl

theorem removeAll_spec (v : Variant) (c : State) :
    Inv (removeAll v c).1 ∧ (removeAll v c).2 ≠ .fault ∧
    ((v.resetTree = true ∨ c.treeRoot = false) →
      (abs (removeAll v c).1, (removeAll v c).2) = (abs c).removeAll) := by
  refine ⟨by simp [removeAll, Inv], by simp [removeAll], fun hs => ?_⟩
  have : (if v.resetTree = true then false else c.treeRoot) = false := by
    rcases hs with h | h <;> simp [h]
  simp [removeAll, Spec.removeAll, abs, this]

theorem setHash_spec (c : State) (hinv : Inv c) (idx h : Nat) :
    Inv (setHash c idx h).1 ∧ (setHash c idx h).2 ≠ .fault ∧
    (abs (setHash c idx h).1, (setHash c idx h).2) = (abs c).setHash idx h := by
  have hlen := abs_len hinv
  have hle := hinv.le
  unfold setHash Spec.setHash
  rw [hlen]
  by_cases hi : idx < c.N
  · have hil : idx < c.mem.length := by omega
    rw [if_pos hi, if_pos hi, List.getElem?_eq_getElem hil]
    refine ⟨by simp [Inv]; exact hinv, by simp, ?_⟩
    have := take_flag c.mem c.N idx c.mem[idx] (fun p => { p with hash := h }) hle hi (List.getElem?_eq_getElem hil)
    simp [abs, this]
  · rw [if_neg hi, if_neg hi]
    exact ⟨hinv, by simp, rfl⟩

theorem setActive_spec (c : State) (hinv : Inv c) (k : Int) :
    Inv (setActive c k).1 ∧ (setActive c k).2 ≠ .fault ∧
    (abs (setActive c k).1, (setActive c k).2) = (abs c).setActive k := by
  have hlen := abs_len hinv
  unfold setActive Spec.setActive
  rw [hlen]
  by_cases hk : -1 ≤ k ∧ k ≤ (c.N : Int)
  · rw [if_pos hk, if_pos hk]; exact ⟨hinv, by simp, rfl⟩
  · rw [if_neg hk, if_neg hk]; exact ⟨hinv, by simp, rfl⟩


/-! ### one step, and whole histories -/

/-- the operation is not one of the call shapes in which variant `v` departs from the
    documented behaviour -/
def NoShape (v : Variant) (c : State) : Op → Prop
  | .add _ _ => c.staleLeaf = false
  | .remove i ks => NoShapeRemove v c i ks
  | .removeByHash _ ks => ∀ i : Nat, i < c.N → NoShapeRemove v c (i : Int) ks
  | .removeAll => v.resetTree = true ∨ c.treeRoot = false
  | .treeUpdate _ => NoShapeTreeUpdate v c
  | _ => True

/-- the operation cannot leave the allocated storage in variant `v` (finding F4g is the only way to) -/
def NoFault (v : Variant) (c : State) : Op → Prop
  | .remove i _ => NoFaultRemove v c i
  | .removeByHash _ _ => ∀ i : Nat, i < c.N → NoFaultRemove v c (i : Int)
  | _ => True

theorem noFaultRemove_lookup (v : Variant) (c : State) (t : List Entry) (i : Int) :
    NoFaultRemove v { c with lookup := t } i = NoFaultRemove v c i := rfl

theorem removeByHash_spec (v : Variant) (srt : Sorter) (hv : srt.Valid) (c : State) (hinv : Inv c)
    (h : Nat) (ks : Bool) :
    Inv (removeByHash v srt c h ks).1 ∧
    ((∀ i : Nat, i < c.N → NoFaultRemove v c (i : Int)) → (removeByHash v srt c h ks).2 ≠ .fault) ∧
    ((∀ i : Nat, i < c.N → NoShapeRemove v c (i : Int) ks) →
      SpecStep (abs c) (.removeByHash h ks) (removeByHash v srt c h ks).2 (abs (removeByHash v srt c h ks).1)) := by
  obtain ⟨h1, h2⟩ := particleByHash_spec srt hv c hinv.le h
  obtain ⟨b1, b2, b3, b4⟩ := particleByHash_step srt hv c hinv h
  unfold removeByHash
  generalize hres : particleByHash srt c h = res at *
  obtain ⟨c', o⟩ := res
  simp only at h1 h2 b1 b2 b3 b4
  cases o <;> simp only [LookupRes] at h2 <;> try exact h2.elim
  · rename_i i
    obtain ⟨r1, r2, r3⟩ := remove_spec v c' b1 (i : Int) ks
    refine ⟨r1, fun hs => ?_, fun hs => ?_⟩
    · apply r2
      rcases h1 with e | ⟨t, e⟩
      · rw [e]; exact hs i h2.1
      · rw [e, noFaultRemove_lookup]; exact hs i h2.1
    · have hns : NoShapeRemove v c' (i : Int) ks := by
        rcases h1 with e | ⟨t, e⟩
        · rw [e]; exact hs i h2.1
        · rw [e, noShapeRemove_lookup]; exact hs i h2.1
      have := r3 hns
      rw [b3] at this
      obtain ⟨p, hp, hh⟩ := b4
      exact Or.inr ⟨i, p, hp, hh, this⟩
  · refine ⟨b1, fun _ => by simp, fun _ => Or.inl ⟨b4, rfl, b3⟩⟩

theorem step_spec (v : Variant) (srt : Sorter) (hv : srt.Valid) (c : State) (hinv : Inv c) (op : Op) :
    Inv (step v srt c op).1 ∧ (NoFault v c op → (step v srt c op).2 ≠ .fault) ∧
    (NoShape v c op → SpecStep (abs c) op (step v srt c op).2 (abs (step v srt c op).1)) := by
  cases op with
  | add p g =>
    obtain ⟨a, b, d⟩ := add_spec c hinv p g
    exact ⟨a, fun _ => b, fun hs => by simpa only [SpecStep, step] using d hs⟩
  | remove i ks =>
    obtain ⟨a, b, d⟩ := remove_spec v c hinv i ks
    exact ⟨a, b, fun hs => by simpa only [SpecStep, step] using d hs⟩
  | removeByHash h ks => exact removeByHash_spec v srt hv c hinv h ks
  | lookup h =>
    obtain ⟨a, b, d, e⟩ := particleByHash_step srt hv c hinv h
    exact ⟨a, fun _ => b, fun _ => ⟨d, e⟩⟩
  | setHash i h =>
    obtain ⟨a, b, d⟩ := setHash_spec c hinv i h
    exact ⟨a, fun _ => b, fun _ => by simpa only [SpecStep, step] using d⟩
  | setActive k =>
    obtain ⟨a, b, d⟩ := setActive_spec c hinv k
    exact ⟨a, fun _ => b, fun _ => by simpa only [SpecStep, step] using d⟩
  | removeAll =>
    obtain ⟨a, b, d⟩ := removeAll_spec v c
    exact ⟨a, fun _ => b, fun hs => by simpa only [SpecStep, step] using d hs⟩
  | treeUpdate visit =>
    obtain ⟨a, b, d⟩ := treeUpdate_spec v c hinv visit
    exact ⟨a, fun _ => b, d⟩
  | integratorStep vals =>
    obtain ⟨a, b, d⟩ := integratorStep_spec c hinv vals
    exact ⟨a, fun _ => b, fun _ => by simpa only [SpecStep, step] using d⟩

/-- no step of the history is one of the excluded call shapes -/
def NoShapeRun (v : Variant) : State → List (Sorter × Op) → Prop
  | _, [] => True
  | c, (srt, op) :: rest => NoShape v c op ∧ NoShapeRun v (step v srt c op).1 rest

/-- no step of the history can leave the allocated storage -/
def NoFaultRun (v : Variant) : State → List (Sorter × Op) → Prop
  | _, [] => True
  | c, (srt, op) :: rest => NoFault v c op ∧ NoFaultRun v (step v srt c op).1 rest

theorem run_spec (v : Variant) : ∀ (ops : List (Sorter × Op)) (c : State), Inv c →
    (∀ x ∈ ops, x.1.Valid) →
    Inv (run v c ops).1 ∧ (NoFaultRun v c ops → ∀ o ∈ (run v c ops).2, o ≠ Out.fault) ∧
    (NoShapeRun v c ops → SpecRun (abs c) (ops.map (·.2)) (run v c ops).2 (abs (run v c ops).1)) := by
  intro ops
  induction ops with
  | nil => intro c hinv _; exact ⟨hinv, fun _ => by simp [run], fun _ => SpecRun.nil _⟩
  | cons x rest ih =>
    intro c hinv hv
    obtain ⟨srt, op⟩ := x
    obtain ⟨a, b, d⟩ := step_spec v srt (hv (srt, op) (by simp)) c hinv op
    obtain ⟨a', b', d'⟩ := ih (step v srt c op).1 a (fun x hx => hv x (by simp [hx]))
    simp only [run, List.map_cons]
    refine ⟨a', fun hf => ?_, fun hs => ?_⟩
    · intro o ho
      simp at ho
      rcases ho with rfl | ho
      · exact b hf.1
      · exact b' hf.2 o ho
    · exact SpecRun.cons (d hs.1) (d' hs.2)

/-! ### the stale-leaf mark -/

theorem removeSorted_stale (v : Variant) (c : State) (i : Int) :
    (removeSorted v c i).1.staleLeaf = c.staleLeaf := by
  unfold removeSorted
  split
  · rfl
  · simp only []
    cases shiftLoop c.mem i.toNat (c.N - 1 - i.toNat) with
    | none => rfl
    | some m => simp only []; split <;> rfl

theorem removeUnsorted_stale (v : Variant) (c : State) (i : Int) :
    (removeUnsorted v c i).1.staleLeaf = c.staleLeaf := by
  unfold removeUnsorted writeAt
  split
  · cases c.mem[i.toNat]? <;> rfl
  · simp only []
    cases c.mem[c.N - 1]? with
    | none => rfl
    | some l => simp only []; split <;> rfl


theorem removeCore_stale (v : Variant) (hr : v.resetTree = true) (c : State) (i : Int) (ks : Bool)
    (hs : c.staleLeaf = false) : (removeCore v c i ks).1.staleLeaf = false := by
  rw [removeCore_eq]; unfold removeShortcut removeRest
  simp only [hr, if_true]
  repeat' split
  all_goals first | exact hs | rfl | (rw [removeSorted_stale]; exact hs) | (rw [removeUnsorted_stale]; exact hs)

theorem remove_stale (v : Variant) (hr : v.resetTree = true) (c : State) (i : Int) (ks : Bool)
    (hs : c.staleLeaf = false) : (remove v c i ks).1.staleLeaf = false := by
  have hcore := removeCore_stale v hr c i ks hs
  unfold remove
  split
  · simp only []
    split
    · cases hd : dcritShift v c i with
      | none => exact hs
      | some c1 => exact hcore
    · exact hcore
  · split
    · exact hs
    · cases hd : dcritShift v c i with
      | none => exact hs
      | some c1 =>
        simp only []
        have hsh := dcritShift_shape v c c1 i hd
        rw [hsh, removeCore_dcrit]
        exact hcore

theorem add_stale (c : State) (p : P) (g : Geo)
    (hs : c.staleLeaf = false) : (add c p g).1.staleLeaf = false := by
  have hcore : (addCore c p g).1.staleLeaf = false := by
    unfold addCore writeAt
    repeat' split
    all_goals first | exact hs | rfl
  unfold add
  simp only []
  split
  · unfold addTail; split <;> exact hcore
  · exact hcore

theorem evict_stale (c c1 : State) (q : Nat) (he : evict c q = some c1) : c1.staleLeaf = c.staleLeaf := by
  unfold evict writeAt at he
  by_cases h0 : c.N = 0
  · rw [if_pos h0] at he; simp at he; rw [← he]
  · rw [if_neg h0] at he
    cases hm : c.mem[c.N - 1]? with
    | none => rw [hm] at he; simp at he
    | some l =>
      rw [hm] at he; simp only [] at he
      by_cases hq : q < c.mem.length
      · rw [if_pos hq] at he; simp at he; rw [← he]
      · rw [if_neg hq] at he; simp at he

theorem evictAll_stale : ∀ (visit : List Nat) (c c' : State), evictAll c visit = some (some c') →
    c'.staleLeaf = c.staleLeaf := by
  intro visit
  induction visit with
  | nil => intro c c' h; simp [evictAll] at h; rw [h]
  | cons q rest ih =>
    intro c c' h
    unfold evictAll at h
    by_cases hf : isFlaggedAt c q = true
    · rw [if_pos hf] at h
      cases he : evict c q with
      | none => rw [he] at h; simp at h
      | some c1 =>
        rw [he] at h
        simp only [] at h
        rw [ih c1 c' h, evict_stale c c1 q he]
    · rw [if_neg hf] at h; simp at h

/-! ### the repaired variant has no excluded call shape -/

theorem lookup_stale (srt : Sorter) (hv : srt.Valid) (c : State) (hinv : Inv c) (h : Nat) :
    (particleByHash srt c h).1.staleLeaf = c.staleLeaf := by
  rcases (particleByHash_spec srt hv c hinv.le h).1 with e | ⟨t, e⟩ <;> rw [e]

theorem step_stale (v : Variant) (hr : v.resetTree = true) (srt : Sorter) (hv : srt.Valid) (c : State)
    (hinv : Inv c) (op : Op) (hs : c.staleLeaf = false) : (step v srt c op).1.staleLeaf = false := by
  cases op with
  | add p g => exact add_stale c p g hs
  | remove i ks => exact remove_stale v hr c i ks hs
  | removeByHash h ks =>
    have hl := lookup_stale srt hv c hinv h
    simp only [step, removeByHash]
    generalize particleByHash srt c h = res at hl
    obtain ⟨c', o⟩ := res
    simp only at hl
    cases o <;> simp only [] <;> first | exact hl.trans hs | exact remove_stale v hr c' _ ks (hl.trans hs)
  | lookup h => simp only [step]; rw [lookup_stale srt hv c hinv h]; exact hs
  | setHash i h =>
    simp only [step, setHash]
    split
    · cases c.mem[i]? <;> exact hs
    · exact hs
  | setActive k => simp only [step, setActive]; split <;> exact hs
  | removeAll => simp [step, removeAll, hr]
  | treeUpdate visit =>
    simp only [step, treeUpdate]
    cases he : evictAll c visit with
    | none => exact hs
    | some r =>
      cases r with
      | none => exact hs
      | some c' =>
        simp only []
        split
        · exact hs
        · simp only []; rw [evictAll_stale visit c c' he]; exact hs
  | integratorStep vals => simp only [step, integratorStep]; split <;> exact hs

theorem noShape_repaired (c : State) (hs : c.staleLeaf = false) (op : Op) :
    NoShape Variant.repaired c op := by
  cases op <;> simp only [NoShape]
  · exact Or.inl rfl
  · exact hs
  · exact NoShapeRemove.repaired _ _ _
  · intro i _; exact NoShapeRemove.repaired _ _ _
  · exact Or.inl rfl

theorem noFault_bounded (v : Variant) (hb : v.dcritBounded = true) (hw : v.dcritWithParticles = true ∨ v.rangeFirst = true)
    (c : State) (op : Op) : NoFault v c op := by
  have h : ∀ i, NoFaultRemove v c i := fun i => ⟨Or.inl hb, by rcases hw with h | h; exact Or.inl h; exact Or.inr (Or.inl h)⟩
  cases op <;> simp only [NoFault]
  · exact h _
  · intro i _; exact h _

theorem noFaultRun_bounded (v : Variant) (hb : v.dcritBounded = true)
    (hw : v.dcritWithParticles = true ∨ v.rangeFirst = true) :
    ∀ (ops : List (Sorter × Op)) (c : State), NoFaultRun v c ops := by
  intro ops
  induction ops with
  | nil => intro c; trivial
  | cons x rest ih => intro c; obtain ⟨srt, op⟩ := x; exact ⟨noFault_bounded v hb hw c op, ih _⟩

theorem noShapeRun_repaired : ∀ (ops : List (Sorter × Op)) (c : State), Inv c → c.staleLeaf = false →
    (∀ x ∈ ops, x.1.Valid) → NoShapeRun Variant.repaired c ops := by
  intro ops
  induction ops with
  | nil => intros; trivial
  | cons x rest ih =>
    intro c hinv hs hv
    obtain ⟨srt, op⟩ := x
    have hvs := hv (srt, op) (by simp)
    exact ⟨noShape_repaired c hs op,
      ih _ (step_spec _ srt hvs c hinv op).1 (step_stale _ rfl srt hvs c hinv op hs)
        (fun x hx => hv x (by simp [hx]))⟩

/-! ### invariants of the abstract machine -/

/-- the active count, when set, does not exceed the number of particles -/
def Spec.ActOK (s : Spec) : Prop := -1 ≤ s.active ∧ s.active ≤ (s.ps.length : Int)

theorem clampActive_le (a : Int) (n : Nat) : clampActive a n ≤ n := by
  unfold clampActive; split <;> omega

theorem clampActive_ge (a : Int) (n : Nat) (h : -1 ≤ a) : -1 ≤ clampActive a n := by
  unfold clampActive; split <;> omega

theorem Spec.removeCore_actOK (s : Spec) (h : s.ActOK) (i : Int) (ks : Bool) : (s.removeCore i ks).1.ActOK := by
  unfold Spec.removeCore
  by_cases hr : i < 0 ∨ i ≥ (s.ps.length : Int)
  · rw [if_pos hr]; exact h
  · rw [if_neg hr]
    by_cases h1 : s.ps.length = 1
    · rw [if_pos h1]
      exact ⟨clampActive_ge _ _ h.1, by simpa using clampActive_le s.active 0⟩
    · rw [if_neg h1]
      unfold Spec.removeMany
      have h1' := h.1; have h2' := h.2
      by_cases hv : s.nVar ≠ 0
      · rw [if_pos hv]; exact h
      · rw [if_neg hv]
        by_cases hk : (ks || s.forceSorted) = true
        · rw [if_pos hk]
          cases s.treeRoot
          · simp only [Spec.ActOK, List.length_eraseIdx, Bool.false_eq_true, if_false]
            split <;> split <;> omega
          · exact h
        · rw [if_neg hk]
          cases s.treeRoot
          · simp only [Bool.false_eq_true, if_false]
            cases s.ps.getLast? with
            | none => exact h
            | some l =>
              simp only [Spec.ActOK, List.length_dropLast, List.length_set]
              exact ⟨clampActive_ge _ _ h.1, clampActive_le _ _⟩
          · simp only [Spec.ActOK, List.length_modify, if_true]; exact h

theorem Spec.remove_actOK (s : Spec) (h : s.ActOK) (i : Int) (ks : Bool) : (s.remove i ks).1.ActOK := by
  have hc := Spec.removeCore_actOK s h i ks
  unfold Spec.remove
  simp only []
  split
  · exact hc
  · exact hc

theorem Spec.addCore_actOK (s : Spec) (h : s.ActOK) (p : P) (g : Geo) : (s.addCore p g).1.ActOK := by
  unfold Spec.addCore
  repeat' split
  all_goals first | exact h | (simp only [Spec.ActOK, List.length_append, List.length_singleton]; have := h.1; have := h.2; omega)

theorem specStep_actOK (s s' : Spec) (op : Op) (o : Out) (hst : SpecStep s op o s') (h : s.ActOK) :
    s'.ActOK := by
  cases op with
  | treeUpdate visit =>
    simp only [SpecStep] at hst
    rcases hst with ⟨_, e⟩ | ⟨_, hp, e⟩
    · rw [e]; exact h
    · rw [e]
      exact ⟨clampActive_ge _ _ h.1, clampActive_le _ _⟩
  | integratorStep vals =>
    simp only [SpecStep] at hst
    have e := congrArg Prod.fst hst
    simp only at e
    rw [e]; unfold Spec.integratorStep
    split
    · exact h
    · exact h
  | add p g =>
    simp only [SpecStep] at hst
    have e := congrArg Prod.fst hst
    simp only at e
    rw [e]
    have hc := Spec.addCore_actOK s h p g
    unfold Spec.add
    simp only []
    split
    · split <;> exact hc
    · exact hc
  | remove i ks =>
    simp only [SpecStep] at hst
    have e := congrArg Prod.fst hst
    simp only at e
    rw [e]; exact Spec.remove_actOK s h _ _
  | removeByHash hh ks =>
    simp only [SpecStep] at hst
    rcases hst with ⟨_, _, e⟩ | ⟨i, p, _, _, e⟩
    · rw [e]; exact h
    · have e' := congrArg Prod.fst e
      simp only at e'
      rw [e']; exact Spec.remove_actOK s h _ _
  | lookup hh =>
    simp only [SpecStep] at hst
    rw [hst.1]; exact h
  | setHash i hh =>
    simp only [SpecStep] at hst
    have e := congrArg Prod.fst hst
    simp only at e
    rw [e]; unfold Spec.setHash
    split
    · simp only [Spec.ActOK, List.length_modify]; exact h
    · exact h
  | setActive k =>
    simp only [SpecStep] at hst
    have e := congrArg Prod.fst hst
    simp only at e
    rw [e]; unfold Spec.setActive
    split
    · rename_i hk; exact hk
    · exact h
  | removeAll =>
    simp only [SpecStep] at hst
    have e := congrArg Prod.fst hst
    simp only at e
    rw [e]; simp [Spec.removeAll, Spec.ActOK]

theorem specRun_actOK (s s' : Spec) (ops : List Op) (os : List Out) (hr : SpecRun s ops os s')
    (h : s.ActOK) : s'.ActOK := by
  induction hr with
  | nil => exact h
  | cons hst _ ih => exact ih (specStep_actOK _ _ _ _ hst h)



end RV.Particles
