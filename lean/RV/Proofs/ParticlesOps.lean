import RV.Proofs.Particles
/-
  Operation-level lemmas for C14: every operation of RV/Model/Particles.lean keeps the storage
  invariant, never faults, and — outside the call shapes of findings F4/F18 — does on the
  abstract list exactly what `Spec` says.
-/
set_option linter.unusedVariables false
set_option linter.unusedSimpArgs false
namespace RV.Particles


/-- storage invariant: the allocation is what `N_allocated` says and holds all live particles -/
def Inv (c : State) : Prop := c.mem.length = c.nAlloc ∧ c.N ≤ c.nAlloc

instance (c : State) : Decidable (Inv c) := inferInstanceAs (Decidable (_ ∧ _))

theorem Inv.le {c : State} (h : Inv c) : c.N ≤ c.mem.length := by have := h.1; have := h.2; omega

theorem abs_len {c : State} (h : Inv c) : (abs c).ps.length = c.N := by
  have := h.le; simp [abs, List.length_take]; omega

/-! ### add -/

theorem add_spec (c : State) (hinv : Inv c) (p : P) (g : Geo) :
    Inv (add c p g).1 ∧ (add c p g).2 ≠ .fault ∧
    (c.staleLeaf = false → (abs (add c p g).1, (add c p g).2) = (abs c).add p g) := by
  obtain ⟨k, hg, hlt⟩ := grow_spec c.mem c.nAlloc c.N hinv.1
  have hle := hinv.le
  have hwl : c.N < (c.mem ++ List.replicate k P.zero).length := by
    simp [List.length_append, List.length_replicate]; have := hinv.1; omega
  have hlen2 : ((c.mem ++ List.replicate k P.zero).set c.N p).length = c.nAlloc + k := by
    simp [List.length_append, List.length_replicate]; exact hinv.1
  have t1 := take_succ_set_append c.mem (List.replicate k P.zero) c.N p hle hwl
  have t0 : ((c.mem ++ List.replicate k P.zero).set c.N p).take c.N = c.mem.take c.N := by
    rw [take_set_same, take_append_le _ _ _ hle]
  unfold add Spec.add
  by_cases hg1 : g = .outsideBoundary
  · simp only [if_pos hg1]; exact ⟨hinv, by simp, fun _ => by simp [abs]⟩
  · simp only [if_neg hg1, hg, writeAt, if_pos hwl]
    cases htc : c.treeCfg <;> cases hbc : c.boxCfg <;> by_cases hg2 : g = .outsideTreeBox <;>
      cases hst : c.staleLeaf <;>
      simp [abs, Inv, htc, hbc, hg2, hlen2, t1, t0, hst] <;> omega

/-! ### removal -/

theorem removeSorted_spec (v : Variant) (c : State) (hinv : Inv c) (idx : Int)
    (h0 : 0 ≤ idx) (h1 : idx < c.N) :
    Inv (removeSorted v c idx).1 ∧ (removeSorted v c idx).2 ≠ .fault ∧
    ((v.treeFirst = true ∨ c.treeRoot = false) →
      (abs (removeSorted v c idx).1, (removeSorted v c idx).2) =
        (if c.treeRoot then (abs c, Out.errTreeSorted) else
          ({ abs c with ps := (abs c).ps.eraseIdx idx.toNat,
                        active := if idx < c.nActive then c.nActive - 1 else c.nActive }, Out.removed))) := by
  have hle := hinv.le
  unfold removeSorted
  by_cases hT : (v.treeFirst && c.treeRoot) = true
  · simp only [hT, if_true]
    refine ⟨hinv, by simp, fun _ => ?_⟩
    simp at hT; simp [hT.2]
  · simp only [hT]
    obtain ⟨n, hn⟩ : ∃ n, c.N = n + 1 := ⟨c.N - 1, by omega⟩
    have hidx : idx.toNat ≤ n := by omega
    obtain ⟨m', e1, e2, e3⟩ := shiftLoop_spec (n - idx.toNat) c.mem idx.toNat (by omega)
    have hn' : c.N - 1 = n := by omega
    simp only [hn', e1]
    have ht := take_sorted_remove c.mem m' n idx.toNat (by omega) hidx e2 e3
    refine ⟨?_, ?_, ?_⟩
    · cases c.treeRoot <;> simp [Inv, e2] <;> (have := hinv.1; have := hinv.2; omega)
    · cases c.treeRoot <;> simp
    · intro hv
      have htr : c.treeRoot = false := by
        rcases hv with hv | hv
        · simp [hv] at hT; exact hT
        · exact hv
      simp [htr, abs, ht, hn]

theorem removeUnsorted_spec (v : Variant) (c : State) (hinv : Inv c) (idx : Int)
    (h0 : 0 ≤ idx) (h1 : idx < c.N) :
    Inv (removeUnsorted v c idx).1 ∧ (removeUnsorted v c idx).2 ≠ .fault ∧
    ((v.unsortedClamp = true ∨ c.treeRoot = true ∨ c.nActive < c.N) →
      ∃ last, (abs c).ps.getLast? = some last ∧
      (abs (removeUnsorted v c idx).1, (removeUnsorted v c idx).2) =
        (if c.treeRoot then
          ({ abs c with ps := (abs c).ps.modify idx.toNat (fun p => { p with flagged := true }) }, Out.removed)
         else
          ({ abs c with ps := ((abs c).ps.set idx.toNat last).dropLast,
                        active := clampActive c.nActive ((abs c).ps.length - 1) }, Out.removed))) := by
  have hle := hinv.le
  obtain ⟨n, hn⟩ : ∃ n, c.N = n + 1 := ⟨c.N - 1, by omega⟩
  have hn' : c.N - 1 = n := by omega
  have hidx : idx.toNat ≤ n := by omega
  have hnl : n < c.mem.length := by omega
  have hil : idx.toNat < c.mem.length := by omega
  have hlast : (abs c).ps.getLast? = some c.mem[n] := by
    simp only [abs, hn]; rw [getLast_take c.mem n (by omega)]; exact List.getElem?_eq_getElem hnl
  have hlen : (abs c).ps.length = n + 1 := by simp [abs, List.length_take]; omega
  unfold removeUnsorted
  cases htr : c.treeRoot
  · simp only [hn', List.getElem?_eq_getElem hnl, writeAt, if_pos hil, Bool.false_eq_true, if_false]
    refine ⟨?_, by simp, fun hv => ⟨c.mem[n], hlast, ?_⟩⟩
    · simp [Inv]; have := hinv.1; have := hinv.2; omega
    · have ht := take_unsorted_remove c.mem n idx.toNat c.mem[n] (by omega) hidx (List.getElem?_eq_getElem hnl)
      have hcl : (if v.unsortedClamp = true then clampActive c.nActive n else c.nActive) = clampActive c.nActive n := by
        rcases hv with hv | hv | hv
        · simp [hv]
        · simp [htr] at hv
        · cases v.unsortedClamp <;> simp [clampActive] <;> omega
      have hm : min (n + 1) c.mem.length - 1 = n := by omega
      simp [abs, ht, hn, hcl, htr, List.length_take, hm]
  · simp only [List.getElem?_eq_getElem hil, if_true]
    refine ⟨?_, by simp, fun hv => ⟨c.mem[n], hlast, ?_⟩⟩
    · simp [Inv]; exact hinv
    · have ht := take_flag c.mem c.N idx.toNat c.mem[idx.toNat] (fun p => { p with flagged := true }) hle (by omega)
        (List.getElem?_eq_getElem hil)
      simp [abs, ht, htr]

/-- the call shapes in which the source variant `v` departs from the documented behaviour
    (F4a, F4b, F4c, F4d, F18b) are excluded -/
def NoShapeRemove (v : Variant) (c : State) (index : Int) (ks : Bool) : Prop :=
  (v.rangeFirst = true ∨ c.N ≠ 1 ∨ rangeBad c index = false) ∧
  (v.treeFirst = true ∨ c.treeRoot = false ∨ (ks || c.forceSorted) = false ∨ c.N = 1 ∨ c.nVar ≠ 0 ∨
    rangeBad c index = true) ∧
  (v.lastClamp = true ∨ c.N ≠ 1 ∨ c.nActive ≤ 0) ∧
  (v.unsortedClamp = true ∨ (ks || c.forceSorted) = true ∨ c.treeRoot = true ∨ c.nActive < c.N ∨ c.N = 1 ∨
    c.nVar ≠ 0 ∨ rangeBad c index = true) ∧
  (v.resetTree = true ∨ c.N ≠ 1 ∨ c.treeRoot = false)

theorem NoShapeRemove.repaired (c : State) (index : Int) (ks : Bool) :
    NoShapeRemove Variant.repaired c index ks := by
  simp [NoShapeRemove, Variant.repaired]

theorem remove_eq (v : Variant) (c : State) (idx : Int) (ks : Bool) :
    remove v c idx ks =
      if rangeBad c idx = true then
        (if v.rangeFirst = false ∧ c.N = 1 then removeShortcut v c else (c, Out.errRange))
      else if c.N = 1 then removeShortcut v c else removeRest v c idx (ks || c.forceSorted) := by
  unfold remove
  cases v.rangeFirst <;> by_cases h1 : c.N = 1 <;> cases rangeBad c idx <;> simp [h1]

theorem rangeBad_iff (c : State) (idx : Int) : rangeBad c idx = true ↔ (idx < 0 ∨ idx ≥ (c.N : Int)) := by
  simp [rangeBad]; omega

theorem removeShortcut_inv (v : Variant) (c : State) (hinv : Inv c) :
    Inv (removeShortcut v c).1 ∧ (removeShortcut v c).2 ≠ .fault := by
  simp [removeShortcut, Inv]; exact hinv.1

theorem remove_spec (v : Variant) (c : State) (hinv : Inv c) (idx : Int) (ks : Bool) :
    Inv (remove v c idx ks).1 ∧ (remove v c idx ks).2 ≠ .fault ∧
    (NoShapeRemove v c idx ks → (abs (remove v c idx ks).1, (remove v c idx ks).2) = (abs c).remove idx ks) := by
  have hlen := abs_len hinv
  rw [remove_eq]
  by_cases hrb : rangeBad c idx = true
  · have hr := (rangeBad_iff c idx).mp hrb
    have hspec : (abs c).remove idx ks = (abs c, Out.errRange) := by
      unfold Spec.remove; rw [hlen, if_pos (by omega)]
    rw [if_pos hrb]
    by_cases hsc : v.rangeFirst = false ∧ c.N = 1
    · rw [if_pos hsc]
      refine ⟨(removeShortcut_inv v c hinv).1, (removeShortcut_inv v c hinv).2, fun hs => ?_⟩
      rcases hs.1 with h | h | h
      · rw [hsc.1] at h; simp at h
      · exact absurd hsc.2 h
      · rw [hrb] at h; simp at h
    · rw [if_neg hsc]
      exact ⟨hinv, by simp, fun _ => hspec.symm⟩
  · have hr : 0 ≤ idx ∧ idx < c.N := by
      have : ¬ (idx < 0 ∨ idx ≥ (c.N : Int)) := fun h => hrb ((rangeBad_iff c idx).mpr h)
      omega
    rw [if_neg hrb]
    by_cases hN1 : c.N = 1
    · rw [if_pos hN1]
      refine ⟨(removeShortcut_inv v c hinv).1, (removeShortcut_inv v c hinv).2, fun hs => ?_⟩
      obtain ⟨_, _, h3, _, h5⟩ := hs
      have hna : (if v.lastClamp = true then clampActive c.nActive 0 else c.nActive) = clampActive c.nActive 0 := by
        rcases h3 with h | h | h
        · simp [h]
        · exact absurd hN1 h
        · cases v.lastClamp <;> simp [clampActive] <;> omega
      have htr : (if v.resetTree = true then false else c.treeRoot) = false := by
        rcases h5 with h | h | h
        · simp [h]
        · exact absurd hN1 h
        · simp [h]
      unfold Spec.remove; rw [hlen]
      rw [if_neg (by omega), if_pos hN1]
      simp [removeShortcut, abs, hna, htr]
    · rw [if_neg hN1]
      unfold removeRest
      have hspec0 : (abs c).remove idx ks = (abs c).removeMany idx (ks || c.forceSorted) := by
        unfold Spec.remove; rw [hlen]
        rw [if_neg (by omega), if_neg hN1]
        rfl
      have hnv' : (abs c).nVar = c.nVar := rfl
      have htr' : (abs c).treeRoot = c.treeRoot := rfl
      have hac' : (abs c).active = c.nActive := rfl
      by_cases hnv : c.nVar ≠ 0
      · rw [if_pos hnv]
        exact ⟨hinv, by simp, fun _ => by rw [hspec0]; unfold Spec.removeMany; rw [if_pos (show (abs c).nVar ≠ 0 from hnv)]⟩
      · rw [if_neg hnv]
        by_cases hks : (ks || c.forceSorted) = true
        · rw [if_pos hks]
          obtain ⟨a1, a2, a3⟩ := removeSorted_spec v c hinv idx hr.1 hr.2
          refine ⟨a1, a2, fun hs => ?_⟩
          have : v.treeFirst = true ∨ c.treeRoot = false := by
            rcases hs.2.1 with h | h | h | h | h | h
            · exact Or.inl h
            · exact Or.inr h
            · rw [hks] at h; simp at h
            · exact absurd h hN1
            · exact absurd h hnv
            · exact absurd h hrb
          rw [a3 this, hspec0]; unfold Spec.removeMany; rw [if_neg (show ¬ (abs c).nVar ≠ 0 from hnv), if_pos hks]
          rfl
        · rw [if_neg hks]
          obtain ⟨a1, a2, a3⟩ := removeUnsorted_spec v c hinv idx hr.1 hr.2
          refine ⟨a1, a2, fun hs => ?_⟩
          have : v.unsortedClamp = true ∨ c.treeRoot = true ∨ c.nActive < c.N := by
            rcases hs.2.2.2.1 with h | h | h | h | h | h | h
            · exact Or.inl h
            · exact absurd h hks
            · exact Or.inr (Or.inl h)
            · exact Or.inr (Or.inr h)
            · exact absurd h hN1
            · exact absurd h hnv
            · exact absurd h hrb
          obtain ⟨last, hl, e⟩ := a3 this
          rw [e, hspec0]; unfold Spec.removeMany; rw [if_neg (show ¬ (abs c).nVar ≠ 0 from hnv), if_neg hks, hl]
          rfl


/-! ### the remaining operations -/

theorem abs_lookup (c : State) (t : List Entry) : abs { c with lookup := t } = abs c := rfl

theorem lookupOK_of_res (c : State) (hinv : Inv c) (h : Nat) (o : Out) (hr : LookupRes c h o) :
    (abs c).LookupOK h o := by
  cases o <;> simp only [LookupRes] at hr <;> try exact hr.elim
  · obtain ⟨hi, p, hp, hh⟩ := hr
    exact ⟨p, by simp only [abs]; rw [List.getElem?_take, if_pos hi]; exact hp, hh⟩
  · intro p hp
    simp only [abs] at hp
    obtain ⟨i, hi⟩ := List.getElem?_of_mem hp
    have := take_get hi
    exact hr i p this.1 this.2

theorem particleByHash_step (srt : Sorter) (hv : srt.Valid) (c : State) (hinv : Inv c) (h : Nat) :
    Inv (particleByHash srt c h).1 ∧ (particleByHash srt c h).2 ≠ .fault ∧
    abs (particleByHash srt c h).1 = abs c ∧ (abs c).LookupOK h (particleByHash srt c h).2 := by
  obtain ⟨h1, h2⟩ := particleByHash_spec srt hv c hinv.le h
  have hok := lookupOK_of_res c hinv h _ h2
  refine ⟨?_, ?_, ?_, hok⟩
  · rcases h1 with e | ⟨t, e⟩ <;> rw [e] <;> exact hinv
  · intro hf; rw [hf] at h2; exact h2
  · rcases h1 with e | ⟨t, e⟩ <;> rw [e]
    rfl

theorem noShapeRemove_lookup (v : Variant) (c : State) (t : List Entry) (i : Int) (ks : Bool) :
    NoShapeRemove v { c with lookup := t } i ks = NoShapeRemove v c i ks := rfl

theorem removeAll_spec (v : Variant) (c : State) :
    Inv (removeAll v c).1 ∧ (removeAll v c).2 ≠ .fault ∧
    ((v.resetTree = true ∨ c.treeRoot = false) →
      (abs (removeAll v c).1, (removeAll v c).2) = (abs c).removeAll) := by
  refine ⟨by simp [removeAll, Inv], by simp [removeAll], fun hs => ?_⟩
  have : (if v.resetTree = true then false else c.treeRoot) = false := by
    rcases hs with h | h <;> simp [h]
  simp [removeAll, Spec.removeAll, abs, this]

theorem setHash_spec (c : State) (hinv : Inv c) (idx h : Nat) :
    Inv (setHash c idx h).1 ∧ (setHash c idx h).2 ≠ .fault ∧
    (abs (setHash c idx h).1, (setHash c idx h).2) = (abs c).setHash idx h := by
  have hlen := abs_len hinv
  have hle := hinv.le
  unfold setHash Spec.setHash
  rw [hlen]
  by_cases hi : idx < c.N
  · have hil : idx < c.mem.length := by omega
    rw [if_pos hi, if_pos hi, List.getElem?_eq_getElem hil]
    refine ⟨by simp [Inv]; exact hinv, by simp, ?_⟩
    have := take_flag c.mem c.N idx c.mem[idx] (fun p => { p with hash := h }) hle hi (List.getElem?_eq_getElem hil)
    simp [abs, this]
  · rw [if_neg hi, if_neg hi]
    exact ⟨hinv, by simp, rfl⟩

theorem setActive_spec (c : State) (hinv : Inv c) (k : Int) :
    Inv (setActive c k).1 ∧ (setActive c k).2 ≠ .fault ∧
    (abs (setActive c k).1, (setActive c k).2) = (abs c).setActive k := by
  have hlen := abs_len hinv
  unfold setActive Spec.setActive
  rw [hlen]
  by_cases hk : -1 ≤ k ∧ k ≤ (c.N : Int)
  · rw [if_pos hk, if_pos hk]; exact ⟨hinv, by simp, rfl⟩
  · rw [if_neg hk, if_neg hk]; exact ⟨hinv, by simp, rfl⟩

/-! ### one step, and whole histories -/

/-- the operation is not one of the call shapes in which variant `v` departs from the
    documented behaviour -/
def NoShape (v : Variant) (c : State) : Op → Prop
  | .add _ _ => c.staleLeaf = false
  | .remove i ks => NoShapeRemove v c i ks
  | .removeByHash _ ks => ∀ i : Nat, i < c.N → NoShapeRemove v c (i : Int) ks
  | .removeAll => v.resetTree = true ∨ c.treeRoot = false
  | _ => True

theorem removeByHash_spec (v : Variant) (srt : Sorter) (hv : srt.Valid) (c : State) (hinv : Inv c)
    (h : Nat) (ks : Bool) :
    Inv (removeByHash v srt c h ks).1 ∧ (removeByHash v srt c h ks).2 ≠ .fault ∧
    ((∀ i : Nat, i < c.N → NoShapeRemove v c (i : Int) ks) →
      SpecStep (abs c) (.removeByHash h ks) (removeByHash v srt c h ks).2 (abs (removeByHash v srt c h ks).1)) := by
  obtain ⟨h1, h2⟩ := particleByHash_spec srt hv c hinv.le h
  obtain ⟨b1, b2, b3, b4⟩ := particleByHash_step srt hv c hinv h
  unfold removeByHash
  generalize hres : particleByHash srt c h = res at *
  obtain ⟨c', o⟩ := res
  simp only at h1 h2 b1 b2 b3 b4
  cases o <;> simp only [LookupRes] at h2 <;> try exact h2.elim
  · rename_i i
    obtain ⟨r1, r2, r3⟩ := remove_spec v c' b1 (i : Int) ks
    refine ⟨r1, r2, fun hs => ?_⟩
    have hns : NoShapeRemove v c' (i : Int) ks := by
      rcases h1 with e | ⟨t, e⟩
      · rw [e]; exact hs i h2.1
      · rw [e, noShapeRemove_lookup]; exact hs i h2.1
    have := r3 hns
    rw [b3] at this
    obtain ⟨p, hp, hh⟩ := b4
    exact Or.inr ⟨i, p, hp, hh, this⟩
  · refine ⟨b1, by simp, fun _ => Or.inl ⟨b4, rfl, b3⟩⟩

theorem step_spec (v : Variant) (srt : Sorter) (hv : srt.Valid) (c : State) (hinv : Inv c) (op : Op) :
    Inv (step v srt c op).1 ∧ (step v srt c op).2 ≠ .fault ∧
    (NoShape v c op → SpecStep (abs c) op (step v srt c op).2 (abs (step v srt c op).1)) := by
  cases op with
  | add p g =>
    obtain ⟨a, b, d⟩ := add_spec c hinv p g
    exact ⟨a, b, fun hs => by simpa only [SpecStep, step] using d hs⟩
  | remove i ks =>
    obtain ⟨a, b, d⟩ := remove_spec v c hinv i ks
    exact ⟨a, b, fun hs => by simpa only [SpecStep, step] using d hs⟩
  | removeByHash h ks => exact removeByHash_spec v srt hv c hinv h ks
  | lookup h =>
    obtain ⟨a, b, d, e⟩ := particleByHash_step srt hv c hinv h
    exact ⟨a, b, fun _ => ⟨d, e⟩⟩
  | setHash i h =>
    obtain ⟨a, b, d⟩ := setHash_spec c hinv i h
    exact ⟨a, b, fun _ => by simpa only [SpecStep, step] using d⟩
  | setActive k =>
    obtain ⟨a, b, d⟩ := setActive_spec c hinv k
    exact ⟨a, b, fun _ => by simpa only [SpecStep, step] using d⟩
  | removeAll =>
    obtain ⟨a, b, d⟩ := removeAll_spec v c
    exact ⟨a, b, fun hs => by simpa only [SpecStep, step] using d hs⟩

/-- no step of the history is one of the excluded call shapes -/
def NoShapeRun (v : Variant) : State → List (Sorter × Op) → Prop
  | _, [] => True
  | c, (srt, op) :: rest => NoShape v c op ∧ NoShapeRun v (step v srt c op).1 rest

theorem run_spec (v : Variant) : ∀ (ops : List (Sorter × Op)) (c : State), Inv c →
    (∀ x ∈ ops, x.1.Valid) →
    Inv (run v c ops).1 ∧ (∀ o ∈ (run v c ops).2, o ≠ Out.fault) ∧
    (NoShapeRun v c ops → SpecRun (abs c) (ops.map (·.2)) (run v c ops).2 (abs (run v c ops).1)) := by
  intro ops
  induction ops with
  | nil => intro c hinv _; exact ⟨hinv, by simp [run], fun _ => SpecRun.nil _⟩
  | cons x rest ih =>
    intro c hinv hv
    obtain ⟨srt, op⟩ := x
    obtain ⟨a, b, d⟩ := step_spec v srt (hv (srt, op) (by simp)) c hinv op
    obtain ⟨a', b', d'⟩ := ih (step v srt c op).1 a (fun x hx => hv x (by simp [hx]))
    simp only [run, List.map_cons]
    refine ⟨a', ?_, fun hs => ?_⟩
    · intro o ho
      simp at ho
      rcases ho with rfl | ho
      · exact b
      · exact b' o ho
    · exact SpecRun.cons (d hs.1) (d' hs.2)


/-! ### the stale-leaf mark -/

theorem removeSorted_stale (v : Variant) (c : State) (i : Int) :
    (removeSorted v c i).1.staleLeaf = c.staleLeaf := by
  unfold removeSorted
  split
  · rfl
  · simp only []
    cases shiftLoop c.mem i.toNat (c.N - 1 - i.toNat) with
    | none => rfl
    | some m => simp only []; split <;> rfl

theorem removeUnsorted_stale (v : Variant) (c : State) (i : Int) :
    (removeUnsorted v c i).1.staleLeaf = c.staleLeaf := by
  unfold removeUnsorted writeAt
  split
  · cases c.mem[i.toNat]? <;> rfl
  · simp only []
    cases c.mem[c.N - 1]? with
    | none => rfl
    | some l => simp only []; split <;> rfl

theorem remove_stale (v : Variant) (hr : v.resetTree = true) (c : State) (i : Int) (ks : Bool)
    (hs : c.staleLeaf = false) : (remove v c i ks).1.staleLeaf = false := by
  rw [remove_eq]; unfold removeShortcut removeRest
  simp only [hr, if_true]
  repeat' split
  all_goals first | exact hs | rfl | (rw [removeSorted_stale]; exact hs) | (rw [removeUnsorted_stale]; exact hs)

theorem add_stale (c : State) (p : P) (g : Geo)
    (hs : c.staleLeaf = false) : (add c p g).1.staleLeaf = false := by
  unfold add writeAt
  repeat' split
  all_goals first | exact hs | rfl

/-! ### the repaired variant has no excluded call shape -/

theorem lookup_stale (srt : Sorter) (hv : srt.Valid) (c : State) (hinv : Inv c) (h : Nat) :
    (particleByHash srt c h).1.staleLeaf = c.staleLeaf := by
  rcases (particleByHash_spec srt hv c hinv.le h).1 with e | ⟨t, e⟩ <;> rw [e]

theorem step_stale (v : Variant) (hr : v.resetTree = true) (srt : Sorter) (hv : srt.Valid) (c : State)
    (hinv : Inv c) (op : Op) (hs : c.staleLeaf = false) : (step v srt c op).1.staleLeaf = false := by
  cases op with
  | add p g => exact add_stale c p g hs
  | remove i ks => exact remove_stale v hr c i ks hs
  | removeByHash h ks =>
    have hl := lookup_stale srt hv c hinv h
    simp only [step, removeByHash]
    generalize particleByHash srt c h = res at hl
    obtain ⟨c', o⟩ := res
    simp only at hl
    cases o <;> simp only [] <;> first | exact hl.trans hs | exact remove_stale v hr c' _ ks (hl.trans hs)
  | lookup h => simp only [step]; rw [lookup_stale srt hv c hinv h]; exact hs
  | setHash i h =>
    simp only [step, setHash]
    split
    · cases c.mem[i]? <;> exact hs
    · exact hs
  | setActive k => simp only [step, setActive]; split <;> exact hs
  | removeAll => simp [step, removeAll, hr]

theorem noShape_repaired (c : State) (hs : c.staleLeaf = false) (op : Op) :
    NoShape Variant.repaired c op := by
  cases op <;> simp only [NoShape]
  · exact hs
  · exact NoShapeRemove.repaired _ _ _
  · intro i _; exact NoShapeRemove.repaired _ _ _
  · exact Or.inl rfl

theorem noShapeRun_repaired : ∀ (ops : List (Sorter × Op)) (c : State), Inv c → c.staleLeaf = false →
    (∀ x ∈ ops, x.1.Valid) → NoShapeRun Variant.repaired c ops := by
  intro ops
  induction ops with
  | nil => intros; trivial
  | cons x rest ih =>
    intro c hinv hs hv
    obtain ⟨srt, op⟩ := x
    have hvs := hv (srt, op) (by simp)
    exact ⟨noShape_repaired c hs op,
      ih _ (step_spec _ srt hvs c hinv op).1 (step_stale _ rfl srt hvs c hinv op hs)
        (fun x hx => hv x (by simp [hx]))⟩

/-! ### invariants of the abstract machine -/

/-- the active count, when set, does not exceed the number of particles -/
def Spec.ActOK (s : Spec) : Prop := -1 ≤ s.active ∧ s.active ≤ (s.ps.length : Int)

theorem clampActive_le (a : Int) (n : Nat) : clampActive a n ≤ n := by
  unfold clampActive; split <;> omega

theorem clampActive_ge (a : Int) (n : Nat) (h : -1 ≤ a) : -1 ≤ clampActive a n := by
  unfold clampActive; split <;> omega

theorem Spec.remove_actOK (s : Spec) (h : s.ActOK) (i : Int) (ks : Bool) : (s.remove i ks).1.ActOK := by
  unfold Spec.remove
  by_cases hr : i < 0 ∨ i ≥ (s.ps.length : Int)
  · rw [if_pos hr]; exact h
  · rw [if_neg hr]
    by_cases h1 : s.ps.length = 1
    · rw [if_pos h1]
      exact ⟨clampActive_ge _ _ h.1, by simpa using clampActive_le s.active 0⟩
    · rw [if_neg h1]
      unfold Spec.removeMany
      have h1' := h.1; have h2' := h.2
      by_cases hv : s.nVar ≠ 0
      · rw [if_pos hv]; exact h
      · rw [if_neg hv]
        by_cases hk : (ks || s.forceSorted) = true
        · rw [if_pos hk]
          cases s.treeRoot
          · simp only [Spec.ActOK, List.length_eraseIdx, Bool.false_eq_true, if_false]
            split <;> split <;> omega
          · exact h
        · rw [if_neg hk]
          cases s.treeRoot
          · simp only [Bool.false_eq_true, if_false]
            cases s.ps.getLast? with
            | none => exact h
            | some l =>
              simp only [Spec.ActOK, List.length_dropLast, List.length_set]
              exact ⟨clampActive_ge _ _ h.1, clampActive_le _ _⟩
          · simp only [Spec.ActOK, List.length_modify, if_true]; exact h

theorem specStep_actOK (s s' : Spec) (op : Op) (o : Out) (hst : SpecStep s op o s') (h : s.ActOK) :
    s'.ActOK := by
  cases op <;> simp only [SpecStep] at hst
  · have e := congrArg Prod.fst hst
    simp only at e
    rw [e]; unfold Spec.add
    repeat' split
    all_goals first | exact h | (simp only [Spec.ActOK, List.length_append, List.length_singleton]; have := h.1; have := h.2; omega)
  · have e := congrArg Prod.fst hst
    simp only at e
    rw [e]; exact Spec.remove_actOK s h _ _
  · rcases hst with ⟨_, _, e⟩ | ⟨i, p, _, _, e⟩
    · rw [e]; exact h
    · have e' := congrArg Prod.fst e
      simp only at e'
      rw [e']; exact Spec.remove_actOK s h _ _
  · rw [hst.1]; exact h
  · have e := congrArg Prod.fst hst
    simp only at e
    rw [e]; unfold Spec.setHash
    split
    · simp only [Spec.ActOK, List.length_modify]; exact h
    · exact h
  · have e := congrArg Prod.fst hst
    simp only at e
    rw [e]; unfold Spec.setActive
    split
    · rename_i hk; exact hk
    · exact h
  · have e := congrArg Prod.fst hst
    simp only at e
    rw [e]; simp [Spec.removeAll, Spec.ActOK]

theorem specRun_actOK (s s' : Spec) (ops : List Op) (os : List Out) (hr : SpecRun s ops os s')
    (h : s.ActOK) : s'.ActOK := by
  induction hr with
  | nil => exact h
  | cons hst _ ih => exact ih (specStep_actOK _ _ _ _ hst h)


end RV.Particles
