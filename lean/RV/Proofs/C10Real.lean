import RV.Proofs.Reversal
import Mathlib.Analysis.SpecialFunctions.Trigonometric.Basic
/-
  SEI over the reals with the real `sin` and `tan` (the functions `reb_integrator_sei_init` calls).
-/
namespace RV.Reversal
open RV

theorem seiStep_reverse_real (acc : List (V3 ℝ) → List (V3 ℝ)) (omega omegaZ dt : ℝ)
    (ho : omega ≠ 0) (hz : omegaZ ≠ 0) (s s' : List (LfP ℝ))
    (h : seiStep acc dt (seiInit Real.sin Real.tan omega omegaZ dt) s = some s') :
    seiStep acc (-dt) (seiInit Real.sin Real.tan omega omegaZ (-dt)) s' = some s := by
  rw [seiInit_neg Real.sin Real.tan Real.sin_neg Real.tan_neg]
  exact seiStep_reverse acc dt _ (by norm_num) ho hz s s' h

end RV.Reversal
