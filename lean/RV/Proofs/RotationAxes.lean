import RV.Proofs.Rotation
/- helper lemmas for the `reb_rotation_init_to_new_axes` theorems of RV/Props/C20.lean -/
set_option linter.unusedTactic false
set_option linter.unreachableTactic false
set_option linter.unnecessarySeqFocus false
set_option linter.unusedVariables false
set_option linter.unusedSimpArgs false
set_option linter.unusedSectionVars false
namespace RV.Rot
open RV
section
variable {K : Type} [Field K] [LinearOrder K] [IsStrictOrderedRing K] [RealFns K]

theorem antiAsFound_spec (f : V3 K) (hf : len2 f = 1) :
    qlen2 (antiparallelAsFound f) = 1 - dot f (smallestAxis f) * dot f (smallestAxis f) ∧
    rotate f (antiparallelAsFound f) =
      vmul f (2 * (dot f (smallestAxis f) * dot f (smallestAxis f)) - 1) :=
  axis_quat f (smallestAxis f) hf (smallestAxis_unit f)

theorem antiFixed_spec (hs : SqrtSpec K) (f : V3 K) (hf : len2 f = 1) :
    qlen2 (antiparallelFixed f) = 1 ∧ rotate f (antiparallelFixed f) = vmul f (-1) := by
  have hm := smallest_sq_le f hf
  have hc : len2 (cross f (smallestAxis f)) ≠ 0 := by
    rw [len2_cross, hf, smallestAxis_unit]
    intro h; linarith
  have ha := normalize_unit hs _ hc
  have hperp : dot (normalize (cross f (smallestAxis f))) f = 0 := by
    rw [normalize_def]
    simp only [dot, cross, sc_hadd, sc_hsub, sc_hmul]; ring
  exact pi_rotation f _ ha hperp

/-- `from_to` on unit vectors, given that the antiparallel treatment is right for this pair -/
theorem fromToUnit_spec' (hs : SqrtSpec K) (anti : V3 K → Quat K) (f t : V3 K)
    (hf : len2 f = 1) (ht : len2 t = 1)
    (hanti : len2 (vadd f t) = 0 → qlen2 (anti f) = 1 ∧ rotate f (anti f) = t) :
    qlen2 (fromToUnit anti f t) = 1 ∧ rotate f (fromToUnit anti f t) = t := by
  by_cases h0 : len2 (vadd f t) = 0
  · obtain ⟨_, hd⟩ := antiparallel_of_sum_zero f t hf h0
    rw [fromToUnit_anti _ f t hd (normalize_zero _ h0)]
    exact hanti h0
  · exact fromToUnit_spec hs _ f t hf ht h0

/-- what `to_new_axes` needs of the antiparallel treatment: it only ever meets the targets
    `ez` (first stage) and `ex` (second stage, where `ez` must stay fixed) -/
structure AntiAxes (anti : V3 K → Quat K) : Prop where
  s1 : ∀ f : V3 K, len2 f = 1 → len2 (vadd f ez) = 0 → qlen2 (anti f) = 1 ∧ rotate f (anti f) = ez
  s2 : ∀ f : V3 K, len2 f = 1 → len2 (vadd f ex) = 0 →
        qlen2 (anti f) = 1 ∧ rotate f (anti f) = ex ∧ rotate ez (anti f) = ez

theorem eq_neg_of_sum_zero (f t : V3 K) (h : len2 (vadd f t) = 0) :
    f.x = -t.x ∧ f.y = -t.y ∧ f.z = -t.z := by
  obtain ⟨hx, hy, hz⟩ := len2_eq_zero h
  simp only [vadd, sc_hadd] at hx hy hz
  exact ⟨by linarith, by linarith, by linarith⟩

theorem smallestAxis_negex : smallestAxis (⟨-1, 0, 0⟩ : V3 K) = ey := by
  unfold smallestAxis
  simp only [r_fabs, r_le, abs_neg, abs_one, abs_zero]
  have h1 : ¬ ((1 : K) ≤ 0) := not_le.mpr zero_lt_one
  simp [h1]

theorem antiAxes_asFound : AntiAxes (antiparallelAsFound : V3 K → Quat K) := by
  constructor
  · intro f hf h0
    obtain ⟨hx, hy, hz⟩ := eq_neg_of_sum_zero f ez h0
    obtain ⟨a, b⟩ := antiAsFound_spec f hf
    obtain ⟨_, mx, _, _⟩ := smallestAxis_spec f
    have hm : dot f (smallestAxis f) * dot f (smallestAxis f) = 0 := by
      have h1 : f.x * f.x = 0 := by rw [hx]; simp [ez]
      exact le_antisymm (by linarith) (mul_self_nonneg _)
    rw [a, b, hm]
    refine ⟨by ring, ?_⟩
    ext <;> simp only [vmul, sc_hmul, ez, sc_zero, sc_one] <;> simp [hx, hy, hz, ez]
  · intro f hf h0
    obtain ⟨hx, hy, hz⟩ := eq_neg_of_sum_zero f ex h0
    have hfe : f = ⟨-1, 0, 0⟩ := by
      ext <;> simp [hx, hy, hz, ex]
    subst hfe
    have e : antiparallelAsFound (⟨-1, 0, 0⟩ : V3 K) = ⟨0, 0, -1, 0⟩ := by
      simp only [antiparallelAsFound, smallestAxis_negex]
      ext <;> simp [cross, ey]
    rw [e]
    refine ⟨by simp [qlen2], ?_, ?_⟩
    · ext <;> simp [rotate, cross, vadd, vmul, imag, ex] <;> norm_num
    · ext <;> simp [rotate, cross, vadd, vmul, imag, ez]

theorem antiAxes_fixed (hs : SqrtSpec K) : AntiAxes (antiparallelFixed : V3 K → Quat K) := by
  constructor
  · intro f hf h0
    obtain ⟨hx, hy, hz⟩ := eq_neg_of_sum_zero f ez h0
    obtain ⟨a, b⟩ := antiFixed_spec hs f hf
    refine ⟨a, ?_⟩
    rw [b]
    ext <;> simp only [vmul, sc_hmul] <;> simp [hx, hy, hz, ez]
  · intro f hf h0
    obtain ⟨hx, hy, hz⟩ := eq_neg_of_sum_zero f ex h0
    have hfe : f = ⟨-1, 0, 0⟩ := by
      ext <;> simp [hx, hy, hz, ex]
    subst hfe
    have hu : len2 (⟨0, 0, -1⟩ : V3 K) = 1 := by simp [len2, dot]
    have e : antiparallelFixed (⟨-1, 0, 0⟩ : V3 K) = ⟨0, 0, -1, 0⟩ := by
      have c : cross (⟨-1, 0, 0⟩ : V3 K) ey = ⟨0, 0, -1⟩ := by ext <;> simp [cross, ey]
      simp only [antiparallelFixed, smallestAxis_negex, c, normalize_of_unit hs _ hu]
      rfl
    rw [e]
    refine ⟨by simp [qlen2], ?_, ?_⟩
    · ext <;> simp [rotate, cross, vadd, vmul, imag, ex] <;> norm_num
    · ext <;> simp [rotate, cross, vadd, vmul, imag, ez]


/-- the from-to constructor built on a given treatment of the antiparallel branch -/
def ftOf (anti : V3 K → Quat K) : V3 K → V3 K → Quat K :=
  fun a b => fromToUnit anti (normalize a) (normalize b)

theorem fromTo_eq_ftOf : (fromTo : V3 K → V3 K → Quat K) = ftOf antiparallelAsFound := rfl
theorem fromToFixed_eq_ftOf : (fromToFixed : V3 K → V3 K → Quat K) = ftOf antiparallelFixed := rfl

theorem len2_ez : len2 (ez : V3 K) = 1 := by simp [len2, dot, ez]
theorem len2_ex : len2 (ex : V3 K) = 1 := by simp [len2, dot, ex]

theorem len2_rotate (v : V3 K) (q : Quat K) (hq : qlen2 q = 1) : len2 (rotate v q) = len2 v := by
  have := rotate_dot_general v v q
  rw [hq] at this; simpa [len2] using this

theorem dot_rotate (v w : V3 K) (q : Quat K) (hq : qlen2 q = 1) :
    dot (rotate v q) (rotate w q) = dot v w := by
  rw [rotate_dot_general, hq]; ring

/-- the second stage of `to_new_axes`: from a unit vector `n ⟂ ez` to `ex`, keeping `ez` fixed -/
theorem stage2 (hs : SqrtSpec K) (anti : V3 K → Quat K) (ha : AntiAxes anti) (n : V3 K)
    (hn : len2 n = 1) (hperp : dot n ez = 0) :
    qlen2 (fromToUnit anti n ex) = 1 ∧ rotate n (fromToUnit anti n ex) = ex ∧
    rotate ez (fromToUnit anti n ex) = ez := by
  obtain ⟨u, m⟩ := fromToUnit_spec' hs anti n ex hn len2_ex (fun h0 => ⟨(ha.s2 n hn h0).1, (ha.s2 n hn h0).2.1⟩)
  refine ⟨u, m, ?_⟩
  by_cases h0 : len2 (vadd n ex) = 0
  · obtain ⟨_, hd⟩ := antiparallel_of_sum_zero n ex hn h0
    rw [fromToUnit_anti _ n ex hd (normalize_zero _ h0)]
    exact (ha.s2 n hn h0).2.2
  · exact fromToUnit_fixes hs anti n ex ez hn len2_ex h0 hperp (by simp [dot, ex, ez])

/-- `reb_rotation_init_to_new_axes` with the orthogonalisation done with the normalised `newz`:
    unit, maps the direction of `newz` to `ez` and the direction of the component of `newx`
    perpendicular to `newz` to `ex` -/
theorem toNewAxes_spec (hs : SqrtSpec K) (anti : V3 K → Quat K) (ha : AntiAxes anti)
    (newz newx : V3 K) (hz : len2 newz ≠ 0)
    (hx : len2 (vadd newx (vmul (normalize newz) (-(dot (normalize newz) newx)))) ≠ 0) :
    qlen2 (toNewAxesWith (ftOf anti) true newz newx) = 1 ∧
    rotate (normalize newz) (toNewAxesWith (ftOf anti) true newz newx) = ez ∧
    rotate (normalize (vadd newx (vmul (normalize newz) (-(dot (normalize newz) newx)))))
      (toNewAxesWith (ftOf anti) true newz newx) = ex := by
  set zn := normalize newz with hzn_def
  set xp := vadd newx (vmul zn (-(dot zn newx))) with hxp_def
  have hzn : len2 zn = 1 := normalize_unit hs newz hz
  -- first stage
  obtain ⟨u1, m1⟩ := fromToUnit_spec' hs anti zn ez hzn len2_ez (ha.s1 zn hzn)
  set q1 := fromToUnit anti zn ez with hq1
  have hxz : dot xp zn = 0 := by
    simp only [len2, dot, sc_hadd, sc_hmul] at hzn
    simp only [hxp_def, dot, vadd, vmul, sc_hadd, sc_hmul]
    linear_combination (-(zn.x * newx.x + zn.y * newx.y + zn.z * newx.z)) * hzn
  set x2 := rotate xp q1 with hx2
  have hx2l : len2 x2 ≠ 0 := by rw [hx2, len2_rotate _ _ u1]; exact hx
  have hx2z : dot x2 ez = 0 := by
    rw [hx2, ← m1, dot_rotate _ _ _ u1]; exact hxz
  have hn2 : len2 (normalize x2) = 1 := normalize_unit hs x2 hx2l
  have hn2z : dot (normalize x2) ez = 0 := by rw [dot_normalize_left, hx2z]; ring
  obtain ⟨u2, m2, f2⟩ := stage2 hs anti ha (normalize x2) hn2 hn2z
  -- the model expression
  have hq : toNewAxesWith (ftOf anti) true newz newx =
      qmul (fromToUnit anti (normalize x2) ex) q1 := by
    simp only [toNewAxesWith, ftOf, if_true]
    have e1 : normalize (normalize newz) = zn := normalize_of_unit hs _ hzn
    simp only [e1, normalize_ez hs, normalize_ex hs]
    rfl
  rw [hq]
  refine ⟨by rw [qlen2_mul, u2, u1, one_mul], ?_, ?_⟩
  · rw [rotate_mul _ _ _ u2 u1, m1, f2]
  · rw [rotate_mul _ _ _ u2 u1, ← normalize_rotate _ _ u1, m2]


/-- when `newz` is unit, or `newx` is already perpendicular to it, the dot product taken before
    normalising `newz` (as found) equals the one taken after (repaired) -/
theorem toNewAxesWith_dot_eq (hs : SqrtSpec K) (ft : V3 K → V3 K → Quat K) (newz newx : V3 K)
    (h : len2 newz = 1 ∨ dot newz newx = 0) :
    toNewAxesWith ft false newz newx = toNewAxesWith ft true newz newx := by
  have e : dot (normalize newz) newx = dot newz newx := by
    rcases h with h | h
    · rw [normalize_of_unit hs _ h]
    · rw [dot_normalize_left, h]; ring
  simp only [toNewAxesWith, if_true, e]
  rfl

/-- **F18**, general form: as found, if the vector left after the (wrong) orthogonalisation still
    has a component along `newz`, the resulting rotation does not take `newz` to the z axis -/
theorem toNewAxes_asfound_misses (hs : SqrtSpec K) (anti : V3 K → Quat K) (ha : AntiAxes anti)
    (newz newx : V3 K) (hz : len2 newz ≠ 0)
    (hw : dot (vadd newx (vmul (normalize newz) (-(dot newz newx)))) (normalize newz) ≠ 0) :
    rotate (normalize newz) (toNewAxesWith (ftOf anti) false newz newx) ≠ ez := by
  set zn := normalize newz with hzn_def
  set xw := vadd newx (vmul zn (-(dot newz newx))) with hxw_def
  have hzn : len2 zn = 1 := normalize_unit hs newz hz
  obtain ⟨u1, m1⟩ := fromToUnit_spec' hs anti zn ez hzn len2_ez (ha.s1 zn hzn)
  set q1 := fromToUnit anti zn ez with hq1
  set x2 := rotate xw q1 with hx2
  have hxwl : len2 xw ≠ 0 := by
    intro h0
    obtain ⟨a, b, c⟩ := len2_eq_zero h0
    apply hw
    simp [dot, a, b, c]
  have hx2l : len2 x2 ≠ 0 := by rw [hx2, len2_rotate _ _ u1]; exact hxwl
  have hx2z : dot x2 ez ≠ 0 := by
    rw [hx2, ← m1, dot_rotate _ _ _ u1]; exact hw
  have hn2 : len2 (normalize x2) = 1 := normalize_unit hs x2 hx2l
  have hsq := sqrt_ne_zero hs (len2_nonneg x2) hx2l
  have hn2z : dot (normalize x2) ez ≠ 0 := by
    rw [dot_normalize_left]
    exact mul_ne_zero (one_div_ne_zero hsq) hx2z
  have hna : len2 (vadd (normalize x2) ex) ≠ 0 := by
    intro h0
    obtain ⟨a, b, c⟩ := eq_neg_of_sum_zero _ _ h0
    apply hn2z
    simp [dot, ez, ex, a, b, c] at *
  obtain ⟨u2, m2⟩ := fromToUnit_spec hs anti (normalize x2) ex hn2 len2_ex hna
  have hq : toNewAxesWith (ftOf anti) false newz newx =
      qmul (fromToUnit anti (normalize x2) ex) q1 := by
    simp only [toNewAxesWith, ftOf]
    have e1 : normalize (normalize newz) = zn := normalize_of_unit hs _ hzn
    simp only [e1, normalize_ez hs, normalize_ex hs]
    rfl
  rw [hq, rotate_mul _ _ _ u2 u1, m1]
  intro hfix
  have := dot_rotate (normalize x2) ez _ u2
  rw [m2, hfix] at this
  apply hn2z
  rw [← this]; simp [dot, ex, ez]

theorem sqrt_four (hs : SqrtSpec K) : RealFns.sqrt (4 : K) = 2 := by
  obtain ⟨h0, h1⟩ := hs 4 (by norm_num)
  have : (RealFns.sqrt (4:K) - 2) * (RealFns.sqrt (4:K) + 2) = 0 := by linear_combination h1
  rcases mul_eq_zero.mp this with h | h
  · linarith
  · linarith


/-! ### from_to with the rounding-level antiparallel test (fixes/C20-from-to-nearly-antiparallel.diff) -/

theorem fromToUnitTau_unfold (tau : K) (anti : V3 K → Quat K) (f t : V3 K) :
    fromToUnitTau tau anti f t =
      if 0 ≤ dot f t then fromToReduced f t
      else if len2 (cross f t) < tau ∨ len2 (normalize (vadd f t)) = 0 then anti f
      else qmul (fromToReduced f (normalize (vadd f t))) (fromToReduced (normalize (vadd f t)) t) := by
  by_cases h1 : 0 ≤ dot f t
  · have : ScalarR.le (Scalar.zero : K) (dot f t) = true := by simpa using h1
    simp only [fromToUnitTau, this, if_true, h1]
  · have e1 : ScalarR.le (Scalar.zero : K) (dot f t) = false := by simpa using h1
    have hv : (⟨f.x + t.x, f.y + t.y, f.z + t.z⟩ : V3 K) = vadd f t := rfl
    simp only [fromToUnitTau, e1, h1, if_false, hv, r_lt, r_isnormal, Bool.false_eq_true]
    by_cases h2 : len2 (cross f t) < tau ∨ len2 (normalize (vadd f t)) = 0
    · rw [if_pos h2]
      rcases h2 with h2 | h2
      · simp [h2]
      · simp [h2]
    · rw [if_neg h2]
      push Not at h2
      have a1 : ¬ (len2 (cross f t) < tau) := not_lt.mpr h2.1
      simp [a1, h2.2]

/-- outside the rounding-level band the patched constructor is the repaired one -/
theorem fromToUnitTau_eq (tau : K) (anti : V3 K → Quat K) (f t : V3 K) (h : ¬ (len2 (cross f t) < tau) ∨ 0 ≤ dot f t) :
    fromToUnitTau tau anti f t = fromToUnit anti f t := by
  rw [fromToUnitTau_unfold]
  by_cases h1 : 0 ≤ dot f t
  · rw [if_pos h1, fromToUnit_acute anti f t h1]
  · rw [if_neg h1]
    have hc : ¬ (len2 (cross f t) < tau) := by
      rcases h with h | h
      · exact h
      · exact absurd h h1
    have hd : dot f t < 0 := not_le.mp h1
    by_cases h2 : len2 (normalize (vadd f t)) = 0
    · rw [if_pos (Or.inr h2), fromToUnit_anti anti f t hd h2]
    · rw [if_neg (by push Not; exact ⟨not_lt.mp hc, h2⟩), fromToUnit_two_stage anti f t hd h2]

/-- inside the band (obtuse unit vectors with `|f × t|² < tau`): a unit quaternion turning `f` into `−f`,
    which is within `√(2 tau)` of `t`:  `|(−f) − t|² = |f + t|² ≤ 2 |f × t|² < 2 tau` -/
theorem fromToUnitTau_band (hs : SqrtSpec K) (tau : K) (f t : V3 K) (hf : len2 f = 1) (ht : len2 t = 1)
    (hd : dot f t < 0) (hb : len2 (cross f t) < tau) :
    qlen2 (fromToUnitTau tau antiparallelFixed f t) = 1 ∧
    rotate f (fromToUnitTau tau antiparallelFixed f t) = vmul f (-1) ∧
    len2 (V3.sub (rotate f (fromToUnitTau tau antiparallelFixed f t)) t) < 2 * tau := by
  rw [fromToUnitTau_unfold, if_neg (not_le.mpr hd), if_pos (Or.inl hb)]
  obtain ⟨a, b⟩ := antiFixed_spec hs f hf
  refine ⟨a, b, ?_⟩
  rw [b]
  have hc := len2_cross f t
  rw [hf, ht] at hc
  have e : len2 (V3.sub (vmul f (-1)) t) = 2 + 2 * dot f t := by
    simp only [len2, dot, V3.sub, vmul, sc_hadd, sc_hsub, sc_hmul] at hf ht ⊢
    linear_combination hf + ht
  rw [e]
  -- 1 - d^2 < tau, d < 0  ⟹  2 (1 + d) < 2 tau
  have h1 : (1 + dot f t) * (1 - dot f t) < tau := by
    have : (1 + dot f t) * (1 - dot f t) = len2 (cross f t) := by rw [hc]; ring
    rw [this]; exact hb
  have hdm : -1 ≤ dot f t := by
    -- |f + t|² ≥ 0
    have := len2_nonneg (vadd f t)
    rw [len2_vadd, hf, ht] at this
    linarith
  nlinarith [h1, hd, hdm]

end
end RV.Rot
