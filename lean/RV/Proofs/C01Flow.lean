import RV.Model.Sched
import Mathlib.Algebra.Group.Prod
import Mathlib.Algebra.Module.Basic
import Mathlib.Algebra.Group.End
import Mathlib.Tactic.Ring
import Mathlib.Tactic.Abel
/-
  C01 — the abstract part: schedules as words in one-parameter groups.

  * `reverse_neg_cancel`: for any family of flows (`φ i 0 = 1`, `φ i s * φ i t = φ i (s+t)`) in any monoid, the
    schedule run backwards with negated times undoes the schedule.  Corollary: a palindromic schedule `S` satisfies
    `S(−h) ∘ S(h) = id` (time reversibility), for every step `h`.
  * `norm_sound`: dropping force evaluations, merging neighbouring operators of the same group and dropping identities
    (`RV.C01.norm`, the form on which the generated schedules are compared) does not change the map.
  * drift and kick on phase space `V × V` are exact flows, additive in the time, for an arbitrary force field.
-/
set_option linter.unusedVariables false
set_option linter.unusedSectionVars false
namespace RV.C01.Flow
open RV.C01

section abstract
variable {M : Type} [Monoid M] {ι : Type} {K : Type} [AddGroup K]

/-- a family of flows: one-parameter (here: `K`-parameter) groups in `M` -/
structure Flows (φ : ι → K → M) : Prop where
  zero : ∀ i, φ i 0 = 1
  add : ∀ i s t, φ i s * φ i t = φ i (s + t)

/-- the map of a schedule: operators applied left to right -/
def evalS (φ : ι → K → M) : List (ι × K) → M
  | [] => 1
  | p :: r => φ p.1 p.2 * evalS φ r

def negS (S : List (ι × K)) : List (ι × K) := S.map (fun p => (p.1, -p.2))

theorem evalS_append (φ : ι → K → M) (S T : List (ι × K)) : evalS φ (S ++ T) = evalS φ S * evalS φ T := by
  induction S with
  | nil => simp [evalS]
  | cons p r ih => simp [evalS, ih, mul_assoc]

theorem cancel (φ : ι → K → M) (hφ : Flows φ) (i : ι) (t : K) : φ i (-t) * φ i t = 1 := by
  rw [hφ.add, neg_add_cancel, hφ.zero]

/-- running the schedule backwards with negated times undoes it -/
theorem reverse_neg_cancel (φ : ι → K → M) (hφ : Flows φ) (S : List (ι × K)) :
    evalS φ (negS S).reverse * evalS φ S = 1 := by
  induction S with
  | nil => simp [negS, evalS]
  | cons p r ih =>
    have h1 : (negS (p :: r)).reverse = (negS r).reverse ++ [(p.1, -p.2)] := by simp [negS]
    rw [h1, evalS_append]
    show evalS φ (negS r).reverse * (φ p.1 (-p.2) * 1) * (φ p.1 p.2 * evalS φ r) = 1
    rw [mul_one, mul_assoc, ← mul_assoc (φ p.1 (-p.2)), cancel φ hφ, one_mul, ih]

/-- a palindromic schedule is undone by itself with negated times -/
theorem palindrome_reversible (φ : ι → K → M) (hφ : Flows φ) (S : List (ι × K)) (hS : S.reverse = S) :
    evalS φ (negS S) * evalS φ S = 1 := by
  have h : (negS S).reverse = negS S := by
    unfold negS; rw [← List.map_reverse, hS]
  rw [← h]; exact reverse_neg_cancel φ hφ S

/-- `χ ∘ K ∘ χ⁻¹` with palindromic `K`: `n` steps are `χ ∘ Kⁿ ∘ χ⁻¹`-like, in particular one step backwards after one
    step forwards is the identity up to the conjugation: `(χ K χ⁻¹)(h)` followed by `χ(h) K(−h) χ(h)⁻¹` is the identity -/
theorem conjugate_reversible (φ : ι → K → M) (hφ : Flows φ) (P C : List (ι × K)) (hC : C.reverse = C) :
    evalS φ (P ++ negS C ++ (negS P).reverse) * evalS φ (P ++ C ++ (negS P).reverse) = 1 := by
  have hP : evalS φ (negS P).reverse * evalS φ P = 1 := reverse_neg_cancel φ hφ P
  have hK : evalS φ (negS C) * evalS φ C = 1 := palindrome_reversible φ hφ C hC
  simp only [evalS_append]
  calc evalS φ P * evalS φ (negS C) * evalS φ (negS P).reverse * (evalS φ P * evalS φ C * evalS φ (negS P).reverse)
      = evalS φ P * evalS φ (negS C) * (evalS φ (negS P).reverse * evalS φ P) * evalS φ C * evalS φ (negS P).reverse := by
        simp only [mul_assoc]
    _ = evalS φ P * (evalS φ (negS C) * evalS φ C) * evalS φ (negS P).reverse := by rw [hP, mul_one]; simp only [mul_assoc]
    _ = evalS φ P * evalS φ (negS P).reverse := by rw [hK, mul_one]
    _ = 1 := by
        have := reverse_neg_cancel φ hφ (negS P).reverse
        have e : (negS (negS P).reverse).reverse = P := by
          unfold negS; simp [List.map_reverse, Function.comp_def]
        rw [e] at this; exact this
end abstract

/-! ### the generated schedules as words: times `(a·h, b·h³)` in the additive group `ℚ × ℚ` -/
section generated
variable {M : Type} [Monoid M]

def timesOf (h : Rat) (l : List G) : List (Nat × (Rat × Rat)) := l.map (fun g => (g.letter, (g.t * h, g.j * h ^ 3)))

theorem timesOf_neg (h : Rat) (l : List G) : timesOf (-h) l = negS (timesOf h l) := by
  unfold timesOf negS
  rw [List.map_map]
  apply List.map_congr_left
  intro g _
  show (g.letter, (g.t * -h, g.j * (-h) ^ 3)) = (g.letter, -(g.t * h, g.j * h ^ 3))
  have e1 : g.t * -h = -(g.t * h) := by ring
  have e2 : g.j * (-h) ^ 3 = -(g.j * h ^ 3) := by ring
  rw [e1, e2]; rfl


/-- the un-merged word of a schedule: force evaluations removed, nothing else changed -/
def raw (s : List Op) : List G := (s.filter (·.kind != 2)).map toG

theorem timesOf_cons (h : Rat) (g : G) (l : List G) :
    timesOf h (g :: l) = (g.letter, (g.t * h, g.j * h ^ 3)) :: timesOf h l := rfl

theorem evalS_consG (φ : Nat → (Rat × Rat) → M) (hφ : Flows φ) (h : Rat) (g : G) (l : List G) :
    evalS φ (timesOf h (consG g l)) = φ g.letter (g.t * h, g.j * h ^ 3) * evalS φ (timesOf h l) := by
  have zero_time : ∀ (t j : Rat), t = 0 → j = 0 → ((t * h, j * h ^ 3) : Rat × Rat) = 0 := by
    intro t j ht hj; subst ht; subst hj; ext <;> simp
  cases l with
  | nil =>
    simp only [consG]
    by_cases hz : (g.t == 0 && g.j == 0) = true
    · rw [if_pos hz]
      have hz' := hz
      rw [Bool.and_eq_true, beq_iff_eq, beq_iff_eq] at hz'
      rw [zero_time g.t g.j hz'.1 hz'.2, hφ.zero]; simp [timesOf, evalS]
    · rw [if_neg hz]; rfl
  | cons p r =>
    simp only [consG]
    by_cases hl : (p.letter == g.letter) = true
    · rw [if_pos hl]
      have hl' : p.letter = g.letter := by rw [beq_iff_eq] at hl; exact hl
      have key : φ g.letter (g.t * h, g.j * h ^ 3) * evalS φ (timesOf h (p :: r)) =
          φ g.letter ((g.t + p.t) * h, (g.j + p.j) * h ^ 3) * evalS φ (timesOf h r) := by
        rw [timesOf_cons]; show _ * (φ p.letter (p.t * h, p.j * h ^ 3) * _) = _
        rw [hl', ← mul_assoc, hφ.add]
        have : ((g.t * h, g.j * h ^ 3) : Rat × Rat) + (p.t * h, p.j * h ^ 3) = ((g.t + p.t) * h, (g.j + p.j) * h ^ 3) := by
          ext <;> simp <;> ring
        rw [this]
      rw [key]
      by_cases hz : ((g.t + p.t) == 0 && (g.j + p.j) == 0) = true
      · simp only [hz, if_true]
        have hz' := hz
        rw [Bool.and_eq_true, beq_iff_eq, beq_iff_eq] at hz'
        rw [zero_time _ _ hz'.1 hz'.2, hφ.zero, one_mul]
      · simp only [hz]; rfl
    · rw [if_neg hl]
      by_cases hz : (g.t == 0 && g.j == 0) = true
      · rw [if_pos hz]
        have hz' := hz
        rw [Bool.and_eq_true, beq_iff_eq, beq_iff_eq] at hz'
        rw [zero_time g.t g.j hz'.1 hz'.2, hφ.zero, one_mul]
      · rw [if_neg hz]; rfl

/-- **`norm` is sound**: merging neighbours of the same group and dropping identities does not change the map -/
theorem norm_sound (φ : Nat → (Rat × Rat) → M) (hφ : Flows φ) (h : Rat) (s : List Op) :
    evalS φ (timesOf h (norm s)) = evalS φ (timesOf h (raw s)) := by
  unfold norm raw
  induction (s.filter (·.kind != 2)) with
  | nil => rfl
  | cons o r ih =>
    rw [List.foldr_cons, evalS_consG φ hφ, ih]; rfl

/-- **time reversibility of every palindromic generated schedule**: for all flows, all step sizes -/
theorem palindrome_step_reversible (φ : Nat → (Rat × Rat) → M) (hφ : Flows φ) (s : List Op) (hs : Palindrome s) (h : Rat) :
    evalS φ (timesOf (-h) (norm s)) * evalS φ (timesOf h (norm s)) = 1 := by
  rw [timesOf_neg]
  apply palindrome_reversible φ hφ
  unfold timesOf
  rw [← List.map_reverse, ← hs]
end generated

/-! ### drift and kick are exact flows on phase space -/
section phase
variable {V : Type} [AddCommGroup V] [Module Rat V]

/-- free-particle drift for time `τ` -/
def drift (τ : Rat) (s : V × V) : V × V := (s.1 + τ • s.2, s.2)
/-- kick for time `τ` (and jerk coefficient `j`) in the force field `a` (jerk field `g`), both functions of the position -/
def kick (a g : V → V) (τ : Rat × Rat) (s : V × V) : V × V := (s.1, s.2 + τ.1 • a s.1 + τ.2 • g s.1)

theorem drift_zero (s : V × V) : drift 0 s = s := by simp [drift]
theorem drift_add (σ τ : Rat) (s : V × V) : drift σ (drift τ s) = drift (σ + τ) s := by
  simp only [drift, add_smul]; ext
  · show s.1 + τ • s.2 + σ • s.2 = s.1 + (σ • s.2 + τ • s.2); abel
  · rfl
theorem kick_zero (a g : V → V) (s : V × V) : kick a g 0 s = s := by simp [kick]
theorem kick_add (a g : V → V) (σ τ : Rat × Rat) (s : V × V) : kick a g σ (kick a g τ s) = kick a g (σ + τ) s := by
  simp only [kick, Prod.fst_add, Prod.snd_add, add_smul]; ext
  · rfl
  · show s.2 + τ.1 • a s.1 + τ.2 • g s.1 + σ.1 • a s.1 + σ.2 • g s.1 =
      s.2 + (σ.1 • a s.1 + τ.1 • a s.1) + (σ.2 • g s.1 + τ.2 • g s.1)
    abel

/-- letter 0 = drift, every other letter = kick in the same fields, as elements of the monoid `Function.End (V × V)`
    (`f * g = f ∘ g`: the product of a schedule is read right to left; for the cancellation statement this is immaterial) -/
def phaseFlow (a g : V → V) (i : Nat) (τ : Rat × Rat) : Function.End (V × V) :=
  match i with
  | 0 => drift τ.1
  | _ + 1 => kick a g τ

theorem phaseFlow_flows (a g : V → V) : Flows (phaseFlow (V := V) a g) where
  zero := by
    intro i
    cases i with
    | zero => exact funext (fun s => drift_zero s)
    | succ n => exact funext (fun s => kick_zero a g s)
  add := by
    intro i σ τ
    cases i with
    | zero => exact funext (fun s => drift_add σ.1 τ.1 s)
    | succ n => exact funext (fun s => kick_add a g σ τ s)

/-- every palindromic generated schedule, run as drifts and kicks on phase space with an arbitrary force field `a` and
    jerk field `g`, is undone by the same schedule with `−h` -/
theorem phase_space_reversible (a g : V → V) (s : List Op) (hs : Palindrome s) (h : Rat) (x : V × V) :
    (evalS (phaseFlow a g) (timesOf (-h) (norm s)) * evalS (phaseFlow a g) (timesOf h (norm s))) x = x := by
  rw [palindrome_step_reversible (phaseFlow a g) (phaseFlow_flows a g) s hs h]; rfl
end phase
end RV.C01.Flow
