import RV.Proofs.Sync
/-
  C09 for SABA: dataflow (bitwise) part.
-/
set_option linter.unusedVariables false
set_option linter.unusedSimpArgs false
namespace RV.Sync
variable {T PJ X V A : Type}

theorem closed_iteP (p : Prop) [Decidable p] {a b : List Prim} (ha : Closed a) (hb : Closed b) :
    Closed (if p then a else b) := by split <;> assumption
theorem savedKept_iteP (p : Prop) [Decidable p] {a b : List Prim} (ha : SavedKept a) (hb : SavedKept b) :
    SavedKept (if p then a else b) := by split <;> assumption

macro "closed_lit2" : tactic =>
  `(tactic| (intro L hl; obtain ⟨pj, pos, vel, acc, saved, tmp⟩ := L; simp only at hl; subst hl;
             simp [transferList, transfer, Comps.le, sabaCorrOps]))

theorem closed_sabaCorr (t : Nat) (m : Int) : Closed (sabaCorrOps t m) := by
  unfold sabaCorrOps
  split <;> closed_lit2

theorem closed_sabaStage (row i1 i2 : Nat) :
    Closed [.kepler (.sabaC row i1 1), .com (.sabaC row i1 1), .posJacobiAll, .updateAcc,
            .interaction (.sabaD row i2)] := by closed_lit2

theorem closed_sabaStages (row stages fuel j : Nat) : Closed (sabaStageOps row stages fuel j) := by
  induction fuel generalizing j with
  | zero => exact closed_nil
  | succ n ih =>
    unfold sabaStageOps
    split
    · exact closed_append (closed_sabaStage _ _ _) (ih _)
    · exact closed_nil

/-- everything of a SABA step after the first drift -/
def sabaTail (c : SabaConfig) : List Prim :=
  [.toInertial, .updateAcc, .interaction (.sabaD (c.type % 0x100) 0)] ++
  sabaStageOps (c.type % 0x100) (sabaStages c.type) (sabaStages c.type) 1 ++
  (if c.type ≥ 0x100 then [.kepler (.sabaC (c.type % 0x100) 0 1), .com (.sabaC (c.type % 0x100) 0 1)] else [])

theorem closed_sabaTail (c : SabaConfig) : Closed (sabaTail c) :=
  closed_append (closed_append (by closed_lit2) (closed_sabaStages _ _ _ _))
    (closed_iteP _ (closed_drift _ _) closed_nil)

/-- the drift of SABA's part1 -/
def sabaDrift (c : SabaConfig) (isSync : Bool) : List Prim :=
  if c.type ≥ 0x100 then
    sabaCorrOps c.type (if isSync then 1 else 2) ++
      [.kepler (.sabaC (c.type % 0x100) 0 1), .com (.sabaC (c.type % 0x100) 0 1)]
  else if isSync then [.kepler (.sabaC (c.type % 0x100) 0 1), .com (.sabaC (c.type % 0x100) 0 1)]
  else [.kepler (.sabaC (c.type % 0x100) 0 2), .com (.sabaC (c.type % 0x100) 0 2)]

theorem closed_sabaDrift (c : SabaConfig) (b : Bool) : Closed (sabaDrift c b) := by
  unfold sabaDrift
  split
  · exact closed_append (closed_sabaCorr _ _) (closed_drift _ _)
  · split <;> exact closed_drift _ _

theorem closed_sabaInit (b : Bool) : Closed [.sabaInit b, .init] := by closed_lit2

/-- shape of a SABA step in unsafe mode -/
theorem sabaStepOps_unsafe (c : SabaConfig) (hs : c.safe = false) (g : Flags)
    (hg : g.allocated = true) (hr : g.isSync = false → g.recalc = false) :
    sabaStepOps c g =
      ([.sabaInit (c.type ≥ 0x100), .init] ++ (if g.recalc then [Prim.fromInertial] else []) ++
        sabaDrift c (g.isSync || (g.recalc && c.p1fix)) ++ sabaTail c ++ [.advT (.frac 1 1)],
       { isSync := false, recalc := false, allocated := true }) := by
  obtain ⟨isSync, recalc, allocated⟩ := g
  simp only at hg; subst hg
  simp only at hr
  cases isSync <;> cases recalc <;> cases hp : c.p1fix <;>
    simp_all [sabaStepOps, sabaPart1Ops, sabaPart2Ops, hs, hp, initF, sabaDrift, sabaTail, List.append_assoc]

theorem sabaStepOps_initF (c : SabaConfig) (f : Flags) : sabaStepOps c (initF f) = sabaStepOps c f := by
  unfold sabaStepOps sabaPart1Ops; rw [initF_idem]

/-- dataflow of a SABA step in unsafe mode: the new `pj` is a function of the old `pj` alone,
    provided coordinates are not being recalculated from unsynchronised particles -/
theorem saba_step_pj_determined (c : SabaConfig) (hs : c.safe = false) (g : Flags)
    (hg : g.allocated = true) (hr : g.isSync = false → g.recalc = false) :
    (transferList (sabaStepOps c g).1 ⟨true, g.isSync, g.isSync, false, false, false⟩).pj = true := by
  rw [sabaStepOps_unsafe c hs g hg hr]
  have tailc : ∀ b, Closed (sabaDrift c b ++ sabaTail c ++ [Prim.advT (.frac 1 1)]) := fun b =>
    closed_append (closed_append (closed_sabaDrift c b) (closed_sabaTail c)) (closed_advT _)
  cases hi : g.isSync
  · have hr' := hr hi
    simp only [hr', if_false, Bool.false_eq_true, List.append_nil, Bool.false_and, Bool.or_self]
    have := (closed_append (closed_sabaInit (decide (c.type ≥ 0x100))) (tailc false)).pj (L := ⟨true, false, false, false, false, false⟩) rfl
    simpa [List.append_assoc] using this
  · have e : ∀ l : List Prim, [Prim.sabaInit (decide (c.type ≥ 0x100)), Prim.init] ++ l ++ sabaDrift c true ++ sabaTail c ++
        [Prim.advT (.frac 1 1)] = ([Prim.sabaInit (decide (c.type ≥ 0x100)), Prim.init] ++ l) ++
        (sabaDrift c true ++ sabaTail c ++ [Prim.advT (.frac 1 1)]) := by
      intro l; simp [List.append_assoc]
    simp only [Bool.true_or]
    rw [e, transferList_append]
    apply (tailc true).pj
    cases g.recalc <;> simp [transferList, transfer]

/-! ### synchronize with keep_unsynchronized -/

theorem savedKept_sabaCorr (t : Nat) (m : Int) : SavedKept (sabaCorrOps t m) := by
  unfold sabaCorrOps
  split <;> (intro T PJ X V A S s; simp [exec, denote])

/-- body of SABA's synchronize between save and restore -/
def sabaSyncMid (c : SabaConfig) : List Prim :=
  (if c.type ≥ 0x100 then sabaCorrOps c.type 1
   else [.kepler (.sabaC (c.type % 0x100) 0 1), .com (.sabaC (c.type % 0x100) 0 1)]) ++ [.toInertialAll]

theorem savedKept_sabaSyncMid (c : SabaConfig) : SavedKept (sabaSyncMid c) :=
  savedKept_append (savedKept_iteP _ (savedKept_sabaCorr _ _) (savedKept_drift _ _))
    (by intro T PJ X V A S s; simp [exec, denote])

theorem closed_sabaSyncMid (c : SabaConfig) : Closed (sabaSyncMid c) :=
  closed_append (closed_iteP _ (closed_sabaCorr _ _) (closed_drift _ _)) (by closed_lit2)

theorem sabaSyncOps_keep (c : SabaConfig) (hk : c.keep = true) (f : Flags) :
    sabaSyncOps c f = (if f.isSync then (if c.copyInside then [] else [Prim.savePJ])
      else [Prim.savePJ] ++ sabaSyncMid c ++ [Prim.restorePJ], f) := by
  unfold sabaSyncOps sabaSyncMid
  cases f.isSync <;> simp [hk]

theorem saba_exec_sync_keep_pj (S : Sem T PJ X V A) (c : SabaConfig) (hk : c.keep = true) (f : Flags)
    (s : St PJ X V A) : (exec S (sabaSyncOps c f).1 s).pj = s.pj := by
  rw [sabaSyncOps_keep c hk]
  cases f.isSync
  · simp only [if_false, Bool.false_eq_true]
    rw [exec_append, exec_append]
    simp only [exec, denote]
    rw [savedKept_sabaSyncMid c]
  · cases c.copyInside <;> rfl

/-- after an unsynchronised `synchronize` positions and velocities are functions of `pj` -/
theorem saba_sync_posvel (c : SabaConfig) (hk : c.keep = true) (f : Flags) (hs : f.isSync = false)
    (L : Comps) (hl : L.pj = true) :
    (transferList (sabaSyncOps c f).1 L).pj = true ∧ (transferList (sabaSyncOps c f).1 L).pos = true ∧
    (transferList (sabaSyncOps c f).1 L).vel = true := by
  rw [sabaSyncOps_keep c hk]
  simp only [hs, if_false, Bool.false_eq_true]
  unfold sabaSyncMid
  simp only [← List.append_assoc]
  rw [transferList_append, transferList_append]
  have hc : Closed ([Prim.savePJ] ++ (if c.type ≥ 0x100 then sabaCorrOps c.type 1
      else [.kepler (.sabaC (c.type % 0x100) 0 1), .com (.sabaC (c.type % 0x100) 0 1)])) :=
    closed_append (by closed_lit2) (closed_iteP _ (closed_sabaCorr _ _) (closed_drift _ _))
  have h1 := hc.pj hl
  have h2 : (transferList ([Prim.savePJ] ++ (if c.type ≥ 0x100 then sabaCorrOps c.type 1
      else [.kepler (.sabaC (c.type % 0x100) 0 1), .com (.sabaC (c.type % 0x100) 0 1)])) L).saved = true := by
    rw [transferList_append]
    have h0 : (transferList [Prim.savePJ] L).saved = true ∧ (transferList [Prim.savePJ] L).pj = true := by
      simp [transferList, transfer, hl]
    exact ((closed_iteP _ (closed_sabaCorr c.type 1) (closed_drift _ _)) _ h0.2).2.2.2.2.1 h0.1
  generalize transferList ([Prim.savePJ] ++ (if c.type ≥ 0x100 then sabaCorrOps c.type 1
      else [.kepler (.sabaC (c.type % 0x100) 0 1), .com (.sabaC (c.type % 0x100) 0 1)])) L = M at *
  simp [transferList, transfer, h1, h2]

/-! ### API level -/

def sabaApply (S : Sem T PJ X V A) (c : SabaConfig) (o : Op (X × V)) (x : Flags × St PJ X V A) :
    Flags × St PJ X V A :=
  let r := sabaOpOps c x.1 o
  let s := exec S r.1 x.2
  (r.2, match o with | .poke v => { s with pos := v.1, vel := v.2 } | _ => s)

def sabaRun (S : Sem T PJ X V A) (c : SabaConfig) :
    List (Op (X × V)) → Flags × St PJ X V A → Flags × St PJ X V A
  | [], x => x
  | o :: os, x => sabaRun S c os (sabaApply S c o x)

/-- SABA's part1 recalculates coordinates *without* synchronising first: the interleaving
    argument needs that this never happens on an unsynchronised state (true after any step;
    the user could violate it by setting the flag by hand) -/
def SRel (x y : Flags × St PJ X V A) : Prop :=
  Rel x y ∧ ((initF x.1).isSync = false → (initF x.1).recalc = false)

theorem SRel.symm {x y : Flags × St PJ X V A} (h : SRel x y) : SRel y x :=
  ⟨h.1.symm, by rw [← h.1.1]; exact h.2⟩
theorem SRel.trans {x y z : Flags × St PJ X V A} (a : SRel x y) (b : SRel y z) : SRel x z :=
  ⟨a.1.trans b.1, a.2⟩

theorem srel_step (S : Sem T PJ X V A) (c : SabaConfig) (hs : c.safe = false)
    {x y : Flags × St PJ X V A} (h : SRel x y) :
    SRel (sabaApply S c .step x) (sabaApply S c .step y) := by
  obtain ⟨⟨h1, h2, h3⟩, h4⟩ := h
  show SRel ((sabaStepOps c x.1).2, exec S (sabaStepOps c x.1).1 x.2)
    ((sabaStepOps c y.1).2, exec S (sabaStepOps c y.1).1 y.2)
  rw [← sabaStepOps_initF c x.1, ← sabaStepOps_initF c y.1, ← h1]
  have hg := initF_allocated x.1
  generalize initF x.1 = g at *
  have hd := saba_step_pj_determined c hs g hg h4
  have ha : agree ⟨true, g.isSync, g.isSync, false, false, false⟩ x.2 y.2 :=
    agree_pj_posvel _ h2 h3
  have := agree_exec S (sabaStepOps c g).1 _ _ _ ha
  refine ⟨⟨rfl, this.1 hd, ?_⟩, ?_⟩ <;> rw [sabaStepOps_unsafe c hs g hg h4] <;> simp [initF]

theorem srel_sync (S : Sem T PJ X V A) (c : SabaConfig) (hk : c.keep = true)
    (x : Flags × St PJ X V A) (hx : (initF x.1).isSync = false → (initF x.1).recalc = false) :
    SRel x (sabaApply S c .synchronize x) := by
  show SRel x ((sabaSyncOps c x.1).2, exec S (sabaSyncOps c x.1).1 x.2)
  refine ⟨⟨?_, ?_, ?_⟩, hx⟩
  · rw [sabaSyncOps_keep c hk]
  · exact (saba_exec_sync_keep_pj S c hk x.1 x.2).symm
  · intro hh
    rw [initF_isSync'] at hh
    rw [sabaSyncOps_keep c hk]; simp only [hh, if_true]
    cases c.copyInside <;> exact ⟨rfl, rfl⟩
where initF_isSync' : (initF x.1).isSync = x.1.isSync := by unfold initF; split <;> rfl

theorem srel_sync_obs (S : Sem T PJ X V A) (c : SabaConfig) (hk : c.keep = true)
    {x y : Flags × St PJ X V A} (h : SRel x y) (hxy : x.1.isSync = y.1.isSync) :
    (sabaApply S c .synchronize x).2.pj = (sabaApply S c .synchronize y).2.pj ∧
    (sabaApply S c .synchronize x).2.pos = (sabaApply S c .synchronize y).2.pos ∧
    (sabaApply S c .synchronize x).2.vel = (sabaApply S c .synchronize y).2.vel := by
  show (exec S (sabaSyncOps c x.1).1 x.2).pj = (exec S (sabaSyncOps c y.1).1 y.2).pj ∧
    (exec S (sabaSyncOps c x.1).1 x.2).pos = (exec S (sabaSyncOps c y.1).1 y.2).pos ∧
    (exec S (sabaSyncOps c x.1).1 x.2).vel = (exec S (sabaSyncOps c y.1).1 y.2).vel
  have hi : (initF x.1).isSync = x.1.isSync := by unfold initF; split <;> rfl
  have e : (sabaSyncOps c x.1).1 = (sabaSyncOps c y.1).1 := by
    rw [sabaSyncOps_keep c hk, sabaSyncOps_keep c hk, hxy]
  rw [← e]
  cases hs : x.1.isSync
  · have := agree_exec S (sabaSyncOps c x.1).1 _ _ _ (agree_pj h.1.2.1)
    have hp := saba_sync_posvel c hk x.1 hs ⟨true, false, false, false, false, false⟩ rfl
    exact ⟨this.1 hp.1, this.2.1 hp.2.1, this.2.2.1 hp.2.2⟩
  · rw [sabaSyncOps_keep c hk]; simp only [hs, if_true]
    have := h.1.2.2 (by rw [hi]; exact hs)
    cases c.copyInside <;> exact ⟨h.1.2.1, this.1, this.2⟩

theorem srel_run (S : Sem T PJ X V A) (c : SabaConfig) (hk : c.keep = true) (hs : c.safe = false)
    (σ : List (Op (X × V))) (hσ : ∀ o ∈ σ, o.benign = true) (x y : Flags × St PJ X V A)
    (h : SRel x y) : SRel (sabaRun S c σ x) (sabaRun S c (σ.filter Op.isStep) y) := by
  induction σ generalizing x y with
  | nil => exact h
  | cons o os ih =>
    have hos : ∀ o ∈ os, o.benign = true := fun o ho => hσ o (List.mem_cons_of_mem _ ho)
    have ho := hσ o List.mem_cons_self
    cases o with
    | step =>
      simp only [List.filter, Op.isStep, sabaRun]
      exact ih hos _ _ (srel_step S c hs h)
    | synchronize =>
      simp only [List.filter, Op.isStep, sabaRun]
      exact ih hos _ _ ((srel_sync S c hk x h.2).symm.trans h)
    | read =>
      simp only [List.filter, Op.isStep, sabaRun]
      exact ih hos _ _ h
    | setRecalc => simp [Op.benign] at ho
    | poke v => simp [Op.benign] at ho

def Op.notSetRecalc {X} : Op X → Bool | .setRecalc => false | _ => true

theorem srel_poke (S : Sem T PJ X V A) (c : SabaConfig) (v : X × V) {x y : Flags × St PJ X V A}
    (h : SRel x y) : SRel (sabaApply S c (.poke v) x) (sabaApply S c (.poke v) y) :=
  ⟨⟨h.1.1, h.1.2.1, fun _ => ⟨rfl, rfl⟩⟩, h.2⟩

/-- SABA: the interleaving theorem with particle edits in the alphabet (not `setRecalc`: SABA
    recalculates from unsynchronised particles, see `SRel`) -/
theorem srel_run_all (S : Sem T PJ X V A) (c : SabaConfig) (hk : c.keep = true) (hs : c.safe = false)
    (σ : List (Op (X × V))) (hσ : ∀ o ∈ σ, Op.notSetRecalc o = true) (x y : Flags × St PJ X V A)
    (h : SRel x y) : SRel (sabaRun S c σ x) (sabaRun S c (σ.filter Op.isKept) y) := by
  induction σ generalizing x y with
  | nil => exact h
  | cons o os ih =>
    have hos : ∀ o ∈ os, Op.notSetRecalc o = true := fun o ho => hσ o (List.mem_cons_of_mem _ ho)
    have ho := hσ o List.mem_cons_self
    cases o with
    | step =>
      simp only [List.filter, Op.isKept, sabaRun]
      exact ih hos _ _ (srel_step S c hs h)
    | synchronize =>
      simp only [List.filter, Op.isKept, sabaRun]
      exact ih hos _ _ ((srel_sync S c hk x h.2).symm.trans h)
    | read =>
      simp only [List.filter, Op.isKept, sabaRun]
      exact ih hos _ _ h
    | setRecalc => simp [Op.notSetRecalc] at ho
    | poke v =>
      simp only [List.filter, Op.isKept, sabaRun]
      exact ih hos _ _ (srel_poke S c v h)

end RV.Sync
