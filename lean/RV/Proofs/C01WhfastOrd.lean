import RV.Proofs.C01Whfast
/- C01 / WHFast: advertised generalised orders, Jacobi coordinates -/
namespace RV.C01.Whfast
open RV.C01 RV.C01.Gen RV.C01.Adv

/-- `ε·dt^{k+1}` for a first corrector of order `k` (quadrature form: all words with one letter `B` up to length `k+1`),
    `ε²·dt²` for the default kernel, `ε²·dt⁴` for the modified-kick, composition and lazy kernels once a corrector removed
    `ε·dt²`: all words with two or three letters `B` up to length 4 -/
theorem order_k01 : ∀ kern ∈ [0, 1], ∀ corr ∈ [0, 3, 5, 7, 11, 17], ∀ s ∈ stepOf (0, kern, corr, 0),
    Quadrature s ((whfast kern corr).getD 1 0) tolWH ∧ WordOrder s (whfastWords kern corr) κWH tolWH := by
  decide +kernel

end RV.C01.Whfast
