import RV.Proofs.Field
import RV.Model.Frame
import Mathlib.Algebra.Order.Field.Basic
import Mathlib.Algebra.BigOperators.Group.List.Basic
import Mathlib.Tactic.Linarith
import Mathlib.Tactic.Positivity
import Mathlib.Tactic.NormNum
/- helper lemmas for the frame part of RV/Props/C20.lean -/
set_option linter.unusedTactic false
set_option linter.unreachableTactic false
set_option linter.unnecessarySeqFocus false
set_option linter.unusedVariables false
set_option linter.unusedSimpArgs false
set_option linter.unusedSectionVars false
namespace RV.Frame
open RV

section
variable {K : Type} [Field K] [LinearOrder K]

/-- exact-arithmetic instance of the ordered operation class: the order of the field -/
instance exactO : ScalarO K where
  toScalar := fieldScalar
  lt a b := decide (a < b)
  le a b := decide (a ≤ b)

@[simp] theorem o_lt (a b : K) : ScalarO.lt a b = decide (a < b) := rfl
@[simp] theorem o_le (a b : K) : ScalarO.le a b = decide (a ≤ b) := rfl

/-- total mass -/
def msum (l : List (K × K)) : K := (l.map (fun p => p.1)).sum
/-- mass-weighted coordinate sum -/
def mxsum (l : List (K × K)) : K := (l.map (fun p => p.1 * p.2)).sum

@[simp] theorem msum_nil : msum ([] : List (K × K)) = 0 := rfl
@[simp] theorem mxsum_nil : mxsum ([] : List (K × K)) = 0 := rfl
@[simp] theorem msum_cons (p : K × K) (l : List (K × K)) : msum (p :: l) = p.1 + msum l := by
  simp [msum]
@[simp] theorem mxsum_cons (p : K × K) (l : List (K × K)) : mxsum (p :: l) = p.1 * p.2 + mxsum l := by
  simp [mxsum]
end

section
variable {K : Type} [Field K] [LinearOrder K] [IsStrictOrderedRing K]

theorem msum_nonneg (l : List (K × K)) (h : ∀ p ∈ l, 0 ≤ p.1) : 0 ≤ msum l := by
  induction l with
  | nil => simp
  | cons a r ih =>
    rw [msum_cons]
    have := h a (by simp)
    have := ih (fun p hp => h p (by simp [hp]))
    linarith

/-- the running-mean recurrence of `reb_particle_com_of_pair`, from any consistent state -/
theorem com_fold (M X : K) (ps : List (K × K)) (hM : 0 ≤ M) (h0 : M = 0 → X = 0)
    (hm : ∀ p ∈ ps, 0 ≤ p.1) :
    ps.foldl comPair (M, X) =
      (M + msum ps, if 0 < M + msum ps then (X * M + mxsum ps) / (M + msum ps) else 0) := by
  induction ps generalizing M X with
  | nil =>
    simp only [List.foldl_nil, msum_nil, mxsum_nil, add_zero]
    rcases lt_or_eq_of_le hM with hpos | hz
    · rw [if_pos hpos]; congr 1; field_simp
    · rw [if_neg (by rw [← hz]; exact lt_irrefl _), h0 hz.symm]
  | cons a r ih =>
    obtain ⟨m, x⟩ := a
    have hm0 : 0 ≤ m := hm (m, x) (by simp)
    have hr : ∀ p ∈ r, 0 ≤ p.1 := fun p hp => hm p (by simp [hp])
    rw [List.foldl_cons]
    by_cases hpos : 0 < M + m
    · have e : comPair (M, X) (m, x) = (M + m, (X * M + x * m) / (M + m)) := by
        simp only [comPair, o_lt, sc_zero, sc_hadd, sc_hmul, sc_hdiv]
        rw [if_pos (by simpa using hpos)]
      rw [e, ih (M + m) _ (le_of_lt hpos) (fun h => absurd h (ne_of_gt hpos)) hr]
      have hne : M + m ≠ 0 := ne_of_gt hpos
      simp only [msum_cons, mxsum_cons]
      have e1 : M + m + msum r = M + (m + msum r) := by ring
      have e2 : (X * M + x * m) / (M + m) * (M + m) + mxsum r = X * M + (m * x + mxsum r) := by
        field_simp; ring
      rw [e1, e2]
    · have hz : M + m = 0 := le_antisymm (not_lt.mp hpos) (by linarith)
      have hMz : M = 0 := by linarith
      have hmz : m = 0 := by linarith
      have e : comPair (M, X) (m, x) = (0, 0) := by
        simp only [comPair, o_lt, sc_zero, sc_hadd, sc_hmul, sc_hdiv]
        rw [if_neg (by simpa using hpos), hMz, hmz]; simp
      rw [e, ih 0 0 (le_refl _) (fun _ => rfl) hr]
      simp only [msum_cons, mxsum_cons, hMz, hmz]
      simp

/-- `reb_simulation_com` in closed form (all masses non-negative) -/
theorem com_closed (ps : List (K × K)) (hm : ∀ p ∈ ps, 0 ≤ p.1) :
    com ps = (msum ps, if 0 < msum ps then mxsum ps / msum ps else 0) := by
  have := com_fold (0 : K) 0 ps (le_refl _) (fun _ => rfl) hm
  simp only [zero_add, mul_zero] at this
  simpa only [com, sc_zero] using this

theorem mxsum_shift (l : List (K × K)) (c : K) :
    mxsum (l.map (fun p => (p.1, p.2 - c))) = mxsum l - c * msum l := by
  induction l with
  | nil => simp
  | cons p r ih => simp only [List.map_cons, mxsum_cons, msum_cons, ih]; ring

theorem msum_shift (l : List (K × K)) (f : K × K → K) :
    msum (l.map (fun p => (p.1, f p))) = msum l := by
  induction l with
  | nil => simp
  | cons p r ih => simp only [List.map_cons, msum_cons, ih]

end

/-! ### heliocentric shift, imul / iadd / isub -/
section
variable {K : Type} [Field K] [LinearOrder K]

theorem moveToHel_cons (m0 x0 : K) (r : List (K × K)) :
    moveToHel ((m0, x0) :: r) = (m0, 0) :: r.map (fun p => (p.1, p.2 - x0)) := by
  simp [moveToHel]

theorem zipWith_sub_add (xs ys : List K) (h : xs.length = ys.length) :
    List.zipWith (fun x y => x - y) (List.zipWith (fun x y => x + y) xs ys) ys = xs := by
  induction xs generalizing ys with
  | nil => simp
  | cons a r ih =>
    cases ys with
    | nil => simp at h
    | cons b t =>
      simp only [List.zipWith_cons_cons, List.length_cons, add_left_inj] at h ⊢
      rw [ih t h]; simp

theorem zipWith_add_sub (xs ys : List K) (h : xs.length = ys.length) :
    List.zipWith (fun x y => x + y) (List.zipWith (fun x y => x - y) xs ys) ys = xs := by
  induction xs generalizing ys with
  | nil => simp
  | cons a r ih =>
    cases ys with
    | nil => simp at h
    | cons b t =>
      simp only [List.zipWith_cons_cons, List.length_cons, add_left_inj] at h ⊢
      rw [ih t h]; simp

end

/-! ### sums and folds -/
section
variable {K : Type} [Field K]

theorem foldl_eq_sum {α : Type} (step : K → α → K) (g : α → K) (h : ∀ s r, step s r = s + g r)
    (l : List α) (s0 : K) : l.foldl step s0 = s0 + (l.map g).sum := by
  induction l generalizing s0 with
  | nil => simp
  | cons a r ih => rw [List.foldl_cons, ih, h]; simp [add_assoc]

theorem sumBy_eq {α : Type} [LinearOrder K] (f : α → K) (l : List α) : sumBy f l = (l.map f).sum := by
  unfold sumBy
  rw [foldl_eq_sum (fun a r => a + f r) f (fun s r => by simp) l]
  simp

/-! ### dual numbers `K[ε]/(ε²)`: the ε-coefficient of a rational expression evaluated on
    `x + ε dx` is its directional derivative -/
structure Dual (K : Type) where
  re : K
  eps : K

namespace Dual
def add (a b : Dual K) : Dual K := ⟨a.re + b.re, a.eps + b.eps⟩
def sub (a b : Dual K) : Dual K := ⟨a.re - b.re, a.eps - b.eps⟩
def mul (a b : Dual K) : Dual K := ⟨a.re * b.re, a.re * b.eps + a.eps * b.re⟩
/-- quotient in `K[ε]/(ε²)` (for `b.re ≠ 0`) -/
def div (a b : Dual K) : Dual K := ⟨a.re / b.re, (a.eps * b.re - a.re * b.eps) / (b.re * b.re)⟩
def zero : Dual K := ⟨0, 0⟩
def sum (l : List (Dual K)) : Dual K := l.foldr add zero

/-- `div` is the quotient: `(a / b) * b = a` whenever the real part of `b` is invertible -/
theorem div_mul_cancel (a b : Dual K) (h : b.re ≠ 0) : mul (div a b) b = a := by
  cases a; cases b
  simp only [mul, div] at h ⊢
  congr 1 <;> field_simp <;> ring

theorem sum_re (l : List (Dual K)) : (sum l).re = (l.map (·.re)).sum := by
  induction l with
  | nil => simp [sum, zero]
  | cons a r ih => simp only [sum, List.foldr_cons, add, List.map_cons, List.sum_cons] at ih ⊢; rw [ih]

theorem sum_eps (l : List (Dual K)) : (sum l).eps = (l.map (·.eps)).sum := by
  induction l with
  | nil => simp [sum, zero]
  | cons a r ih => simp only [sum, List.foldr_cons, add, List.map_cons, List.sum_cons] at ih ⊢; rw [ih]
end Dual

/-- centre of mass `Σ m̃ x̃ / Σ m̃` of the system `(m + ε dm, x + ε dx)` over the dual numbers -/
def comDual (rows : List (Row1 K)) : Dual K :=
  Dual.div (Dual.sum (rows.map (fun r => Dual.mul ⟨r.m, r.dm⟩ ⟨r.x, r.dx⟩)))
           (Dual.sum (rows.map (fun r => (⟨r.m, r.dm⟩ : Dual K))))

def rowsMass (rows : List (Row1 K)) : K := (rows.map (·.m)).sum

theorem sum_lin3 {α : Type} (l : List α) (f1 f2 f3 : α → K) (c1 c2 c3 : K) :
    (l.map (fun r => c1 * f1 r + c2 * f2 r + c3 * f3 r)).sum =
      c1 * (l.map f1).sum + c2 * (l.map f2).sum + c3 * (l.map f3).sum := by
  induction l with
  | nil => simp
  | cons a r ih => simp only [List.map_cons, List.sum_cons, ih]; ring

theorem sum_add2 {α : Type} (l : List α) (f1 f2 : α → K) :
    (l.map (fun r => f1 r + f2 r)).sum = (l.map f1).sum + (l.map f2).sum := by
  induction l with
  | nil => simp
  | cons a r ih => simp only [List.map_cons, List.sum_cons, ih]; ring

end

section
variable {K : Type} [Field K] [LinearOrder K]

/-- the first-order `com_shift` of `reb_simulation_move_to_com` is the ε-coefficient of the
    centre of mass over the dual numbers, i.e. the derivative of the centre of mass along
    the variation -/
theorem shift1_eq_dual (rows : List (Row1 K)) (hM : rowsMass rows ≠ 0) :
    shift1 (rowsMass rows) rows = (comDual rows).eps := by
  unfold shift1
  rw [sumBy_eq]
  set M := rowsMass rows with hMd
  set dm := (rows.map (fun r => r.dm)).sum with hdm
  rw [foldl_eq_sum (shift1Step M dm)
    (fun r => (1 / M) * (r.m * r.dx) + (1 / M) * (r.x * r.dm) + (-(dm / (M * M))) * (r.x * r.m))
    (fun s r => by simp only [shift1Step, sc_hadd, sc_hsub, sc_hmul, sc_hdiv]; field_simp; ring)]
  rw [sum_lin3]
  simp only [comDual, Dual.div, Dual.sum_re, Dual.sum_eps, List.map_map, Function.comp_def, Dual.mul,
    sc_zero, zero_add]
  rw [sum_add2]
  have e1 : (rows.map (fun r : Row1 K => r.m)).sum = M := rfl
  have e2 : (rows.map (fun r : Row1 K => r.dm)).sum = dm := rfl
  have e3 : (rows.map (fun r : Row1 K => r.m * r.x)).sum = (rows.map (fun r : Row1 K => r.x * r.m)).sum := by
    congr 1; apply List.map_congr_left; intro r _; ring
  have e4 : (rows.map (fun r : Row1 K => r.dm * r.x)).sum = (rows.map (fun r : Row1 K => r.x * r.dm)).sum := by
    congr 1; apply List.map_congr_left; intro r _; ring
  rw [e1, e2, e3, e4]
  field_simp
  ring

end

/-! ### second order: `K[εa, εb]/(εa², εb²)`; the εa·εb coefficient of a rational expression
    evaluated on `x + εa xa + εb xb + εa εb xab` is its mixed second derivative -/
section
variable {K : Type} [Field K]

structure D2 (K : Type) where
  c0 : K
  ca : K
  cb : K
  cab : K

namespace D2
def add (a b : D2 K) : D2 K := ⟨a.c0 + b.c0, a.ca + b.ca, a.cb + b.cb, a.cab + b.cab⟩
def mul (a b : D2 K) : D2 K :=
  ⟨a.c0 * b.c0, a.c0 * b.ca + a.ca * b.c0, a.c0 * b.cb + a.cb * b.c0,
   a.c0 * b.cab + a.ca * b.cb + a.cb * b.ca + a.cab * b.c0⟩
/-- inverse in the truncated polynomial algebra (for `b.c0 ≠ 0`) -/
def inv (b : D2 K) : D2 K :=
  ⟨1 / b.c0, -b.ca / (b.c0 * b.c0), -b.cb / (b.c0 * b.c0),
   2 * b.ca * b.cb / (b.c0 * b.c0 * b.c0) - b.cab / (b.c0 * b.c0)⟩
def div (a b : D2 K) : D2 K := mul a (inv b)
def zero : D2 K := ⟨0, 0, 0, 0⟩
def sum (l : List (D2 K)) : D2 K := l.foldr add zero

theorem div_mul_cancel (a b : D2 K) (h : b.c0 ≠ 0) : mul (div a b) b = a := by
  cases a; cases b
  simp only [mul, div, inv] at h ⊢
  congr 1 <;> field_simp <;> ring

theorem sum_c0 (l : List (D2 K)) : (sum l).c0 = (l.map (·.c0)).sum := by
  induction l with
  | nil => simp [sum, zero]
  | cons a r ih => simp only [sum, List.foldr_cons, add, List.map_cons, List.sum_cons] at ih ⊢; rw [ih]
theorem sum_ca (l : List (D2 K)) : (sum l).ca = (l.map (·.ca)).sum := by
  induction l with
  | nil => simp [sum, zero]
  | cons a r ih => simp only [sum, List.foldr_cons, add, List.map_cons, List.sum_cons] at ih ⊢; rw [ih]
theorem sum_cb (l : List (D2 K)) : (sum l).cb = (l.map (·.cb)).sum := by
  induction l with
  | nil => simp [sum, zero]
  | cons a r ih => simp only [sum, List.foldr_cons, add, List.map_cons, List.sum_cons] at ih ⊢; rw [ih]
theorem sum_cab (l : List (D2 K)) : (sum l).cab = (l.map (·.cab)).sum := by
  induction l with
  | nil => simp [sum, zero]
  | cons a r ih => simp only [sum, List.foldr_cons, add, List.map_cons, List.sum_cons] at ih ⊢; rw [ih]
end D2

/-- centre of mass `Σ m̃ x̃ / Σ m̃` with `m̃ = m + εa ma + εb mb + εa εb ddm` etc. -/
def comD2 (rows : List (Row2 K)) : D2 K :=
  D2.div (D2.sum (rows.map (fun r => D2.mul ⟨r.m, r.ma, r.mb, r.ddm⟩ ⟨r.x, r.xa, r.xb, r.ddx⟩)))
         (D2.sum (rows.map (fun r => (⟨r.m, r.ma, r.mb, r.ddm⟩ : D2 K))))

def rows2Mass (rows : List (Row2 K)) : K := (rows.map (·.m)).sum

theorem sum_mul_left {α : Type} (l : List α) (f : α → K) (c : K) :
    (l.map (fun r => c * f r)).sum = c * (l.map f).sum := by
  induction l with
  | nil => simp
  | cons a r ih => simp only [List.map_cons, List.sum_cons, ih]; ring

end

section
variable {K : Type} [Field K] [LinearOrder K]

/-- the second-order `com_shift` of `reb_simulation_move_to_com` is the εa·εb coefficient of
    the centre of mass over `K[εa, εb]/(εa², εb²)`: the mixed second derivative of the centre
    of mass along the two variations -/
theorem shift2_eq_d2 (rows : List (Row2 K)) (hM : rows2Mass rows ≠ 0) :
    shift2 (rows2Mass rows) rows = (comD2 rows).cab := by
  unfold shift2
  rw [sumBy_eq, sumBy_eq, sumBy_eq]
  set M := rows2Mass rows with hMd
  set dma := (rows.map (fun r => r.ma)).sum with hdma
  set dmb := (rows.map (fun r => r.mb)).sum with hdmb
  set ddm := (rows.map (fun r => r.ddm)).sum with hddm
  rw [foldl_eq_sum (shift2Step M dma dmb ddm)
    (fun r => (1 / M) * (r.m * r.ddx) + (1 / M) * (r.mb * r.xa) + (-(dmb / (M * M))) * (r.m * r.xa)
      + (1 / M) * (r.ma * r.xb) + (1 / M) * (r.ddm * r.x) + (-(dmb / (M * M))) * (r.ma * r.x)
      + (-(dma / (M * M))) * (r.m * r.xb) + (-(dma / (M * M))) * (r.mb * r.x)
      + (2 * dma * dmb / (M * M * M)) * (r.m * r.x) + (-(ddm / (M * M))) * (r.m * r.x))
    (fun s r => by
      simp only [shift2Step, two', sc_hadd, sc_hsub, sc_hmul, sc_hdiv, sc_ofNat]
      field_simp
      push_cast
      ring)]
  simp only [sum_add2, sum_mul_left]
  simp only [comD2, D2.div, D2.mul, D2.inv, D2.sum_c0, D2.sum_ca, D2.sum_cb, D2.sum_cab, List.map_map,
    Function.comp_def, sc_zero, zero_add, sum_add2]
  have e1 : (rows.map (fun r : Row2 K => r.m)).sum = M := rfl
  have e2 : (rows.map (fun r : Row2 K => r.ma)).sum = dma := rfl
  have e3 : (rows.map (fun r : Row2 K => r.mb)).sum = dmb := rfl
  have e4 : (rows.map (fun r : Row2 K => r.ddm)).sum = ddm := rfl
  rw [e1, e2, e3, e4]
  field_simp
  ring

end

/-! ### the frame-shift model itself on dual numbers: the ε-parts of its outputs are the derivative
    of the map, i.e. what a consistent transformation of variational particles has to be -/
section
variable {K : Type} [Field K] [LinearOrder K]

/-- operations of `K[ε]/(ε²)`; comparisons look at the real part (an infinitesimal does not change
    the branch taken) -/
instance dualScalarO : ScalarO (Dual K) where
  zero := ⟨0, 0⟩
  one := ⟨1, 0⟩
  add := Dual.add
  sub := Dual.sub
  mul := Dual.mul
  div := Dual.div
  neg a := ⟨-a.re, -a.eps⟩
  ofNat n := ⟨(n : K), 0⟩
  lt a b := decide (a.re < b.re)
  le a b := decide (a.re ≤ b.re)

/-- real particles `(m, x)` with their first-order variation `(dm, dx)` as dual numbers -/
def dualOf (r : Row1 K) : Dual K × Dual K := (⟨r.m, r.dm⟩, ⟨r.x, r.dx⟩)

theorem moveToHel_dual (rows : List (Row1 K)) :
    (moveToHel (rows.map dualOf)).map (fun p => p.2.re) = (moveToHel (rows.map (fun r => (r.m, r.x)))).map (·.2) ∧
    (moveToHel (rows.map dualOf)).map (fun p => p.2.eps) = moveToHelVar true (rows.map (·.dx)) ∧
    (moveToHel (rows.map dualOf)).map (fun p => p.1) = rows.map (fun r => (⟨r.m, r.dm⟩ : Dual K)) := by
  cases rows with
  | nil => simp [moveToHel, moveToHelVar]
  | cons a r =>
    simp only [List.map_cons, moveToHel, moveToHelVar, dualOf, if_true, List.map_map, Function.comp_def]
    refine ⟨?_, ?_, ?_⟩
    · simp only [List.cons.injEq]
      refine ⟨rfl, ?_⟩
      apply List.map_congr_left; intro b _; rfl
    · simp only [List.cons.injEq]
      refine ⟨rfl, ?_⟩
      apply List.map_congr_left; intro b _; rfl
    · trivial

theorem moveToHelVar_asfound (vars : List K) : moveToHelVar false vars = vars := by
  cases vars <;> simp [moveToHelVar]

end

section
variable {K : Type} [Field K] [LinearOrder K]

instance d2ScalarO : ScalarO (D2 K) where
  zero := ⟨0, 0, 0, 0⟩
  one := ⟨1, 0, 0, 0⟩
  add := D2.add
  sub a b := ⟨a.c0 - b.c0, a.ca - b.ca, a.cb - b.cb, a.cab - b.cab⟩
  mul := D2.mul
  div := D2.div
  neg a := ⟨-a.c0, -a.ca, -a.cb, -a.cab⟩
  ofNat n := ⟨(n : K), 0, 0, 0⟩
  lt a b := decide (a.c0 < b.c0)
  le a b := decide (a.c0 ≤ b.c0)

def d2Of (r : Row2 K) : D2 K × D2 K := (⟨r.m, r.ma, r.mb, r.ddm⟩, ⟨r.x, r.xa, r.xb, r.ddx⟩)

/-- second order: the map `x_i − x_0` is linear, so the εa·εb parts are shifted the same way -/
theorem moveToHel_d2 (rows : List (Row2 K)) :
    (moveToHel (rows.map d2Of)).map (fun p => p.2.c0) = (moveToHel (rows.map (fun r => (r.m, r.x)))).map (·.2) ∧
    (moveToHel (rows.map d2Of)).map (fun p => p.2.cab) = moveToHelVar true (rows.map (·.ddx)) ∧
    (moveToHel (rows.map d2Of)).map (fun p => p.2.ca) = moveToHelVar true (rows.map (·.xa)) := by
  cases rows with
  | nil => simp [moveToHel, moveToHelVar]
  | cons a r =>
    simp only [List.map_cons, moveToHel, moveToHelVar, d2Of, if_true, List.map_map, Function.comp_def]
    refine ⟨?_, ?_, ?_⟩ <;>
    · simp only [List.cons.injEq]
      refine ⟨rfl, ?_⟩
      apply List.map_congr_left; intro b _; rfl

end
end RV.Frame
