import RV.Proofs.GravityBasic
import Mathlib.Algebra.BigOperators.GroupWithZero.Action
/-
  Consequences of the loop-nest analysis of BASIC: the declarative pairwise sum (needs a
  prefactor symmetric in the pair and a ghost list symmetric under negation), Newton's third
  law and vanishing total torque, and the symmetry of the ghost lists boundary.c produces.
-/
set_option linter.unusedTactic false
set_option linter.unreachableTactic false
set_option linter.unnecessarySeqFocus false
set_option linter.unusedVariables false
set_option linter.unusedSimpArgs false
set_option linter.unusedSectionVars false
namespace RV.Gravity
open RV
variable {K : Type} [Field K]

/-- a ghost list that is invariant under `gb ↦ -gb` as a multiset, stated on sums -/
def GhostSymm (ghosts : List (V3 K)) : Prop :=
  ∀ G : V3 K → V3 K, (ghosts.map fun gb => G (-gb)).sum = (ghosts.map G).sum

theorem dvec_neg (x : Nat → V3 K) (gb : V3 K) (i j : Nat) : dvec x (-gb) i j = -dvec x gb j i := by
  ext <;> simp [dvec] <;> ring

theorem s2_neg (x : Nat → V3 K) (soft2 : K) (gb : V3 K) (i j : Nat) :
    s2 x soft2 (-gb) i j = s2 x soft2 gb j i := by
  simp only [s2, dvec_neg]; simp

/-- with a prefactor symmetric in the pair, what `k` receives in the `j`-role from the
    ordered pair `(j,k)` at shift `gb` is what it would receive in the `i`-role at `-gb` -/
theorem roleJ_eq_roleI (pref : K → Nat → Nat → K) (hsym : ∀ s i j, pref s i j = pref s j i)
    (soft2 : K) (m : Nat → K) (x : Nat → V3 K) (gb : V3 K) (k j : Nat) :
    roleJ pref soft2 m x gb j k = roleI pref soft2 m x (-gb) k j := by
  unfold roleJ roleI
  rw [s2_neg, dvec_neg, hsym _ k j]
  ext <;> simp <;> ring

/-- the declarative force per unit mass on `k` from source `j` seen through ghost shift `gb`:
    `-pref(|d|²+ε²)·m_j·d`, `d = x_k + gb - x_j` -/
abbrev force (pref : K → Nat → Nat → K) (soft2 : K) (m : Nat → K) (x : Nat → V3 K) (gb : V3 K)
    (k j : Nat) : V3 K := roleI pref soft2 m x gb k j

theorem list_sum_map_add {ι : Type} (l : List ι) (f g : ι → V3 K) :
    (l.map fun a => f a + g a).sum = (l.map f).sum + (l.map g).sum := by
  induction l with
  | nil => simp
  | cons a r ih => simp [ih]; abel

/-- BASIC loop nest = declarative sum, for every symmetric prefactor and symmetric ghost list -/
theorem accBasic_declarative (pref : K → Nat → Nat → K) (hsym : ∀ s i j, pref s i j = pref s j i)
    (cfg : Cfg K) (ghosts : List (V3 K)) (hg : GhostSymm ghosts) {N : Nat} (m : Nat → K)
    (x : Nat → V3 K) (hNa : cfg.nActive ≤ N) (hig : cfg.ignore ≤ 2) {k : Nat} (hk : k < N) :
    (accBasic pref cfg ghosts (mkPs N m x))[k]?
      = some ((ghosts.map fun gb => ∑ j ∈ Finset.range N,
          if Src cfg.nActive cfg.tpType cfg.ignore k j
          then force pref (cfg.soft * cfg.soft) m x gb k j else 0).sum) := by
  rw [accBasic_get pref cfg ghosts m x hNa hk]
  congr 1
  have h1 : ∀ gb, boxC pref cfg N m x gb k
      = (∑ j ∈ Finset.range N, if SrcI cfg N k j then force pref (cfg.soft * cfg.soft) m x gb k j else 0)
        + (fun g => ∑ j ∈ Finset.range N,
            if SrcJ cfg N k j then force pref (cfg.soft * cfg.soft) m x g k j else 0) (-gb) := by
    intro gb
    rw [boxC_oriented pref cfg m x gb hNa hk, Finset.sum_add_distrib]
    congr 1
    apply Finset.sum_congr rfl
    intro j _
    rw [roleJ_eq_roleI pref hsym]
  simp only [h1]
  rw [list_sum_map_add, hg (fun g => ∑ j ∈ Finset.range N,
    if SrcJ cfg N k j then force pref (cfg.soft * cfg.soft) m x g k j else 0), ← list_sum_map_add]
  congr 1
  apply List.map_congr_left
  intro gb _
  rw [← Finset.sum_add_distrib]
  apply Finset.sum_congr rfl
  intro j hj
  exact ite_add_ite_of _ _ _ _ (src_iff cfg N k j hNa hig hk (Finset.mem_range.mp hj))

/-! ### Newton's third law and total torque -/

/-- mass-weighted sum of what one loop-body execution adds, over all slots -/
theorem pairC_balanced (pref : K → Nat → Nat → K) (soft2 : K) {N : Nat} (m : Nat → K)
    (x : Nat → V3 K) (gb : V3 K) {i j : Nat} (hi : i < N) (hj : j < N) :
    ∑ k ∈ Finset.range N, m k • pairC pref soft2 m x gb true i j k = 0 := by
  unfold pairC
  simp only [smul_add, Finset.sum_add_distrib, true_and, smul_ite, smul_zero,
    Finset.sum_ite_eq, Finset.mem_range, hi, hj, if_true]
  unfold roleI roleJ
  ext <;> simp <;> ring

/-- … and the torque: zero when the pair separation is not ghost-shifted -/
theorem pairC_torque (pref : K → Nat → Nat → K) (soft2 : K) {N : Nat} (m : Nat → K)
    (x : Nat → V3 K) {i j : Nat} (hi : i < N) (hj : j < N) :
    ∑ k ∈ Finset.range N, m k • V3.cross (x k) (pairC pref soft2 m x 0 true i j k) = 0 := by
  unfold pairC
  simp only [V3.cross_add, smul_add, Finset.sum_add_distrib, true_and, apply_ite (V3.cross _),
    V3.cross_zero, smul_ite, smul_zero, Finset.sum_ite_eq, Finset.mem_range, hi, hj, if_true]
  unfold roleI roleJ
  ext <;> simp [dvec] <;> ring

theorem sum_smul_list {ι : Type} (N : Nat) (w : Nat → V3 K → V3 K)
    (hw0 : ∀ k, w k 0 = 0) (hwa : ∀ k a b, w k (a + b) = w k a + w k b)
    (l : List ι) (c : ι → Nat → V3 K)
    (h : ∀ e ∈ l, ∑ k ∈ Finset.range N, w k (c e k) = 0) :
    ∑ k ∈ Finset.range N, w k ((l.map fun e => c e k).sum) = 0 := by
  induction l with
  | nil => simp [hw0]
  | cons e r ih =>
    simp only [List.map_cons, List.sum_cons, hwa, Finset.sum_add_distrib]
    rw [h e List.mem_cons_self, ih (fun e' he' => h e' (List.mem_cons_of_mem _ he')), add_zero]

theorem sum_smul_finset (N : Nat) (w : Nat → V3 K → V3 K)
    (hw0 : ∀ k, w k 0 = 0) (hwa : ∀ k a b, w k (a + b) = w k a + w k b)
    (s : Finset Nat) (c : Nat → Nat → V3 K)
    (h : ∀ e ∈ s, ∑ k ∈ Finset.range N, w k (c e k) = 0) :
    ∑ k ∈ Finset.range N, w k (∑ e ∈ s, c e k) = 0 := by
  classical
  induction s using Finset.induction_on with
  | empty => simp [hw0]
  | insert a s ha ih =>
    simp only [Finset.sum_insert ha, hwa, Finset.sum_add_distrib]
    rw [h a (Finset.mem_insert_self a s), ih (fun e he => h e (Finset.mem_insert_of_mem he)), add_zero]

/-- any additive weighting `w` that annihilates every executed pair annihilates the box
    contribution, when every particle is active -/
theorem boxC_allactive (w : Nat → V3 K → V3 K)
    (hw0 : ∀ k, w k 0 = 0) (hwa : ∀ k a b, w k (a + b) = w k a + w k b)
    (pref : K → Nat → Nat → K) (cfg : Cfg K) {N : Nat} (m : Nat → K) (x : Nat → V3 K) (gb : V3 K)
    (hall : cfg.nActive = N)
    (hpair : ∀ i j, i < N → j < N →
      ∑ k ∈ Finset.range N, w k (pairC pref (cfg.soft * cfg.soft) m x gb true i j k) = 0) :
    ∑ k ∈ Finset.range N, w k (boxC pref cfg N m x gb k) = 0 := by
  unfold boxC
  have hempty : Finset.Ico (max cfg.nActive (startI cfg.ignore)) N = ∅ := by
    rw [Finset.Ico_eq_empty_iff]; omega
  simp only [hempty, Finset.sum_empty, add_zero]
  apply sum_smul_finset N w hw0 hwa
  intro i hi
  apply sum_smul_finset N w hw0 hwa
  intro j hj
  have := Finset.mem_Ico.mp hi
  have := Finset.mem_Ico.mp hj
  exact hpair i j (by omega) (by omega)

/-! ### ghost lists of boundary.c are symmetric -/

theorem ofInt_cast (i : Int) : (ofInt i : K) = (i : K) := by
  unfold ofInt
  rcases i with n | n
  · simp
  · have h : Int.negSucc n < 0 := Int.negSucc_lt_zero n
    simp only [h, if_true, Int.neg_negSucc, sc_ofNat, sc_neg, Int.cast_negSucc]
    congr 1

theorem list_sum_flatMap {α β : Type} (l : List α) (f : α → List β) (g : β → V3 K) :
    ((l.flatMap f).map g).sum = (l.map fun a => ((f a).map g).sum).sum := by
  induction l with
  | nil => simp
  | cons a r ih => simp [List.flatMap_cons, ih]

/-- `Σ_{i=-n..n} h(-i) = Σ_{i=-n..n} h(i)` -/
theorem ghostIdx_reflect (n : Nat) (h : Int → V3 K) :
    ((ghostIdx n).map fun i => h (-i)).sum = ((ghostIdx n).map h).sum := by
  unfold ghostIdx
  simp only [List.map_map]
  have e1 : ∀ f : Nat → V3 K, ((List.range (2 * n + 1)).map f).sum = ∑ t ∈ Finset.range (2 * n + 1), f t :=
    fun f => rfl
  rw [e1, e1]
  rw [← Finset.sum_range_reflect]
  apply Finset.sum_congr rfl
  intro t ht
  have : t < 2 * n + 1 := Finset.mem_range.mp ht
  simp only [Function.comp]
  congr 1
  simp only [Int.ofNat_eq_natCast]
  omega

theorem ghostList_symm (shifted : Bool) (bs : V3 K) (nx ny nz : Nat) :
    GhostSymm (ghostList shifted bs nx ny nz) := by
  intro G
  unfold ghostList
  simp only [list_sum_flatMap, List.map_map, Function.comp_def]
  cases shifted
  · simp [ghostbox]
  · have e : ∀ i j k : Int, -(ghostbox true bs i j k) = ghostbox true bs (-i) (-j) (-k) := by
      intro i j k
      ext <;> simp [ghostbox, ofInt_cast]
    simp only [e]
    rw [ghostIdx_reflect nx (fun i => ((ghostIdx ny).map fun j => ((ghostIdx nz).map fun k =>
      G (ghostbox true bs i (-j) (-k))).sum).sum)]
    congr 1; apply List.map_congr_left; intro i _
    rw [ghostIdx_reflect ny (fun j => ((ghostIdx nz).map fun k => G (ghostbox true bs i j (-k))).sum)]
    congr 1; apply List.map_congr_left; intro j _
    rw [ghostIdx_reflect nz (fun k => G (ghostbox true bs i j k))]

/-- no ghost boxes: the list is the single zero shift -/
theorem ghostList_zero (shifted : Bool) (bs : V3 K) : ghostList shifted bs 0 0 0 = [0] := by
  cases shifted <;> simp [ghostList, ghostIdx, ghostbox, ofInt] <;> ext <;> simp

end RV.Gravity
