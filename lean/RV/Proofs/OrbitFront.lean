import RV.Proofs.OrbitArgs
import RV.Proofs.Orbit
/-
  C11: the arithmetic of the two front ends (`frontC` = reb_particle_from_fmt_errV, `frontPy` =
  Particle.__init__) builds the same particle in exact arithmetic.
-/
set_option linter.unusedSimpArgs false
set_option linter.unusedVariables false
set_option linter.unusedSectionVars false
set_option linter.unusedTactic false
set_option linter.unreachableTactic false
namespace RV.Orbit
open RV.OrbitArgs
variable {K : Type} [Field K] [LinearOrder K] [IsStrictOrderedRing K]

/-- what is assumed of libm `pow` for the four exponents Python uses (2, 3, 0.5, 1/3) -/
structure PowSpec (L : Libm K) : Prop where
  sq : ∀ x, L.pow x 2 = x * x
  cube : ∀ x, L.pow x 3 = x * x * x
  half : ∀ x, L.pow x (1 / 2) = L.sqrt x
  third : ∀ x, L.pow x (1 / 3) = L.cbrt x

theorem libm_pow (L : Libm K) (x y : K) : @ScalarT.pow K L.orbitK.toScalarT x y = L.pow x y := rfl
theorem libm_cbrt (L : Libm K) (x : K) : @ScalarT.cbrt K L.orbitK.toScalarT x = L.cbrt x := rfl

/-- a classical plan means: at most one anomaly/longitude and not both pericentre arguments -/
theorem classical_plan_facts (p : Presence) (u pg : Bool) (pe : Peri) (lo : Lon)
    (h : cValidate stdTab p = .ok (.classical u pg pe lo)) :
    count p stdTab.long ≤ 1 ∧ ¬ (p.omega = true ∧ p.pomega = true) := by
  rw [cValidate_eq] at h
  constructor
  · by_contra hL
    have hL' : count p stdTab.long > 1 := by omega
    unfold cCore at h
    simp only [hL', if_true] at h
    repeat (first | (split at h) | (cases h))
  · intro hO
    have hO' : (p.omega && p.pomega) = true := by simp [hO.1, hO.2]
    unfold cCore at h
    simp only [flags, hO', if_true] at h
    repeat (first | (split at h) | (cases h))
theorem front_a_val (L : Libm K) (PS : PowSpec L) (G pm m P : K) :
    @ScalarT.pow K L.orbitK.toScalarT
        (@ScalarT.pow K L.orbitK.toScalarT P two * G * (pm + m) / (four * @ScalarT.pow K L.orbitK.toScalarT L.pi two)) (1 / three)
      = @ScalarT.cbrt K L.orbitK.toScalarT (P * P * G * (pm + m) / (four * L.pi * L.pi)) := by
  simp only [libm_pow, libm_cbrt, two, three, four, sc_ofNat, Nat.cast_ofNat, PS.sq, PS.third]
  congr 1; ring

theorem front_n_val (L : Libm K) (PS : PowSpec L) (x a : K) :
    @ScalarT.pow K L.orbitK.toScalarT (x / @ScalarT.fabs K L.orbitK.toScalarT (@ScalarT.pow K L.orbitK.toScalarT a three)) half
      = @ScalarT.sqrt K L.orbitK.toScalarT (x / @ScalarT.fabs K L.orbitK.toScalarT (a * a * a)) := by
  simp only [libm_pow, libm_sqrt, half, three, sc_one, sc_hdiv, sc_ofNat, Nat.cast_ofNat, PS.cube, PS.half]

theorem front_ends_same_particle (L : Libm K) (PS : PowSpec L) (v : Variant) (G t : K) (com : Part K) (g : FArgs K) :
    @frontC K L.orbitK v stdTab G t com g = @frontPy K L.orbitK v stdTab G t com g := by
  unfold frontC frontPy
  rw [← agree_std (g.presence true)]
  cases hv : cValidate stdTab (g.presence true) with
  | error e => rfl
  | ok plan =>
    cases plan with
    | cartesian => rfl
    | pal u pg lg =>
      cases ha : g.a <;>
        simp only [sc_zero, sc_one, sc_hadd, sc_hmul, sc_hdiv, libm_pi, front_a_val L PS]
    | classical u pg pe lo =>
      obtain ⟨hcnt, hperi⟩ := classical_plan_facts _ u pg pe lo hv
      have hc2 : (g.f.isSome.toNat + (g.M.isSome.toNat + (g.E.isSome.toNat + (g.l.isSome.toNat + (g.theta.isSome.toNat + (g.T.isSome.toNat + 0)))))) ≤ 1 := hcnt
      have hp2 : ¬ (g.omega.isSome = true ∧ g.pomega.isSome = true) := hperi
      clear hcnt hperi hv
      cases ha : g.a <;>
        simp only [sc_zero, sc_one, sc_hadd, sc_hmul, sc_hsub, sc_hdiv, libm_pi, front_a_val L PS, front_n_val L PS] <;>
      (rcases ho : g.omega with _ | w <;> rcases hp : g.pomega with _ | pw <;>
       rcases hf : g.f with _ | fv <;> rcases hth : g.theta with _ | thv <;> rcases hl : g.l with _ | lv <;>
       rcases hT : g.T with _ | Tv <;> rcases hM : g.M with _ | Mv <;> rcases hE : g.E with _ | Ev <;>
       simp only [ho, hp, hf, hth, hl, hT, hM, hE, Option.isSome_some, Option.isSome_none, Bool.toNat_true, Bool.toNat_false] at hc2 hp2 <;>
       first
         | omega
         | (exfalso; simpa using hp2)
         | rfl
         | simp only [front_n_val L PS])

end RV.Orbit
