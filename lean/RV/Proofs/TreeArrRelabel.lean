import RV.Proofs.TreeArrWalk
set_option linter.unusedSectionVars false
set_option linter.unusedVariables false
set_option linter.unusedSimpArgs false
namespace RV.C15
open RV RV.Tree RV.Boundary RV.TreeArr

variable {K : Type} [Field K] [LinearOrder K] [IsStrictOrderedRing K] {α : Type}

theorem leaves_relabel (f : Nat → Nat) : ∀ t : T K, leaves (relabel f t) = (leaves t).map f := by
  intro t
  induction t with
  | nil => rfl
  | leaf c g q => rfl
  | node c g n ch ih =>
    simp only [relabel, leaves, memo_eq, List.map_flatMap]
    congr 1
    funext o
    exact ih o

/-- renumbering the leaves together with the particle array keeps a tree well formed -/
theorem WF_relabel (ps ps' : Nat → Pt K) (f : Nat → Nat) : ∀ (t : T K) (c : Cell K),
    WF ps false c t → (∀ q ∈ leaves t, ps' (f q) = ps q) → WF ps' false c (relabel f t) := by
  intro t
  induction t with
  | nil => intro c _ _; trivial
  | leaf c0 g q =>
    intro c h hq
    obtain ⟨h1, h2⟩ := h
    refine ⟨h1, ?_⟩
    rw [hq q (by simp [leaves])]
    exact h2
  | node c0 g n ch ih =>
    intro c h hq
    obtain ⟨h1, h2, h3, h4, _⟩ := h
    have hl : ((List.finRange 8).flatMap fun o => leaves (relabel f (ch o))) =
        ((List.finRange 8).flatMap fun o => leaves (ch o)).map f := by
      rw [List.map_flatMap]
      congr 1
      funext o
      exact leaves_relabel f (ch o)
    simp only [relabel, memo_eq, WF, hl, List.length_map]
    refine ⟨h1, fun o => ih o _ (h2 o) (fun q hqo => hq q ?_), h3, h4, by simp⟩
    simp only [leaves, List.mem_flatMap]
    exact ⟨o, List.mem_finRange o, hqo⟩

/-- a tree only looks at the positions of the particles it holds -/
theorem WF_congr (ps ps' : Nat → Pt K) (tie : Bool) : ∀ (t : T K) (c : Cell K),
    WF ps tie c t → (∀ q ∈ leaves t, ps' q = ps q) → WF ps' tie c t := by
  intro t
  induction t with
  | nil => intro c _ _; trivial
  | leaf c0 g q =>
    intro c h hq
    obtain ⟨h1, h2⟩ := h
    refine ⟨h1, ?_⟩
    rw [hq q (by simp [leaves])]
    exact h2
  | node c0 g n ch ih =>
    intro c h hq
    obtain ⟨h1, h2, h3, h4, h5⟩ := h
    have hmem : ∀ o, ∀ q ∈ leaves (ch o), q ∈ leaves (T.node c0 g n ch) := by
      intro o q hqo
      simp only [leaves, List.mem_flatMap]
      exact ⟨o, List.mem_finRange o, hqo⟩
    refine ⟨h1, fun o => ih o _ (h2 o) (fun q hqo => hq q (hmem o q hqo)), h3, h4, ?_⟩
    intro ht o q hqo
    rw [hq q (hmem o q hqo)]
    exact h5 ht o q hqo

/-- a duplicate-free list of `n` numbers below `n` is a permutation of `0..n-1` -/
theorem perm_range_of_nodup (l : List Nat) (n : Nat) (hn : l.Nodup) (hb : ∀ x ∈ l, x < n) (hlen : l.length = n) :
    List.Perm l (List.range n) := by
  have hsub : l ⊆ List.range n := fun x hx => List.mem_range.mpr (hb x hx)
  have hsp : List.Subperm l (List.range n) := List.subperm_of_subset hn hsub
  exact hsp.perm_of_length_le (by simp [hlen])

end RV.C15
