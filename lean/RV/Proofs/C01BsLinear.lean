import RV.Proofs.C01Bs
import Mathlib.Algebra.Order.Field.Rat
import Mathlib.Tactic.Ring
import Mathlib.Tactic.Linarith
/-
  C01 / BS: the extrapolation is linear in the table, hence — with `Bs.monomials` — exact for **every** polynomial of
  degree ≤ k in the abscissa h² = (H/n)², for every row k ≤ 8 the code can reach (sequence_length = 9).
-/
set_option linter.unusedVariables false
namespace RV.C01.BsLinear
open RV.C01 RV.C01.Gbs

def lin (a : Rat) (l1 l2 : List Rat) : List Rat := List.zipWith (fun u v => u + a * v) l1 l2

theorem go_linear (a xk : Rat) (xs : List Rat) : ∀ (d1 d2 : List Rat) (C1 C2 : Rat),
    go xk xs (lin a d1 d2) (C1 + a * C2) = lin a (go xk xs d1 C1) (go xk xs d2 C2) := by
  induction xs with
  | nil => intro d1 d2 C1 C2; cases d1 <;> cases d2 <;> simp [go, lin]
  | cons xi xs ih =>
    intro d1 d2 C1 C2
    cases d1 with
    | nil => simp [go, lin]
    | cons u d1 =>
      cases d2 with
      | nil => simp [go, lin]
      | cons v d2 =>
        have hC : xi / (xi - xk) * (C1 + a * C2 - (u + a * v)) = xi / (xi - xk) * (C1 - u) + a * (xi / (xi - xk) * (C2 - v)) := by ring
        have hD : xk / (xi - xk) * (C1 + a * C2 - (u + a * v)) = xk / (xi - xk) * (C1 - u) + a * (xk / (xi - xk) * (C2 - v)) := by ring
        simp only [go, lin, List.zipWith_cons_cons]
        rw [hC, hD]
        have := ih d1 d2 (xi / (xi - xk) * (C1 - u)) (xi / (xi - xk) * (C2 - v))
        simp only [lin] at this
        rw [this]

theorem table_linear (a : Rat) (x T U : Nat → Rat) : ∀ k, table x (fun i => T i + a * U i) k = lin a (table x T k) (table x U k) := by
  intro k
  induction k with
  | zero => simp [table, lin]
  | succ k ih =>
    simp only [table]
    rw [ih, go_linear]
    simp [lin]

theorem length_go (xk : Rat) (xs : List Rat) : ∀ (ds : List Rat) (C : Rat), xs.length = ds.length → (go xk xs ds C).length = ds.length := by
  induction xs with
  | nil => intro ds C h; cases ds <;> simp_all [go]
  | cons xi xs ih =>
    intro ds C h
    cases ds with
    | nil => simp at h
    | cons d ds => simp only [go, List.length_cons]; rw [ih ds _ (by simpa using h)]

theorem length_xsDown (x : Nat → Rat) (k : Nat) : (xsDown x k).length = k + 1 := by
  induction k with
  | zero => rfl
  | succ k ih => simp [xsDown, ih]

theorem length_table (x T : Nat → Rat) (k : Nat) : (table x T k).length = k + 1 := by
  induction k with
  | zero => rfl
  | succ k ih =>
    simp only [table, List.length_cons]
    rw [length_go _ _ _ _ (by rw [length_xsDown, ih]), ih]

theorem sumL_lin (a : Rat) : ∀ (l1 l2 : List Rat), l1.length = l2.length → sumL (lin a l1 l2) = sumL l1 + a * sumL l2 := by
  intro l1
  induction l1 with
  | nil => intro l2 h; cases l2 <;> simp_all [sumL, lin]
  | cons u l1 ih =>
    intro l2 h
    cases l2 with
    | nil => simp at h
    | cons v l2 =>
      simp only [lin, List.zipWith_cons_cons, sumL]
      have := ih l2 (by simpa using h)
      simp only [lin] at this
      rw [this]; ring

/-- the extrapolated value is linear in the column of modified-midpoint results -/
theorem extrap_linear (a : Rat) (x T U : Nat → Rat) (k : Nat) :
    extrap x (fun i => T i + a * U i) k = extrap x T k + a * extrap x U k := by
  unfold extrap
  rw [table_linear, sumL_lin _ _ _ (by rw [length_table, length_table])]

/-- **exactness**: if the modified-midpoint results are a polynomial of degree ≤ k in the abscissa
    (`T i = Σ_j a_j · coeff(i)^j`, at most k+1 coefficients), row k of the extrapolation returns its value at 0 -/
theorem extrap_exact_from (k : Nat) (hk : k ∈ List.range 9) : ∀ (a : List Rat) (m : Nat), m + a.length ≤ k + 1 →
    extrap coeff (fun i => polyFrom a m (coeff i)) k = if m = 0 then a.headD 0 else 0 := by
  have hmono := (Bs.monomials k hk).1
  have hzero := (Bs.monomials k hk).2.2
  intro a
  induction a with
  | nil => intro m _; simp only [polyFrom]; rw [hzero]; simp
  | cons a0 as ih =>
    intro m hm
    simp only [polyFrom]
    rw [extrap_linear a0 coeff (fun i => polyFrom as (m + 1) (coeff i)) (fun i => coeff i ^ m) k]
    have h1 := ih (m + 1) (by simp only [List.length_cons] at hm; omega)
    rw [h1]
    have hm' : m ∈ List.range (k + 1) := by
      simp only [List.length_cons] at hm
      exact List.mem_range.mpr (by omega)
    rw [hmono m hm']
    by_cases h0 : m = 0
    · subst h0; simp
    · simp [h0]

theorem extrap_exact (k : Nat) (hk : k ∈ List.range 9) (a : List Rat) (ha : a.length ≤ k + 1) :
    extrap coeff (fun i => polyFrom a 0 (coeff i)) k = a.headD 0 := by
  have := extrap_exact_from k hk a 0 (by omega)
  simpa using this
end RV.C01.BsLinear
