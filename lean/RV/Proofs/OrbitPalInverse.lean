import RV.Proofs.OrbitPal
/-
  C11 (ii): reb_tools_particle_to_pal applied to the particle reb_particle_from_pal built returns
  (a, lambda mod 2pi, k, h, ix, iy).
-/
set_option linter.unusedSimpArgs false
set_option linter.unusedVariables false
set_option linter.unusedSectionVars false
set_option linter.unusedTactic false
namespace RV.Orbit
variable {K : Type} [Field K] [LinearOrder K] [IsStrictOrderedRing K] {L : Libm K}

theorem libm_atan2 (L : Libm K) (x y : K) : @ScalarT.atan2 K L.orbitK.toScalarT x y = L.atan2 x y := rfl

theorem particleToPal_fields (G : K) (P pr : Part K) :
    let x := P.x - pr.x; let y := P.y - pr.y; let z := P.z - pr.z
    let vx := P.vx - pr.vx; let vy := P.vy - pr.vy; let vz := P.vz - pr.vz
    let mu := G * (P.m + pr.m)
    let r := L.sqrt (x * x + y * y + z * z)
    let cx := y * vz - z * vy; let cy := z * vx - x * vz; let cz := x * vy - y * vx
    let c2 := cx * cx + cy * cy + cz * cz
    let cc := L.sqrt c2
    let chat := x * vx + y * vy + z * vz
    let e := @particleToPal K L.orbitK G P pr
    e.ix = -(L.sqrt (2 / (1 + cz / cc)) / cc) * cy ∧ e.iy = L.sqrt (2 / (1 + cz / cc)) / cc * cx ∧
    e.k = cc / mu * (vy - vz / (cc + cz) * cy) - 1 / r * (x - z / (cc + cz) * cx) ∧
    e.h = cc / mu * (-vx + vz / (cc + cz) * cx) - 1 / r * (y - z / (cc + cz) * cy) ∧
    e.a = c2 / (mu * (1 - (e.k * e.k + e.h * e.h))) ∧
    e.lambda = L.atan2 (-r * vx + r * vz * cx / (cc + cz) - e.k * chat / (2 - (1 - L.sqrt (1 - (e.k * e.k + e.h * e.h)))))
                 (r * vy - r * vz * cy / (cc + cz) + e.h * chat / (2 - (1 - L.sqrt (1 - (e.k * e.k + e.h * e.h)))))
               - chat / cc * (1 - (1 - L.sqrt (1 - (e.k * e.k + e.h * e.h)))) :=
  ⟨rfl, rfl, rfl, rfl, rfl, rfl⟩

theorem particleToPal_of_palCore (hsqrt : ∀ x, 0 ≤ x → 0 ≤ L.sqrt x ∧ L.sqrt x ^ 2 = x)
    (v : Variant) (G : K) (pr : Part K) (m a k h ix iy p q s c l iz an lam : K)
    (hcs : c ^ 2 + s ^ 2 = 1) (hp : p = k * s - h * c) (hq : q = k * c + h * s)
    (hl : (1 - l) ^ 2 = 1 - h ^ 2 - k ^ 2) (hl0 : 0 < 1 - l)
    (hiz : iz ^ 2 = 4 - ix ^ 2 - iy ^ 2) (hiz0 : 0 < iz)
    (han : an ^ 2 = G * (m + pr.m) / a) (han0 : 0 < an) (ha : 0 < a) (hmu : 0 < G * (m + pr.m))
    (T : TrigSpec L) (hs : s = L.sin (lam + p)) (hc : c = L.cos (lam + p))
    (hatan2 : ∀ t rho : K, 0 < rho → -L.pi < t → t ≤ L.pi → L.atan2 (rho * L.sin t) (rho * L.cos t) = t)
    (hlam : 0 ≤ lam + p ∧ lam + p < 4 * L.pi) :
    let e := @particleToPal K L.orbitK G (fromPalCore pr m a k h ix iy p q s c l iz an) pr
    e.h = h ∧ e.k = k ∧ e.ix = ix ∧ e.iy = iy ∧ e.a = a ∧ ∃ n : ℤ, e.lambda = lam - n * (2 * L.pi) := by
  -- denominators
  have hq1 : 0 < 1 - q := by
    have h1 : q ^ 2 ≤ (k ^ 2 + h ^ 2) * (c ^ 2 + s ^ 2) := by
      rw [hq]; nlinarith [sq_nonneg (k * s - h * c)]
    rw [hcs, mul_one] at h1
    have h2 : k ^ 2 + h ^ 2 < 1 := by nlinarith
    nlinarith
  have hD2 : 0 < 2 - l := by linarith
  have II := pal_I1 c s l h k hcs hl
  dsimp only at II
  rw [← hp, ← hq] at II
  obtain ⟨I1, I2, I4, I5, I6⟩ := II
  have JJ := pal_inplane_scaled a an l (1 - q) (2 - l)
    (c * (2 - l) + p * h - k * (2 - l)) (s * (2 - l) - p * k - h * (2 - l))
    (-s * (2 - l) + q * h) (c * (2 - l) - q * k) k h q (ne_of_gt ha) (ne_of_gt han0) (ne_of_gt hq1) (ne_of_gt hD2)
    I1 I2 I4 I5 (by rw [I6])
  dsimp only at JJ
  obtain ⟨J1, J2, J4, J5, J6⟩ := JJ
  have EE := palCore_rel pr m a k h ix iy p q s c l iz an
  dsimp only at EE
  obtain ⟨e1, e2, e3, e4, e5, e6, e7⟩ := EE
  -- name the in-plane quantities
  have hxi : a * (c + p / (2 - l) * h - k) = a * (c * (2 - l) + p * h - k * (2 - l)) / (2 - l) := by
    field_simp
  have heta : a * (s - p / (2 - l) * k - h) = a * (s * (2 - l) - p * k - h * (2 - l)) / (2 - l) := by
    field_simp
  have hdxi : an / (1 - q) * (-s + q / (2 - l) * h) = an / (1 - q) * ((-s * (2 - l) + q * h) / (2 - l)) := by
    field_simp
  have hdeta : an / (1 - q) * (c - q / (2 - l) * k) = an / (1 - q) * ((c * (2 - l) - q * k) / (2 - l)) := by
    field_simp
  simp only [hxi, heta, hdxi, hdeta] at e1 e2 e3 e4 e5 e6
  -- further in-plane identities: r.v, and the two arguments of the atan2
  have hcs' : c ^ 2 + s ^ 2 - 1 = 0 := by linear_combination hcs
  have hl' : (1 - l) ^ 2 - 1 + h ^ 2 + k ^ 2 = 0 := by linear_combination hl
  have K1 : (c * (2 - l) + p * h - k * (2 - l)) * (-s * (2 - l) + q * h) + (s * (2 - l) - p * k - h * (2 - l)) * (c * (2 - l) - q * k)
      = p * (2 - l) ^ 2 * (1 - q) := by
    rw [hp, hq]
    linear_combination (h*k*(h^2 + k^2 + l^2 - 2*l)) * hcs' + (-2*c^2*h*k - c*h^2*s + c*k^2*s + h*k) * hl'
  have K2 : -(-s * (2 - l) + q * h) - k * p = s * (1 - l) * (2 - l) := by
    rw [hp, hq]; linear_combination (-s) * hl'
  have K3 : (c * (2 - l) - q * k) + h * p = c * (1 - l) * (2 - l) := by
    rw [hp, hq]; linear_combination (-c) * hl'
  have hD2ne : (2 : K) - l ≠ 0 := ne_of_gt hD2
  have hq1ne : (1 : K) - q ≠ 0 := ne_of_gt hq1
  have M1 : a * (c * (2 - l) + p * h - k * (2 - l)) / (2 - l) * (an / (1 - q) * ((-s * (2 - l) + q * h) / (2 - l)))
      + a * (s * (2 - l) - p * k - h * (2 - l)) / (2 - l) * (an / (1 - q) * ((c * (2 - l) - q * k) / (2 - l))) = a * an * p := by
    field_simp; linear_combination K1
  have M2 : -(a * (1 - q)) * (an / (1 - q) * ((-s * (2 - l) + q * h) / (2 - l))) - k * (a * an * p) / (2 - l)
      = a * an * (1 - l) * s := by
    field_simp; linear_combination K2
  have M3 : a * (1 - q) * (an / (1 - q) * ((c * (2 - l) - q * k) / (2 - l))) + h * (a * an * p) / (2 - l)
      = a * an * (1 - l) * c := by
    field_simp; linear_combination K3
  generalize a * (c * (2 - l) + p * h - k * (2 - l)) / (2 - l) = xi at *
  generalize a * (s * (2 - l) - p * k - h * (2 - l)) / (2 - l) = eta at *
  generalize an / (1 - q) * ((-s * (2 - l) + q * h) / (2 - l)) = dxi at *
  generalize an / (1 - q) * ((c * (2 - l) - q * k) / (2 - l)) = deta at *
  have hCpos : 0 < xi * deta - eta * dxi := by rw [J2]; exact mul_pos (mul_pos ha han0) hl0
  have RR := pal_rotation xi eta dxi deta ix iy iz hiz (ne_of_gt hCpos) (ne_of_gt hiz0)
  dsimp only at RR
  obtain ⟨r1, r2, r3, r4, r5, r6, r7, r8, r9, r10, r11⟩ := RR
  simp only [← e1, ← e2, ← e3, ← e4, ← e5, ← e6] at r1 r2 r3 r4 r5 r6 r7 r8 r9 r10 r11
  have FF := @particleToPal_fields K _ _ _ L G (fromPalCore pr m a k h ix iy p q s c l iz an) pr
  dsimp only at FF ⊢
  generalize @particleToPal K L.orbitK G (fromPalCore pr m a k h ix iy p q s c l iz an) pr = ee at *
  generalize fromPalCore pr m a k h ix iy p q s c l iz an = P at *
  obtain ⟨f1, f2, f3, f4, f5, f6⟩ := FF
  generalize hCdef : xi * deta - eta * dxi = C at *
  have hC : C = a * an * (1 - l) := J2
  have hCne : C ≠ 0 := ne_of_gt hCpos
  have hane : a ≠ 0 := ne_of_gt ha
  have hanne : an ≠ 0 := ne_of_gt han0
  have hizne : iz ≠ 0 := ne_of_gt hiz0
  have hl0ne : (1 : K) - l ≠ 0 := ne_of_gt hl0
  have hrr : L.sqrt ((P.x - pr.x) * (P.x - pr.x) + (P.y - pr.y) * (P.y - pr.y) + (P.z - pr.z) * (P.z - pr.z)) = a * (1 - q) := by
    apply sqrt_sq_pos hsqrt _ _ (le_of_lt (mul_pos ha hq1))
    rw [r1, J1]; ring
  have hcc : L.sqrt (((P.y - pr.y) * (P.vz - pr.vz) - (P.z - pr.z) * (P.vy - pr.vy)) * ((P.y - pr.y) * (P.vz - pr.vz) - (P.z - pr.z) * (P.vy - pr.vy)) +
      ((P.z - pr.z) * (P.vx - pr.vx) - (P.x - pr.x) * (P.vz - pr.vz)) * ((P.z - pr.z) * (P.vx - pr.vx) - (P.x - pr.x) * (P.vz - pr.vz)) +
      ((P.x - pr.x) * (P.vy - pr.vy) - (P.y - pr.y) * (P.vx - pr.vx)) * ((P.x - pr.x) * (P.vy - pr.vy) - (P.y - pr.y) * (P.vx - pr.vx))) = C :=
    sqrt_sq_pos hsqrt _ _ (le_of_lt hCpos) r6
  have hmu' : G * (P.m + pr.m) = an ^ 2 * a := by rw [e7, han]; field_simp
  simp only [hrr, hcc, hmu'] at f1 f2 f3 f4 f5 f6
  have hfac : L.sqrt (2 / (1 + ((P.x - pr.x) * (P.vy - pr.vy) - (P.y - pr.y) * (P.vx - pr.vx)) / C)) = 2 / iz := by
    apply sqrt_sq_pos hsqrt _ _ (le_of_lt (div_pos (by norm_num) hiz0))
    have : 1 + ((P.x - pr.x) * (P.vy - pr.vy) - (P.y - pr.y) * (P.vx - pr.vx)) / C = iz ^ 2 / 2 := by
      have : 1 + ((P.x - pr.x) * (P.vy - pr.vy) - (P.y - pr.y) * (P.vx - pr.vx)) / C
          = (C + ((P.x - pr.x) * (P.vy - pr.vy) - (P.y - pr.y) * (P.vx - pr.vx))) / C := by field_simp
      rw [this, r7]; field_simp
    rw [this]; field_simp
  have Hk : ee.k = k := by rw [f3, r10, r8, hC]; exact J4
  have Hh : ee.h = h := by rw [f4, r11, r9, hC]; exact J5
  have Hix : ee.ix = ix := by rw [f1, hfac, r4]; field_simp
  have Hiy : ee.iy = iy := by rw [f2, hfac, r3]; field_simp
  have he2 : 1 - (ee.k * ee.k + ee.h * ee.h) = (1 - l) * (1 - l) := by rw [Hk, Hh]; linear_combination -hl
  have Ha : ee.a = a := by
    rw [f5, he2, r6, hC]; field_simp
  have hsq : L.sqrt (1 - (ee.k * ee.k + ee.h * ee.h)) = 1 - l := sqrt_sq_pos hsqrt _ _ (le_of_lt hl0) he2
  refine ⟨Hh, Hk, Hix, Hiy, Ha, ?_⟩
  -- lambda
  have hchat : (P.x - pr.x) * (P.vx - pr.vx) + (P.y - pr.y) * (P.vy - pr.vy) + (P.z - pr.z) * (P.vz - pr.vz) = a * an * p := by
    have hiz' : iz ^ 2 - 4 + ix ^ 2 + iy ^ 2 = 0 := by linear_combination hiz
    rw [e1, e2, e3, e4, e5, e6, ← M1]
    linear_combination ((eta * ix - xi * iy) * (deta * ix - dxi * iy) / 4) * hiz'
  obtain ⟨t, j, t0, t1, te, tc, ts⟩ := T.reduce (lam + p) hlam.1 hlam.2
  rw [hsq, hchat, Hk, Hh] at f6
  have hl2 : (2 : K) - (1 - (1 - l)) = 2 - l := by ring
  have hl3 : (1 : K) - (1 - (1 - l)) = 1 - l := by ring
  rw [hl2, hl3] at f6
  have A1 : -(a * (1 - q)) * (P.vx - pr.vx) + a * (1 - q) * (P.vz - pr.vz) * ((P.y - pr.y) * (P.vz - pr.vz) - (P.z - pr.z) * (P.vy - pr.vy)) /
      (C + ((P.x - pr.x) * (P.vy - pr.vy) - (P.y - pr.y) * (P.vx - pr.vx))) - k * (a * an * p) / (2 - l) = C * L.sin t := by
    have : -(a * (1 - q)) * (P.vx - pr.vx) + a * (1 - q) * (P.vz - pr.vz) * ((P.y - pr.y) * (P.vz - pr.vz) - (P.z - pr.z) * (P.vy - pr.vy)) /
        (C + ((P.x - pr.x) * (P.vy - pr.vy) - (P.y - pr.y) * (P.vx - pr.vx)))
        = a * (1 - q) * (-(P.vx - pr.vx) + (P.vz - pr.vz) / (C + ((P.x - pr.x) * (P.vy - pr.vy) - (P.y - pr.y) * (P.vx - pr.vx))) *
            ((P.y - pr.y) * (P.vz - pr.vz) - (P.z - pr.z) * (P.vy - pr.vy))) := by ring
    rw [this, r11, ts, ← hs, hC, ← M2]; ring
  have A2 : a * (1 - q) * (P.vy - pr.vy) - a * (1 - q) * (P.vz - pr.vz) * ((P.z - pr.z) * (P.vx - pr.vx) - (P.x - pr.x) * (P.vz - pr.vz)) /
      (C + ((P.x - pr.x) * (P.vy - pr.vy) - (P.y - pr.y) * (P.vx - pr.vx))) + h * (a * an * p) / (2 - l) = C * L.cos t := by
    have : a * (1 - q) * (P.vy - pr.vy) - a * (1 - q) * (P.vz - pr.vz) * ((P.z - pr.z) * (P.vx - pr.vx) - (P.x - pr.x) * (P.vz - pr.vz)) /
        (C + ((P.x - pr.x) * (P.vy - pr.vy) - (P.y - pr.y) * (P.vx - pr.vx)))
        = a * (1 - q) * ((P.vy - pr.vy) - (P.vz - pr.vz) / (C + ((P.x - pr.x) * (P.vy - pr.vy) - (P.y - pr.y) * (P.vx - pr.vx))) *
            ((P.z - pr.z) * (P.vx - pr.vx) - (P.x - pr.x) * (P.vz - pr.vz))) := by ring
    rw [this, r10, tc, ← hc, hC, ← M3]
  rw [A1, A2, hatan2 t C hCpos t0 t1] at f6
  refine ⟨j, ?_⟩
  rw [f6, te, hC]; field_simp; ring

/-- `reb_tools_particle_to_pal ∘ reb_particle_from_pal`, all six Pal elements (λ modulo 2π) -/
theorem particleToPal_of_fromPal (T : TrigSpec L)
    (hsqrt : ∀ x, 0 ≤ x → 0 ≤ L.sqrt x ∧ L.sqrt x ^ 2 = x) (hfabs : ∀ x, 0 ≤ x → L.fabs x = x)
    (hatan2 : ∀ t rho : K, 0 < rho → -L.pi < t → t ≤ L.pi → L.atan2 (rho * L.sin t) (rho * L.cos t) = t)
    (v : Variant) (G : K) (pr : Part K) (m a lam k h ix iy : K)
    (hK : (@solveKeplerPal K L.orbitK v h k lam).1 = k * L.sin (lam + (@solveKeplerPal K L.orbitK v h k lam).1)
            - h * L.cos (lam + (@solveKeplerPal K L.orbitK v h k lam).1) ∧
          (@solveKeplerPal K L.orbitK v h k lam).2 = k * L.cos (lam + (@solveKeplerPal K L.orbitK v h k lam).1)
            + h * L.sin (lam + (@solveKeplerPal K L.orbitK v h k lam).1))
    (ha : 0 < a) (hmu : 0 < G * (m + pr.m)) (he : h * h + k * k < 1) (hi : ix * ix + iy * iy < 4)
    (hlam : 0 ≤ lam + (@solveKeplerPal K L.orbitK v h k lam).1 ∧ lam + (@solveKeplerPal K L.orbitK v h k lam).1 < 4 * L.pi) :
    let e := @particleToPal K L.orbitK G (@fromPal K L.orbitK v G pr m a lam k h ix iy) pr
    e.h = h ∧ e.k = k ∧ e.ix = ix ∧ e.iy = iy ∧ e.a = a ∧ ∃ n : ℤ, e.lambda = lam - n * (2 * L.pi) := by
  rw [fromPal_eq]
  have hb0 : 0 < 1 - h * h - k * k := by linarith
  obtain ⟨b0, b2⟩ := hsqrt _ (le_of_lt hb0)
  have hbpos : 0 < L.sqrt (1 - h * h - k * k) := by
    rcases lt_or_eq_of_le b0 with hh | hh
    · exact hh
    · exfalso; rw [← hh] at b2; linarith [show (0:K) ^ 2 = 0 by ring]
  have hz0 : 0 < 4 - ix * ix - iy * iy := by linarith
  rw [hfabs _ (le_of_lt hz0)]
  obtain ⟨z0, z2⟩ := hsqrt _ (le_of_lt hz0)
  have hzpos : 0 < L.sqrt (4 - ix * ix - iy * iy) := by
    rcases lt_or_eq_of_le z0 with hh | hh
    · exact hh
    · exfalso; rw [← hh] at z2; linarith [show (0:K) ^ 2 = 0 by ring]
  have hn0 : 0 < G * (m + pr.m) / a := div_pos hmu ha
  obtain ⟨n0, n2⟩ := hsqrt _ (le_of_lt hn0)
  have hnpos : 0 < L.sqrt (G * (m + pr.m) / a) := by
    rcases lt_or_eq_of_le n0 with hh | hh
    · exact hh
    · exfalso; rw [← hh] at n2; linarith [show (0:K) ^ 2 = 0 by ring]
  exact particleToPal_of_palCore hsqrt v G pr m a k h ix iy _ _ _ _ _ _ _ lam
    (by linear_combination T.sq (lam + (@solveKeplerPal K L.orbitK v h k lam).1)) hK.1 hK.2
    (by rw [show (1:K) - (1 - L.sqrt (1 - h * h - k * k)) = L.sqrt (1 - h * h - k * k) by ring, b2]; ring)
    (by linarith) (by rw [z2]; ring) hzpos n2 hnpos ha hmu T rfl rfl hatan2 hlam
end RV.Orbit
