import RV.Proofs.Field
import RV.Model.Kepler
import Mathlib.Data.Nat.Factorial.Basic
import Mathlib.Tactic.NormNum
/- helper lemmas for RV/Props/C03.lean: the model pieces of RV/Model/Kepler.lean at a field -/
set_option linter.unusedTactic false
set_option linter.unreachableTactic false
set_option linter.unnecessarySeqFocus false
set_option linter.unusedVariables false
set_option linter.unusedSimpArgs false
namespace RV.Kepler
open RV RV.Gen.C03
variable {K : Type} [Field K]

/-! ### constants -/
theorem lit_eq (p q : Nat) : (lit p q : K) = (p : K) / (q : K) := rfl
@[simp] theorem n2_eq : (n2 : K) = 2 := by simp [n2]
@[simp] theorem n4_eq : (n4 : K) = 4 := by simp [n4]
@[simp] theorem n5_eq : (n5 : K) = 5 := by simp [n5]
@[simp] theorem n16_eq : (n16 : K) = 16 := by simp [n16]
@[simp] theorem n20_eq : (n20 : K) = 20 := by simp [n20]
@[simp] theorem half_eq : (half : K) = 1 / 2 := by simp [half, lit_eq]
@[simp] theorem quarter_eq : (quarter : K) = 1 / 4 := by simp [quarter, lit_eq]
@[simp] theorem eighth_eq : (eighth : K) = 1 / 8 := by simp [eighth, lit_eq]
@[simp] theorem sixteenth_eq : (sixteenth : K) = 1 / 16 := by simp [sixteenth, lit_eq]

/-- the table extracted from the C source is the table of factorials -/
theorem table_nat : ∀ i : Fin 35, invfactNum[i] = 1 ∧ invfactDen[i] = Nat.factorial i := by
  decide +kernel

theorem invfact_eq (i : Fin 35) : (invfact i : K) = 1 / (Nat.factorial i : K) := by
  obtain ⟨h1, h2⟩ := table_nat i
  simp only [invfact, sc_hdiv, sc_ofNat, h1, h2, Nat.cast_one]

end RV.Kepler
