import RV.Proofs.Field
import RV.Model.Kepler
import Mathlib.Data.Nat.Factorial.Basic
import Mathlib.Tactic.NormNum
/- helper lemmas for RV/Props/C03.lean: the model pieces of RV/Model/Kepler.lean at a field -/
set_option linter.unusedTactic false
set_option linter.unreachableTactic false
set_option linter.unnecessarySeqFocus false
set_option linter.unusedVariables false
set_option linter.unusedSimpArgs false
set_option linter.unusedSectionVars false
namespace RV.Kepler
open RV RV.Gen.C03
variable {K : Type} [Field K]

/-! ### constants -/
theorem lit_eq (p q : Nat) : (lit p q : K) = (p : K) / (q : K) := rfl
@[simp] theorem n2_eq : (n2 : K) = 2 := by simp [n2]
@[simp] theorem n4_eq : (n4 : K) = 4 := by simp [n4]
@[simp] theorem n5_eq : (n5 : K) = 5 := by simp [n5]
@[simp] theorem n16_eq : (n16 : K) = 16 := by simp [n16]
@[simp] theorem n20_eq : (n20 : K) = 20 := by simp [n20]
@[simp] theorem half_eq : (half : K) = 1 / 2 := by simp [half, lit_eq]
@[simp] theorem quarter_eq : (quarter : K) = 1 / 4 := by simp [quarter, lit_eq]
@[simp] theorem eighth_eq : (eighth : K) = 1 / 8 := by simp [eighth, lit_eq]
@[simp] theorem sixteenth_eq : (sixteenth : K) = 1 / 16 := by simp [sixteenth, lit_eq]

/-- the table extracted from the C source is the table of factorials -/
theorem table_nat : ∀ i : Fin 35, invfactNum[i] = 1 ∧ invfactDen[i] = Nat.factorial i := by
  decide +kernel

theorem invfact_eq (i : Fin 35) : (invfact i : K) = 1 / (Nat.factorial i : K) := by
  obtain ⟨h1, h2⟩ := table_nat i
  simp only [invfact, sc_hdiv, sc_ofNat, h1, h2, Nat.cast_one]


/-! ### Stumpff relations -/

/-- the polynomial identities between the four Stumpff functions at argument `z`
    that the duplication formulas preserve (for the true functions:
    c0 = cos√z, c1 = sin√z/√z, c2 = (1-c0)/z, c3 = (1-c1)/z). -/
structure StumpffRel (z : K) (c : Cs3 K) : Prop where
  h0 : c.c0 = 1 - z * c.c2
  h1 : c.c1 = 1 - z * c.c3
  h2 : c.c1 ^ 2 = (1 + c.c0) * c.c2

theorem StumpffRel.pythagoras {z : K} {c : Cs3 K} (h : StumpffRel z c) :
    c.c0 ^ 2 + z * c.c1 ^ 2 = 1 := by
  obtain ⟨h0, h1, h2⟩ := h
  rw [h2, h0]; ring

variable [CharZero K]

theorem cs3DupStep_rel {z : K} {c : Cs3 K} (h : StumpffRel z c) :
    StumpffRel (4 * z) (cs3DupStep c) := by
  obtain ⟨h0, h1, h2⟩ := h
  have hp : c.c0 ^ 2 + z * c.c1 ^ 2 = 1 := StumpffRel.pythagoras ⟨h0, h1, h2⟩
  refine ⟨?_, ?_, ?_⟩
  · simp only [cs3DupStep, sc_hadd, sc_hsub, sc_hmul, sc_one, n2_eq, half_eq, quarter_eq]
    linear_combination 2 * hp
  · simp only [cs3DupStep, sc_hadd, sc_hsub, sc_hmul, sc_one, n2_eq, half_eq, quarter_eq]
    linear_combination c.c0 * h1 + h0
  · simp only [cs3DupStep, sc_hadd, sc_hsub, sc_hmul, sc_one, n2_eq, half_eq, quarter_eq]
    ring

theorem cs3Dup_rel (n : Nat) {z : K} {c : Cs3 K} (h : StumpffRel z c) :
    StumpffRel (4 ^ n * z) (cs3Dup n c) := by
  induction n generalizing z c with
  | zero => simpa [cs3Dup] using h
  | succ n ih =>
    have := ih (cs3DupStep_rel h)
    simp only [cs3Dup]
    convert this using 1
    ring


/-! ### the Horner series -/

theorem fact_vals : Nat.factorial 0 = 1 ∧ Nat.factorial 1 = 1 ∧ Nat.factorial 2 = 2 ∧ Nat.factorial 3 = 6 ∧
    Nat.factorial 4 = 24 ∧ Nat.factorial 5 = 120 ∧ Nat.factorial 6 = 720 ∧ Nat.factorial 7 = 5040 ∧
    Nat.factorial 8 = 40320 ∧ Nat.factorial 9 = 362880 ∧ Nat.factorial 10 = 3628800 ∧
    Nat.factorial 11 = 39916800 ∧ Nat.factorial 12 = 479001600 ∧ Nat.factorial 13 = 6227020800 ∧
    Nat.factorial 14 = 87178291200 ∧ Nat.factorial 15 = 1307674368000 := by decide +kernel

/-- closed form of the Horner evaluation of stumpff_cs3: truncated Stumpff series -/
theorem cs3Series_eq (z : K) :
    (cs3Series z).c3 = 1/6 - z/120 + z^2/5040 - z^3/362880 + z^4/39916800 - z^5/6227020800 ∧
    (cs3Series z).c2 = 1/2 - z/24 + z^2/720 - z^3/40320 + z^4/3628800 - z^5/479001600 ∧
    (cs3Series z).c1 = 1 - z * (cs3Series z).c3 ∧
    (cs3Series z).c0 = 1 - z * (cs3Series z).c2 := by
  obtain ⟨f0, f1, f2, f3, f4, f5, f6, f7, f8, f9, f10, f11, f12, f13, f14, f15⟩ := fact_vals
  refine ⟨?_, ?_, ?_, ?_⟩ <;>
  · simp only [cs3Series, invfact_eq, sc_hsub, sc_hmul, Fin.isValue]
    norm_num [Nat.factorial]
    try ring


/-! ### Stiefel G-functions -/

/-- G-relations for energy parameter `β` and universal variable `X` -/
structure GRel (β X : K) (g : Cs3 K) : Prop where
  h0 : g.c0 = 1 - β * g.c2
  h1 : g.c1 = X - β * g.c3
  h2 : g.c1 ^ 2 = (1 + g.c0) * g.c2

omit [CharZero K] in
theorem scaleGs3_rel {β X : K} {c : Cs3 K} (h : StumpffRel (β * (X * X)) c) :
    GRel β X (scaleGs3 X c) := by
  obtain ⟨h0, h1, h2⟩ := h
  refine ⟨?_, ?_, ?_⟩ <;> simp only [scaleGs3, sc_hmul]
  · rw [h0]; ring
  · rw [h1]; ring
  · linear_combination (X * X) * h2

/-! ### f-g update: scalar identities
  `F = 1 - M G2/r0`, `G = dt - M G3`, `Fd = -M G1/(r0 r)`, `Gd = 1 - M G2/r`. -/
section sc
omit [CharZero K]
variable (r0 r eta beta M X dt G0 G1 G2 G3 v2 : K)
    (h0 : G0 = 1 - beta * G2) (h1 : G1 = X - beta * G3) (h2 : G1 ^ 2 = (1 + G0) * G2)
    (hk : r0 * X + eta * G2 + (M - beta * r0) * G3 = dt)
    (hr : r = r0 + eta * G1 + (M - beta * r0) * G2) (r0ne : r0 ≠ 0) (rne : r ≠ 0)
    (hv : v2 = 2 * M / r0 - beta)

include h0 h1 h2 hk hr r0ne rne in
theorem fg_wronskian_sc :
    (1 - M * G2 / r0) * (1 - M * G2 / r) - (dt - M * G3) * (-(M * G1) / (r0 * r)) = 1 := by
  have hX : X = G1 + beta * G3 := by linear_combination -h1
  subst hk
  field_simp
  subst hX h0
  rw [hr]
  linear_combination (r0 * M) * h2

include h0 h1 h2 hk hr r0ne hv in
theorem fg_radius_sc :
    (1 - M * G2 / r0) ^ 2 * (r0 * r0) + 2 * (1 - M * G2 / r0) * (dt - M * G3) * eta
      + (dt - M * G3) ^ 2 * v2 = r ^ 2 := by
  have hX : X = G1 + beta * G3 := by linear_combination -h1
  subst hk hv
  field_simp
  subst hX h0
  rw [hr]
  linear_combination (-r0 * (-2 * M * r0 + beta * r0 ^ 2 + eta ^ 2)) * h2

include h0 h2 hr r0ne rne hv in
theorem fg_energy_sc :
    2 * M / r - ((-(M * G1) / (r0 * r)) ^ 2 * (r0 * r0)
      + 2 * (-(M * G1) / (r0 * r)) * (1 - M * G2 / r) * eta + (1 - M * G2 / r) ^ 2 * v2) = beta := by
  subst hv
  field_simp
  subst h0
  rw [hr]
  linear_combination (-M ^ 2 * r0) * h2

include h0 h1 hk hr r0ne rne hv in
theorem fg_eta_sc :
    (1 - M * G2 / r0) * (-(M * G1) / (r0 * r)) * (r0 * r0)
      + ((1 - M * G2 / r0) * (1 - M * G2 / r) + (dt - M * G3) * (-(M * G1) / (r0 * r))) * eta
      + (dt - M * G3) * (1 - M * G2 / r) * v2 = eta * G0 + (M - beta * r0) * G1 := by
  have hX : X = G1 + beta * G3 := by linear_combination -h1
  subst hk hv
  field_simp
  subst hX h0
  rw [hr]
  ring

include h0 h2 hr r0ne rne in
theorem fg_laplace1_sc :
    (1 - M * G2 / r0) * (M / r - beta) - (-(M * G1) / (r0 * r)) * (eta * G0 + (M - beta * r0) * G1)
      = M / r0 - beta := by
  field_simp
  subst h0
  rw [hr]
  linear_combination (-M * (-M + beta * r0)) * h2

include h0 h1 h2 hk hr rne in
theorem fg_laplace2_sc :
    (dt - M * G3) * (M / r - beta) - (1 - M * G2 / r) * (eta * G0 + (M - beta * r0) * G1) = -eta := by
  have hX : X = G1 + beta * G3 := by linear_combination -h1
  subst hk
  field_simp
  subst hX h0
  rw [hr]
  linear_combination (-M * eta) * h2

end sc

/-! ### vectors -/
section vec
omit [CharZero K]

def rr (p : P6 K) : K := p.x * p.x + p.y * p.y + p.z * p.z
def vv (p : P6 K) : K := p.vx * p.vx + p.vy * p.vy + p.vz * p.vz
def xv (p : P6 K) : K := p.x * p.vx + p.y * p.vy + p.z * p.vz
/-- angular momentum x × v -/
def Lx (p : P6 K) : K := p.y * p.vz - p.z * p.vy
def Ly (p : P6 K) : K := p.z * p.vx - p.x * p.vz
def Lz (p : P6 K) : K := p.x * p.vy - p.y * p.vx
/-- Laplace–Runge–Lenz vector `v × (x × v) − M x/|x|`, with `|x|` supplied as `r` -/
def Ax (M r : K) (p : P6 K) : K := (vv p - M / r) * p.x - xv p * p.vx
def Ay (M r : K) (p : P6 K) : K := (vv p - M / r) * p.y - xv p * p.vy
def Az (M r : K) (p : P6 K) : K := (vv p - M / r) * p.z - xv p * p.vz

theorem fgApply_rr (c : FG K) (p : P6 K) :
    rr (fgApply c p) = (1 + c.f) ^ 2 * rr p + 2 * (1 + c.f) * c.g * xv p + c.g ^ 2 * vv p := by
  simp only [fgApply, rr, vv, xv, sc_hadd, sc_hmul]; ring

theorem fgApply_vv (c : FG K) (p : P6 K) :
    vv (fgApply c p) = c.fd ^ 2 * rr p + 2 * c.fd * (1 + c.gd) * xv p + (1 + c.gd) ^ 2 * vv p := by
  simp only [fgApply, rr, vv, xv, sc_hadd, sc_hmul]; ring

theorem fgApply_xv (c : FG K) (p : P6 K) :
    xv (fgApply c p) = (1 + c.f) * c.fd * rr p + ((1 + c.f) * (1 + c.gd) + c.g * c.fd) * xv p
      + c.g * (1 + c.gd) * vv p := by
  simp only [fgApply, rr, vv, xv, sc_hadd, sc_hmul]; ring

theorem fgApply_L (c : FG K) (p : P6 K) :
    Lx (fgApply c p) = ((1 + c.f) * (1 + c.gd) - c.g * c.fd) * Lx p ∧
    Ly (fgApply c p) = ((1 + c.f) * (1 + c.gd) - c.g * c.fd) * Ly p ∧
    Lz (fgApply c p) = ((1 + c.f) * (1 + c.gd) - c.g * c.fd) * Lz p := by
  refine ⟨?_, ?_, ?_⟩ <;> simp only [fgApply, Lx, Ly, Lz, sc_hadd, sc_hmul] <;> ring

/-- the coefficients of the model in textbook form -/
theorem fgCoeffs_eq (M r0 r dt G1 G2 G3 : K) :
    let c := fgCoeffs M (1 / r0) (1 / r) dt G1 G2 G3
    1 + c.f = 1 - M * G2 / r0 ∧ c.g = dt - M * G3 ∧ c.fd = -(M * G1) / (r0 * r) ∧
    1 + c.gd = 1 - M * G2 / r := by
  simp only [fgCoeffs, sc_hmul, sc_hsub, sc_hneg, sc_neg, sc_one, sc_hdiv]
  refine ⟨by ring, trivial, by ring, by ring⟩

/-- hypotheses under which the update is "the Kepler step": `r0 = |x|`, the four numbers
    `g` satisfy the Stiefel relations for the orbit's `β` and for `X`, and `X` solves the
    universal Kepler equation for `dt`. -/
structure KeplerStep (M dt r0 X : K) (p : P6 K) (g : Cs3 K) : Prop where
  hr0 : r0 * r0 = rr p
  r0ne : r0 ≠ 0
  rel : GRel (invariants M r0 (1 / r0) p).beta X g
  kepler : r0 * X + (invariants M r0 (1 / r0) p).eta0 * g.c2 + (invariants M r0 (1 / r0) p).zeta0 * g.c3 = dt

/-- `r = r0 + η0 G1 + ζ0 G2`, the quantity whose inverse is `ri` in the C code -/
def newR (M r0 : K) (p : P6 K) (g : Cs3 K) : K :=
  r0 + (invariants M r0 (1 / r0) p).eta0 * g.c1 + (invariants M r0 (1 / r0) p).zeta0 * g.c2

theorem invariants_eq (M r0 : K) (p : P6 K) :
    (invariants M r0 (1 / r0) p).v2 = vv p ∧
    (invariants M r0 (1 / r0) p).beta = 2 * M * (1 / r0) - vv p ∧
    (invariants M r0 (1 / r0) p).eta0 = xv p ∧
    (invariants M r0 (1 / r0) p).zeta0 = M - (2 * M * (1 / r0) - vv p) * r0 := by
  simp only [invariants, vv, xv, sc_hadd, sc_hsub, sc_hmul, n2_eq, and_self]

end vec

/-! ### stumpff_cs (six functions) -/
section six

/-- relations between the functions c1..c5 carried by stumpff_cs at argument `s.z` -/
structure Stumpff6Rel (s : Cs5 K) : Prop where
  h1 : s.c1 = 1 - s.z * s.c3
  h2 : s.c2 = 1 / 2 - s.z * s.c4
  h3 : s.c3 = 1 / 6 - s.z * s.c5
  hq : s.c1 ^ 2 = (1 + (1 - s.z * s.c2)) * s.c2

/-- the first four functions, with `c0 = 1 - z c2` as in the last line of stumpff_cs -/
def cs5To3 (s : Cs5 K) : Cs3 K := { c0 := 1 - s.z * s.c2, c1 := s.c1, c2 := s.c2, c3 := s.c3 }

theorem cs5To3_rel {s : Cs5 K} (h : Stumpff6Rel s) : StumpffRel s.z (cs5To3 s) :=
  ⟨rfl, h.h1, h.hq⟩

theorem cs6DupStep_z (s : Cs5 K) : (cs6DupStep s).z = 4 * s.z := by
  simp only [cs6DupStep, sc_hmul, n4_eq]; ring


/-- the new values in terms of the old ones (textbook duplication formulas) -/
theorem cs6DupStep_vals {s : Cs5 K} (h : Stumpff6Rel s) :
    (cs6DupStep s).c2 = s.c1 ^ 2 / 2 ∧
    (cs6DupStep s).c3 = (s.c2 + (1 - s.z * s.c2) * s.c3) / 4 ∧
    (cs6DupStep s).c1 = (1 - s.z * s.c2) * s.c1 ∧
    1 - (cs6DupStep s).z * (cs6DupStep s).c2 = 2 * (1 - s.z * s.c2) ^ 2 - 1 := by
  obtain ⟨h1, h2, h3, hq⟩ := h
  have e2 : (cs6DupStep s).c2 = s.c1 ^ 2 / 2 := by
    simp only [cs6DupStep, sc_hadd, sc_hsub, sc_hmul, sc_one, half_eq, n4_eq, eighth_eq]
    linear_combination (-(1 + s.c1) / 2) * h1
  have e3 : (cs6DupStep s).c3 = (s.c2 + (1 - s.z * s.c2) * s.c3) / 4 := by
    simp only [cs6DupStep, sc_hadd, sc_hsub, sc_hmul, sc_one, lit_eq, n4_eq, sixteenth_eq]
    linear_combination (-1 / 4) * h3 + (-1 / 4) * h2
  have e1 : (cs6DupStep s).c1 = (1 - s.z * s.c2) * s.c1 := by
    have : (cs6DupStep s).c1 = 1 - (cs6DupStep s).z * (cs6DupStep s).c3 := by
      simp only [cs6DupStep, sc_hadd, sc_hsub, sc_hmul, sc_one]
    rw [this, e3, cs6DupStep_z]
    linear_combination (-(1 - s.z * s.c2)) * h1
  refine ⟨e2, e3, e1, ?_⟩
  rw [e2, cs6DupStep_z]
  linear_combination (-2 * s.z) * hq

theorem cs6DupStep_rel {s : Cs5 K} (h : Stumpff6Rel s) : Stumpff6Rel (cs6DupStep s) := by
  obtain ⟨e2, e3, e1, e0⟩ := cs6DupStep_vals h
  obtain ⟨h1, h2, h3, hq⟩ := h
  refine ⟨?_, ?_, ?_, ?_⟩
  · simp only [cs6DupStep, sc_hadd, sc_hsub, sc_hmul, sc_one]
  · simp only [cs6DupStep, sc_hadd, sc_hsub, sc_hmul, sc_one, half_eq]
  · simp only [cs6DupStep, sc_hadd, sc_hsub, sc_hmul, sc_one, lit_eq]; norm_num
  · rw [e0, e1, e2]
    ring

theorem cs6DupStep_cs3 {s : Cs5 K} (h : Stumpff6Rel s) :
    cs5To3 (cs6DupStep s) = cs3DupStep (cs5To3 s) := by
  obtain ⟨e2, e3, e1, e0⟩ := cs6DupStep_vals h
  simp only [cs5To3, cs3DupStep, sc_hadd, sc_hsub, sc_hmul, sc_one, half_eq, n2_eq, quarter_eq, Cs3.mk.injEq]
  refine ⟨?_, ?_, ?_, ?_⟩
  · rw [e0]; ring
  · rw [e1]
  · rw [e2]; ring
  · rw [e3]; ring
end six

/-! ### mass parameter -/
section mass
omit [CharZero K]

theorem jacobiEtas_length (eta : K) (nact : Nat) (ms : List K) :
    (jacobiEtas eta nact ms).length = ms.length := by
  induction ms generalizing eta nact with
  | nil => cases nact <;> simp [jacobiEtas]
  | cons m r ih => cases nact <;> simp [jacobiEtas, ih]

theorem jacobiEtas_get (eta : K) (nact : Nat) (ms : List K) (i : Nat) (h : i < ms.length) :
    (jacobiEtas eta nact ms)[i]? = some (eta + (ms.take (min (i + 1) nact)).sum) := by
  induction ms generalizing eta nact i with
  | nil => simp at h
  | cons m r ih =>
    cases nact with
    | zero =>
      cases i with
      | zero => simp [jacobiEtas]
      | succ i =>
        have := ih eta 0 i (by simpa using h)
        simpa [jacobiEtas] using this
    | succ a =>
      cases i with
      | zero => simp [jacobiEtas]
      | succ i =>
        have := ih (eta + m) a i (by simpa using h)
        simp only [jacobiEtas, sc_hadd, List.getElem?_cons_succ, this]
        have hm : min (i + 1 + 1) (a + 1) = min (i + 1) a + 1 := by omega
        rw [hm, List.take_succ_cons, List.sum_cons]
        congr 1; ring

theorem etas_length (c : Coord) (m0 pj0m : K) (nact : Nat) (ms : List K) :
    (etas c m0 pj0m nact ms).length = ms.length := by
  cases c <;> simp [etas, jacobiEtas_length]

theorem whds_get (m0 pj0m : K) (nact : Nat) (ms : List K) (i : Nat) (h : i < ms.length) :
    (etas .whds m0 pj0m nact ms)[i]? = some (if i < nact then m0 + ms[i] else m0) := by
  simp [etas, h]
  
theorem jumpSum_eq (px : K) (l : List (K × K)) :
    jumpSum px l = px + (l.map (fun p => p.1 * p.2)).sum := by
  induction l generalizing px with
  | nil => simp [jumpSum]
  | cons a r ih => obtain ⟨m, v⟩ := a; simp only [jumpSum, ih, sc_hadd, sc_hmul, List.map_cons, List.sum_cons]; ring

theorem whJumpSumDH_eq (px : K) (l : List (K × K × K)) :
    whJumpSumDH px l = px + (l.map (fun a => a.1 * a.2.1)).sum := by
  induction l generalizing px with
  | nil => simp [whJumpSumDH]
  | cons a r ih => obtain ⟨m, v, x⟩ := a; simp only [whJumpSumDH, ih, sc_hadd, sc_hmul, List.map_cons, List.sum_cons]; ring

theorem whJumpSumWHDS_eq (m0 px : K) (l : List (K × K × K)) :
    whJumpSumWHDS m0 px l = px + (l.map (fun a => a.1 * a.2.1 / (m0 + a.1))).sum := by
  induction l generalizing px with
  | nil => simp [whJumpSumWHDS]
  | cons a r ih =>
    obtain ⟨m, v, x⟩ := a
    simp only [whJumpSumWHDS, ih, sc_hadd, sc_hmul, sc_hdiv, List.map_cons, List.sum_cons]; ring

end mass

end RV.Kepler

/-! ### bounded loops (any scalar type, including `Float`) -/
namespace RV.Kepler
section loops
variable {K : Type} [KScalar K]

theorem quartLoop_iters (c : Ctx K) : ∀ (rem : Nat) (X : K) (prev : List K) (gs : Cs3 K) (it mh : Nat)
    (r : K × Cs3 K × Bool × Nat × Nat), quartLoop c rem X prev gs it mh = .ok r → r.2.2.2.1 ≤ it + rem := by
  intro rem
  induction rem with
  | zero =>
    intro X prev gs it mh r h
    simp only [quartLoop, pure, Except.pure] at h
    cases h; simp
  | succ rem ih =>
    intro X prev gs it mh r h
    simp only [quartLoop, bind, Except.bind] at h
    split at h
    · cases h
    · rename_i v hv
      obtain ⟨gs', nh⟩ := v
      simp only at h
      split at h
      · simp only [pure, Except.pure] at h; cases h; simp
      · have := ih _ _ _ _ _ _ h; omega

theorem newtLoop_iters (c : Ctx K) : ∀ (rem : Nat) (X oldX : K) (gs : Cs3 K) (ri : K) (it mh : Nat)
    (r : K × Cs3 K × K × Bool × Nat × Nat), newtLoop c rem X oldX gs ri it mh = .ok r → r.2.2.2.2.1 ≤ it + rem := by
  intro rem
  induction rem with
  | zero =>
    intro X oldX gs ri it mh r h
    simp only [newtLoop, pure, Except.pure] at h
    cases h; simp
  | succ rem ih =>
    intro X oldX gs ri it mh r h
    simp only [newtLoop, bind, Except.bind] at h
    split at h
    · cases h
    · rename_i v hv
      obtain ⟨gs', nh⟩ := v
      simp only at h
      split at h
      · simp only [pure, Except.pure] at h; cases h; simp
      · have := ih _ _ _ _ _ _ _ h; omega
end loops
end RV.Kepler
