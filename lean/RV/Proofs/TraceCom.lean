import RV.Proofs.Diag
import RV.Model.TraceCom
/-
  One TRACE step moves the centre of mass by dt × its velocity, whether or not the step was
  rejected and redone, and whatever `ri_trace.com_pos` held before the step.
-/
set_option linter.unusedTactic false
set_option linter.unreachableTactic false
set_option linter.unnecessarySeqFocus false
set_option linter.unusedVariables false
set_option linter.unusedSimpArgs false
set_option linter.unusedSectionVars false
namespace RV.TraceCom
open RV RV.Gravity RV.Diag
variable {K : Type} [Field K]

theorem part2Com_eq (dt : K) (nAct : Nat) (rejected : Bool) (stale : V3 K) (ps : Array (Part K)) :
    part2Com dt nAct rejected stale ps = comStep dt (dhCom nAct ps) := by
  cases rejected <;> simp [part2Com, comStep]

theorem dhSums_eq (nAct : Nat) (ps : Array (Part K)) :
    dhSums nAct ps = (∑ i ∈ Finset.Ico 0 nAct, mOf ps i • xOf ps i,
      ∑ i ∈ Finset.Ico 0 nAct, mOf ps i • vOf ps i, ∑ i ∈ Finset.Ico 0 nAct, mOf ps i) := by
  unfold dhSums
  rw [forRange_add 0 nAct _ (fun i => (mOf ps i • xOf ps i, mOf ps i • vOf ps i, mOf ps i))]
  · ext <;> simp [Prod.fst_sum, Prod.snd_sum]
  · intro L i _ _
    simp only [mOf, xOf, vOf]
    cases ps[i]? with
    | none => ext <;> simp
    | some p => ext <;> simp

/-- with a non-zero total (active) mass: total mass × the stored centre of mass after the step
    = Σ m x + dt Σ m v — uniform motion of the centre of mass, rejected step or not, for every
    previous content of `com_pos` -/
theorem part2Com_uniform (dt : K) (nAct : Nat) (rejected : Bool) (stale : V3 K) (ps : Array (Part K))
    (hM : ∑ i ∈ Finset.Ico 0 nAct, mOf ps i ≠ 0) :
    (∑ i ∈ Finset.Ico 0 nAct, mOf ps i) • (part2Com dt nAct rejected stale ps).pos
      = ∑ i ∈ Finset.Ico 0 nAct, mOf ps i • xOf ps i + dt • ∑ i ∈ Finset.Ico 0 nAct, mOf ps i • vOf ps i
    ∧ (∑ i ∈ Finset.Ico 0 nAct, mOf ps i) • (part2Com dt nAct rejected stale ps).vel
      = ∑ i ∈ Finset.Ico 0 nAct, mOf ps i • vOf ps i := by
  rw [part2Com_eq]
  simp only [comStep, dhCom, dhSums_eq]
  generalize (∑ i ∈ Finset.Ico 0 nAct, mOf ps i) = M at hM ⊢
  generalize (∑ i ∈ Finset.Ico 0 nAct, mOf ps i • xOf ps i) = X
  generalize (∑ i ∈ Finset.Ico 0 nAct, mOf ps i • vOf ps i) = V
  constructor
  · ext <;> simp <;> field_simp
  · ext <;> simp <;> field_simp

end RV.TraceCom
