import RV.Proofs.Diag
import RV.Model.TraceCom
/-
  One TRACE step moves the centre of mass by dt × its velocity, whether or not the step was
  rejected and redone, and whatever `ri_trace.com_pos` held before the step.
-/
set_option linter.unusedTactic false
set_option linter.unreachableTactic false
set_option linter.unnecessarySeqFocus false
set_option linter.unusedVariables false
set_option linter.unusedSimpArgs false
set_option linter.unusedSectionVars false
namespace RV.TraceCom
open RV RV.Gravity RV.Diag
variable {K : Type} [Field K]

theorem part2Com_eq (dt : K) (nAct : Nat) (rejected : Bool) (stale : V3 K) (ps : Array (Part K)) :
    part2Com dt nAct rejected stale ps = comStep dt (dhCom nAct ps) := by
  cases rejected <;> simp [part2Com, comStep]

theorem dhSums_eq (nAct : Nat) (ps : Array (Part K)) :
    dhSums nAct ps = (∑ i ∈ Finset.Ico 0 nAct, mOf ps i • xOf ps i,
      ∑ i ∈ Finset.Ico 0 nAct, mOf ps i • vOf ps i, ∑ i ∈ Finset.Ico 0 nAct, mOf ps i) := by
  unfold dhSums
  rw [forRange_add 0 nAct _ (fun i => (mOf ps i • xOf ps i, mOf ps i • vOf ps i, mOf ps i))]
  · simp only [Prod.fst_sum, Prod.snd_sum]
    ext <;> simp [Prod.fst_sum, Prod.snd_sum]
  · intro L i _ _
    simp only [mOf, xOf, vOf]
    cases ps[i]? with
    | none => ext <;> simp
    | some p => ext <;> simp

end RV.TraceCom
