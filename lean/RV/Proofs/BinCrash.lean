/-
  Crash images of an append: the index of the image is the index of the file before the write
  (for every cut point short of the last byte).
-/
import RV.Proofs.BinIndex
set_option linter.unusedVariables false
set_option linter.unusedSimpArgs false
namespace RV.Bin

theorem indexLoop_nil (v : Variant) (fuel i pos : Nat) :
    (indexLoop v fuel i pos []).entries = [] ∧ (indexLoop v fuel i pos []).undefinedB = false := by
  cases fuel with
  | zero => simp [indexLoop]
  | succ n => simp [indexLoop, walkBlob, readHdr, shorter]

/-- a short trailer after a complete blob (`a < 12` of its bytes on disk) fails the offset check -/
theorem short_trailer_mismatch (x L a : Nat) (hL : 16 ≤ L) (hL2 : L < 2147483648) (ha : a < 12) :
    sgn32 (de ((((trailerBytes x L 0).take a).drop 4).take 4)) + 12 ≠ ((L + a : Nat) : Int) := by
  have hc : a = 0 ∨ a = 1 ∨ a = 2 ∨ a = 3 ∨ a = 4 ∨ a = 5 ∨ a = 6 ∨ a = 7 ∨ a = 8 ∨ a = 9 ∨ a = 10 ∨ a = 11 := by omega
  rcases hc with rfl | rfl | rfl | rfl | rfl | rfl | rfl | rfl | rfl | rfl | rfl | rfl <;>
    simp only [trailerBytes, le32, List.cons_append, List.nil_append, List.take_succ_cons, List.take_zero,
      List.drop_succ_cons, List.drop_zero, List.take_nil, List.drop_nil, de] <;>
    (rw [sgn32_small _ (by omega)]; omega)

/-- **a strict prefix of `delta ++ END ++ trailer` is never accepted as a blob** -/
theorem indexLoop_rejects_prefix (v : Variant) (d : List Field) (hd : BlobOK d) (hdl : blobLen d < 2147483648)
    (x m : Nat) (hm : m < blobLen d + 12) (fuel i pos : Nat) (hi : i > 0) :
    (indexLoop v fuel i pos ((encFs d ++ (endBytes ++ trailerBytes x (blobLen d) 0)).take m)).entries = [] ∧
    (indexLoop v fuel i pos ((encFs d ++ (endBytes ++ trailerBytes x (blobLen d) 0)).take m)).undefinedB = false := by
  cases fuel with
  | zero => simp [indexLoop]
  | succ n =>
    by_cases hlt : m < blobLen d
    · -- cut inside the fields or the END marker: read error
      have e : (encFs d ++ (endBytes ++ trailerBytes x (blobLen d) 0)).take m = (encFs d ++ endBytes).take m := by
        rw [← List.append_assoc, List.take_append_of_le_length]
        simp [blobLen] at hlt ⊢; omega
      rw [e, indexLoop, walkBlob_prefix v d hd m hlt]
      simp
    · -- fields and END complete, trailer short
      have hge : blobLen d ≤ m := by omega
      have e : (encFs d ++ (endBytes ++ trailerBytes x (blobLen d) 0)).take m
          = encFs d ++ (endBytes ++ (trailerBytes x (blobLen d) 0).take (m - blobLen d)) := by
        rw [← List.append_assoc, List.take_append, ← List.append_assoc]
        have : (encFs d ++ endBytes).length = blobLen d := by simp [blobLen]
        rw [this, List.take_of_length_le (by rw [this]; exact hge)]
      rw [e, indexLoop_step v n i pos d hd]
      have ha : m - blobLen d < 12 := by omega
      have hlen : ((trailerBytes x (blobLen d) 0).take (m - blobLen d)).length = m - blobLen d := by
        simp; omega
      have htt : ((trailerBytes x (blobLen d) 0).take (m - blobLen d)).take 12 = (trailerBytes x (blobLen d) 0).take (m - blobLen d) := by
        apply List.take_of_length_le; rw [hlen]; omega
      simp only [htt, hlen]
      have hmis := short_trailer_mismatch x (blobLen d) (m - blobLen d) (blobLen_ge d) hdl ha
      have hcond : i > 0 ∧ sgn32 (de ((((trailerBytes x (blobLen d) 0).take (m - blobLen d)).drop 4).take 4)) + 12
          ≠ ((pos + blobLen d + (m - blobLen d) : Nat) : Int) - (pos : Int) := by
        refine ⟨hi, ?_⟩
        intro h
        apply hmis
        rw [h]; omega
      rw [if_pos hcond]
      exact ⟨rfl, rfl⟩


/-! ### first pass of the reader (version scan): depends on blob 0 only -/
structure ScanOK (fs : List Field) : Prop where
  wf : WFs fs
  noHeader : NoHeader fs
  ver : ∀ f ∈ fs, f.ty = SAVERSION → f.size = 4
  small : ∀ f ∈ fs, (f.ty = T_ID ∨ f.ty = AUTO_INTERVAL ∨ f.ty = AUTO_WALLTIME ∨ f.ty = AUTO_STEP) → f.size ≤ 8

def verOf : List Field → Nat → Nat
  | [], ver => ver
  | f :: r, ver => verOf r (if f.ty = SAVERSION then de f.data else ver)

theorem scanVersion_enc (v : Variant) (fs : List Field) (rest : Bytes) (h : ScanOK fs)
    (fuel ver : Nat) (hf : fs.length < fuel) :
    scanVersion v fuel (encFs fs ++ (endBytes ++ rest)) ver = some (verOf fs ver) := by
  induction fs generalizing fuel ver with
  | nil =>
    cases fuel with
    | zero => omega
    | succ n =>
      have h1 : ¬ END = HEADER := by decide
      simp [scanVersion, encFs, readHdr_end, verOf, h1]
  | cons f fs ih =>
    cases fuel with
    | zero => omega
    | succ n =>
      have hw : f.WF := h.wf f (List.mem_cons_self ..)
      have hnh : f.ty ≠ HEADER := h.noHeader f (List.mem_cons_self ..)
      have hrest : ScanOK fs := ⟨fun g hg => h.wf g (List.mem_cons_of_mem _ hg),
        fun g hg => h.noHeader g (List.mem_cons_of_mem _ hg), fun g hg => h.ver g (List.mem_cons_of_mem _ hg),
        fun g hg => h.small g (List.mem_cons_of_mem _ hg)⟩
      have hl : fs.length < n := by simp at hf; omega
      simp only [encFs, List.append_assoc, scanVersion]
      rw [readHdr_encF f _ hw]
      simp only [hnh, hw.ty_ne_end, if_false]
      by_cases hv : f.ty = SAVERSION
      · have hs : f.size = 4 := h.ver f (List.mem_cons_self ..) hv
        have hd : f.data.length = 4 := by rw [← hw.size_eq]; exact hs
        have e1 : (f.data ++ (encFs fs ++ (endBytes ++ rest))).drop 4 = encFs fs ++ (endBytes ++ rest) := by
          rw [← hd]; exact List.drop_left
        have e2 : (f.data ++ (encFs fs ++ (endBytes ++ rest))).take 4 = f.data := by
          rw [← hd]; exact List.take_left
        have h4 : ¬ (4 > 4) := by omega
        simp only [hv, if_true, hs, h4, if_false, e1, e2]
        cases v.f19 <;> simp only [Bool.false_eq_true, if_false, if_true] <;>
          (rw [ih hrest n _ hl]; simp [verOf, hv])
      · simp only [hv, if_false]
        by_cases ht : f.ty = T_ID ∨ f.ty = AUTO_INTERVAL ∨ f.ty = AUTO_WALLTIME ∨ f.ty = AUTO_STEP
        · have hs := h.small f (List.mem_cons_self ..) ht
          have h8 : ¬ (f.size > 8) := by omega
          have hc : (!v.f19 && decide (f.size > 8)) = false := by simp [h8]
          simp only [ht, if_true, hc, Bool.false_eq_true, if_false]
          rw [hw.size_eq, List.drop_left, ih hrest n _ hl]; simp [verOf, hv]
        · simp only [ht, if_false, hw.size_eq, List.drop_left]
          rw [ih hrest n _ hl]; simp [verOf, hv]

theorem scanVersion_hdr (v : Variant) (hdr Y : Bytes) (h : HdrOK hdr) (fuel ver : Nat) :
    scanVersion v (fuel + 1) (hdr ++ Y) ver = scanVersion v fuel Y ver := by
  obtain ⟨sz, hr⟩ := readHdr_hdr64 hdr Y h
  rw [scanVersion, hr]
  simp only [if_true, drop64 hdr Y h]

/-- the version the reader sees is decided by blob 0, whatever follows its END marker -/
theorem scanVersion_arch (v : Variant) (hdr : Bytes) (hh : HdrOK hdr) (fs0 : List Field) (h0 : ScanOK fs0)
    (X : Bytes) :
    scanVersion v ((hdr ++ (encFs fs0 ++ (endBytes ++ X))).length + 1) (hdr ++ (encFs fs0 ++ (endBytes ++ X))) 0
      = some (verOf fs0 0) := by
  have hl := encFs_length_ge fs0
  rw [scanVersion_hdr v hdr _ hh, scanVersion_enc v fs0 X h0]
  simp [hh.len]; omega


/-! ### an archive is `prefix ++ last trailer` -/
def chainPre : Nat → Nat → List (List Field) → Bytes
  | _, _, [] => []
  | idx, prev, d :: r => trailerBytes idx prev (blobLen d) ++ (encFs d ++ (endBytes ++ chainPre (idx + 1) (blobLen d) r))

def lastPrev : Nat → List (List Field) → Nat
  | prev, [] => prev
  | _, d :: r => lastPrev (blobLen d) r

theorem chainG_split (fin : Nat → Nat → Bytes) (idx prev : Nat) (ds : List (List Field)) :
    chainG fin idx prev ds = chainPre idx prev ds ++ fin (idx + ds.length) (lastPrev prev ds) := by
  induction ds generalizing idx prev with
  | nil => simp [chainG, chainPre, lastPrev]
  | cons d r ih =>
    simp only [chainG, chainPre, lastPrev, ih, List.append_assoc, List.length_cons]
    have : idx + 1 + r.length = idx + (r.length + 1) := by omega
    rw [this]

/-- everything of an archive before its last trailer -/
def archPre (hdr : Bytes) (fs0 : List Field) (ds : List (List Field)) : Bytes :=
  hdr ++ (encFs fs0 ++ (endBytes ++ chainPre 0 0 ds))

theorem archG_split (fin : Nat → Nat → Bytes) (hdr : Bytes) (fs0 : List Field) (ds : List (List Field)) :
    archG fin hdr fs0 ds = archPre hdr fs0 ds ++ fin ds.length (lastPrev 0 ds) := by
  simp [archG, archPre, chainG_split, List.append_assoc]

/-- the intact archive -/
def archI (hdr : Bytes) (fs0 : List Field) (ds : List (List Field)) : Bytes := archG finIntact hdr fs0 ds

/-- the bytes an append of the delta `dn` writes, starting at the last trailer -/
def pendingData (ds : List (List Field)) (dn : List Field) : Bytes :=
  trailerBytes ds.length (lastPrev 0 ds) (blobLen dn) ++
    (encFs dn ++ (endBytes ++ trailerBytes (ds.length + 1) (blobLen dn) 0))

theorem pendingData_length (ds : List (List Field)) (dn : List Field) :
    (pendingData ds dn).length = 12 + blobLen dn + 12 := by
  simp [pendingData, blobLen]; omega

theorem archI_length (hdr : Bytes) (fs0 : List Field) (ds : List (List Field)) :
    (archI hdr fs0 ds).length = (archPre hdr fs0 ds).length + 12 := by
  rw [archI, archG_split]; simp [finIntact]

/-- shape of every crash image: the part of the archive before its last trailer, then the bytes of the
    write that made it, then what is left of the old trailer -/
theorem crash_shape (hdr : Bytes) (fs0 : List Field) (ds : List (List Field)) (data : Bytes) (k : Nat)
    (hk : k ≤ data.length) :
    crash (archI hdr fs0 ds) ((archI hdr fs0 ds).length - 12) data k
      = archG (fun _ _ => data.take k ++ (finIntact ds.length (lastPrev 0 ds)).drop k) hdr fs0 ds := by
  rw [archG_split, archI_length, archI, archG_split]
  simp only [crash, overwrite, Nat.add_sub_cancel]
  rw [List.take_left, List.length_take, Nat.min_eq_left hk, List.drop_append, List.append_assoc]
  simp

/-- completed write = the archive with one more delta -/
theorem append_shape (hdr : Bytes) (fs0 : List Field) (ds : List (List Field)) (dn : List Field) :
    overwrite (archI hdr fs0 ds) ((archI hdr fs0 ds).length - 12) (pendingData ds dn)
      = archI hdr fs0 (ds ++ [dn]) := by
  have hsplit : ∀ (idx prev : Nat) (l : List (List Field)),
      chainG finIntact idx prev (l ++ [dn]) =
        chainPre idx prev l ++ (trailerBytes (idx + l.length) (lastPrev prev l) (blobLen dn) ++
          (encFs dn ++ (endBytes ++ trailerBytes (idx + l.length + 1) (blobLen dn) 0))) := by
    intro idx prev l
    induction l generalizing idx prev with
    | nil => simp [chainG, chainPre, lastPrev, finIntact]
    | cons d r ih =>
      simp only [List.cons_append, chainG, chainPre, lastPrev, ih, List.append_assoc, List.length_cons]
      have e1 : idx + 1 + r.length = idx + (r.length + 1) := by omega
      rw [e1]
  rw [archI_length]
  simp only [archI, archG, hsplit, overwrite, Nat.add_sub_cancel, Nat.zero_add]
  have hp : archG finIntact hdr fs0 ds = archPre hdr fs0 ds ++ finIntact ds.length (lastPrev 0 ds) := archG_split _ _ _ _
  simp only [archG] at hp
  rw [hp, List.take_left]
  have hl : (archPre hdr fs0 ds ++ finIntact ds.length (lastPrev 0 ds)).length ≤ (archPre hdr fs0 ds).length + (pendingData ds dn).length := by
    simp [finIntact, pendingData_length]
  rw [List.drop_eq_nil_of_le hl]
  simp [archPre, pendingData, List.append_assoc]


/-! ### the crash theorem -/
theorem de_le32_cons (p : Nat) (hp : p < 4294967296) :
    de [p % 256, p / 256 % 256, p / 65536 % 256, p / 16777216 % 256] = p := de_le32 p hp

/-- the final segment of a crash image (first `k` bytes of the pending write, rest of the old trailer)
    stops the index loop after the last completed blob -/
theorem crashFin_stops (v : Variant) (n p x : Nat) (dn : List Field) (hdn : BlobOK dn)
    (hL : blobLen dn < 2147483648) (hp : p < 2147483648) (i pos pos1 : Nat)
    (hchk : i > 0 → (p : Int) + 12 = ((pos1 + 12 : Nat) : Int) - (pos : Int))
    (k : Nat) (hk : k < 12 + blobLen dn + 12) :
    FinStops v ((trailerBytes n p (blobLen dn) ++ (encFs dn ++ (endBytes ++ trailerBytes x (blobLen dn) 0))).take k
                ++ (trailerBytes n p 0).drop k) i pos pos1 := by
  have hpe := de_le32_cons p (by omega)
  have hze : de [0 % 256, 0 / 256 % 256, 0 / 65536 % 256, 0 / 16777216 % 256] = 0 := by decide
  by_cases hk12 : k < 12
  · have hc : k = 0 ∨ k = 1 ∨ k = 2 ∨ k = 3 ∨ k = 4 ∨ k = 5 ∨ k = 6 ∨ k = 7 ∨ k = 8 ∨ k = 9 ∨ k = 10 ∨ k = 11 := by omega
    rcases hc with rfl | rfl | rfl | rfl | rfl | rfl | rfl | rfl | rfl | rfl | rfl | rfl <;>
      (refine ⟨?_, ?_, ?_⟩
       · simp [trailerBytes, le32]
       · intro hi
         simp only [trailerBytes, le32, List.cons_append, List.nil_append, List.take_succ_cons, List.take_zero,
           List.drop_succ_cons, List.drop_zero, List.append_nil]
         rw [hpe, sgn32_small _ hp]; exact hchk hi
       · first
         | (left
            simp only [trailerBytes, le32, List.cons_append, List.nil_append, List.take_succ_cons, List.take_zero,
              List.drop_succ_cons, List.drop_zero, List.append_nil]
            exact hze)
         | (right
            intro fuel
            simp only [trailerBytes, le32, List.cons_append, List.nil_append, List.take_succ_cons, List.take_zero,
              List.drop_succ_cons, List.drop_zero, List.append_nil, List.drop_nil]
            exact indexLoop_nil v fuel _ _))
  · have hge : 12 ≤ k := by omega
    have e1 : (trailerBytes n p (blobLen dn) ++ (encFs dn ++ (endBytes ++ trailerBytes x (blobLen dn) 0))).take k
        = trailerBytes n p (blobLen dn) ++ (encFs dn ++ (endBytes ++ trailerBytes x (blobLen dn) 0)).take (k - 12) := by
      rw [List.take_append, List.take_of_length_le (by simp; omega)]; simp
    have e2 : (trailerBytes n p 0).drop k = [] := List.drop_eq_nil_of_le (by simp; omega)
    rw [e1, e2, List.append_nil]
    refine ⟨by rw [trailer_take]; simp, ?_, Or.inr ?_⟩
    · intro hi
      rw [trailer_take, trailer_prev _ _ _ (by omega), sgn32_small _ hp]; exact hchk hi
    · intro fuel
      rw [trailer_drop]
      exact indexLoop_rejects_prefix v dn hdn hL x (k - 12) (by omega) fuel (i + 1) _ (by omega)

theorem lastPrev_lastBlob (p pos : Nat) (d : List Field) (r : List (List Field)) :
    lastPrev p (d :: r) = blobLen (lastBlob pos d r).2 := by
  induction r generalizing p pos d with
  | nil => simp [lastPrev, lastBlob]
  | cons d' r' ih => simp only [lastPrev, lastBlob]; exact ih (blobLen d) _ _

theorem lastBlob_mem (pos : Nat) (d : List Field) (r : List (List Field)) :
    (lastBlob pos d r).2 ∈ d :: r := by
  induction r generalizing pos d with
  | nil => simp [lastBlob]
  | cons d' r' ih => simp only [lastBlob]; exact List.mem_cons_of_mem _ (ih _ _)

/-- what the theorems assume of an archive: a 64-byte header that reads as the header pseudo-field, a
    first snapshot and deltas whose fields are well formed (sizes = payload lengths, `t` fields 8 bytes,
    version field 4 bytes with value ≥ 2), every blob shorter than 2³¹ bytes -/
structure ArchOK (hdr : Bytes) (fs0 : List Field) (ds : List (List Field)) : Prop where
  hdr : HdrOK hdr
  b0 : BlobOK fs0
  s0 : ScanOK fs0
  ver : 2 ≤ verOf fs0 0
  ds : ChainOK ds

/-- entries of the intact archive: blob 0 at offset 0, then the trailer chain -/
def archEntries (fs0 : List Field) (ds : List (List Field)) : List Entry :=
  ⟨0, tOf fs0 none⟩ :: chainEntries (off1 fs0) ds

theorem index_archG (v : Variant) (fin : Nat → Nat → Bytes) (hdr : Bytes) (fs0 : List Field)
    (ds : List (List Field)) (h : ArchOK hdr fs0 ds) (hfin : FinStopsArch v fin fs0 ds) :
    index v (archG fin hdr fs0 ds) = fixTimes v (archEntries fs0 ds) := by
  have hl0 := encFs_length_ge fs0
  have hlen : ds.length + 1 < (archG fin hdr fs0 ds).length + 1 := by
    have : ∀ (idx prev : Nat) (l : List (List Field)), l.length ≤ (chainG fin idx prev l).length := by
      intro idx prev l
      induction l generalizing idx prev with
      | nil => simp
      | cons d r ih =>
        simp only [chainG, List.length_append, List.length_cons, endBytes_length, trailerBytes_length]
        have := ih (idx + 1) (blobLen d); omega
    have := this 0 0 ds
    simp only [archG, List.length_append, h.hdr.len, endBytes_length]; omega
  obtain ⟨e1, e2⟩ := indexLoop_arch v fin hdr h.hdr fs0 h.b0 ds h.ds hfin _ hlen
  have hv : scanVersion v ((archG fin hdr fs0 ds).length + 1) (archG fin hdr fs0 ds) 0 = some (verOf fs0 0) :=
    scanVersion_arch v hdr h.hdr fs0 h.s0 _
  have hver : ¬ (verOf fs0 0 < 2) := by have := h.ver; omega
  simp only [index, openArchive, hv, hver, if_false, e2, Bool.false_eq_true, e1, archEntries]
  by_cases hre : (indexLoop v ((archG fin hdr fs0 ds).length + 1) 0 0 (archG fin hdr fs0 ds)).readError = true
  · simp [hre, OpenResult.entries]
  · simp [hre, OpenResult.entries]

theorem finIntact_stopsArch (v : Variant) (fs0 : List Field) (ds : List (List Field)) (hds : ChainOK ds) :
    FinStopsArch v finIntact fs0 ds := by
  cases ds with
  | nil =>
    refine ⟨by simp [finIntact, trailerBytes, le32], fun h => absurd h (by omega), Or.inl ?_⟩
    have : (finIntact 0 0).take 12 = trailerBytes 0 0 0 := by simp [finIntact, trailerBytes, le32]
    rw [this, trailer_next _ _ _ (by omega)]
  | cons d r =>
    have hm := lastBlob_mem (off1 fs0) d r
    exact finIntact_stops v _ _ _ _ (hds _ hm).2

/-- **archive theorem (index)**: the reader's index of a well-formed archive with `n` deltas has `n+1`
    entries, at the offsets of the trailer chain -/
theorem index_intact (v : Variant) (hdr : Bytes) (fs0 : List Field) (ds : List (List Field))
    (h : ArchOK hdr fs0 ds) : index v (archI hdr fs0 ds) = fixTimes v (archEntries fs0 ds) :=
  index_archG v finIntact hdr fs0 ds h (finIntact_stopsArch v fs0 ds h.ds)

theorem lastPrev_lt (ds : List (List Field)) (hds : ChainOK ds) : lastPrev 0 ds < 2147483648 := by
  cases ds with
  | nil => simp [lastPrev]
  | cons d r =>
    rw [lastPrev_lastBlob 0 0 d r]
    exact (hds _ (lastBlob_mem 0 d r)).2

/-- **crash theorem**: a crash at any byte `k` short of the end of an append leaves an image whose
    index is the index of the archive before the append -/
theorem crash_index (v : Variant) (hdr : Bytes) (fs0 : List Field) (ds : List (List Field)) (dn : List Field)
    (h : ArchOK hdr fs0 ds) (hdn : BlobOK dn) (hL : blobLen dn < 2147483648)
    (k : Nat) (hk : k < (pendingData ds dn).length) :
    index v (crash (archI hdr fs0 ds) ((archI hdr fs0 ds).length - 12) (pendingData ds dn) k)
      = index v (archI hdr fs0 ds) := by
  rw [crash_shape hdr fs0 ds _ k (by omega), index_intact v hdr fs0 ds h]
  apply index_archG v _ hdr fs0 ds h
  rw [pendingData_length] at hk
  have hp := lastPrev_lt ds h.ds
  cases ds with
  | nil =>
    simp only [FinStopsArch, pendingData, finIntact]
    exact crashFin_stops v _ (lastPrev 0 []) _ dn hdn hL hp 0 0 _ (fun hi => absurd hi (by omega)) k hk
  | cons d r =>
    have hpp := lastPrev_lastBlob 0 (off1 fs0) d r
    simp only [FinStopsArch, pendingData, finIntact]
    refine crashFin_stops v _ _ _ dn hdn hL hp _ _ _ ?_ k hk
    intro _
    rw [hpp]; omega

/-- the completed write gives the index of the archive with one more snapshot -/
theorem append_index (v : Variant) (hdr : Bytes) (fs0 : List Field) (ds : List (List Field)) (dn : List Field)
    (h : ArchOK hdr fs0 ds) (hdn : BlobOK dn) (hL : blobLen dn < 2147483648) :
    index v (crash (archI hdr fs0 ds) ((archI hdr fs0 ds).length - 12) (pendingData ds dn) (pendingData ds dn).length)
      = fixTimes v (archEntries fs0 (ds ++ [dn])) := by
  have : crash (archI hdr fs0 ds) ((archI hdr fs0 ds).length - 12) (pendingData ds dn) (pendingData ds dn).length
      = overwrite (archI hdr fs0 ds) ((archI hdr fs0 ds).length - 12) (pendingData ds dn) := by simp [crash]
  rw [this, append_shape]
  apply index_intact
  exact ⟨h.hdr, h.b0, h.s0, h.ver, fun x hx => by
    rcases List.mem_append.mp hx with hx | hx
    · exact h.ds x hx
    · simp only [List.mem_singleton] at hx; subst hx; exact ⟨hdn, hL⟩⟩

theorem chainEntries_length (pos : Nat) (ds : List (List Field)) : (chainEntries pos ds).length = ds.length := by
  induction ds generalizing pos with
  | nil => rfl
  | cons d r ih => simp [chainEntries, ih]

end RV.Bin
