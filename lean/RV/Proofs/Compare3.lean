import RV.Proofs.Compare2
/-
  From a row-by-row relation between two encoded simulations to `compare = false`.
-/
set_option linter.unusedVariables false
set_option linter.unusedSimpArgs false
namespace RV.Persist

/-- row `d` emits nothing in both streams, or one field with its own id in each and the payloads do not differ -/
def RowRel (specs : List CmpSpec) (tbl : List Desc) (g1 g2 : Desc → List Field) (d : Desc) : Prop :=
  (g1 d = [] ∧ g2 d = []) ∨
  ∃ p q, g1 d = [(d.id, p)] ∧ g2 d = [(d.id, q)] ∧
    (payloadDiffer specs (descForType tbl d.id) p q = false ∨ wallOf tbl d.id = true)

theorem findField_append_left (l t : List Field) (id : Nat) (p : Bytes) (h : findField l id = some p) :
    findField (l ++ t) id = some p := by
  unfold findField at h ⊢
  rw [List.find?_append]
  cases hf : l.find? (fun f => f.1 = id) with
  | none => simp [hf] at h
  | some f => simp [hf] at h ⊢; exact h

theorem findField_append_right (l t : List Field) (id : Nat) (h : ∀ f ∈ l, f.1 ≠ id) :
    findField (l ++ t) id = findField t id := by
  unfold findField
  rw [List.find?_append]
  have : l.find? (fun f => f.1 = id) = none := by
    apply List.find?_eq_none.mpr
    intro f hf
    simpa using h f hf
  rw [this]; simp

theorem findField_flatMap (ds : List Desc) (g : Desc → List Field) (hn : (ds.map (·.id)).Nodup)
    (hg : ∀ d ∈ ds, ∀ f ∈ g d, f.1 = d.id) (d : Desc) (hd : d ∈ ds) (q : Bytes) (hq : g d = [(d.id, q)]) :
    findField (ds.flatMap g) d.id = some q := by
  induction ds with
  | nil => simp at hd
  | cons a r ih =>
    simp only [List.map_cons, List.nodup_cons] at hn
    rw [List.flatMap_cons]
    rcases List.mem_cons.mp hd with h | h
    · subst h
      rw [hq]
      simp [findField]
    · have hne : a.id ≠ d.id := by
        intro e; apply hn.1; rw [e]; exact List.mem_map_of_mem h
      rw [findField_append_right]
      · exact ih hn.2 (fun x hx => hg x (List.mem_cons_of_mem _ hx)) h
      · intro f hf
        rw [hg a (by simp) f hf]
        exact hne

theorem body_append (sp : Special) (l t : List Field) (h : ∀ f ∈ l, f.1 ≠ sp.endId) :
    body sp (l ++ t) = l ++ body sp t := by
  induction l with
  | nil => rfl
  | cons a r ih =>
    have ha : a.1 ≠ sp.endId := h a (by simp)
    simp only [List.cons_append, body, ha, if_false]
    rw [ih (fun f hf => h f (List.mem_cons_of_mem _ hf))]

/-- two streams built row by row from the same table, related row-wise, with the same tail
    (function-pointer flag, END) compare equal -/
theorem compare_of_rows (sp : Special) (specs : List CmpSpec) (tbl : List Desc) (ds : List Desc)
    (g1 g2 : Desc → List Field) (fpf : Field)
    (hn : (ds.map (·.id)).Nodup)
    (hend : ∀ d ∈ ds, d.id ≠ sp.endId) (hfpend : fpf.1 ≠ sp.endId)
    (hfpfresh : ∀ d ∈ ds, d.id = fpf.1 → g1 d = [] ∧ g2 d = [])
    (hfpok : payloadDiffer specs (descForType tbl fpf.1) fpf.2 fpf.2 = false ∨ wallOf tbl fpf.1 = true)
    (hrel : ∀ d ∈ ds, RowRel specs tbl g1 g2 d) :
    compare sp specs tbl (ds.flatMap g1 ++ [fpf, (sp.endId, [])]) (ds.flatMap g2 ++ [fpf, (sp.endId, [])]) = false := by
  have hid1 : ∀ d ∈ ds, ∀ f ∈ g1 d, f.1 = d.id := by
    intro d hd f hf
    rcases hrel d hd with ⟨h1, _⟩ | ⟨p, q, h1, _, _⟩
    · rw [h1] at hf; simp at hf
    · rw [h1] at hf; simp at hf; rw [hf]
  have hid2 : ∀ d ∈ ds, ∀ f ∈ g2 d, f.1 = d.id := by
    intro d hd f hf
    rcases hrel d hd with ⟨_, h2⟩ | ⟨p, q, _, h2, _⟩
    · rw [h2] at hf; simp at hf
    · rw [h2] at hf; simp at hf; rw [hf]
  have hne1 : ∀ f ∈ ds.flatMap g1, f.1 ≠ sp.endId := by
    intro f hf
    obtain ⟨d, hd, hfd⟩ := List.mem_flatMap.mp hf
    rw [hid1 d hd f hfd]; exact hend d hd
  have hne2 : ∀ f ∈ ds.flatMap g2, f.1 ≠ sp.endId := by
    intro f hf
    obtain ⟨d, hd, hfd⟩ := List.mem_flatMap.mp hf
    rw [hid2 d hd f hfd]; exact hend d hd
  have htail : body sp [fpf, (sp.endId, [])] = [fpf] := by
    simp [body, hfpend]
  rw [compare_false_iff, body_append sp _ _ hne1, body_append sp _ _ hne2, htail]
  have hfp1 : ∀ f ∈ ds.flatMap g1, f.1 ≠ fpf.1 := by
    intro f hf
    obtain ⟨d, hd, hfd⟩ := List.mem_flatMap.mp hf
    rw [hid1 d hd f hfd]
    intro e
    rw [(hfpfresh d hd e).1] at hfd
    simp at hfd
  have hfp2 : ∀ f ∈ ds.flatMap g2, f.1 ≠ fpf.1 := by
    intro f hf
    obtain ⟨d, hd, hfd⟩ := List.mem_flatMap.mp hf
    rw [hid2 d hd f hfd]
    intro e
    rw [(hfpfresh d hd e).2] at hfd
    simp at hfd
  refine ⟨?_, ?_⟩
  · intro f hf
    rcases List.mem_append.mp hf with h | h
    · obtain ⟨d, hd, hfd⟩ := List.mem_flatMap.mp h
      rcases hrel d hd with ⟨h1, _⟩ | ⟨p, q, h1, h2, hok⟩
      · rw [h1] at hfd; simp at hfd
      · rw [h1] at hfd
        simp at hfd
        subst hfd
        refine ⟨q, ?_, hok⟩
        exact findField_append_left _ _ _ _ (findField_flatMap ds g2 hn hid2 d hd q h2)
    · simp at h
      subst h
      refine ⟨f.2, ?_, hfpok⟩
      rw [findField_append_right _ _ _ hfp2]
      simp [findField]
  · intro f hf
    rcases List.mem_append.mp hf with h | h
    · obtain ⟨d, hd, hfd⟩ := List.mem_flatMap.mp h
      rcases hrel d hd with ⟨_, h2⟩ | ⟨p, q, h1, h2, hok⟩
      · rw [h2] at hfd; simp at hfd
      · rw [h2] at hfd
        simp at hfd
        subst hfd
        rw [findField_append_left _ _ _ _ (findField_flatMap ds g1 hn hid1 d hd p h1)]
        rfl
    · simp at h
      subst h
      rw [findField_append_right _ _ _ hfp1]
      simp [findField]

end RV.Persist
