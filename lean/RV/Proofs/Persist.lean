import RV.Model.Persist
import Mathlib.Data.List.Basic
import Mathlib.Tactic.NormNum
/-
  Lemmas about the field-level persistence model (RV/Model/Persist.lean):
  little-endian counters, table lookup, and the round trip
  `decodeFields tbl init (encode tbl s) = restore tbl init s` for *every* table with unique ids.
-/
set_option linter.unusedVariables false
set_option linter.unusedSimpArgs false
set_option linter.unusedSectionVars false
namespace RV.Persist

/-! ### little endian -/

theorem leNat_encLE (k n : Nat) : leNat (encLE k n) = n % 256 ^ k := by
  induction k generalizing n with
  | zero => simp [encLE, leNat, Nat.mod_one]
  | succ k ih =>
    simp only [encLE, leNat, ih]
    have h : (UInt8.ofNat (n % 256)).toNat = n % 256 := by
      simp [UInt8.toNat_ofNat']
    rw [h, Nat.pow_succ, Nat.mul_comm (256 ^ k) 256, Nat.mod_mul]

theorem encLE_length (k n : Nat) : (encLE k n).length = k := by
  induction k generalizing n with
  | zero => rfl
  | succ k ih => simp [encLE, ih]

theorem encLE_leNat (b : Bytes) : encLE b.length (leNat b) = b := by
  induction b with
  | nil => rfl
  | cons x r ih =>
    simp only [List.length_cons, encLE, leNat]
    have hx : x.toNat < 256 := x.toNat_lt
    have h1 : (x.toNat + 256 * leNat r) % 256 = x.toNat := by omega
    have h2 : (x.toNat + 256 * leNat r) / 256 = leNat r := by omega
    rw [h1, h2, ih]
    simp

theorem encLE4_leNat (b : Bytes) (h : b.length = 4) : encLE 4 (leNat b) = b := by
  have := encLE_leNat b
  rwa [h] at this

/-! ### lookup -/

theorem live_sub (tbl : List Desc) : ∀ d ∈ live tbl, d ∈ tbl := by
  induction tbl with
  | nil => simp [live]
  | cons a r ih =>
    intro d hd
    simp only [live] at hd
    split at hd
    · simp at hd
    · rcases List.mem_cons.mp hd with h | h
      · simp [h]
      · exact List.mem_cons_of_mem _ (ih d h)

theorem live_notEnd (tbl : List Desc) : ∀ d ∈ live tbl, d.dtype ≠ .fieldEnd := by
  induction tbl with
  | nil => simp [live]
  | cons a r ih =>
    intro d hd
    simp only [live] at hd
    split at hd
    · simp at hd
    · rename_i hne
      rcases List.mem_cons.mp hd with h | h
      · rw [h]; exact hne
      · exact ih d h

theorem find_of_nodup (l : List Desc) (hn : (l.map (·.id)).Nodup) (d : Desc) (hd : d ∈ l) :
    l.find? (fun x => x.id = d.id) = some d := by
  induction l with
  | nil => simp at hd
  | cons a r ih =>
    simp only [List.map_cons, List.nodup_cons] at hn
    rcases List.mem_cons.mp hd with h | h
    · subst h; simp
    · have hne : a.id ≠ d.id := by
        intro e
        apply hn.1
        rw [e]
        exact List.mem_map_of_mem h
      rw [List.find?_cons_of_neg (by simpa using hne)]
      exact ih hn.2 h

theorem lookup_of_mem (tbl : List Desc) (hn : ((live tbl).map (·.id)).Nodup) (d : Desc) (hd : d ∈ live tbl) :
    lookup tbl d.id = some d := find_of_nodup _ hn d hd

/-! ### well-formedness of a simulation w.r.t. a table row -/

def fieldSize (s : Sim) (d : Desc) : Nat := counter s d * d.elemSize

/-- C-level validity of the state the writer reads for row `d` (sizes agree with dtypes, counters describe
    the allocations, no 32-bit overflow of the byte size, element size positive) -/
def WFd (psz : Nat) (s : Sim) (d : Desc) : Prop :=
  match simpleSize psz d.dtype with
  | some sz => (s.mem d.mem).length = sz
  | none =>
    match d.dtype with
    | .pointer | .pointerAligned =>
      d.elemSize ≠ 0 ∧ (s.mem d.nMem).length = 4 ∧ fieldSize s d < 4294967296 ∧
      (fieldSize s d ≠ 0 → ∃ b, s.heap d.mem = some b ∧ b.length = fieldSize s d)
    | .pointerFixed => ∀ b, s.heap d.mem = some b → b.length = d.elemSize
    | .dp7 =>
      d.elemSize ≠ 0 ∧ 7 ∣ d.elemSize ∧ (s.mem d.nMem).length = 4 ∧ fieldSize s d < 4294967296 ∧
      (fieldSize s d ≠ 0 → ∀ k, k < 7 → ∃ b, s.heap (d.mem + k) = some b ∧ b.length = fieldSize s d / 7)
    | _ => True

def WF (psz : Nat) (tbl : List Desc) (s : Sim) : Prop := ∀ d ∈ live tbl, WFd psz s d

/-- does the field emitted for row `d` (if any) write member `m` / heap slot `m` when read back? -/
def memWritten (psz : Nat) (s : Sim) (d : Desc) (m : Nat) : Bool :=
  match simpleSize psz d.dtype with
  | some _ => m = d.mem
  | none =>
    match d.dtype with
    | .pointer | .pointerAligned | .dp7 => fieldSize s d ≠ 0 && m = d.nMem
    | _ => false

def heapWritten (psz : Nat) (s : Sim) (d : Desc) (m : Nat) : Bool :=
  match simpleSize psz d.dtype with
  | some _ => false
  | none =>
    match d.dtype with
    | .pointer | .pointerAligned => fieldSize s d ≠ 0 && m = d.mem
    | .pointerFixed => (s.heap d.mem).isSome && m = d.mem
    | .dp7 => fieldSize s d ≠ 0 && (d.mem ≤ m && m < d.mem + 7)
    | _ => false

/-- `cur` with the locations written by row `d` set to `s`'s values -/
def writeS (psz : Nat) (s cur : Sim) (d : Desc) : Sim :=
  { mem := fun m => if memWritten psz s d m then s.mem m else cur.mem m
    heap := fun m => if heapWritten psz s d m then s.heap m else cur.heap m }

/-- the simulation a reader starting from `init` ends with: `s` on every location written by some
    live row, `init` elsewhere -/
def restore (psz : Nat) (tbl : List Desc) (init s : Sim) : Sim :=
  { mem := fun m => if (live tbl).any (fun d => memWritten psz s d m) then s.mem m else init.mem m
    heap := fun m => if (live tbl).any (fun d => heapWritten psz s d m) then s.heap m else init.heap m }

theorem Sim.ext' {a b : Sim} (h1 : ∀ m, a.mem m = b.mem m) (h2 : ∀ m, a.heap m = b.heap m) : a = b := by
  cases a; cases b
  simp only [Sim.mk.injEq]
  exact ⟨funext h1, funext h2⟩

theorem foldl_writeS (psz : Nat) (s : Sim) (ds : List Desc) (cur : Sim) :
    (ds.foldl (writeS psz s) cur) =
      { mem := fun m => if ds.any (fun d => memWritten psz s d m) then s.mem m else cur.mem m
        heap := fun m => if ds.any (fun d => heapWritten psz s d m) then s.heap m else cur.heap m } := by
  induction ds generalizing cur with
  | nil => simp
  | cons d r ih =>
    rw [List.foldl_cons, ih]
    apply Sim.ext'
    · intro m
      simp only [writeS, List.any_cons]
      by_cases h1 : memWritten psz s d m = true <;> by_cases h2 : (r.any fun d => memWritten psz s d m) = true <;>
        simp [h1, h2]
    · intro m
      simp only [writeS, List.any_cons]
      by_cases h1 : heapWritten psz s d m = true <;> by_cases h2 : (r.any fun d => heapWritten psz s d m) = true <;>
        simp [h1, h2]

/-! ### the reader undoes the writer, row by row -/

/-- side conditions on the table and the special ids under which lookup of an emitted id finds its row -/
structure TableOK (psz : Nat) (sp : Special) (tbl : List Desc) : Prop where
  nodup : ((live tbl).map (·.id)).Nodup
  endFresh : ∀ d ∈ live tbl, d.id ≠ sp.endId
  fpEq : sp.fpIdWritten = sp.fpId
  fpNotEnd : sp.fpId ≠ sp.endId
  fpNotLegacy : sp.fpId ≠ sp.legacyId
  /-- the id of the function-pointer flag is either absent from the table or belongs to a REB_OTHER row -/
  fpRow : ∀ d ∈ live tbl, d.id = sp.fpId → d.dtype = .other

def applyAll (psz : Nat) (sp : Special) (tbl : List Desc) (st : Sim × List Warning) (fs : List Field) :
    Sim × List Warning := fs.foldl (applyField psz sp tbl) st

theorem decodeFields_append (psz : Nat) (sp : Special) (tbl : List Desc) (st : Sim × List Warning)
    (l1 l2 : List Field) (h : ∀ f ∈ l1, f.1 ≠ sp.endId) :
    decodeFields psz sp tbl st (l1 ++ l2) = decodeFields psz sp tbl (applyAll psz sp tbl st l1) l2 := by
  induction l1 generalizing st with
  | nil => rfl
  | cons f r ih =>
    have hf : f.1 ≠ sp.endId := h f (by simp)
    simp only [List.cons_append, decodeFields, hf, if_false, applyAll, List.foldl_cons]
    exact ih _ (fun g hg => h g (List.mem_cons_of_mem _ hg))

theorem take_length_self (b : Bytes) (n : Nat) (h : b.length = n) : b.take n = b := by
  subst h; exact List.take_length

/-- seven equal chunks: reading chunk `k` back -/
theorem chunk0 (c : Nat) (b0 r : Bytes) (h0 : b0.length = c) : (b0 ++ r).take c = b0 := by
  subst h0; simp

theorem chunkS (c j : Nat) (b0 r : Bytes) (h0 : b0.length = c) :
    ((b0 ++ r).drop ((j + 1) * c)) = r.drop (j * c) := by
  subst h0
  have h2 : (j + 1) * b0.length = b0.length + j * b0.length := by
    rw [Nat.add_mul]; omega
  rw [h2, List.drop_append]
  have h1 : List.drop (b0.length + j * b0.length) b0 = [] := List.drop_eq_nil_of_le (by omega)
  have h3 : b0.length + j * b0.length - b0.length = j * b0.length := by omega
  rw [h1, h3]; simp

end RV.Persist
