import RV.Model.Particles
import Mathlib.Tactic.Linarith
import Mathlib.Tactic.Ring
/-
  The Python container's slices (rebound/particles.py:40-41, CPython `slice.indices`): arithmetic facts
  about `pySliceBounds`, `rangeCount`, `rangeList` (property C14).
-/
set_option linter.unusedVariables false
namespace RV.Particles

theorem mem_rangeList (step : Int) : ∀ (cnt : Nat) (s x : Int),
    x ∈ rangeList s step cnt ↔ ∃ m : Nat, m < cnt ∧ x = s + m * step := by
  intro cnt
  induction cnt with
  | zero => intro s x; simp [rangeList]
  | succ k ih =>
    intro s x
    simp only [rangeList, List.mem_cons, ih]
    constructor
    · rintro (h | ⟨m, hm, hx⟩)
      · exact ⟨0, by omega, by simp [h]⟩
      · exact ⟨m + 1, by omega, by rw [hx]; push_cast; ring⟩
    · rintro ⟨m, hm, hx⟩
      cases m with
      | zero => left; simpa using hx
      | succ j => right; exact ⟨j, by omega, by rw [hx]; push_cast; ring⟩

/-- `range(s, e, step)` for `step > 0` contains `s + m*step` exactly while it stays below `e` -/
theorem lt_count_iff_pos (s e step : Int) (hs : 0 < step) (m : Nat) :
    m < rangeCount s e step ↔ s + m * step < e := by
  unfold rangeCount
  rw [if_pos hs]
  by_cases hse : s < e
  · rw [if_pos hse]
    have hq : 0 ≤ (e - s - 1) / step := Int.ediv_nonneg (by omega) (by omega)
    have h1 : (e - s - 1) / step * step ≤ e - s - 1 := Int.ediv_mul_le _ (by omega)
    have h2 : e - s - 1 < ((e - s - 1) / step + 1) * step := Int.lt_ediv_add_one_mul_self _ hs
    constructor
    · intro hm
      have : (m : Int) ≤ (e - s - 1) / step := by omega
      nlinarith
    · intro hm
      by_contra hcon
      have : (e - s - 1) / step + 1 ≤ (m : Int) := by omega
      nlinarith
  · rw [if_neg hse]
    simp only [Int.toNat_zero, Nat.not_lt_zero, false_iff]
    have : (0 : Int) ≤ m * step := by positivity
    omega

/-- … and for `step < 0` exactly while it stays above `e` -/
theorem lt_count_iff_neg (s e step : Int) (hs : step < 0) (m : Nat) :
    m < rangeCount s e step ↔ e < s + m * step := by
  unfold rangeCount
  rw [if_neg (by omega)]
  have hn : 0 < -step := by omega
  by_cases hse : e < s
  · rw [if_pos hse]
    have hq : 0 ≤ (s - e - 1) / (-step) := Int.ediv_nonneg (by omega) (by omega)
    have h1 : (s - e - 1) / (-step) * (-step) ≤ s - e - 1 := Int.ediv_mul_le _ (by omega)
    have h2 : s - e - 1 < ((s - e - 1) / (-step) + 1) * (-step) := Int.lt_ediv_add_one_mul_self _ hn
    constructor
    · intro hm
      have : (m : Int) ≤ (s - e - 1) / (-step) := by omega
      nlinarith
    · intro hm
      by_contra hcon
      have : (s - e - 1) / (-step) + 1 ≤ (m : Int) := by omega
      nlinarith
  · rw [if_neg hse]
    simp only [Int.toNat_zero, Nat.not_lt_zero, false_iff]
    have : (m : Int) * step ≤ 0 := by
      have : (0 : Int) ≤ m := by positivity
      nlinarith
    omega

/-- the normalised bounds lie in the documented windows -/
theorem pySliceBounds_range (n : Nat) (start stop : Option Int) (step : Int) :
    (0 < step → 0 ≤ (pySliceBounds n start stop step).1 ∧ (pySliceBounds n start stop step).1 ≤ n ∧
                0 ≤ (pySliceBounds n start stop step).2 ∧ (pySliceBounds n start stop step).2 ≤ n) ∧
    (step < 0 → -1 ≤ (pySliceBounds n start stop step).1 ∧ (pySliceBounds n start stop step).1 ≤ (n : Int) - 1 ∧
                -1 ≤ (pySliceBounds n start stop step).2 ∧ (pySliceBounds n start stop step).2 ≤ (n : Int) - 1) := by
  unfold pySliceBounds
  constructor
  · intro hs
    have h1 : ¬ step < 0 := by omega
    simp only [h1, if_false]
    cases start <;> cases stop <;> simp only [] <;> (repeat' split) <;> omega
  · intro hs
    simp only [hs, if_true]
    cases start <;> cases stop <;> simp only [] <;> (repeat' split) <;> omega

theorem pySlice_mem (n : Nat) (start stop : Option Int) (step : Int) (hk : step ≠ 0) (x : Int) :
    x ∈ pySlice n start stop step ↔
      ∃ m : Nat, x = (pySliceBounds n start stop step).1 + m * step ∧
        (0 < step → x < (pySliceBounds n start stop step).2) ∧
        (step < 0 → (pySliceBounds n start stop step).2 < x) := by
  unfold pySlice
  simp only []
  rw [mem_rangeList]
  rcases lt_or_gt_of_ne hk with hneg | hpos
  · constructor
    · rintro ⟨m, hm, hx⟩
      exact ⟨m, hx, fun h => absurd h (by omega), fun _ => by rw [hx]; exact (lt_count_iff_neg _ _ _ hneg m).mp hm⟩
    · rintro ⟨m, hx, _, h2⟩
      exact ⟨m, (lt_count_iff_neg _ _ _ hneg m).mpr (by rw [← hx]; exact h2 hneg), hx⟩
  · constructor
    · rintro ⟨m, hm, hx⟩
      exact ⟨m, hx, fun _ => by rw [hx]; exact (lt_count_iff_pos _ _ _ hpos m).mp hm, fun h => absurd h (by omega)⟩
    · rintro ⟨m, hx, h1, _⟩
      exact ⟨m, (lt_count_iff_pos _ _ _ hpos m).mpr (by rw [← hx]; exact h1 hpos), hx⟩

theorem pySlice_in_bounds (n : Nat) (start stop : Option Int) (step : Int) (hk : step ≠ 0) (x : Int)
    (hx : x ∈ pySlice n start stop step) : 0 ≤ x ∧ x < n := by
  obtain ⟨m, e, h1, h2⟩ := (pySlice_mem n start stop step hk x).mp hx
  have hb := pySliceBounds_range n start stop step
  rcases lt_or_gt_of_ne hk with hneg | hpos
  · obtain ⟨b1, b2, b3, b4⟩ := hb.2 hneg
    have := h2 hneg
    have hm : (m : Int) * step ≤ 0 := by
      have : (0 : Int) ≤ m := by positivity
      nlinarith
    omega
  · obtain ⟨b1, b2, b3, b4⟩ := hb.1 hpos
    have := h1 hpos
    have hm : (0 : Int) ≤ m * step := by positivity
    omega

/-- `s[:]` is everything -/
theorem pySlice_all (n : Nat) (x : Int) : x ∈ pySlice n none none 1 ↔ 0 ≤ x ∧ x < n := by
  rw [pySlice_mem n none none 1 (by omega)]
  simp only [pySliceBounds]
  constructor
  · rintro ⟨m, e, h1, _⟩
    have := h1 (by omega)
    simp at e this
    omega
  · rintro ⟨h0, h1⟩
    refine ⟨x.toNat, by simp; omega, fun _ => by simpa using h1, fun h => absurd h (by omega)⟩


end RV.Particles
