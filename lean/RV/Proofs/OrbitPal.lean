import RV.Proofs.OrbitAngles
/-
  C11 (ii), Pal (2009) elements: the reader applied to the particle `fromPal` built returns
  the Pal elements it was built from, given (p, q) solving Pal's Kepler equation.
-/
set_option linter.unusedSimpArgs false
set_option linter.unusedVariables false
set_option linter.unusedSectionVars false
set_option linter.unusedTactic false
namespace RV.Orbit
variable {K : Type} [Field K] [LinearOrder K] [IsStrictOrderedRing K]

theorem pal_I1 (c s l h k : K) (hcs : c ^ 2 + s ^ 2 = 1) (hl : (1 - l) ^ 2 = 1 - h ^ 2 - k ^ 2) :
    let p := k * s - h * c; let q := k * c + h * s
    let D2 := 2 - l; let D1 := 1 - q
    let Xi := c * D2 + p * h - k * D2; let Eta := s * D2 - p * k - h * D2
    let Xi1 := -s * D2 + q * h; let Eta1 := c * D2 - q * k
    Xi ^ 2 + Eta ^ 2 = D2 ^ 2 * D1 ^ 2 ∧
    Xi * Eta1 - Eta * Xi1 = D2 ^ 2 * D1 * (1 - l) ∧
    (1 - l) * Eta1 - Xi = k * D1 * D2 ∧
    -(1 - l) * Xi1 - Eta = h * D1 * D2 ∧
    Xi1 ^ 2 + Eta1 ^ 2 = D2 ^ 2 * (1 - q) * (1 + q) := by
  intro p q D2 D1 Xi Eta Xi1 Eta1
  have hl' : (1 - l) ^ 2 - 1 + h ^ 2 + k ^ 2 = 0 := by linear_combination hl
  have hcs' : c ^ 2 + s ^ 2 - 1 = 0 := by linear_combination hcs
  refine ⟨?_, ?_, ?_, ?_, ?_⟩
  · simp only [Xi, Eta, D2, D1, p, q]
    linear_combination (h^2*k^2 - h^2*l^2 + 4*h^2*l - 4*h^2 + k^4 + 2*k^2*l - 4*k^2 + l^2 - 4*l + 4) * hcs' + (c^2*h^2 - c^2*k^2 - 2*c*h*k*s + k^2) * hl'
  · simp only [Xi, Eta, Xi1, Eta1, D2, D1, p, q]
    linear_combination ((l - 2)*(h^2 + k^2 + l - 2)) * hcs' + (-(l - 2)*(c*k + h*s - 1)) * hl'
  · simp only [Xi, Eta1, D2, D1, p, q]
    linear_combination (c) * hl'
  · simp only [Xi1, Eta, D2, D1, p, q]
    linear_combination (s) * hl'
  · simp only [Xi1, Eta1, D2, D1, p, q]
    linear_combination (h^4 + h^2*k^2 + h^2*l^2 - 2*h^2*l + l^2 - 4*l + 4) * hcs' + (-c^2*h^2 + c^2*k^2 + 2*c*h*k*s + h^2) * hl'

/-- Pal's rotation by (ix, iy, iz), iz² = 4 - ix² - iy²: norms, angular momentum, and the
    combinations the reader forms -/
theorem pal_rotation (xi eta dxi deta ix iy iz : K) (hiz : iz ^ 2 = 4 - ix ^ 2 - iy ^ 2)
    (hC : xi * deta - eta * dxi ≠ 0) (hiz0 : iz ≠ 0) :
    let W := eta * ix - xi * iy; let dW := deta * ix - dxi * iy
    let X := xi + 1 / 2 * iy * W; let Y := eta - 1 / 2 * ix * W; let Z := 1 / 2 * iz * W
    let VX := dxi + 1 / 2 * iy * dW; let VY := deta - 1 / 2 * ix * dW; let VZ := 1 / 2 * iz * dW
    let C := xi * deta - eta * dxi
    let HX := Y * VZ - Z * VY; let HY := Z * VX - X * VZ; let HZ := X * VY - Y * VX
    X * X + Y * Y + Z * Z = xi ^ 2 + eta ^ 2 ∧ VX * VX + VY * VY + VZ * VZ = dxi ^ 2 + deta ^ 2 ∧
    HX = C * iy * iz / 2 ∧ HY = -(C * ix * iz / 2) ∧ HZ = C * (1 - (ix ^ 2 + iy ^ 2) / 2) ∧
    HX * HX + HY * HY + HZ * HZ = C * C ∧ C + HZ = C * iz ^ 2 / 2 ∧
    X - Z / (C + HZ) * HX = xi ∧ Y - Z / (C + HZ) * HY = eta ∧
    VY - VZ / (C + HZ) * HY = deta ∧ -VX + VZ / (C + HZ) * HX = -dxi := by
  intro W dW X Y Z VX VY VZ C HX HY HZ
  have hiz' : iz ^ 2 - 4 + ix ^ 2 + iy ^ 2 = 0 := by linear_combination hiz
  have hC' : C ≠ 0 := hC
  have e1 : HX = C * iy * iz / 2 := by simp only [HX, Y, Z, VY, VZ, W, dW, C]; ring
  have e2 : HY = -(C * ix * iz / 2) := by simp only [HY, X, Z, VX, VZ, W, dW, C]; ring
  have e3 : HZ = C * (1 - (ix ^ 2 + iy ^ 2) / 2) := by simp only [HZ, X, Y, VX, VY, W, dW, C]; ring
  have e4 : C + HZ = C * iz ^ 2 / 2 := by rw [e3]; linear_combination (-C / 2) * hiz'
  have hden : C + HZ ≠ 0 := by
    rw [e4]; exact div_ne_zero (mul_ne_zero hC (pow_ne_zero 2 hiz0)) (by norm_num)
  have hzx : Z / (C + HZ) * HX = 1 / 2 * iy * W := by
    rw [e4, e1]; simp only [Z]; field_simp
  have hzy : Z / (C + HZ) * HY = -(1 / 2 * ix * W) := by
    rw [e4, e2]; simp only [Z]; field_simp
  have hvy : VZ / (C + HZ) * HY = -(1 / 2 * ix * dW) := by
    rw [e4, e2]; simp only [VZ]; field_simp
  have hvx : VZ / (C + HZ) * HX = 1 / 2 * iy * dW := by
    rw [e4, e1]; simp only [VZ]; field_simp
  refine ⟨?_, ?_, e1, e2, e3, ?_, e4, ?_, ?_, ?_, ?_⟩
  · simp only [X, Y, Z, W]; linear_combination ((eta*ix - iy*xi)^2/4) * hiz'
  · simp only [VX, VY, VZ, dW]; linear_combination ((deta*ix - dxi*iy)^2/4) * hiz'
  · rw [e1, e2, e3]; linear_combination (C ^ 2 * (ix ^ 2 + iy ^ 2) / 4) * hiz'
  · rw [hzx]; simp only [X]; ring
  · rw [hzy]; simp only [Y]; ring
  · rw [hvy]; simp only [VY]; ring
  · rw [hvx]; simp only [VX]; ring

/-- in-plane relations with divisions, from the scaled polynomial identities -/
theorem pal_inplane_scaled (a an l D1 D2 Xi Eta Xi1 Eta1 kk hh q : K)
    (ha : a ≠ 0) (han : an ≠ 0) (hD1 : D1 ≠ 0) (hD2 : D2 ≠ 0)
    (I1 : Xi ^ 2 + Eta ^ 2 = D2 ^ 2 * D1 ^ 2)
    (I2 : Xi * Eta1 - Eta * Xi1 = D2 ^ 2 * D1 * (1 - l))
    (I4 : (1 - l) * Eta1 - Xi = kk * D1 * D2)
    (I5 : -(1 - l) * Xi1 - Eta = hh * D1 * D2)
    (I6 : Xi1 ^ 2 + Eta1 ^ 2 = D2 ^ 2 * D1 * (1 + q)) :
    let xi := a * Xi / D2; let eta := a * Eta / D2
    let dxi := an / D1 * (Xi1 / D2); let deta := an / D1 * (Eta1 / D2)
    xi ^ 2 + eta ^ 2 = (a * D1) ^ 2 ∧ xi * deta - eta * dxi = a * an * (1 - l) ∧
    a * an * (1 - l) / (an ^ 2 * a) * deta - 1 / (a * D1) * xi = kk ∧
    a * an * (1 - l) / (an ^ 2 * a) * (-dxi) - 1 / (a * D1) * eta = hh ∧
    dxi ^ 2 + deta ^ 2 = an ^ 2 * (1 + q) / D1 := by
  intro xi eta dxi deta
  refine ⟨?_, ?_, ?_, ?_, ?_⟩
  · simp only [xi, eta]; field_simp; linear_combination I1
  · simp only [xi, eta, dxi, deta]; field_simp; linear_combination I2
  · simp only [xi, deta]; field_simp; linear_combination I4
  · simp only [eta, dxi]; field_simp; linear_combination I5
  · simp only [dxi, deta]; field_simp; linear_combination I6

variable {L : Libm K}

theorem palCore_rel (pr : Part K) (m a k h ix iy p q slp clp l iz an : K) :
    let P := fromPalCore pr m a k h ix iy p q slp clp l iz an
    let xi := a * (clp + p / (2 - l) * h - k); let eta := a * (slp - p / (2 - l) * k - h)
    let dxi := an / (1 - q) * (-slp + q / (2 - l) * h); let deta := an / (1 - q) * (clp - q / (2 - l) * k)
    let W := eta * ix - xi * iy; let dW := deta * ix - dxi * iy
    P.x - pr.x = xi + 1 / 2 * iy * W ∧ P.y - pr.y = eta - 1 / 2 * ix * W ∧ P.z - pr.z = 1 / 2 * iz * W ∧
    P.vx - pr.vx = dxi + 1 / 2 * iy * dW ∧ P.vy - pr.vy = deta - 1 / 2 * ix * dW ∧ P.vz - pr.vz = 1 / 2 * iz * dW ∧
    P.m = m := by
  simp only [fromPalCore, half, two, sc_hadd, sc_hmul, sc_hsub, sc_hdiv, sc_hneg, sc_neg, sc_one, sc_ofNat, Nat.cast_ofNat]
  refine ⟨?_, ?_, ?_, ?_, ?_, ?_, trivial⟩ <;> ring

theorem orbitBody_pal (v : Variant) (i : Inv K) (t0 : K) :
    let o := @orbitBody K L.orbitK v i t0
    o.pal_k = i.h / i.mu * (i.dvy - i.dvz / (i.h + i.hz) * i.hy) - 1 / i.d * (i.dx - i.dz / (i.h + i.hz) * i.hx) ∧
    o.pal_h = i.h / i.mu * (-i.dvx + i.dvz / (i.h + i.hz) * i.hx) - 1 / i.d * (i.dy - i.dz / (i.h + i.hz) * i.hy) ∧
    o.pal_ix = -(L.sqrt (2 / (1 + i.hz / i.h)) / i.h) * i.hy ∧
    o.pal_iy = L.sqrt (2 / (1 + i.hz / i.h)) / i.h * i.hx ∧
    o.a = i.a ∧ o.d = i.d :=
  ⟨rfl, rfl, rfl, rfl, rfl, rfl⟩

theorem invariants_rel2 (G : K) (P pr : Part K) :
    let i := @invariants K L.orbitK G P pr
    i.mu = G * (P.m + pr.m) ∧ i.dvx = P.vx - pr.vx ∧ i.dvy = P.vy - pr.vy ∧ i.dvz = P.vz - pr.vz ∧
    i.d = L.sqrt (i.dx * i.dx + i.dy * i.dy + i.dz * i.dz) ∧
    i.a = -i.mu / (i.dvx * i.dvx + i.dvy * i.dvy + i.dvz * i.dvz - 2 * (i.mu / i.d)) :=
  ⟨rfl, rfl, rfl, rfl, rfl, rfl⟩

/-- reader ∘ Pal constructor, given the straight-line core and its inputs' defining relations -/
theorem reader_of_palCore (hsqrt : ∀ x, 0 ≤ x → 0 ≤ L.sqrt x ∧ L.sqrt x ^ 2 = x)
    (v : Variant) (G : K) (pr : Part K) (m a k h ix iy p q s c l iz an t0 : K) (o : Orb K)
    (ho : @orbitFromParticle K L.orbitK v G (fromPalCore pr m a k h ix iy p q s c l iz an) pr t0 = .ok o)
    (hcs : c ^ 2 + s ^ 2 = 1) (hp : p = k * s - h * c) (hq : q = k * c + h * s)
    (hl : (1 - l) ^ 2 = 1 - h ^ 2 - k ^ 2) (hl0 : 0 < 1 - l)
    (hiz : iz ^ 2 = 4 - ix ^ 2 - iy ^ 2) (hiz0 : 0 < iz)
    (han : an ^ 2 = G * (m + pr.m) / a) (han0 : 0 < an) (ha : 0 < a) (hmu : 0 < G * (m + pr.m)) :
    o.pal_h = h ∧ o.pal_k = k ∧ o.pal_ix = ix ∧ o.pal_iy = iy ∧ o.a = a ∧ o.d = a * (1 - q) := by
  -- denominators
  have hq1 : 0 < 1 - q := by
    have h1 : q ^ 2 ≤ (k ^ 2 + h ^ 2) * (c ^ 2 + s ^ 2) := by
      rw [hq]; nlinarith [sq_nonneg (k * s - h * c)]
    rw [hcs, mul_one] at h1
    have h2 : k ^ 2 + h ^ 2 < 1 := by nlinarith
    nlinarith
  have hD2 : 0 < 2 - l := by linarith
  have II := pal_I1 c s l h k hcs hl
  dsimp only at II
  rw [← hp, ← hq] at II
  obtain ⟨I1, I2, I4, I5, I6⟩ := II
  have JJ := pal_inplane_scaled a an l (1 - q) (2 - l)
    (c * (2 - l) + p * h - k * (2 - l)) (s * (2 - l) - p * k - h * (2 - l))
    (-s * (2 - l) + q * h) (c * (2 - l) - q * k) k h q (ne_of_gt ha) (ne_of_gt han0) (ne_of_gt hq1) (ne_of_gt hD2)
    I1 I2 I4 I5 (by rw [I6])
  dsimp only at JJ
  obtain ⟨J1, J2, J4, J5, J6⟩ := JJ
  have EE := palCore_rel pr m a k h ix iy p q s c l iz an
  dsimp only at EE
  obtain ⟨e1, e2, e3, e4, e5, e6, e7⟩ := EE
  -- name the in-plane quantities
  have hxi : a * (c + p / (2 - l) * h - k) = a * (c * (2 - l) + p * h - k * (2 - l)) / (2 - l) := by
    field_simp
  have heta : a * (s - p / (2 - l) * k - h) = a * (s * (2 - l) - p * k - h * (2 - l)) / (2 - l) := by
    field_simp
  have hdxi : an / (1 - q) * (-s + q / (2 - l) * h) = an / (1 - q) * ((-s * (2 - l) + q * h) / (2 - l)) := by
    field_simp
  have hdeta : an / (1 - q) * (c - q / (2 - l) * k) = an / (1 - q) * ((c * (2 - l) - q * k) / (2 - l)) := by
    field_simp
  simp only [hxi, heta, hdxi, hdeta] at e1 e2 e3 e4 e5 e6
  generalize a * (c * (2 - l) + p * h - k * (2 - l)) / (2 - l) = xi at *
  generalize a * (s * (2 - l) - p * k - h * (2 - l)) / (2 - l) = eta at *
  generalize an / (1 - q) * ((-s * (2 - l) + q * h) / (2 - l)) = dxi at *
  generalize an / (1 - q) * ((c * (2 - l) - q * k) / (2 - l)) = deta at *
  have hCpos : 0 < xi * deta - eta * dxi := by rw [J2]; exact mul_pos (mul_pos ha han0) hl0
  have RR := pal_rotation xi eta dxi deta ix iy iz hiz (ne_of_gt hCpos) (ne_of_gt hiz0)
  dsimp only at RR
  obtain ⟨r1, r2, r3, r4, r5, r6, r7, r8, r9, r10, r11⟩ := RR
  simp only [← e1, ← e2, ← e3, ← e4, ← e5, ← e6] at r1 r2 r3 r4 r5 r6 r7 r8 r9 r10 r11
  -- the reader
  unfold orbitFromParticle at ho
  split at ho
  · cases ho
  simp only at ho
  split at ho
  · cases ho
  injection ho with ho
  obtain ⟨i1, i2, i3, i4, i5, i6, i7⟩ := @invariants_rel K _ _ _ L G (fromPalCore pr m a k h ix iy p q s c l iz an) pr
  obtain ⟨j1, j2, j3, j4, j5, j6⟩ := @invariants_rel2 K _ _ _ L G (fromPalCore pr m a k h ix iy p q s c l iz an) pr
  obtain ⟨o1, o2, o3, o4, o5, o6⟩ := @orbitBody_pal K _ _ _ L v (@invariants K L.orbitK G (fromPalCore pr m a k h ix iy p q s c l iz an) pr) t0
  rw [ho] at o1 o2 o3 o4 o5 o6
  generalize @invariants K L.orbitK G (fromPalCore pr m a k h ix iy p q s c l iz an) pr = I at *
  generalize fromPalCore pr m a k h ix iy p q s c l iz an = P at *
  simp only [← i1, ← i2, ← i3, ← j2, ← j3, ← j4] at r1 r2 r3 r4 r5 r6 r7 r8 r9 r10 r11 i4 i5 i6
  simp only [← i4, ← i5, ← i6] at r3 r4 r5 r6 r7 r8 r9 r10 r11
  generalize hCdef : xi * deta - eta * dxi = C at *
  have hd : I.d = a * (1 - q) := by
    rw [j5]; apply sqrt_sq_pos hsqrt _ _ (le_of_lt (mul_pos ha hq1))
    rw [r1, J1]; ring
  have hh : I.h = C := by
    rw [i7]; exact sqrt_sq_pos hsqrt _ _ (le_of_lt hCpos) r6
  have hmuI : I.mu = an ^ 2 * a := by
    rw [j1, e7, han]; field_simp
  have hC : C = a * an * (1 - l) := J2
  have hCne : C ≠ 0 := ne_of_gt hCpos
  have hane : a ≠ 0 := ne_of_gt ha
  have hanne : an ≠ 0 := ne_of_gt han0
  have hq1ne : 1 - q ≠ 0 := ne_of_gt hq1
  have hizne : iz ≠ 0 := ne_of_gt hiz0
  rw [hh] at o1 o2 o3 o4
  have hfac : L.sqrt (2 / (1 + I.hz / C)) = 2 / iz := by
    apply sqrt_sq_pos hsqrt _ _ (le_of_lt (div_pos (by norm_num) hiz0))
    have : 1 + I.hz / C = iz ^ 2 / 2 := by
      have : 1 + I.hz / C = (C + I.hz) / C := by field_simp
      rw [this, r7]; field_simp
    rw [this]; field_simp
  refine ⟨?_, ?_, ?_, ?_, ?_, ?_⟩
  · rw [o2, r11, r9, hd, hmuI, hC]; exact J5
  · rw [o1, r10, r8, hd, hmuI, hC]; exact J4
  · rw [o3, hfac, r4]; field_simp
  · rw [o4, hfac, r3]; field_simp
  · rw [o5, j6, r2, J6, hd, hmuI]
    have hden : an ^ 2 * (1 + q) / (1 - q) - 2 * (an ^ 2 * a / (a * (1 - q))) = -(an ^ 2) := by
      field_simp; ring
    rw [hden]; field_simp
  · rw [o6, hd]

theorem fromPal_eq (v : Variant) (G : K) (pr : Part K) (m a lam k h ix iy : K) :
    @fromPal K L.orbitK v G pr m a lam k h ix iy =
      fromPalCore pr m a k h ix iy (@solveKeplerPal K L.orbitK v h k lam).1 (@solveKeplerPal K L.orbitK v h k lam).2
        (L.sin (lam + (@solveKeplerPal K L.orbitK v h k lam).1)) (L.cos (lam + (@solveKeplerPal K L.orbitK v h k lam).1))
        (1 - L.sqrt (1 - h * h - k * k)) (L.sqrt (L.fabs (4 - ix * ix - iy * iy))) (L.sqrt (G * (m + pr.m) / a)) := rfl

/-- reader ∘ `reb_particle_from_pal`: the only numerical hypothesis is that the solver's
    output (p, q) satisfies Pal's Kepler equation -/
theorem reader_of_fromPal (hsq : ∀ x, L.cos x ^ 2 + L.sin x ^ 2 = 1)
    (hsqrt : ∀ x, 0 ≤ x → 0 ≤ L.sqrt x ∧ L.sqrt x ^ 2 = x) (hfabs : ∀ x, 0 ≤ x → L.fabs x = x)
    (v : Variant) (G : K) (pr : Part K) (m a lam k h ix iy t0 : K) (o : Orb K)
    (ho : @orbitFromParticle K L.orbitK v G (@fromPal K L.orbitK v G pr m a lam k h ix iy) pr t0 = .ok o)
    (hK : (@solveKeplerPal K L.orbitK v h k lam).1 = k * L.sin (lam + (@solveKeplerPal K L.orbitK v h k lam).1)
            - h * L.cos (lam + (@solveKeplerPal K L.orbitK v h k lam).1) ∧
          (@solveKeplerPal K L.orbitK v h k lam).2 = k * L.cos (lam + (@solveKeplerPal K L.orbitK v h k lam).1)
            + h * L.sin (lam + (@solveKeplerPal K L.orbitK v h k lam).1))
    (ha : 0 < a) (hmu : 0 < G * (m + pr.m)) (he : h * h + k * k < 1) (hi : ix * ix + iy * iy < 4) :
    o.pal_h = h ∧ o.pal_k = k ∧ o.pal_ix = ix ∧ o.pal_iy = iy ∧ o.a = a ∧
    o.d = a * (1 - (@solveKeplerPal K L.orbitK v h k lam).2) := by
  rw [fromPal_eq] at ho
  have hb0 : 0 < 1 - h * h - k * k := by linarith
  obtain ⟨b0, b2⟩ := hsqrt _ (le_of_lt hb0)
  have hbpos : 0 < L.sqrt (1 - h * h - k * k) := by
    rcases lt_or_eq_of_le b0 with hh | hh
    · exact hh
    · exfalso; rw [← hh] at b2; linarith [show (0:K) ^ 2 = 0 by ring]
  have hz0 : 0 < 4 - ix * ix - iy * iy := by linarith
  rw [hfabs _ (le_of_lt hz0)] at ho
  obtain ⟨z0, z2⟩ := hsqrt _ (le_of_lt hz0)
  have hzpos : 0 < L.sqrt (4 - ix * ix - iy * iy) := by
    rcases lt_or_eq_of_le z0 with hh | hh
    · exact hh
    · exfalso; rw [← hh] at z2; linarith [show (0:K) ^ 2 = 0 by ring]
  have hn0 : 0 < G * (m + pr.m) / a := div_pos hmu ha
  obtain ⟨n0, n2⟩ := hsqrt _ (le_of_lt hn0)
  have hnpos : 0 < L.sqrt (G * (m + pr.m) / a) := by
    rcases lt_or_eq_of_le n0 with hh | hh
    · exact hh
    · exfalso; rw [← hh] at n2; linarith [show (0:K) ^ 2 = 0 by ring]
  exact reader_of_palCore hsqrt v G pr m a k h ix iy _ _ _ _ _ _ _ t0 o ho
    (by linear_combination hsq (lam + (@solveKeplerPal K L.orbitK v h k lam).1)) hK.1 hK.2
    (by rw [show (1:K) - (1 - L.sqrt (1 - h * h - k * k)) = L.sqrt (1 - h * h - k * k) by ring, b2]; ring)
    (by linarith) (by rw [z2]; ring) hzpos n2 hnpos ha hmu

end RV.Orbit
